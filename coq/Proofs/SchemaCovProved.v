(* Proofs/SchemaCovProved.v -- C02 coverage extension: the larger coverage predicates.  Same
   architecture as Proofs/SchemaProved.v (leaf_proved / constr_proved / init_proved / kind_proved /
   class_proved), with the property kinds, co-constraint forms and __init__ forms whose soundness
   lemma is proved in Proofs/SchemaCov*.v added.  Definitions only.

   Table side conditions that come with the added forms (each is a decidable check of the class table,
   evaluated by the kernel; without it the soundness statement of the form is false of the model):
     KHashes names        every specification name infers to an algorithm (hash_names_ok)
     KExtensions v        every registered extension class of the version is covered
     CRaiseIf / CWhen     every property whose truthiness is read is a property of the class whose kind
                          is not an embedded object (cond_ok); a property compared as a timestamp is a
                          timestamp property of the class                                             *)
From Coq Require Import NArith ZArith List String Bool.
From V Require Import Base.UString Base.Json Model.SchemaTypes Model.PyBase Model.Schema
     Spec.SchemaRefine Proofs.SchemaScope Proofs.SchemaObject Proofs.SchemaProved Proofs.SchemaCovHashes.
Import ListNotations.

Definition leaf_proved2 (k : pkind) : bool :=
  leaf_proved k ||
  match k with
  | KId _ _ | KRef _ _ _ _ | KFloat _ _ => true
  | KHashes names _ => hash_names_ok names
  | KMarking _ => true     (* MarkingProperty.clean refuses every JSON value: nothing to show at the kind *)
  | _ => false
  end.

(* a value of this kind is truthy exactly when its serialization is (not an object that may lose
   every member to default-elision) *)
Definition truthy_safe (k : pkind) : bool :=
  match k with KEmbedded _ | KStixObject _ | KMarking _ => false | _ => true end.

Definition is_time_kind (k : pkind) : bool := match k with KTime _ _ => true | _ => false end.
Definition is_marking_kind (k : pkind) : bool := match k with KMarking _ => true | _ => false end.

Definition time_slot (c : cls) (p : ustring) : bool :=
  match find_slot c p with Some s => is_time_kind (skind s) | None => false end.

(* the conditions the constraint methods evaluate: what the proof needs of the properties read *)
Fixpoint cond_ok (c : cls) (q : ccond) : bool :=
  match q with
  | QTruthy p => match find_slot c p with Some s => truthy_safe (skind s) || is_marking_kind (skind s) | None => false end
  | QIsTrue _ | QIsNotFalse _ | QIsNotNone _ | QHas _ => true
  | QLt a b | QLe a b => time_slot c a && time_slot c b   (* compared as instants *)
  | QAnd a b | QOr a b => cond_ok c a && cond_ok c b
  | QNot a => cond_ok c a
  end.

(* v21 Indicator: `pattern_type` is a required string property of the class (the specification's
   check says "invalid" when it is not a string, the library's says nothing) *)
Definition pat21_ok (c : cls) : bool :=
  match find_slot c (u "pattern_type") with
  | Some s => sreq s && is_stringy (skind s)
  | None => false
  end.

(* check_tlp_marking reads `definition_type` as a plain string and `definition` as a wrapped marking object *)
Definition tlp_ok (c : cls) : bool :=
  match find_slot c (u "definition_type"), find_slot c (u "definition") with
  | Some s1, Some s2 => is_stringy (skind s1) && is_marking_kind (skind s2)
  | _, _ => false
  end.

Fixpoint constr_proved2 (c : cls) (k : constr) {struct k} : bool :=
  constr_proved k ||
  match k with
  | CRaiseIf q _ => cond_ok c q
  | CWhen q body =>
    cond_ok c q &&
    (fix go (l : list constr) : bool :=
       match l with [] => true | x :: r => constr_proved2 c x && negb (uses_default_checked x) && go r end) body
  | CLegalHashes _ => true
  | CSocketOptions => true      (* repaired variant vr_sock_int: integers proper *)
  | CTlp _ => tlp_ok c
  | CPatternValidator V20 => true
  | CPatternValidator V21 => pat21_ok c
  | _ => false
  end.


(* the class registered for type name t writes `type: t` (fixed value, fixed default) and has no
   class-specific __init__ wrapping *)
Definition class_typed (w : world) (cid t : ustring) : bool :=
  match find_class (wclasses w) cid with
  | Some c =>
    init_proved (cinit c) && unodup (map sname (cslots c)) &&
    match find_slot c (u "type") with
    | Some s => match skind s, sdef s with KFixed fv _, DFixed => ustr_eqb fv t | _, _ => false end
    | None => false
    end
  | None => false
  end.

(* a registered marking class (TLPMarking, StatementMarking): no class-specific wrapping of its own,
   some required property (so the object is never empty), and a `tlp` property, if any, is required
   (so it is never elided from the serialization) *)
Definition marking_cls_ok (w : world) (cid : ustring) : bool :=
  match find_class (wclasses w) cid with
  | Some c =>
    init_proved (cinit c) && unodup (map sname (cslots c)) &&
    match cfamily c with FSco => false | _ => true end &&
    existsb sreq (cslots c) &&
    forallb (fun s => negb (ustr_eqb (sname s) (u "tlp")) || sreq s) (cslots c)
  | None => false
  end.

(* the __init__ forms: those of Proofs/SchemaProved.v, and v21 MarkingDefinition.__init__ (wrap `definition`
   into the registered marking class).  The v20 form also switches the precision of `created` per
   instance and is NOT covered: known finding C02-v20-marking-definition-created-without-milliseconds. *)
Definition init_proved2 (w : world) (cp : ustring -> bool) (c : cls) : bool :=
  init_proved (cinit c) ||
  match cinit c with
  | IMarkingDefinition V21 =>
    forallb (fun kc => cp (snd kc) && marking_cls_ok w (snd kc)) (rmarkings (reg_of w V21)) &&
    match find_slot c (u "definition") with Some s => match skind s with KMarking V21 => true | _ => false end | None => false end
  | _ => false
  end.

(* cp: "the class with this id is covered", one nesting level down *)
Fixpoint kind_proved2 (w : world) (cp : ustring -> bool) (k : pkind) : bool :=
  match k with
  | KList k' => kind_proved2 w cp k'
  | KEmbedded cid | KListOf cid => cp cid
  | KExtensions vv => forallb (fun kc => cp (snd kc)) (rextensions (reg_of w vv))
  | KObservable vv => forallb (fun kc => cp (snd kc) && class_typed w (snd kc) (fst kc)) (robservables (reg_of w vv))
  | _ => leaf_proved2 k
  end.

Fixpoint class_proved2 (n : nat) (w : world) (cid : ustring) : bool :=
  match n with
  | O => false
  | S m =>
    match find_class (wclasses w) cid with
    | Some c => init_proved2 w (class_proved2 m w) c && class_wf c &&
                forallb (fun s => kind_proved2 w (class_proved2 m w) (skind s)) (cslots c) &&
                forallb (constr_proved2 c) (ext_constr c ++ ccons c)
    | None => false
    end
  end.

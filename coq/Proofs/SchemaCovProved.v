(* Proofs/SchemaCovProved.v -- C02 coverage extension: the larger coverage predicates.  Same
   architecture as Proofs/SchemaProved.v (leaf_proved / constr_proved / init_proved / kind_proved /
   class_proved), with the property kinds, co-constraint forms and __init__ forms whose soundness
   lemma is proved in Proofs/SchemaCov*.v added.  Definitions only.

   Table side conditions that come with the added forms (each is a decidable check of the class table,
   evaluated by the kernel; without it the soundness statement of the form is false of the model):
     KHashes names        every specification name infers to an algorithm (hash_names_ok)
     KExtensions v        every registered extension class of the version is covered
     CRaiseIf / CWhen     every property whose truthiness is read is a property of the class whose kind
                          is not an embedded object (cond_ok); a property compared as a timestamp is a
                          timestamp property of the class                                             *)
From Coq Require Import NArith ZArith List String Bool.
From V Require Import Base.UString Base.Json Model.SchemaTypes Model.PyBase Model.Schema
     Spec.SchemaRefine Proofs.SchemaScope Proofs.SchemaObject Proofs.SchemaProved Proofs.SchemaCovHashes.
Import ListNotations.

Definition leaf_proved2 (k : pkind) : bool :=
  leaf_proved k ||
  match k with
  | KId _ _ | KRef _ _ _ _ | KFloat _ _ => true
  | KHashes names _ => hash_names_ok names
  | KMarking _ => true     (* MarkingProperty.clean refuses every JSON value: nothing to show at the kind *)
  | _ => false
  end.

(* a value of this kind is truthy exactly when its serialization is (not an object that may lose
   every member to default-elision) *)
Definition truthy_safe (k : pkind) : bool :=
  match k with KEmbedded _ | KStixObject _ | KMarking _ => false | _ => true end.

Definition is_time_kind (k : pkind) : bool := match k with KTime _ _ => true | _ => false end.

Definition time_slot (c : cls) (p : ustring) : bool :=
  match find_slot c p with Some s => is_time_kind (skind s) | None => false end.

(* the conditions the constraint methods evaluate: what the proof needs of the properties read *)
Fixpoint cond_ok (c : cls) (q : ccond) : bool :=
  match q with
  | QTruthy p => match find_slot c p with Some s => truthy_safe (skind s) | None => false end
  | QIsTrue _ | QIsNotFalse _ | QIsNotNone _ | QHas _ => true
  | QLt a b | QLe a b => time_slot c a && time_slot c b   (* compared as instants *)
  | QAnd a b | QOr a b => cond_ok c a && cond_ok c b
  | QNot a => cond_ok c a
  end.

Fixpoint constr_proved2 (c : cls) (k : constr) {struct k} : bool :=
  constr_proved k ||
  match k with
  | CRaiseIf q _ => cond_ok c q
  | CWhen q body =>
    cond_ok c q &&
    (fix go (l : list constr) : bool :=
       match l with [] => true | x :: r => constr_proved2 c x && negb (uses_default_checked x) && go r end) body
  | CLegalHashes _ => true
  | CSocketOptions => true      (* repaired variant vr_sock_int: integers proper *)
  | _ => false
  end.

Definition init_proved2 (i : preinit) : bool := init_proved i.

(* cp: "the class with this id is covered", one nesting level down *)
Fixpoint kind_proved2 (w : world) (cp : ustring -> bool) (k : pkind) : bool :=
  match k with
  | KList k' => kind_proved2 w cp k'
  | KEmbedded cid | KListOf cid => cp cid
  | KExtensions vv => forallb (fun kc => cp (snd kc)) (rextensions (reg_of w vv))
  | _ => leaf_proved2 k
  end.

Fixpoint class_proved2 (n : nat) (w : world) (cid : ustring) : bool :=
  match n with
  | O => false
  | S m =>
    match find_class (wclasses w) cid with
    | Some c => init_proved2 (cinit c) && class_wf c &&
                forallb (fun s => kind_proved2 w (class_proved2 m w) (skind s)) (cslots c) &&
                forallb (constr_proved2 c) (ext_constr c ++ ccons c)
    | None => false
    end
  end.

(* Proofs/PatternTokens.v -- C10: the text a constant prints to is a token of
   the right lexical class, and reading it back gives the constant.
   Integers (str / int), floats in the positional range of repr, timestamps.  *)
From Coq Require Import Decimal DecimalN DecimalPos DecimalFacts.
From Coq Require Import NArith ZArith List Bool Lia.
From V Require Import Model.PatternSyntax Spec.PatternSpec Proofs.PatternR Proofs.PatternNumbers.
Import ListNotations.
Open Scope N_scope.

(* ------------------------------------------------------------------ *)
(** * Integers *)

Lemma to_uint_normal : forall n, unorm (N.to_uint n) = N.to_uint n.
Proof. intros n. rewrite <- (DecimalN.Unsigned.of_to n) at 2. symmetry. apply DecimalN.Unsigned.to_of. Qed.

Lemma nat_of_digits_dec : forall n, nat_of_digits (dec_of_N n) = Some n.
Proof.
  intros n. unfold nat_of_digits, dec_of_N.
  rewrite uint_of_digits_of_uint, DecimalN.Unsigned.of_to.
  destruct (digits_of_uint (N.to_uint n)) eqn:E; [|reflexivity].
  exfalso. apply digits_of_uint_nil in E.
  pose proof (to_uint_normal n) as U. rewrite E in U. cbn in U. discriminate.
Qed.

Lemma nzhead_head : forall d, match nzhead d with D0 _ => False | _ => True end.
Proof. induction d; cbn; try exact I. exact IHd. Qed.

Lemma int_body_dec : forall n, int_body_ok (dec_of_N n) = true.
Proof.
  intros n. unfold dec_of_N. pose proof (to_uint_normal n) as U.
  remember (N.to_uint n) as d eqn:Ed. clear Ed.
  pose proof (nzhead_head d) as Hh. unfold unorm in U.
  destruct (nzhead d) as [|u|u|u|u|u|u|u|u|u|u] eqn:E; try contradiction; subst d;
    try reflexivity; cbn [digits_of_uint int_body_ok]; rewrite (digits_of_uint_digits u); reflexivity.
Qed.

Lemma dec_of_N_head : forall n, match dec_of_N n with c :: _ => is_digit c = true | [] => False end.
Proof.
  intros n. pose proof (int_body_dec n) as H. destruct (dec_of_N n) as [|c r]; [discriminate|].
  cbn [int_body_ok] in H. apply andb_true_iff in H. destruct H as [H _]. apply andb_true_iff in H. tauto.
Qed.

(* int(str(z)) = z *)
Lemma py_int_dec : forall z, py_int (dec_of_Z z) = Some z.
Proof.
  intros z. unfold py_int. destruct z as [|p|p]; cbn [dec_of_Z].
  - reflexivity.
  - unfold split_sign. pose proof (dec_of_N_head (Npos p)) as H.
    destruct (dec_of_N (Npos p)) as [|c r] eqn:E; [contradiction|].
    destruct (is_digit_not_sign c H) as [A B]. rewrite A, B. rewrite <- E, nat_of_digits_dec. reflexivity.
  - unfold split_sign, c_hyphen. change (45 =? 45) with true. cbn iota. rewrite nat_of_digits_dec. reflexivity.
Qed.

Definition int_tok (z : Z) : token := Tok (num_kind (dec_of_Z z) KIntPos KIntNeg) (dec_of_Z z).

Lemma int_tok_kind : forall z, (tk (int_tok z) = KIntPos \/ tk (int_tok z) = KIntNeg) /\ token_ok (int_tok z) = true.
Proof.
  intros z. unfold int_tok, token_ok. cbn [tk tx]. destruct z as [|p|p]; cbn [dec_of_Z].
  - split; [left|]; reflexivity.
  - pose proof (dec_of_N_head (Npos p)) as H. pose proof (int_body_dec (Npos p)) as B.
    destruct (dec_of_N (Npos p)) as [|c r] eqn:E; [contradiction|].
    destruct (is_digit_not_sign c H) as [A A']. unfold num_kind. rewrite A.
    split; [left; reflexivity|]. unfold intpos_ok. rewrite A'. exact B.
  - unfold num_kind, c_hyphen. change (45 =? 45) with true. cbn iota. split; [right; reflexivity|].
    unfold intneg_ok. change (45 =? 45) with true. cbn [andb]. apply int_body_dec.
Qed.

(* ------------------------------------------------------------------ *)
(** * Floats (positional range of repr) *)

Definition fnorm (f : fval) : Prop :=
  digs (f_ip f) = true /\ digs (f_fp f) = true /\ strip0 (f_ip f) = f_ip f /\ rstrip0 (f_fp f) = f_fp f.

Lemma split_at_digits : forall a b, forallb is_digit a = true -> split_at 46 (a ++ 46 :: b) = Some (a, b).
Proof.
  induction a as [|c a IH]; intros b H; [reflexivity|].
  cbn [forallb] in H. apply andb_true_iff in H. destruct H as [Hc Ha].
  cbn [app split_at]. assert (E : (c =? 46) = false).
  { unfold is_digit in Hc. apply andb_true_iff in Hc. destruct Hc as [H1 H2]. apply N.leb_le in H1, H2. apply N.eqb_neq. lia. }
  rewrite E, (IH b Ha). reflexivity.
Qed.

Lemma or0_digs : forall l, digs l = true -> digs (or0 l) = true.
Proof. intros [|c r] H; [reflexivity|exact H]. Qed.
Lemma or0_nonnil : forall l, is_nil (or0 l) = false.
Proof. intros [|c r]; reflexivity. Qed.
Lemma strip0_or0 : forall l, strip0 l = l -> strip0 (or0 l) = l.
Proof. intros [|c r] H; [reflexivity|exact H]. Qed.
Lemma rstrip0_or0 : forall l, rstrip0 l = l -> rstrip0 (or0 l) = l.
Proof. intros [|c r] H; [reflexivity|exact H]. Qed.

Lemma py_float_body_print : forall neg ip fp,
  digs ip = true -> digs fp = true -> strip0 ip = ip -> rstrip0 fp = fp ->
  py_float_body neg (or0 ip ++ [46] ++ or0 fp) = Some (FVal neg ip fp).
Proof.
  intros neg ip fp Hi Hf Si Sf. unfold py_float_body. cbn [app].
  rewrite (split_at_digits (or0 ip) (or0 fp) (or0_digs ip Hi)).
  rewrite (or0_digs ip Hi), (or0_digs fp Hf), or0_nonnil. cbn [andb negb].
  rewrite (strip0_or0 ip Si), (rstrip0_or0 fp Sf). reflexivity.
Qed.

Lemma or0_head_digit : forall l r, digs l = true -> match or0 l ++ r with c :: _ => is_digit c = true | [] => False end.
Proof.
  intros [|c l] r H; cbn; [reflexivity|]. unfold digs in H. cbn [forallb] in H. apply andb_true_iff in H. tauto.
Qed.

Lemma float_body_print : forall ip fp, digs ip = true -> digs fp = true -> float_body_ok (or0 ip ++ [46] ++ or0 fp) = true.
Proof.
  intros ip fp Hi Hf. unfold float_body_ok. cbn [app].
  rewrite (split_at_digits (or0 ip) (or0 fp) (or0_digs ip Hi)).
  change (forallb is_digit) with digs. rewrite (or0_digs ip Hi), (or0_digs fp Hf), or0_nonnil. reflexivity.
Qed.

Definition float_tok (f : fval) : token := Tok (num_kind (print_float f) KFloatPos KFloatNeg) (print_float f).

(* float(str(x)) = x, and str(x) is a Float literal (positional notation) *)
Lemma float_print_parse : forall f, fnorm f ->
  py_float (print_float f) = Some f /\
  (tk (float_tok f) = KFloatPos \/ tk (float_tok f) = KFloatNeg) /\ token_ok (float_tok f) = true.
Proof.
  intros [neg ip fp] [Hi [Hf [Si Sf]]]. cbn [f_ip f_fp] in *.
  unfold float_tok, token_ok. rewrite print_float_rep. cbn [tk tx f_neg f_ip f_fp].
  pose proof (or0_head_digit ip ([46] ++ or0 fp) Hi) as Hh.
  pose proof (float_body_print ip fp Hi Hf) as Hb.
  pose proof (py_float_body_print neg ip fp Hi Hf Si Sf) as Hpy.
  destruct neg.
  - cbn [app]. unfold py_float, split_sign, num_kind. change (45 =? 45) with true. cbn iota.
    split; [exact Hpy|]. split; [right; reflexivity|].
    unfold floatneg_ok. change (45 =? 45) with true. cbn [andb]. exact Hb.
  - cbn [app] in *. destruct (or0 ip ++ 46 :: or0 fp) as [|c r] eqn:E; [contradiction|].
    destruct (is_digit_not_sign c Hh) as [A B].
    unfold py_float, split_sign, num_kind. rewrite A, B. split; [exact Hpy|]. split; [left; reflexivity|].
    unfold floatpos_ok. rewrite B. exact Hb.
Qed.

(* what float(text) returns is normalised *)
Lemma strip0_idem : forall l, strip0 (strip0 l) = strip0 l.
Proof. induction l as [|c r IH]; [reflexivity|]. cbn [strip0]. destruct (c =? 48) eqn:E; [exact IH|]. cbn [strip0]. rewrite E. reflexivity. Qed.
Lemma rstrip0_idem : forall l, rstrip0 (rstrip0 l) = rstrip0 l.
Proof. intros l. unfold rstrip0. rewrite rev_involutive, strip0_idem. reflexivity. Qed.
Lemma strip0_digs : forall l, digs l = true -> digs (strip0 l) = true.
Proof.
  induction l as [|c r IH]; intros H; [reflexivity|]. cbn [strip0]. destruct (c =? 48); [|exact H].
  apply IH. unfold digs in *. cbn [forallb] in H. apply andb_true_iff in H. tauto.
Qed.
Lemma digs_rev : forall l, digs (rev l) = digs l.
Proof.
  intros l. unfold digs. induction l as [|c r IH]; [reflexivity|]. cbn [rev forallb]. rewrite forallb_app, IH. cbn. rewrite andb_true_r, andb_comm. reflexivity.
Qed.
Lemma rstrip0_digs : forall l, digs l = true -> digs (rstrip0 l) = true.
Proof. intros l H. unfold rstrip0. rewrite digs_rev. apply strip0_digs. rewrite digs_rev. exact H. Qed.

Lemma py_float_norm : forall s f, py_float s = Some f -> fnorm f.
Proof.
  intros s f H. unfold py_float in H. destruct (split_sign s) as [neg r]. unfold py_float_body in H.
  destruct (split_at 46 r) as [[a b]|]; [|discriminate].
  destruct (digs a) eqn:Da; [|discriminate]. destruct (digs b) eqn:Db; [|discriminate].
  cbn [andb] in H. destruct (negb _); [|discriminate]. inversion H; subst f. unfold fnorm. cbn [f_ip f_fp].
  repeat split; [apply strip0_digs; exact Da|apply rstrip0_digs; exact Db|apply strip0_idem|apply rstrip0_idem].
Qed.

(* ------------------------------------------------------------------ *)
(** * Timestamps *)

Ltac Zify.zify_post_hook ::= Z.to_euclidean_division_equations.


Lemma is_digit_mod : forall x, is_digit (48 + x mod 10) = true.
Proof. intros x. unfold is_digit. apply andb_true_iff. split; apply N.leb_le; lia. Qed.

Lemma d2_pad2 : forall n, n < 100 -> d2 (48 + n / 10 mod 10) (48 + n mod 10) = n.
Proof. intros n H. unfold d2. lia. Qed.

Lemma d2_pad4 : forall y, y < 10000 ->
  d2 (48 + y / 1000 mod 10) (48 + y / 100 mod 10) * 100 + d2 (48 + y / 10 mod 10) (48 + y mod 10) = y.
Proof. intros y H. unfold d2. lia. Qed.

Lemma days_in_month_le : forall y m, days_in_month y m <= 31.
Proof.
  intros y m. unfold days_in_month. destruct (m =? 2); [destruct (is_leap y); lia|].
  destruct ((m =? 4) || (m =? 6) || (m =? 9) || (m =? 11)); lia.
Qed.

(* the fraction: microsecond digits without trailing zeros, and back *)
Lemma strip0_decomp : forall l, l = repeat 48 (count0 l) ++ strip0 l.
Proof.
  induction l as [|c r IH]; [reflexivity|]. cbn [count0 strip0]. destruct (c =? 48) eqn:E; [|reflexivity].
  apply N.eqb_eq in E. subst c. cbn [repeat List.app]. f_equal. exact IH.
Qed.

Lemma rev_repeat48 : forall k, rev (repeat 48 k) = repeat 48 k.
Proof.
  induction k as [|k IH]; [reflexivity|]. cbn [repeat rev]. rewrite IH.
  clear IH. induction k as [|k IH]; [reflexivity|]. cbn [repeat List.app]. rewrite IH. reflexivity.
Qed.

Lemma rstrip0_decomp : forall l, exists k, l = rstrip0 l ++ repeat 48 k.
Proof.
  intros l. exists (count0 (rev l)). unfold rstrip0.
  rewrite <- (rev_involutive l) at 1. rewrite (strip0_decomp (rev l)) at 1.
  rewrite rev_app_distr, rev_repeat48. reflexivity.
Qed.

Lemma pad_right6_exact : forall x k, List.length (x ++ repeat 48 k) = 6%nat -> pad_right6 x = x ++ repeat 48 k.
Proof.
  intros x k H. unfold pad_right6. rewrite app_length, repeat_length in H.
  destruct x as [|a [|b [|c [|d [|e [|f [|g r]]]]]]]; cbn [List.length] in H;
    try (assert (K : k = 6%nat) by lia; subst k; reflexivity);
    try (assert (K : k = 5%nat) by lia; subst k; reflexivity);
    try (assert (K : k = 4%nat) by lia; subst k; reflexivity);
    try (assert (K : k = 3%nat) by lia; subst k; reflexivity);
    try (assert (K : k = 2%nat) by lia; subst k; reflexivity);
    try (assert (K : k = 1%nat) by lia; subst k; reflexivity);
    try (assert (K : k = 0%nat) by lia; subst k; reflexivity).
  lia.
Qed.

Lemma pad_rstrip : forall us, List.length us = 6%nat -> pad_right6 (rstrip0 us) = us.
Proof.
  intros us H. destruct (rstrip0_decomp us) as [k E]. rewrite E at 2. apply pad_right6_exact. rewrite <- E. exact H.
Qed.

Lemma rstrip0_length : forall l, (List.length (rstrip0 l) <= List.length l)%nat.
Proof. intros l. destruct (rstrip0_decomp l) as [k E]. rewrite E at 2. rewrite app_length. lia. Qed.

(* the text between the quotes of print_ts *)
Definition ts_frac_text (t : tsval) : ustring := match rstrip0 (ts_us t) with [] => [] | fr => 46 :: fr end.
Definition ts_body (t : tsval) : ustring :=
  pad4 (ts_y t) ++ [45] ++ pad2 (ts_mo t) ++ [45] ++ pad2 (ts_d t) ++ [84] ++
  pad2 (ts_h t) ++ [58] ++ pad2 (ts_mi t) ++ [58] ++ pad2 (ts_s t) ++ ts_frac_text t ++ [90].

Lemma print_ts_body : forall t, print_ts t = 116 :: c_quote :: ts_body t ++ [c_quote].
Proof.
  intros t. unfold print_ts, ts_body, ts_frac_text. cbn [u List.app pad4 pad2].
  repeat (rewrite <- app_assoc; cbn [List.app]). reflexivity.
Qed.

Lemma ts_frac_print : forall t, digs (ts_us t) = true ->
  ts_frac (ts_frac_text t ++ [90]) = Some (rstrip0 (ts_us t)).
Proof.
  intros t D. unfold ts_frac_text. pose proof (rstrip0_digs (ts_us t) D) as Dr.
  destruct (rstrip0 (ts_us t)) as [|c fr] eqn:E; [reflexivity|].
  cbn [List.app ts_frac]. change (46 =? 90) with false. change (46 =? 46) with true. cbn [andb].
  change (c :: fr ++ [90]) with ((c :: fr) ++ [90]).
  unfold last_is. rewrite last_last, removelast_last. change (90 =? 90) with true.
  unfold digs in Dr. rewrite Dr. reflexivity.
Qed.

Lemma ts_split_body : forall t rest,
  ts_y t < 10000 -> ts_mo t < 100 -> ts_d t < 100 -> ts_h t < 100 -> ts_mi t < 100 -> ts_s t < 100 ->
  ts_split (pad4 (ts_y t) ++ [45] ++ pad2 (ts_mo t) ++ [45] ++ pad2 (ts_d t) ++ [84] ++
            pad2 (ts_h t) ++ [58] ++ pad2 (ts_mi t) ++ [58] ++ pad2 (ts_s t) ++ rest) =
  Some (TsF (ts_y t) (ts_mo t) (ts_d t) (ts_h t) (ts_mi t) (ts_s t) rest).
Proof.
  intros t rest Hy Hmo Hd Hh Hmi Hs. cbn [pad4 pad2 List.app ts_split forallb].
  rewrite !is_digit_mod. cbn [andb]. 
  change (45 =? 45) with true. change (84 =? 84) with true. change (58 =? 58) with true. cbn [andb].
  rewrite (d2_pad4 _ Hy), (d2_pad2 _ Hmo), (d2_pad2 _ Hd), (d2_pad2 _ Hh), (d2_pad2 _ Hmi), (d2_pad2 _ Hs). reflexivity.
Qed.

Ltac split_ands H :=
  repeat match type of H with
         | (_ && _) = true => let H' := fresh "B" in apply andb_true_iff in H; destruct H as [H H']
         end.

Lemma ts_print_parse : forall t, ts_ok t = true ->
  py_strptime (ts_body t) = Some t /\ ts_inner_ok (ts_body t) = true.
Proof.
  intros t H. unfold ts_ok in H. split_ands H.
  apply N.leb_le in H, B8, B7, B6, B5, B4, B3, B2, B1. apply Nat.eqb_eq in B0.
  pose proof (days_in_month_le (ts_y t) (ts_mo t)) as Dm.
  assert (S : ts_split (ts_body t) = Some (TsF (ts_y t) (ts_mo t) (ts_d t) (ts_h t) (ts_mi t) (ts_s t) (ts_frac_text t ++ [90]))).
  { unfold ts_body. apply ts_split_body; lia. }
  pose proof (ts_frac_print t B) as F.
  assert (L : N.of_nat (List.length (rstrip0 (ts_us t))) <= 6).
  { pose proof (rstrip0_length (ts_us t)). lia. }
  split.
  - unfold py_strptime. rewrite S. cbn [tf_rest tf_y tf_mo tf_d tf_h tf_mi tf_s]. rewrite F.
    repeat match goal with |- context [?a <=? ?b] => 
      let E := fresh in assert (E : (a <=? b) = true) by (apply N.leb_le; lia); rewrite E; clear E end.
    cbn [andb]. rewrite (pad_rstrip _ B0). destruct t; reflexivity.
  - unfold ts_inner_ok. rewrite S. cbn [tf_rest tf_y tf_mo tf_d tf_h tf_mi tf_s]. rewrite F.
    repeat match goal with |- context [?a <=? ?b] => 
      let E := fresh in assert (E : (a <=? b) = true) by (apply N.leb_le; lia); rewrite E; clear E end.
    reflexivity.
Qed.

Lemma ts_token_ok : forall t, ts_ok t = true ->
  timestamp_ok (print_ts t) = true /\ py_strptime (slice_2_m1 (print_ts t)) = Some t.
Proof.
  intros t H. destruct (ts_print_parse t H) as [P I]. rewrite print_ts_body.
  assert (Pb : prefixed_body 116 (116 :: c_quote :: ts_body t ++ [c_quote]) = Some (ts_body t)).
  { unfold prefixed_body. change (116 =? 116) with true. change (c_quote =? c_quote) with true.
    unfold last_is. rewrite last_last, removelast_last. change (c_quote =? c_quote) with true. reflexivity. }
  split.
  - unfold timestamp_ok. rewrite Pb. exact I.
  - unfold slice_2_m1. cbn [tl]. rewrite removelast_last. exact P.
Qed.

(* what strptime returns is a representable timestamp *)
Lemma d2_bound : forall a b, is_digit a = true -> is_digit b = true -> d2 a b < 100.
Proof.
  intros a b Ha Hb. unfold is_digit in *. apply andb_true_iff in Ha, Hb.
  destruct Ha as [A1 A2]. destruct Hb as [B1 B2]. apply N.leb_le in A1, A2, B1, B2. unfold d2. lia.
Qed.

Ltac split_all H :=
  match type of H with
  | (_ && _) = true =>
      let H1 := fresh "A" in let H2 := fresh "A" in
      apply andb_true_iff in H; destruct H as [H1 H2]; split_all H1; split_all H2
  | _ => idtac
  end.

Lemma ts_split_year : forall s f, ts_split s = Some f -> tf_y f < 10000.
Proof.
  intros s f H. unfold ts_split in H.
  do 19 (destruct s as [|? s]; [discriminate|]).
  match type of H with (if ?c then _ else _) = _ => destruct c eqn:C; [|discriminate] end.
  inversion H; subst f. cbn [tf_y].
  split_ands C. cbn [forallb] in C. split_all C.
  match goal with |- d2 ?a ?b * 100 + d2 ?c ?d < _ =>
    pose proof (d2_bound a b ltac:(assumption) ltac:(assumption));
    pose proof (d2_bound c d ltac:(assumption) ltac:(assumption)) end.
  lia.
Qed.

Lemma ts_frac_digs : forall r fr, ts_frac r = Some fr -> digs fr = true.
Proof.
  intros r fr H. unfold ts_frac in H. destruct r as [|c x]; [discriminate|].
  destruct ((c =? 90) && is_nil x); [inversion H; reflexivity|].
  match type of H with (if ?c then _ else _) = _ => destruct c eqn:C; [|discriminate] end.
  inversion H; subst fr. split_ands C. exact B0.
Qed.

Lemma pad_right6_length : forall l, List.length (pad_right6 l) = 6%nat.
Proof. intros l. unfold pad_right6. rewrite firstn_length, app_length. apply Nat.min_l. cbn [List.length]. lia. Qed.

Lemma pad_right6_digs : forall l, digs l = true -> digs (pad_right6 l) = true.
Proof.
  intros l H. unfold pad_right6, digs.
  assert (A : forallb is_digit (l ++ [48; 48; 48; 48; 48; 48]) = true) by (rewrite forallb_app; unfold digs in H; rewrite H; reflexivity).
  revert A. generalize (l ++ [48; 48; 48; 48; 48; 48]). intros m. generalize 6%nat.
  induction m as [|c m IH]; intros n A; destruct n; try reflexivity.
  cbn [firstn forallb] in *. apply andb_true_iff in A. destruct A as [A1 A2]. rewrite A1, (IH n A2). reflexivity.
Qed.

Lemma py_strptime_ok : forall s t, py_strptime s = Some t -> ts_ok t = true.
Proof.
  intros s t H. unfold py_strptime in H.
  destruct (ts_split s) as [f|] eqn:S; [|discriminate].
  destruct (ts_frac (tf_rest f)) as [fr|] eqn:F; [|discriminate].
  match type of H with (if ?c then _ else _) = _ => destruct c eqn:C; [|discriminate] end.
  inversion H; subst t. unfold ts_ok. cbn [ts_y ts_mo ts_d ts_h ts_mi ts_s ts_us].
  split_ands C. pose proof (ts_split_year s f S) as Y.
  rewrite B6, B5, B4, B3, B2, B1, B0, B. 
  assert (Y' : (tf_y f <=? 9999) = true) by (apply N.leb_le; lia). rewrite Y'.
  rewrite pad_right6_length, (pad_right6_digs fr (ts_frac_digs _ _ F)). reflexivity.
Qed.

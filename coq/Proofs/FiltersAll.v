(* Proofs/FiltersAll.v -- when does a scan see everything that is stored?
   Inv part (iii) of DESIGN 6/C12: id directories are named <type>--<uuid>
   (what _is_versioned_type_dir looks for) and files carry the .json
   extension.  Under that condition the scan is a permutation of all file
   contents of the tree, and the condition holds after every history of adds of
   objects whose ids have that form.                                        *)
From Coq Require Import NArith ZArith List String Bool Permutation Lia.
From V Require Import Base.UString Model.Filters Spec.FilterSpec Proofs.FiltersBasics Proofs.FiltersOpt Proofs.FiltersFs Proofs.FiltersInv.
Import ListNotations.

Definition entry_visible (d : ustring) (e : tentry) : Prop :=
  match e with
  | TFile n _ => file_visible n = true
  | TDir n files => is_id_dirname d n = true /\ forall fn o, In (fn, o) files -> file_visible fn = true
  end.

Definition all_visible (t : fs) : Prop :=
  forall d es, In (d, es) t -> forall e, In e es -> entry_visible d e.

Lemma flat_map_app_perm : forall {A B} (f g : A -> list B) (l : list A),
  Permutation (flat_map f l ++ flat_map g l) (flat_map (fun x => f x ++ g x) l).
Proof.
  induction l as [|x l IH]; simpl; auto.
  rewrite <- app_assoc. rewrite <- app_assoc. apply Permutation_app_head.
  eapply Permutation_trans; [|apply Permutation_app_head; exact IH].
  rewrite !app_assoc. apply Permutation_app_tail. apply Permutation_app_comm.
Qed.

Lemma filter_all : forall {A} (P : A -> bool) (l : list A), (forall x, In x l -> P x = true) -> filter P l = l.
Proof.
  induction l as [|x l IH]; simpl; intro H; auto. rewrite (H x (or_introl eq_refl)). rewrite IH; auto.
Qed.

Lemma scan_dir_all : forall d es,
  (forall e, In e es -> entry_visible d e) ->
  Permutation (scan_dir (d, es)) (flat_map entry_objects es).
Proof.
  intros d es Hv. unfold scan_dir. simpl.
  assert (Hobj : forall e, In e es -> entry_objects e = (entry_versions e ++ entry_files e)%list).
  { intros e He. specialize (Hv e He). destruct e as [n files | n o]; simpl in *.
    - rewrite app_nil_r. destruct Hv as [_ Hf]. unfold version_files. rewrite filter_all; auto.
      intros [fn o] Hin. simpl. apply (Hf fn o Hin).
    - rewrite Hv. reflexivity. }
  rewrite (flat_map_ext_in entry_objects (fun e => entry_versions e ++ entry_files e)%list es Hobj).
  destruct (is_versioned_type_dir d es) eqn:V.
  - apply flat_map_app_perm.
  - assert (Hnov : flat_map entry_versions es = []).
    { apply flat_map_nil_on. intros e He. destruct e as [n files | n o]; auto.
      exfalso. unfold is_versioned_type_dir in V.
      assert (existsb (fun e0 => is_tdir e0 && is_id_dirname d (tname e0)) es = true).
      { apply existsb_exists. exists (TDir n files). split; auto. simpl. destruct (Hv _ He) as [Hn _]. exact Hn. }
      congruence. }
    simpl. eapply Permutation_trans; [|apply flat_map_app_perm]. rewrite Hnov. simpl. apply Permutation_refl.
Qed.

Theorem scan_sees_everything_lemma : forall t, all_visible t -> Permutation (scan t) (all_contents t).
Proof.
  induction t as [|[d es] t IH]; intro Hv; simpl; auto.
  apply Permutation_app.
  - apply scan_dir_all. intros e He. apply (Hv d es); auto. left; auto.
  - apply IH. intros d0 es0 Hin. apply (Hv d0 es0). right; auto.
Qed.

(* ---- the sink keeps everything visible, for ids of the form <type>--<uuid> ---- *)

Definition obj_vis (o : pv) : Prop :=
  match obj_get "type" o, obj_get "id" o, obj_get "modified" o with
  | Some (VStr ty), Some (VStr idn), Some _ => is_id_dirname ty idn = true
  | Some (VStr ty), Some (VStr idn), None => has_nondot idn = true
  | _, _, _ => True
  end.

Lemma has_nondot_app_l : forall a b, has_nondot a = true -> has_nondot (a ++ b) = true.
Proof. intros a b H. unfold has_nondot in *. rewrite existsb_app. rewrite H. reflexivity. Qed.

Lemma version_filename_visible : forall mv fname, version_filename mv = Ok fname -> file_visible fname = true.
Proof.
  intros mv fname H. unfold version_filename in H.
  assert (Hgen : forall t, file_visible (u "v" ++ u (show_Z t) ++ dot_json) = true).
  { intro t. unfold file_visible. rewrite app_assoc. rewrite splitext_json.
    - simpl. reflexivity.
    - apply has_nondot_app_l. reflexivity. }
  destruct mv; try discriminate.
  - destruct (parse_ts s); inversion H; subst. apply Hgen.
  - inversion H; subst. apply Hgen.
Qed.

Lemma add_entry_visible : forall d idn m o es es',
  add_entry idn m o es = Ok es' ->
  (forall e, In e es -> entry_visible d e) ->
  (match m with Some _ => is_id_dirname d idn = true | None => has_nondot idn = true end) ->
  forall e, In e es' -> entry_visible d e.
Proof.
  intros d idn m o. induction es as [|e0 rest IH]; intros es' H Hv Hm e He.
  - simpl in H. destruct m as [mv|].
    + apply bind_ok in H. destruct H as [fname [Hf H]]. inversion H; subst. destruct He as [<- | []].
      simpl. split; auto. intros fn o' [E | []]. inversion E; subst. eapply version_filename_visible; eauto.
    + inversion H; subst. destruct He as [<- | []]. simpl. unfold file_visible. rewrite splitext_json; auto.
  - simpl in H. assert (Hv' : forall e1, In e1 rest -> entry_visible d e1) by (intros; apply Hv; right; auto).
    destruct m as [mv|].
    + destruct (ustr_eqb (tname e0) idn) eqn:E.
      * destruct e0 as [n files | n o']; try discriminate.
        apply bind_ok in H. destruct H as [fname [Hf H]]. apply bind_ok in H. destruct H as [files' [Hfs H]].
        inversion H; subst. destruct He as [<- | He]; [|apply Hv'; auto].
        simpl. split; auto. intros fn o' Hin.
        destruct (add_version_file_in _ _ _ _ _ Hfs Hin) as [Hold | Hnew].
        -- assert (Hd := Hv (TDir n files) (or_introl eq_refl)). simpl in Hd. destruct Hd as [_ Hd]. eapply Hd; eauto.
        -- inversion Hnew; subst. eapply version_filename_visible; eauto.
      * apply bind_ok in H. destruct H as [r [Hr H]]. inversion H; subst.
        destruct He as [<- | He]; [apply Hv; left; auto|]. eapply IH; eauto.
    + destruct (ustr_eqb (tname e0) (idn ++ dot_json)); try discriminate.
      apply bind_ok in H. destruct H as [r [Hr H]]. inversion H; subst.
      destruct He as [<- | He]; [apply Hv; left; auto|]. eapply IH; eauto.
Qed.

Lemma add_in_type_dir_visible : forall ty idn m o t t',
  add_in_type_dir ty idn m o t = Ok t' -> all_visible t ->
  (match m with Some _ => is_id_dirname ty idn = true | None => has_nondot idn = true end) ->
  all_visible t'.
Proof.
  intros ty idn m o. induction t as [|[d es] rest IH]; intros t' H Hv Hm.
  - cbn [add_in_type_dir] in H. apply bind_ok in H. destruct H as [es' [He H]]. inversion H; subst.
    intros d0 es0 [E | []] e Hin. injection E as Ed Ees. subst d0 es0.
    eapply add_entry_visible; eauto; intros e1 [].
  - cbn [add_in_type_dir] in H. destruct (ustr_eqb d ty) eqn:E.
    + apply ustr_eqb_eq in E. subst d. apply bind_ok in H. destruct H as [es' [He H]]. inversion H; subst.
      intros d0 es0 [E0 | Hin] e Hine.
      * injection E0 as Ed Ees. subst d0 es0. eapply add_entry_visible; eauto. intros e1 He1. apply (Hv ty es); auto. left; auto.
      * apply (Hv d0 es0); auto. right; auto.
    + apply bind_ok in H. destruct H as [r [Hr H]]. inversion H; subst.
      assert (Hv' : all_visible rest) by (intros d0 es0 Hin; apply (Hv d0 es0); right; auto).
      specialize (IH r Hr Hv' Hm).
      intros d0 es0 [E0 | Hin] e Hine.
      * injection E0 as Ed Ees. subst d0 es0. apply (Hv d es); auto. left; auto.
      * apply (IH d0 es0); auto.
Qed.

Theorem fs_add_keeps_visible : forall t o t', all_visible t -> obj_vis o -> fs_add t o = Ok t' -> all_visible t'.
Proof.
  intros t o t' Hv Ho H. unfold fs_add in H. unfold obj_vis in Ho.
  destruct (obj_get "type" o) as [[| | | |ty| | | |]|]; try discriminate;
  destruct (obj_get "id" o) as [[| | | |idn| | | |]|]; try discriminate.
  eapply add_in_type_dir_visible; eauto.
Qed.

Theorem fs_build_visible_lemma : forall objs t, all_visible t -> Forall obj_vis objs -> all_visible (fs_build t objs).
Proof.
  induction objs as [|o objs IH]; intros t Hv Hall; simpl; auto.
  inversion Hall; subst. apply IH; auto.
  destruct (fs_add t o) as [t'|e] eqn:E; auto. eapply fs_add_keeps_visible; eauto.
Qed.

(* after any history of adds of well-placed objects with <type>--<uuid> ids, the optimised
   query returns, up to order, exactly the stored contents on which every filter holds *)
Theorem query_over_all_stored_lemma : forall mode om objs fl r,
  Forall (obj_wf mode) objs -> Forall obj_vis objs -> tyid_wf om fl ->
  apply_filters mode fl (all_contents (fs_build [] objs)) = Ok r ->
  exists r', fs_search mode om (fs_build [] objs) fl = Ok r' /\ Permutation r r'.
Proof.
  intros mode om objs fl r Hwf Hvis Htw H.
  set (t := fs_build [] objs) in *.
  assert (Hperm : Permutation (scan t) (all_contents t)).
  { apply scan_sees_everything_lemma. apply fs_build_visible_lemma; auto. intros d es []. }
  apply apply_filters_ok in H. destruct H as [Hdef ->].
  assert (Hdef' : Forall (defined_on mode fl) (scan t)).
  { rewrite Forall_forall in *. intros o Ho. apply Hdef. apply (Permutation_in _ Hperm). auto. }
  destruct (opt_sound_complete_lemma mode om t fl (filter (holds_b mode fl) (scan t))) as [r' [Hr' Hp']].
  - apply fs_build_Inv_lemma; auto. apply Inv_empty.
  - auto.
  - unfold naive. apply apply_filters_total. auto.
  - exists r'. split; auto. eapply Permutation_trans; [|exact Hp']. apply Permutation_filter. apply Permutation_sym. auto.
Qed.

(* Proofs/SchemaCompKinds.v -- C03, per-kind completeness assembled: the kinds of
   Proofs/SchemaComplete.v plus KId, KRef, KSelector, KTime, KFloat and lists of those, on input values
   that are representable (jin_ok: a timestamp denotes an instant under the strict reader; an integer
   given for a float is below 10^16 in magnitude).

     complete_on k k' := forall j n, jin_ok k' j = true -> valid_kind sp pok n k' j = true ->
                         exists pv, clean_kind vr w rc rp ro k false false j = Ok (pv, false) /\
                                    jsame k' j (encode true pv)                                     *)
From Coq Require Import NArith ZArith List String Bool Lia.
From V Require Import Base.UString Base.Json Model.SchemaTypes Model.PyBase Model.Schema
     Spec.StixValid Spec.SchemaRefine Proofs.SchemaBasics Proofs.SchemaScope Proofs.SchemaComplete
     Proofs.C01Float Proofs.SchemaCovFloat Proofs.SchemaCompLeaf Proofs.SchemaCompTime.
Import ListNotations.

Local Arguments u : simpl never.

(* what the theorem asks of an input value, per specification kind *)
Fixpoint jin_ok (k : pkind) (j : jvalue) {struct k} : bool :=
  match k with
  | KTime _ _ => match j with JStr s => match instant_of_text s with Some _ => true | None => false end | _ => true end
  | KFloat _ _ => match j with JInt z => (Z.abs z <? 10 ^ 16)%Z | _ => true end
  | KList k0 => match j with JArr l => forallb (jin_ok k0) l | _ => true end
  | _ => true
  end.

Definition leaf_complete2 (k : pkind) : bool :=
  leaf_complete k ||
  match k with
  | KId _ _ | KRef _ _ _ _ | KSelector | KTime _ _ | KFloat _ _ => true
  | _ => false
  end.

Fixpoint kind_complete2 (k : pkind) : bool :=
  match k with
  | KList k' => kind_complete2 k'
  | _ => leaf_complete2 k
  end.

(* the variant sites the reverse direction depends on *)
(* vr_positional_none: Relationship / Sighting / StatementMarking.__init__ keep a falsy named argument (C03 finding) *)
Definition variant_complete (vr : variant) : bool := vr_year_pad vr && vr_sel_upper vr && vr_positional_none vr.

Section CompKinds.
  Variable vr : variant.
  Variables w sp : world.
  Variable pok : ver -> ustring -> bool.
  Variable rc : ustring -> bool -> bool -> list (ustring * jvalue) -> result pval.
  Variable rp : bool -> bool -> list (ustring * jvalue) -> result pval.
  Variable ro : ver -> list (ustring * ustring) -> bool -> list (ustring * jvalue) -> result pval.

  Hypothesis Hvr : variant_complete vr = true.
  Hypothesis Hsr : spec_refines sp w = true.

  Notation CK := (clean_kind vr w rc rp ro).

  Definition complete_on (k k' : pkind) : Prop :=
    forall j n, jin_ok k' j = true -> valid_kind sp pok n k' j = true ->
                exists pv, CK k false false j = Ok (pv, false) /\ jsame k' j (encode true pv).

  Lemma complete_at_on k k' : complete_at vr w sp pok rc rp ro k k' -> complete_on k k'.
  Proof. intros H j n _ Hv. eapply H; eauto. Qed.

  Lemma vc_flags : vr_year_pad vr = true /\ vr_sel_upper vr = true.
  Proof.
    unfold variant_complete in Hvr. apply andb_true_iff in Hvr. destruct Hvr as [H _].
    apply andb_true_iff in H. exact H.
  Qed.

  Lemma vc_pos : vr_positional_none vr = true.
  Proof. unfold variant_complete in Hvr. apply andb_true_iff in Hvr. tauto. Qed.

  (* ---- FloatProperty ---- *)
  Lemma dec_same_refl a : dec_same a a.
  Proof. unfold dec_same. reflexivity. Qed.

  Lemma complete_float mn mx mn' mx' :
    lower_within mn' mn = true -> upper_within mx' mx = true -> complete_on (KFloat mn mx) (KFloat mn' mx').
  Proof.
    intros Hl Hu j n Hin H. destruct (valid_S sp pok _ _ _ H) as [m ->].
    destruct j as [| |z|r| | |]; try (cbn in H; unfold number_in_bounds in H; discriminate H).
    - (* an integer: stored as the float "<digits>.0" *)
      cbn [jin_ok] in Hin. pose proof Hin as Hlt. apply Z.ltb_lt in Hlt.
      cbn in H. unfold number_in_bounds in H.
      change (lo_ok mn' (z, 0%Z) && hi_ok mx' (z, 0%Z) = true) in H.
      apply andb_true_iff in H. destruct H as [H1 H2].
      exists (PJ (JFloat (ustr_of_Z z ++ u ".0"))). split.
      + cbn [clean_kind]. rewrite clean_float_eq. rewrite Hin.
        rewrite (lo_ok_mono _ _ _ Hl H1), (hi_ok_mono _ _ _ Hu H2). reflexivity.
      + cbn [encode jsame jnum]. rewrite (dec_of_repr_int_text z Hlt). unfold dec_same. cbn [fst snd].
        change (Z.min 0 (-1)) with (-1)%Z. change (10 ^ (0 - -1))%Z with 10%Z. change (10 ^ (-1 - -1))%Z with 1%Z. lia.
    - exists (PJ (JFloat r)). split.
      + eapply complete_float_repr; eauto.
      + cbn [encode jsame jnum]. cbn in H. unfold number_in_bounds in H.
        destruct (dec_of_repr r); [apply dec_same_refl | discriminate H].
  Qed.

  (* ---- every covered leaf kind ---- *)
  Lemma leaf_complete2_sound k k' : leaf_complete2 k = true -> kind_accepts k k' = true -> complete_on k k'.
  Proof.
    destruct vc_flags as [Hpad Hup].
    intros Hl Ha. unfold leaf_complete2 in Hl.
    destruct (leaf_complete k) eqn:El; [apply complete_at_on; apply leaf_complete_sound; auto|]. cbn [orb] in Hl.
    destruct k; try discriminate El; try discriminate Hl.
    - (* KId *) destruct k'; simpl in Ha; try discriminate. apply andb_true_iff in Ha. destruct Ha.
      apply complete_at_on. apply complete_id; auto.
    - (* KFloat *) destruct k'; simpl in Ha; try discriminate. apply andb_true_iff in Ha. destruct Ha.
      apply complete_float; auto.
    - (* KTime *)
      destruct k'; try (simpl in Ha; discriminate Ha).
      intros j n Hin H.
      eapply complete_time; eauto.
      intros s -> E. cbn [jin_ok] in Hin. rewrite E in Hin. discriminate.
    - (* KRef *) destruct k'; try (simpl in Ha; discriminate Ha).
      apply complete_at_on. apply complete_ref; auto. intros vv0. apply spec_refines_reg_of. exact Hsr.
    - (* KSelector *) destruct k'; simpl in Ha; try discriminate. apply complete_at_on. apply complete_selector; auto.
  Qed.

  (* ---- lists of covered kinds ---- *)
  Lemma clean_items_complete2 k k' l n :
    complete_on k k' -> forallb (jin_ok k') l = true -> forallb (valid_kind sp pok n k') l = true ->
    exists res, clean_items (CK k false false) l = Ok (res, false) /\ Forall2 (jsame k') l (map (encode true) res).
  Proof.
    intros Hk. induction l as [|x l IH]; simpl; intros Hi H.
    - exists []. split; [reflexivity | constructor].
    - apply andb_true_iff in H. destruct H as [H1 H2]. apply andb_true_iff in Hi. destruct Hi as [I1 I2].
      destruct (Hk x n I1 H1) as [pv [Hc Hs]]. destruct (IH I2 H2) as [res [Hr Hf]].
      exists (pv :: res). rewrite Hc. simpl. rewrite Hr. simpl. split; [reflexivity | constructor; auto].
  Qed.

  Lemma kind_complete2_sound : forall k k', kind_complete2 k = true -> kind_accepts k k' = true -> complete_on k k'.
  Proof.
    induction k; intros k' Hp Ha; try (apply leaf_complete2_sound; auto; fail).
    simpl in Hp. destruct k'; simpl in Ha; try discriminate.
    intros j n Hin H. destruct (valid_S sp pok _ _ _ H) as [m ->]. simpl in H. destruct j; try discriminate.
    apply andb_true_iff in H. destruct H as [Hne Hall]. cbn [jin_ok] in Hin.
    destruct (clean_items_complete2 k k' l m (IHk k' Hp Ha) Hin Hall) as [res [Hr Hf]].
    exists (PArr res). split.
    - simpl. rewrite Hr. simpl. destruct res as [|r0 res]; [|reflexivity].
      inversion Hf; subst. simpl in Hne. discriminate.
    - rewrite encode_PArr. simpl. exact Hf.
  Qed.
End CompKinds.

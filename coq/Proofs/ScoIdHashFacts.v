(* Proofs/ScoIdHashFacts.v -- the choice of one hash (Model.ScoId.choose_one_hash):
   preference chain, the fallback of the two variants, independence from
   dictionary order for ByName, dependence for ByDictOrder (witness).           *)
From Coq Require Import String NArith ZArith List Bool Lia Sorted Permutation.
From V Require Import Base.UString Base.Json Model.JcsText Model.Jcs Model.ScoId
  Spec.ScoIdSpec Proofs.JcsNumFacts Proofs.JcsSortFacts Proofs.ScoIdFacts.
Import ListNotations.
Open Scope N_scope.

Section Choice.
  Context {A : Type}.
  Implicit Types h : list (ustring * A).

  Definition k_md5 := u "MD5".
  Definition k_sha1 := u "SHA-1".
  Definition k_sha256 := u "SHA-256".
  Definition k_sha512 := u "SHA-512".

  Lemma spec_prefs_eq : spec_hash_preference = [k_md5; k_sha1; k_sha256; k_sha512].
  Proof. reflexivity. Qed.

  Lemma hash_choice_chain : forall hp h,
    (forall v, plookup k_md5 h = Some v -> choose_one_hash spec_hash_preference hp h = Some (k_md5, v)) /\
    (forall v, plookup k_md5 h = None -> plookup k_sha1 h = Some v ->
               choose_one_hash spec_hash_preference hp h = Some (k_sha1, v)) /\
    (forall v, plookup k_md5 h = None -> plookup k_sha1 h = None -> plookup k_sha256 h = Some v ->
               choose_one_hash spec_hash_preference hp h = Some (k_sha256, v)) /\
    (forall v, plookup k_md5 h = None -> plookup k_sha1 h = None -> plookup k_sha256 h = None ->
               plookup k_sha512 h = Some v -> choose_one_hash spec_hash_preference hp h = Some (k_sha512, v)) /\
    (plookup k_md5 h = None -> plookup k_sha1 h = None -> plookup k_sha256 h = None -> plookup k_sha512 h = None ->
       choose_one_hash spec_hash_preference hp h = match hp with ByDictOrder => hd_error h | ByName => min_member h end).
  Proof.
    intros hp h. rewrite spec_prefs_eq. unfold choose_one_hash. cbn [first_present].
    repeat split; intros; repeat match goal with H : plookup _ h = _ |- _ => rewrite H; clear H end; reflexivity.
  Qed.

  (* ---- the least name ------------------------------------------------------------------ *)
  Lemma ltb_asym : forall a b, ustr_ltb a b = true -> ustr_ltb b a = false.
  Proof.
    intros a b H. unfold ustr_ltb in *. rewrite (ucmp_antisym a b). destruct (ustr_compare a b); try discriminate; reflexivity.
  Qed.

  Lemma ltb_irrefl : forall a, ustr_ltb a a = false.
  Proof. intro a. unfold ustr_ltb. rewrite ucmp_refl. reflexivity. Qed.

  (* not (k1 < k0) and not (k' < k1) give not (k' < k0) *)
  Lemma ltb_false_trans : forall k' k1 k0, ustr_ltb k' k1 = false -> ustr_ltb k1 k0 = false -> ustr_ltb k' k0 = false.
  Proof.
    intros k' k1 k0 H1 H2. unfold ustr_ltb in *.
    destruct (ustr_compare k' k0) eqn:C; try reflexivity. exfalso.
    destruct (ustr_compare k' k1) eqn:C1; try discriminate.
    - apply ucmp_eq in C1. subst. rewrite C in H2. discriminate.
    - destruct (ustr_compare k1 k0) eqn:C2; try discriminate.
      + apply ucmp_eq in C2. subst. rewrite C in C1. discriminate.
      + assert (X : ustr_compare k0 k1 = Lt) by (rewrite (ucmp_antisym k1 k0), C2; reflexivity).
        pose proof (ucmp_lt_trans _ _ _ C X) as Y. rewrite Y in C1. discriminate.
  Qed.

  Lemma min_member_none0 : forall h, min_member h = None -> h = [].
  Proof.
    destruct h as [|[k v] h]; simpl; intro H; [reflexivity|].
    destruct (min_member h) as [[k1 v1]|]; [destruct (ustr_ltb k1 k)|]; discriminate.
  Qed.

  Lemma min_member_spec : forall h k v, min_member h = Some (k, v) ->
    In (k, v) h /\ forall k' v', In (k', v') h -> ustr_ltb k' k = false.
  Proof.
    induction h as [|[k0 v0] h IH]; simpl; intros k v H; [discriminate|].
    destruct (min_member h) as [[k1 v1]|] eqn:E.
    - destruct (IH k1 v1 eq_refl) as [I1 M1]. destruct (ustr_ltb k1 k0) eqn:L; inversion H; subst.
      + split; [right; exact I1|]. intros k' v' [Hin|Hin]; [|eapply M1; exact Hin].
        inversion Hin; subst. apply ltb_asym. exact L.
      + split; [left; reflexivity|]. intros k' v' [Hin|Hin].
        * inversion Hin; subst. apply ltb_irrefl.
        * eapply ltb_false_trans; [eapply M1; exact Hin|exact L].
    - inversion H; subst. apply min_member_none0 in E. subst. 
      split; [left; reflexivity|]. intros k' v' [Hin|[]]. inversion Hin; subst. apply ltb_irrefl.
  Qed.

  Lemma min_member_none : forall h, min_member h = None -> h = [].
  Proof.
    destruct h as [|[k v] h]; simpl; intro H; [reflexivity|].
    destruct (min_member h) as [[k1 v1]|]; [destruct (ustr_ltb k1 k)|]; discriminate.
  Qed.

  Lemma ltb_trichotomy : forall a b, ustr_ltb a b = false -> ustr_ltb b a = false -> a = b.
  Proof.
    intros a b H1 H2. unfold ustr_ltb in *. rewrite (ucmp_antisym a b) in H2.
    destruct (ustr_compare a b) eqn:C; simpl in *; try discriminate. apply ucmp_eq. exact C.
  Qed.

  Lemma min_member_perm : forall h h', Permutation h h' -> NoDup (map fst h) -> min_member h = min_member h'.
  Proof.
    intros h h' Hp Hn.
    destruct (min_member h) as [[k v]|] eqn:E1; destruct (min_member h') as [[k' v']|] eqn:E2.
    - destruct (min_member_spec _ _ _ E1) as [I1 M1]. destruct (min_member_spec _ _ _ E2) as [I2 M2].
      assert (I1' : In (k, v) h') by (eapply Permutation_in; eauto).
      assert (I2' : In (k', v') h) by (eapply Permutation_in; [apply Permutation_sym; exact Hp|exact I2]).
      assert (k = k') by (apply ltb_trichotomy; [eapply M2; exact I1'|eapply M1; exact I2']). subst k'.
      pose proof (In_plookup _ k v h Hn I1) as L1. pose proof (In_plookup _ k v' h Hn I2') as L2.
      rewrite L1 in L2. inversion L2. reflexivity.
    - apply min_member_none in E2. subst. apply Permutation_sym, Permutation_nil in Hp. subst. discriminate.
    - apply min_member_none in E1. subst. apply Permutation_nil in Hp. subst. discriminate.
    - reflexivity.
  Qed.

  Lemma first_present_perm : forall names h h', Permutation h h' -> NoDup (map fst h) ->
    first_present names h = first_present names h'.
  Proof.
    induction names as [|n r IH]; intros h h' Hp Hn; [reflexivity|].
    simpl. rewrite (plookup_perm _ n h h' Hp Hn). rewrite (IH h h' Hp Hn). reflexivity.
  Qed.

  (* with the repaired fallback the choice does not depend on dictionary order *)
  Lemma choose_byname_perm : forall prefs h h', Permutation h h' -> NoDup (map fst h) ->
    choose_one_hash prefs ByName h = choose_one_hash prefs ByName h'.
  Proof.
    intros prefs h h' Hp Hn. unfold choose_one_hash.
    rewrite (first_present_perm prefs h h' Hp Hn). rewrite (min_member_perm h h' Hp Hn). reflexivity.
  Qed.

  (* with a preferred algorithm present neither variant depends on dictionary order *)
  Lemma choose_preferred_perm : forall prefs hp h h' kv, Permutation h h' -> NoDup (map fst h) ->
    first_present prefs h = Some kv -> choose_one_hash prefs hp h = choose_one_hash prefs hp h'.
  Proof.
    intros prefs hp h h' kv Hp Hn F. unfold choose_one_hash.
    rewrite <- (first_present_perm prefs h h' Hp Hn). rewrite F. reflexivity.
  Qed.
End Choice.

(* the pinned fallback depends on dictionary order: two orders of one dictionary *)
Definition w_hashes1 : list (ustring * pval) := [(u "SHA3-256", PStr (u "aa")); (u "SSDEEP", PStr (u "3:abc:def"))].
Definition w_hashes2 : list (ustring * pval) := [(u "SSDEEP", PStr (u "3:abc:def")); (u "SHA3-256", PStr (u "aa"))].

Lemma choose_dictorder_refuted_proof :
  Permutation w_hashes1 w_hashes2 /\ NoDup (map fst w_hashes1) /\
  choose_one_hash spec_hash_preference ByDictOrder w_hashes1 <> choose_one_hash spec_hash_preference ByDictOrder w_hashes2 /\
  choose_one_hash spec_hash_preference ByName w_hashes1 = choose_one_hash spec_hash_preference ByName w_hashes2.
Proof.
  split; [apply perm_swap|]. split.
  - simpl. constructor; [intros [H|[]]; vm_compute in H; discriminate|]. constructor; [intros []|constructor].
  - split; [vm_compute; discriminate|vm_compute; reflexivity].
Qed.

(* and so does the string that is hashed *)
Lemma id_dictorder_refuted_proof : forall uuid5,
  match gen_id uuid5 spec_hash_preference ByDictOrder (u "file") [u "hashes"; u "name"] [(u "hashes", PDict w_hashes1)],
        gen_id uuid5 spec_hash_preference ByDictOrder (u "file") [u "hashes"; u "name"] [(u "hashes", PDict w_hashes2)] with
  | IdDet d1 _, IdDet d2 _ => d1 <> d2
  | _, _ => False
  end.
Proof. intro uuid5. vm_compute. discriminate. Qed.

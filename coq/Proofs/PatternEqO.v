(* Proofs/PatternEqO.v -- observation expressions under the binding semantics
   of Spec/PatternSemantics.v (DESIGN.md Appendix A.5): comparator-equal
   expressions produce the same bindings, every constructor is monotone for
   refinement, and every pass of the observation-level normaliser yields an
   expression that refines its input and is refined by it -- hence matches
   exactly the same observation sequences.                                *)
From Coq Require Import NArith ZArith List Bool Permutation Lia String.
From V Require Import Base.UString Model.PatternEq Spec.PatternSemantics Proofs.PatternEqCmp Proofs.PatternEqLists
     Proofs.PatternEqBind Proofs.PatternEqC Proofs.PatternEqDnf Proofs.PatternEqNorm.
Import ListNotations.

Section OSem.
  Variable obj : Type.
  Variable otype : obj -> ustring.
  Variable H : ustring -> list step -> cop -> bool -> dconst -> obj -> bool.
  Hypothesis Hden : respects_denotation obj H.
  Variable O : list (observation obj).

  Notation csem := (csem obj otype H).
  Notation B := (B obj otype H O).
  Notation before := (before obj O).
  Notation qual_ok := (qual_ok obj O).
  Notation refines := (refines obj otype H O).
  Notation oequiv := (oequiv obj otype H O).

  (* ---------------------------------------------------------------- *)
  (* the clauses of B in usable form                                   *)

  Lemma each_Forall2 : forall l bs,
      (fix each (l : list oexpr) (bs : list (list nat)) {struct l} : Prop :=
         match l, bs with
         | [], [] => True
         | e' :: l', b' :: bs' => B e' b' /\ each l' bs'
         | _, _ => False
         end) l bs <-> Forall2 B l bs.
  Proof.
    induction l as [|e l IH]; intros [|b bs].
    - split; intros; constructor.
    - split; [intros [] | intro HH; inversion HH].
    - split; [intros [] | intro HH; inversion HH].
    - split.
      + intros [H1 H2]. constructor; [exact H1 | apply IH; exact H2].
      + intro HH. inversion HH; subst. split; [assumption | apply IH; assumption].
  Qed.

  Lemma B_obs : forall c b,
      B (Obs c) b <-> exists i t xs, b = [i] /\ nth_error O i = Some (t, xs) /\ existsb (csem c) xs = true.
  Proof. intros; reflexivity. Qed.

  Lemma B_and : forall l b, B (OAnd l) b <-> exists bs, Forall2 B l bs /\ NoDup (List.concat bs) /\ b = List.concat bs.
  Proof.
    intros l b. simpl. split; intros [bs [H1 H2]]; exists bs; (split; [apply each_Forall2; exact H1 | exact H2]).
  Qed.

  Lemma B_fby : forall l b,
      B (OFby l) b <->
      exists bs, Forall2 B l bs /\ NoDup (List.concat bs) /\ ForallOrdPairs before bs /\ b = List.concat bs.
  Proof.
    intros l b. simpl. split; intros [bs [H1 H2]]; exists bs; (split; [apply each_Forall2; exact H1 | exact H2]).
  Qed.

  Lemma B_or : forall l b, B (OOr l) b <-> exists e, In e l /\ B e b.
  Proof.
    intros l b. simpl. induction l as [|e l IH].
    - split; [intros [] | intros [e [[] _]]].
    - split.
      + intros [Hb|Hb]; [exists e; split; [left; reflexivity | exact Hb]|].
        apply IH in Hb. destruct Hb as [e' [He' Hb]]. exists e'. split; [right; exact He' | exact Hb].
      + intros [e' [[<-|He'] Hb]]; [left; exact Hb | right; apply IH; exists e'; auto].
  Qed.

  Lemma all_Forall : forall e bs,
      (fix all (bs : list (list nat)) : Prop := match bs with [] => True | b' :: r => B e b' /\ all r end) bs <->
      Forall (B e) bs.
  Proof.
    induction bs as [|b bs IH].
    - split; intros; constructor.
    - split.
      + intros [H1 H2]. constructor; [exact H1 | apply IH; exact H2].
      + intro HH. inversion HH; subst. split; [assumption | apply IH; assumption].
  Qed.

  Lemma B_repeat : forall e n b,
      B (OQual e (QRepeat n)) b <->
      exists bs, List.length bs = Z.to_nat n /\ Forall (B e) bs /\ NoDup (List.concat bs) /\ b = List.concat bs.
  Proof.
    intros e n b. simpl. split; intros [bs [H1 [H2 H3]]]; exists bs; (split; [exact H1 | split; [apply all_Forall; exact H2 | exact H3]]).
  Qed.

  Lemma B_within : forall e d b, B (OQual e (QWithin d)) b <-> B e b /\ qual_ok (QWithin d) b.
  Proof. intros; reflexivity. Qed.

  Lemma B_startstop : forall e s t b, B (OQual e (QStartStop s t)) b <-> B e b /\ qual_ok (QStartStop s t) b.
  Proof. intros; reflexivity. Qed.

  Lemma qual_ok_incl : forall q b b', incl b' b -> qual_ok q b -> qual_ok q b'.
  Proof.
    intros [n|d|s t] b b' Hi Hq; simpl in *; auto.
  Qed.

  (* ---------------------------------------------------------------- *)
  (* bindings are duplicate-free                                       *)

  Lemma B_nodup : forall e b, B e b -> NoDup b.
  Proof.
    induction e using oexpr_ind'; intros b Hb.
    - apply B_obs in Hb. destruct Hb as [i [t [xs [-> _]]]]. constructor; [intros [] | constructor].
    - apply B_and in Hb. destruct Hb as [bs [_ [Hn ->]]]. exact Hn.
    - apply B_or in Hb. destruct Hb as [e [He Hb]]. rewrite Forall_forall in H0. apply (H0 e He b Hb).
    - apply B_fby in Hb. destruct Hb as [bs [_ [Hn [_ ->]]]]. exact Hn.
    - destruct q as [n|d|s t].
      + apply B_repeat in Hb. destruct Hb as [bs [_ [_ [Hn ->]]]]. exact Hn.
      + apply B_within in Hb. destruct Hb as [Hb _]. apply IHe; exact Hb.
      + apply B_startstop in Hb. destruct Hb as [Hb _]. apply IHe; exact Hb.
  Qed.

  (* ---------------------------------------------------------------- *)
  (* refinement                                                        *)

  Lemma refines_refl : forall e, refines e e.
  Proof. intros e b Hb. exists b. split; [apply incl_refl | exact Hb]. Qed.

  Lemma refines_trans : forall a b c, refines a b -> refines b c -> refines a c.
  Proof.
    intros a b c H1 H2 bb Hb. destruct (H1 bb Hb) as [b1 [I1 B1]]. destruct (H2 b1 B1) as [b2 [I2 B2]].
    exists b2. split; [eapply incl_tran; eassumption | exact B2].
  Qed.

  Lemma oequiv_refl : forall e, oequiv e e.
  Proof. intro e. split; apply refines_refl. Qed.

  Lemma oequiv_sym : forall a b, oequiv a b -> oequiv b a.
  Proof. intros a b [H1 H2]. split; assumption. Qed.

  Lemma oequiv_trans : forall a b c, oequiv a b -> oequiv b c -> oequiv a c.
  Proof. intros a b c [H1 H2] [H3 H4]. split; eapply refines_trans; eassumption. Qed.

  Lemma iff_refines : forall a b, (forall bb, B a bb -> B b bb) -> refines a b.
  Proof. intros a b Hab bb Hb. exists bb. split; [apply incl_refl | apply Hab; exact Hb]. Qed.

  Lemma iff_oequiv : forall a b, (forall bb, B a bb <-> B b bb) -> oequiv a b.
  Proof. intros a b Hab. split; apply iff_refines; intros bb; apply Hab. Qed.

  Lemma refines_matches : forall a b, refines a b -> matches obj otype H O a -> matches obj otype H O b.
  Proof. intros a b Hr [bb Hb]. destruct (Hr bb Hb) as [b' [_ Hb']]. exists b'. exact Hb'. Qed.

  Lemma oequiv_matches : forall a b, oequiv a b -> (matches obj otype H O a <-> matches obj otype H O b).
  Proof. intros a b [H1 H2]. split; apply refines_matches; assumption. Qed.

  (* sub-bindings operand by operand *)
  Lemma sub_bindings : forall l l' bs,
      Forall2 refines l l' -> Forall2 B l bs ->
      exists bs', Forall2 B l' bs' /\ Forall2 (@incl nat) bs' bs.
  Proof.
    intros l l' bs HR. revert bs. induction HR as [|e e' l l' Hr _ IH]; intros bs HB.
    - inversion HB; subst. exists []. split; constructor.
    - inversion HB as [|e0 b0 l0 bs0 Hb HB']; subst. destruct (Hr b0 Hb) as [b' [Hi Hb']].
      destruct (IH bs0 HB') as [bs' [HB'' HI]]. exists (b' :: bs'). split; constructor; assumption.
  Qed.

  Lemma Forall2_B_nodup : forall l bs, Forall2 B l bs -> Forall (@NoDup nat) bs.
  Proof. induction 1; constructor; [eapply B_nodup; eassumption | assumption]. Qed.

  Lemma before_incl : forall x' x y' y, incl x' x -> incl y' y -> before x y -> before x' y'.
  Proof. intros x' x y' y Hx Hy Hb i j Hi Hj. apply Hb; [apply Hx; exact Hi | apply Hy; exact Hj]. Qed.

  (* every constructor is monotone *)
  Lemma refines_and : forall l l', Forall2 refines l l' -> refines (OAnd l) (OAnd l').
  Proof.
    intros l l' HR b Hb. apply B_and in Hb. destruct Hb as [bs [HB [Hn ->]]].
    destruct (sub_bindings l l' bs HR HB) as [bs' [HB' HI]].
    exists (List.concat bs'). split; [apply incl_concat; exact HI|].
    apply B_and. exists bs'. split; [exact HB' | split; [|reflexivity]].
    apply (NoDup_concat_sub bs' bs HI (Forall2_B_nodup _ _ HB') Hn).
  Qed.

  Lemma refines_fby : forall l l', Forall2 refines l l' -> refines (OFby l) (OFby l').
  Proof.
    intros l l' HR b Hb. apply B_fby in Hb. destruct Hb as [bs [HB [Hn [Hf ->]]]].
    destruct (sub_bindings l l' bs HR HB) as [bs' [HB' HI]].
    exists (List.concat bs'). split; [apply incl_concat; exact HI|].
    apply B_fby. exists bs'. split; [exact HB' | split; [|split; [|reflexivity]]].
    - apply (NoDup_concat_sub bs' bs HI (Forall2_B_nodup _ _ HB') Hn).
    - apply (FOP_Forall2 before (@incl nat) bs' bs before_incl HI Hf).
  Qed.

  Lemma refines_or : forall l l', (forall e, In e l -> exists e', In e' l' /\ refines e e') -> refines (OOr l) (OOr l').
  Proof.
    intros l l' HR b Hb. apply B_or in Hb. destruct Hb as [e [He Hb]].
    destruct (HR e He) as [e' [He' Hr]]. destruct (Hr b Hb) as [b' [Hi Hb']].
    exists b'. split; [exact Hi | apply B_or; exists e'; auto].
  Qed.

  Lemma refines_or_pointwise : forall l l', Forall2 refines l l' -> refines (OOr l) (OOr l').
  Proof.
    intros l l' HR. apply refines_or. intros e He. destruct (F2_In_l _ _ _ e HR He) as [e' [He' Hr]]. exists e'. auto.
  Qed.

  Lemma refines_qual : forall e e' q, refines e e' -> refines (OQual e q) (OQual e' q).
  Proof.
    intros e e' [n|d|s t] Hr b Hb.
    - apply B_repeat in Hb. destruct Hb as [bs [Hl [HB [Hn ->]]]].
      assert (HS : exists bs', Forall (B e') bs' /\ Forall2 (@incl nat) bs' bs).
      { clear Hl Hn. induction HB as [|b0 bs0 Hb0 _ IH]; [exists []; split; constructor|].
        destruct (Hr b0 Hb0) as [b' [Hi Hb']]. destruct IH as [bs' [HB' HI]].
        exists (b' :: bs'). split; constructor; assumption. }
      destruct HS as [bs' [HB' HI]]. exists (List.concat bs'). split; [apply incl_concat; exact HI|].
      apply B_repeat. exists bs'. split; [|split; [exact HB' | split; [|reflexivity]]].
      + rewrite <- Hl. apply (F2_length _ _ _ HI).
      + apply (NoDup_concat_sub bs' bs HI); [|exact Hn].
        eapply Forall_impl; [|exact HB']. intros a Ha. apply (B_nodup e' a Ha).
    - apply B_within in Hb. destruct Hb as [Hb Hq]. destruct (Hr b Hb) as [b' [Hi Hb']].
      exists b'. split; [exact Hi | apply B_within; split; [exact Hb' | apply (qual_ok_incl _ b b' Hi Hq)]].
    - apply B_startstop in Hb. destruct Hb as [Hb Hq]. destruct (Hr b Hb) as [b' [Hi Hb']].
      exists b'. split; [exact Hi | apply B_startstop; split; [exact Hb' | apply (qual_ok_incl _ b b' Hi Hq)]].
  Qed.

  Lemma Forall2_oequiv_split : forall l l', Forall2 oequiv l l' -> Forall2 refines l l' /\ Forall2 refines l' l.
  Proof. induction 1 as [|a b l l' [H1 H2] _ [IH1 IH2]]; split; constructor; assumption. Qed.

  Lemma oequiv_and : forall l l', Forall2 oequiv l l' -> oequiv (OAnd l) (OAnd l').
  Proof. intros l l' HF. destruct (Forall2_oequiv_split _ _ HF). split; apply refines_and; assumption. Qed.
  Lemma oequiv_fby : forall l l', Forall2 oequiv l l' -> oequiv (OFby l) (OFby l').
  Proof. intros l l' HF. destruct (Forall2_oequiv_split _ _ HF). split; apply refines_fby; assumption. Qed.
  Lemma oequiv_or : forall l l', Forall2 oequiv l l' -> oequiv (OOr l) (OOr l').
  Proof. intros l l' HF. destruct (Forall2_oequiv_split _ _ HF). split; apply refines_or_pointwise; assumption. Qed.
  Lemma oequiv_qual : forall e e' q, oequiv e e' -> oequiv (OQual e q) (OQual e' q).
  Proof. intros e e' q [H1 H2]. split; apply refines_qual; assumption. Qed.
  Lemma oequiv_mko : forall o l l', Forall2 oequiv l l' -> oequiv (mko o l) (mko o l').
  Proof. destruct o; simpl; [apply oequiv_and | apply oequiv_or | apply oequiv_fby]. Qed.

  Lemma oequiv_obs : forall c c', (forall x, csem c x = csem c' x) -> oequiv (Obs c) (Obs c').
  Proof.
    intros c c' Hc. apply iff_oequiv. intro bb. rewrite !B_obs.
    split; intros [i [t [xs [E1 [E2 E3]]]]]; exists i, t, xs; (split; [exact E1 | split; [exact E2|]]);
      rewrite <- E3; apply existsb_ext; intro x; [symmetry|]; apply Hc.
  Qed.

  (* ---------------------------------------------------------------- *)
  (* same bindings                                                     *)

  Definition Bsub (a b : oexpr) : Prop := forall bb, B a bb -> B b bb.
  Definition Beq (a b : oexpr) : Prop := forall bb, B a bb <-> B b bb.

  Lemma Beq_oequiv : forall a b, Beq a b -> oequiv a b.
  Proof. intros a b Hab. apply iff_oequiv. exact Hab. Qed.

  Lemma Beq_refl : forall a, Beq a a.
  Proof. intros a bb. tauto. Qed.
  Lemma Beq_sym : forall a b, Beq a b -> Beq b a.
  Proof. intros a b Hab bb. symmetry. apply Hab. Qed.
  Lemma Beq_trans : forall a b c, Beq a b -> Beq b c -> Beq a c.
  Proof. intros a b c H1 H2 bb. rewrite (H1 bb). apply H2. Qed.
  Lemma Beq_split : forall a b, Beq a b <-> Bsub a b /\ Bsub b a.
  Proof. intros a b. split; [intro Hab; split; intros bb Hb; apply Hab; exact Hb | intros [H1 H2] bb; split; [apply H1 | apply H2]]. Qed.

  Lemma Forall2_Bsub : forall l1 l2 bs, Forall2 Bsub l1 l2 -> Forall2 B l1 bs -> Forall2 B l2 bs.
  Proof.
    intros l1 l2 bs HS. revert bs. induction HS as [|a b l1 l2 Hab _ IH]; intros bs HB; inversion HB; subst; constructor; auto.
  Qed.

  Lemma Bsub_and : forall l1 l2, Forall2 Bsub l1 l2 -> Bsub (OAnd l1) (OAnd l2).
  Proof.
    intros l1 l2 HS bb Hb. apply B_and in Hb. destruct Hb as [bs [HB Hr]]. apply B_and. exists bs.
    split; [apply (Forall2_Bsub l1 l2 bs HS HB) | exact Hr].
  Qed.

  Lemma Bsub_fby : forall l1 l2, Forall2 Bsub l1 l2 -> Bsub (OFby l1) (OFby l2).
  Proof.
    intros l1 l2 HS bb Hb. apply B_fby in Hb. destruct Hb as [bs [HB Hr]]. apply B_fby. exists bs.
    split; [apply (Forall2_Bsub l1 l2 bs HS HB) | exact Hr].
  Qed.

  Lemma Bsub_or : forall l1 l2, Forall2 Bsub l1 l2 -> Bsub (OOr l1) (OOr l2).
  Proof.
    intros l1 l2 HS bb Hb. apply B_or in Hb. destruct Hb as [e [He Hb]].
    destruct (F2_In_l _ _ _ e HS He) as [e' [He' Hs]]. apply B_or. exists e'. split; [exact He' | apply Hs; exact Hb].
  Qed.

  Lemma Bsub_qual : forall e e' q, Bsub e e' -> Bsub (OQual e q) (OQual e' q).
  Proof.
    intros e e' [n|d|s t] Hs bb Hb.
    - apply B_repeat in Hb. destruct Hb as [bs [Hl [HB Hr]]]. apply B_repeat. exists bs.
      split; [exact Hl | split; [|exact Hr]]. eapply Forall_impl; [|exact HB]. exact Hs.
    - apply B_within in Hb. destruct Hb as [Hb Hq]. apply B_within. split; [apply Hs; exact Hb | exact Hq].
    - apply B_startstop in Hb. destruct Hb as [Hb Hq]. apply B_startstop. split; [apply Hs; exact Hb | exact Hq].
  Qed.

  Lemma Bsub_mko : forall o l1 l2, Forall2 Bsub l1 l2 -> Bsub (mko o l1) (mko o l2).
  Proof. destruct o; simpl; [apply Bsub_and | apply Bsub_or | apply Bsub_fby]. Qed.

  Lemma Forall2_Beq_split : forall l l', Forall2 Beq l l' -> Forall2 Bsub l l' /\ Forall2 Bsub l' l.
  Proof.
    induction 1 as [|a b l l' Hab _ [IH1 IH2]]; split; constructor; try assumption; apply Beq_split in Hab; tauto.
  Qed.

  Lemma Beq_mko : forall o l1 l2, Forall2 Beq l1 l2 -> Beq (mko o l1) (mko o l2).
  Proof. intros o l1 l2 HF. destruct (Forall2_Beq_split _ _ HF). apply Beq_split. split; apply Bsub_mko; assumption. Qed.

  Lemma Beq_qual : forall e e' q, Beq e e' -> Beq (OQual e q) (OQual e' q).
  Proof. intros e e' q Hab. apply Beq_split in Hab. destruct Hab. apply Beq_split. split; apply Bsub_qual; assumption. Qed.

  (* cmp_eq_sound, observation level: comparator-equal expressions produce the same bindings *)
  Lemma ocmp_Bsub : forall a b, ocmp a b = Eq -> Bsub a b.
  Proof.
    induction a using oexpr_ind'; intros [c2 | l2 | l2 | l2 | e2 q2] E; try discriminate E.
    - simpl in E. intros bb Hb. apply B_obs in Hb. apply B_obs.
      destruct Hb as [i [t [xs [E1 [E2 E3]]]]]. exists i, t, xs. split; [exact E1 | split; [exact E2|]].
      rewrite <- E3. apply existsb_ext. intro x. symmetry. apply (ccmp_sem obj otype H Hden _ _ E x).
    - simpl in E. apply lex_eq_Forall2 in E. apply Bsub_and.
      revert H0. clear -E. induction E; intro HF; constructor; inversion HF; subst; auto.
    - simpl in E. apply lex_eq_Forall2 in E. apply Bsub_or.
      revert H0. clear -E. induction E; intro HF; constructor; inversion HF; subst; auto.
    - simpl in E. apply lex_eq_Forall2 in E. apply Bsub_fby.
      revert H0. clear -E. induction E; intro HF; constructor; inversion HF; subst; auto.
    - rewrite ocmp_qual in E. apply lex2_eq in E. destruct E as [Eq Ee]. apply qual_cmp_eq in Eq. subst q2.
      apply Bsub_qual. apply IHa; exact Ee.
  Qed.

  Lemma ocmp_Beq : forall a b, ocmp a b = Eq -> Beq a b.
  Proof.
    intros a b E. apply Beq_split. split; [apply ocmp_Bsub; exact E|].
    apply ocmp_Bsub. apply (lawful_eq_sym ocmp ocmp_lawful); exact E.
  Qed.

  (* ---------------------------------------------------------------- *)
  (* splitting an operand list                                         *)

  Definition comb (o : oop) (b1 b2 b : list nat) : Prop :=
    NoDup (b1 ++ b2) /\ match o with OpFby => before b1 b2 | _ => True end /\ b = (b1 ++ b2)%list.

  Lemma before_concat : forall bs1 bs2,
      before (List.concat bs1) (List.concat bs2) <-> (forall x y, In x bs1 -> In y bs2 -> before x y).
  Proof.
    intros bs1 bs2. split.
    - intros Hb x y Hx Hy i j Hi Hj. apply Hb; apply in_concat; [exists x | exists y]; auto.
    - intros Hb i j Hi Hj. apply in_concat in Hi. apply in_concat in Hj.
      destruct Hi as [x [Hx Hi]]. destruct Hj as [y [Hy Hj]]. apply (Hb x y Hx Hy i j Hi Hj).
  Qed.

  Lemma B_and_app : forall l1 l2 b,
      B (OAnd (l1 ++ l2)) b <-> exists b1 b2, B (OAnd l1) b1 /\ B (OAnd l2) b2 /\ comb OpAnd b1 b2 b.
  Proof.
    intros l1 l2 b. split.
    - intro Hb. apply B_and in Hb. destruct Hb as [bs [HB [Hn ->]]].
      apply Forall2_app_inv_l in HB. destruct HB as [bs1 [bs2 [HB1 [HB2 ->]]]].
      rewrite concat_app in *. pose proof Hn as Hn'. apply NoDup_app_iff in Hn'. destruct Hn' as [N1 [N2 _]].
      exists (List.concat bs1), (List.concat bs2). split; [apply B_and; exists bs1; auto|].
      split; [apply B_and; exists bs2; auto|]. repeat split; auto.
    - intros [b1 [b2 [H1 [H2 [Hn [_ ->]]]]]]. apply B_and in H1. apply B_and in H2.
      destruct H1 as [bs1 [HB1 [_ ->]]]. destruct H2 as [bs2 [HB2 [_ ->]]].
      apply B_and. exists (bs1 ++ bs2)%list. rewrite concat_app. split; [apply Forall2_app; assumption | auto].
  Qed.

  Lemma B_fby_app : forall l1 l2 b,
      B (OFby (l1 ++ l2)) b <-> exists b1 b2, B (OFby l1) b1 /\ B (OFby l2) b2 /\ comb OpFby b1 b2 b.
  Proof.
    intros l1 l2 b. split.
    - intro Hb. apply B_fby in Hb. destruct Hb as [bs [HB [Hn [Hf ->]]]].
      apply Forall2_app_inv_l in HB. destruct HB as [bs1 [bs2 [HB1 [HB2 ->]]]].
      rewrite concat_app in *. pose proof Hn as Hn'. apply NoDup_app_iff in Hn'. destruct Hn' as [N1 [N2 _]].
      apply FOP_app in Hf. destruct Hf as [F1 [F2 F12]].
      exists (List.concat bs1), (List.concat bs2). split; [apply B_fby; exists bs1; auto|].
      split; [apply B_fby; exists bs2; auto|]. repeat split; auto. apply before_concat. exact F12.
    - intros [b1 [b2 [H1 [H2 [Hn [Hbf ->]]]]]]. apply B_fby in H1. apply B_fby in H2.
      destruct H1 as [bs1 [HB1 [_ [F1 ->]]]]. destruct H2 as [bs2 [HB2 [_ [F2 ->]]]].
      apply B_fby. exists (bs1 ++ bs2)%list. rewrite concat_app. split; [apply Forall2_app; assumption|].
      split; [exact Hn | split; [|reflexivity]]. apply FOP_app. repeat split; auto. apply before_concat. exact Hbf.
  Qed.

  Lemma B_or_app : forall l1 l2 b, B (OOr (l1 ++ l2)) b <-> B (OOr l1) b \/ B (OOr l2) b.
  Proof.
    intros l1 l2 b. rewrite !B_or. split.
    - intros [e [He Hb]]. apply in_app_or in He. destruct He as [He|He]; [left | right]; exists e; auto.
    - intros [[e [He Hb]]|[e [He Hb]]]; exists e; (split; [apply in_or_app; auto | exact Hb]).
  Qed.

  Lemma B_single : forall o x b, B (mko o [x]) b <-> B x b.
  Proof.
    intros o x b. destruct o; simpl mko.
    - rewrite B_and. split.
      + intros [bs [HB [_ ->]]]. inversion HB as [|x0 b0 l0 bs0 Hb HB']; subst. inversion HB'; subst. simpl. rewrite app_nil_r. exact Hb.
      + intro Hb. exists [b]. simpl. rewrite app_nil_r. repeat split; [repeat constructor; exact Hb | apply (B_nodup x b Hb)].
    - rewrite B_or. split.
      + intros [e [He Hb]]. destruct He as [He|He]; [subst e; exact Hb | destruct He].
      + intro Hb. exists x. split; [left; reflexivity | exact Hb].
    - rewrite B_fby. split.
      + intros [bs [HB [_ [_ ->]]]]. inversion HB as [|x0 b0 l0 bs0 Hb HB']; subst. inversion HB'; subst. simpl. rewrite app_nil_r. exact Hb.
      + intro Hb. exists [b]. simpl. rewrite app_nil_r.
        repeat split; [repeat constructor; exact Hb | apply (B_nodup x b Hb) | repeat constructor].
  Qed.

  (* a list with the first operand replaced by a same-operator node's operands *)
  Lemma Beq_cons_app : forall o xs r r',
      Beq (mko o r') (mko o r) -> Beq (mko o (xs ++ r')) (mko o (mko o xs :: r)).
  Proof.
    intros o xs r r' Hr bb. destruct o; simpl mko in *.
    - change (OAnd xs :: r) with ([OAnd xs] ++ r)%list. rewrite !B_and_app. split; intros [b1 [b2 [H1 [H2 Hc]]]]; exists b1, b2; (split; [|split; [apply Hr; exact H2 | exact Hc]]).
      + apply (B_single OpAnd). exact H1.
      + apply (proj1 (B_single OpAnd (OAnd xs) b1)). exact H1.
    - change (OOr xs :: r) with ([OOr xs] ++ r)%list. rewrite !B_or_app. rewrite (Hr bb). rewrite (B_single OpOr (OOr xs) bb). tauto.
    - change (OFby xs :: r) with ([OFby xs] ++ r)%list. rewrite !B_fby_app. split; intros [b1 [b2 [H1 [H2 Hc]]]]; exists b1, b2; (split; [|split; [apply Hr; exact H2 | exact Hc]]).
      + apply (B_single OpFby). exact H1.
      + apply (proj1 (B_single OpFby (OFby xs) b1)). exact H1.
  Qed.

  Lemma Beq_cons : forall o x r r', Beq (mko o r') (mko o r) -> Beq (mko o (x :: r')) (mko o (x :: r)).
  Proof.
    intros o x r r' Hr bb.
    destruct o; simpl mko in *; change (x :: r') with ([x] ++ r')%list; change (x :: r) with ([x] ++ r)%list.
    - rewrite !B_and_app. split; intros [b1 [b2 [H1 [H2 Hc]]]]; exists b1, b2; (split; [exact H1 | split; [apply Hr; exact H2 | exact Hc]]).
    - rewrite !B_or_app. rewrite (Hr bb). tauto.
    - rewrite !B_fby_app. split; intros [b1 [b2 [H1 [H2 Hc]]]]; exists b1, b2; (split; [exact H1 | split; [apply Hr; exact H2 | exact Hc]]).
  Qed.

  (* ---------------------------------------------------------------- *)
  (* FlattenTransformer                                                *)

  Lemma oops_of_some : forall o e l, oops_of o e = Some l -> e = mko o l.
  Proof. destruct o, e; simpl; intros l0 E; inversion E; reflexivity. Qed.

  Lemma oflatten_ops_Beq : forall o l, Beq (mko o (fst (oflatten_ops o l))) (mko o l).
  Proof.
    induction l as [|x l IH]; [apply Beq_refl|]. cbn [oflatten_ops].
    destruct (oflatten_ops o l) as [r' ch]. cbn [fst] in IH.
    destruct (oops_of o x) as [xs|] eqn:Eo; cbn [fst].
    - apply oops_of_some in Eo. subst x. apply Beq_cons_app. exact IH.
    - apply Beq_cons. exact IH.
  Qed.

  Lemma oflatten_node_Beq : forall o l, Beq (fst (oflatten_node o l)) (mko o l).
  Proof.
    intros o l. unfold oflatten_node. destruct l as [|x [|x' l]].
    - pose proof (oflatten_ops_Beq o []) as E. destruct (oflatten_ops o []). exact E.
    - simpl. intro bb. symmetry. apply B_single.
    - pose proof (oflatten_ops_Beq o (x :: x' :: l)) as E. destruct (oflatten_ops o (x :: x' :: l)). exact E.
  Qed.
End OSem.

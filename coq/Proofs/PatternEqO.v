(* Proofs/PatternEqO.v -- observation expressions under the binding semantics
   of Spec/PatternSemantics.v (DESIGN.md Appendix A.5): comparator-equal
   expressions produce the same bindings, every constructor is monotone for
   refinement, and every pass of the observation-level normaliser yields an
   expression that refines its input and is refined by it -- hence matches
   exactly the same observation sequences.                                *)
From Coq Require Import NArith ZArith List Bool Permutation Lia String.
From V Require Import Base.UString Model.PatternEq Spec.PatternSemantics Proofs.PatternEqCmp Proofs.PatternEqLists
     Proofs.PatternEqBind Proofs.PatternEqC Proofs.PatternEqDnf Proofs.PatternEqNorm.
Import ListNotations.

Lemma oflatten_OAnd : forall l, fst (oflatten (OAnd l)) = fst (oflatten_node OpAnd (map fst (map oflatten l))).
Proof. intro l. simpl. destruct (oflatten_node OpAnd (map fst (map oflatten l))); reflexivity. Qed.
Lemma oflatten_OOr : forall l, fst (oflatten (OOr l)) = fst (oflatten_node OpOr (map fst (map oflatten l))).
Proof. intro l. simpl. destruct (oflatten_node OpOr (map fst (map oflatten l))); reflexivity. Qed.
Lemma oflatten_OFby : forall l, fst (oflatten (OFby l)) = fst (oflatten_node OpFby (map fst (map oflatten l))).
Proof. intro l. simpl. destruct (oflatten_node OpFby (map fst (map oflatten l))); reflexivity. Qed.

Lemma oorder_OAnd : forall l, fst (oorder (OAnd l)) = fst (oorder_node OpAnd (map fst (map oorder l))).
Proof. reflexivity. Qed.
Lemma oorder_OOr : forall l, fst (oorder (OOr l)) = fst (oorder_node OpOr (map fst (map oorder l))).
Proof. reflexivity. Qed.

Lemma oabsorb_OOr : forall l, fst (oabsorb (OOr l)) = fst (oabsorb_node (map fst (map oabsorb l))).
Proof. reflexivity. Qed.

Section OSem.
  Variable obj : Type.
  Variable otype : obj -> ustring.
  Variable H : ustring -> list step -> cop -> bool -> dconst -> obj -> bool.
  Hypothesis Hden : respects_denotation obj H.
  Hypothesis Hcidr : respects_cidr6 obj H.
  Variable O : list (observation obj).

  Notation csem := (csem obj otype H).
  Notation B := (B obj otype H O).
  Notation before := (before obj O).
  Notation qual_ok := (qual_ok obj O).
  Notation refines := (refines obj otype H O).
  Notation oequiv := (oequiv obj otype H O).

  (* ---------------------------------------------------------------- *)
  (* the clauses of B in usable form                                   *)

  Lemma each_Forall2 : forall l bs,
      (fix each (l : list oexpr) (bs : list (list nat)) {struct l} : Prop :=
         match l, bs with
         | [], [] => True
         | e' :: l', b' :: bs' => B e' b' /\ each l' bs'
         | _, _ => False
         end) l bs <-> Forall2 B l bs.
  Proof.
    induction l as [|e l IH]; intros [|b bs].
    - split; intros; constructor.
    - split; [intros [] | intro HH; inversion HH].
    - split; [intros [] | intro HH; inversion HH].
    - split.
      + intros [H1 H2]. constructor; [exact H1 | apply IH; exact H2].
      + intro HH. inversion HH; subst. split; [assumption | apply IH; assumption].
  Qed.

  Lemma B_obs : forall c b,
      B (Obs c) b <-> exists i t xs, b = [i] /\ nth_error O i = Some (t, xs) /\ existsb (csem c) xs = true.
  Proof. intros; reflexivity. Qed.

  Lemma B_and : forall l b, B (OAnd l) b <-> exists bs, Forall2 B l bs /\ NoDup (List.concat bs) /\ b = List.concat bs.
  Proof.
    intros l b. simpl. split; intros [bs [H1 H2]]; exists bs; (split; [apply each_Forall2; exact H1 | exact H2]).
  Qed.

  Lemma B_fby : forall l b,
      B (OFby l) b <->
      exists bs, Forall2 B l bs /\ NoDup (List.concat bs) /\ ForallOrdPairs before bs /\ b = List.concat bs.
  Proof.
    intros l b. simpl. split; intros [bs [H1 H2]]; exists bs; (split; [apply each_Forall2; exact H1 | exact H2]).
  Qed.

  Lemma B_or : forall l b, B (OOr l) b <-> exists e, In e l /\ B e b.
  Proof.
    intros l b. simpl. induction l as [|e l IH].
    - split; [intros [] | intros [e [[] _]]].
    - split.
      + intros [Hb|Hb]; [exists e; split; [left; reflexivity | exact Hb]|].
        apply IH in Hb. destruct Hb as [e' [He' Hb]]. exists e'. split; [right; exact He' | exact Hb].
      + intros [e' [[<-|He'] Hb]]; [left; exact Hb | right; apply IH; exists e'; auto].
  Qed.

  Lemma all_Forall : forall e bs,
      (fix all (bs : list (list nat)) : Prop := match bs with [] => True | b' :: r => B e b' /\ all r end) bs <->
      Forall (B e) bs.
  Proof.
    induction bs as [|b bs IH].
    - split; intros; constructor.
    - split.
      + intros [H1 H2]. constructor; [exact H1 | apply IH; exact H2].
      + intro HH. inversion HH; subst. split; [assumption | apply IH; assumption].
  Qed.

  Lemma B_repeat : forall e n b,
      B (OQual e (QRepeat n)) b <->
      exists bs, List.length bs = Z.to_nat n /\ Forall (B e) bs /\ NoDup (List.concat bs) /\ b = List.concat bs.
  Proof.
    intros e n b. simpl. split; intros [bs [H1 [H2 H3]]]; exists bs; (split; [exact H1 | split; [apply all_Forall; exact H2 | exact H3]]).
  Qed.

  Lemma B_within : forall e m x b, B (OQual e (QWithin m x)) b <-> B e b /\ qual_ok (QWithin m x) b.
  Proof. intros; reflexivity. Qed.

  Lemma B_startstop : forall e s t b, B (OQual e (QStartStop s t)) b <-> B e b /\ qual_ok (QStartStop s t) b.
  Proof. intros; reflexivity. Qed.

  Lemma qual_ok_incl : forall q b b', incl b' b -> qual_ok q b -> qual_ok q b'.
  Proof.
    intros [n|m x|s t] b b' Hi Hq; simpl in *; auto.
  Qed.

  (* ---------------------------------------------------------------- *)
  (* bindings are duplicate-free                                       *)

  Lemma B_nodup : forall e b, B e b -> NoDup b.
  Proof.
    induction e using oexpr_ind'; intros b Hb.
    - apply B_obs in Hb. destruct Hb as [i [t [xs [-> _]]]]. constructor; [intros [] | constructor].
    - apply B_and in Hb. destruct Hb as [bs [_ [Hn ->]]]. exact Hn.
    - apply B_or in Hb. destruct Hb as [e [He Hb]]. rewrite Forall_forall in H0. apply (H0 e He b Hb).
    - apply B_fby in Hb. destruct Hb as [bs [_ [Hn [_ ->]]]]. exact Hn.
    - destruct q as [n|m x|s t].
      + apply B_repeat in Hb. destruct Hb as [bs [_ [_ [Hn ->]]]]. exact Hn.
      + apply B_within in Hb. destruct Hb as [Hb _]. apply IHe; exact Hb.
      + apply B_startstop in Hb. destruct Hb as [Hb _]. apply IHe; exact Hb.
  Qed.

  (* ---------------------------------------------------------------- *)
  (* refinement                                                        *)

  Lemma refines_refl : forall e, refines e e.
  Proof. intros e b Hb. exists b. split; [apply incl_refl | exact Hb]. Qed.

  Lemma refines_trans : forall a b c, refines a b -> refines b c -> refines a c.
  Proof.
    intros a b c H1 H2 bb Hb. destruct (H1 bb Hb) as [b1 [I1 B1]]. destruct (H2 b1 B1) as [b2 [I2 B2]].
    exists b2. split; [eapply incl_tran; eassumption | exact B2].
  Qed.

  Lemma oequiv_refl : forall e, oequiv e e.
  Proof. intro e. split; apply refines_refl. Qed.

  Lemma oequiv_sym : forall a b, oequiv a b -> oequiv b a.
  Proof. intros a b [H1 H2]. split; assumption. Qed.

  Lemma oequiv_trans : forall a b c, oequiv a b -> oequiv b c -> oequiv a c.
  Proof. intros a b c [H1 H2] [H3 H4]. split; eapply refines_trans; eassumption. Qed.

  Lemma iff_refines : forall a b, (forall bb, B a bb -> B b bb) -> refines a b.
  Proof. intros a b Hab bb Hb. exists bb. split; [apply incl_refl | apply Hab; exact Hb]. Qed.

  Lemma iff_oequiv : forall a b, (forall bb, B a bb <-> B b bb) -> oequiv a b.
  Proof. intros a b Hab. split; apply iff_refines; intros bb; apply Hab. Qed.

  Lemma refines_matches : forall a b, refines a b -> matches obj otype H O a -> matches obj otype H O b.
  Proof. intros a b Hr [bb Hb]. destruct (Hr bb Hb) as [b' [_ Hb']]. exists b'. exact Hb'. Qed.

  Lemma oequiv_matches : forall a b, oequiv a b -> (matches obj otype H O a <-> matches obj otype H O b).
  Proof. intros a b [H1 H2]. split; apply refines_matches; assumption. Qed.

  (* sub-bindings operand by operand *)
  Lemma sub_bindings : forall l l' bs,
      Forall2 refines l l' -> Forall2 B l bs ->
      exists bs', Forall2 B l' bs' /\ Forall2 (@incl nat) bs' bs.
  Proof.
    intros l l' bs HR. revert bs. induction HR as [|e e' l l' Hr _ IH]; intros bs HB.
    - inversion HB; subst. exists []. split; constructor.
    - inversion HB as [|e0 b0 l0 bs0 Hb HB']; subst. destruct (Hr b0 Hb) as [b' [Hi Hb']].
      destruct (IH bs0 HB') as [bs' [HB'' HI]]. exists (b' :: bs'). split; constructor; assumption.
  Qed.

  Lemma Forall2_B_nodup : forall l bs, Forall2 B l bs -> Forall (@NoDup nat) bs.
  Proof. induction 1; constructor; [eapply B_nodup; eassumption | assumption]. Qed.

  Lemma before_incl : forall x' x y' y, incl x' x -> incl y' y -> before x y -> before x' y'.
  Proof. intros x' x y' y Hx Hy Hb i j Hi Hj. apply Hb; [apply Hx; exact Hi | apply Hy; exact Hj]. Qed.

  (* every constructor is monotone *)
  Lemma refines_and : forall l l', Forall2 refines l l' -> refines (OAnd l) (OAnd l').
  Proof.
    intros l l' HR b Hb. apply B_and in Hb. destruct Hb as [bs [HB [Hn ->]]].
    destruct (sub_bindings l l' bs HR HB) as [bs' [HB' HI]].
    exists (List.concat bs'). split; [apply incl_concat; exact HI|].
    apply B_and. exists bs'. split; [exact HB' | split; [|reflexivity]].
    apply (NoDup_concat_sub bs' bs HI (Forall2_B_nodup _ _ HB') Hn).
  Qed.

  Lemma refines_fby : forall l l', Forall2 refines l l' -> refines (OFby l) (OFby l').
  Proof.
    intros l l' HR b Hb. apply B_fby in Hb. destruct Hb as [bs [HB [Hn [Hf ->]]]].
    destruct (sub_bindings l l' bs HR HB) as [bs' [HB' HI]].
    exists (List.concat bs'). split; [apply incl_concat; exact HI|].
    apply B_fby. exists bs'. split; [exact HB' | split; [|split; [|reflexivity]]].
    - apply (NoDup_concat_sub bs' bs HI (Forall2_B_nodup _ _ HB') Hn).
    - apply (FOP_Forall2 before (@incl nat) bs' bs before_incl HI Hf).
  Qed.

  Lemma refines_or : forall l l', (forall e, In e l -> exists e', In e' l' /\ refines e e') -> refines (OOr l) (OOr l').
  Proof.
    intros l l' HR b Hb. apply B_or in Hb. destruct Hb as [e [He Hb]].
    destruct (HR e He) as [e' [He' Hr]]. destruct (Hr b Hb) as [b' [Hi Hb']].
    exists b'. split; [exact Hi | apply B_or; exists e'; auto].
  Qed.

  Lemma refines_or_pointwise : forall l l', Forall2 refines l l' -> refines (OOr l) (OOr l').
  Proof.
    intros l l' HR. apply refines_or. intros e He. destruct (F2_In_l _ _ _ e HR He) as [e' [He' Hr]]. exists e'. auto.
  Qed.

  Lemma refines_qual : forall e e' q, refines e e' -> refines (OQual e q) (OQual e' q).
  Proof.
    intros e e' [n|m x|s t] Hr b Hb.
    - apply B_repeat in Hb. destruct Hb as [bs [Hl [HB [Hn ->]]]].
      assert (HS : exists bs', Forall (B e') bs' /\ Forall2 (@incl nat) bs' bs).
      { clear Hl Hn. induction HB as [|b0 bs0 Hb0 _ IH]; [exists []; split; constructor|].
        destruct (Hr b0 Hb0) as [b' [Hi Hb']]. destruct IH as [bs' [HB' HI]].
        exists (b' :: bs'). split; constructor; assumption. }
      destruct HS as [bs' [HB' HI]]. exists (List.concat bs'). split; [apply incl_concat; exact HI|].
      apply B_repeat. exists bs'. split; [|split; [exact HB' | split; [|reflexivity]]].
      + rewrite <- Hl. apply (F2_length _ _ _ HI).
      + apply (NoDup_concat_sub bs' bs HI); [|exact Hn].
        eapply Forall_impl; [|exact HB']. intros a Ha. apply (B_nodup e' a Ha).
    - apply B_within in Hb. destruct Hb as [Hb Hq]. destruct (Hr b Hb) as [b' [Hi Hb']].
      exists b'. split; [exact Hi | apply B_within; split; [exact Hb' | apply (qual_ok_incl _ b b' Hi Hq)]].
    - apply B_startstop in Hb. destruct Hb as [Hb Hq]. destruct (Hr b Hb) as [b' [Hi Hb']].
      exists b'. split; [exact Hi | apply B_startstop; split; [exact Hb' | apply (qual_ok_incl _ b b' Hi Hq)]].
  Qed.

  Lemma Forall2_oequiv_split : forall l l', Forall2 oequiv l l' -> Forall2 refines l l' /\ Forall2 refines l' l.
  Proof. induction 1 as [|a b l l' [H1 H2] _ [IH1 IH2]]; split; constructor; assumption. Qed.

  Lemma oequiv_and : forall l l', Forall2 oequiv l l' -> oequiv (OAnd l) (OAnd l').
  Proof. intros l l' HF. destruct (Forall2_oequiv_split _ _ HF). split; apply refines_and; assumption. Qed.
  Lemma oequiv_fby : forall l l', Forall2 oequiv l l' -> oequiv (OFby l) (OFby l').
  Proof. intros l l' HF. destruct (Forall2_oequiv_split _ _ HF). split; apply refines_fby; assumption. Qed.
  Lemma oequiv_or : forall l l', Forall2 oequiv l l' -> oequiv (OOr l) (OOr l').
  Proof. intros l l' HF. destruct (Forall2_oequiv_split _ _ HF). split; apply refines_or_pointwise; assumption. Qed.
  Lemma oequiv_qual : forall e e' q, oequiv e e' -> oequiv (OQual e q) (OQual e' q).
  Proof. intros e e' q [H1 H2]. split; apply refines_qual; assumption. Qed.
  Lemma oequiv_mko : forall o l l', Forall2 oequiv l l' -> oequiv (mko o l) (mko o l').
  Proof. destruct o; simpl; [apply oequiv_and | apply oequiv_or | apply oequiv_fby]. Qed.

  Lemma oequiv_obs : forall c c', (forall x, csem c x = csem c' x) -> oequiv (Obs c) (Obs c').
  Proof.
    intros c c' Hc. apply iff_oequiv. intro bb. rewrite !B_obs.
    split; intros [i [t [xs [E1 [E2 E3]]]]]; exists i, t, xs; (split; [exact E1 | split; [exact E2|]]);
      rewrite <- E3; apply existsb_ext; intro x; [symmetry|]; apply Hc.
  Qed.

  (* ---------------------------------------------------------------- *)
  (* same bindings                                                     *)

  Definition Bsub (a b : oexpr) : Prop := forall bb, B a bb -> B b bb.
  Definition Beq (a b : oexpr) : Prop := forall bb, B a bb <-> B b bb.

  Lemma Beq_oequiv : forall a b, Beq a b -> oequiv a b.
  Proof. intros a b Hab. apply iff_oequiv. exact Hab. Qed.

  Lemma Beq_refl : forall a, Beq a a.
  Proof. intros a bb. tauto. Qed.
  Lemma Beq_sym : forall a b, Beq a b -> Beq b a.
  Proof. intros a b Hab bb. symmetry. apply Hab. Qed.
  Lemma Beq_trans : forall a b c, Beq a b -> Beq b c -> Beq a c.
  Proof. intros a b c H1 H2 bb. rewrite (H1 bb). apply H2. Qed.
  Lemma Beq_split : forall a b, Beq a b <-> Bsub a b /\ Bsub b a.
  Proof. intros a b. split; [intro Hab; split; intros bb Hb; apply Hab; exact Hb | intros [H1 H2] bb; split; [apply H1 | apply H2]]. Qed.

  Lemma Forall2_Bsub : forall l1 l2 bs, Forall2 Bsub l1 l2 -> Forall2 B l1 bs -> Forall2 B l2 bs.
  Proof.
    intros l1 l2 bs HS. revert bs. induction HS as [|a b l1 l2 Hab _ IH]; intros bs HB; inversion HB; subst; constructor; auto.
  Qed.

  Lemma Bsub_and : forall l1 l2, Forall2 Bsub l1 l2 -> Bsub (OAnd l1) (OAnd l2).
  Proof.
    intros l1 l2 HS bb Hb. apply B_and in Hb. destruct Hb as [bs [HB Hr]]. apply B_and. exists bs.
    split; [apply (Forall2_Bsub l1 l2 bs HS HB) | exact Hr].
  Qed.

  Lemma Bsub_fby : forall l1 l2, Forall2 Bsub l1 l2 -> Bsub (OFby l1) (OFby l2).
  Proof.
    intros l1 l2 HS bb Hb. apply B_fby in Hb. destruct Hb as [bs [HB Hr]]. apply B_fby. exists bs.
    split; [apply (Forall2_Bsub l1 l2 bs HS HB) | exact Hr].
  Qed.

  Lemma Bsub_or : forall l1 l2, Forall2 Bsub l1 l2 -> Bsub (OOr l1) (OOr l2).
  Proof.
    intros l1 l2 HS bb Hb. apply B_or in Hb. destruct Hb as [e [He Hb]].
    destruct (F2_In_l _ _ _ e HS He) as [e' [He' Hs]]. apply B_or. exists e'. split; [exact He' | apply Hs; exact Hb].
  Qed.

  Lemma Bsub_qual : forall e e' q, Bsub e e' -> Bsub (OQual e q) (OQual e' q).
  Proof.
    intros e e' [n|m x|s t] Hs bb Hb.
    - apply B_repeat in Hb. destruct Hb as [bs [Hl [HB Hr]]]. apply B_repeat. exists bs.
      split; [exact Hl | split; [|exact Hr]]. eapply Forall_impl; [|exact HB]. exact Hs.
    - apply B_within in Hb. destruct Hb as [Hb Hq]. apply B_within. split; [apply Hs; exact Hb | exact Hq].
    - apply B_startstop in Hb. destruct Hb as [Hb Hq]. apply B_startstop. split; [apply Hs; exact Hb | exact Hq].
  Qed.

  (* comparator-equal qualifiers constrain a binding in the same way *)
  Lemma qual_same_B : forall e q1 q2, qual_same q1 q2 -> forall bb, B (OQual e q1) bb -> B (OQual e q2) bb.
  Proof.
    intros e q1 q2 Hq bb Hb. destruct q1 as [n1|m1 x1|s1 t1], q2 as [n2|m2 x2|s2 t2]; simpl in Hq;
      try discriminate Hq; try (inversion Hq; subst; exact Hb).
    apply B_within in Hb. destruct Hb as [Hb Hok]. apply B_within. split; [exact Hb|].
    simpl in *. intros i j Hi Hj. specialize (Hok i j Hi Hj).
    assert (P1 : (0 < 10 ^ Z.of_N x1)%Z) by (apply Z.pow_pos_nonneg; lia).
    assert (P2 : (0 < 10 ^ Z.of_N x2)%Z) by (apply Z.pow_pos_nonneg; lia).
    set (d := (time_of obj O i - time_of obj O j)%Z) in *.
    set (p1 := (10 ^ Z.of_N x1)%Z) in *. set (p2 := (10 ^ Z.of_N x2)%Z) in *.
    (* d * p1 <= m1 * 10^6  and  m1 * p2 = m2 * p1  give  d * p2 <= m2 * 10^6 *)
    apply (Zmult_le_reg_r _ _ p1); [lia|].
    replace (m2 * 1000000 * p1)%Z with ((m1 * 1000000) * p2)%Z
      by (replace (m1 * 1000000 * p2)%Z with ((m1 * p2) * 1000000)%Z by ring; rewrite Hq; ring).
    replace (d * p2 * p1)%Z with ((d * p1) * p2)%Z by ring.
    apply Z.mul_le_mono_nonneg_r; [lia | exact Hok].
  Qed.

  Lemma Bsub_mko : forall o l1 l2, Forall2 Bsub l1 l2 -> Bsub (mko o l1) (mko o l2).
  Proof. destruct o; simpl; [apply Bsub_and | apply Bsub_or | apply Bsub_fby]. Qed.

  Lemma Forall2_Beq_split : forall l l', Forall2 Beq l l' -> Forall2 Bsub l l' /\ Forall2 Bsub l' l.
  Proof.
    induction 1 as [|a b l l' Hab _ [IH1 IH2]]; split; constructor; try assumption; apply Beq_split in Hab; tauto.
  Qed.

  Lemma Beq_mko : forall o l1 l2, Forall2 Beq l1 l2 -> Beq (mko o l1) (mko o l2).
  Proof. intros o l1 l2 HF. destruct (Forall2_Beq_split _ _ HF). apply Beq_split. split; apply Bsub_mko; assumption. Qed.

  Lemma Beq_qual : forall e e' q, Beq e e' -> Beq (OQual e q) (OQual e' q).
  Proof. intros e e' q Hab. apply Beq_split in Hab. destruct Hab. apply Beq_split. split; apply Bsub_qual; assumption. Qed.

  (* cmp_eq_sound, observation level: comparator-equal expressions produce the same bindings *)
  Lemma ocmp_Bsub : forall a b, ocmp a b = Eq -> Bsub a b.
  Proof.
    induction a using oexpr_ind'; intros [c2 | l2 | l2 | l2 | e2 q2] E; try discriminate E.
    - simpl in E. intros bb Hb. apply B_obs in Hb. apply B_obs.
      destruct Hb as [i [t [xs [E1 [E2 E3]]]]]. exists i, t, xs. split; [exact E1 | split; [exact E2|]].
      rewrite <- E3. apply existsb_ext. intro x. symmetry. apply (ccmp_sem obj otype H Hden _ _ E x).
    - simpl in E. apply lex_eq_Forall2 in E. apply Bsub_and.
      revert H0. clear -E. induction E; intro HF; constructor; inversion HF; subst; auto.
    - simpl in E. apply lex_eq_Forall2 in E. apply Bsub_or.
      revert H0. clear -E. induction E; intro HF; constructor; inversion HF; subst; auto.
    - simpl in E. apply lex_eq_Forall2 in E. apply Bsub_fby.
      revert H0. clear -E. induction E; intro HF; constructor; inversion HF; subst; auto.
    - rewrite ocmp_qual in E. apply lex2_eq in E. destruct E as [Eq Ee]. apply qual_cmp_eq in Eq.
      intros bb Hb. apply (qual_same_B e2 q q2 Eq). apply (Bsub_qual a e2 q (IHa e2 Ee)). exact Hb.
  Qed.

  Lemma ocmp_Beq : forall a b, ocmp a b = Eq -> Beq a b.
  Proof.
    intros a b E. apply Beq_split. split; [apply ocmp_Bsub; exact E|].
    apply ocmp_Bsub. apply (lawful_eq_sym ocmp ocmp_lawful); exact E.
  Qed.

  (* ---------------------------------------------------------------- *)
  (* splitting an operand list                                         *)

  Definition comb (o : oop) (b1 b2 b : list nat) : Prop :=
    NoDup (b1 ++ b2) /\ match o with OpFby => before b1 b2 | _ => True end /\ b = (b1 ++ b2)%list.

  Lemma before_concat : forall bs1 bs2,
      before (List.concat bs1) (List.concat bs2) <-> (forall x y, In x bs1 -> In y bs2 -> before x y).
  Proof.
    intros bs1 bs2. split.
    - intros Hb x y Hx Hy i j Hi Hj. apply Hb; apply in_concat; [exists x | exists y]; auto.
    - intros Hb i j Hi Hj. apply in_concat in Hi. apply in_concat in Hj.
      destruct Hi as [x [Hx Hi]]. destruct Hj as [y [Hy Hj]]. apply (Hb x y Hx Hy i j Hi Hj).
  Qed.

  Lemma B_and_app : forall l1 l2 b,
      B (OAnd (l1 ++ l2)) b <-> exists b1 b2, B (OAnd l1) b1 /\ B (OAnd l2) b2 /\ comb OpAnd b1 b2 b.
  Proof.
    intros l1 l2 b. split.
    - intro Hb. apply B_and in Hb. destruct Hb as [bs [HB [Hn ->]]].
      apply Forall2_app_inv_l in HB. destruct HB as [bs1 [bs2 [HB1 [HB2 ->]]]].
      rewrite concat_app in *. pose proof Hn as Hn'. apply NoDup_app_iff in Hn'. destruct Hn' as [N1 [N2 _]].
      exists (List.concat bs1), (List.concat bs2). split; [apply B_and; exists bs1; auto|].
      split; [apply B_and; exists bs2; auto|]. repeat split; auto.
    - intros [b1 [b2 [H1 [H2 [Hn [_ ->]]]]]]. apply B_and in H1. apply B_and in H2.
      destruct H1 as [bs1 [HB1 [_ ->]]]. destruct H2 as [bs2 [HB2 [_ ->]]].
      apply B_and. exists (bs1 ++ bs2)%list. rewrite concat_app. split; [apply Forall2_app; assumption | auto].
  Qed.

  Lemma B_fby_app : forall l1 l2 b,
      B (OFby (l1 ++ l2)) b <-> exists b1 b2, B (OFby l1) b1 /\ B (OFby l2) b2 /\ comb OpFby b1 b2 b.
  Proof.
    intros l1 l2 b. split.
    - intro Hb. apply B_fby in Hb. destruct Hb as [bs [HB [Hn [Hf ->]]]].
      apply Forall2_app_inv_l in HB. destruct HB as [bs1 [bs2 [HB1 [HB2 ->]]]].
      rewrite concat_app in *. pose proof Hn as Hn'. apply NoDup_app_iff in Hn'. destruct Hn' as [N1 [N2 _]].
      apply FOP_app in Hf. destruct Hf as [F1 [F2 F12]].
      exists (List.concat bs1), (List.concat bs2). split; [apply B_fby; exists bs1; auto|].
      split; [apply B_fby; exists bs2; auto|]. repeat split; auto. apply before_concat. exact F12.
    - intros [b1 [b2 [H1 [H2 [Hn [Hbf ->]]]]]]. apply B_fby in H1. apply B_fby in H2.
      destruct H1 as [bs1 [HB1 [_ [F1 ->]]]]. destruct H2 as [bs2 [HB2 [_ [F2 ->]]]].
      apply B_fby. exists (bs1 ++ bs2)%list. rewrite concat_app. split; [apply Forall2_app; assumption|].
      split; [exact Hn | split; [|reflexivity]]. apply FOP_app. repeat split; auto. apply before_concat. exact Hbf.
  Qed.

  Lemma B_or_app : forall l1 l2 b, B (OOr (l1 ++ l2)) b <-> B (OOr l1) b \/ B (OOr l2) b.
  Proof.
    intros l1 l2 b. rewrite !B_or. split.
    - intros [e [He Hb]]. apply in_app_or in He. destruct He as [He|He]; [left | right]; exists e; auto.
    - intros [[e [He Hb]]|[e [He Hb]]]; exists e; (split; [apply in_or_app; auto | exact Hb]).
  Qed.

  Lemma B_single : forall o x b, B (mko o [x]) b <-> B x b.
  Proof.
    intros o x b. destruct o; simpl mko.
    - rewrite B_and. split.
      + intros [bs [HB [_ ->]]]. inversion HB as [|x0 b0 l0 bs0 Hb HB']; subst. inversion HB'; subst. simpl. rewrite app_nil_r. exact Hb.
      + intro Hb. exists [b]. simpl. rewrite app_nil_r. repeat split; [repeat constructor; exact Hb | apply (B_nodup x b Hb)].
    - rewrite B_or. split.
      + intros [e [He Hb]]. destruct He as [He|He]; [subst e; exact Hb | destruct He].
      + intro Hb. exists x. split; [left; reflexivity | exact Hb].
    - rewrite B_fby. split.
      + intros [bs [HB [_ [_ ->]]]]. inversion HB as [|x0 b0 l0 bs0 Hb HB']; subst. inversion HB'; subst. simpl. rewrite app_nil_r. exact Hb.
      + intro Hb. exists [b]. simpl. rewrite app_nil_r.
        repeat split; [repeat constructor; exact Hb | apply (B_nodup x b Hb) | repeat constructor].
  Qed.

  (* a list with the first operand replaced by a same-operator node's operands *)
  Lemma Beq_cons_app : forall o xs r r',
      Beq (mko o r') (mko o r) -> Beq (mko o (xs ++ r')) (mko o (mko o xs :: r)).
  Proof.
    intros o xs r r' Hr bb. destruct o; simpl mko in *.
    - change (OAnd xs :: r) with ([OAnd xs] ++ r)%list. rewrite !B_and_app. split; intros [b1 [b2 [H1 [H2 Hc]]]]; exists b1, b2; (split; [|split; [apply Hr; exact H2 | exact Hc]]).
      + apply (B_single OpAnd). exact H1.
      + apply (proj1 (B_single OpAnd (OAnd xs) b1)). exact H1.
    - change (OOr xs :: r) with ([OOr xs] ++ r)%list. rewrite !B_or_app. rewrite (Hr bb). rewrite (B_single OpOr (OOr xs) bb). tauto.
    - change (OFby xs :: r) with ([OFby xs] ++ r)%list. rewrite !B_fby_app. split; intros [b1 [b2 [H1 [H2 Hc]]]]; exists b1, b2; (split; [|split; [apply Hr; exact H2 | exact Hc]]).
      + apply (B_single OpFby). exact H1.
      + apply (proj1 (B_single OpFby (OFby xs) b1)). exact H1.
  Qed.

  Lemma Beq_cons : forall o x r r', Beq (mko o r') (mko o r) -> Beq (mko o (x :: r')) (mko o (x :: r)).
  Proof.
    intros o x r r' Hr bb.
    destruct o; simpl mko in *; change (x :: r') with ([x] ++ r')%list; change (x :: r) with ([x] ++ r)%list.
    - rewrite !B_and_app. split; intros [b1 [b2 [H1 [H2 Hc]]]]; exists b1, b2; (split; [exact H1 | split; [apply Hr; exact H2 | exact Hc]]).
    - rewrite !B_or_app. rewrite (Hr bb). tauto.
    - rewrite !B_fby_app. split; intros [b1 [b2 [H1 [H2 Hc]]]]; exists b1, b2; (split; [exact H1 | split; [apply Hr; exact H2 | exact Hc]]).
  Qed.

  (* ---------------------------------------------------------------- *)
  (* FlattenTransformer                                                *)

  Lemma oops_of_some : forall o e l, oops_of o e = Some l -> e = mko o l.
  Proof. destruct o, e; simpl; intros l0 E; inversion E; reflexivity. Qed.

  Lemma oflatten_ops_Beq : forall o l, Beq (mko o (fst (oflatten_ops o l))) (mko o l).
  Proof.
    induction l as [|x l IH]; [apply Beq_refl|]. cbn [oflatten_ops].
    destruct (oflatten_ops o l) as [r' ch]. cbn [fst] in IH.
    destruct (oops_of o x) as [xs|] eqn:Eo; cbn [fst].
    - apply oops_of_some in Eo. subst x. apply Beq_cons_app. exact IH.
    - apply Beq_cons. exact IH.
  Qed.

  Lemma oflatten_node_Beq : forall o l, Beq (fst (oflatten_node o l)) (mko o l).
  Proof.
    intros o l. unfold oflatten_node. destruct l as [|x [|x' l]].
    - pose proof (oflatten_ops_Beq o []) as E. destruct (oflatten_ops o []). exact E.
    - simpl. intro bb. symmetry. apply B_single.
    - pose proof (oflatten_ops_Beq o (x :: x' :: l)) as E. destruct (oflatten_ops o (x :: x' :: l)). exact E.
  Qed.

  Lemma Forall_map_Beq : forall (f : oexpr -> oexpr) l, Forall (fun e => Beq (f e) e) l -> Forall2 Beq (map f l) l.
  Proof. induction 1; simpl; constructor; assumption. Qed.

  Lemma oflatten_sound : forall e, Beq (fst (oflatten e)) e.
  Proof.
    induction e using oexpr_ind'.
    - apply Beq_refl.
    - rewrite oflatten_OAnd. eapply Beq_trans; [apply oflatten_node_Beq|]. apply (Beq_mko OpAnd).
      rewrite map_map. apply Forall_map_Beq. exact H0.
    - rewrite oflatten_OOr. eapply Beq_trans; [apply oflatten_node_Beq|]. apply (Beq_mko OpOr).
      rewrite map_map. apply Forall_map_Beq. exact H0.
    - rewrite oflatten_OFby. eapply Beq_trans; [apply oflatten_node_Beq|]. apply (Beq_mko OpFby).
      rewrite map_map. apply Forall_map_Beq. exact H0.
    - simpl. destruct (oflatten e) as [r ch]. simpl in *. apply Beq_qual. exact IHe.
  Qed.

  (* ---------------------------------------------------------------- *)
  (* OrderDedupeTransformer                                            *)

  Lemma refines_and_perm : forall l l', Permutation l l' -> refines (OAnd l) (OAnd l').
  Proof.
    intros l l' HP b Hb. apply B_and in Hb. destruct Hb as [bs [HB [Hn ->]]].
    destruct (Forall2_perm_l _ _ _ HB l' HP) as [bs' [Pb HB']].
    pose proof (Permutation_concat _ _ Pb) as Pc.
    exists (List.concat bs'). split.
    - intros x Hx. apply (Permutation_in x (Permutation_sym Pc) Hx).
    - apply B_and. exists bs'. split; [exact HB' | split; [|reflexivity]]. apply (Permutation_NoDup Pc Hn).
  Qed.

  Lemma oequiv_and_perm : forall l l', Permutation l l' -> oequiv (OAnd l) (OAnd l').
  Proof. intros l l' HP. split; apply refines_and_perm; [exact HP | apply Permutation_sym; exact HP]. Qed.

  Lemma Beq_or_dedupe : forall l, Beq (OOr (dedupe ocmp (isort ocmp l))) (OOr l).
  Proof.
    intros l bb. rewrite !B_or. split.
    - intros [e [He Hb]]. exists e. split; [|exact Hb]. apply (incl_isort ocmp l). apply (dedupe_incl ocmp _ e He).
    - intros [e [He Hb]].
      assert (He' : In e (isort ocmp l)) by (apply (Permutation_in e (Permutation_sym (isort_perm ocmp l)) He)).
      destruct (dedupe_cover ocmp _ e He') as [y [Hy [->|Ey]]].
      + exists e. auto.
      + exists y. split; [exact Hy|]. apply (ocmp_Beq y e Ey). exact Hb.
  Qed.

  Lemma oorder_node_and : forall l, oequiv (fst (oorder_node OpAnd l)) (OAnd l).
  Proof. intro l. unfold oorder_node. cbn [fst mko]. apply oequiv_and_perm. apply isort_perm. Qed.

  Lemma oorder_node_or : forall l, oequiv (fst (oorder_node OpOr l)) (OOr l).
  Proof. intro l. unfold oorder_node. cbn [fst mko]. apply Beq_oequiv. apply Beq_or_dedupe. Qed.

  Lemma Forall_map_oequiv : forall (f : oexpr -> oexpr) l, Forall (fun e => oequiv (f e) e) l -> Forall2 oequiv (map f l) l.
  Proof. induction 1; simpl; constructor; assumption. Qed.

  Lemma oorder_sound : forall e, oequiv (fst (oorder e)) e.
  Proof.
    induction e using oexpr_ind'.
    - apply oequiv_refl.
    - rewrite oorder_OAnd. eapply oequiv_trans; [apply oorder_node_and|]. apply oequiv_and.
      rewrite map_map. apply Forall_map_oequiv. exact H0.
    - rewrite oorder_OOr. eapply oequiv_trans; [apply oorder_node_or|]. apply oequiv_or.
      rewrite map_map. apply Forall_map_oequiv. exact H0.
    - simpl. apply oequiv_fby. rewrite map_map. apply Forall_map_oequiv. exact H0.
    - simpl. destruct (oorder e) as [r ch]. simpl in *. apply oequiv_qual. exact IHe.
  Qed.

  (* ---------------------------------------------------------------- *)
  (* AbsorptionTransformer                                             *)

  Lemma remove_first_spec : forall {A} (p : A -> bool) l l',
      remove_first p l = Some l' -> exists pre x post, l = (pre ++ x :: post)%list /\ p x = true /\ l' = (pre ++ post)%list.
  Proof.
    induction l as [|y l IH]; simpl; intros l' E; [discriminate|].
    destruct (p y) eqn:Py.
    - inversion E; subst. exists [], y, l'. auto.
    - destruct (remove_first p l) as [r'|] eqn:Er; [|discriminate]. inversion E; subst.
      destruct (IH r' eq_refl) as [pre [x [post [-> [Px ->]]]]]. exists (y :: pre), x, post. auto.
  Qed.

  Lemma drop_until_spec : forall {A} (p : A -> bool) l l',
      drop_until p l = Some l' -> exists pre x, l = (pre ++ x :: l')%list /\ p x = true.
  Proof.
    induction l as [|y l IH]; simpl; intros l' E; [discriminate|].
    destruct (p y) eqn:Py.
    - inversion E; subst. exists [], y. auto.
    - destruct (IH l' E) as [pre [x [-> Px]]]. exists (y :: pre), x. auto.
  Qed.

  Lemma Forall2_B_split : forall pre er post bs,
      Forall2 B (pre ++ er :: post) bs ->
      exists bpre ber bpost, bs = (bpre ++ ber :: bpost)%list /\ Forall2 B pre bpre /\ B er ber /\ Forall2 B post bpost.
  Proof.
    intros pre er post bs HB. apply Forall2_app_inv_l in HB. destruct HB as [bpre [brest [H1 [H2 ->]]]].
    inversion H2 as [|x0 ber l0 bpost Hb H3]; subst. exists bpre, ber, bpost. auto.
  Qed.

  (* __is_contained_and: distinct operands of the container, one per containee *)
  Lemma contained_and_sem : forall ees container bs,
      contained_and ocmp ees container = true -> Forall2 B container bs -> NoDup (List.concat bs) ->
      exists bs', Forall2 B ees bs' /\ NoDup (List.concat bs') /\ incl (List.concat bs') (List.concat bs).
  Proof.
    induction ees as [|ee r IH]; intros container bs E HB Hn.
    - exists []. repeat split; [constructor | constructor | intros x []].
    - simpl in E. destruct (remove_first (fun er => is_eq (ocmp ee er)) container) as [c'|] eqn:Er; [|discriminate].
      apply remove_first_spec in Er. destruct Er as [pre [er [post [-> [Pe ->]]]]].
      apply is_eq_true in Pe.
      destruct (Forall2_B_split _ _ _ _ HB) as [bpre [ber [bpost [-> [H1 [H2 H3]]]]]].
      rewrite concat_app in Hn. simpl in Hn. apply NoDup_remove_mid in Hn. destruct Hn as [Nac [Nm Dm]].
      rewrite <- concat_app in Nac, Dm.
      destruct (IH (pre ++ post)%list (bpre ++ bpost)%list E (Forall2_app H1 H3) Nac) as [bs' [HB' [Hn' Hi']]].
      exists (ber :: bs'). split; [|split].
      + constructor; [apply (ocmp_Beq ee er Pe); exact H2 | exact HB'].
      + simpl. apply NoDup_app_iff. repeat split; [exact Nm | exact Hn'|].
        intros x Hx Hx'. apply (Dm x Hx). apply Hi'. exact Hx'.
      + simpl. rewrite !concat_app. simpl. intros x Hx. apply in_app_or in Hx. destruct Hx as [Hx|Hx].
        * apply in_or_app. right. apply in_or_app. left. exact Hx.
        * apply Hi' in Hx. rewrite concat_app in Hx. apply in_app_or in Hx. destruct Hx as [Hx|Hx];
            apply in_or_app; [left; exact Hx | right; apply in_or_app; right; exact Hx].
  Qed.

  (* __is_contained_followedby: a sub-sequence of the container *)
  Lemma contained_fby_sem : forall ees ers bs,
      contained_fby ocmp ees ers = true -> Forall2 B ers bs -> exists bs', Forall2 B ees bs' /\ sublist bs' bs.
  Proof.
    induction ees as [|ee r IH]; intros ers bs E HB.
    - exists []. split; [constructor | apply sublist_nil_l].
    - simpl in E. destruct (drop_until (fun er => is_eq (ocmp ee er)) ers) as [ers'|] eqn:Ed; [|discriminate].
      apply drop_until_spec in Ed. destruct Ed as [pre [er [-> Pe]]]. apply is_eq_true in Pe.
      destruct (Forall2_B_split _ _ _ _ HB) as [bpre [ber [bpost [-> [H1 [H2 H3]]]]]].
      destruct (IH ers' bpost E H3) as [bs' [HB' Hs]].
      exists (ber :: bs'). split.
      + constructor; [apply (ocmp_Beq ee er Pe); exact H2 | exact HB'].
      + apply sublist_app_skip. apply sl_take. exact Hs.
  Qed.

  Lemma in_cmp_refines_and : forall c1 ops2, in_cmp ocmp c1 ops2 = true -> refines (OAnd ops2) c1.
  Proof.
    intros c1 ops2 E b Hb. apply in_cmp_true in E. destruct E as [y [Hy Ey]].
    apply B_and in Hb. destruct Hb as [bs [HB [_ ->]]].
    destruct (F2_In_l _ _ _ y HB Hy) as [by_ [Hby By]].
    exists by_. split; [apply incl_concat_elem; exact Hby | apply (ocmp_Beq c1 y Ey); exact By].
  Qed.

  Lemma in_cmp_refines_fby : forall c1 ops2, in_cmp ocmp c1 ops2 = true -> refines (OFby ops2) c1.
  Proof.
    intros c1 ops2 E b Hb. apply in_cmp_true in E. destruct E as [y [Hy Ey]].
    apply B_fby in Hb. destruct Hb as [bs [HB [_ [_ ->]]]].
    destruct (F2_In_l _ _ _ y HB Hy) as [by_ [Hby By]].
    exists by_. split; [apply incl_concat_elem; exact Hby | apply (ocmp_Beq c1 y Ey); exact By].
  Qed.

  Lemma contained_and_refines : forall ops1 ops2, contained_and ocmp ops1 ops2 = true -> refines (OAnd ops2) (OAnd ops1).
  Proof.
    intros ops1 ops2 E b Hb. apply B_and in Hb. destruct Hb as [bs [HB [Hn ->]]].
    destruct (contained_and_sem ops1 ops2 bs E HB Hn) as [bs' [HB' [Hn' Hi']]].
    exists (List.concat bs'). split; [exact Hi' | apply B_and; exists bs'; auto].
  Qed.

  Lemma contained_fby_refines : forall ops1 ops2, contained_fby ocmp ops1 ops2 = true -> refines (OFby ops2) (OFby ops1).
  Proof.
    intros ops1 ops2 E b Hb. apply B_fby in Hb. destruct Hb as [bs [HB [Hn [Hf ->]]]].
    destruct (contained_fby_sem ops1 ops2 bs E HB) as [bs' [HB' Hs]].
    exists (List.concat bs'). split; [apply sublist_concat_incl; exact Hs|].
    apply B_fby. exists bs'. split; [exact HB' | split; [|split; [|reflexivity]]].
    - apply (sublist_concat_NoDup _ _ Hs Hn).
    - apply (sublist_FOP _ _ _ Hs Hf).
  Qed.

  (* may child2 go because of child1?  then every binding of child2 contains one of child1 *)
  Lemma oabsorbs_refines : forall c1 c2, oabsorbs c1 c2 = true -> refines c2 c1.
  Proof.
    intros c1 c2 E. unfold oabsorbs in E.
    destruct c2 as [x2 | ops2 | ops2 | ops2 | e2 q2]; try (destruct c1; discriminate E).
    - destruct (in_cmp ocmp c1 ops2) eqn:I1.
      + apply in_cmp_refines_and; exact I1.
      + destruct c1 as [x1 | ops1 | ops1 | ops1 | e1 q1]; try discriminate E.
        apply contained_and_refines; exact E.
    - destruct (in_cmp ocmp c1 ops2) eqn:I1.
      + apply in_cmp_refines_fby; exact I1.
      + destruct c1 as [x1 | ops1 | ops1 | ops1 | e1 q1]; try discriminate E.
        apply contained_fby_refines; exact E.
  Qed.

  Lemma oabsorb_node_sound : forall l, oequiv (fst (oabsorb_node l)) (OOr l).
  Proof.
    intro l. unfold oabsorb_node. cbn [fst]. split.
    - apply refines_or. intros e He. exists e. split; [apply (remove_marked_incl l _ e He) | apply refines_refl].
    - apply refines_or. intros e He.
      destruct (absorb_cover oabsorbs (fun a b => refines b a)) with (ops := l) (x := e) as [y [Hy Ly]]; auto.
      + intros a b c H1 H2. eapply refines_trans; eassumption.
      + intros a b Eab. apply oabsorbs_refines; exact Eab.
      + exists y. split; [exact Hy|]. destruct Ly as [->|Ly]; [apply refines_refl | exact Ly].
  Qed.

  Lemma oabsorb_sound : forall e, oequiv (fst (oabsorb e)) e.
  Proof.
    induction e using oexpr_ind'.
    - apply oequiv_refl.
    - simpl. apply oequiv_and. rewrite map_map. apply Forall_map_oequiv. exact H0.
    - rewrite oabsorb_OOr. eapply oequiv_trans; [apply oabsorb_node_sound|]. apply oequiv_or.
      rewrite map_map. apply Forall_map_oequiv. exact H0.
    - simpl. apply oequiv_fby. rewrite map_map. apply Forall_map_oequiv. exact H0.
    - simpl. destruct (oabsorb e) as [r ch]. simpl in *. apply oequiv_qual. exact IHe.
  Qed.

  (* ---------------------------------------------------------------- *)
  (* the chain and the settle loop                                     *)

  Lemma osimplify_sound : forall e, oequiv (fst (osimplify e)) e.
  Proof.
    intro e. unfold osimplify.
    pose proof (oflatten_sound e) as H1. destruct (oflatten e) as [e1 c1]. simpl in H1.
    pose proof (oorder_sound e1) as H2. destruct (oorder e1) as [e2 c2]. simpl in H2.
    pose proof (oabsorb_sound e2) as H3. destruct (oabsorb e2) as [e3 c3]. simpl in *.
    eapply oequiv_trans; [exact H3|]. eapply oequiv_trans; [exact H2|]. apply Beq_oequiv. exact H1.
  Qed.

  Lemma osettle_sound : forall fuel e e' ch, osettle fuel e = Ok (e', ch) -> oequiv e' e.
  Proof.
    intros fuel e e' ch E. unfold osettle, settle in E.
    apply (settle_loop_inv (fun a b => oequiv b a) (fun y => Ok (osimplify y))) in E; auto.
    - intros a b c H1 H2. eapply oequiv_trans; eassumption.
    - intros a a' c Ea. inversion Ea. pose proof (osimplify_sound a) as Hs. rewrite H1 in Hs. exact Hs.
  Qed.

  (* ---------------------------------------------------------------- *)
  (* DNFTransformer                                                    *)

  Lemma B_or_iterable : forall e b, B e b <-> exists c, In c (or_iterable e) /\ B c b.
  Proof.
    intros e b. destruct e as [x | l | l | l | e' q]; simpl or_iterable;
      try (split; [intro Hb; eexists; split; [left; reflexivity | exact Hb]
                  | intros [c [[<-|[]] Hb]]; exact Hb]).
    apply B_or.
  Qed.

  Lemma Forall2_choice : forall l bs,
      Forall2 B l bs <-> exists sel, Forall2 (fun c ops => In c ops) sel (map or_iterable l) /\ Forall2 B sel bs.
  Proof.
    induction l as [|e l IH]; intros bs.
    - split.
      + intro HB. inversion HB; subst. exists []. split; constructor.
      + intros [sel [Hs HB]]. inversion Hs; subst. inversion HB; subst. constructor.
    - split.
      + intro HB. inversion HB as [|e0 b0 l0 bs0 Hb HB']; subst.
        apply B_or_iterable in Hb. destruct Hb as [c [Hc Hb]].
        apply IH in HB'. destruct HB' as [sel [Hs HB'']].
        exists (c :: sel). split; constructor; assumption.
      + intros [sel [Hs HB]]. simpl in Hs. inversion Hs as [|c ops sel' r Hc Hs']; subst.
        inversion HB as [|c0 b0 l0 bs0 Hb HB']; subst.
        constructor; [apply B_or_iterable; exists c; auto | apply IH; exists sel'; auto].
  Qed.

  Lemma product_Forall2 : forall {A} (ls : list (list A)) sel,
      In sel (product ls) <-> Forall2 (fun a l => In a l) sel ls.
  Proof.
    induction ls as [|l r IH]; intros sel; simpl.
    - split; [intros [<-|[]]; constructor | intro HF; inversion HF; left; reflexivity].
    - rewrite in_flat_map. split.
      + intros [x [Hx Hs]]. apply in_map_iff in Hs. destruct Hs as [q [<- Hq]]. constructor; [exact Hx | apply IH; exact Hq].
      + intro HF. inversion HF as [|a l0 sel' r0 Ha HF']; subst. exists a. split; [exact Ha|].
        apply in_map_iff. exists sel'. split; [reflexivity | apply IH; exact HF'].
  Qed.

  Lemma distribute_and_Beq : forall l, Beq (OOr (map OAnd (product (map or_iterable l)))) (OAnd l).
  Proof.
    intros l bb. rewrite B_or, B_and. split.
    - intros [e [He Hb]]. apply in_map_iff in He. destruct He as [sel [<- Hs]].
      apply B_and in Hb. destruct Hb as [bs [HB Hr]]. exists bs. split; [|exact Hr].
      apply Forall2_choice. exists sel. split; [apply product_Forall2; exact Hs | exact HB].
    - intros [bs [HB Hr]]. apply Forall2_choice in HB. destruct HB as [sel [Hs HB]].
      exists (OAnd sel). split; [apply in_map_iff; exists sel; split; [reflexivity | apply product_Forall2; exact Hs]|].
      apply B_and. exists bs. auto.
  Qed.

  Lemma distribute_fby_Beq : forall l, Beq (OOr (map OFby (product (map or_iterable l)))) (OFby l).
  Proof.
    intros l bb. rewrite B_or, B_fby. split.
    - intros [e [He Hb]]. apply in_map_iff in He. destruct He as [sel [<- Hs]].
      apply B_fby in Hb. destruct Hb as [bs [HB Hr]]. exists bs. split; [|exact Hr].
      apply Forall2_choice. exists sel. split; [apply product_Forall2; exact Hs | exact HB].
    - intros [bs [HB Hr]]. apply Forall2_choice in HB. destruct HB as [sel [Hs HB]].
      exists (OFby sel). split; [apply in_map_iff; exists sel; split; [reflexivity | apply product_Forall2; exact Hs]|].
      apply B_fby. exists bs. auto.
  Qed.

  Lemma odnf_children : forall f l rs,
      (forall e e' ch, odnf f e = Ok (e', ch) -> Beq e' e) ->
      mapM (odnf f) l = Ok rs -> Forall2 Beq (map fst rs) l.
  Proof.
    intros f l rs IH Em. apply mapM_Forall2 in Em. induction Em as [|c [c' ch'] l rs Ec _ IHm]; simpl; constructor.
    - apply (IH c c' ch' Ec).
    - exact IHm.
  Qed.

  Lemma odnf_kids : forall f ks kids,
      (forall e e' ch, odnf f e = Ok (e', ch) -> Beq e' e) ->
      mapM (fun c => r <- odnf f c ;; Ok (fst r)) ks = Ok kids -> Forall2 Beq kids ks.
  Proof.
    intros f ks kids IH Em. apply mapM_Forall2 in Em. induction Em as [|k kid ks kids Ek _ IHm]; constructor.
    - apply bind_ok in Ek. destruct Ek as [[e' ch] [Ed Er]]. inversion Er as [Ekid]. simpl in Ekid. rewrite <- Ekid.
      apply (IH k e' ch Ed).
    - exact IHm.
  Qed.

  Lemma odnf_sound : forall f e e' ch, odnf f e = Ok (e', ch) -> Beq e' e.
  Proof.
    induction f as [|f IH]; intros e e' ch E; [discriminate|].
    destruct e as [x | l | l | l | e0 q]; cbn [odnf] in E.
    - inversion E. apply Beq_refl.
    - apply bind_ok in E. destruct E as [rs [Em E]].
      pose proof (odnf_children f l rs IH Em) as HC.
      destruct (existsb is_oor (map fst rs)).
      + apply bind_ok in E. destruct E as [kids [Ek E]]. inversion E; subst e'.
        pose proof (odnf_kids f _ kids IH Ek) as HK.
        eapply Beq_trans; [apply (Beq_mko OpOr _ _ HK)|]. simpl mko.
        eapply Beq_trans; [apply distribute_and_Beq|]. apply (Beq_mko OpAnd _ _ HC).
      + inversion E; subst e'. apply (Beq_mko OpAnd _ _ HC).
    - apply bind_ok in E. destruct E as [rs [Em E]]. inversion E; subst e'.
      apply (Beq_mko OpOr _ _ (odnf_children f l rs IH Em)).
    - apply bind_ok in E. destruct E as [rs [Em E]].
      pose proof (odnf_children f l rs IH Em) as HC.
      destruct (existsb is_oor (map fst rs)).
      + apply bind_ok in E. destruct E as [kids [Ek E]]. inversion E; subst e'.
        pose proof (odnf_kids f _ kids IH Ek) as HK.
        eapply Beq_trans; [apply (Beq_mko OpOr _ _ HK)|]. simpl mko.
        eapply Beq_trans; [apply distribute_fby_Beq|]. apply (Beq_mko OpFby _ _ HC).
      + inversion E; subst e'. apply (Beq_mko OpFby _ _ HC).
    - apply bind_ok in E. destruct E as [[r c] [Ee E]]. inversion E; subst e'. apply Beq_qual. apply (IH e0 r c Ee).
  Qed.

  (* ---------------------------------------------------------------- *)
  (* NormalizeComparisonExpressionsTransformer and the whole normaliser *)

  Lemma onormcmp_sound : forall v fuel p e ch,
      safe_o v p = true -> onormcmp v fuel p = Ok (e, ch) -> oequiv e (unparen_o p).
  Proof.
    intros v fuel. induction p using oexpr0_ind'; intros e ch Hs E; simpl in E, Hs.
    - apply bind_ok in E. destruct E as [[c' ch'] [Ec E]]. inversion E; subst e. simpl.
      apply oequiv_obs. intro x. apply (cnormalize_sound obj otype H Hden Hcidr v fuel c c' ch' Hs Ec x).
    - apply bind_ok in E. destruct E as [rs [Em E]]. injection E as Ee Ech. subst e. clear Ech. simpl. apply oequiv_and.
      apply mapM_Forall2 in Em. rewrite forallb_forall in Hs. rewrite Forall_forall in H0.
      revert Hs H0. induction Em as [|c [c' ch'] l rs Ec _ IHm]; intros Hs H0; simpl; constructor.
      + apply (H0 c (or_introl eq_refl) c' ch' (Hs c (or_introl eq_refl)) Ec).
      + apply IHm; [intros y Hy; apply Hs; right; exact Hy | intros y Hy; apply H0; right; exact Hy].
    - apply bind_ok in E. destruct E as [rs [Em E]]. injection E as Ee Ech. subst e. clear Ech. simpl. apply oequiv_or.
      apply mapM_Forall2 in Em. rewrite forallb_forall in Hs. rewrite Forall_forall in H0.
      revert Hs H0. induction Em as [|c [c' ch'] l rs Ec _ IHm]; intros Hs H0; simpl; constructor.
      + apply (H0 c (or_introl eq_refl) c' ch' (Hs c (or_introl eq_refl)) Ec).
      + apply IHm; [intros y Hy; apply Hs; right; exact Hy | intros y Hy; apply H0; right; exact Hy].
    - apply bind_ok in E. destruct E as [rs [Em E]]. injection E as Ee Ech. subst e. clear Ech. simpl. apply oequiv_fby.
      apply mapM_Forall2 in Em. rewrite forallb_forall in Hs. rewrite Forall_forall in H0.
      revert Hs H0. induction Em as [|c [c' ch'] l rs Ec _ IHm]; intros Hs H0; simpl; constructor.
      + apply (H0 c (or_introl eq_refl) c' ch' (Hs c (or_introl eq_refl)) Ec).
      + apply IHm; [intros y Hy; apply Hs; right; exact Hy | intros y Hy; apply H0; right; exact Hy].
    - apply bind_ok in E. destruct E as [[r c] [Ee E]]. inversion E; subst e. simpl. apply oequiv_qual.
      apply (IHp r c Hs Ee).
    - apply bind_ok in E. destruct E as [[r c] [Ee E]]. inversion E; subst e. simpl. apply (IHp r c Hs Ee).
  Qed.

  Lemma onormalize_sound : forall v fuel p n,
      safe_o v p = true -> onormalize v fuel p = Ok n -> oequiv n (unparen_o p).
  Proof.
    intros v fuel p n Hs E. unfold onormalize in E.
    apply bind_ok in E. destruct E as [[e0 c0] [E0 E]].
    apply bind_ok in E. destruct E as [[e1 c1] [E1 E]].
    apply bind_ok in E. destruct E as [[e2 c2] [E2 E]].
    apply bind_ok in E. destruct E as [[e3 c3] [E3 E]]. inversion E; subst n.
    eapply oequiv_trans; [apply (osettle_sound _ _ _ _ E3)|].
    eapply oequiv_trans; [apply Beq_oequiv; apply (odnf_sound _ _ _ _ E2)|].
    eapply oequiv_trans; [apply (osettle_sound _ _ _ _ E1)|].
    apply (onormcmp_sound v fuel p e0 c0 Hs E0).
  Qed.

  (* equiv_sound *)
  Lemma equiv_sound : forall v fuel p q,
      safe_o v p = true -> safe_o v q = true -> equiv v fuel p q = Ok true ->
      (matches0 obj otype H O p <-> matches0 obj otype H O q).
  Proof.
    intros v fuel p q Sp Sq E. unfold equiv in E.
    apply bind_ok in E. destruct E as [n1 [E1 E]]. apply bind_ok in E. destruct E as [n2 [E2 E]].
    inversion E as [Eb]. apply is_eq_true in Eb. unfold matches0.
    apply oequiv_matches.
    eapply oequiv_trans; [apply oequiv_sym; apply (onormalize_sound v fuel p n1 Sp E1)|].
    eapply oequiv_trans; [apply Beq_oequiv; apply (ocmp_Beq n1 n2 Eb)|].
    apply (onormalize_sound v fuel q n2 Sq E2).
  Qed.
End OSem.

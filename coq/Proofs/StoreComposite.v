(* Proofs/StoreComposite.v -- the composite source (property C18): lookup is the
   newest over the members' answers for every order of attachment, all_versions
   and query give each distinct (id, version) once, attached filters reach
   every member.                                                              *)
From Coq Require Import NArith ZArith List Bool Lia Permutation.
From V Require Import Base.UString Model.Store Model.StoreRun Spec.StoreSpec Spec.StoreNavSpec
  Proofs.StoreBase Proofs.StoreMem Proofs.StoreFs Proofs.StoreAgree.
Import ListNotations.
Open Scope list_scope.

(* ---------- de-duplication ---------- *)
Lemma dkey_eqb_eq : forall a b, dkey_eqb a b = true <-> a = b.
Proof.
  destruct a, b; simpl; split; intros H; try congruence.
  - apply s_eqb_eq in H. congruence.
  - inversion H. apply s_eqb_refl.
  - apply andb_true_iff in H. destruct H as [H1 H2]. apply s_eqb_eq in H1. apply vkey_eqb_eq in H2. congruence.
  - inversion H. rewrite s_eqb_refl, vkey_eqb_refl. reflexivity.
Qed.

Definition dstep (d : list (dkey * obj)) (o : obj) := dict_set dkey_eqb d (dkey_of o) o.

Definition keyed (d : list (dkey * obj)) : Prop := forall k o, In (k, o) d -> k = dkey_of o.

Lemma dfold_inv : forall l d,
  NoDup (map fst d) -> keyed d ->
  NoDup (map fst (fold_left dstep l d)) /\ keyed (fold_left dstep l d) /\
  (forall k o, In (k, o) (fold_left dstep l d) -> In (k, o) d \/ In o l) /\
  (forall o, In o l -> exists o', In (dkey_of o, o') (fold_left dstep l d)) /\
  (forall k o, In (k, o) d -> exists o', In (k, o') (fold_left dstep l d)).
Proof.
  induction l as [|x l IH]; intros d ND K; simpl.
  - split; auto. split; auto. split; auto. split.
    + intros o [].
    + intros k o H. eauto.
  - assert (NoDup (map fst (dstep d x))) as ND1 by (apply dict_set_NoDup; auto; apply dkey_eqb_eq).
    assert (keyed (dstep d x)) as K1.
    { intros k o H. apply (In_dict_set _ _ dkey_eqb dkey_eqb_eq) in H; auto.
      destruct H as [[H1 H2]|[H1 H2]]; [subst; auto | apply (K _ _ H2)]. }
    destruct (IH _ ND1 K1) as [A [B [C [D E]]]].
    split; auto. split; auto. split; [|split].
    + intros k o H. apply C in H. destruct H as [H|H]; auto.
      apply (In_dict_set _ _ dkey_eqb dkey_eqb_eq) in H; auto.
      destruct H as [[H1 H2]|[H1 H2]]; subst; auto.
    + intros o [H|H]; auto. subst o.
      apply (E (dkey_of x) x). apply In_dict_set_same. apply dkey_eqb_eq.
    + intros k o H. destruct (dkey_eqb (dkey_of x) k) eqn:Ek.
      * apply dkey_eqb_eq in Ek. subst k. apply (E (dkey_of x) x). apply In_dict_set_same. apply dkey_eqb_eq.
      * apply (E k o). apply In_dict_set_other; auto; try apply dkey_eqb_eq.
        intros X. subst k. rewrite (proj2 (dkey_eqb_eq _ _) eq_refl) in Ek. discriminate.
Qed.

(* what deduplicate() gives: only objects of the list, every (id, version) of the list, each once *)
Theorem dedupe_spec : forall l,
  (forall o, In o (dedupe l) -> In o l) /\
  (forall o, In o l -> exists o', In o' (dedupe l) /\ dkey_of o' = dkey_of o) /\
  NoDup (map dkey_of (dedupe l)).
Proof.
  intros l. unfold dedupe.
  destruct (dfold_inv l [] (NoDup_nil _)) as [A [B [C [D _]]]].
  { intros k o []. }
  fold dstep. set (D0 := fold_left dstep l []) in *.
  split; [|split].
  - intros o H. apply in_map_iff in H. destruct H as [[k o'] [E H]]. simpl in E. subst o'.
    destruct (C _ _ H) as [[]|H']; auto.
  - intros o H. destruct (D _ H) as [o' Ho']. exists o'. split.
    + apply in_map_iff. exists (dkey_of o, o'). auto.
    + symmetry. apply (B _ _ Ho').
  - assert (map dkey_of (map snd D0) = map fst D0) as E.
    { rewrite map_map. apply map_ext_in. intros [k o] H. simpl. symmetry. apply (B _ _ H). }
    rewrite E. exact A.
Qed.

(* when equal (id, version) means equal object (copies held by several members
   are the same object), de-duplication keeps exactly the objects of the list *)
Lemma dedupe_In_agree : forall l, (forall a b, In a l -> In b l -> dkey_of a = dkey_of b -> a = b) ->
  forall o, In o (dedupe l) <-> In o l.
Proof.
  intros l Hag o. destruct (dedupe_spec l) as [A [B C]]. split; auto.
  intros H. destruct (B _ H) as [o' [H1 H2]]. assert (o' = o); [|subst; auto]. apply Hag; auto.
Qed.

(* ---------- collect ---------- *)
Lemma collect_ok_iff : forall {A} (f : source -> res A) ms rs,
  collect f ms = Ok rs <-> map f ms = map Ok rs.
Proof.
  intros A f. induction ms as [|m ms IH]; intros rs; simpl.
  - split; intros H.
    + inversion H. reflexivity.
    + destruct rs; simpl in H; [reflexivity|discriminate].
  - destruct (f m) as [a|e] eqn:Ef; simpl.
    + destruct (collect f ms) as [l|e] eqn:Ec; simpl.
      * split; intros H.
        -- inversion H; subst. simpl. f_equal. apply IH. reflexivity.
        -- destruct rs as [|r rs]; simpl in H; [discriminate|]. inversion H; subst.
           apply IH in H2. inversion H2. reflexivity.
      * split; intros H; [discriminate|].
        destruct rs as [|r rs]; simpl in H; [discriminate|]. inversion H; subst.
        apply IH in H2. discriminate.
    + split; intros H; [discriminate|]. destruct rs; simpl in H; discriminate.
Qed.

Lemma collect_perm : forall {A} (f : source -> res A) ms ms' rs,
  Permutation ms ms' -> collect f ms = Ok rs ->
  exists rs', collect f ms' = Ok rs' /\ Permutation rs rs'.
Proof.
  intros A f ms ms' rs P H. apply collect_ok_iff in H.
  assert (Permutation (map Ok rs) (map f ms')) as P2.
  { rewrite <- H. apply Permutation_map. exact P. }
  apply Permutation_sym in P2.
  assert (forall (l1 : list (res A)) l2, Permutation l1 l2 -> forall rs2, l2 = map Ok rs2 ->
          exists rs1, l1 = map Ok rs1 /\ Permutation rs1 rs2) as G.
  { clear. intros l1 l2 P. induction P; intros rs2 E.
    - destruct rs2; [|discriminate]. exists []. auto.
    - destruct rs2 as [|r rs2]; [discriminate|]. simpl in E. inversion E; subst.
      destruct (IHP rs2 eq_refl) as [rs1 [E1 P1]]. exists (r :: rs1). subst. simpl. auto.
    - destruct rs2 as [|r1 [|r2 rs2]]; try discriminate. simpl in E. inversion E; subst.
      exists (r2 :: r1 :: rs2). split; auto. constructor.
    - destruct (IHP2 _ E) as [rsm [Em Pm]]. destruct (IHP1 _ Em) as [rs1 [E1 Q1]].
      exists rs1. split; auto. eapply Permutation_trans; eauto. }
  destruct (G _ _ P2 rs eq_refl) as [rs' [E' P']].
  exists rs'. split; [apply collect_ok_iff; auto | apply Permutation_sym; auto].
Qed.

Lemma somes_perm : forall {A} (l l' : list (option A)), Permutation l l' -> Permutation (somes l) (somes l').
Proof.
  intros A l l' P. unfold somes. induction P; simpl; auto.
  - apply Permutation_app_head. auto.
  - rewrite !app_assoc. apply Permutation_app_tail. apply Permutation_app_comm.
  - eapply Permutation_trans; eauto.
Qed.

Lemma In_somes : forall {A} (l : list (option A)) a, In a (somes l) <-> In (Some a) l.
Proof.
  intros A l a. unfold somes. rewrite in_flat_map. split.
  - intros [[x|] [H1 H2]]; simpl in H2; [|contradiction]. destruct H2 as [H2|[]]. subst. auto.
  - intros H. exists (Some a). simpl. auto.
Qed.

(* ---------- the latest-version loop of CompositeDataSource.get ---------- *)
Lemma cget_loop_spec : forall l c,
  versioned_all (c :: l) ->
  exists o, cget_loop (Some (c, ver_of c)) l = Ok (Some o) /\ In o (c :: l) /\
            forall o', In o' (c :: l) -> v_ge (ver_of o) (ver_of o').
Proof.
  induction l as [|a l IH]; intros c V.
  - exists c. simpl. split; auto. split; auto. intros o' [E|[]]. subst.
    destruct (V o' (or_introl eq_refl)) as [t Et]. rewrite Et. simpl. lia.
  - destruct (V c (or_introl eq_refl)) as [tc Ec]. destruct (V a (or_intror (or_introl eq_refl))) as [ta Ea].
    simpl. rewrite Ea, Ec. cbn [is_vnone vgt].
    destruct (Z.ltb tc ta) eqn:El.
    + rewrite <- Ea. destruct (IH a) as [o [O1 [O2 O3]]].
      { intros o Ho. apply V. simpl in *. tauto. }
      exists o. split; auto. split; [simpl in *; tauto|].
      intros o' [E|[E|Hi]].
      * subst o'. specialize (O3 a (or_introl eq_refl)). rewrite Ea in O3. rewrite Ec.
        destruct (ver_of o); simpl in *; try contradiction. apply Z.ltb_lt in El. lia.
      * apply O3. simpl. auto.
      * apply O3. simpl. auto.
    + rewrite <- Ec. destruct (IH c) as [o [O1 [O2 O3]]].
      { intros o Ho. apply V. simpl in *. tauto. }
      exists o. split; auto. split; [simpl in *; tauto|].
      intros o' [E|[E|Hi]].
      * apply O3. simpl. auto.
      * subst o'. specialize (O3 c (or_introl eq_refl)). rewrite Ec in O3. rewrite Ea.
        destruct (ver_of o); simpl in *; try contradiction. apply Z.ltb_ge in El. lia.
      * apply O3. simpl. auto.
Qed.

Lemma cget_loop_newest : forall l, versioned_all l -> exists r, cget_loop None l = Ok r /\ newest_of l r.
Proof.
  intros [|c l] V.
  - exists None. simpl. auto.
  - simpl. destruct (cget_loop_spec l c V) as [o [O1 [O2 O3]]]. exists (Some o). simpl. auto.
Qed.

Lemma newest_of_perm : forall l l' r r', Permutation l l' -> newest_of l r -> newest_of l' r' ->
  option_map ver_of r = option_map ver_of r'.
Proof.
  intros l l' [o|] [o'|] P H H'; simpl in *; auto.
  - destruct H as [H1 H2]. destruct H' as [H1' H2']. f_equal. apply v_ge_antisym.
    + apply H2. eapply Permutation_in; [apply Permutation_sym; eauto|]. auto.
    + apply H2'. eapply Permutation_in; eauto.
  - subst l'. apply Permutation_sym in P. apply Permutation_nil in P. subst l. destruct H as [[] _].
  - subst l. apply Permutation_nil in P. subst l'. destruct H' as [[] _].
Qed.

(* unversioned objects (no modified, no created): the last member's copy *)
Lemma cget_loop_unversioned : forall l cur, (forall o, In o l -> ver_of o = VNone) ->
  cget_loop cur l = Ok (match rev l with o :: _ => Some o | [] => match cur with Some (o, _) => Some o | None => None end end).
Proof.
  induction l as [|a l IH]; intros cur H; simpl; auto.
  assert (ver_of a = VNone) as Ea by (apply H; simpl; auto).
  assert (forall o, In o l -> ver_of o = VNone) as Hl by (intros; apply H; simpl; auto).
  assert (cget_loop cur (a :: l) = cget_loop (Some (a, VNone)) l) as E.
  { simpl. rewrite Ea. destruct cur as [[c vc]|]; reflexivity. }
  simpl in E. rewrite E. rewrite IH; auto.
  destruct (rev l) eqn:Er; simpl; auto.
Qed.

Section Composite.
  Variable mode : text_mode.
  Variable iot : ustring -> option Z.

  (* lookup through a composite: for EVERY order of attachment the newest version over the members' answers *)
  Theorem cget_any_order : forall af ms ms' cf id rs,
    ms <> [] -> Permutation ms ms' ->
    collect (fun m => s_get m (af ++ cf) id) ms = Ok rs ->
    versioned_all (somes rs) ->
    exists r r', cget af ms cf id = Ok r /\ cget af ms' cf id = Ok r' /\
      newest_of (somes rs) r /\ option_map ver_of r = option_map ver_of r'.
  Proof.
    intros af ms ms' cf id rs Hne P Hc V.
    destruct (collect_perm _ _ _ _ P Hc) as [rs' [Hc' P']].
    pose proof (somes_perm _ _ P') as Ps.
    assert (versioned_all (somes rs')) as V'.
    { intros o Ho. apply V. eapply Permutation_in; [apply Permutation_sym; eauto|]. auto. }
    destruct (cget_loop_newest _ V) as [r [R1 R2]]. destruct (cget_loop_newest _ V') as [r' [R1' R2']].
    exists r, r'. unfold cget.
    assert (ms' <> []) as Hne'.
    { intros X. subst ms'. apply Permutation_sym in P. apply Permutation_nil in P. contradiction. }
    destruct ms as [|m0 ms0]; [contradiction|]. destruct ms' as [|m0' ms0']; [contradiction|].
    rewrite Hc, Hc'. simpl. repeat split; auto.
    eapply newest_of_perm; eauto.
  Qed.

  (* all_versions / query through a composite: the de-duplicated union of the members' answers *)
  Theorem call_union : forall af ms cf id rs,
    ms <> [] -> collect (fun m => s_all m (af ++ cf) id) ms = Ok rs ->
    call af ms cf id = Ok (dedupe (concat rs)).
  Proof. intros af [|m ms] cf id rs Hne H; [contradiction|]. unfold call. rewrite H. reflexivity. Qed.

  Theorem cquery_union : forall af ms cf q rs,
    ms <> [] -> collect (fun m => s_query m (af ++ cf) q) ms = Ok rs ->
    cquery af ms cf q = Ok (dedupe (concat rs)).
  Proof. intros af [|m ms] cf q rs Hne H; [contradiction|]. unfold cquery. rewrite H. reflexivity. Qed.

  (* each distinct (id, version) of the members' answers once, nothing else *)
  Lemma union_once : forall (rs : list (list obj)),
    (forall o, In o (dedupe (concat rs)) -> exists r, In r rs /\ In o r) /\
    (forall r o, In r rs -> In o r -> exists o', In o' (dedupe (concat rs)) /\ dkey_of o' = dkey_of o) /\
    NoDup (map dkey_of (dedupe (concat rs))).
  Proof.
    intros rs. destruct (dedupe_spec (concat rs)) as [A [B C]]. split; [|split]; auto.
    - intros o H. apply A in H. apply in_concat in H. destruct H as [r [R1 R2]]. eauto.
    - intros r o R1 R2. apply B. apply in_concat. eauto.
  Qed.

  Theorem call_distinct_once_l : forall af ms cf id rs,
    ms <> [] -> collect (fun m => s_all m (af ++ cf) id) ms = Ok rs ->
    exists res, call af ms cf id = Ok res /\
      (forall o, In o res -> exists r, In r rs /\ In o r) /\
      (forall r o, In r rs -> In o r -> exists o', In o' res /\ dkey_of o' = dkey_of o) /\
      NoDup (map dkey_of res).
  Proof.
    intros af ms cf id rs Hne H. rewrite (call_union _ _ _ _ _ Hne H). eexists. split; [reflexivity|]. apply union_once.
  Qed.

  Theorem cquery_distinct_once_l : forall af ms cf q rs,
    ms <> [] -> collect (fun m => s_query m (af ++ cf) q) ms = Ok rs ->
    exists res, cquery af ms cf q = Ok res /\
      (forall o, In o res -> exists r, In r rs /\ In o r) /\
      (forall r o, In r rs -> In o r -> exists o', In o' res /\ dkey_of o' = dkey_of o) /\
      NoDup (map dkey_of res).
  Proof.
    intros af ms cf q rs Hne H. rewrite (cquery_union _ _ _ _ _ Hne H). eexists. split; [reflexivity|]. apply union_once.
  Qed.

  (* ---------- attached filters reach every member ---------- *)
  Lemma all_hold_app : forall a b o, all_hold (a ++ b) o = all_hold a o && all_hold b o.
  Proof. intros. unfold all_hold. apply forallb_app. Qed.

  Lemma mem_source_sound : forall af m, sound_src af (mem_source af m).
  Proof.
    intros af m. split; [|split]; simpl.
    - intros cf id o H. inversion H as [H1]. unfold mem_get in H1.
      destruct (dict_get ustr_eqb m id) as [[vs [l|]|x]|]; try discriminate;
        match type of H1 with (if ?c then _ else _) = _ => destruct c eqn:Ec; [|discriminate] end;
        inversion H1; subst; rewrite all_hold_app in Ec; apply andb_true_iff in Ec; tauto.
    - intros cf id rs o H Hi. inversion H; subst. unfold mem_all in Hi.
      destruct (dict_get ustr_eqb m id); [|contradiction]. apply filter_In in Hi. destruct Hi as [_ Hi].
      rewrite all_hold_app in Hi. apply andb_true_iff in Hi. tauto.
    - intros cf q rs o H Hi. inversion H; subst. unfold mem_query in Hi. apply filter_In in Hi. destruct Hi as [_ Hi].
      rewrite !all_hold_app in Hi. apply andb_true_iff in Hi. destruct Hi as [H1 H2]. apply andb_true_iff in H2. tauto.
  Qed.

  Lemma fs_query_holds : forall fl s o, In o (fs_query fl s) -> all_hold fl o = true.
  Proof.
    intros fl s o H. unfold fs_query in H. destruct (find_opts fl) as [ats ais].
    apply in_map_iff in H. destruct H as [f [E H]]. subst o.
    apply in_app_or in H. destruct H as [H|H]; apply filter_In in H; destruct H as [H _];
      apply filter_In in H; destruct H as [_ H]; apply andb_true_iff in H; tauto.
  Qed.

  Lemma last_max_In : forall l best o, last_max best l = Ok o -> In o (best :: l).
  Proof.
    induction l as [|a l IH]; intros best o H; simpl in *.
    - inversion H. auto.
    - destruct (vgt (omod best) (omod a)) as [[|]|]; try discriminate; apply IH in H; simpl in *; tauto.
  Qed.

  Lemma fs_source_sound : forall af s, sound_src af (fs_source af s).
  Proof.
    intros af s.
    assert (forall cf id o, In o (fs_all (af ++ cf) id s) -> all_hold cf o = true /\ all_hold af o = true) as Ha.
    { intros cf id o H. unfold fs_all in H. apply fs_query_holds in H.
      unfold all_hold in H. simpl in H. apply andb_true_iff in H. destruct H as [_ H].
      fold (all_hold (af ++ cf) o) in H. rewrite all_hold_app in H. apply andb_true_iff in H. tauto. }
    split; [|split]; simpl.
    - intros cf id o H. unfold fs_get in H.
      destruct (fs_all (af ++ cf) id s) as [|o0 r] eqn:E; [discriminate|].
      assert (In o (o0 :: r)) as Hi.
      { destruct (is_vnone (omod o0)).
        - inversion H. simpl. auto.
        - destruct (existsb (fun o1 => is_vnone (omod o1)) r); [discriminate|].
          destruct (last_max o0 r) eqn:El; [|discriminate]. inversion H; subst. eapply last_max_In; eauto. }
      apply (Ha cf id). rewrite E. exact Hi.
    - intros cf id rs o H Hi. inversion H; subst. eapply Ha; eauto.
    - intros cf q rs o H Hi. inversion H; subst. apply fs_query_holds in Hi.
      rewrite !all_hold_app in Hi. apply andb_true_iff in Hi. destruct Hi as [H1 H2]. apply andb_true_iff in H2. tauto.
  Qed.

  Lemma collect_In : forall {A} (f : source -> res A) ms rs r,
    collect f ms = Ok rs -> In r rs -> exists m, In m ms /\ f m = Ok r.
  Proof.
    intros A f. induction ms as [|m ms IH]; intros rs r H Hi; simpl in H.
    - inversion H; subst. contradiction.
    - destruct (f m) as [a|e] eqn:Ef; simpl in H; [|discriminate].
      destruct (collect f ms) as [l|e] eqn:Ec; simpl in H; [|discriminate].
      inversion H; subst. destruct Hi as [Hi|Hi].
      + subst. exists m. simpl. auto.
      + destruct (IH _ _ eq_refl Hi) as [m' [M1 M2]]. exists m'. simpl. auto.
  Qed.

  Lemma cget_loop_In : forall l cur o, cget_loop cur l = Ok (Some o) ->
    In o l \/ (exists v, cur = Some (o, v)).
  Proof.
    induction l as [|a l IH]; intros cur o H; simpl in H.
    - destruct cur as [[c v]|]; inversion H; subst. right. eauto.
    - destruct cur as [[c v]|].
      + destruct (is_vnone (ver_of a)).
        * apply IH in H. destruct H as [H|[v' H]]; [left; simpl; auto|]. inversion H; subst. left. simpl. auto.
        * destruct (vgt (ver_of a) v) as [[|]|]; try discriminate.
          -- apply IH in H. destruct H as [H|[v' H]]; [left; simpl; auto|]. inversion H; subst. left. simpl. auto.
          -- apply IH in H. destruct H as [H|[v' H]]; [left; simpl; auto|]. right. eauto.
      + apply IH in H. destruct H as [H|[v' H]]; [left; simpl; auto|]. inversion H; subst. left. simpl. auto.
  Qed.

  (* a composite hands its attached filters (and those handed to it) to every member: whatever it returns
     satisfies them -- whatever its members are (stores, other composites) and however deeply nested *)
  Theorem composite_filters_reach_members : forall rm af ms (owns : source -> list sfilter),
    (forall m, In m ms -> sound_src (owns m) m) -> sound_src af (composite_source rm af ms).
  Proof.
    intros rm af ms owns Hm. split; [|split]; simpl.
    - intros cf id o H. unfold cget in H. destruct ms as [|m0 ms0]; [discriminate|].
      destruct (collect (fun m => s_get m (af ++ cf) id) (m0 :: ms0)) as [rs|e] eqn:Ec; [|discriminate].
      simpl in H. apply cget_loop_In in H. destruct H as [H|[v H]]; [|discriminate].
      apply In_somes in H. destruct (collect_In _ _ _ _ Ec H) as [m [M1 M2]].
      destruct (Hm _ M1) as [S1 _]. destruct (S1 _ _ _ M2) as [S2 _].
      rewrite all_hold_app in S2. apply andb_true_iff in S2. tauto.
    - intros cf id rs o H Hi. unfold call in H. destruct ms as [|m0 ms0]; [discriminate|].
      destruct (collect (fun m => s_all m (af ++ cf) id) (m0 :: ms0)) as [rss|e] eqn:Ec; [|discriminate].
      simpl in H. inversion H; subst. destruct (dedupe_spec (concat rss)) as [D1 _]. apply D1 in Hi.
      apply in_concat in Hi. destruct Hi as [l [L1 L2]].
      destruct (collect_In _ _ _ _ Ec L1) as [m [M1 M2]].
      destruct (Hm _ M1) as [_ [S1 _]]. destruct (S1 _ _ _ _ M2 L2) as [S2 _].
      rewrite all_hold_app in S2. apply andb_true_iff in S2. tauto.
    - intros cf q rs o H Hi. unfold cquery in H. destruct ms as [|m0 ms0]; [discriminate|].
      destruct (collect (fun m => s_query m (af ++ cf) q) (m0 :: ms0)) as [rss|e] eqn:Ec; [|discriminate].
      simpl in H. inversion H; subst. destruct (dedupe_spec (concat rss)) as [D1 _]. apply D1 in Hi.
      apply in_concat in Hi. destruct Hi as [l [L1 L2]].
      destruct (collect_In _ _ _ _ Ec L1) as [m [M1 M2]].
      destruct (Hm _ M1) as [_ [_ S1]]. destruct (S1 _ _ _ _ M2 L2) as [S2 [_ S3]].
      rewrite all_hold_app in S2. apply andb_true_iff in S2. tauto.
  Qed.

  (* ---------- members that are memory stores: the composite over the union of the histories ---------- *)
  Notation nrm := (norm_obj mode iot).
  Notation run := (mem_run mode iot).

  Definition mem_members (Ls : list (list obj)) : list source := map (fun L => mem_source [] (run L)) Ls.
  Definition union_of (Ls : list (list obj)) : list obj := concat (map (map nrm) Ls).

  Lemma collect_mem_get : forall Ls id,
    collect (fun m => s_get m ([] ++ []) id) (mem_members Ls) = Ok (map (fun L => mem_get [] id (run L)) Ls).
  Proof.
    induction Ls as [|L Ls IH]; intros id; simpl; auto.
    unfold mem_members in IH. rewrite IH. reflexivity.
  Qed.

  Theorem composite_get_newest : forall Ls id,
    Ls <> [] ->
    Forall (fun L => Forall clean (map nrm L) /\ uniform (map nrm L)) Ls ->
    (forall o, In o (union_of Ls) -> exists t, omod o = VInst t) ->
    exists r, cget [] (mem_members Ls) [] id = Ok r /\
      match r with
      | None => versions id (union_of Ls) = []
      | Some o => In o (union_of Ls) /\ oid o = id /\
                  forall o', In o' (union_of Ls) -> oid o' = id -> v_ge (omod o) (omod o')
      end.
  Proof.
    intros Ls id Hne F V.
    set (rs := map (fun L => mem_get [] id (run L)) Ls).
    assert (forall L, In L Ls -> refines (map nrm L) (fun i => mem_get [] i (run L)) (fun i => mem_all [] i (run L)) (mem_objs (run L))) as HR.
    { intros L HL. rewrite Forall_forall in F. destruct (F _ HL) as [F1 F2].
      destruct (mem_refines_thm mode iot L F1 F2) as [_ [R _]]. exact R. }
    assert (forall o, In o (somes rs) -> In o (union_of Ls) /\ oid o = id /\ ver_of o = omod o /\
             exists L, In L Ls /\ mem_get [] id (run L) = Some o) as Hs.
    { intros o Ho. apply In_somes in Ho. unfold rs in Ho. apply in_map_iff in Ho. destruct Ho as [L [E HL]].
      destruct (r_get_some _ _ _ _ (HR _ HL) _ _ E) as [A [B _]].
      assert (In o (union_of Ls)) as Hu.
      { unfold union_of. apply in_concat. exists (map nrm L). split; auto. apply in_map. auto. }
      split; auto. split; auto. split; [|eauto].
      destruct (V _ Hu) as [t Et]. unfold ver_of. rewrite Et. reflexivity. }
    assert (versioned_all (somes rs)) as Vs.
    { intros o Ho. destruct (Hs _ Ho) as [A [_ [C _]]]. destruct (V _ A) as [t Et]. exists t. congruence. }
    assert (mem_members Ls <> []) as Hne'.
    { destruct Ls; [contradiction|]. discriminate. }
    destruct (cget_any_order [] (mem_members Ls) (mem_members Ls) [] id rs Hne' (Permutation_refl _)
                (collect_mem_get Ls id) Vs) as [r [_ [R1 [_ [R2 _]]]]].
    exists r. split; auto.
    destruct r as [o|]; simpl in R2.
    - destruct R2 as [Ho Hmax]. destruct (Hs _ Ho) as [A [B [C _]]]. repeat split; auto.
      intros o' Ho' Hid'. unfold union_of in Ho'. apply in_concat in Ho'. destruct Ho' as [NL [N1 N2]].
      apply in_map_iff in N1. destruct N1 as [L [EL HL]]. subst NL.
      (* the member holding o' answers with something at least as new *)
      destruct (mem_get [] id (run L)) as [g|] eqn:Eg.
      + destruct (r_get_some _ _ _ _ (HR _ HL) _ _ Eg) as [G1 [G2 G3]].
        assert (In g (somes rs)) as Hg. { apply In_somes. unfold rs. apply in_map_iff. exists L. auto. }
        specialize (Hmax _ Hg). specialize (G3 _ N2 Hid').
        destruct (Hs _ Hg) as [_ [_ [Cg _]]]. rewrite C, Cg in Hmax.
        destruct (omod o), (omod g), (omod o'); simpl in *; try contradiction; try lia; auto.
      + pose proof (r_get_none _ _ _ _ (HR _ HL) _ Eg) as X.
        assert (In o' (versions id (map nrm L))) as Y by (apply versions_In; auto). rewrite X in Y. contradiction.
    - destruct (versions id (union_of Ls)) as [|o' l'] eqn:Ev; auto.
      assert (In o' (versions id (union_of Ls))) as Y by (rewrite Ev; simpl; auto).
      apply versions_In in Y. destruct Y as [Y1 Y2].
      unfold union_of in Y1. apply in_concat in Y1. destruct Y1 as [NL [N1 N2]].
      apply in_map_iff in N1. destruct N1 as [L [EL HL]]. subst NL.
      destruct (mem_get [] id (run L)) as [g|] eqn:Eg.
      + assert (In g (somes rs)) as Hg. { apply In_somes. unfold rs. apply in_map_iff. exists L. auto. }
        rewrite R2 in Hg. contradiction.
      + pose proof (r_get_none _ _ _ _ (HR _ HL) _ Eg) as X.
        assert (In o' (versions id (map nrm L))) as Z by (apply versions_In; auto). rewrite X in Z. contradiction.
  Qed.

  (* ... and for every order of attachment the same version *)
  Theorem composite_get_any_order : forall Ls Ls' id,
    Permutation Ls Ls' -> Ls <> [] ->
    Forall (fun L => Forall clean (map nrm L) /\ uniform (map nrm L)) Ls ->
    (forall o, In o (union_of Ls) -> exists t, omod o = VInst t) ->
    exists r r', cget [] (mem_members Ls) [] id = Ok r /\ cget [] (mem_members Ls') [] id = Ok r' /\
                 option_map omod r = option_map omod r'.
  Proof.
    intros Ls Ls' id P Hne F V.
    assert (Ls' <> []) as Hne'.
    { intros X. subst. apply Permutation_sym in P. apply Permutation_nil in P. contradiction. }
    assert (Forall (fun L => Forall clean (map nrm L) /\ uniform (map nrm L)) Ls') as F'.
    { apply Forall_forall. intros L HL. rewrite Forall_forall in F. apply F. eapply Permutation_in; [apply Permutation_sym; eauto|]. auto. }
    assert (forall o, In o (union_of Ls') <-> In o (union_of Ls)) as Hu.
    { intros o. unfold union_of. rewrite !in_concat. split; intros [l [A B]]; exists l; split; auto;
        apply in_map_iff in A; destruct A as [L [E HL]]; apply in_map_iff; exists L; split; auto.
      - eapply Permutation_in; [apply Permutation_sym; eauto|]. auto.
      - eapply Permutation_in; eauto. }
    assert (forall o, In o (union_of Ls') -> exists t, omod o = VInst t) as V' by (intros o Ho; apply V; apply Hu; auto).
    destruct (composite_get_newest Ls id Hne F V) as [r [R1 R2]].
    destruct (composite_get_newest Ls' id Hne' F' V') as [r' [R1' R2']].
    exists r, r'. split; auto. split; auto.
    destruct r as [o|]; destruct r' as [o'|]; simpl; auto.
    - destruct R2 as [A [B C]]. destruct R2' as [A' [B' C']]. f_equal. apply v_ge_antisym.
      + apply C; auto. apply Hu. auto.
      + apply C'; auto. apply Hu. auto.
    - destruct R2 as [A [B C]]. assert (In o (versions id (union_of Ls'))) as X by (apply versions_In; split; auto; apply Hu; auto).
      rewrite R2' in X. contradiction.
    - destruct R2' as [A [B C]]. assert (In o' (versions id (union_of Ls))) as X by (apply versions_In; split; auto; apply Hu; auto).
      rewrite R2 in X. contradiction.
  Qed.

  (* query through a composite of memory stores with attached filters everywhere: exactly the members' stored
     objects that pass the query, the member's filters and the composite's, each (id, version) once *)
  Lemma collect_mem_query : forall (afs : list (list sfilter * list obj)) af cf q,
    collect (fun m => s_query m (af ++ cf) q) (map (fun p => mem_source (fst p) (run (snd p))) afs) =
    Ok (map (fun p => mem_query (q ++ fst p ++ af ++ cf) (run (snd p))) afs).
  Proof.
    induction afs as [|p afs IH]; intros af cf q; simpl; auto.
    rewrite IH. reflexivity.
  Qed.

  Theorem cquery_distinct_once_mem : forall (afs : list (list sfilter * list obj)) af q,
    afs <> [] ->
    exists res, cquery af (map (fun p => mem_source (fst p) (run (snd p))) afs) [] q = Ok res /\
      NoDup (map dkey_of res) /\
      (forall o, In o res -> exists p, In p afs /\ In o (mem_objs (run (snd p))) /\
                                    all_hold q o = true /\ all_hold (fst p) o = true /\ all_hold af o = true) /\
      (forall p o, In p afs -> In o (mem_objs (run (snd p))) ->
                   all_hold q o = true -> all_hold (fst p) o = true -> all_hold af o = true ->
                   exists o', In o' res /\ dkey_of o' = dkey_of o).
  Proof.
    intros afs af q Hne.
    set (ms := map (fun p => mem_source (fst p) (run (snd p))) afs).
    assert (ms <> []) as Hne' by (destruct afs; [contradiction|discriminate]).
    pose proof (collect_mem_query afs af [] q) as Hc. fold ms in Hc.
    rewrite (cquery_union af ms [] q _ Hne' Hc).
    set (rss := map (fun p => mem_query (q ++ fst p ++ af ++ []) (run (snd p))) afs).
    destruct (dedupe_spec (concat rss)) as [D1 [D2 D3]].
    exists (dedupe (concat rss)). split; auto. split; auto. split.
    - intros o Ho. apply D1 in Ho. apply in_concat in Ho. destruct Ho as [l [L1 L2]].
      unfold rss in L1. apply in_map_iff in L1. destruct L1 as [p [E Hp]]. subst l.
      unfold mem_query in L2. apply filter_In in L2. destruct L2 as [L2 L3].
      rewrite !all_hold_app in L3. apply andb_true_iff in L3. destruct L3 as [X1 X2].
      apply andb_true_iff in X2. destruct X2 as [X2 X3]. apply andb_true_iff in X3. destruct X3 as [X3 _].
      exists p. auto.
    - intros p o Hp Ho Q1 Q2 Q3. apply D2. apply in_concat.
      exists (mem_query (q ++ fst p ++ af ++ []) (run (snd p))). split.
      + unfold rss. apply in_map_iff. exists p. auto.
      + unfold mem_query. apply filter_In. split; auto. rewrite !all_hold_app, Q1, Q2, Q3. reflexivity.
  Qed.
End Composite.

(* Proofs/VersioningAudit.v -- additions asked for by the review of Props/C05.v: WHICH exception a
   refusal is (the refusal theorems of VersioningProofs.v only say "not Ok").                *)
From Coq Require Import String ZArith NArith List Bool Lia.
From V Require Import Base.UString Base.Json Model.Timestamp Model.Versioning Proofs.VersioningFacts Proofs.VersioningProofs.
Import ListNotations.
Open Scope list_scope. Open Scope Z_scope.

Section Audit.
  Variable T : vtables.
  Variable nm : naive_mode.
  Variable cp : sver -> ustring -> pval -> pval.
  Variable ck : sver -> pdict -> option string.

  (* a versionable but revoked object: RevokeError, from new_version and from revoke *)
  Lemma revoked_raises_lemma : forall c d ch now v, check_versionable T c d = Ok v -> revoked_flag d = true ->
    new_version T nm cp ck c d ch now = Raise "RevokeError"%string.
  Proof. intros c d ch now v CV R. unfold new_version. rewrite CV. fold (revoked_flag d). now rewrite R. Qed.

  Lemma revoke_revoked_raises_lemma : forall c d now, c <> CNonMapping -> revoked_flag d = true ->
    revoke T nm cp ck c d now = Raise "RevokeError"%string.
  Proof. intros c d now NM R. unfold revoke. fold (revoked_flag d). rewrite R. destruct c; [reflexivity|reflexivity|congruence]. Qed.

  (* a change to an unmodifiable or locked property of a versionable, unrevoked object: UnmodifiablePropertyError *)
  Lemma unmodifiable_raises_lemma : forall c d ch now v locked k, check_versionable T c d = Ok v -> revoked_flag d = false ->
    sco_locked T d = Ok locked -> In k (t_unmod T ++ locked) -> has_key k ch = true ->
    new_version T nm cp ck c d ch now = Raise "UnmodifiablePropertyError"%string.
  Proof.
    intros c d ch now v locked k CV R SL I HK. unfold new_version. rewrite CV. fold (revoked_flag d). rewrite R, SL.
    assert (E : existsb (fun k => has_key k ch) (t_unmod T ++ locked) = true) by (apply existsb_exists; eauto).
    now rewrite E.
  Qed.

  (* a caller-supplied modified time that is not strictly later (after truncation to the version's
     precision): InvalidValueError *)
  Lemma supplied_not_later_raises_lemma : forall c d ch now v locked old s nmv dlt, check_versionable T c d = Ok v ->
    revoked_flag d = false -> sco_locked T d = Ok locked ->
    existsb (fun k => has_key k ch) (t_unmod T ++ locked) = false ->
    parse_ts nm v (version_time d) = Ok old -> plookup kmod ch = Some s -> parse_ts nm v (Some s) = Ok nmv ->
    ts_diff nmv old = Some dlt -> dlt <= 0 ->
    new_version T nm cp ck c d ch now = Raise "InvalidValueError"%string.
  Proof.
    intros c d ch now v locked old s nmv dlt CV R SL EX PO PM PS TD LE. unfold new_version. rewrite CV.
    fold (revoked_flag d). rewrite R, SL, EX. fold (version_time d). rewrite PO. fold kmod. rewrite PM, PS, TD.
    replace (dlt <=? 0) with true by (symmetry; now apply Z.leb_le). reflexivity.
  Qed.
End Audit.

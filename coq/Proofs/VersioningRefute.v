(* Proofs/VersioningRefute.v -- the one hypothesis chain_increasing keeps for dicts is needed: a
   change set that rewrites spec_version turns a 2.0 dict into a 2.1 dict, whose next version is
   only one microsecond later -- not later at the 2.0 (millisecond) precision the chain started with. *)
From Coq Require Import String ZArith List Bool Lia Sorting.Sorted.
From V Require Import Base.UString Base.Json Model.Timestamp Model.Versioning Spec.VersioningSpec
  Gen.VersioningTables Proofs.VersioningFacts Proofs.VersioningProofs Proofs.VersioningChain.
Import ListNotations.
Open Scope list_scope. Open Scope Z_scope.

Definition cx_dict : pdict :=
  [(u "type", PJ (JStr (u "identity"))); (u "id", PJ (JStr (u "identity--311b2d2d-f010-4473-83ec-1edf84858f4c")));
   (u "created", PJ (JStr (u "2020-01-01T00:00:00.000Z"))); (u "modified", PJ (JStr (u "2020-01-01T00:00:00.001Z")));
   (u "name", PJ (JStr (u "x")))].
Definition cx_t : Z := 63713433600000000.
Definition cx_ops : list op := [OpNew [(u "spec_version", PJ (JStr (u "2.1")))] cx_t; OpNew [] cx_t].

Definition later_b (nm : naive_mode) (v : sver) (d d' : pdict) : bool :=
  match ser_value nm v (version_time d), ser_value nm v (version_time d') with
  | Some a, Some b => a <? b
  | _, _ => false
  end.

Lemma later_b_of : forall nm v d d', later nm v d d' -> later_b nm v d d' = true.
Proof. intros nm v d d' (a & b & A & B & L). unfold later_b. rewrite A, B. now apply Z.ltb_lt. Qed.

Definition cx_versions : list pdict :=
  Eval vm_compute in new_versions live_tables NaiveUtc clean_id accept_all CDict cx_dict cx_ops.
Definition cx_d1 : pdict := Eval vm_compute in nth 0 cx_versions [].
Definition cx_d2 : pdict := Eval vm_compute in nth 1 cx_versions [].

Lemma cx_versions_eq : new_versions live_tables NaiveUtc clean_id accept_all CDict cx_dict cx_ops = [cx_d1; cx_d2].
Proof. vm_compute. reflexivity. Qed.

Lemma spec_version_rewrite_counterexample :
  get_stix_version live_tables CDict cx_dict = Ok V20 /\
  ~ StronglySorted (later NaiveUtc V20) (cx_dict :: new_versions live_tables NaiveUtc clean_id accept_all CDict cx_dict cx_ops).
Proof.
  split; [vm_compute; reflexivity|]. rewrite cx_versions_eq. intros S.
  apply StronglySorted_inv in S as [S _]. apply StronglySorted_inv in S as [_ F].
  inversion F as [|x l L _]; subst. apply later_b_of in L.
  assert (N : later_b NaiveUtc V20 cx_d1 cx_d2 = false) by (vm_compute; reflexivity). congruence.
Qed.

(* Proofs/SchemaCompC03.v -- C03 assembled on the generated tables: the classes for which the table-level
   side conditions of spec_complete_partial_gen hold (kernel-computed on every build), and its instance
   on them, against the frozen specification narrowed where Props/C03.v:spec_refines_lib_modulo_failures
   says (spec_restricted = spec when accept_failures spec lib = []).                                 *)
From Coq Require Import NArith ZArith List String Bool.
From V Require Import Base.UString Base.Json Model.SchemaTypes Model.PyBase Model.Schema
     Spec.StixValid Spec.SchemaRefine Proofs.SchemaBasics Proofs.SchemaScope Proofs.SchemaTables
     Proofs.SchemaComplete Proofs.SchemaCompKinds Proofs.SchemaCompRun Gen.Tables Gen.SpecTables.
Import ListNotations.

Definition lib_complete : list ustring :=
  Eval vm_compute in map cid (filter (fun c => class_complete lib spec_restricted (cid c)) (wclasses lib)).
Definition lib_incomplete : list ustring :=
  Eval vm_compute in map cid (filter (fun c => negb (class_complete lib spec_restricted (cid c))) (wclasses lib)).
Definition complete_counts : nat * nat :=
  Eval vm_compute in (List.length lib_complete, List.length (wclasses lib)).

Lemma lib_complete_spec : forall c, In c lib_complete -> class_complete lib spec_restricted c = true.
Proof.
  assert (H : forallb (fun c => class_complete lib spec_restricted c) lib_complete = true) by (vm_compute; reflexivity).
  intros c Hc. rewrite forallb_forall in H. auto.
Qed.

Lemma spec_complete_partial_lib :
  forall (vr : variant) (ev : env) pok sok cid mem m,
    variant_complete vr = true -> env_complete ev = true ->
    valid_obj spec_restricted pok (S m) cid (JObj mem) = true -> NoDup (map fst mem) ->
    In cid lib_complete ->
    (forall c sc, find_class (wclasses lib) cid = Some c -> find_class (wclasses spec_restricted) cid = Some sc ->
                  input_complete c sc mem = true) ->
    exists c sc inner dfl,
      find_class (wclasses lib) cid = Some c /\ find_class (wclasses spec_restricted) cid = Some sc /\
      run vr ev lib pok sok (S m) (RConstruct cid false false mem None) = Ok (PObject cid inner dfl false) /\
      (forall k v, In (k, v) mem -> exists x s', alookup k inner = Some x /\ find_slot sc k = Some s' /\
                                                 jsame (skind s') v (encode true x)) /\
      (forall k x, alookup k inner = Some x -> alookup k mem = None ->
                   exists s, find_slot c k = Some s /\ sdef s <> DNone).
Proof.
  intros vr ev pok sok cid mem m Hvr Hev Hval Hnd Hin Hinp.
  exact (spec_complete_partial_gen vr ev lib spec_restricted pok sok cid mem m Hvr Hev restricted_refines_lib
                                   Hval Hnd (lib_complete_spec cid Hin) Hinp).
Qed.

(* ... with the value of every stored property that was not given: its default (default_entry) *)
Lemma spec_complete_partial_defaults_lib :
  forall (vr : variant) (ev : env) pok sok cid mem m,
    variant_complete vr = true -> env_complete ev = true ->
    valid_obj spec_restricted pok (S m) cid (JObj mem) = true -> NoDup (map fst mem) ->
    In cid lib_complete ->
    (forall c sc, find_class (wclasses lib) cid = Some c -> find_class (wclasses spec_restricted) cid = Some sc ->
                  input_complete c sc mem = true) ->
    exists c sc inner dfl,
      find_class (wclasses lib) cid = Some c /\ find_class (wclasses spec_restricted) cid = Some sc /\
      run vr ev lib pok sok (S m) (RConstruct cid false false mem None) = Ok (PObject cid inner dfl false) /\
      (forall k v, In (k, v) mem -> exists x s', alookup k inner = Some x /\ find_slot sc k = Some s' /\
                                                 jsame (skind s') v (encode true x)) /\
      (forall k x, alookup k inner = Some x -> alookup k mem = None -> default_entry vr ev c k x).
Proof.
  intros vr ev pok sok cid mem m Hvr Hev Hval Hnd Hin Hinp.
  exact (spec_complete_partial_defaults_gen vr ev lib spec_restricted pok sok cid mem m Hvr Hev restricted_refines_lib
                                            Hval Hnd (lib_complete_spec cid Hin) Hinp).
Qed.

(* Proofs/ChainFacts.v -- generic facts about comparison chains.
   The key fact: a chain built from comparisons of the parameter with integer
   literals behaves identically at any two points that lie on the same side of
   every literal.  Hence agreement of two chains on all of Z follows from
   agreement on the finite window [min literal - 1, max literal + 1], which the
   kernel evaluates.                                                          *)

From Coq Require Import ZArith List String Bool Lia.
From V Require Import Model.Chain.
Import ListNotations.
Open Scope Z_scope.

(* ---------- same side of every literal => same truth value ---------- *)

Definition below_all (l : list Z) (x : Z) : Prop := forall z, In z l -> x < z.
Definition above_all (l : list Z) (x : Z) : Prop := forall z, In z l -> z < x.

Lemma eval_cond_below c x y :
  below_all (cond_lits c) x -> below_all (cond_lits c) y ->
  eval_cond c x = eval_cond c y.
Proof.
  induction c as [a op b | c1 IH1 c2 IH2 | c1 IH1 c2 IH2 | c1 IH1 | ];
    intros Hx Hy; cbn [eval_cond cond_lits] in *.
  - destruct a as [|za], b as [|zb]; cbn [eval_term term_lits app] in *.
    + destruct op; cbn [eval_op];
        rewrite ?Z.ltb_irrefl, ?Z.leb_refl, ?Z.eqb_refl; reflexivity.
    + assert (x < zb) by (apply Hx; left; reflexivity).
      assert (y < zb) by (apply Hy; left; reflexivity).
      destruct op; cbn [eval_op];
        repeat match goal with
        | |- context [?a <? ?b] => destruct (Z.ltb_spec a b)
        | |- context [?a <=? ?b] => destruct (Z.leb_spec a b)
        | |- context [?a =? ?b] => destruct (Z.eqb_spec a b)
        end; try reflexivity; lia.
    + assert (x < za) by (apply Hx; left; reflexivity).
      assert (y < za) by (apply Hy; left; reflexivity).
      destruct op; cbn [eval_op];
        repeat match goal with
        | |- context [?a <? ?b] => destruct (Z.ltb_spec a b)
        | |- context [?a <=? ?b] => destruct (Z.leb_spec a b)
        | |- context [?a =? ?b] => destruct (Z.eqb_spec a b)
        end; try reflexivity; lia.
    + reflexivity.
  - rewrite IH1, IH2; try reflexivity;
      intros z Hz; (apply Hx || apply Hy); apply in_or_app; auto.
  - rewrite IH1, IH2; try reflexivity;
      intros z Hz; (apply Hx || apply Hy); apply in_or_app; auto.
  - rewrite IH1; auto.
  - reflexivity.
Qed.

Lemma eval_cond_above c x y :
  above_all (cond_lits c) x -> above_all (cond_lits c) y ->
  eval_cond c x = eval_cond c y.
Proof.
  induction c as [a op b | c1 IH1 c2 IH2 | c1 IH1 c2 IH2 | c1 IH1 | ];
    intros Hx Hy; cbn [eval_cond cond_lits] in *.
  - destruct a as [|za], b as [|zb]; cbn [eval_term term_lits app] in *.
    + destruct op; cbn [eval_op];
        rewrite ?Z.ltb_irrefl, ?Z.leb_refl, ?Z.eqb_refl; reflexivity.
    + assert (zb < x) by (apply Hx; left; reflexivity).
      assert (zb < y) by (apply Hy; left; reflexivity).
      destruct op; cbn [eval_op];
        repeat match goal with
        | |- context [?a <? ?b] => destruct (Z.ltb_spec a b)
        | |- context [?a <=? ?b] => destruct (Z.leb_spec a b)
        | |- context [?a =? ?b] => destruct (Z.eqb_spec a b)
        end; try reflexivity; lia.
    + assert (za < x) by (apply Hx; left; reflexivity).
      assert (za < y) by (apply Hy; left; reflexivity).
      destruct op; cbn [eval_op];
        repeat match goal with
        | |- context [?a <? ?b] => destruct (Z.ltb_spec a b)
        | |- context [?a <=? ?b] => destruct (Z.leb_spec a b)
        | |- context [?a =? ?b] => destruct (Z.eqb_spec a b)
        end; try reflexivity; lia.
    + reflexivity.
  - rewrite IH1, IH2; try reflexivity;
      intros z Hz; (apply Hx || apply Hy); apply in_or_app; auto.
  - rewrite IH1, IH2; try reflexivity;
      intros z Hz; (apply Hx || apply Hy); apply in_or_app; auto.
  - rewrite IH1; auto.
  - reflexivity.
Qed.

Lemma eval_vchain_below ch x y :
  below_all (chain_lits ch) x -> below_all (chain_lits ch) y ->
  eval_vchain ch x = eval_vchain ch y.
Proof.
  induction ch as [|[c a] rest IH]; intros Hx Hy; cbn [eval_vchain]; [reflexivity|].
  unfold chain_lits in *; cbn [flat_map fst] in *.
  rewrite (eval_cond_below c x y).
  - destruct (eval_cond c y); [reflexivity|].
    apply IH; intros z Hz; (apply Hx || apply Hy); apply in_or_app; auto.
  - intros z Hz; apply Hx; apply in_or_app; auto.
  - intros z Hz; apply Hy; apply in_or_app; auto.
Qed.

Lemma eval_vchain_above ch x y :
  above_all (chain_lits ch) x -> above_all (chain_lits ch) y ->
  eval_vchain ch x = eval_vchain ch y.
Proof.
  induction ch as [|[c a] rest IH]; intros Hx Hy; cbn [eval_vchain]; [reflexivity|].
  unfold chain_lits in *; cbn [flat_map fst] in *.
  rewrite (eval_cond_above c x y).
  - destruct (eval_cond c y); [reflexivity|].
    apply IH; intros z Hz; (apply Hx || apply Hy); apply in_or_app; auto.
  - intros z Hz; apply Hx; apply in_or_app; auto.
  - intros z Hz; apply Hy; apply in_or_app; auto.
Qed.

(* ---------- min / max of a literal list ---------- *)

Lemma list_min_le d l : list_min d l <= d /\ forall z, In z l -> list_min d l <= z.
Proof.
  induction l as [|a l [IHd IHl]]; cbn [list_min fold_right]; [split; [lia|intros z []]|].
  fold (list_min d l). split; [lia|].
  intros z [->|Hz]; [lia|]. specialize (IHl z Hz). lia.
Qed.

Lemma list_max_ge d l : d <= list_max d l /\ forall z, In z l -> z <= list_max d l.
Proof.
  induction l as [|a l [IHd IHl]]; cbn [list_max fold_right]; [split; [lia|intros z []]|].
  fold (list_max d l). split; [lia|].
  intros z [->|Hz]; [lia|]. specialize (IHl z Hz). lia.
Qed.

(* ---------- windows ---------- *)

Lemma in_zrange lo n x : In x (zrange lo n) <-> lo <= x < lo + Z.of_nat n.
Proof.
  revert lo; induction n as [|n IH]; intros lo; cbn [zrange].
  - cbn; lia.
  - cbn [In]. rewrite IH. lia.
Qed.

Lemma in_zwindow lo hi x : In x (zwindow lo hi) <-> lo <= x <= hi.
Proof. unfold zwindow. rewrite in_zrange. lia. Qed.

(* ---------- two chains that agree on the window agree on Z ---------- *)

Definition win_lo (c1 c2 : vchain) : Z := list_min 0 (chain_lits c1 ++ chain_lits c2) - 1.
Definition win_hi (c1 c2 : vchain) : Z := list_max 100 (chain_lits c1 ++ chain_lits c2) + 1.

Definition outcome_str_eqb := outcome_eqb String.eqb.

Lemma outcome_str_eqb_eq a b : outcome_str_eqb a b = true -> a = b.
Proof.
  destruct a, b; cbn; try discriminate; try reflexivity.
  intros H; apply String.eqb_eq in H; congruence.
Qed.

Definition agree_on_window (c1 c2 : vchain) : bool :=
  forallb (fun x => outcome_str_eqb (eval_vchain c1 x) (eval_vchain c2 x))
          (zwindow (win_lo c1 c2) (win_hi c1 c2)).

Theorem agree_everywhere c1 c2 :
  agree_on_window c1 c2 = true -> forall x, eval_vchain c1 x = eval_vchain c2 x.
Proof.
  intros H x. unfold agree_on_window in H. rewrite forallb_forall in H.
  set (lo := win_lo c1 c2) in *. set (hi := win_hi c1 c2) in *.
  pose proof (list_min_le 0 (chain_lits c1 ++ chain_lits c2)) as [Hm0 Hm].
  pose proof (list_max_ge 100 (chain_lits c1 ++ chain_lits c2)) as [HM0 HM].
  assert (Hlohi : lo <= hi) by (unfold lo, hi, win_lo, win_hi; lia).
  destruct (Z_lt_le_dec x lo) as [Hlt|Hge].
  - (* below the window: same as at lo *)
    assert (B1 : forall y, y <= lo -> below_all (chain_lits c1) y).
    { intros y Hy z Hz. specialize (Hm z (in_or_app _ _ _ (or_introl Hz))).
      unfold lo, win_lo in Hy. lia. }
    assert (B2 : forall y, y <= lo -> below_all (chain_lits c2) y).
    { intros y Hy z Hz. specialize (Hm z (in_or_app _ _ _ (or_intror Hz))).
      unfold lo, win_lo in Hy. lia. }
    rewrite (eval_vchain_below c1 x lo), (eval_vchain_below c2 x lo);
      try (apply B1 || apply B2); try lia.
    apply outcome_str_eqb_eq, H, in_zwindow. lia.
  - destruct (Z_lt_le_dec hi x) as [Hgt|Hle].
    + assert (A1 : forall y, hi <= y -> above_all (chain_lits c1) y).
      { intros y Hy z Hz. specialize (HM z (in_or_app _ _ _ (or_introl Hz))).
        unfold hi, win_hi in Hy. lia. }
      assert (A2 : forall y, hi <= y -> above_all (chain_lits c2) y).
      { intros y Hy z Hz. specialize (HM z (in_or_app _ _ _ (or_intror Hz))).
        unfold hi, win_hi in Hy. lia. }
      rewrite (eval_vchain_above c1 x hi), (eval_vchain_above c2 x hi);
        try (apply A1 || apply A2); try lia.
      apply outcome_str_eqb_eq, H, in_zwindow. lia.
    + apply outcome_str_eqb_eq, H, in_zwindow. lia.
Qed.

(* ---------- the spec table as a chain ---------- *)

Definition table_chain (t : range_table) : vchain :=
  map (fun e => match e with (lo, hi, l) =>
         (CAnd (Cmp (Lit lo) OLe X) (Cmp X OLe (Lit hi)), Ret l) end) t
  ++ [(CTrue, RaiseValueError)].

Lemma spec_label_chain t x : spec_label t x = eval_vchain (table_chain t) x.
Proof.
  induction t as [|[[lo hi] l] t IH]; cbn; [reflexivity|].
  destruct ((lo <=? x) && (x <=? hi)); [reflexivity|exact IH].
Qed.

Definition chain_matches_table (ch : vchain) (t : range_table) : bool :=
  agree_on_window ch (table_chain t).

Theorem chain_is_table ch t :
  chain_matches_table ch t = true -> forall x, eval_vchain ch x = spec_label t x.
Proof. intros H x. rewrite spec_label_chain. apply agree_everywhere, H. Qed.

(* ---------- facts about range tables (the specification side) ---------- *)

(* rows lie inside [0,100] *)
Definition table_inside (t : range_table) : bool :=
  forallb (fun e => match e with (lo, hi, _) => (0 <=? lo) && (hi <=? 100) end) t.

Lemma table_refuses_outside t x :
  table_inside t = true -> x < 0 \/ 100 < x -> spec_label t x = Refused.
Proof.
  induction t as [|[[lo hi] l] t IH]; cbn [spec_label table_inside forallb]; [reflexivity|].
  intros Hin Hx. apply andb_prop in Hin as [Hrow Hrest].
  apply andb_prop in Hrow as [H0 H1].
  destruct (Z.leb_spec lo x), (Z.leb_spec x hi); cbn [andb];
    try (apply IH; assumption).
  apply Z.leb_le in H0, H1. lia.
Qed.

(* rows are contiguous from 0 to 100: lo_1 = 0, lo_{i+1} = hi_i + 1, hi_n = 100, lo_i <= hi_i *)
Fixpoint contiguous (next : Z) (t : range_table) : bool :=
  match t with
  | [] => next =? 101
  | (lo, hi, _) :: rest => (lo =? next) && (lo <=? hi) && contiguous (hi + 1) rest
  end.

Lemma contiguous_total next t x :
  contiguous next t = true -> next <= x <= 100 -> exists l, spec_label t x = Value l.
Proof.
  revert next; induction t as [|[[lo hi] l] t IH]; intros next; cbn [contiguous spec_label].
  - intros H Hx. apply Z.eqb_eq in H. lia.
  - intros H Hx. apply andb_prop in H as [H Hrest]. apply andb_prop in H as [Hlo Hle].
    apply Z.eqb_eq in Hlo. apply Z.leb_le in Hle. subst lo.
    destruct (Z.leb_spec next x), (Z.leb_spec x hi); cbn [andb]; try lia.
    + eexists; reflexivity.
    + apply (IH (hi + 1)); [assumption|lia].
Qed.

(* in a contiguous table the row index never decreases as the value grows *)
Fixpoint spec_index (t : range_table) (x : Z) : option nat :=
  match t with
  | [] => None
  | (lo, hi, _) :: rest =>
    if (lo <=? x) && (x <=? hi) then Some O
    else match spec_index rest x with Some n => Some (S n) | None => None end
  end.

Lemma contiguous_index_mono next t x y :
  contiguous next t = true -> next <= x -> x <= y -> y <= 100 ->
  exists i j, spec_index t x = Some i /\ spec_index t y = Some j /\ (i <= j)%nat.
Proof.
  revert next x y; induction t as [|[[lo hi] l] t IH]; intros next x y; cbn [contiguous spec_index].
  - intros H Hx Hxy Hy. apply Z.eqb_eq in H. lia.
  - intros H Hx Hxy Hy. apply andb_prop in H as [H Hrest]. apply andb_prop in H as [Hlo Hle].
    apply Z.eqb_eq in Hlo. apply Z.leb_le in Hle. subst lo.
    destruct (Z.leb_spec next x), (Z.leb_spec x hi); cbn [andb]; try lia.
    + destruct (Z.leb_spec next y), (Z.leb_spec y hi); cbn [andb]; try lia.
      * exists O, O. auto.
      * destruct (IH (hi + 1) y y Hrest) as (i & j & Hi & Hj & _); try lia.
        rewrite Hi. exists O, (S i). repeat split; auto. lia.
    + destruct (Z.leb_spec next y), (Z.leb_spec y hi); cbn [andb]; try lia.
      destruct (IH (hi + 1) x y Hrest) as (i & j & Hi & Hj & Hij); try lia.
      rewrite Hi, Hj. exists (S i), (S j). repeat split; auto. lia.
Qed.

Lemma spec_index_label t x i :
  spec_index t x = Some i -> exists lo hi l, nth_error t i = Some (lo, hi, l) /\ spec_label t x = Value l.
Proof.
  revert i; induction t as [|[[lo hi] l] t IH]; intros i; cbn [spec_index spec_label]; [discriminate|].
  destruct ((lo <=? x) && (x <=? hi)).
  - intros [= <-]. exists lo, hi, l. split; reflexivity.
  - destruct (spec_index t x) as [n|] eqn:E; [|discriminate].
    intros [= <-]. destruct (IH n eq_refl) as (lo' & hi' & l' & Hn & Hl).
    exists lo', hi', l'. split; assumption.
Qed.

(* ---------- label functions ---------- *)

Lemma eval_lchain_notin ch s : ~ In s (map fst ch) -> eval_lchain ch s = FellThrough.
Proof.
  induction ch as [|[l a] ch IH]; cbn [eval_lchain map fst In]; [reflexivity|].
  intros H. destruct (String.eqb_spec s l) as [->|_]; [exfalso; apply H; auto|].
  apply IH. intros Hin; apply H; auto.
Qed.

Lemma spec_value_notin t s : ~ In s (map fst t) -> spec_value t s = Refused.
Proof.
  induction t as [|[l v] t IH]; cbn [spec_value map fst In]; [reflexivity|].
  intros H. destruct (String.eqb_spec s l) as [->|_]; [exfalso; apply H; auto|].
  apply IH. intros Hin; apply H; auto.
Qed.

Definition outcome_Z_eqb := outcome_eqb Z.eqb.

Lemma outcome_Z_eqb_eq a b : outcome_Z_eqb a b = true -> a = b.
Proof.
  destruct a, b; cbn; try discriminate; try reflexivity.
  intros H; apply Z.eqb_eq in H; congruence.
Qed.

(* the label function equals the spec table on every string iff it does so on
   the strings mentioned by either, and its else branch refuses *)
Definition lfun_matches_table (f : lfun) (t : label_table) : bool :=
  forallb (fun s => outcome_Z_eqb (eval_lfun f s) (spec_value t s))
          (map fst (lbranches f) ++ map fst t)
  && match lelse f with Some RaiseValueError => true | _ => false end.

Theorem lfun_is_table f t :
  lfun_matches_table f t = true -> forall s, eval_lfun f s = spec_value t s.
Proof.
  unfold lfun_matches_table. intros H s. apply andb_prop in H as [Hall Helse].
  rewrite forallb_forall in Hall.
  destruct (in_dec string_dec s (map fst (lbranches f) ++ map fst t)) as [Hin|Hnin].
  - apply outcome_Z_eqb_eq, Hall, Hin.
  - assert (N1 : ~ In s (map fst (lbranches f))) by (intros Hc; apply Hnin, in_or_app; auto).
    assert (N2 : ~ In s (map fst t)) by (intros Hc; apply Hnin, in_or_app; auto).
    unfold eval_lfun. rewrite (eval_lchain_notin _ _ N1), (spec_value_notin _ _ N2).
    destruct (lelse f) as [[v|]|]; try discriminate. reflexivity.
Qed.

(* round trip on the specification tables, a finite check *)
Definition table_roundtrip (lt : label_table) (rt : range_table) : bool :=
  forallb (fun e => match e with (l, v) =>
     outcome_str_eqb (spec_label rt v) (Value l) end) lt.

Lemma spec_value_in t s v : spec_value t s = Value v -> In (s, v) t.
Proof.
  induction t as [|[l w] t IH]; cbn [spec_value]; [discriminate|].
  destruct (String.eqb_spec s l) as [->|_].
  - intros [= ->]. left; reflexivity.
  - intros H; right; auto.
Qed.

Lemma table_roundtrip_sound lt rt s v :
  table_roundtrip lt rt = true -> spec_value lt s = Value v -> spec_label rt v = Value s.
Proof.
  unfold table_roundtrip. rewrite forallb_forall. intros H Hv.
  apply spec_value_in in Hv. specialize (H _ Hv). cbn in H.
  apply outcome_str_eqb_eq in H. exact H.
Qed.

(* ---------- rank of a label = row index when labels are distinct ---------- *)

Fixpoint nodupb (l : list string) : bool :=
  match l with
  | [] => true
  | a :: rest => negb (existsb (String.eqb a) rest) && nodupb rest
  end.

Lemma nodupb_NoDup l : nodupb l = true -> NoDup l.
Proof.
  induction l as [|a l IH]; cbn [nodupb]; intros H; constructor.
  - apply andb_prop in H as [H _]. intros Hin.
    apply negb_true_iff in H. apply Bool.not_true_iff_false in H. apply H.
    apply existsb_exists. exists a. split; [assumption|apply String.eqb_refl].
  - apply andb_prop in H as [_ H]. auto.
Qed.

Lemma rank_nth t i lo hi l :
  NoDup (labels_of t) -> nth_error t i = Some (lo, hi, l) -> rank (labels_of t) l = i.
Proof.
  revert i; induction t as [|[[lo' hi'] l'] t IH]; intros i Hnd Hn.
  - destruct i; discriminate.
  - unfold labels_of in *. cbn [map snd rank] in *. inversion Hnd as [|? ? Hnotin Hnd']; subst.
    destruct i as [|i]; cbn [nth_error] in Hn.
    + injection Hn as -> -> ->. rewrite String.eqb_refl. reflexivity.
    + destruct (String.eqb_spec l l') as [->|_].
      * exfalso. apply Hnotin. apply nth_error_In in Hn.
        change l' with (snd (lo, hi, l')). apply in_map, Hn.
      * f_equal. apply IH; assumption.
Qed.

(* ---------- everything C20 states, for one scale, from five boolean checks ---------- *)

Section Scale.
  Variables (ch : vchain) (f : lfun) (rt : range_table) (lt : label_table).
  Hypothesis Hch : chain_matches_table ch rt = true.
  Hypothesis Hlf : lfun_matches_table f lt = true.
  Hypothesis Hin : table_inside rt = true.
  Hypothesis Hcont : contiguous 0 rt = true.
  Hypothesis Hnd : nodupb (labels_of rt) = true.
  Hypothesis Hrt : table_roundtrip lt rt = true.

  Theorem scale_agrees_spec :
    (forall x, eval_vchain ch x = spec_label rt x) /\ (forall s, eval_lfun f s = spec_value lt s).
  Proof. split; [apply chain_is_table, Hch | apply lfun_is_table, Hlf]. Qed.

  Theorem scale_total x : 0 <= x <= 100 -> exists l, eval_vchain ch x = Value l.
  Proof.
    intros Hx. rewrite (chain_is_table _ _ Hch). apply (contiguous_total 0); assumption.
  Qed.

  Theorem scale_refuses x : x < 0 \/ 100 < x -> eval_vchain ch x = Refused.
  Proof.
    intros Hx. rewrite (chain_is_table _ _ Hch). apply table_refuses_outside; assumption.
  Qed.

  Theorem scale_monotone x y :
    0 <= x -> x <= y -> y <= 100 ->
    exists lx ly, eval_vchain ch x = Value lx /\ eval_vchain ch y = Value ly /\
                  (rank (labels_of rt) lx <= rank (labels_of rt) ly)%nat.
  Proof.
    intros H0 Hxy Hy. rewrite !(chain_is_table _ _ Hch).
    destruct (contiguous_index_mono 0 rt x y Hcont H0 Hxy Hy) as (i & j & Hi & Hj & Hij).
    destruct (spec_index_label _ _ _ Hi) as (lo1 & hi1 & l1 & Hn1 & Hl1).
    destruct (spec_index_label _ _ _ Hj) as (lo2 & hi2 & l2 & Hn2 & Hl2).
    exists l1, l2. repeat split; try assumption.
    rewrite (rank_nth _ _ _ _ _ (nodupb_NoDup _ Hnd) Hn1).
    rewrite (rank_nth _ _ _ _ _ (nodupb_NoDup _ Hnd) Hn2). exact Hij.
  Qed.

  Theorem scale_roundtrip s v : eval_lfun f s = Value v -> eval_vchain ch v = Value s.
  Proof.
    rewrite (lfun_is_table _ _ Hlf), (chain_is_table _ _ Hch).
    apply table_roundtrip_sound, Hrt.
  Qed.

  Theorem scale_unknown_refused s : ~ In s (map fst lt) -> eval_lfun f s = Refused.
  Proof. intros H. rewrite (lfun_is_table _ _ Hlf). apply spec_value_notin, H. Qed.
End Scale.

(* Proofs/SchemaCompLeaf.v -- C03, per-kind completeness of Property.clean (the statement shape of
   Proofs/SchemaComplete.v:complete_at) for further leaf kinds: identifiers (KId), references (KRef),
   floats given as floats (KFloat), selectors (KSelector).  The reverse direction of Proofs/SchemaUuid.v:
   on canonical 8-4-4-4-12 text uuid.UUID(text) succeeds and its integer is the hexadecimal value of the
   digits, so the specification's variant / version tests are the library's.                        *)
From Coq Require Import NArith ZArith List String Bool Lia.
From V Require Import Base.UString Base.Json Model.SchemaTypes Model.PyBase Model.Schema
     Spec.StixValid Spec.SchemaRefine Proofs.SchemaBasics Proofs.SchemaScope Proofs.SchemaUuid Proofs.SchemaComplete.
Import ListNotations.

Local Arguments u : simpl never.

(* ---------- uuid.UUID(text) on canonical text ---------- *)
Lemma hexdigit_not_dash c : is_hexdigit c = true -> (c =? 45)%N = false.
Proof. intros H. apply hexdigit_range in H. apply N.eqb_neq. lia. Qed.

Lemma filter_cons_t {A} (f : A -> bool) x l : f x = true -> filter f (x :: l) = x :: filter f l.
Proof. intros H. simpl. rewrite H. reflexivity. Qed.
Lemma filter_cons_f {A} (f : A -> bool) x l : f x = false -> filter f (x :: l) = filter f l.
Proof. intros H. simpl. rewrite H. reflexivity. Qed.

Lemma canonical_filter_length s :
  canonical_uuid_text s = true -> List.length (filter (fun c => negb (c =? 45)%N) s) = 32%nat.
Proof.
  unfold canonical_uuid_text. intros H. apply andb_true_iff in H. destruct H as [HL H].
  apply Nat.eqb_eq in HL.
  do 36 (destruct s as [|? s]; [discriminate HL|]). destruct s; [|discriminate HL]. clear HL.
  cbn [seq combine forallb Nat.eqb orb] in H.
  repeat (apply andb_true_iff in H; let H2 := fresh "D" in destruct H as [H2 H]).
  clear H.
  repeat match goal with
         | D : is_hexdigit ?c = true |- _ => apply hexdigit_not_dash in D
         end.
  repeat match goal with
         | D : (?c =? 45)%N = _ |- _ => apply (f_equal negb) in D; cbn [negb] in D
         end.
  repeat first [ rewrite filter_cons_t by (cbv beta; assumption)
               | rewrite filter_cons_f by (cbv beta; assumption) ].
  reflexivity.
Qed.

Lemma hexdigit_val_bound c : is_hexdigit c = true -> (0 <= Z.of_N (hexdigit_val c) <= 15)%Z.
Proof.
  intros H. pose proof (hexdigit_range c H) as R. unfold hexdigit_val, is_digit.
  destruct ((48 <=? c)%N && (c <=? 57)%N) eqn:E1.
  - apply andb_true_iff in E1. destruct E1 as [A B]. apply N.leb_le in A, B. lia.
  - destruct ((97 <=? c)%N && (c <=? 102)%N) eqn:E2.
    + apply andb_true_iff in E2. destruct E2 as [A B]. apply N.leb_le in A, B. lia.
    + apply andb_false_iff in E1. apply andb_false_iff in E2.
      assert (65 <= c <= 70)%N.
      { destruct E1 as [E1|E1]; destruct E2 as [E2|E2];
          try apply N.leb_gt in E1; try apply N.leb_gt in E2; lia. }
      lia.
Qed.

Lemma digits_val16_bound h : forallb is_hexdigit h = true ->
  forall acc, (0 <= acc)%Z -> (0 <= digits_val 16 h acc < (acc + 1) * 16 ^ Z.of_nat (List.length h))%Z.
Proof.
  induction h as [|c r IH]; intros H acc Ha.
  - simpl. lia.
  - simpl in H. apply andb_true_iff in H. destruct H as [Hc Hr].
    pose proof (hexdigit_val_bound c Hc) as B. cbn [digits_val List.length].
    set (v := Z.of_N (hexdigit_val c)) in *.
    destruct (IH Hr (acc * 16 + v)%Z ltac:(lia)) as [L U]. split; auto.
    rewrite Nat2Z.inj_succ, Z.pow_succ_r by lia.
    assert (P : (0 < 16 ^ Z.of_nat (List.length r))%Z) by (apply Z.pow_pos_nonneg; lia).
    eapply Z.lt_le_trans; [exact U|].
    set (P16 := (16 ^ Z.of_nat (List.length r))%Z) in *.
    assert (E : ((acc + 1) * (16 * P16) = (acc * 16 + 16) * P16)%Z) by ring.
    rewrite E. apply Z.mul_le_mono_nonneg_r; lia.
Qed.

Lemma py_uuid_int_of_canonical s :
  canonical_uuid_text s = true -> py_uuid_int s = Ok (hex_val (filter (fun c => negb (c =? 45)%N) s)).
Proof.
  intros Hc. destruct (canonical_hexdash s Hc) as [Hd HL].
  assert (Hr : forall c, In c s -> ((48 <= c <= 57) \/ (97 <= c <= 102) \/ (65 <= c <= 70) \/ c = 45)%N).
  { intros c Hin. rewrite forallb_forall in Hd. apply hexdash_range. auto. }
  unfold py_uuid_int.
  assert (N117 : forallb (fun c => negb (117 =? c)%N) s = true).
  { rewrite forallb_forall. intros c Hin. specialize (Hr c Hin). apply negb_true_iff. apply N.eqb_neq. lia. }
  change (u "urn:") with (117%N :: u "rn:"). change (u "uuid:") with (117%N :: u "uid:").
  rewrite (uremove_all_noop _ 117%N (u "rn:") s N117).
  rewrite (uremove_all_noop _ 117%N (u "uid:") s N117).
  rewrite strip_noop.
  2: { rewrite forallb_forall. intros c Hin. specialize (Hr c Hin). apply negb_true_iff. simpl.
       repeat (apply orb_false_iff; split); first [apply N.eqb_neq; lia | reflexivity]. }
  rewrite uremove_dash by lia.
  set (h := filter (fun c => negb (c =? 45)%N) s) in *.
  pose proof (canonical_filter_length s Hc) as L32. fold h in L32.
  rewrite L32. cbn [Nat.eqb negb].
  assert (Hh : forallb is_hexdigit h = true).
  { rewrite forallb_forall. intros c Hin. unfold h in Hin. apply filter_In in Hin. destruct Hin as [Hin Hn].
    rewrite forallb_forall in Hd. specialize (Hd c Hin). unfold hexdash in Hd.
    apply negb_true_iff in Hn. rewrite Hn, orb_false_r in Hd. auto. }
  rewrite py_int_hex; auto.
  2: { intros E. rewrite E in L32. discriminate. }
  cbn [bind]. destruct (digits_val16_bound h Hh 0%Z ltac:(lia)) as [L U]. rewrite L32 in U.
  replace ((0 <=? digits_val 16 h 0)%Z) with true by (symmetry; apply Z.leb_le; exact L).
  replace ((digits_val 16 h 0 <? 2 ^ 128)%Z) with true
    by (symmetry; apply Z.ltb_lt; change (2 ^ 128)%Z with ((0 + 1) * 16 ^ Z.of_nat 32)%Z; exact U).
  reflexivity.
Qed.

Lemma check_uuid_complete vr s v : valid_uuid_text v s = true -> check_uuid vr s v false = Ok true.
Proof.
  unfold valid_uuid_text. intros H. apply andb_true_iff in H. destruct H as [Hc H]. cbv zeta in H.
  unfold check_uuid. rewrite (py_uuid_int_of_canonical s Hc). cbn [bind]. rewrite Hc. cbn [negb].
  rewrite andb_false_r. unfold hex_val in *.
  set (i := digits_val 16 (filter (fun c => negb (c =? 45)%N) s) 0) in *. cbv beta iota zeta.
  apply andb_true_iff in H. destruct H as [H1 H2]. rewrite H1. destruct v; [rewrite H2|]; reflexivity.
Qed.

Lemma validate_id_complete vr s v prefix :
  valid_id v (Some prefix) s = true -> validate_id vr s v (Some prefix) false = Ok tt.
Proof.
  unfold valid_id, validate_id. intros H. apply andb_true_iff in H. destruct H as [Hp Hu].
  rewrite Hp. cbn [negb]. rewrite (check_uuid_complete vr _ _ Hu). reflexivity.
Qed.

Lemma validate_id_none_complete vr s v :
  valid_id v None s = true -> validate_id vr s v None false = Ok tt.
Proof.
  unfold valid_id, validate_id. destruct (split_dashdash s) as [t [rest|]]; try discriminate.
  intros H. apply andb_true_iff in H. destruct H as [_ Hu].
  rewrite (check_uuid_complete vr _ _ Hu). reflexivity.
Qed.

(* ---------- selectors: the recogniser only takes ASCII text ---------- *)
Lemma selchar_ascii c : is_selchar c || is_upper c = true -> is_ascii c = true.
Proof.
  unfold is_selchar, is_upper, is_digit, is_lower, is_ascii. intros H. apply N.ltb_lt.
  repeat (apply orb_true_iff in H; destruct H as [H|H]);
    try (apply andb_true_iff in H; destruct H as [A B]; apply N.leb_le in A, B; lia);
    apply N.eqb_eq in H; lia.
Qed.

Lemma usplit_dot_acc : forall s cur c, In c cur -> exists seg, In seg (usplit_dot s cur) /\ In c seg.
Proof.
  induction s as [|x s IH]; intros cur c Hin; cbn [usplit_dot].
  - exists (rev cur). split; [left; reflexivity|]. apply in_rev. rewrite rev_involutive. exact Hin.
  - destruct (x =? 46)%N.
    + exists (rev cur). split; [left; reflexivity|]. apply in_rev. rewrite rev_involutive. exact Hin.
    + apply IH. right. exact Hin.
Qed.

Lemma usplit_dot_chars : forall s cur c,
  In c s -> c = 46%N \/ exists seg, In seg (usplit_dot s cur) /\ In c seg.
Proof.
  induction s as [|x s IH]; intros cur c Hin; [destruct Hin|].
  cbn [usplit_dot]. destruct (x =? 46)%N eqn:E.
  - destruct Hin as [-> | Hin]; [left; apply N.eqb_eq; auto|].
    destruct (IH [] c Hin) as [-> | [seg [A B]]]; auto. right. exists seg. split; auto. right. auto.
  - destruct Hin as [-> | Hin].
    + right. apply usplit_dot_acc. left. reflexivity.
    + apply IH. auto.
Qed.

Section CompLeaf.
  Variable vr : variant.
  Variables w sp : world.
  Variable pok : ver -> ustring -> bool.
  Variable rc : ustring -> bool -> bool -> list (ustring * jvalue) -> result pval.
  Variable rp : bool -> bool -> list (ustring * jvalue) -> result pval.
  Variable ro : ver -> list (ustring * ustring) -> bool -> list (ustring * jvalue) -> result pval.

  Notation CA := (complete_at vr w sp pok rc rp ro).

  Lemma ver_eqb_eq2 a b : ver_eqb a b = true -> a = b.
  Proof. destruct a, b; simpl; intros; auto; discriminate. Qed.

  (* ---- IDProperty ---- *)
  Lemma complete_id p v p' v' : ustr_eqb p p' = true -> ver_eqb v v' = true -> CA (KId p v) (KId p' v').
  Proof.
    intros Ep Ev j n H. apply ustr_eqb_eq in Ep. apply ver_eqb_eq2 in Ev. subst p' v'.
    destruct (valid_S sp pok _ _ _ H) as [m ->]. cbn in H. destruct j; try discriminate.
    exists (PJ (JStr s)). split; [|reflexivity]. cbn [clean_kind].
    rewrite (validate_id_complete vr _ _ _ H). reflexivity.
  Qed.

  (* ---- ReferenceProperty ---- *)
  Hypothesis Hreg : forall v, reg_of w v = reg_of sp v.

  Lemma c_is_sdo t v : is_sdo w t v = s_is_sdo sp t v.
  Proof. unfold is_sdo, s_is_sdo, s_reg. rewrite Hreg. reflexivity. Qed.
  Lemma c_is_sco t v : is_sco w t v = s_is_sco sp t v.
  Proof. unfold is_sco, s_is_sco, s_reg. rewrite Hreg. reflexivity. Qed.
  Lemma c_is_stix_type t v gs : is_stix_type w t v gs = existsb (s_in_generic sp t v) gs.
  Proof.
    unfold is_stix_type. induction gs as [|g gs IH]; simpl; auto. rewrite IH. f_equal.
    unfold s_in_generic. rewrite c_is_sdo, c_is_sco. reflexivity.
  Qed.
  Lemma c_is_object t v : is_object w t v = s_known_type sp t v.
  Proof.
    unfold is_object, s_known_type, s_reg. rewrite Hreg.
    destruct (assoc t (robservables (reg_of sp v))), (assoc t (robjects (reg_of sp v))); reflexivity.
  Qed.

  Lemma existsb_sub (f : ustring -> bool) a b : usubset a b = true -> existsb f a = true -> existsb f b = true.
  Proof.
    unfold usubset. intros Hs H. apply existsb_exists in H. destruct H as [x [Hin Hx]].
    rewrite forallb_forall in Hs. apply existsb_exists. exists x. split; auto. apply mem_ustr_In. auto.
  Qed.
  Lemma mem_sub a b x : usubset a b = true -> mem_ustr x a = true -> mem_ustr x b = true.
  Proof. unfold usubset. intros H Hx. rewrite forallb_forall in H. apply H. apply mem_ustr_In. auto. Qed.

  Lemma complete_ref wh g s v wh' g' s' v' :
    kind_accepts (KRef wh g s v) (KRef wh' g' s' v') = true -> CA (KRef wh g s v) (KRef wh' g' s' v').
  Proof.
    intros Ha j n H. simpl in Ha.
    apply andb_true_iff in Ha. destruct Ha as [Ha Hsub]. apply andb_true_iff in Ha. destruct Ha as [Hw Hv].
    apply ver_eqb_eq2 in Hv. subst v'. apply eqb_prop in Hw. subst wh'.
    destruct (valid_S sp pok _ _ _ H) as [m ->]. cbn in H. destruct j as [| | | |str| |]; try discriminate.
    unfold valid_ref in H. apply andb_true_iff in H. destruct H as [Hid H]. cbv zeta in H.
    set (t := fst (split_dashdash str)) in *.
    apply andb_true_iff in H. destruct H as [H Hhit]. apply andb_true_iff in H. destruct H as [Hk Hx].
    exists (PJ (JStr str)). split; [|reflexivity].
    cbn [clean_kind]. unfold clean_reference. cbn [py_str bind].
    rewrite (validate_id_none_complete vr _ _ Hid). cbn [bind andb]. fold t.
    rewrite c_is_object, Hk. apply negb_true_iff in Hx. rewrite Hx. cbn [negb orb andb].
    rewrite c_is_stix_type.
    assert (Tok : (if wh then existsb (s_in_generic sp t v) g || mem_ustr t s
                   else negb (existsb (s_in_generic sp t v) g) && negb (mem_ustr t s) || mem_ustr t []) = true).
    { destruct wh.
      - apply andb_true_iff in Hsub. destruct Hsub as [Hg Hs].
        apply orb_true_iff in Hhit. apply orb_true_iff. destruct Hhit as [E | E].
        + left. eapply existsb_sub; eauto.
        + right. eapply mem_sub; eauto.
      - apply andb_true_iff in Hsub. destruct Hsub as [Hg Hs].
        apply negb_true_iff in Hhit. apply orb_false_iff in Hhit. destruct Hhit as [E1 E2].
        rewrite orb_false_r. apply andb_true_iff. split; apply negb_true_iff.
        + destruct (existsb (s_in_generic sp t v) g) eqn:E; auto. rewrite (existsb_sub _ _ _ Hg E) in E1. discriminate.
        + destruct (mem_ustr t s) eqn:E; auto. rewrite (mem_sub _ _ _ Hs E) in E2. discriminate. }
    rewrite Tok. reflexivity.
  Qed.

  (* ---- FloatProperty, on a value given as a float ---- *)
  Lemma complete_float_repr mn mx mn' mx' r n :
    lower_within mn' mn = true -> upper_within mx' mx = true ->
    valid_kind sp pok n (KFloat mn' mx') (JFloat r) = true ->
    clean_kind vr w rc rp ro (KFloat mn mx) false false (JFloat r) = Ok (PJ (JFloat r), false).
  Proof.
    intros Hl Hu H. destruct (valid_S sp pok _ _ _ H) as [m ->]. cbn in H. unfold number_in_bounds in H.
    cbn [clean_kind]. unfold clean_float.
    destruct (dec_of_repr r) as [me|]; try discriminate.
    apply andb_true_iff in H. destruct H as [H1 H2].
    assert (A : match mn with Some b => match dec_cmp_int me b with Lt => false | _ => true end | None => true end = true).
    { destruct mn as [x|]; auto. unfold lower_within in Hl. destruct mn' as [y|]; try discriminate.
      apply Z.leb_le in Hl. destruct me as [mm e]. unfold dec_cmp_int in *. destruct (0 <=? e)%Z.
      - destruct (Z.compare_spec (mm * 10 ^ e) y); try discriminate;
          destruct (Z.compare_spec (mm * 10 ^ e) x); auto; lia.
      - assert (P : (0 <= 10 ^ (- e))%Z) by (apply Z.pow_nonneg; lia).
        assert ((x * 10 ^ (- e) <= y * 10 ^ (- e))%Z) by (apply Z.mul_le_mono_nonneg_r; auto).
        destruct (Z.compare_spec mm (y * 10 ^ (- e))); try discriminate;
          destruct (Z.compare_spec mm (x * 10 ^ (- e))); auto; lia. }
    assert (B : match mx with Some b => match dec_cmp_int me b with Gt => false | _ => true end | None => true end = true).
    { destruct mx as [x|]; auto. unfold upper_within in Hu. destruct mx' as [y|]; try discriminate.
      apply Z.leb_le in Hu. destruct me as [mm e]. unfold dec_cmp_int in *. destruct (0 <=? e)%Z.
      - destruct (Z.compare_spec (mm * 10 ^ e) y); try discriminate;
          destruct (Z.compare_spec (mm * 10 ^ e) x); auto; lia.
      - assert (P : (0 <= 10 ^ (- e))%Z) by (apply Z.pow_nonneg; lia).
        assert ((y * 10 ^ (- e) <= x * 10 ^ (- e))%Z) by (apply Z.mul_le_mono_nonneg_r; auto).
        destruct (Z.compare_spec mm (y * 10 ^ (- e))); try discriminate;
          destruct (Z.compare_spec mm (x * 10 ^ (- e))); auto; lia. }
    rewrite A, B. reflexivity.
  Qed.

  (* ---- SelectorProperty (repaired variant: upper-case letters admitted after the first step) ---- *)
  Lemma selector_ascii s : re_selector_exact_gen true s = true -> all_ascii s = true.
  Proof.
    unfold re_selector_exact_gen. intros H. apply orb_true_iff in H. destruct H as [H | H].
    - apply ustr_eqb_eq in H. subst. reflexivity.
    - unfold all_ascii. rewrite forallb_forall. intros c Hc.
      destruct (usplit_dot_chars s [] c Hc) as [-> | [seg [Hseg Hin]]]; [reflexivity|].
      destruct (usplit_dot s []) as [|first rest]; [discriminate|].
      apply andb_true_iff in H. destruct H as [H1 H2].
      assert (Name : forall lo hi x, sel_name_step_up lo hi x = true -> In c x -> is_ascii c = true).
      { intros lo hi x Hx Hi. unfold sel_name_step_up in Hx.
        apply andb_true_iff in Hx. destruct Hx as [Hx _]. apply andb_true_iff in Hx. destruct Hx as [Hx _].
        rewrite forallb_forall in Hx. apply selchar_ascii. auto. }
      destruct Hseg as [<- | Hseg].
      + apply (Name 3%nat 250%nat first); auto.
        unfold sel_name_step in H1. unfold sel_name_step_up.
        apply andb_true_iff in H1. destruct H1 as [H1 H3]. apply andb_true_iff in H1. destruct H1 as [H1 H4].
        rewrite H3, H4, !andb_true_r. rewrite forallb_forall in *. intros y Hy. rewrite (H1 y Hy). reflexivity.
      + rewrite forallb_forall in H2. specialize (H2 seg Hseg). apply orb_true_iff in H2. destruct H2 as [H2 | H2].
        * (* [digits] *)
          unfold sel_index_step in H2. destruct seg as [|b r]; try discriminate.
          destruct (b =? 91)%N eqn:Eb; [|destruct b as [|p]; try discriminate;
             repeat (destruct p; try discriminate)].
          apply N.eqb_eq in Eb. subst b.
          destruct (rev r) as [|e d] eqn:Er; try discriminate.
          destruct (e =? 93)%N eqn:Ee; [|destruct e as [|p]; try discriminate; repeat (destruct p; try discriminate)].
          apply N.eqb_eq in Ee. subst e. apply andb_true_iff in H2. destruct H2 as [_ Hd].
          destruct Hin as [<- | Hin]; [reflexivity|].
          apply in_rev in Hin. rewrite Er in Hin. destruct Hin as [<- | Hin]; [reflexivity|].
          rewrite forallb_forall in Hd. specialize (Hd c Hin). unfold is_digit in Hd. unfold is_ascii.
          apply andb_true_iff in Hd. destruct Hd as [A B]. apply N.leb_le in A, B. apply N.ltb_lt. lia.
        * apply (Name 1%nat 250%nat seg); auto.
  Qed.

  Lemma complete_selector : vr_sel_upper vr = true -> CA KSelector KSelector.
  Proof.
    intros Hup j n H. destruct (valid_S sp pok _ _ _ H) as [m ->]. cbn in H. destruct j; try discriminate.
    exists (PJ (JStr s)). split; [|reflexivity]. cbn [clean_kind].
    rewrite (selector_ascii s H). cbn [negb]. unfold re_selector, dollar. rewrite Hup, H. reflexivity.
  Qed.
End CompLeaf.

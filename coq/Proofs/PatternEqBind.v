(* Proofs/PatternEqBind.v -- list facts behind the binding semantics of
   observation expressions: duplicate-freeness of concatenations, ordered
   pairs, sub-sequences, permutations.                                    *)
From Coq Require Import List Bool Permutation Lia Arith.
Import ListNotations.

Lemma NoDup_app_iff : forall {A} (l1 l2 : list A),
    NoDup (l1 ++ l2) <-> NoDup l1 /\ NoDup l2 /\ (forall x, In x l1 -> ~ In x l2).
Proof.
  induction l1 as [|a l1 IH]; intros l2; simpl.
  - split; [intro Hn; repeat split; [constructor | exact Hn | intros x []] | intros [_ [Hn _]]; exact Hn].
  - split.
    + intro Hn. inversion Hn as [|a' l' Hnot Hn']; subst. apply IH in Hn'. destruct Hn' as [N1 [N2 D]].
      repeat split.
      * constructor; [intro Hin; apply Hnot; apply in_or_app; left; exact Hin | exact N1].
      * exact N2.
      * intros x [<-|Hx]; [intro Hin; apply Hnot; apply in_or_app; right; exact Hin | apply D; exact Hx].
    + intros [N1 [N2 D]]. inversion N1 as [|a' l' Hnot N1']; subst. constructor.
      * intro Hin. apply in_app_or in Hin. destruct Hin as [Hin|Hin]; [apply Hnot; exact Hin | apply (D a); [left; reflexivity | exact Hin]].
      * apply IH. repeat split; [exact N1' | exact N2 | intros x Hx; apply D; right; exact Hx].
Qed.

Lemma incl_concat : forall {A} (bs' bs : list (list A)), Forall2 (@incl A) bs' bs -> incl (concat bs') (concat bs).
Proof.
  induction 1; simpl; [apply incl_refl|].
  apply incl_app; [apply incl_appl; assumption | apply incl_appr; assumption].
Qed.

Lemma NoDup_concat_sub : forall {A} (bs' bs : list (list A)),
    Forall2 (@incl A) bs' bs -> Forall (@NoDup A) bs' -> NoDup (concat bs) -> NoDup (concat bs').
Proof.
  induction 1 as [|b' b bs' bs Hi HF IH]; intros Hn Hc; simpl; [constructor|].
  inversion Hn; subst. simpl in Hc. apply NoDup_app_iff in Hc. destruct Hc as [_ [Nc D]].
  apply NoDup_app_iff. repeat split; [assumption | apply IH; assumption|].
  intros x Hx Hx'. apply (D x); [apply Hi; exact Hx | apply (incl_concat _ _ HF); exact Hx'].
Qed.

Lemma Permutation_concat : forall {A} (bs bs' : list (list A)), Permutation bs bs' -> Permutation (concat bs) (concat bs').
Proof.
  induction 1; simpl.
  - constructor.
  - apply Permutation_app_head. assumption.
  - rewrite !app_assoc. apply Permutation_app_tail. apply Permutation_app_comm.
  - eapply perm_trans; eassumption.
Qed.

Lemma Forall2_perm_l : forall {A B} (R : A -> B -> Prop) l1 l2,
    Forall2 R l1 l2 -> forall l1', Permutation l1 l1' -> exists l2', Permutation l2 l2' /\ Forall2 R l1' l2'.
Proof.
  intros A B R l1 l2 HF l1' HP. revert l2 HF.
  induction HP; intros l2 HF.
  - inversion HF; subst. exists []. split; constructor.
  - inversion HF as [|a1 b1 la lb R1 HF1]; subst. destruct (IHHP _ HF1) as [l2' [P2 F2]].
    exists (b1 :: l2'). split; [constructor; exact P2 | constructor; assumption].
  - inversion HF as [|a1 b1 la lb R1 HF1]; subst. inversion HF1 as [|a2 b2 la' lb' R2 HF2]; subst.
    exists (b2 :: b1 :: lb'). split; [apply perm_swap | repeat constructor; assumption].
  - destruct (IHHP1 _ HF) as [la [Pa Fa]]. destruct (IHHP2 _ Fa) as [lb [Pb Fb]].
    exists lb. split; [eapply perm_trans; eassumption | exact Fb].
Qed.

Lemma F2_In_l : forall {A B} (R : A -> B -> Prop) l1 l2 a, Forall2 R l1 l2 -> In a l1 -> exists b, In b l2 /\ R a b.
Proof.
  induction 1; intros Hin; [destruct Hin|]. destruct Hin as [->|Hin].
  - exists y. split; [left; reflexivity | assumption].
  - destruct (IHForall2 Hin) as [b [Hb Rb]]. exists b. split; [right; exact Hb | exact Rb].
Qed.

Lemma F2_In_r : forall {A B} (R : A -> B -> Prop) l1 l2 b, Forall2 R l1 l2 -> In b l2 -> exists a, In a l1 /\ R a b.
Proof.
  induction 1; intros Hin; [destruct Hin|]. destruct Hin as [->|Hin].
  - exists x. split; [left; reflexivity | assumption].
  - destruct (IHForall2 Hin) as [a [Ha Ra]]. exists a. split; [right; exact Ha | exact Ra].
Qed.

Lemma F2_length : forall {A B} (R : A -> B -> Prop) l1 l2, Forall2 R l1 l2 -> List.length l1 = List.length l2.
Proof. induction 1; simpl; congruence. Qed.

(* ---- ordered pairs ---- *)

Lemma FOP_app : forall {A} (R : A -> A -> Prop) l1 l2,
    ForallOrdPairs R (l1 ++ l2) <->
    ForallOrdPairs R l1 /\ ForallOrdPairs R l2 /\ (forall x y, In x l1 -> In y l2 -> R x y).
Proof.
  induction l1 as [|a l1 IH]; intros l2; simpl.
  - split; [intro Hf; repeat split; [constructor | exact Hf | intros x y []] | intros [_ [Hf _]]; exact Hf].
  - split.
    + intro Hf. inversion Hf as [|a' l' Ha Hf']; subst. apply IH in Hf'. destruct Hf' as [F1 [F2 C]].
      rewrite Forall_forall in Ha. repeat split.
      * constructor; [apply Forall_forall; intros y Hy; apply Ha; apply in_or_app; left; exact Hy | exact F1].
      * exact F2.
      * intros x y [<-|Hx] Hy; [apply Ha; apply in_or_app; right; exact Hy | apply C; assumption].
    + intros [F1 [F2 C]]. inversion F1 as [|a' l' Ha F1']; subst. rewrite Forall_forall in Ha. constructor.
      * apply Forall_forall. intros y Hy. apply in_app_or in Hy. destruct Hy as [Hy|Hy]; [apply Ha; exact Hy | apply C; [left; reflexivity | exact Hy]].
      * apply IH. repeat split; [exact F1' | exact F2 | intros x y Hx Hy; apply C; [right; exact Hx | exact Hy]].
Qed.

Lemma FOP_Forall2 : forall {A} (R : A -> A -> Prop) (S : A -> A -> Prop) l' l,
    (forall x' x y' y, S x' x -> S y' y -> R x y -> R x' y') ->
    Forall2 S l' l -> ForallOrdPairs R l -> ForallOrdPairs R l'.
Proof.
  intros A R S l' l Hm HF. induction HF as [|x' x l' l Sx HF IH]; intro Hf; [constructor|].
  inversion Hf as [|x0 l0 Hx Hf']; subst. constructor; [|apply IH; exact Hf'].
  rewrite Forall_forall in Hx. apply Forall_forall. intros y' Hy'.
  destruct (F2_In_l _ _ _ _ HF Hy') as [y [Hy Sy]]. apply (Hm x' x y' y Sx Sy). apply Hx; exact Hy.
Qed.

(* ---- sub-sequences ---- *)

Inductive sublist {A} : list A -> list A -> Prop :=
| sl_nil : sublist [] []
| sl_skip : forall x l' l, sublist l' l -> sublist l' (x :: l)
| sl_take : forall x l' l, sublist l' l -> sublist (x :: l') (x :: l).

Lemma sublist_nil_l : forall {A} (l : list A), sublist [] l.
Proof. induction l; constructor; assumption. Qed.

Lemma sublist_app_skip : forall {A} (pre l' l : list A), sublist l' l -> sublist l' (pre ++ l).
Proof. induction pre; simpl; intros; [assumption | constructor; auto]. Qed.

Lemma sublist_incl : forall {A} (l' l : list A), sublist l' l -> incl l' l.
Proof.
  induction 1; [apply incl_refl | apply incl_tl; assumption|].
  apply incl_cons; [left; reflexivity | apply incl_tl; assumption].
Qed.

Lemma sublist_concat_incl : forall {A} (bs' bs : list (list A)), sublist bs' bs -> incl (concat bs') (concat bs).
Proof.
  induction 1; simpl; [apply incl_refl | apply incl_appr; assumption|].
  apply incl_app; [apply incl_appl; apply incl_refl | apply incl_appr; assumption].
Qed.

Lemma sublist_concat_NoDup : forall {A} (bs' bs : list (list A)), sublist bs' bs -> NoDup (concat bs) -> NoDup (concat bs').
Proof.
  induction 1; simpl; intro Hn; [exact Hn | |].
  - apply NoDup_app_iff in Hn. destruct Hn as [_ [Hn _]]. apply IHsublist; exact Hn.
  - apply NoDup_app_iff in Hn. destruct Hn as [N1 [N2 D]]. apply NoDup_app_iff.
    repeat split; [exact N1 | apply IHsublist; exact N2|].
    intros y Hy Hy'. apply (D y Hy). apply (sublist_concat_incl _ _ H). exact Hy'.
Qed.

Lemma sublist_FOP : forall {A} (R : A -> A -> Prop) (l' l : list A), sublist l' l -> ForallOrdPairs R l -> ForallOrdPairs R l'.
Proof.
  induction 1; intro Hf; [exact Hf | |].
  - inversion Hf; subst. apply IHsublist; assumption.
  - inversion Hf as [|x0 l0 Hx Hf']; subst. constructor; [|apply IHsublist; exact Hf'].
    rewrite Forall_forall in Hx. apply Forall_forall. intros y Hy. apply Hx. apply (sublist_incl _ _ H). exact Hy.
Qed.

Lemma incl_concat_elem : forall {A} (b : list A) bs, In b bs -> incl b (concat bs).
Proof. intros A b bs Hb x Hx. apply in_concat. exists b. auto. Qed.

Lemma NoDup_remove_mid : forall {A} (a m c : list A),
    NoDup (a ++ m ++ c) -> NoDup (a ++ c) /\ NoDup m /\ (forall x, In x m -> ~ In x (a ++ c)).
Proof.
  intros A a m c Hn. apply NoDup_app_iff in Hn. destruct Hn as [Na [Nmc D]].
  apply NoDup_app_iff in Nmc. destruct Nmc as [Nm [Nc Dm]].
  repeat split.
  - apply NoDup_app_iff. repeat split; [exact Na | exact Nc|].
    intros x Hx Hx'. apply (D x Hx). apply in_or_app. right. exact Hx'.
  - exact Nm.
  - intros x Hx Hin. apply in_app_or in Hin. destruct Hin as [Hin|Hin].
    + apply (D x Hin). apply in_or_app. left. exact Hx.
    + apply (Dm x Hx Hin).
Qed.

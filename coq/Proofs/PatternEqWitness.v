(* Proofs/PatternEqWitness.v -- concrete witnesses: the defective variants of
   the special-value pass violate the property (crash on a valid pattern,
   unsound answer), the repaired variant does not crash there; the
   hypotheses of the soundness theorems are satisfiable.                   *)
From Coq Require Import NArith ZArith QArith List Bool String.
From V Require Import Base.UString Model.PatternEq Spec.PatternSemantics Proofs.PatternEqCmp Proofs.PatternEqLists
     Proofs.PatternEqC Proofs.PatternEqDnf Proofs.PatternEqNorm Proofs.PatternEqO.
Import ListNotations.
Open Scope Z_scope.

Definition pinned : variant := mkVariant Unguarded LowerRegex.

Definition atom1 (t : string) (p : list step) (o : cop) (k : const) : oexpr0 :=
  Obs0 (Atom0 (mkAtom (u t) p o false k)).

(* [ipv4-addr:value = 5] *)
Definition w_ip_int : oexpr0 := atom1 "ipv4-addr" [SKey (u "value")] OpEq (KP (PInt 5)).
(* [windows-registry-key:key = b'QUJD'] and ... b'qujd' *)
Definition w_bin_upper : oexpr0 := atom1 "windows-registry-key" [SKey (u "key")] OpEq (KP (PBin (u "QUJD"))).
Definition w_bin_lower : oexpr0 := atom1 "windows-registry-key" [SKey (u "key")] OpEq (KP (PBin (u "qujd"))).
(* [windows-registry-key:key MATCHES '\\D'] and ... '\\d' (the constant holds the raw text between the quotes) *)
Definition w_re_upper : oexpr0 := atom1 "windows-registry-key" [SKey (u "key")] OpMatches (KP (PStr (u "\\D"))).
Definition w_re_lower : oexpr0 := atom1 "windows-registry-key" [SKey (u "key")] OpMatches (KP (PStr (u "\\d"))).

(* [ipv4-addr:value MATCHES '10.0.0.1/8'] and ... '10.0.0.0/8' *)
Definition w_ipre_a : oexpr0 := atom1 "ipv4-addr" [SKey (u "value")] OpMatches (KP (PStr (u "10.0.0.1/8"))).
Definition w_ipre_b : oexpr0 := atom1 "ipv4-addr" [SKey (u "value")] OpMatches (KP (PStr (u "10.0.0.0/8"))).

Lemma pinned_ipregex_equiv : equiv pinned 8 w_ipre_a w_ipre_b = Ok true.
Proof. vm_compute. reflexivity. Qed.

Lemma repaired_ipregex_distinct : equiv repaired 8 w_ipre_a w_ipre_b = Ok false.
Proof. vm_compute. reflexivity. Qed.

Lemma pinned_raises : equiv pinned 8 w_ip_int w_ip_int = Err EAttribute.
Proof. vm_compute. reflexivity. Qed.

Lemma repaired_answers : equiv repaired 8 w_ip_int w_ip_int = Ok true.
Proof. vm_compute. reflexivity. Qed.

Lemma pinned_bin_equiv : equiv pinned 8 w_bin_upper w_bin_lower = Ok true.
Proof. vm_compute. reflexivity. Qed.

Lemma repaired_bin_distinct : equiv repaired 8 w_bin_upper w_bin_lower = Ok false.
Proof. vm_compute. reflexivity. Qed.

Lemma pinned_regex_equiv : equiv pinned 8 w_re_upper w_re_lower = Ok true.
Proof. vm_compute. reflexivity. Qed.

Lemma repaired_regex_distinct : equiv repaired 8 w_re_upper w_re_lower = Ok false.
Proof. vm_compute. reflexivity. Qed.

(* an interpretation that tells the two constants apart: the atom holds iff its constant is exactly d0 *)
Fixpoint list_N_eqb (a b : list N) : bool :=
  match a, b with
  | [], [] => true
  | x :: a', y :: b' => (x =? y)%N && list_N_eqb a' b'
  | _, _ => false
  end.

Definition H_bin (bytes : list N) : ustring -> list step -> cop -> bool -> dconst -> unit -> bool :=
  fun _ _ _ _ d _ => match d with DP (DBin bs) => list_N_eqb bs bytes | _ => false end.

Definition H_str (s0 : ustring) : ustring -> list step -> cop -> bool -> dconst -> unit -> bool :=
  fun t p o _ d _ =>
    match special_kind t p with
    | SpIp true => false
    | _ => match d with DP (DStr s) => list_N_eqb s s0 | _ => false end
    end.

Lemma H_bin_respects : forall bytes, respects_denotation unit (H_bin bytes).
Proof.
  intros bytes t p o n d d' x E. unfold H_bin.
  destruct d as [[]|], d' as [[]|]; simpl in E; try contradiction; try discriminate E; try reflexivity.
  inversion E. reflexivity.
Qed.

Lemma H_bin_cidr : forall bytes, respects_cidr6 unit (H_bin bytes).
Proof. intros bytes t p o n s s' x _ _ _. reflexivity. Qed.

Lemma H_str_respects : forall s0, respects_denotation unit (H_str s0).
Proof.
  intros s0 t p o n d d' x E. unfold H_str. destruct (special_kind t p); try reflexivity;
  destruct d as [[]|], d' as [[]|]; simpl in E; try contradiction; try discriminate E; try reflexivity;
  inversion E; reflexivity.
Qed.

Lemma H_str_cidr : forall s0, respects_cidr6 unit (H_str s0).
Proof. intros s0 t p o n s s' x Ek _ _. unfold H_str. rewrite Ek. reflexivity. Qed.

Definition one_key_object : list (observation unit) := [(0, [tt])].
Definition regkey_type : unit -> ustring := fun _ => u "windows-registry-key".
Definition ip4_type : unit -> ustring := fun _ => u "ipv4-addr".

(* the binary constants are NOT equivalent: one observation matches the first pattern only *)
Lemma bin_patterns_differ :
  matches0 unit regkey_type (H_bin [65; 66; 67]%N) one_key_object w_bin_upper /\
  ~ matches0 unit regkey_type (H_bin [65; 66; 67]%N) one_key_object w_bin_lower.
Proof.
  split.
  - exists [0%nat]. simpl. exists 0%nat, 0, [tt]. repeat split.
  - intros [b Hb]. simpl in Hb. destruct Hb as [i [t [xs [_ [Hn Hx]]]]].
    destruct i as [|[|i]]; simpl in Hn; try discriminate. inversion Hn; subst. vm_compute in Hx. discriminate.
Qed.

Lemma regex_patterns_differ :
  matches0 unit regkey_type (H_str (u "\\D")) one_key_object w_re_upper /\
  ~ matches0 unit regkey_type (H_str (u "\\D")) one_key_object w_re_lower.
Proof.
  split.
  - exists [0%nat]. simpl. exists 0%nat, 0, [tt]. repeat split.
  - intros [b Hb]. simpl in Hb. destruct Hb as [i [t [xs [_ [Hn Hx]]]]].
    destruct i as [|[|i]]; simpl in Hn; try discriminate. inversion Hn; subst. vm_compute in Hx. discriminate.
Qed.

Lemma ipregex_patterns_differ :
  matches0 unit ip4_type (H_str (u "10.0.0.1/8")) one_key_object w_ipre_a /\
  ~ matches0 unit ip4_type (H_str (u "10.0.0.1/8")) one_key_object w_ipre_b.
Proof.
  split.
  - exists [0%nat]. simpl. exists 0%nat, 0, [tt]. repeat split.
  - intros [b Hb]. simpl in Hb. destruct Hb as [i [t [xs [_ [Hn Hx]]]]].
    destruct i as [|[|i]]; simpl in Hn; try discriminate. inversion Hn; subst. vm_compute in Hx. discriminate.
Qed.

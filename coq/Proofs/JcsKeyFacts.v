(* Proofs/JcsKeyFacts.v -- the sort key of Model/Jcs.v (kv[0].encode('utf-16_be'),
   compared as bytes) against the UTF-16 code unit order of RFC 8785 3.2.3:
   the key exists exactly for strings of Unicode scalar values, its byte order is
   the code unit order, and it is injective.                                     *)
From Coq Require Import String NArith ZArith List Bool Lia.
From V Require Import Base.UString Base.Json Model.JcsText Model.Jcs Spec.Rfc8785.
Import ListNotations.
Open Scope N_scope.

(* division facts are supplied explicitly; lia treats the quotients as atoms *)
Lemma dm : forall a b, b <> 0 -> a = b * (a / b) + a mod b /\ a mod b < b.
Proof. intros a b Hb. split; [apply N.div_mod; exact Hb|apply N.mod_lt; exact Hb]. Qed.
Lemma dmx : forall a b, b <> 0 -> exists q r, a / b = q /\ a mod b = r /\ a = b * q + r /\ r < b.
Proof. intros a b Hb. exists (a / b), (a mod b). destruct (dm a b Hb). auto. Qed.
Ltac dmr x b :=
  let q := fresh "q" in let r := fresh "r" in let Hq := fresh "Hq" in let Hr := fresh "Hr" in
  destruct (dmx x b ltac:(discriminate)) as [q [r [Hq [Hr [? ?]]]]];
  rewrite ?Hq, ?Hr in *; clear Hq Hr.
Ltac dm256 x := dmr x 256.
Ltac dm1024 x := dmr x 1024.

Lemma shiftr10 : forall a, N.shiftr a 10 = a / 1024.
Proof. intro a. rewrite N.shiftr_div_pow2. reflexivity. Qed.

Lemma land1023 : forall a, N.land a 1023 = a mod 1024.
Proof. intro a. change 1023 with (N.ones 10). rewrite N.land_ones. reflexivity. Qed.

Lemma scalar_dec : forall c, scalar c \/ ~ scalar c.
Proof. intro c. unfold scalar. lia. Qed.

Lemma utf16_cp_scalar : forall c, scalar c -> utf16_cp c = Some (utf16_scalar c).
Proof.
  intros c H. unfold utf16_cp, utf16_scalar, scalar in *.
  rewrite shiftr10, land1023.
  destruct (N.ltb_spec c 55296).
  - destruct (N.ltb_spec c 65536); [reflexivity|lia].
  - destruct (N.ltb_spec c 57344); [lia|].
    destruct (N.ltb_spec c 65536); [reflexivity|].
    destruct (N.ltb_spec c 1114112); [reflexivity|lia].
Qed.

Lemma utf16_cp_nonscalar : forall c, ~ scalar c -> utf16_cp c = None.
Proof.
  intros c H. unfold utf16_cp, scalar in *.
  destruct (N.ltb_spec c 55296); [lia|].
  destruct (N.ltb_spec c 57344); [reflexivity|].
  destruct (N.ltb_spec c 65536); [lia|].
  destruct (N.ltb_spec c 1114112); [lia|reflexivity].
Qed.

Lemma utf16_units_scalar : forall s, Forall scalar s -> utf16_units s = Some (utf16 s).
Proof.
  induction 1 as [|c s Hc Hs IH]; [reflexivity|].
  simpl. rewrite (utf16_cp_scalar c Hc), IH. reflexivity.
Qed.

Lemma utf16_units_some : forall s us, utf16_units s = Some us -> Forall scalar s /\ us = utf16 s.
Proof.
  induction s as [|c s IH]; simpl; intros us H.
  - inversion H. split; constructor.
  - destruct (scalar_dec c) as [Hc|Hc].
    + rewrite (utf16_cp_scalar c Hc) in H. destruct (utf16_units s) as [b|] eqn:E; [|discriminate].
      inversion H; subst. destruct (IH b eq_refl) as [H1 H2]. subst b. split; [constructor; auto|reflexivity].
    + rewrite (utf16_cp_nonscalar c Hc) in H. discriminate.
Qed.

Lemma utf16_units_none : forall s, utf16_units s = None <-> ~ Forall scalar s.
Proof.
  intro s. split.
  - intros H F. rewrite (utf16_units_scalar s F) in H. discriminate.
  - intro H. destruct (utf16_units s) eqn:E; [|reflexivity].
    apply utf16_units_some in E. destruct E. contradiction.
Qed.

(* ---- code units are 16-bit ----------------------------------------------------- *)
Definition unit16 (x : N) : Prop := x < 65536.

Lemma utf16_scalar_unit16 : forall c, scalar c -> Forall unit16 (utf16_scalar c).
Proof.
  intros c H. unfold utf16_scalar, scalar, unit16 in *. rewrite shiftr10, land1023.
  destruct (N.ltb_spec c 65536).
  - constructor; [exact H0|constructor].
  - dm1024 (c - 65536). constructor; [lia|]. constructor; [lia|constructor].
Qed.

Lemma utf16_unit16 : forall s, Forall scalar s -> Forall unit16 (utf16 s).
Proof.
  induction 1 as [|c s Hc Hs IH]; simpl; [constructor|].
  apply Forall_app. split; [apply utf16_scalar_unit16; exact Hc|exact IH].
Qed.

(* ---- byte order of the big-endian encoding = unit order -------------------------- *)
Lemma be_bytes_compare : forall a b, Forall unit16 a -> Forall unit16 b ->
  ustr_compare (be_bytes a) (be_bytes b) = ustr_compare a b.
Proof.
  induction a as [|x a IH]; destruct b as [|y b]; intros Ha Hb; try reflexivity.
  inversion Ha; subst. inversion Hb; subst. unfold unit16 in *.
  change (be_bytes (x :: a)) with (x / 256 :: x mod 256 :: be_bytes a).
  change (be_bytes (y :: b)) with (y / 256 :: y mod 256 :: be_bytes b).
  cbn [ustr_compare]. dm256 x. dm256 y.
  destruct (N.compare_spec q q0) as [E|E|E].
  - destruct (N.compare_spec r r0) as [F|F|F].
    + assert (Hxy : x = y) by lia. rewrite Hxy. rewrite N.compare_refl. apply IH; assumption.
    + assert (Hlt : x < y) by lia. apply N.compare_lt_iff in Hlt. rewrite Hlt. reflexivity.
    + assert (Hgt : y < x) by lia. apply N.compare_gt_iff in Hgt. rewrite Hgt. reflexivity.
  - assert (Hlt : x < y) by lia. apply N.compare_lt_iff in Hlt. rewrite Hlt. reflexivity.
  - assert (Hgt : y < x) by lia. apply N.compare_gt_iff in Hgt. rewrite Hgt. reflexivity.
Qed.

Lemma be_bytes_inj : forall a b, be_bytes a = be_bytes b -> a = b.
Proof.
  induction a as [|x a IH]; destruct b as [|y b]; intro H; try reflexivity; try discriminate.
  change (be_bytes (x :: a)) with (x / 256 :: x mod 256 :: be_bytes a) in H.
  change (be_bytes (y :: b)) with (y / 256 :: y mod 256 :: be_bytes b) in H.
  inversion H. dm256 x. dm256 y. f_equal; [lia|apply IH; assumption].
Qed.

(* ---- UTF-16 is injective on scalar values ---------------------------------------- *)
Lemma utf16_scalar_cases : forall c, scalar c ->
  (utf16_scalar c = [c] /\ (c < 55296 \/ (57344 <= c /\ c < 65536))) \/
  (exists h l q r, utf16_scalar c = [h; l] /\ h = 55296 + q /\ l = 56320 + r /\
                   c = 65536 + (1024 * q + r) /\ r < 1024 /\ q < 1024).
Proof.
  intros c H. unfold utf16_scalar, scalar in *. rewrite shiftr10, land1023.
  destruct (N.ltb_spec c 65536) as [L|L].
  - left. split; [reflexivity|lia].
  - right. destruct (dmx (c - 65536) 1024 ltac:(discriminate)) as [q [r [Hq [Hr [E R]]]]].
    rewrite Hq, Hr. exists (55296 + q), (56320 + r), q, r. split; [reflexivity|]. split; [reflexivity|].
    split; [reflexivity|]. split; [lia|]. split; [exact R|lia].
Qed.

Lemma utf16_inj : forall s1 s2, Forall scalar s1 -> Forall scalar s2 -> utf16 s1 = utf16 s2 -> s1 = s2.
Proof.
  induction s1 as [|c1 s1 IH]; intros s2 H1 H2 E.
  - destruct s2 as [|c2 s2]; [reflexivity|]. inversion H2; subst.
    change (utf16 (c2 :: s2)) with (utf16_scalar c2 ++ utf16 s2) in E.
    destruct (utf16_scalar_cases c2 H3) as [[U _]|[h [l [q [r [U _]]]]]]; rewrite U in E; discriminate.
  - inversion H1; subst. destruct s2 as [|c2 s2].
    + change (utf16 (c1 :: s1)) with (utf16_scalar c1 ++ utf16 s1) in E.
      destruct (utf16_scalar_cases c1 H3) as [[U _]|[h [l [q [r [U _]]]]]]; rewrite U in E; discriminate.
    + inversion H2; subst.
      change (utf16 (c1 :: s1)) with (utf16_scalar c1 ++ utf16 s1) in E.
      change (utf16 (c2 :: s2)) with (utf16_scalar c2 ++ utf16 s2) in E.
      destruct (utf16_scalar_cases c1 H3) as [[U1 R1]|[h1 [l1 [q1 [r1 [U1 [Eh1 [El1 [E1 [R1 Q1]]]]]]]]]];
      destruct (utf16_scalar_cases c2 H5) as [[U2 R2]|[h2 [l2 [q2 [r2 [U2 [Eh2 [El2 [E2 [R2 Q2]]]]]]]]]];
      rewrite U1, U2 in E; unfold app in E; inversion E.
      * f_equal. apply IH; assumption.
      * exfalso. lia.
      * exfalso. lia.
      * assert (Hc : c1 = c2) by lia. rewrite Hc. f_equal. apply IH; assumption.
Qed.

(* ---- the sort key ------------------------------------------------------------------ *)
Lemma sort_key_some : forall k b, sort_key k = Some b -> Forall scalar k /\ b = be_bytes (utf16 k).
Proof.
  intros k b H. unfold sort_key in H. destruct (utf16_units k) as [us|] eqn:E; [|discriminate].
  apply utf16_units_some in E. destruct E as [E1 E2]. subst us. inversion H. auto.
Qed.

Lemma sort_key_scalar : forall k, Forall scalar k -> sort_key k = Some (be_bytes (utf16 k)).
Proof. intros k H. unfold sort_key. rewrite (utf16_units_scalar k H). reflexivity. Qed.

Lemma sort_key_inj : forall k1 k2 b, sort_key k1 = Some b -> sort_key k2 = Some b -> k1 = k2.
Proof.
  intros k1 k2 b H1 H2. apply sort_key_some in H1. apply sort_key_some in H2.
  destruct H1 as [S1 E1]. destruct H2 as [S2 E2]. subst b.
  apply be_bytes_inj in E2. apply utf16_inj; auto.
Qed.

Lemma sort_key_compare : forall k1 k2 b1 b2, sort_key k1 = Some b1 -> sort_key k2 = Some b2 ->
  ustr_compare b1 b2 = ustr_compare (utf16 k1) (utf16 k2).
Proof.
  intros k1 k2 b1 b2 H1 H2. apply sort_key_some in H1. apply sort_key_some in H2.
  destruct H1 as [S1 E1]. destruct H2 as [S2 E2]. subst.
  apply be_bytes_compare; apply utf16_unit16; assumption.
Qed.

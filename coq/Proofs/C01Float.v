(* Proofs/C01Float.v -- FloatProperty.clean is idempotent on its own output:
   an int / bool input is stored as the float text "<digits>.0"; reading that text
   back (dec_of_repr) gives the same number, so the same bounds verdict.        *)
From Coq Require Import NArith ZArith List String Ascii Bool Lia.
From V Require Import Base.UString Base.Json Model.SchemaTypes Model.PyBase Model.Schema.
From V Require Import Proofs.C01Basics.
Import ListNotations.
Open Scope Z_scope.

(* most significant digit first *)
Fixpoint sdigits (ds : list Z) (acc : string) : string :=
  match ds with
  | [] => acc
  | d :: r => String (ascii_of_nat (48 + Z.to_nat d)) (sdigits r acc)
  end.
Definition dvalue (ds : list Z) : Z := fold_left (fun a d => a * 10 + d) ds 0.
Definition isdig (d : Z) : Prop := 0 <= d <= 9.

Lemma sdigits_app : forall a b acc, sdigits (a ++ b) acc = sdigits a (sdigits b acc).
Proof. induction a; intros; cbn [app sdigits]; congruence. Qed.

Lemma fold_left_digits_app : forall a b x,
  fold_left (fun a d => a * 10 + d) (a ++ b) x = fold_left (fun a d => a * 10 + d) b (fold_left (fun a d => a * 10 + d) a x).
Proof. intros. apply fold_left_app. Qed.

Lemma show_pos_digits_spec : forall f n acc, 0 <= n < 10 ^ Z.of_nat f -> (1 <= f)%nat ->
  exists ds, show_pos_digits f n acc = sdigits ds acc /\ Forall isdig ds /\ ds <> [] /\ dvalue ds = n.
Proof.
  induction f as [| f IH]; intros n acc Hn Hf; [lia |].
  cbn [show_pos_digits].
  assert (Hd : 0 <= n mod 10 < 10) by (apply Z.mod_pos_bound; lia).
  destruct (n / 10 =? 0) eqn:E.
  - apply Z.eqb_eq in E. exists [n mod 10]. cbn [sdigits]. repeat split.
    + constructor; [unfold isdig; lia | constructor].
    + discriminate.
    + unfold dvalue. cbn [fold_left]. pose proof (Z.div_mod n 10). lia.
  - apply Z.eqb_neq in E.
    assert (Hq : 0 <= n / 10 < 10 ^ Z.of_nat f).
    { split; [apply Z.div_pos; lia |].
      apply Z.div_lt_upper_bound; [lia |].
      replace (Z.of_nat (S f)) with (Z.of_nat f + 1) in Hn by lia. rewrite Z.pow_add_r in Hn by lia. lia. }
    assert (Hf' : (1 <= f)%nat).
    { destruct f; [| lia]. cbn in Hq. assert (n / 10 = 0) by lia. contradiction. }
    destruct (IH (n / 10) (String (ascii_of_nat (48 + Z.to_nat (n mod 10))) acc) Hq Hf') as [ds [E1 [E2 [E3 E4]]]].
    exists (ds ++ [n mod 10]). rewrite sdigits_app. cbn [sdigits]. repeat split; auto.
    + apply Forall_app. split; auto. constructor; [unfold isdig; lia | constructor].
    + destruct ds; discriminate.
    + unfold dvalue in *. rewrite fold_left_digits_app. rewrite E4. cbn [fold_left]. pose proof (Z.div_mod n 10). lia.
Qed.

Lemma u_digit : forall d rest, isdig d -> u (String (ascii_of_nat (48 + Z.to_nat d)) rest) = Z.to_N (48 + d) :: u rest.
Proof.
  intros d rest H. unfold isdig in H.
  assert (C : d = 0 \/ d = 1 \/ d = 2 \/ d = 3 \/ d = 4 \/ d = 5 \/ d = 6 \/ d = 7 \/ d = 8 \/ d = 9) by lia.
  destruct C as [C|[C|[C|[C|[C|[C|[C|[C|[C|C]]]]]]]]]; subst d; reflexivity.
Qed.

Lemma u_sdigits : forall ds acc, Forall isdig ds -> u (sdigits ds acc) = map (fun d => Z.to_N (48 + d)) ds ++ u acc.
Proof.
  induction ds as [| d r IH]; intros acc F; cbn [sdigits map app]; auto.
  inversion F; subst. rewrite u_digit by assumption. rewrite IH by assumption. reflexivity.
Qed.

Definition dcodes (ds : list Z) : ustring := map (fun d => Z.to_N (48 + d)) ds.

Lemma is_digit_code : forall d, isdig d -> is_digit (Z.to_N (48 + d)) = true.
Proof.
  intros d H. unfold isdig in H.
  assert (C : d = 0 \/ d = 1 \/ d = 2 \/ d = 3 \/ d = 4 \/ d = 5 \/ d = 6 \/ d = 7 \/ d = 8 \/ d = 9) by lia.
  destruct C as [C|[C|[C|[C|[C|[C|[C|[C|[C|C]]]]]]]]]; subst d; reflexivity.
Qed.

Lemma hexdigit_val_code : forall d, isdig d -> Z.of_N (hexdigit_val (Z.to_N (48 + d))) = d.
Proof.
  intros d H. unfold isdig in H.
  assert (C : d = 0 \/ d = 1 \/ d = 2 \/ d = 3 \/ d = 4 \/ d = 5 \/ d = 6 \/ d = 7 \/ d = 8 \/ d = 9) by lia.
  destruct C as [C|[C|[C|[C|[C|[C|[C|[C|[C|C]]]]]]]]]; subst d; reflexivity.
Qed.

Lemma span_digits : forall ds rest, Forall isdig ds ->
  (match rest with c :: _ => is_digit c = false | [] => True end) ->
  span is_digit (dcodes ds ++ rest) = (dcodes ds, rest).
Proof.
  induction ds as [| d r IH]; intros rest F Hr; cbn [dcodes map app span].
  - destruct rest as [| c rest']; cbn [span]; auto. rewrite Hr. reflexivity.
  - inversion F; subst. rewrite is_digit_code by assumption.
    change (map (fun d0 : Z => Z.to_N (48 + d0)) r) with (dcodes r). rewrite IH by assumption. reflexivity.
Qed.

Lemma digits_val_codes : forall ds acc, Forall isdig ds ->
  digits_val 10 (dcodes ds) acc = fold_left (fun a d => a * 10 + d) ds acc.
Proof.
  induction ds as [| d r IH]; intros acc F; cbn [dcodes map digits_val fold_left]; auto.
  inversion F; subst. rewrite hexdigit_val_code by assumption.
  change (map (fun d0 : Z => Z.to_N (48 + d0)) r) with (dcodes r). apply IH. assumption.
Qed.

Lemma fold_digits_shift : forall ds acc, fold_left (fun a d => a * 10 + d) ds acc = acc * 10 ^ Z.of_nat (List.length ds) + dvalue ds.
Proof.
  unfold dvalue. induction ds as [| d r IH]; intros acc; cbn [fold_left List.length].
  - cbn. lia.
  - rewrite IH. rewrite (IH (0 * 10 + d)). replace (Z.of_nat (S (List.length r))) with (Z.of_nat (List.length r) + 1) by lia.
    rewrite Z.pow_add_r by lia. lia.
Qed.

Lemma dcodes_head_not_minus : forall ds rest, Forall isdig ds -> ds <> [] ->
  match dcodes ds ++ rest with 45%N :: r => (true, r) | _ => (false, dcodes ds ++ rest) end = (false, dcodes ds ++ rest).
Proof.
  intros ds rest F Hne. destruct ds as [| d r]; [contradiction |]. inversion F; subst. cbn [dcodes map app].
  unfold isdig in H1.
  assert (C : d = 0 \/ d = 1 \/ d = 2 \/ d = 3 \/ d = 4 \/ d = 5 \/ d = 6 \/ d = 7 \/ d = 8 \/ d = 9) by lia.
  destruct C as [C|[C|[C|[C|[C|[C|[C|[C|[C|C]]]]]]]]]; subst d; reflexivity.
Qed.

Lemma dec_of_repr_codes : forall ds (neg : bool), Forall isdig ds -> ds <> [] ->
  dec_of_repr ((if neg then [45%N] else []) ++ dcodes ds ++ u ".0") =
  Some (if neg then - (dvalue ds * 10) else dvalue ds * 10, -1).
Proof.
  intros ds neg F Hne. unfold dec_of_repr.
  assert (Hs : span is_digit (dcodes ds ++ u ".0") = (dcodes ds, u ".0")).
  { apply span_digits; auto. reflexivity. }
  assert (Hnz : dcodes ds <> []). { destruct ds; [contradiction | discriminate]. }
  assert (Hv : digits_val 10 (dcodes ds ++ [48%N]) 0 = dvalue ds * 10).
  { change [48%N] with (dcodes [0]). unfold dcodes. rewrite <- map_app. fold (dcodes (ds ++ [0])).
    rewrite digits_val_codes by (apply Forall_app; split; auto; constructor; [unfold isdig; lia | constructor]).
    rewrite fold_left_digits_app. cbn [fold_left]. unfold dvalue. lia. }
  destruct neg; cbn [app].
  - rewrite Hs. destruct (dcodes ds) as [| c0 cs] eqn:Ed; [contradiction |].
    change (u ".0") with [46%N; 48%N]. cbn [span].
    replace (is_digit 48) with true by reflexivity. cbv iota. cbn [List.length].
    rewrite Hv. reflexivity.
  - rewrite dcodes_head_not_minus by assumption. rewrite Hs. destruct (dcodes ds) as [| c0 cs] eqn:Ed; [contradiction |].
    change (u ".0") with [46%N; 48%N]. cbn [span].
    replace (is_digit 48) with true by reflexivity. cbv iota. cbn [List.length].
    rewrite Hv. reflexivity.
Qed.

Lemma show_pos_codes : forall f n, (17 <= f)%nat -> 0 <= n < 10 ^ 16 ->
  exists ds, u (show_pos_digits f n EmptyString) = dcodes ds /\ Forall isdig ds /\ ds <> [] /\ dvalue ds = n.
Proof.
  intros f n Hf Hn. destruct (show_pos_digits_spec f n EmptyString) as [ds [E1 [E2 [E3 E4]]]].
  - split; [lia |]. eapply Z.lt_le_trans; [apply Hn |]. apply Z.pow_le_mono_r; lia.
  - lia.
  - exists ds. rewrite E1. rewrite u_sdigits by assumption. cbn [u app]. rewrite app_nil_r. auto.
Qed.

Lemma u_minus : forall s, u (String "-" s) = 45%N :: u s.
Proof. intros s. reflexivity. Qed.

Lemma fuel_4000 : (17 <= 4000)%nat.
Proof. apply Nat.leb_le. vm_compute. reflexivity. Qed.

(* the float text written for an integer reads back as that integer (times ten, exponent -1) *)
Lemma dec_of_repr_int_text : forall z, Z.abs z < 10 ^ 16 ->
  dec_of_repr (ustr_of_Z z ++ u ".0") = Some (z * 10, -1).
Proof.
  intros z Hz. unfold ustr_of_Z, show_Z.
  destruct (z <? 0) eqn:Neg.
  - apply Z.ltb_lt in Neg. destruct (show_pos_codes _ (- z) fuel_4000) as [ds [E1 [E2 [E3 E4]]]]; [lia |].
    cbn [append]. rewrite u_minus. rewrite E1.
    pose proof (dec_of_repr_codes ds true E2 E3) as Hd. cbn [app] in Hd. cbn [app]. rewrite Hd. rewrite E4. f_equal. f_equal. lia.
  - apply Z.ltb_ge in Neg. destruct (show_pos_codes _ z fuel_4000) as [ds [E1 [E2 [E3 E4]]]]; [lia |].
    rewrite E1. pose proof (dec_of_repr_codes ds false E2 E3) as Hd. cbn [app] in Hd. rewrite Hd. rewrite E4. reflexivity.
Qed.

Lemma dec_cmp_int_scaled : forall z b, dec_cmp_int (z * 10, -1) b = dec_cmp_int (z, 0) b.
Proof.
  intros z b. unfold dec_cmp_int.
  change (0 <=? -1) with false. change (0 <=? 0) with true. cbv iota.
  change (- -1) with 1. rewrite Z.pow_1_r, Z.pow_0_r, Z.mul_1_r.
  destruct (Z.compare_spec z b) as [E | E | E].
  - subst. apply Z.compare_refl.
  - apply Z.compare_lt_iff. lia.
  - apply Z.compare_gt_iff. lia.
Qed.

Section Float.
  Variable vr : variant.
  Variable w : world.
  Variable rc : ustring -> bool -> bool -> list (ustring * jvalue) -> result pval.
  Variable rp : bool -> bool -> list (ustring * jvalue) -> result pval.
  Variable ro : ver -> list (ustring * ustring) -> bool -> list (ustring * jvalue) -> result pval.

  Lemma clean_float_idem : forall mn mx v p hc,
    clean_float mn mx v = Ok (p, hc) -> clean_float mn mx (encode false p) = Ok (p, hc).
  Proof.
    intros mn mx v p hc H. unfold clean_float in H.
    destruct v as [| b | z | r | s | l | m]; try discriminate.
    - (* bool *)
      destruct mn as [bn |], mx as [bx |]; destruct b; cbv zeta in H;
        (match type of H with (if ?g then _ else _) = _ => destruct g eqn:G; try discriminate end);
        injection H as Hp Hh; subst p hc; cbn [encode]; unfold clean_float;
        change (dec_of_repr [49%N; 46%N; 48%N]) with (Some (1 * 10, -1));
        change (dec_of_repr [48%N; 46%N; 48%N]) with (Some (0 * 10, -1));
        cbv beta iota; rewrite ?dec_cmp_int_scaled; rewrite G; reflexivity.
    - (* int *)
      destruct (Z.abs z <? 10 ^ 16) eqn:A; try discriminate. apply Z.ltb_lt in A.
      destruct mn as [bn |], mx as [bx |];
        (match type of H with (if ?g then _ else _) = _ => destruct g eqn:G; try discriminate end);
        injection H as Hp Hh; subst p hc; cbn [encode]; unfold clean_float;
        first [ rewrite (dec_of_repr_int_text z A)
              | (pose proof (dec_of_repr_int_text z A) as Hd; change (u ".0") with [46%N; 48%N] in Hd; rewrite Hd) ];
        cbv beta iota; rewrite ?dec_cmp_int_scaled; rewrite G; reflexivity.
    - (* float *)
      destruct (dec_of_repr r) as [me |] eqn:D; try discriminate.
      match type of H with (if ?g then _ else _) = _ => destruct g eqn:G; try discriminate end.
      injection H as Hp Hh; subst p hc. cbn [encode]. unfold clean_float. rewrite D, G. reflexivity.
  Qed.
End Float.

(* Proofs/C04Witness.v -- the two places where the pinned code violates C04, as
   kernel-evaluated runs of the model over the GENERATED class tables (Gen/Tables.v):
     - parse() under allow_custom=False of data with a top-level custom_properties member
       returns a flagged object (variant vr_parse_guard_custom = false);
     - with allow_custom=True a reference whose generic whitelist was inverted admits a
       registered type outside the category with flag false, and the strict parse of the
       serialization is refused (variant vr_ref_flip_unreg = false).
   The same inputs under the repaired variant behave as the property demands.   *)
From Coq Require Import NArith ZArith List String Bool.
From V Require Import Base.UString Base.Json Model.SchemaTypes Model.PyBase Model.Schema Model.Serialize Model.SchemaReparse.
From V Require Import Gen.Tables.
Import ListNotations.

Definition any_pattern (v : ver) (p : ustring) : bool := true.
Definition any_selectors (s : list (ustring * pval)) (p : pval) : result bool := Ok true.
Definition env0 : env :=
  {| e_now := 0%Z; e_uuid4 := u "ffffffff-ffff-4fff-bfff-fffffffffff4"; e_uuid5 := u "ffffffff-ffff-5fff-bfff-fffffffffff5" |}.

Definition identity_with_custom_properties : list (ustring * jvalue) :=
  [ (u "type", JStr (u "identity")); (u "spec_version", JStr (u "2.1"));
    (u "id", JStr (u "identity--311b2d2d-f010-4473-83ec-1edf84858f4c"));
    (u "created", JStr (u "2020-01-01T00:00:00.000Z")); (u "modified", JStr (u "2020-01-01T00:00:00.000Z"));
    (u "name", JStr (u "a")); (u "custom_properties", JObj [(u "x_foo", JInt 1)]) ].

Definition sighting_of_marking : list (ustring * jvalue) :=
  [ (u "type", JStr (u "sighting")); (u "spec_version", JStr (u "2.1"));
    (u "id", JStr (u "sighting--311b2d2d-f010-4473-83ec-1edf84858f4c"));
    (u "created", JStr (u "2020-01-01T00:00:00.000Z")); (u "modified", JStr (u "2020-01-01T00:00:00.000Z"));
    (u "sighting_of_ref", JStr (u "marking-definition--613f2e26-407d-48c7-9eca-b8e91df99dc9")) ].

Definition is_flagged_object (r : result pval) : bool :=
  match r with Ok (PObject _ _ _ true) => true | _ => false end.
Definition is_refused {A} (r : result A) : bool :=
  match r with Err _ => true | _ => false end.

(* pinned: the strict parse returns a flagged object *)
Lemma strict_parse_admits_loophole_pinned :
  is_flagged_object (run variant_pinned env0 lib any_pattern any_selectors 6 (RParse false false None identity_with_custom_properties)) = true.
Proof. vm_compute. reflexivity. Qed.

(* repaired: the same parse is refused *)
Lemma strict_parse_refuses_loophole_repaired :
  is_refused (run variant_repaired env0 lib any_pattern any_selectors 6 (RParse false false None identity_with_custom_properties)) = true.
Proof. vm_compute. reflexivity. Qed.

(* pinned: allow mode accepts with flag false, the strict reparse of the encoding is refused *)
Definition unflagged_but_refused (vr : variant) : bool :=
  match run vr env0 lib any_pattern any_selectors 6 (RParse true false None sighting_of_marking) with
  | Ok (PObject c i d false) => is_refused (reparse vr env0 lib any_pattern any_selectors 6 false (PObject c i d false))
  | _ => false
  end.

Lemma flag_false_but_strict_reparse_refused_pinned : unflagged_but_refused variant_pinned = true.
Proof. vm_compute. reflexivity. Qed.

(* repaired: allow mode refuses the reference itself *)
Lemma registered_type_outside_category_refused_repaired :
  is_refused (run variant_repaired env0 lib any_pattern any_selectors 6 (RParse true false None sighting_of_marking)) = true.
Proof. vm_compute. reflexivity. Qed.

(* the same facts in the form "there is an input on which the property fails".
   The runs are evaluated once by the VM and named, so that no proof term re-evaluates them lazily. *)
Definition w1_result : result pval :=
  Eval vm_compute in run variant_pinned env0 lib any_pattern any_selectors 6 (RParse false false None identity_with_custom_properties).
Lemma w1_eq : run variant_pinned env0 lib any_pattern any_selectors 6 (RParse false false None identity_with_custom_properties) = w1_result.
Proof. vm_compute. reflexivity. Qed.

Lemma strict_parse_returns_flagged_object_pinned :
  exists d fuel c i dfl,
    run variant_pinned env0 lib any_pattern any_selectors fuel (RParse false false None d) = Ok (PObject c i dfl true).
Proof.
  exists identity_with_custom_properties, 6%nat. rewrite w1_eq. unfold w1_result. do 3 eexists. reflexivity.
Qed.

Definition w2_obj : pval :=
  Eval vm_compute in
    match run variant_pinned env0 lib any_pattern any_selectors 6 (RParse true false None sighting_of_marking) with
    | Ok o => o | _ => PJ JNull end.
Lemma w2_run : run variant_pinned env0 lib any_pattern any_selectors 6 (RParse true false None sighting_of_marking) = Ok w2_obj.
Proof. vm_compute. reflexivity. Qed.
Definition w2_rep : result pval :=
  Eval vm_compute in reparse variant_pinned env0 lib any_pattern any_selectors 6 false w2_obj.
Lemma w2_rep_eq : reparse variant_pinned env0 lib any_pattern any_selectors 6 false w2_obj = w2_rep.
Proof. vm_compute. reflexivity. Qed.

Lemma flag_false_and_strict_reparse_refused_pinned :
  exists d fuel c i dfl e,
    run variant_pinned env0 lib any_pattern any_selectors fuel (RParse true false None d) = Ok (PObject c i dfl false) /\
    reparse variant_pinned env0 lib any_pattern any_selectors fuel false (PObject c i dfl false) = Err e.
Proof.
  exists sighting_of_marking, 6%nat.
  pose proof w2_run as H1. pose proof w2_rep_eq as H2. unfold w2_rep in H2.
  revert H1 H2. unfold w2_obj. intros H1 H2.
  do 4 eexists. split; [exact H1 | exact H2].
Qed.

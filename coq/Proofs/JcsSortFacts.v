(* Proofs/JcsSortFacts.v -- the member order of Model/Jcs.v: the sort key order
   (big-endian bytes of the UTF-16 units) is the UTF-16 code unit order of
   RFC 8785, the stable insertion sort yields a sorted permutation, and a sorted
   permutation with distinct keys is unique (independence from insertion order). *)
From Coq Require Import String NArith ZArith List Bool Lia Sorted Permutation.
From V Require Import Base.UString Base.Json Model.JcsText Model.Jcs Spec.Rfc8785.
Import ListNotations.
Open Scope N_scope.

(* ---- lexicographic comparison ------------------------------------------------ *)
Lemma ucmp_refl : forall a, ustr_compare a a = Eq.
Proof. induction a; simpl; auto. rewrite N.compare_refl. exact IHa. Qed.

Lemma ucmp_eq : forall a b, ustr_compare a b = Eq -> a = b.
Proof.
  induction a as [|x a IH]; destruct b as [|y b]; simpl; intro H; try discriminate; auto.
  destruct (N.compare x y) eqn:E; try discriminate.
  apply N.compare_eq in E. subst. f_equal. apply IH. exact H.
Qed.

Lemma ucmp_antisym : forall a b, ustr_compare b a = CompOpp (ustr_compare a b).
Proof.
  induction a as [|x a IH]; destruct b as [|y b]; simpl; auto.
  rewrite (N.compare_antisym x y). destruct (N.compare x y); simpl; auto.
Qed.

Lemma ucmp_lt_trans : forall a b c, ustr_compare a b = Lt -> ustr_compare b c = Lt -> ustr_compare a c = Lt.
Proof.
  induction a as [|x a IH]; destruct b as [|y b]; destruct c as [|z c]; simpl; intros H1 H2; try discriminate; auto.
  destruct (N.compare x y) eqn:E1; try discriminate.
  - apply N.compare_eq in E1. subst y. destruct (N.compare x z) eqn:E2; try discriminate; auto.
    eapply IH; eauto.
  - destruct (N.compare y z) eqn:E2; try discriminate.
    + apply N.compare_eq in E2. subst z. rewrite E1. reflexivity.
    + assert (H : x < z) by (eapply N.lt_trans; [apply N.compare_lt_iff; exact E1 | apply N.compare_lt_iff; exact E2]).
      apply N.compare_lt_iff in H. rewrite H. reflexivity.
Qed.

Lemma ucmp_lt_irrefl : forall a, ustr_compare a a <> Lt.
Proof. intro a. rewrite ucmp_refl. discriminate. Qed.

Lemma units_leb_total : forall a b, units_leb a b = true \/ units_leb b a = true.
Proof.
  intros a b. unfold units_leb. rewrite (ucmp_antisym a b). destruct (ustr_compare a b); simpl; auto.
Qed.

Lemma units_leb_false_lt : forall a b, units_leb a b = false -> ustr_compare b a = Lt.
Proof.
  intros a b. unfold units_leb. rewrite (ucmp_antisym a b). destruct (ustr_compare a b); simpl; try discriminate; auto.
Qed.

Lemma units_leb_true : forall a b, units_leb a b = true -> ustr_compare a b = Lt \/ a = b.
Proof.
  intros a b. unfold units_leb. destruct (ustr_compare a b) eqn:E; try discriminate; auto.
  intros _. right. apply ucmp_eq. exact E.
Qed.

Lemma units_leb_trans : forall a b c, units_leb a b = true -> units_leb b c = true -> units_leb a c = true.
Proof.
  intros a b c H1 H2. apply units_leb_true in H1. apply units_leb_true in H2.
  destruct H1 as [H1|H1]; destruct H2 as [H2|H2]; subst.
  - unfold units_leb. rewrite (ucmp_lt_trans _ _ _ H1 H2). reflexivity.
  - unfold units_leb. rewrite H1. reflexivity.
  - unfold units_leb. rewrite H2. reflexivity.
  - unfold units_leb. rewrite ucmp_refl. reflexivity.
Qed.

(* ---- the stable insertion sort ------------------------------------------------- *)
Section SortFacts.
  Context {A : Type}.
  Definition kle (x y : list N * A) : Prop := units_leb (fst x) (fst y) = true.
  Definition klt (x y : list N * A) : Prop := ustr_compare (fst x) (fst y) = Lt.

  Lemma insert_by_perm : forall k (x : A) l, Permutation (insert_by k x l) ((k, x) :: l).
  Proof.
    induction l as [|[ky y] l IH]; simpl; auto.
    destruct (units_leb k ky); auto.
    eapply perm_trans; [apply perm_skip; exact IH|]. apply perm_swap.
  Qed.

  Lemma isort_perm : forall l : list (list N * A), Permutation (isort l) l.
  Proof.
    induction l as [|[k x] l IH]; simpl; auto.
    eapply perm_trans; [apply insert_by_perm|]. apply perm_skip. exact IH.
  Qed.

  Lemma insert_by_sorted : forall k (x : A) l, StronglySorted kle l -> StronglySorted kle (insert_by k x l).
  Proof.
    induction l as [|[ky y] l IH]; simpl; intro H.
    - constructor; constructor.
    - inversion H as [|? ? Hs Hf]; subst. destruct (units_leb k ky) eqn:E.
      + constructor; auto. constructor; [exact E|].
        eapply Forall_impl; [|exact Hf]. intros [kz z] Hz. unfold kle in *. simpl in *.
        eapply units_leb_trans; eauto.
      + constructor; [apply IH; exact Hs|].
        assert (Hp := insert_by_perm k x l).
        apply (Permutation_Forall (Permutation_sym Hp)). constructor; auto.
        unfold kle. simpl. destruct (units_leb_total k ky) as [H1|H1]; [congruence|exact H1].
  Qed.

  Lemma isort_sorted : forall l : list (list N * A), StronglySorted kle (isort l).
  Proof.
    induction l as [|[k x] l IH]; simpl; [constructor|]. apply insert_by_sorted. exact IH.
  Qed.

  (* sorting an already sorted list changes nothing (the sort is stable) *)
  Lemma isort_id : forall l : list (list N * A), StronglySorted kle l -> isort l = l.
  Proof.
    induction l as [|[k x] l IH]; simpl; intro H; auto.
    inversion H as [|? ? Hs Hf]; subst. rewrite IH by exact Hs.
    destruct l as [|[ky y] l]; simpl; auto.
    inversion Hf; subst. unfold kle in H2. simpl in H2. rewrite H2. reflexivity.
  Qed.

  (* with pairwise distinct keys the order is strict *)
  Lemma sorted_strict : forall l : list (list N * A),
    StronglySorted kle l -> NoDup (map fst l) -> StronglySorted klt l.
  Proof.
    induction l as [|[k x] l IH]; intros Hs Hn; [constructor|].
    inversion Hs as [|? ? Hs' Hf]; subst. simpl in Hn. inversion Hn as [|? ? Hnotin Hn']; subst.
    constructor; [apply IH; auto|].
    rewrite Forall_forall in *. intros [ky y] Hin. specialize (Hf _ Hin).
    unfold kle, klt in *. simpl in *. apply units_leb_true in Hf. destruct Hf as [Hf|Hf]; auto.
    subst ky. exfalso. apply Hnotin. change k with (fst (k, y)). apply in_map. exact Hin.
  Qed.

  (* a strictly sorted list is determined by its elements *)
  Lemma strict_sorted_unique : forall l1 l2 : list (list N * A),
    StronglySorted klt l1 -> StronglySorted klt l2 -> Permutation l1 l2 -> l1 = l2.
  Proof.
    induction l1 as [|a l1 IH]; intros l2 H1 H2 Hp.
    - apply Permutation_nil in Hp. auto.
    - destruct l2 as [|b l2]; [apply Permutation_sym, Permutation_nil in Hp; discriminate|].
      inversion H1 as [|? ? Hs1 Hf1]; subst. inversion H2 as [|? ? Hs2 Hf2]; subst.
      assert (Hab : a = b).
      { assert (Ha : In a (b :: l2)) by (eapply Permutation_in; [exact Hp|left; reflexivity]).
        assert (Hb : In b (a :: l1)) by (eapply Permutation_in; [apply Permutation_sym; exact Hp|left; reflexivity]).
        destruct Ha as [Ha|Ha]; auto. destruct Hb as [Hb|Hb]; auto.
        rewrite Forall_forall in Hf1, Hf2. specialize (Hf1 _ Hb). specialize (Hf2 _ Ha).
        unfold klt in *. exfalso. apply (ucmp_lt_irrefl (fst a)). eapply ucmp_lt_trans; eauto. }
      subst b. f_equal. apply IH; auto. eapply Permutation_cons_inv. exact Hp.
  Qed.

  Lemma isort_perm_unique : forall l1 l2 : list (list N * A),
    Permutation l1 l2 -> NoDup (map fst l1) -> isort l1 = isort l2.
  Proof.
    intros l1 l2 Hp Hn.
    assert (Hn2 : NoDup (map fst l2)) by (eapply Permutation_NoDup; [apply Permutation_map; exact Hp|exact Hn]).
    apply strict_sorted_unique.
    - apply sorted_strict; [apply isort_sorted|].
      eapply Permutation_NoDup; [apply Permutation_map, Permutation_sym, isort_perm|exact Hn].
    - apply sorted_strict; [apply isort_sorted|].
      eapply Permutation_NoDup; [apply Permutation_map, Permutation_sym, isort_perm|exact Hn2].
    - eapply perm_trans; [apply isort_perm|]. eapply perm_trans; [exact Hp|]. apply Permutation_sym, isort_perm.
  Qed.
End SortFacts.

(* Proofs/ErrorsRefine.v -- C17: the outcome set computed with the set-valued
   cleaner `clean_any` (what the correspondence run evaluates) covers the
   outcomes of the model under EVERY black-box behaviour of the property
   cleaners: same outcome, or an InvalidValueError subclass from the wrapper
   where the evaluated set has InvalidValueError. *)
From Coq Require Import NArith ZArith List String Bool.
From V Require Import Base.UString Base.Json Model.Errors Proofs.ErrorsFacts.
Import ListNotations.

Definition cov {A} (r r' : res A) : Prop :=
  r = r' \/
  exists e, r = Exc e S_lib /\ subclass e K_InvalidValueError = true /\ r' = Exc (Known K_InvalidValueError) S_lib.

Definition covered {A} (m m' : M A) : Prop := forall r, In r m -> exists r', In r' m' /\ cov r r'.

Lemma covered_refl : forall A (m : M A), covered m m.
Proof. intros A m r Hr. exists r. split; [exact Hr|left; reflexivity]. Qed.

Lemma covered_bind : forall A B (m m' : M A) (f f' : A -> M B),
  covered m m' -> (forall a, covered (f a) (f' a)) -> covered (bind m f) (bind m' f').
Proof.
  intros A B m m' f f' Hm Hf r Hr. unfold bind in *. apply in_flat_map in Hr.
  destruct Hr as [x [Hx Hr]]. destruct (Hm x Hx) as [x' [Hx' Hc]].
  destruct x as [a|e s].
  - destruct Hc as [<-|[e [He _]]]; [|discriminate He].
    destruct (Hf a r Hr) as [r' [Hr' Hcr]]. exists r'. split; [|exact Hcr].
    apply in_flat_map. exists (Val a). split; assumption.
  - destruct Hr as [<-|[]].
    destruct Hc as [<-|[e0 [He0 [Hs ->]]]].
    + exists (Exc e s). split; [|left; reflexivity]. apply in_flat_map. exists (Exc e s). split; [exact Hx'|left; reflexivity].
    + exists (Exc (Known K_InvalidValueError) S_lib). split.
      * apply in_flat_map. exists (Exc (Known K_InvalidValueError) S_lib). split; [exact Hx'|left; reflexivity].
      * right. inversion He0; subst. exists e0. repeat split. exact Hs.
Qed.

Lemma covered_seq : forall A (m m' : M unit) (k k' : M A), covered m m' -> covered k k' -> covered (seq m k) (seq m' k').
Proof. intros. unfold seq. apply covered_bind; auto. Qed.

Ltac covstep :=
  match goal with
  | |- covered ?m ?m => apply covered_refl
  | |- covered (bind _ _) (bind _ _) => apply covered_bind; [|intros]
  | |- covered (seq _ _) (seq _ _) => apply covered_seq
  | |- covered (if ?b then _ else _) (if ?b then _ else _) => destruct b
  | |- covered (match ?x with _ => _ end) (match ?x with _ => _ end) => destruct x
  | |- covered (let _ := _ in _) _ => cbv zeta
  end.

Section Refine.
  Variable V : variant.
  Variable R : registry.
  Variables c1 c2 : cleaner.
  Variable strictext : bool.
  Variable refuse : bool.
  Hypothesis Hc : forall ac io s ov, covered (c1 ac io s ov) (c2 ac io s ov).

  Lemma cov_check_slot : forall ac io kind vr s val, covered (check_slot c1 ac io kind vr s val) (check_slot c2 ac io kind vr s val).
  Proof. intros. unfold check_slot. destruct val; [|destruct (s_default s); [|apply covered_refl]]; (apply covered_seq; [apply Hc|apply covered_refl]). Qed.

  Lemma cov_prop_loop : forall ac io kind vr defined assigned order present,
    covered (prop_loop c1 ac io kind vr defined assigned order present) (prop_loop c2 ac io kind vr defined assigned order present).
  Proof.
    intros ac io kind vr defined assigned. induction order as [|n rest IH]; intros; simpl; [apply covered_refl|].
    destruct (find_slot n defined); [|apply IH].
    apply covered_bind; [apply cov_check_slot|intros; apply IH].
  Qed.

  Lemma cov_base_init : forall c ac io kw vr, covered (base_init V R c1 strictext c ac io kw vr) (base_init V R c2 strictext c ac io kw vr).
  Proof.
    intros. unfold base_init.
    apply covered_bind; [apply covered_refl|intros cpm].
    apply covered_bind; [apply covered_refl|intros scan]. cbv zeta.
    match goal with |- covered (if ?b then _ else _) _ => destruct b end; [apply covered_refl|].
    destruct cpm; [|apply covered_refl].
    match goal with |- covered (if ?b then _ else _) _ => destruct b end; [apply covered_refl|].
    apply covered_bind; [apply cov_prop_loop|intros present]. apply covered_refl.
  Qed.

  Lemma cov_construct0 : forall c ac io kw, covered (construct0 V R c1 strictext c ac io kw) (construct0 V R c2 strictext c ac io kw).
  Proof.
    intros. unfold construct0. cbv zeta.
    match goal with |- covered (if ?b then _ else _) _ => destruct b end; [apply covered_refl|].
    apply covered_seq; [apply cov_base_init|apply covered_refl].
  Qed.

  Lemma cov_marking_pre : forall dec v20 kw, covered (marking_pre V R c1 strictext dec v20 kw) (marking_pre V R c2 strictext dec v20 kw).
  Proof.
    intros. unfold marking_pre.
    destruct (jlookup (us "definition_type") kw) as [dt|]; [|apply covered_refl].
    destruct (jlookup (us "definition") kw) as [defn|]; [|apply covered_refl].
    destruct (negb (hashable dt)); [apply covered_refl|].
    match goal with |- covered (match ?x with _ => _ end) _ => destruct x end; [|apply covered_refl].
    apply covered_seq; [apply covered_refl|].
    apply covered_bind; [apply covered_refl|intros d].
    destruct (fst d); try apply covered_refl.
    apply covered_seq; [apply covered_refl|apply cov_construct0].
  Qed.

  Lemma cov_construct : forall dec c ac io kw, covered (construct V R c1 strictext dec c ac io kw) (construct V R c2 strictext dec c ac io kw).
  Proof.
    intros. unfold construct.
    destruct (c_pre c) as [|p rest]; [apply cov_construct0|].
    destruct p; try apply cov_construct0; (apply covered_seq; [apply cov_marking_pre|apply cov_construct0]).
  Qed.

  Lemma cov_dict_to_stix2 : forall dec d nonstr ac io version,
    covered (dict_to_stix2 V R c1 strictext refuse dec d nonstr ac io version) (dict_to_stix2 V R c2 strictext refuse dec d nonstr ac io version).
  Proof.
    intros. unfold dict_to_stix2.
    apply covered_bind; [apply covered_refl|intros has].
    destruct (negb has); [apply covered_refl|].
    apply covered_bind; [apply covered_refl|intros ver].
    apply covered_bind; [apply covered_refl|intros ty].
    apply covered_bind; [apply covered_refl|intros k1].
    apply covered_bind; [apply covered_refl|intros k2].
    destruct k2; destruct d; try apply covered_refl.
    apply covered_seq; [apply covered_refl|]. apply covered_seq; [apply cov_construct|apply covered_refl].
  Qed.

  Lemma cov_parse : forall dec x ac io version, covered (parse V R c1 strictext refuse dec x ac io version) (parse V R c2 strictext refuse dec x ac io version).
  Proof. intros. unfold parse. apply covered_bind; [apply covered_refl|intros; apply cov_dict_to_stix2]. Qed.

  Lemma cov_parse_file : forall dec tr ac io version,
    covered (parse_file V R c1 strictext refuse dec tr ac io version) (parse_file V R c2 strictext refuse dec tr ac io version).
  Proof. intros. unfold parse_file. apply covered_bind; [apply covered_refl|intros; apply cov_dict_to_stix2]. Qed.

  Lemma cov_parse_observable : forall dec x vr ac io version,
    covered (parse_observable V R c1 strictext refuse dec x vr ac io version) (parse_observable V R c2 strictext refuse dec x vr ac io version).
  Proof.
    intros. unfold parse_observable.
    apply covered_bind; [apply covered_refl|intros d].
    apply covered_bind; [apply covered_refl|intros has].
    destruct (negb has); [apply covered_refl|].
    destruct (fst d); try apply covered_refl. cbv zeta.
    apply covered_bind; [apply covered_refl|intros ver].
    apply covered_bind; [apply covered_refl|intros ty].
    apply covered_bind; [apply covered_refl|intros k].
    destruct k; [|apply covered_refl].
    apply covered_seq; [apply covered_refl|]. apply covered_seq; [apply cov_construct|apply covered_refl].
  Qed.
End Refine.

Lemma cov_clean_via_any : forall (cl : blackbox),
  well_behaved cl ->
  forall ac io s ov, covered (clean_via cl ac io s ov) (clean_any ac io s ov).
Proof.
  intros cl Hcl ac io s ov r Hr. unfold clean_via, lift in Hr. destruct Hr as [<-|[]].
  unfold clean_any, may. simpl.
  destruct (cl ac io s ov) as [|e sf] eqn:E.
  - exists (Val tt). split; [left; reflexivity|left; reflexivity].
  - destruct (Hcl _ _ _ _ _ _ E) as [Hex ->].
    destruct (wrapper_total_lemma e Hex) as [e' [He' Hs]]. rewrite He'.
    exists (Exc (Known K_InvalidValueError) S_lib). split; [right; left; reflexivity|].
    right. exists e'. repeat split. exact Hs.
Qed.

(* the structural cleaner only ever yields Ok / InvalidValueError: it refines the coarse one *)
Lemma cov_clean_struct_any : forall fuel V R strictext refuse classes ac io s ov,
  covered (clean_struct fuel V R strictext refuse classes ac io s ov) (clean_any ac io s ov).
Proof.
  intros. intros r Hr. destruct (simple_clean_struct _ _ _ _ _ _ _ _ _ _ r Hr) as [-> | ->].
  - exists (Val tt). split; [left; reflexivity|left; reflexivity].
  - exists ive. split; [right; left; reflexivity|left; reflexivity].
Qed.

(* Proofs/HeapExec.v -- the frame theorem for the whole operation language of
   Model/HeapRun.v and for arbitrary SEQUENCES of operations (the property's
   quantifier over histories): after any sequence of public operations, from
   any environment and heap, every container that is not a store's private
   table is unchanged, hence every deep value that was defined is the same.  *)
From Coq Require Import NArith ZArith String Bool Arith List Lia.
From V Require Import Model.Heap Model.HeapOps Model.HeapApi Model.HeapRun.
From V Require Import Proofs.HeapFacts Proofs.HeapInterp Proofs.HeapApiFacts Proofs.HeapStoreFacts.
Import ListNotations.
Open Scope nat_scope.

(* non-store nodes are kept and the heap does not shrink *)
Definition kept (h h' : heap) : Prop := length h <= length h' /\ frame_ns h h'.

Lemma kept_refl : forall h, kept h h.
Proof. intros h. split; auto. intros l nd E _. exact E. Qed.

Lemma kept_trans : forall a b c, kept a b -> kept b c -> kept a c.
Proof.
  intros a b c [L1 F1] [L2 F2]. split; [lia|]. intros l nd E Ns. apply F2; auto.
Qed.

Lemma grows_kept : forall h h', grows h h' -> kept h h'.
Proof. intros h h' G. split; [eapply grows_len; eauto | now apply grows_frame_ns]. Qed.

Lemma same_but_kept : forall d h h' m, same_but d h h' -> get h d = Some (NStore m) -> kept h h'.
Proof.
  intros d h h' m S E. split; [apply S|].
  eapply same_but_frame_ns; eauto. intros nd E'. rewrite E in E'. inversion E'. reflexivity.
Qed.

Lemma store_data_table : forall h s d, store_data h s = Some d -> exists m, get h d = Some (NStore m).
Proof.
  unfold store_data. intros h s d H. destruct s as [a|l]; [discriminate|].
  destruct (get h l) as [[?|?|c fs|?]|]; try discriminate.
  destruct (assoc (u "_data") fs) as [[a|d']|]; try discriminate.
  destruct (get h d') as [[?|?|? ?|m]|] eqn:E; try discriminate.
  inversion H; subst. eauto.
Qed.

(* building caller data only allocates *)
Lemma build_x_grows : forall e t h h' v, build_x e t h = (h', v) -> grows h h'.
Proof.
  intro e. fix IH 1. intros t h h' v H. destruct t as [a|m|xs|i]; simpl in H.
  - inversion H. apply grows_refl.
  - match type of H with (let (_, _) := ?f m h in _) = _ => destruct (f m h) as [h1 m'] eqn:Eg end.
    destruct (alloc h1 (NDict m')) as [h2 l] eqn:Ea. inversion H; subst.
    eapply grows_trans; [|eapply alloc_grows; eauto].
    clear Ea H. revert h h1 m' Eg.
    induction m as [|[k t] r IHm]; intros h h1 m' Eg.
    + inversion Eg. apply grows_refl.
    + destruct (build_x e t h) as [ha va] eqn:Et.
      match type of Eg with (let (_, _) := ?f r ha in _) = _ => destruct (f r ha) as [hb rb] eqn:Er end.
      inversion Eg; subst. eapply grows_trans; [eapply IH; eauto | eapply IHm; eauto].
  - match type of H with (let (_, _) := ?f xs h in _) = _ => destruct (f xs h) as [h1 xs'] eqn:Eg end.
    destruct (alloc h1 (NList xs')) as [h2 l] eqn:Ea. inversion H; subst.
    eapply grows_trans; [|eapply alloc_grows; eauto].
    clear Ea H. revert h h1 xs' Eg.
    induction xs as [|t r IHm]; intros h h1 xs' Eg.
    + inversion Eg. apply grows_refl.
    + destruct (build_x e t h) as [ha va] eqn:Et.
      match type of Eg with (let (_, _) := ?f r ha in _) = _ => destruct (f r ha) as [hb rb] eqn:Er end.
      inversion Eg; subst. eapply grows_trans; [eapply IH; eauto | eapply IHm; eauto].
  - inversion H. apply grows_refl.
Qed.

Lemma bindv_inv : forall x f h' r, bindv x f = (h', r) ->
  (exists h1 v, x = (h1, RVal v) /\ f v h1 = (h', r)) \/ x = (h', r).
Proof.
  unfold bindv. intros [h1 r1] f h' r H. destruct r1; eauto.
Qed.

Section Exec.
  Variable vt : variant.
  Variable W : world.
  Hypothesis Hvt : safe vt.

  (* one lemma per operation (kept separate: each is checked on its own) *)
  Lemma ex_mk : forall t e h h' r, exec vt W (OMk t) e h = (h', r) -> kept h h'.
  Proof.
    intros t e h h' r H. unfold exec in H. destruct (build_x e t h) as [h1 v] eqn:Eb. inversion H; subst.
    apply grows_kept. eapply build_x_grows; eauto.
  Qed.

  Lemma ex_construct : forall c kw e h h' r, exec vt W (OConstruct c kw) e h = (h', r) -> kept h h'.
  Proof. intros c kw e h h' r H. unfold exec in H. apply grows_kept. eapply run_grows; eauto. Qed.

  Lemma ex_bundle : forall c args kw e h h' r, exec vt W (OBundle c args kw) e h = (h', r) -> kept h h'.
  Proof. intros c args kw e h h' r H. unfold exec in H. apply grows_kept. eapply bundle_grows; eauto. Qed.

  Lemma ex_parse : forall a ver ac e h h' r, exec vt W (OParse a ver ac) e h = (h', r) -> kept h h'.
  Proof.
    intros a ver ac e h h' r H. unfold exec, bindv in H. destruct (get_dict (env_get e a) h) as [h0 r0] eqn:Eg.
    assert (G := get_dict_grows _ _ _ _ Eg). apply grows_kept.
    destruct r0; try (inversion H; subst; auto; fail).
    eapply grows_trans; [exact G | eapply run_grows; eauto].
  Qed.

  Lemma ex_parse_obs : forall a vr ver ac e h h' r, exec vt W (OParseObs a vr ver ac) e h = (h', r) -> kept h h'.
  Proof. intros a vr ver ac e h h' r H. unfold exec in H. apply grows_kept. eapply run_grows; eauto. Qed.

  Lemma ex_deepcopy : forall a e h h' r, exec vt W (ODeepcopy a) e h = (h', r) -> kept h h'.
  Proof. intros a e h h' r H. unfold exec in H. apply grows_kept. eapply deepcopy_grows; eauto. Qed.

  Lemma ex_new_version : forall a kw e h h' r, exec vt W (ONewVersion a kw) e h = (h', r) -> kept h h'.
  Proof. intros a kw e h h' r H. unfold exec in H. apply grows_kept. eapply new_version_grows; eauto. Qed.

  Lemma ex_revoke : forall a e h h' r, exec vt W (ORevoke a) e h = (h', r) -> kept h h'.
  Proof. intros a e h h' r H. unfold exec in H. apply grows_kept. eapply revoke_grows; eauto. Qed.

  Lemma ex_expand : forall a e h h' r, exec vt W (OExpand a) e h = (h', r) -> kept h h'.
  Proof. intros a e h h' r H. unfold exec in H. apply grows_kept. eapply expand_markings_grows; eauto. Qed.

  Lemma ex_compress : forall a e h h' r, exec vt W (OCompress a) e h = (h', r) -> kept h h'.
  Proof. intros a e h h' r H. unfold exec in H. apply grows_kept. eapply compress_markings_grows; eauto. Qed.

  Lemma ex_gadd : forall a m s e h h' r, exec vt W (OGranularAdd a m s) e h = (h', r) -> kept h h'.
  Proof. intros a m s e h h' r H. unfold exec in H. apply grows_kept. eapply granular_add_grows; eauto. Qed.

  Lemma ex_gclear : forall a s e h h' r, exec vt W (OGranularClear a s) e h = (h', r) -> kept h h'.
  Proof. intros a s e h h' r H. unfold exec in H. apply grows_kept. eapply granular_clear_grows; eauto. Qed.

  Lemma ex_oadd : forall a m e h h' r, exec vt W (OObjectAdd a m) e h = (h', r) -> kept h h'.
  Proof. intros a m e h h' r H. unfold exec in H. apply grows_kept. eapply object_add_grows; eauto. Qed.

  Lemma ex_oremove : forall a m e h h' r, exec vt W (OObjectRemove a m) e h = (h', r) -> kept h h'.
  Proof. intros a m e h h' r H. unfold exec in H. apply grows_kept. eapply object_remove_grows; eauto. Qed.

  Lemma ex_oclear : forall a e h h' r, exec vt W (OObjectClear a) e h = (h', r) -> kept h h'.
  Proof. intros a e h h' r H. unfold exec in H. apply grows_kept. eapply object_clear_grows; eauto. Qed.

  Lemma ex_fnew : forall kw la e h h' r, exec vt W (OFactoryNew kw la) e h = (h', r) -> kept h h'.
  Proof. intros kw la e h h' r H. unfold exec in H. apply grows_kept. eapply factory_new_grows; eauto. Qed.

  Lemma ex_fcreate : forall f c kw e h h' r, exec vt W (OFactoryCreate f c kw) e h = (h', r) -> kept h h'.
  Proof.
    intros f c kw e h h' r H. unfold exec in H. apply grows_kept. destruct kw as [i|].
    - eapply factory_create_grows; eauto.
    - destruct (alloc h (NDict [])) as [h1 l] eqn:Ea.
      eapply grows_trans; [eapply alloc_grows; eauto | eapply factory_create_grows; eauto].
  Qed.

  Lemma ex_store_new : forall data e h h' r, exec vt W (OStoreNew data) e h = (h', r) -> kept h h'.
  Proof.
    intros data e h h' r H. unfold exec in H. destruct (store_new h) as [h1 s] eqn:Es.
    assert (K1 : kept h h1) by (apply grows_kept; eapply store_new_grows; eauto).
    destruct data as [i|]; [|inversion H; subst; auto].
    destruct (store_data h1 (VR s)) as [d|] eqn:Ed; [|inversion H; subst; auto].
    destruct (truthy h1 (env_get e i)); [|inversion H; subst; auto].
    destruct (store_data_table _ _ _ Ed) as (m & Em).
    eapply kept_trans; [exact K1|].
    apply bindv_inv in H. destruct H as [(h2 & v & Ea & H)|Ea].
    - inversion H; subst. eapply same_but_kept; [eapply store_add_top_same_but; eauto | eauto].
    - eapply same_but_kept; [eapply store_add_top_same_but; eauto | eauto].
  Qed.

  Lemma ex_store_add : forall s a e h h' r, exec vt W (OStoreAdd s a) e h = (h', r) -> kept h h'.
  Proof.
    intros s a e h h' r H. unfold exec in H.
    destruct (store_data h (env_get e s)) as [d|] eqn:Ed; [|inversion H; apply kept_refl].
    destruct (store_data_table _ _ _ Ed) as (m & Em).
    eapply same_but_kept; [eapply store_add_top_same_but; eauto | eauto].
  Qed.

  Lemma ex_store_get : forall s id e h h' r, exec vt W (OStoreGet s id) e h = (h', r) -> kept h h'.
  Proof.
    intros s id e h h' r H. unfold exec in H.
    destruct (store_data h (env_get e s)) as [d|] eqn:Ed; [|inversion H; apply kept_refl].
    apply store_get_same in H. subst. apply kept_refl.
  Qed.

  Lemma ex_setattr : forall a name e h h' r, setattr_allowed name = false ->
    exec vt W (OSetattr a name) e h = (h', r) -> kept h h'.
  Proof.
    intros a name e h h' r Hp H. unfold exec in H.
    destruct (setattr_heap_same _ _ _ _ _ _ Hp H) as [-> _]. apply kept_refl.
  Qed.

  Lemma ex_setitem : forall a e h h' r, exec vt W (OSetitem a) e h = (h', r) -> kept h h'.
  Proof.
    intros a e h h' r H. unfold exec, py_setitem_obj in H.
    destruct (is_obj h (env_get e a)); inversion H; apply kept_refl.
  Qed.

  Lemma ex_gremove : forall a m s e h h' r, exec vt W (OGranularRemove a m s) e h = (h', r) -> kept h h'.
  Proof. intros a m s e h h' r H. unfold exec in H. apply grows_kept. eapply granular_remove_grows; eauto. Qed.

  Lemma ex_gset : forall a m s e h h' r, exec vt W (OGranularSet a m s) e h = (h', r) -> kept h h'.
  Proof. intros a m s e h h' r H. unfold exec in H. apply grows_kept. eapply granular_set_grows; eauto. Qed.

  Lemma ex_oset : forall a m e h h' r, exec vt W (OObjectSet a m) e h = (h', r) -> kept h h'.
  Proof. intros a m e h h' r H. unfold exec in H. apply grows_kept. eapply object_set_grows; eauto. Qed.

  Lemma ex_api : forall fn a m s e h h' r, exec vt W (OApi fn a m s) e h = (h', r) -> kept h h'.
  Proof. intros fn a m s e h h' r H. unfold exec in H. apply grows_kept. eapply api_markings_grows; eauto. Qed.

  Lemma ex_remove_custom : forall a e h h' r, exec vt W (ORemoveCustom a) e h = (h', r) -> kept h h'.
  Proof. intros a e h h' r H. unfold exec in H. apply grows_kept. eapply remove_custom_stix_grows; eauto. Qed.

  Lemma ex_copy : forall a e h h' r, exec vt W (OCopy a) e h = (h', r) -> kept h h'.
  Proof. intros a e h h' r H. unfold exec in H. apply grows_kept. eapply shallow_copy_grows; eauto. Qed.

  Lemma ex_dedup : forall a e h h' r, exec vt W (ODeduplicate a) e h = (h', r) -> kept h h'.
  Proof. intros a e h h' r H. unfold exec in H. apply grows_kept. eapply deduplicate_grows; eauto. Qed.

  Lemma ex_clear_opts : forall a s mr lg e h h' r, exec vt W (OClearOpts a s mr lg) e h = (h', r) -> kept h h'.
  Proof. intros a s mr lg e h h' r H. unfold exec in H. apply grows_kept. eapply granular_clear_f_grows; eauto. Qed.

  Lemma ex_set_opts : forall a m s mr lg e h h' r, exec vt W (OSetOpts a m s mr lg) e h = (h', r) -> kept h h'.
  Proof. intros a m s mr lg e h h' r H. unfold exec in H. apply grows_kept. eapply granular_set_f_grows; eauto. Qed.

  Lemma exec_kept : forall o e h h' r, public_op o = true -> exec vt W o e h = (h', r) -> kept h h'.
  Proof.
    intros o e h h' r Hp. destruct o.
    - apply ex_mk. - apply ex_construct. - apply ex_bundle. - apply ex_parse. - apply ex_parse_obs.
    - apply ex_deepcopy. - apply ex_new_version. - apply ex_revoke. - apply ex_expand. - apply ex_compress.
    - apply ex_gadd. - apply ex_gclear. - apply ex_oadd. - apply ex_oremove. - apply ex_oclear.
    - apply ex_fnew. - apply ex_fcreate. - apply ex_store_new. - apply ex_store_add. - apply ex_store_get.
    - apply ex_setattr. simpl in Hp. now apply negb_true_iff in Hp.
    - discriminate.
    - apply ex_setitem.
    - apply ex_gremove. - apply ex_gset. - apply ex_oset. - apply ex_api. - apply ex_remove_custom.
    - apply ex_copy. - apply ex_dedup. - apply ex_clear_opts. - apply ex_set_opts.
  Qed.

  (* histories: any sequence of public operations *)
  Lemma run_state_kept : forall ops e h e' h',
    forallb public_op ops = true -> run_state vt W ops e h = (e', h') -> kept h h'.
  Proof.
    induction ops as [|o rest IH]; simpl; intros e h e' h' Hp H.
    - inversion H. apply kept_refl.
    - apply andb_true_iff in Hp. destruct Hp as [Ho Hr].
      destruct (exec vt W o e h) as [h1 r1] eqn:Ex.
      eapply kept_trans; [eapply exec_kept; eauto | eapply IH; eauto].
  Qed.

  Lemma run_state_env : forall ops e h e' h', run_state vt W ops e h = (e', h') -> exists e2, e' = e ++ e2.
  Proof.
    induction ops as [|o rest IH]; simpl; intros e h e' h' H.
    - inversion H. exists []. now rewrite app_nil_r.
    - destruct (exec vt W o e h) as [h1 r1]. destruct (IH _ _ _ _ H) as (e2 & ->).
      rewrite <- app_assoc. eauto.
  Qed.

  Lemma run_state_app : forall ops1 ops2 e h,
    run_state vt W (ops1 ++ ops2) e h = let (e1, h1) := run_state vt W ops1 e h in run_state vt W ops2 e1 h1.
  Proof.
    induction ops1 as [|o rest IH]; simpl; intros ops2 e h; auto.
    destruct (exec vt W o e h) as [h1 r1]. apply IH.
  Qed.
End Exec.

(* ---- the model's mutation report is empty whenever values are kept ---- *)
Lemma ustr_eqb_refl : forall s, ustr_eqb s s = true.
Proof. induction s; simpl; auto. rewrite N.eqb_refl. auto. Qed.

Lemma atom_eqb_refl : forall a, atom_eqb a a = true.
Proof.
  destruct a; simpl; auto using ustr_eqb_refl, Z.eqb_refl. destruct b; auto.
Qed.

Lemma shape_eqb_refl : forall s, shape_eqb s s = true.
Proof.
  assert (L : forall ks, (fix go (x y : list ustring) := match x, y with
                          | [], [] => true | a :: x', b :: y' => ustr_eqb a b && go x' y' | _, _ => false end) ks ks = true).
  { induction ks; simpl; auto. rewrite ustr_eqb_refl. auto. }
  destruct s; simpl; auto. rewrite ustr_eqb_refl. simpl. auto.
Qed.

Lemma tree_eqb_refl : forall t, tree_eqb t t = true.
Proof.
  fix IH 1. intros [a|s ts]; simpl.
  - apply atom_eqb_refl.
  - rewrite shape_eqb_refl. simpl.
    induction ts as [|t r IHr]; simpl; auto. rewrite IH. simpl. exact IHr.
Qed.

Lemma changed_nil : forall h h' e,
  (forall n v t, value n h v = Some t -> value n h' v = Some t) ->
  Forall (fun v => value FUEL h v <> None) e -> changed h h' e = [].
Proof.
  intros h h' e K. unfold changed. generalize 0 as i.
  induction e as [|v r IH]; intros i F; auto.
  inversion F as [|x xs Hv Fr]; subst.
  destruct (value FUEL h v) as [t|] eqn:E; [|congruence].
  rewrite (K _ _ _ E). simpl. rewrite tree_eqb_refl. apply IH. exact Fr.
Qed.

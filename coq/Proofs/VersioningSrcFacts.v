(* Proofs/VersioningSrcFacts.v -- the arithmetic the text of stix2/versioning.py denotes
   (Model/VersioningCfg.v) gives strictly later serialized times under decidable conditions on the
   constants read from the source; and the hand-written model computes exactly that arithmetic. *)
From Coq Require Import String ZArith List Bool Lia.
From V Require Import Base.UString Model.Timestamp Model.Versioning Model.VersioningCfg Spec.VersioningSpec
  Proofs.VersioningFacts.
Import ListNotations.
Open Scope Z_scope.

Ltac Zify.zify_post_hook ::= Z.to_euclidean_division_equations.

Lemma fudge21_src_strict : forall S, fudge21_ok S = true ->
  forall old now, ser21 (fudge21_src S (ser21 old) now) > ser21 old.
Proof.
  intros S OK old now. unfold fudge21_ok in OK. unfold fudge21_src, ser21.
  destruct (s_f21_cmp S); try discriminate. apply Z.ltb_lt in OK. cbn [cmp_holds].
  destruct (now <=? old) eqn:E; lia.
Qed.

Lemma fudge20_src_strict : forall S, fudge20_ok S = true ->
  forall old now, ser20 (fudge20_src S (ser20 old) now) > ser20 old.
Proof.
  intros S OK old now. unfold fudge20_ok in OK. apply andb_true_iff in OK as [T P]. apply Z.leb_le in P.
  unfold fudge20_src, ser20. destruct (s_f20_cmp S); try discriminate; cbn [cmp_holds]; apply Z.leb_le in T.
  - destruct (now - (old - old mod 1000) <? s_f20_threshold S) eqn:E; lia.
  - destruct (now - (old - old mod 1000) <=? s_f20_threshold S) eqn:E; lia.
Qed.

Lemma supplied_src_strict : forall S, supplied_ok S = true ->
  forall new old, supplied_accepted_src S new old = true -> new > old.
Proof.
  intros S OK new old A. unfold supplied_ok in OK. unfold supplied_accepted_src in A.
  destruct (s_supplied_cmp S); try discriminate. cbn [cmp_holds] in A. apply negb_true_iff in A. lia.
Qed.

(* ---- the model computes the arithmetic of a configuration that makes the model's choices ---- *)
Lemma model_fudge_21 : forall S l o now r, s_f21_cmp S = CLe -> s_f21_push S = 1 ->
  fudge V21 (l, Some o) now = Ok r -> utc_of r = fudge21_src S (l - o) now /\ snd r <> None.
Proof.
  intros S l o now r C P H. unfold fudge, ts_diff in H. cbn [fst snd] in H. unfold fudge21_src. rewrite C, P. cbn [cmp_holds].
  destruct (now - 0 - (l - o) <=? 0) eqn:E; inversion H; subst; unfold utc_of; cbn [fst snd].
  - replace (now <=? l - o) with true by (symmetry; apply Z.leb_le; lia). split; [lia|discriminate].
  - replace (now <=? l - o) with false by (symmetry; apply Z.leb_gt; lia). split; [lia|discriminate].
Qed.

Lemma model_fudge_20 : forall S l o now r, s_f20_cmp S = CLt -> s_f20_threshold S = 1000 -> s_f20_push S = 1000 ->
  fudge V20 (l, Some o) now = Ok r -> utc_of r = fudge20_src S (l - o) now /\ snd r <> None.
Proof.
  intros S l o now r C T P H. unfold fudge, ts_diff in H. cbn [fst snd] in H. unfold fudge20_src. rewrite C, T, P. cbn [cmp_holds].
  destruct (now - 0 - (l - o) <? 1000) eqn:E; inversion H; subst; unfold utc_of; cbn [fst snd].
  - replace (now - (l - o) <? 1000) with true by (symmetry; apply Z.ltb_lt; lia). split; [lia|discriminate].
  - replace (now - (l - o) <? 1000) with false by (symmetry; apply Z.ltb_ge; lia). split; [lia|discriminate].
Qed.

(* the test new_version applies to a caller-supplied modified time *)
Lemma model_supplied_test : forall S a b dlt, s_supplied_cmp S = CLe -> ts_diff a b = Some dlt ->
  (dlt <=? 0) = negb (supplied_accepted_src S (utc_of a) (utc_of b)).
Proof.
  intros S [la [oa|]] [lb [ob|]] dlt C H; cbn in H; try discriminate; inversion H; subst;
    unfold supplied_accepted_src; rewrite C; cbn [cmp_holds]; rewrite negb_involutive; unfold utc_of; cbn [fst snd];
    destruct (_ <=? 0) eqn:E; symmetry; [apply Z.leb_le|apply Z.leb_gt|apply Z.leb_le|apply Z.leb_gt]; lia.
Qed.

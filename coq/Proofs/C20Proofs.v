(* Proofs/C20Proofs.v -- the five scales of the CURRENT source (Gen/Scales.v)
   satisfy the boolean side conditions of Proofs/ChainFacts.v; the kernel
   evaluates them.                                                            *)
From Coq Require Import ZArith List String Bool.
From V Require Import Model.Chain Spec.ConfidenceSpec Gen.Scales Proofs.ChainFacts.

Ltac decide_by_computation := vm_compute; reflexivity.

(* facts about the frozen specification only *)
Lemma nlmh_inside : table_inside nlmh_ranges = true. Proof. decide_by_computation. Qed.
Lemma nlmh_contiguous : contiguous 0 nlmh_ranges = true. Proof. decide_by_computation. Qed.
Lemma nlmh_nodup : nodupb (labels_of nlmh_ranges) = true. Proof. decide_by_computation. Qed.
Lemma nlmh_rt : table_roundtrip nlmh_labels nlmh_ranges = true. Proof. decide_by_computation. Qed.
Lemma zero_ten_inside : table_inside zero_ten_ranges = true. Proof. decide_by_computation. Qed.
Lemma zero_ten_contiguous : contiguous 0 zero_ten_ranges = true. Proof. decide_by_computation. Qed.
Lemma zero_ten_nodup : nodupb (labels_of zero_ten_ranges) = true. Proof. decide_by_computation. Qed.
Lemma zero_ten_rt : table_roundtrip zero_ten_labels zero_ten_ranges = true. Proof. decide_by_computation. Qed.
Lemma admiralty_inside : table_inside admiralty_ranges = true. Proof. decide_by_computation. Qed.
Lemma admiralty_contiguous : contiguous 0 admiralty_ranges = true. Proof. decide_by_computation. Qed.
Lemma admiralty_nodup : nodupb (labels_of admiralty_ranges) = true. Proof. decide_by_computation. Qed.
Lemma admiralty_rt : table_roundtrip admiralty_labels admiralty_ranges = true. Proof. decide_by_computation. Qed.
Lemma wep_inside : table_inside wep_ranges = true. Proof. decide_by_computation. Qed.
Lemma wep_contiguous : contiguous 0 wep_ranges = true. Proof. decide_by_computation. Qed.
Lemma wep_nodup : nodupb (labels_of wep_ranges) = true. Proof. decide_by_computation. Qed.
Lemma wep_rt : table_roundtrip wep_labels wep_ranges = true. Proof. decide_by_computation. Qed.
Lemma dni_inside : table_inside dni_ranges = true. Proof. decide_by_computation. Qed.
Lemma dni_contiguous : contiguous 0 dni_ranges = true. Proof. decide_by_computation. Qed.
Lemma dni_nodup : nodupb (labels_of dni_ranges) = true. Proof. decide_by_computation. Qed.
Lemma dni_rt : table_roundtrip dni_labels dni_ranges = true. Proof. decide_by_computation. Qed.

(* OBLIGATIONS about the current source: each is one kernel evaluation over the
   finite window / label set; ChainFacts lifts it to all of Z / all strings. *)
Lemma nlmh_chain_ok : chain_matches_table value_to_none_low_medium_high_chain nlmh_ranges = true.
Proof. decide_by_computation. Qed.
Lemma nlmh_fun_ok : lfun_matches_table none_low_med_high_to_value_fun nlmh_labels = true.
Proof. decide_by_computation. Qed.
Lemma zero_ten_chain_ok : chain_matches_table value_to_zero_ten_chain zero_ten_ranges = true.
Proof. decide_by_computation. Qed.
Lemma zero_ten_fun_ok : lfun_matches_table zero_ten_to_value_fun zero_ten_labels = true.
Proof. decide_by_computation. Qed.
Lemma admiralty_chain_ok : chain_matches_table value_to_admiralty_credibility_chain admiralty_ranges = true.
Proof. decide_by_computation. Qed.
Lemma admiralty_fun_ok : lfun_matches_table admiralty_credibility_to_value_fun admiralty_labels = true.
Proof. decide_by_computation. Qed.
Lemma wep_chain_ok : chain_matches_table value_to_wep_chain wep_ranges = true.
Proof. decide_by_computation. Qed.
Lemma wep_fun_ok : lfun_matches_table wep_to_value_fun wep_labels = true.
Proof. decide_by_computation. Qed.
Lemma dni_chain_ok : chain_matches_table value_to_dni_chain dni_ranges = true.
Proof. decide_by_computation. Qed.
Lemma dni_fun_ok : lfun_matches_table dni_to_value_fun dni_labels = true.
Proof. decide_by_computation. Qed.

(* Proofs/SchemaCovHashes.v -- C02 coverage extension: per-kind soundness of HashesProperty (KHashes)
   in strict mode, in the statement shape of Proofs/SchemaLeaf.v (sound_at).  With allow_custom=False
   every key the library keeps is a specification name (the key given is replaced by the specification
   name that infers to the same algorithm) and its value passed the algorithm's regular expression
   (repaired variant: \Z-anchored), which is the specification's rule for that name.

   Side condition on the table (hash_names_ok): every specification name of the property infers to an
   algorithm.  Without it the statement is false of the model: a listed name that infers to nothing
   keeps whatever value was given, a non-string included.                                           *)
From Coq Require Import NArith ZArith List String Bool Lia.
From V Require Import Base.UString Base.Json Model.SchemaTypes Model.PyBase Model.Schema
     Spec.StixValid Spec.SchemaRefine Proofs.SchemaBasics Proofs.SchemaLeaf.
Import ListNotations.

Local Arguments u : simpl never.

Definition hash_names_ok (names : list ustring) : bool :=
  forallb (fun n => match infer_hash n with Some _ => true | None => false end) names.

(* ---- the value rule per algorithm ---- *)
Lemma hexlen_ok_true lens s :
  hexlen_ok true lens s = forallb is_hexdigit s && existsb (Nat.eqb (List.length s)) lens.
Proof. unfold hexlen_ok, dollar. cbn [negb andb]. apply orb_false_r. Qed.

Lemma hexlen_strict n s : hexlen_ok true [n] s = true -> strict_hexlen n s = true.
Proof. rewrite hexlen_ok_true. unfold strict_hexlen. cbn [existsb]. rewrite orb_false_r. auto. Qed.

Lemma ck_md5 s : check_hash true (u "MD5") s = hexlen_ok true [32%nat] s. Proof. reflexivity. Qed.
Lemma ck_md6 s : check_hash true (u "MD6") s = hexlen_ok true [32; 40; 56; 64; 96; 128]%nat s. Proof. reflexivity. Qed.
Lemma ck_ripemd s : check_hash true (u "RIPEMD160") s = hexlen_ok true [40%nat] s. Proof. reflexivity. Qed.
Lemma ck_sha1 s : check_hash true (u "SHA1") s = hexlen_ok true [40%nat] s. Proof. reflexivity. Qed.
Lemma ck_sha224 s : check_hash true (u "SHA224") s = hexlen_ok true [56%nat] s. Proof. reflexivity. Qed.
Lemma ck_sha256 s : check_hash true (u "SHA256") s = hexlen_ok true [64%nat] s. Proof. reflexivity. Qed.
Lemma ck_sha384 s : check_hash true (u "SHA384") s = hexlen_ok true [96%nat] s. Proof. reflexivity. Qed.
Lemma ck_sha512 s : check_hash true (u "SHA512") s = hexlen_ok true [128%nat] s. Proof. reflexivity. Qed.
Lemma ck_sha3224 s : check_hash true (u "SHA3224") s = hexlen_ok true [56%nat] s. Proof. reflexivity. Qed.
Lemma ck_sha3256 s : check_hash true (u "SHA3256") s = hexlen_ok true [64%nat] s. Proof. reflexivity. Qed.
Lemma ck_sha3384 s : check_hash true (u "SHA3384") s = hexlen_ok true [96%nat] s. Proof. reflexivity. Qed.
Lemma ck_sha3512 s : check_hash true (u "SHA3512") s = hexlen_ok true [128%nat] s. Proof. reflexivity. Qed.
Lemma ck_whirlpool s : check_hash true (u "WHIRLPOOL") s = hexlen_ok true [128%nat] s. Proof. reflexivity. Qed.
Lemma ck_tlsh s : check_hash true (u "TLSH") s = hexlen_ok true [70%nat] s. Proof. reflexivity. Qed.
Lemma ck_ssdeep s :
  check_hash true (u "SSDEEP") s =
  dollar true (fun x => forallb is_ssdeep_char x && Nat.leb 1 (List.length x) && Nat.leb (List.length x) 128) s.
Proof. reflexivity. Qed.

(* a specification name and the algorithm it infers to: the library's regular expression for the
   algorithm (repaired variant) implies the specification's rule for the name.  The proof script works
   for both spellings of Spec/StixValid.v:valid_hash_value (keyed on the literal name, or on the
   algorithm the name infers to).                                                                 *)
Lemma infer_hash_enum n alg : infer_hash n = Some alg -> In alg hash_enum_names.
Proof.
  unfold infer_hash. destruct (mem_ustr _ hash_enum_names) eqn:E; try discriminate.
  intros H. injection H as <-. apply mem_ustr_In. exact E.
Qed.

(* valid_hash_value keyed on the algorithm *)
Ltac hv_alg Hinf Hck :=
  let Hin := fresh "Hin" in
  pose proof (infer_hash_enum _ _ Hinf) as Hin; unfold valid_hash_value; rewrite Hinf; cbv zeta;
  unfold hash_enum_names in Hin; cbn [map In] in Hin;
  destruct Hin as [E|[E|[E|[E|[E|[E|[E|[E|[E|[E|[E|[E|[E|[E|[E|[]]]]]]]]]]]]]]]]; subst;
  [ rewrite ck_md5 in Hck; exact (hexlen_strict _ _ Hck)
  | rewrite ck_md6, hexlen_ok_true in Hck; exact Hck
  | rewrite ck_ripemd in Hck; exact (hexlen_strict _ _ Hck)
  | rewrite ck_sha1 in Hck; exact (hexlen_strict _ _ Hck)
  | rewrite ck_sha224 in Hck; exact (hexlen_strict _ _ Hck)
  | rewrite ck_sha256 in Hck; exact (hexlen_strict _ _ Hck)
  | rewrite ck_sha384 in Hck; exact (hexlen_strict _ _ Hck)
  | rewrite ck_sha512 in Hck; exact (hexlen_strict _ _ Hck)
  | rewrite ck_sha3224 in Hck; exact (hexlen_strict _ _ Hck)
  | rewrite ck_sha3256 in Hck; exact (hexlen_strict _ _ Hck)
  | rewrite ck_sha3384 in Hck; exact (hexlen_strict _ _ Hck)
  | rewrite ck_sha3512 in Hck; exact (hexlen_strict _ _ Hck)
  | rewrite ck_ssdeep in Hck; unfold dollar in Hck; cbn [negb andb] in Hck; rewrite orb_false_r in Hck; exact Hck
  | rewrite ck_whirlpool in Hck; exact (hexlen_strict _ _ Hck)
  | rewrite ck_tlsh in Hck; exact (hexlen_strict _ _ Hck) ].

(* valid_hash_value keyed on the literal name *)
Ltac hcase E Hinf Hck lit lem :=
  apply ustr_eqb_eq in E; subst;
  let A := fresh "A" in
  match type of Hinf with
  | infer_hash _ = Some ?alg =>
    assert (A : alg = u lit) by (vm_compute in Hinf; injection Hinf as <-; reflexivity)
  end;
  subst; rewrite lem in Hck; cbn [orb]; try (apply hexlen_strict; exact Hck).

Ltac hv_name n s Hinf Hck :=
  unfold valid_hash_value; cbv zeta;
  destruct (ustr_eqb n (u "MD5")) eqn:E1; [hcase E1 Hinf Hck "MD5"%string ck_md5|];
  destruct (ustr_eqb n (u "SHA-1")) eqn:E2; [hcase E2 Hinf Hck "SHA1"%string ck_sha1|];
  destruct (ustr_eqb n (u "SHA-224")) eqn:E3; [hcase E3 Hinf Hck "SHA224"%string ck_sha224|];
  destruct (ustr_eqb n (u "SHA3-224")) eqn:E4; [hcase E4 Hinf Hck "SHA3224"%string ck_sha3224|];
  cbn [orb];
  destruct (ustr_eqb n (u "SHA-256")) eqn:E5; [hcase E5 Hinf Hck "SHA256"%string ck_sha256|];
  destruct (ustr_eqb n (u "SHA3-256")) eqn:E6; [hcase E6 Hinf Hck "SHA3256"%string ck_sha3256|];
  cbn [orb];
  destruct (ustr_eqb n (u "SHA-384")) eqn:E7; [hcase E7 Hinf Hck "SHA384"%string ck_sha384|];
  destruct (ustr_eqb n (u "SHA3-384")) eqn:E8; [hcase E8 Hinf Hck "SHA3384"%string ck_sha3384|];
  cbn [orb];
  destruct (ustr_eqb n (u "SHA-512")) eqn:E9; [hcase E9 Hinf Hck "SHA512"%string ck_sha512|];
  destruct (ustr_eqb n (u "SHA3-512")) eqn:E10; [hcase E10 Hinf Hck "SHA3512"%string ck_sha3512|];
  destruct (ustr_eqb n (u "WHIRLPOOL")) eqn:E11; [hcase E11 Hinf Hck "WHIRLPOOL"%string ck_whirlpool|];
  cbn [orb];
  destruct (ustr_eqb n (u "RIPEMD-160")) eqn:E12; [hcase E12 Hinf Hck "RIPEMD160"%string ck_ripemd|];
  destruct (ustr_eqb n (u "TLSH")) eqn:E13; [hcase E13 Hinf Hck "TLSH"%string ck_tlsh|];
  destruct (ustr_eqb n (u "MD6")) eqn:E14;
    [hcase E14 Hinf Hck "MD6"%string ck_md6; rewrite hexlen_ok_true in Hck; exact Hck|];
  destruct (ustr_eqb n (u "SSDEEP")) eqn:E15;
    [hcase E15 Hinf Hck "SSDEEP"%string ck_ssdeep; unfold dollar in Hck; cbn [negb andb] in Hck;
     rewrite orb_false_r in Hck; exact Hck|];
  reflexivity.

Lemma check_hash_valid n alg s :
  infer_hash n = Some alg -> check_hash true alg s = true -> valid_hash_value n s = true.
Proof.
  intros Hinf Hck.
  first [ solve [hv_alg Hinf Hck] | solve [hv_name n s Hinf Hck] ].
Qed.

Lemma hash_spec_name_spec names alg n :
  hash_spec_name names alg = Some n -> In n names /\ infer_hash n = Some alg.
Proof.
  unfold hash_spec_name. intros H. apply find_some in H. destruct H as [Hin Hf].
  apply in_rev in Hin. split; auto.
  destruct (infer_hash n) as [a|]; try discriminate. apply ustr_eqb_eq in Hf. subst. reflexivity.
Qed.

Section CovHashes.
  Variable vr : variant.
  Variables w sp : world.
  Variable pok : ver -> ustring -> bool.
  Variable rc : ustring -> bool -> bool -> list (ustring * jvalue) -> result pval.
  Variable rp : bool -> bool -> list (ustring * jvalue) -> result pval.
  Variable ro : ver -> list (ustring * ustring) -> bool -> list (ustring * jvalue) -> result pval.

  Notation SA := (sound_at vr w sp pok rc rp ro).

  Hypothesis Hhash : vr_hash_z vr = true.
  Hypothesis Hkey : vr_key_z vr = true.

  (* what every kept entry satisfies *)
  Definition hentry_ok (names' : list ustring) (kv : ustring * pval) : Prop :=
    mem_ustr (fst kv) names' = true /\ exists s, snd kv = PJ (JStr s) /\ valid_hash_value (fst kv) s = true.

  Lemma hashes_loop_sound names names' :
    hash_names_ok names = true -> usubset names names' = true ->
    forall l acc hc0 pv hc,
      (forall kv, In kv acc -> hentry_ok names' kv) ->
      hashes_loop vr names false l acc hc0 = Ok (pv, hc) ->
      exists acc', pv = PMap acc' /\ hc = hc0 /\ (forall kv, In kv acc' -> hentry_ok names' kv) /\
                   (l <> [] \/ acc <> [] -> acc' <> []).
  Proof.
    intros Hn Hs. induction l as [|[k hv] l IH]; intros acc hc0 pv hc Hacc H.
    - simpl in H. injection H as <- <-. exists acc. split; [auto|split; [auto|split; [auto|]]]. intros [E | E]; auto.
    - cbn [hashes_loop] in H. rewrite Hhash in H.
      assert (Step : forall name s acc1,
                 acc1 = aset name (PJ (JStr s)) acc -> mem_ustr name names = true -> valid_hash_value name s = true ->
                 hashes_loop vr names false l acc1 hc0 = Ok (pv, hc) ->
                 exists acc', pv = PMap acc' /\ hc = hc0 /\ (forall kv, In kv acc' -> hentry_ok names' kv) /\
                              ((k, hv) :: l <> [] \/ acc <> [] -> acc' <> [])).
      { intros name s acc1 -> Hm Hv Hl.
        assert (Hacc1 : forall kv, In kv (aset name (PJ (JStr s)) acc) -> hentry_ok names' kv).
        { intros kv Hin. apply In_aset in Hin. destruct Hin as [-> | Hin]; auto.
          split; [eapply usubset_mem; eauto|]. exists s. auto. }
        destruct (IH _ hc0 pv hc Hacc1 Hl) as (acc' & E1 & E2 & E3 & E4).
        exists acc'. split; [auto|split; [auto|split; [auto|]]]. intros _. apply E4. right.
        destruct acc as [|[k0 v0] acc0]; simpl; [discriminate|]. destruct (ustr_eqb name k0); discriminate. }
      destruct (infer_hash k) as [alg|] eqn:Ei.
      + destruct hv as [| | | |s| |]; try discriminate.
        destruct (check_hash true alg s) eqn:Eck; cbn [negb] in H; try discriminate.
        destruct (hash_spec_name names alg) as [n|] eqn:Esn.
        * destruct hc0; cbn [negb andb] in H; try discriminate.
          destruct (hash_spec_name_spec _ _ _ Esn) as [Hin Hinf].
          eapply (Step n s); eauto.
          -- apply mem_ustr_In. auto.
          -- eapply check_hash_valid; eauto.
        * cbn [negb andb] in H. discriminate.
      + destruct hc0; cbn [negb andb orb] in H; try discriminate.
        destruct (mem_ustr k names) eqn:Em; cbn [negb] in H; try discriminate.
        exfalso. unfold hash_names_ok in Hn. rewrite forallb_forall in Hn.
        apply mem_ustr_In in Em. specialize (Hn _ Em). rewrite Ei in Hn. discriminate.
  Qed.

  Lemma cov_sound_hashes names v names' v' :
    hash_names_ok names = true ->
    kind_refines (KHashes names v) (KHashes names' v') = true -> SA (KHashes names v) (KHashes names' v').
  Proof.
    intros Hn Hr x pv hc n H. simpl in Hr. apply andb_true_iff in Hr. destruct Hr as [Hs Hv].
    apply ver_eqb_eq in Hv. subst v'.
    cbn [clean_kind] in H. unfold clean_hashes in H. inv_bind H.
    apply clean_dictionary_inv in Ha. destruct Ha as [-> [_ Hne]].
    assert (Hnil : forall kv : ustring * pval, In kv [] -> hentry_ok names' kv) by (intros kv []).
    destruct (hashes_loop_sound names names' Hn Hs a [] false pv hc Hnil Hb) as (acc' & -> & -> & Hent & Hne').
    split; [auto|split; [exact I|]].
    rewrite encode_PMap.
    change (negb (Nat.eqb (List.length (map (fun kv => (fst kv, encode false (snd kv))) acc')) 0) &&
            forallb (fun kv => mem_ustr (fst kv) names' &&
                               match snd kv with JStr s => valid_hash_value (fst kv) s | _ => false end)
                    (map (fun kv => (fst kv, encode false (snd kv))) acc') = true).
    apply andb_true_iff. split.
    - rewrite map_length. destruct acc'; simpl; auto. exfalso. apply Hne'; auto.
    - rewrite forallb_forall. intros kv Hin. apply in_map_iff in Hin. destruct Hin as [[k x0] [<- Hin]].
      destruct (Hent _ Hin) as [Hm [s [Es Hvs]]]. simpl in *. subst x0. simpl. rewrite Hm, Hvs. reflexivity.
  Qed.
End CovHashes.

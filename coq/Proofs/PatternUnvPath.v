(* Proofs/PatternUnvPath.v -- C10: object paths of the object model and the
   path `unvisit` gives them.                                               *)
From Coq Require Import NArith ZArith List String Bool Lia.
From V Require Import Model.PatternSyntax Spec.PatternSpec Proofs.PatternR Proofs.PatternNumbers Proofs.PatternLit Proofs.PatternPath
  Proofs.PatternCmp Proofs.PatternObs Proofs.PatternEscape Proofs.PatternTokens Proofs.PatternMeaning
  Proofs.PatternUnvConst.
Import ListNotations.
Open Scope N_scope.

(* ---- steps <-> opc ---- *)

Lemma opc_steps_snoc : forall l acc, opc_steps (opc_snoc acc l) = opc_steps acc ++ l.
Proof.
  induction l as [|s r IH]; intros acc; cbn [opc_snoc]; [rewrite app_nil_r; reflexivity|].
  rewrite IH. cbn [opc_steps]. rewrite <- app_assoc. reflexivity.
Qed.

Definition rest_steps (o : option opc) : list pstep := match o with Some c => opc_steps c | None => [] end.

Lemma rest_steps_of : forall l, rest_steps (opc_of_steps l) = l.
Proof. intros [|s r]; [reflexivity|]. cbn [opc_of_steps rest_steps]. rewrite opc_steps_snoc. reflexivity. Qed.

Lemma yield_opc_steps : forall c, yield_opc c = flat_map yield_pstep (opc_steps c).
Proof.
  induction c as [s|l IH r]; cbn [yield_opc opc_steps flat_map]; [rewrite app_nil_r; reflexivity|].
  rewrite flat_map_app, IH. cbn [flat_map]. rewrite app_nil_r. reflexivity.
Qed.

Lemma wf_opc_of_steps : forall c, wf_opc c = forallb wf_pstep (opc_steps c).
Proof.
  induction c as [s|l IH r]; cbn [wf_opc opc_steps forallb]; [rewrite andb_true_r; reflexivity|].
  rewrite forallb_app, IH. cbn [forallb]. rewrite andb_true_r. reflexivity.
Qed.

(* a path, by its type token, first token and list of steps *)
Lemma path_by_steps : forall ty first l,
  let p := ObjPath ty first (opc_of_steps l) in
  path_steps p = l /\
  yield_path p = ty :: t_COLON :: first :: flat_map yield_pstep l /\
  wf_path p = kind_in ty [KIdent; KIdentHyphen] && kind_in first [KIdent; KString] && forallb wf_pstep l /\
  m_path p = MPath (tx ty) (MKey (m_name_text (tx first)) :: map m_pstep l).
Proof.
  intros ty first l p. subst p.
  assert (R : rest_steps (opc_of_steps l) = l) by apply rest_steps_of.
  unfold path_steps, yield_path, wf_path, m_path. cbn [op_type op_first op_rest].
  destruct (opc_of_steps l) as [c|]; cbn [rest_steps] in R; subst l.
  - rewrite yield_opc_steps, wf_opc_of_steps, m_opc_steps. repeat split; reflexivity.
  - cbn. rewrite andb_true_r. repeat split; reflexivity.
Qed.

(* ---- printable components ---- *)


Lemma toks_of_app : forall a b, toks_of (a ++ b) = toks_of a ++ toks_of b.
Proof. induction a as [|[t|] a IH]; intros b; cbn [List.app toks_of]; [reflexivity| |]; rewrite IH; reflexivity. Qed.

Lemma toks_sep_dot : forall x rest,
  toks_of (sep_items [T t_DOT] (x :: rest)) = toks_of x ++ flat_map (fun y => t_DOT :: toks_of y) rest.
Proof.
  intros x rest. revert x. induction rest as [|y r IH]; intros x.
  - cbn [sep_items flat_map]. rewrite app_nil_r. reflexivity.
  - change (sep_items [T t_DOT] (x :: y :: r)) with (x ++ [T t_DOT] ++ sep_items [T t_DOT] (y :: r)).
    rewrite !toks_of_app, IH. cbn [toks_of flat_map List.app]. reflexivity.
Qed.

Lemma later_yield : forall c, flat_map yield_pstep (psteps_of_comp c) = t_DOT :: toks_of (pr_comp c).
Proof. destruct c; reflexivity. Qed.

Lemma later_wf : forall c, comp_okA c = true -> forallb wf_pstep (psteps_of_comp c) = true.
Proof.
  intros c H. unfold comp_okA, name_ok in H. apply andb_true_iff in H. destruct H as [Hn Hi].
  destruct c; cbn [PatternSyntax.psteps_of_comp forallb wf_pstep comp_name] in *; rewrite Hn; [reflexivity| |reflexivity].
  unfold pstep_of_idx. cbn [wf_pstep]. unfold idx_okA in Hi. rewrite Hi. reflexivity.
Qed.

Lemma idx_tok_meaning : forall i, idx_okA i = true -> m_pstep (IndexStep (idx_tok i)) = ma_idx i.
Proof.
  intros i H. unfold idx_okA in H. destruct i as [z|s]; cbn [idx_tok ma_idx m_pstep].
  - fold (int_tok z). destruct (int_tok_kind z) as [[K|K] _]; rewrite K; unfold int_tok; cbn [tx]; rewrite py_int_dec; reflexivity.
  - cbn [tk tx]. destruct (ustr_eqb s (u "*")) eqn:E; [reflexivity|].
    unfold num_kind. destruct s as [|c r]; [reflexivity|]. destruct (c =? 45); reflexivity.
Qed.

Lemma later_meaning : forall c, comp_okA c = true -> map m_pstep (psteps_of_comp c) = ma_comp c.
Proof.
  intros c H. unfold comp_okA in H. apply andb_true_iff in H. destruct H as [Hn Hi].
  destruct c; cbn [PatternSyntax.psteps_of_comp map m_pstep PatternSyntax.ma_comp]; try reflexivity.
  unfold pstep_of_idx. rewrite (idx_tok_meaning idx Hi). reflexivity.
Qed.

Lemma flat_map_flat_map : forall (A B C : Type) (f : A -> list B) (g : B -> list C) l,
  flat_map g (flat_map f l) = flat_map (fun x => flat_map g (f x)) l.
Proof. intros A B C f g l. induction l as [|x r IH]; [reflexivity|]. cbn [flat_map]. rewrite flat_map_app, IH. reflexivity. Qed.

Lemma flat_map_ext_in : forall (A B : Type) (f g : A -> list B) l, (forall x, In x l -> f x = g x) -> flat_map f l = flat_map g l.
Proof.
  intros A B f g l H. induction l as [|x r IH]; [reflexivity|]. cbn [flat_map].
  rewrite (H x (or_introl eq_refl)), IH; [reflexivity|]. intros y Hy. apply H. right. exact Hy.
Qed.

Lemma map_flat_map : forall (A B C : Type) (f : A -> list B) (g : B -> C) l,
  map g (flat_map f l) = flat_map (fun x => map g (f x)) l.
Proof. intros A B C f g l. induction l as [|x r IH]; [reflexivity|]. cbn [flat_map]. rewrite map_app, IH. reflexivity. Qed.

Lemma forallb_flat_map : forall (A B : Type) (f : A -> list B) (g : B -> bool) l,
  (forall x, In x l -> forallb g (f x) = true) -> forallb g (flat_map f l) = true.
Proof.
  intros A B f g l H. induction l as [|x r IH]; [reflexivity|]. cbn [flat_map]. rewrite forallb_app, (H x (or_introl eq_refl)).
  apply IH. intros y Hy. apply H. right. exact Hy.
Qed.

Lemma later_yield_all : forall r,
  flat_map yield_pstep (flat_map psteps_of_comp r) = flat_map (fun y => t_DOT :: toks_of y) (map pr_comp r).
Proof.
  induction r as [|c r IH]; [reflexivity|]. cbn [flat_map map]. rewrite flat_map_app, later_yield, IH. reflexivity.
Qed.

(* unvisit of a printable path: a well-formed path with the printed tokens and the same meaning *)
Lemma unv_path_ok : forall p, apath_ok p = true ->
  exists op, unv_path p = Some op /\ wf_path op = true /\ yield_path op = toks_of (pr_path p) /\ m_path op = ma_path p.
Proof.
  intros [ty comps] H. unfold apath_ok in H. cbn [ap_type ap_comps] in H.
  apply andb_true_iff in H. destruct H as [H Hc]. apply andb_true_iff in H. destruct H as [Hty Hne].
  destruct comps as [|c r]; [discriminate|]. cbn [forallb] in Hc. apply andb_true_iff in Hc. destruct Hc as [Hc0 Hr].
  assert (Hr' : forall x, In x r -> comp_okA x = true) by (apply forallb_forall; exact Hr).
  unfold PatternSyntax.unv_path. cbn [ap_comps ap_type].
  set (fs := match c with ABasic n | ARef n => (name_tok n, []) | AList n i => (name_tok n, [pstep_of_idx i]) end).
  eexists. split; [reflexivity|].
  destruct (path_by_steps (type_tok ty) (fst fs) (snd fs ++ flat_map psteps_of_comp r)) as [_ [Y [W M]]].
  assert (Hf : kind_in (fst fs) [KIdent; KString] = true /\ forallb wf_pstep (snd fs) = true).
  { unfold comp_okA, name_ok in Hc0. apply andb_true_iff in Hc0. destruct Hc0 as [Hn Hi].
    subst fs. destruct c; cbn [fst snd comp_name forallb] in *; split; try exact Hn; try reflexivity.
    unfold pstep_of_idx. cbn [wf_pstep]. unfold idx_okA in Hi. rewrite Hi. reflexivity. }
  destruct Hf as [Hf1 Hf2].
  split; [|split].
  - rewrite W, Hty, Hf1, forallb_app, Hf2. cbn [andb]. apply forallb_flat_map. intros x Hx. apply later_wf, Hr', Hx.
  - rewrite Y. unfold PatternSyntax.pr_path. cbn [ap_type ap_comps map]. rewrite toks_of_app, toks_sep_dot. cbn [toks_of List.app].
    f_equal. f_equal. rewrite flat_map_app, later_yield_all.
    assert (E : fst fs :: flat_map yield_pstep (snd fs) = toks_of (pr_comp c)) by (subst fs; destruct c; reflexivity).
    rewrite <- E. reflexivity.
  - rewrite M. unfold PatternSyntax.ma_path. cbn [ap_type ap_comps flat_map]. unfold type_tok. cbn [tx]. f_equal.
    rewrite map_app, map_flat_map.
    rewrite (flat_map_ext_in _ _ _ ma_comp r (fun x Hx => later_meaning x (Hr' x Hx))).
    change (MKey (m_name_text (tx (fst fs))) :: map m_pstep (snd fs) ++ ?x) with ((MKey (m_name_text (tx (fst fs))) :: map m_pstep (snd fs)) ++ x).
    f_equal. unfold comp_okA in Hc0. apply andb_true_iff in Hc0. destruct Hc0 as [Hn Hi].
    subst fs. destruct c; cbn [fst snd map PatternSyntax.ma_comp]; try reflexivity.
    unfold pstep_of_idx. rewrite (idx_tok_meaning idx Hi). reflexivity.
Qed.

(* ------------------------------------------------------------------ *)
(** * Paths of the shape the visitor produces *)


Lemma string_ok_starts : forall n, string_ok n = true -> starts_with_quote n = true.
Proof. intros n H. destruct (string_ok_shape n H) as [b [E _]]. subst n. reflexivity. Qed.

Lemma plain_lexb : forall s, forallb plain_char s = true -> lex_body s = Some s.
Proof.
  induction s as [|c r IH]; intros H; [reflexivity|]. cbn [forallb] in H. apply andb_true_iff in H. destruct H as [Hc Hr].
  unfold plain_char in Hc. apply andb_true_iff in Hc. destruct Hc as [Hc Hb]. apply andb_true_iff in Hc. destruct Hc as [_ Hq].
  apply negb_true_iff in Hb, Hq. cbn [lex_body]. rewrite Hb, Hq, (IH Hr). reflexivity.
Qed.

Lemma ident_lexb : forall n, ident_ok n = true -> lexb n = true.
Proof. intros n H. unfold lexb. rewrite (plain_lexb n (ident_chars_plain n H)). reflexivity. Qed.

Lemma lexb_no_quote : forall n, lexb n = true -> starts_with_quote n = false.
Proof. intros n H. apply lex_body_no_quote_start. unfold lexb in H. destruct (lex_body n); [discriminate|discriminate]. Qed.

Lemma name_tok_ident : forall n, ident_ok n = true -> name_tok n = Tok KIdent n.
Proof.
  intros n H. pose proof (ident_chars_plain n H) as P. unfold PatternSyntax.name_tok. rewrite quote_if_needed_rep.
  rewrite H, andb_false_r. cbn zeta. rewrite (plain_no_quote_start n P). reflexivity.
Qed.
Lemma name_tok_string : forall n, string_ok n = true -> name_tok n = Tok KString n.
Proof.
  intros n H. pose proof (string_ok_starts n H) as S. unfold PatternSyntax.name_tok. rewrite quote_if_needed_rep.
  rewrite S. cbn [negb andb]. cbn zeta. rewrite S. reflexivity.
Qed.
Lemma name_tok_body : forall n, lexb n = true -> ident_ok n = false -> name_tok n = Tok KString (c_quote :: n ++ [c_quote]).
Proof.
  intros n Hl Hi. unfold PatternSyntax.name_tok. rewrite quote_if_needed_rep, Hi, (lexb_no_quote n Hl). reflexivity.
Qed.

Lemma name_ok_ident : forall n, ident_ok n = true -> name_ok n = true.
Proof. intros n H. unfold name_ok. rewrite (name_tok_ident n H). apply kind_in_make; [reflexivity|exact H]. Qed.
Lemma name_ok_string : forall n, string_ok n = true -> name_ok n = true.
Proof. intros n H. unfold name_ok. rewrite (name_tok_string n H). apply kind_in_make; [reflexivity|exact H]. Qed.
Lemma name_ok_body : forall n, lexb n = true -> name_ok n = true.
Proof.
  intros n Hl. destruct (ident_ok n) eqn:Hi; [apply name_ok_ident; exact Hi|].
  unfold name_ok. rewrite (name_tok_body n Hl Hi). apply kind_in_make; [reflexivity|].
  unfold token_ok. cbn [tk tx]. apply string_token_ok. unfold lexb in Hl. destruct (lex_body n); [discriminate|discriminate].
Qed.

Lemma vidx_ok : forall i, vidx i = true -> idx_okA i = true.
Proof.
  intros [z|s] H; unfold idx_okA, idx_tok.
  - fold (int_tok z). destruct (int_tok_kind z) as [[K|K] O]; apply kind_in_make; try exact O; rewrite K; reflexivity.
  - cbn [vidx] in H. rewrite H. apply kind_in_make; [reflexivity|]. unfold token_ok. cbn [tk tx]. exact H.
Qed.

Lemma vfirst_ok : forall c, vfirst c = true -> comp_okA c = true.
Proof.
  intros c H. unfold comp_okA. destruct c as [n|n i|n]; cbn [vfirst comp_name] in *; [| |discriminate].
  - rewrite andb_true_r. apply orb_true_iff in H. destruct H; [apply name_ok_ident|apply name_ok_string]; assumption.
  - apply andb_true_iff in H. destruct H as [Hn Hi]. rewrite (vidx_ok i Hi), andb_true_r.
    apply orb_true_iff in Hn. destruct Hn; [apply name_ok_ident|apply name_ok_string]; assumption.
Qed.
Lemma vlater_ok : forall c, vlater c = true -> comp_okA c = true.
Proof.
  intros c H. unfold comp_okA. destruct c as [n|n i|n]; cbn [vlater comp_name] in *; [| |discriminate].
  - rewrite andb_true_r. apply name_ok_body. exact H.
  - apply andb_true_iff in H. destruct H as [Hn Hi]. rewrite (vidx_ok i Hi), andb_true_r.
    apply orb_true_iff in Hn. destruct Hn; [apply name_ok_ident|apply name_ok_string]; assumption.
Qed.

Lemma vpath_ok : forall p, vpath p = true -> apath_ok p = true.
Proof.
  intros [ty comps] H. unfold vpath, apath_ok in *. cbn [ap_type ap_comps] in *.
  apply andb_true_iff in H. destruct H as [Hty H]. rewrite Hty.
  destruct comps as [|c r]; [discriminate|]. apply andb_true_iff in H. destruct H as [Hc Hr].
  cbn [is_nil negb forallb andb]. rewrite (vfirst_ok c Hc). cbn [andb].
  apply forallb_forall. intros x Hx. apply vlater_ok. exact (proj1 (forallb_forall _ _) Hr x Hx).
Qed.

(* ---- what the visitor reads back from the steps of visitor-shaped components ---- *)

Definition after (l : list pstep) : list acomp :=
  match l with [] => [] | KeyStep n :: r => comps (pend_of_key n) r | IndexStep _ :: _ => [] end.
Definition after_sem (l : list pstep) : bool :=
  match l with [] => true | KeyStep n :: r => comps_sem (pend_of_key n) r | IndexStep _ :: _ => false end.
Definition starts_key (l : list pstep) : Prop := match l with IndexStep _ :: _ => False | _ => True end.

Lemma comps_flush : forall cur l, starts_key l ->
  comps cur l = emit cur :: after l /\ comps_sem cur l = after_sem l.
Proof.
  intros cur [|[n|i] r] H; cbn; [| |contradiction]; split; reflexivity.
Qed.

Lemma later_starts_key : forall r, starts_key (flat_map psteps_of_comp r).
Proof. intros [|[n|n i|n] r]; exact I. Qed.

Lemma idx_of_tok : forall i, vidx i = true -> idx_of (idx_tok i) = i.
Proof.
  intros [z|s] H; unfold idx_of, idx_tok.
  - fold (int_tok z). destruct (int_tok_kind z) as [[K|K] _]; rewrite K; unfold int_tok; cbn [tx]; rewrite py_int_dec; reflexivity.
  - cbn [vidx] in H. rewrite H. cbn [tk tx]. reflexivity.
Qed.

Lemma str_const_quoted : forall b, str_const (CString b false) = c_quote :: b ++ [c_quote].
Proof. intros b. unfold PatternSyntax.str_const, print_string_const. cbn [PatternSyntax.pr_const text_of flat_map tx]. rewrite app_nil_r. reflexivity. Qed.

Lemma pend_ident : forall n, ident_ok n = true -> pend_of_key (name_tok n) = PName n.
Proof. intros n H. rewrite (name_tok_ident n H). reflexivity. Qed.
Lemma pend_string : forall n, string_ok n = true -> pend_of_key (name_tok n) = PStr (slice_1_m1 n).
Proof. intros n H. rewrite (name_tok_string n H). reflexivity. Qed.
Lemma pend_body : forall n, lexb n = true -> ident_ok n = false -> pend_of_key (name_tok n) = PStr n.
Proof. intros n Hl Hi. rewrite (name_tok_body n Hl Hi). unfold pend_of_key. cbn [tk tx]. rewrite slice_1_m1_quoted. reflexivity. Qed.

Lemma later_after : forall r, forallb vlater r = true ->
  after (flat_map psteps_of_comp r) = r /\ after_sem (flat_map psteps_of_comp r) = true.
Proof.
  induction r as [|c r IH]; intros H; [split; reflexivity|].
  cbn [forallb] in H. apply andb_true_iff in H. destruct H as [Hc Hr]. destruct (IH Hr) as [IA IS].
  pose proof (later_starts_key r) as SK.
  destruct c as [n|n i|n]; cbn [vlater] in Hc; [| |discriminate].
  - (* basic component *)
    cbn [flat_map PatternSyntax.psteps_of_comp List.app after after_sem].
    assert (E : exists cur, pend_of_key (name_tok n) = cur /\ emit cur = ABasic n).
    { destruct (ident_ok n) eqn:Hi.
      - exists (PName n). rewrite (pend_ident n Hi). split; reflexivity.
      - exists (PStr n). rewrite (pend_body n Hc Hi). split; reflexivity. }
    destruct E as [cur [E1 E2]]. rewrite E1.
    destruct (comps_flush cur _ SK) as [C1 C2]. rewrite C1, C2, IA, IS, E2. split; reflexivity.
  - (* list component *)
    cbn [flat_map PatternSyntax.psteps_of_comp List.app after after_sem]. unfold pstep_of_idx.
    apply andb_true_iff in Hc. destruct Hc as [Hn Hi].
    assert (E : exists cur, pend_of_key (name_tok n) = cur /\ idx_name cur = n).
    { apply orb_true_iff in Hn. destruct Hn as [Hn|Hn].
      - exists (PName n). rewrite (pend_ident n Hn). split; reflexivity.
      - exists (PStr (slice_1_m1 n)). rewrite (pend_string n Hn). split; [reflexivity|].
        cbn [idx_name]. rewrite str_const_quoted. apply (quoted_text n Hn). }
    destruct E as [cur [E1 E2]]. rewrite E1.
    cbn [comps comps_sem]. rewrite E2, (idx_of_tok i Hi).
    change (match flat_map psteps_of_comp r with
            | [] => [] | KeyStep n0 :: r' => comps (pend_of_key n0) r' | IndexStep _ :: _ => [] end)
      with (after (flat_map psteps_of_comp r)).
    change (match flat_map psteps_of_comp r with
            | [] => true | KeyStep n0 :: r' => comps_sem (pend_of_key n0) r' | IndexStep _ :: _ => false end)
      with (after_sem (flat_map psteps_of_comp r)).
    rewrite IA, IS. split; reflexivity.
Qed.

Lemma first_name_tx : forall n, ident_ok n || string_ok n = true -> tx (name_tok n) = n.
Proof.
  intros n H. apply orb_true_iff in H. destruct H as [H|H]; [rewrite (name_tok_ident n H)|rewrite (name_tok_string n H)]; reflexivity.
Qed.

(* the visitor reads a visitor-shaped path back from its printed steps *)
Lemma unv_path_back : forall p op, vpath p = true -> unv_path p = Some op ->
  path_sem op = true /\ sv_path_v op = p.
Proof.
  intros [ty comps] op H U. unfold vpath in H. cbn [ap_type ap_comps] in H.
  apply andb_true_iff in H. destruct H as [Hty H].
  destruct comps as [|c r]; [discriminate|]. apply andb_true_iff in H. destruct H as [Hc Hr].
  unfold PatternSyntax.unv_path in U. cbn [ap_comps ap_type] in U. inversion U; subst op; clear U.
  destruct (later_after r Hr) as [LA LS]. pose proof (later_starts_key r) as SK.
  unfold path_sem, sv_path_v.
  match goal with |- context [ObjPath ?a ?b (opc_of_steps ?l)] =>
    destruct (path_by_steps a b l) as [PS _]; cbn zeta in PS; rewrite PS; cbn [op_first op_type] end.
  unfold type_tok. cbn [tx].
  destruct c as [n|n i|n]; cbn [vfirst] in Hc; [| |discriminate]; cbn [fst snd List.app].
  - rewrite (first_name_tx n Hc).
    destruct (comps_flush (PName n) _ SK) as [C1 C2]. rewrite C1, C2, LA, LS. split; reflexivity.
  - apply andb_true_iff in Hc. destruct Hc as [Hn Hi]. rewrite (first_name_tx n Hn). unfold pstep_of_idx.
    cbn [comps comps_sem idx_name]. rewrite (idx_of_tok i Hi).
    change (match flat_map psteps_of_comp r with
            | [] => [] | KeyStep n0 :: r' => comps (pend_of_key n0) r' | IndexStep _ :: _ => [] end)
      with (after (flat_map psteps_of_comp r)).
    change (match flat_map psteps_of_comp r with
            | [] => true | KeyStep n0 :: r' => comps_sem (pend_of_key n0) r' | IndexStep _ :: _ => false end)
      with (after_sem (flat_map psteps_of_comp r)).
    rewrite LA, LS. split; reflexivity.
Qed.

(* ------------------------------------------------------------------ *)
(** * The visitor's paths are of that shape *)

Definition cur_later (c : pending) : Prop :=
  match c with PName n => ident_ok n = true | PStr b => lexb b = true end.

Lemma key_cur_later : forall n, kind_in n [KIdent; KString] = true -> cur_later (pend_of_key n).
Proof.
  intros [k s] H. unfold kind_in in H. apply andb_true_iff in H. destruct H as [Hk Hok].
  unfold token_ok in Hok. cbn [tk tx] in *. unfold pend_of_key. cbn [tk tx].
  destruct k; cbn in Hk; try discriminate; cbn [cur_later].
  - destruct (string_ok_shape s Hok) as [b [E L]]. subst s. rewrite slice_1_m1_quoted. unfold lexb. destruct (lex_body b); [reflexivity|congruence].
  - exact Hok.
Qed.

Lemma idx_of_vidx : forall i, kind_in i [KIntPos; KIntNeg; KASTERISK] = true -> vidx (idx_of i) = true.
Proof.
  intros [k s] H. unfold kind_in in H. apply andb_true_iff in H. destruct H as [Hk Hok].
  unfold token_ok in Hok. cbn [tk tx] in *. unfold idx_of. cbn [tk tx].
  destruct k; cbn in Hk; try discriminate; try reflexivity. exact Hok.
Qed.

Lemma emit_later : forall cur, cur_later cur -> vlater (emit cur) = true.
Proof. intros [n|b] Hc; cbn [emit vlater cur_later] in *; [apply ident_lexb; exact Hc|exact Hc]. Qed.

Lemma list_later : forall cur i, cur_later cur -> kind_in i [KIntPos; KIntNeg; KASTERISK] = true ->
  vlater (AList (idx_name cur) (idx_of i)) = true.
Proof.
  intros [n|b] i Hc Hi; cbn [idx_name vlater cur_later] in *; rewrite (idx_of_vidx i Hi), andb_true_r.
  - rewrite Hc. reflexivity.
  - rewrite str_const_quoted.
    assert (S : string_ok (c_quote :: b ++ [c_quote]) = true).
    { apply string_token_ok. unfold lexb in Hc. destruct (lex_body b); [discriminate|discriminate]. }
    rewrite S. apply orb_true_r.
Qed.

Lemma comps_later : forall l cur, forallb wf_pstep l = true -> cur_later cur -> comps_sem cur l = true ->
  forallb vlater (comps cur l) = true.
Proof.
  fix IH 1. intros l cur Hw Hc Hs. destruct l as [|s r].
  - cbn [comps forallb] in *. rewrite (emit_later cur Hc). reflexivity.
  - cbn [forallb] in Hw. apply andb_true_iff in Hw. destruct Hw as [Hws Hwr].
    destruct s as [n|i]; cbn [comps comps_sem wf_pstep] in *.
    + cbn [forallb]. rewrite (emit_later cur Hc), (IH r (pend_of_key n) Hwr (key_cur_later n Hws) Hs). reflexivity.
    + cbn [forallb]. rewrite (list_later cur i Hc Hws). cbn [andb].
      destruct r as [|[n'|i'] r']; [reflexivity| |discriminate Hs].
      cbn [forallb] in Hwr. apply andb_true_iff in Hwr. destruct Hwr as [Hwn Hwr'].
      apply (IH r' (pend_of_key n') Hwr' (key_cur_later n' Hwn) Hs).
Qed.

Lemma first_tok_name : forall t, kind_in t [KIdent; KString] = true -> ident_ok (tx t) || string_ok (tx t) = true.
Proof.
  intros [k s] H. unfold kind_in in H. apply andb_true_iff in H. destruct H as [Hk Hok].
  unfold token_ok in Hok. cbn [tk tx] in *. destruct k; cbn in Hk; try discriminate; rewrite Hok; [apply orb_true_r|reflexivity].
Qed.

Lemma type_tok_same : forall t, kind_in t [KIdent; KIdentHyphen] = true -> type_tok (tx t) = t.
Proof.
  intros [k s] H. unfold kind_in in H. apply andb_true_iff in H. destruct H as [Hk Hok].
  unfold token_ok in Hok. cbn [tk tx] in *. unfold type_tok.
  destruct k; cbn in Hk; try discriminate.
  - rewrite (plain_no_hyphen s (ident_chars_plain s Hok)). reflexivity.
  - unfold ident_hyphen_ok in Hok. destruct s as [|c r]; [discriminate|].
    apply andb_true_iff in Hok. destruct Hok as [_ Hh]. cbn [mem_N]. rewrite Hh, orb_true_r. reflexivity.
Qed.

Lemma sv_path_vpath : forall p, wf_path p = true -> path_sem p = true -> vpath (sv_path_v p) = true.
Proof.
  intros p Hw Hs. pose proof Hw as Hw0. unfold wf_path in Hw.
  apply andb_true_iff in Hw. destruct Hw as [Hw Hr]. apply andb_true_iff in Hw. destruct Hw as [Hty Hf].
  assert (Hsteps : forallb wf_pstep (path_steps p) = true).
  { unfold path_steps. destruct (op_rest p) as [c|]; [apply wf_opc_steps; exact Hr|reflexivity]. }
  unfold vpath, sv_path_v, path_sem in *. cbn [ap_type ap_comps].
  rewrite (type_tok_same _ Hty), Hty. cbn [andb].
  pose proof (first_tok_name _ Hf) as Fn.
  destruct (path_steps p) as [|[n|i] r].
  - cbn [comps emit vfirst forallb]. rewrite Fn. reflexivity.
  - cbn [comps comps_sem forallb wf_pstep emit] in *. apply andb_true_iff in Hsteps. destruct Hsteps as [Hn Hr'].
    cbn [vfirst]. rewrite Fn. cbn [andb]. apply (comps_later r (pend_of_key n) Hr' (key_cur_later n Hn) Hs).
  - cbn [comps comps_sem forallb wf_pstep idx_name] in *. apply andb_true_iff in Hsteps. destruct Hsteps as [Hi Hr'].
    cbn [vfirst]. rewrite Fn, (idx_of_vidx i Hi). cbn [andb].
    destruct r as [|[n'|i'] r']; [reflexivity| |discriminate Hs].
    cbn [forallb wf_pstep] in Hr'. apply andb_true_iff in Hr'. destruct Hr' as [Hn' Hr''].
    apply (comps_later r' (pend_of_key n') Hr'' (key_cur_later n' Hn') Hs).
Qed.

(* ------------------------------------------------------------------ *)
(** * The path unvisit gives never has two index steps in a row *)

Lemma after_sem_later : forall r, after_sem (flat_map psteps_of_comp r) = true.
Proof.
  induction r as [|c r IH]; [reflexivity|]. pose proof (later_starts_key r) as SK.
  destruct c as [n|n i|n]; cbn [flat_map PatternSyntax.psteps_of_comp List.app after_sem].
  - destruct (comps_flush (pend_of_key (name_tok n)) _ SK) as [_ C]. rewrite C. exact IH.
  - unfold pstep_of_idx. cbn [comps_sem].
    change (match flat_map psteps_of_comp r with
            | [] => true | KeyStep n0 :: r' => comps_sem (pend_of_key n0) r' | IndexStep _ :: _ => false end)
      with (after_sem (flat_map psteps_of_comp r)). exact IH.
  - destruct (comps_flush (pend_of_key (name_tok n)) _ SK) as [_ C]. rewrite C. exact IH.
Qed.

Lemma unv_path_sem : forall p op, unv_path p = Some op -> path_sem op = true.
Proof.
  intros [ty comps] op U. unfold PatternSyntax.unv_path in U. cbn [ap_comps ap_type] in U.
  destruct comps as [|c r]; [discriminate|]. inversion U; subst op; clear U.
  pose proof (after_sem_later r) as LS. pose proof (later_starts_key r) as SK.
  unfold path_sem.
  match goal with |- context [ObjPath ?a ?b (opc_of_steps ?l)] =>
    destruct (path_by_steps a b l) as [PS _]; cbn zeta in PS; rewrite PS; cbn [op_first] end.
  destruct c as [n|n i|n]; cbn [fst snd List.app].
  - destruct (comps_flush (PName (tx (name_tok n))) _ SK) as [_ C]. rewrite C. exact LS.
  - unfold pstep_of_idx. cbn [comps_sem].
    change (match flat_map psteps_of_comp r with
            | [] => true | KeyStep n0 :: r' => comps_sem (pend_of_key n0) r' | IndexStep _ :: _ => false end)
      with (after_sem (flat_map psteps_of_comp r)). exact LS.
  - destruct (comps_flush (PName (tx (name_tok n))) _ SK) as [_ C]. rewrite C. exact LS.
Qed.

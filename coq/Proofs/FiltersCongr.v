(* Proofs/FiltersCongr.v -- Python's == on values is an equivalence on
   well-formed values (a dict has each key once), and every operator of
   Filter._check_property gives the same answer for two filter values that
   are ==.  Hence FilterSet.add, which drops a filter == to one already
   present, never changes a verdict: the FilterSet theorems need no
   hypothesis on the filters beyond well-formedness of the values.        *)
From Coq Require Import NArith ZArith List String Bool Permutation Lia.
From V Require Import Base.UString Model.Filters Spec.FilterSpec Proofs.FiltersBasics Proofs.FiltersOpt Proofs.FiltersFs Proofs.FiltersLaws.
Import ListNotations.

(* ---- induction over values ---- *)

Section PvInd.
  Variable P : pv -> Prop.
  Hypothesis HNone : P VNone.
  Hypothesis HBool : forall b, P (VBool b).
  Hypothesis HInt : forall z, P (VInt z).
  Hypothesis HFloat : forall m, P (VFloat m).
  Hypothesis HStr : forall s, P (VStr s).
  Hypothesis HTime : forall t, P (VTime t).
  Hypothesis HList : forall l, Forall P l -> P (VList l).
  Hypothesis HTuple : forall l, Forall P l -> P (VTuple l).
  Hypothesis HDict : forall m, Forall (fun kv => P (snd kv)) m -> P (VDict m).

  Fixpoint pv_ind' (x : pv) : P x :=
    match x with
    | VNone => HNone
    | VBool b => HBool b
    | VInt z => HInt z
    | VFloat m => HFloat m
    | VStr s => HStr s
    | VTime t => HTime t
    | VList l => HList l ((fix go (l : list pv) : Forall P l :=
                             match l with [] => Forall_nil _ | y :: l' => Forall_cons y (pv_ind' y) (go l') end) l)
    | VTuple l => HTuple l ((fix go (l : list pv) : Forall P l :=
                               match l with [] => Forall_nil _ | y :: l' => Forall_cons y (pv_ind' y) (go l') end) l)
    | VDict m => HDict m ((fix go (m : list (ustring * pv)) : Forall (fun kv => P (snd kv)) m :=
                             match m with [] => Forall_nil _ | kv :: m' => Forall_cons kv (pv_ind' (snd kv)) (go m') end) m)
    end.
End PvInd.

(* a Python value: every dict has each key once *)
Inductive wfv : pv -> Prop :=
| wf_none : wfv VNone
| wf_bool : forall b, wfv (VBool b)
| wf_int : forall z, wfv (VInt z)
| wf_float : forall m, wfv (VFloat m)
| wf_str : forall s, wfv (VStr s)
| wf_time : forall t, wfv (VTime t)
| wf_list : forall l, Forall wfv l -> wfv (VList l)
| wf_tuple : forall l, Forall wfv l -> wfv (VTuple l)
| wf_dict : forall m, NoDup (map fst m) -> Forall (fun kv => wfv (snd kv)) m -> wfv (VDict m).

(* ---- == unfolded ---- *)

Fixpoint list_eqb (a b : list pv) : bool :=
  match a, b with
  | [], [] => true
  | x :: a', y :: b' => py_eq x y && list_eqb a' b'
  | _, _ => false
  end.

Definition dict_sub (a b : list (ustring * pv)) : bool :=
  forallb (fun kv => match plookup (fst kv) b with Some w => py_eq (snd kv) w | None => false end) a.

Lemma py_eq_list : forall a b, py_eq (VList a) (VList b) = list_eqb a b.
Proof. induction a; destruct b; simpl; auto. Qed.

Lemma py_eq_tuple : forall a b, py_eq (VTuple a) (VTuple b) = list_eqb a b.
Proof. induction a; destruct b; simpl; auto. Qed.

Lemma py_eq_dict : forall a b, py_eq (VDict a) (VDict b) = Nat.eqb (List.length a) (List.length b) && dict_sub a b.
Proof.
  intros a b. simpl. f_equal. unfold dict_sub. induction a as [|[k v] a IH]; simpl; auto. rewrite IH. reflexivity.
Qed.

(* ---- dictionaries ---- *)

Lemma plookup_in : forall k v m, NoDup (map fst m) -> In (k, v) m -> plookup k m = Some v.
Proof.
  induction m as [|[k' v'] m IH]; simpl; intros Hn Hin; [contradiction|].
  inversion Hn; subst. destruct Hin as [E | Hin].
  - inversion E; subst. rewrite ustr_eqb_refl. reflexivity.
  - destruct (ustr_eqb k k') eqn:E.
    + apply ustr_eqb_eq in E. subst. exfalso. apply H1. apply in_map_iff. exists (k', v). auto.
    + apply IH; auto.
Qed.

Lemma plookup_some_in : forall k v m, plookup k m = Some v -> In (k, v) m.
Proof.
  induction m as [|[k' v'] m IH]; simpl; intro H; [discriminate|].
  destruct (ustr_eqb k k') eqn:E.
  - apply ustr_eqb_eq in E. inversion H; subst. left; auto.
  - right. auto.
Qed.

Lemma plookup_none : forall k m, plookup k m = None <-> ~ In k (map fst m).
Proof.
  induction m as [|[k' v'] m IH]; simpl.
  - tauto.
  - destruct (ustr_eqb k k') eqn:E.
    + apply ustr_eqb_eq in E. subst. split; [discriminate | intro H; exfalso; apply H; auto].
    + apply ustr_eqb_neq in E. rewrite IH. split; intro H; [intros [H1 | H1]; auto | intro H1; apply H; auto].
Qed.

Lemma dict_sub_spec : forall a b, dict_sub a b = true <->
  (forall k v, In (k, v) a -> exists w, plookup k b = Some w /\ py_eq v w = true).
Proof.
  intros a b. unfold dict_sub. rewrite forallb_forall. split.
  - intros H k v Hin. specialize (H (k, v) Hin). simpl in H. destruct (plookup k b) as [w|]; [eauto | discriminate].
  - intros H [k v] Hin. simpl. destruct (H k v Hin) as [w [Hw He]]. rewrite Hw. auto.
Qed.

(* equal dictionaries have the same keys *)
Lemma dict_keys_same : forall a b,
  NoDup (map fst a) -> List.length a = List.length b -> dict_sub a b = true ->
  forall k, In k (map fst a) <-> In k (map fst b).
Proof.
  intros a b Hn Hlen Hsub.
  assert (Hincl : incl (map fst a) (map fst b)).
  { intros k Hk. apply in_map_iff in Hk. destruct Hk as [[k' v] [E Hin]]. simpl in E. subst k'.
    rewrite dict_sub_spec in Hsub. destruct (Hsub k v Hin) as [w [Hw _]].
    apply plookup_some_in in Hw. apply in_map_iff. exists (k, w). auto. }
  intro k. split; [apply Hincl|].
  apply (NoDup_length_incl Hn); auto. rewrite !map_length. lia.
Qed.

(* ---- symmetry ---- *)

Lemma num_eq_sym : forall x y, match num_of x, num_of y with Some p, Some q => Z.eqb p q | _, _ => false end =
                               match num_of y, num_of x with Some p, Some q => Z.eqb p q | _, _ => false end.
Proof. intros. destruct (num_of x), (num_of y); auto. apply Z.eqb_sym. Qed.

Lemma wfv_list_inv : forall l, wfv (VList l) -> Forall wfv l.
Proof. intros l H. inversion H; auto. Qed.
Lemma wfv_tuple_inv : forall l, wfv (VTuple l) -> Forall wfv l.
Proof. intros l H. inversion H; auto. Qed.
Lemma wfv_dict_inv : forall m, wfv (VDict m) -> NoDup (map fst m) /\ Forall (fun kv => wfv (snd kv)) m.
Proof. intros m H. inversion H; auto. Qed.

Lemma list_eqb_sym : forall a, Forall (fun x => forall y, wfv x -> wfv y -> py_eq x y = py_eq y x) a ->
  forall b, Forall wfv a -> Forall wfv b -> list_eqb a b = list_eqb b a.
Proof.
  induction a as [|x a IH]; intros HF b Ha Hb; destruct b as [|y b]; simpl; auto.
  inversion HF; subst. inversion Ha; subst. inversion Hb; subst. rewrite H1; auto. rewrite IH; auto.
Qed.

Lemma dict_sub_flip : forall a b,
  (forall k v w, In (k, v) a -> In (k, w) b -> py_eq v w = true -> py_eq w v = true) ->
  NoDup (map fst a) -> NoDup (map fst b) ->
  List.length a = List.length b -> dict_sub a b = true -> dict_sub b a = true.
Proof.
  intros a b Hsym Hna Hnb Hlen Hsub. apply dict_sub_spec. intros k w Hin.
  assert (Hk : In k (map fst a)).
  { apply (dict_keys_same a b Hna Hlen Hsub). apply in_map_iff. exists (k, w). auto. }
  apply in_map_iff in Hk. destruct Hk as [[k' v] [E Hina]]. simpl in E. subst k'.
  exists v. split; [apply plookup_in; auto|].
  rewrite dict_sub_spec in Hsub. destruct (Hsub k v Hina) as [w' [Hw' He]].
  rewrite (plookup_in k w b Hnb Hin) in Hw'. inversion Hw'; subst w'. eapply Hsym; eauto.
Qed.

Theorem py_eq_sym : forall x y, wfv x -> wfv y -> py_eq x y = py_eq y x.
Proof.
  induction x using pv_ind'; intros y Hx Hy.
  - destruct y; simpl; auto.
  - destruct y; simpl; auto using Z.eqb_sym.
  - destruct y; simpl; auto using Z.eqb_sym.
  - destruct y; simpl; auto using Z.eqb_sym.
  - destruct y; simpl; auto using ustr_eqb_sym.
  - destruct y; simpl; auto using Z.eqb_sym.
  - destruct y; try reflexivity. rewrite !py_eq_list.
    apply list_eqb_sym; auto using wfv_list_inv.
  - destruct y; try reflexivity. rewrite !py_eq_tuple.
    apply list_eqb_sym; auto using wfv_tuple_inv.
  - destruct y as [| | | | | | | |m']; try reflexivity. rewrite !py_eq_dict.
    destruct (wfv_dict_inv _ Hx) as [Hn Hw]. destruct (wfv_dict_inv _ Hy) as [Hn' Hw'].
    rewrite (Nat.eqb_sym (List.length m')).
    destruct (Nat.eqb (List.length m) (List.length m')) eqn:EL; simpl; auto.
    apply Nat.eqb_eq in EL.
    rewrite Forall_forall in H, Hw, Hw'.
    destruct (dict_sub m m') eqn:E1; destruct (dict_sub m' m) eqn:E2; auto.
    + rewrite (dict_sub_flip m m') in E2; auto.
      intros k v w Hv Hw0 He. assert (E := H (k, v) Hv w (Hw (k, v) Hv) (Hw' (k, w) Hw0)). simpl in E. congruence.
    + rewrite (dict_sub_flip m' m) in E1; auto.
      intros k w v Hw0 Hv He. assert (E := H (k, v) Hv w (Hw (k, v) Hv) (Hw' (k, w) Hw0)). simpl in E. congruence.
Qed.

(* ---- transitivity ---- *)

Lemma list_eqb_trans : forall a,
  Forall (fun x => forall y z, py_eq x y = true -> py_eq y z = true -> py_eq x z = true) a ->
  forall b c, list_eqb a b = true -> list_eqb b c = true -> list_eqb a c = true.
Proof.
  induction a as [|x a IH]; intros HF b c H1 H2; destruct b as [|y b]; destruct c as [|z c]; simpl in *; try discriminate; auto.
  inversion HF; subst. apply andb_true_iff in H1. apply andb_true_iff in H2. apply andb_true_iff.
  destruct H1, H2. split; eauto.
Qed.

Ltac scalar_trans :=
  let H1 := fresh in let H2 := fresh in
  intros H1 H2; simpl in *; try discriminate;
  try (apply Z.eqb_eq in H1; apply Z.eqb_eq in H2; apply Z.eqb_eq; congruence);
  try (apply ustr_eqb_eq in H1; apply ustr_eqb_eq in H2; apply ustr_eqb_eq; congruence);
  auto.

Theorem py_eq_trans : forall x y z, py_eq x y = true -> py_eq y z = true -> py_eq x z = true.
Proof.
  induction x using pv_ind'; intros y0 z0.
  - destruct y0, z0; scalar_trans.
  - destruct y0, z0; scalar_trans.
  - destruct y0, z0; scalar_trans.
  - destruct y0, z0; scalar_trans.
  - destruct y0, z0; scalar_trans.
  - destruct y0, z0; scalar_trans.
  - destruct y0; try (intro Hd; simpl in Hd; discriminate).
    destruct z0; try (intros _ Hd; simpl in Hd; discriminate).
    rewrite !py_eq_list. apply list_eqb_trans. auto.
  - destruct y0; try (intro Hd; simpl in Hd; discriminate).
    destruct z0; try (intros _ Hd; simpl in Hd; discriminate).
    rewrite !py_eq_tuple. apply list_eqb_trans. auto.
  - destruct y0 as [| | | | | | | |b]; try (intro Hd; simpl in Hd; discriminate).
    destruct z0 as [| | | | | | | |c]; try (intros _ Hd; simpl in Hd; discriminate).
    rewrite !py_eq_dict. intros H1 H2.
    apply andb_true_iff in H1. apply andb_true_iff in H2. destruct H1 as [L1 S1]. destruct H2 as [L2 S2].
    apply andb_true_iff. split.
    + apply Nat.eqb_eq in L1. apply Nat.eqb_eq in L2. apply Nat.eqb_eq. congruence.
    + rewrite dict_sub_spec in *. intros k v Hin. destruct (S1 k v Hin) as [w [Hw He]].
      destruct (S2 k w (plookup_some_in _ _ _ Hw)) as [u [Hu He2]]. exists u. split; auto.
      rewrite Forall_forall in H. apply (H (k, v) Hin w u); auto.
Qed.

(* == of two values is invisible to a third *)
Lemma py_eq_congr_r : forall x v w, wfv x -> wfv v -> wfv w -> py_eq v w = true -> py_eq x v = py_eq x w.
Proof.
  intros x v w Hx Hv Hw E. destruct (py_eq x v) eqn:A; destruct (py_eq x w) eqn:B; auto.
  - rewrite (py_eq_trans x v w A E) in B. discriminate.
  - rewrite (py_eq_sym v w Hv Hw) in E. rewrite (py_eq_trans x w v B E) in A. discriminate.
Qed.

Lemma py_eq_congr_l : forall x v w, wfv x -> wfv v -> wfv w -> py_eq v w = true -> py_eq v x = py_eq w x.
Proof.
  intros x v w Hx Hv Hw E. rewrite (py_eq_sym v x), (py_eq_sym w x); auto. apply py_eq_congr_r; auto.
Qed.

(* ---- what == says about the kind of the two values ---- *)

Definition is_num (x : pv) : bool := match x with VBool _ | VInt _ | VFloat _ => true | _ => false end.

Lemma eq_str_r : forall v s, py_eq v (VStr s) = true -> v = VStr s.
Proof. intros v s H. destruct v; simpl in H; try discriminate. apply ustr_eqb_eq in H. subst. auto. Qed.

Lemma eq_time_l : forall t w, py_eq (VTime t) w = true -> w = VTime t.
Proof. intros t w H. destruct w; simpl in H; try discriminate. apply Z.eqb_eq in H. subst. auto. Qed.

Lemma eq_time_r : forall v t, py_eq v (VTime t) = true -> v = VTime t.
Proof. intros v t H. destruct v; simpl in H; try discriminate. apply Z.eqb_eq in H. subst. auto. Qed.

Lemma eq_num : forall v w, is_num v = true -> py_eq v w = true -> is_num w = true /\ num_of v = num_of w.
Proof.
  intros v w Hn H. destruct v; try discriminate; destruct w; simpl in H; try discriminate;
    apply Z.eqb_eq in H; simpl; rewrite H; auto.
Qed.

Lemma eq_list_l : forall a w, py_eq (VList a) w = true -> exists b, w = VList b /\ list_eqb a b = true.
Proof. intros a w H. destruct w; try (simpl in H; discriminate). rewrite py_eq_list in H. eauto. Qed.

Lemma eq_tuple_l : forall a w, py_eq (VTuple a) w = true -> exists b, w = VTuple b /\ list_eqb a b = true.
Proof. intros a w H. destruct w; try (simpl in H; discriminate). rewrite py_eq_tuple in H. eauto. Qed.

Lemma eq_dict_l : forall a w, py_eq (VDict a) w = true ->
  exists b, w = VDict b /\ List.length a = List.length b /\ dict_sub a b = true.
Proof.
  intros a w H. destruct w; try (simpl in H; discriminate). rewrite py_eq_dict in H.
  apply andb_true_iff in H. destruct H as [L S]. apply Nat.eqb_eq in L. eauto.
Qed.

Lemma eq_none_l : forall w, py_eq VNone w = true -> w = VNone.
Proof. intros w H. destruct w; simpl in H; try discriminate; auto. Qed.

Lemma list_eqb_forall2 : forall a b, list_eqb a b = true -> Forall2 (fun x y => py_eq x y = true) a b.
Proof.
  induction a as [|x a IH]; destruct b as [|y b]; simpl; intro H; try discriminate; constructor.
  - apply andb_true_iff in H. tauto.
  - apply IH. apply andb_true_iff in H. tauto.
Qed.

(* ---- hashability ---- *)

Lemma hashable_tuple : forall l, hashable (VTuple l) = forallb hashable l.
Proof. induction l; simpl; auto. Qed.

Lemma hashable_congr : forall v w, py_eq v w = true -> hashable v = hashable w.
Proof.
  induction v using pv_ind'; intros w E.
  - apply eq_none_l in E. subst. auto.
  - destruct w; simpl in E; try discriminate; auto.
  - destruct w; simpl in E; try discriminate; auto.
  - destruct w; simpl in E; try discriminate; auto.
  - apply py_eq_str_l in E. subst. auto.
  - apply eq_time_l in E. subst. auto.
  - apply eq_list_l in E. destruct E as [b [-> _]]. auto.
  - apply eq_tuple_l in E. destruct E as [b [-> E]]. rewrite !hashable_tuple.
    apply list_eqb_forall2 in E. induction E; simpl; auto. inversion H; subst. rewrite (H3 y); auto. rewrite IHE; auto.
  - apply eq_dict_l in E. destruct E as [b [-> _]]. auto.
Qed.

(* ---- ordering ---- *)

Fixpoint lex (s : bool) (a b : list pv) : res bool :=
  match a, b with
  | [], [] => Ok (negb s)
  | [], _ :: _ => Ok true
  | _ :: _, [] => Ok false
  | x :: a', y :: b' => if py_eq x y then lex s a' b' else py_ord s x y
  end.

Lemma py_ord_list : forall s a b, py_ord s (VList a) (VList b) = lex s a b.
Proof.
  intros s. induction a as [|x a IH]; destruct b as [|y b]; try reflexivity.
  simpl. destruct (py_eq x y); [apply IH | reflexivity].
Qed.

Lemma py_ord_tuple : forall s a b, py_ord s (VTuple a) (VTuple b) = lex s a b.
Proof.
  intros s. induction a as [|x a IH]; destruct b as [|y b]; try reflexivity.
  simpl. destruct (py_eq x y); [apply IH | reflexivity].
Qed.

Definition ord_ok (v : pv) : Prop :=
  forall w, wfv v -> wfv w -> py_eq v w = true ->
  forall s x, wfv x -> py_ord s x v = py_ord s x w /\ py_ord s v x = py_ord s w x.

Lemma lex_congr : forall a, Forall ord_ok a -> forall b, Forall wfv a -> Forall wfv b -> list_eqb a b = true ->
  forall s c, Forall wfv c -> lex s c a = lex s c b /\ lex s a c = lex s b c.
Proof.
  induction a as [|y a IH]; intros HF b Ha Hb E s c Hc; destruct b as [|y' b]; simpl in E; try discriminate.
  - auto.
  - apply andb_true_iff in E. destruct E as [Ey E]. inversion HF; subst. inversion Ha; subst. inversion Hb; subst.
    destruct c as [|x c]; simpl; auto. inversion Hc; subst.
    destruct (H1 y' H3 H5 Ey s x H7) as [O1 O2].
    destruct (IH H2 b H4 H6 E s c H8) as [L1 L2].
    rewrite (py_eq_congr_r x y y'); auto. rewrite (py_eq_congr_l x y y'); auto.
    rewrite O1, O2, L1, L2. auto.
Qed.

Lemma Some_inj : forall {A} (a b : A), Some a = Some b -> a = b.
Proof. intros. congruence. Qed.

Lemma ord_num : forall v w, is_num v = true -> is_num w = true -> num_of v = num_of w ->
  forall s x, py_ord s x v = py_ord s x w /\ py_ord s v x = py_ord s w x.
Proof.
  intros v w Hv Hw Hq s x.
  destruct v; try discriminate; destruct w; try discriminate; cbn [num_of] in Hq; apply Some_inj in Hq;
    destruct x; cbn [py_ord num_of]; rewrite ?Hq; auto.
Qed.

Lemma py_ord_congr : forall v, ord_ok v.
Proof.
  induction v using pv_ind'; intros w Hv Hw E st x Hx.
  - apply eq_none_l in E. subst. auto.
  - destruct (eq_num (VBool b) w eq_refl E) as [Hn Hq]. apply ord_num; auto.
  - destruct (eq_num (VInt z) w eq_refl E) as [Hn Hq]. apply ord_num; auto.
  - destruct (eq_num (VFloat m) w eq_refl E) as [Hn Hq]. apply ord_num; auto.
  - apply py_eq_str_l in E. subst. auto.
  - apply eq_time_l in E. subst. auto.
  - apply eq_list_l in E. destruct E as [b [-> E]].
    destruct x; try (split; reflexivity). rewrite !py_ord_list.
    apply lex_congr; auto using wfv_list_inv.
  - apply eq_tuple_l in E. destruct E as [b [-> E]].
    destruct x; try (split; reflexivity). rewrite !py_ord_tuple.
    apply lex_congr; auto using wfv_tuple_inv.
  - apply eq_dict_l in E. destruct E as [b [-> _]]. destruct x; split; reflexivity.
Qed.

(* ---- membership ---- *)

Lemma existsb_congr_list : forall a l l', wfv a -> Forall wfv l -> Forall wfv l' -> list_eqb l l' = true ->
  existsb (py_eq a) l = existsb (py_eq a) l'.
Proof.
  intros a l. induction l as [|y l IH]; intros l' Ha Hl Hl' E; destruct l' as [|y' l']; simpl in E; try discriminate; auto.
  apply andb_true_iff in E. destruct E as [Ey E]. inversion Hl; subst. inversion Hl'; subst. simpl.
  rewrite (py_eq_congr_r a y y'); auto. rewrite (IH l'); auto.
Qed.

Lemma existsb_congr_elem : forall a a' l, wfv a -> wfv a' -> Forall wfv l -> py_eq a a' = true ->
  existsb (py_eq a) l = existsb (py_eq a') l.
Proof.
  intros a a' l Ha Ha' Hl E. induction l as [|y l IH]; simpl; auto. inversion Hl; subst.
  rewrite (py_eq_congr_l y a a'); auto. rewrite IH; auto.
Qed.

Lemma plookup_isnone_same : forall a b k,
  NoDup (map fst a) -> List.length a = List.length b -> dict_sub a b = true ->
  match plookup k a with Some _ => true | None => false end = match plookup k b with Some _ => true | None => false end.
Proof.
  intros a b k Hn Hl Hs. pose proof (dict_keys_same a b Hn Hl Hs k) as Hk.
  destruct (plookup k a) eqn:A; destruct (plookup k b) eqn:B; auto.
  - apply plookup_none in B. exfalso. apply B. apply Hk. apply plookup_some_in in A. apply in_map_iff. exists (k, p). auto.
  - apply plookup_none in A. exfalso. apply A. apply Hk. apply plookup_some_in in B. apply in_map_iff. exists (k, p). auto.
Qed.

(* the container varies *)
Lemma py_in_congr_c : forall a c c', wfv a -> wfv c -> wfv c' -> py_eq c c' = true -> py_in a c = py_in a c'.
Proof.
  intros a c c' Ha Hc Hc' E. destruct c.
  - apply eq_none_l in E. subst. auto.
  - destruct c'; simpl in E; try discriminate; auto.
  - destruct c'; simpl in E; try discriminate; auto.
  - destruct c'; simpl in E; try discriminate; auto.
  - apply py_eq_str_l in E. subst. auto.
  - apply eq_time_l in E. subst. auto.
  - apply eq_list_l in E. destruct E as [b [-> E]]. simpl. f_equal.
    apply existsb_congr_list; auto using wfv_list_inv.
  - apply eq_tuple_l in E. destruct E as [b [-> E]]. simpl. f_equal.
    apply existsb_congr_list; auto using wfv_tuple_inv.
  - apply eq_dict_l in E. destruct E as [b [-> [Hl Hs]]]. simpl.
    destruct (hashable a); auto. destruct a; auto. f_equal.
    apply plookup_isnone_same; auto. apply wfv_dict_inv in Hc. tauto.
Qed.

(* the element varies *)
Lemma py_in_congr_a : forall a a' c, wfv a -> wfv a' -> wfv c -> py_eq a a' = true -> py_in a c = py_in a' c.
Proof.
  intros a a' c Ha Ha' Hc E. destruct c; try reflexivity.
  - (* a string: only a string can be looked for *)
    destruct a; try (destruct a'; try reflexivity; apply eq_str_r in E; discriminate).
    apply py_eq_str_l in E. subst. auto.
  - simpl. f_equal. apply existsb_congr_elem; auto using wfv_list_inv.
  - simpl. f_equal. apply existsb_congr_elem; auto using wfv_tuple_inv.
  - simpl. rewrite (hashable_congr a a' E). destruct (hashable a'); auto.
    destruct a; try (destruct a'; try reflexivity; apply eq_str_r in E; discriminate).
    apply py_eq_str_l in E. subst. auto.
Qed.

(* ---- Filter._check_property ---- *)

Lemma coerce_congr : forall mode op x v w, py_eq v w = true ->
  v = w \/ (coerce mode op x v = Ok (x, v) /\ coerce mode op x w = Ok (x, w)).
Proof.
  intros mode op x v w E. destruct v; try (left; symmetry; first [apply py_eq_str_l | apply eq_time_l]; exact E);
    right; (destruct w; try (simpl in E; discriminate)); split; destruct x; reflexivity.
Qed.

Theorem check_property_congr : forall mode f g x,
  fop_ f = fop_ g -> py_eq (fval f) (fval g) = true ->
  wfv (fval f) -> wfv (fval g) -> wfv x ->
  check_property mode f x = check_property mode g x.
Proof.
  intros mode f g x Hop E Hv Hw Hx. unfold check_property. rewrite <- Hop.
  destruct (coerce_congr mode (fop_ f) x (fval f) (fval g) E) as [Heq | [C1 C2]].
  - rewrite Heq. reflexivity.
  - rewrite C1, C2. cbn [bind]. destruct (fop_ f).
    + f_equal. apply py_eq_congr_r; auto.
    + f_equal. f_equal. apply py_eq_congr_r; auto.
    + apply py_in_congr_c; auto.
    + apply (py_ord_congr (fval f) (fval g) Hv Hw E true x Hx).
    + apply (py_ord_congr (fval f) (fval g) Hv Hw E true x Hx).
    + apply (py_ord_congr (fval f) (fval g) Hv Hw E false x Hx).
    + apply (py_ord_congr (fval f) (fval g) Hv Hw E false x Hx).
    + destruct (fval f) eqn:Ef.
      * apply eq_none_l in E. rewrite E. reflexivity.
      * destruct (fval g); simpl in E; try discriminate; apply py_in_congr_a; auto; simpl; auto.
      * destruct (fval g); simpl in E; try discriminate; apply py_in_congr_a; auto; simpl; auto.
      * destruct (fval g); simpl in E; try discriminate; apply py_in_congr_a; auto; simpl; auto.
      * apply py_eq_str_l in E. rewrite E. reflexivity.
      * apply eq_time_l in E. rewrite E. reflexivity.
      * destruct (eq_list_l _ _ E) as [b [Eb _]]. rewrite Eb in *. apply py_in_congr_a; auto.
      * destruct (eq_tuple_l _ _ E) as [b [Eb _]]. rewrite Eb in *. apply py_in_congr_a; auto.
      * destruct (eq_dict_l _ _ E) as [b [Eb _]]. rewrite Eb in *.
        destruct x; try reflexivity. cbn [dict_values bind]. apply py_in_congr_a; auto.
        constructor. apply wfv_dict_inv in Hx. destruct Hx as [_ Hx].
        rewrite Forall_forall in *. intros y Hy. apply in_map_iff in Hy. destruct Hy as [kv [<- Hkv]]. auto.
Qed.

(* ---- _check_filter ---- *)

Lemma any_res_ext_in : forall {A} (g h : A -> res bool) (l : list A),
  (forall x, In x l -> g x = h x) -> any_res g l = any_res h l.
Proof.
  induction l as [|x l IH]; simpl; intro H; auto. rewrite (H x (or_introl eq_refl)). rewrite IH; auto.
Qed.

Lemma wfv_lookup : forall m p x, wfv (VDict m) -> plookup p m = Some x -> wfv x.
Proof.
  intros m p x H L. apply wfv_dict_inv in H. destruct H as [_ H]. rewrite Forall_forall in H.
  apply plookup_some_in in L. apply (H (p, x)). auto.
Qed.

Lemma check_path_congr : forall mode f g,
  fop_ f = fop_ g -> py_eq (fval f) (fval g) = true -> wfv (fval f) -> wfv (fval g) ->
  forall segs o, wfv o -> check_path mode f segs o = check_path mode g segs o.
Proof.
  intros mode f g Hop E Hv Hw. induction segs as [|p rest IH]; intros o Ho; [reflexivity|].
  destruct o; try reflexivity. cbn [check_path]. destruct (plookup p m) as [x|] eqn:L; [|reflexivity].
  pose proof (wfv_lookup _ _ _ Ho L) as Hx.
  destruct rest as [|p2 rest2].
  - destruct x; try (apply check_property_congr; auto).
    apply any_res_ext_in. intros y Hy. apply check_property_congr; auto.
    apply wfv_list_inv in Hx. rewrite Forall_forall in Hx. auto.
  - destruct x; try (apply IH; auto).
    apply any_res_ext_in. intros y Hy. apply IH.
    apply wfv_list_inv in Hx. rewrite Forall_forall in Hx. auto.
Qed.

Lemma fop_eqb_eq : forall a b, fop_eqb a b = true -> a = b.
Proof. destruct a, b; simpl; intro H; try discriminate; reflexivity. Qed.

Theorem check_filter_congr : forall mode f g o,
  filter_eqb f g = true -> wfv (fval f) -> wfv (fval g) -> wfv o ->
  check_filter mode f o = check_filter mode g o.
Proof.
  intros mode f g o E Hv Hw Ho. unfold filter_eqb in E.
  apply andb_true_iff in E. destruct E as [E Ev]. apply andb_true_iff in E. destruct E as [Ep Eo].
  apply ustr_eqb_eq in Ep. apply fop_eqb_eq in Eo. unfold check_filter. rewrite <- Ep.
  apply check_path_congr; auto.
Qed.

(* ---- FilterSet.add never changes a verdict ---- *)

Definition fl_wf (fl : list flt) : Prop := forall f, In f fl -> wfv (fval f).

Lemma all_hold_drop_equiv : forall mode cur g h rest o,
  In h cur -> check_filter mode g o = check_filter mode h o ->
  all_hold mode (cur ++ g :: rest) o = all_hold mode (cur ++ rest) o.
Proof.
  intros mode cur g h rest o Hin Hc. rewrite !all_hold_app.
  destruct (all_hold mode cur o) as [[|]|e] eqn:E; simpl; auto.
  rewrite all_hold_true in E. rewrite Hc, (E h Hin). reflexivity.
Qed.

Lemma fset_add_all_hold_wf : forall mode new cur o,
  fl_wf (cur ++ new) -> wfv o -> all_hold mode (fset_add cur new) o = all_hold mode (cur ++ new) o.
Proof.
  induction new as [|g new IH]; intros cur o Hwf Ho; simpl.
  - rewrite app_nil_r. reflexivity.
  - destruct (existsb (fun h => filter_eqb g h) cur) eqn:E.
    + apply existsb_exists in E. destruct E as [h [Hh Hgh]].
      rewrite (all_hold_drop_equiv mode cur g h new o Hh).
      * apply IH; auto. intros f Hf. apply Hwf. apply in_app_or in Hf. apply in_or_app. destruct Hf; auto. right; right; auto.
      * apply check_filter_congr; auto; apply Hwf; apply in_or_app; [right; left | left]; auto.
    + rewrite IH; auto; rewrite <- app_assoc; simpl; auto.
Qed.

Theorem complete_query_verdict_wf : forall mode q att comp o,
  fl_wf (q ++ att ++ comp) -> wfv o ->
  all_hold mode (complete_query q att comp) o = all_hold mode (q ++ att ++ comp) o.
Proof.
  intros mode q att comp o Hwf Ho. unfold complete_query.
  set (A := fset_add [] q). set (B := fset_add A att).
  assert (HA : forall f, In f A -> In f q).
  { intros f Hf. apply fset_add_incl in Hf. destruct Hf as [[] | Hf]; auto. }
  assert (HB : forall f, In f B -> In f (q ++ att)).
  { intros f Hf. apply fset_add_incl in Hf. apply in_or_app. destruct Hf as [Hf | Hf]; auto. }
  assert (EA : all_hold mode A o = all_hold mode q o).
  { unfold A. rewrite fset_add_all_hold_wf; auto. simpl. intros f Hf. apply Hwf. apply in_or_app. auto. }
  assert (EB : all_hold mode B o = all_hold mode (q ++ att) o).
  { unfold B. rewrite fset_add_all_hold_wf; auto.
    - apply all_hold_ext_app. auto.
    - intros f Hf. apply Hwf. apply in_app_or in Hf. apply in_or_app. destruct Hf as [Hf | Hf]; auto.
      right. apply in_or_app. auto. }
  rewrite fset_add_all_hold_wf; auto.
  - rewrite (all_hold_ext_app mode B (q ++ att) comp o EB). rewrite <- app_assoc. reflexivity.
  - intros f Hf. apply Hwf. apply in_app_or in Hf. destruct Hf as [Hf | Hf].
    + apply HB in Hf. apply in_app_or in Hf. apply in_or_app. destruct Hf; auto. right. apply in_or_app. auto.
    + apply in_or_app. right. apply in_or_app. auto.
Qed.

(* the three ways filters reach a source end in one evaluation, for every filter set *)
Theorem mem_query_is_naive_wf : forall mode data q att comp,
  fl_wf (q ++ att ++ comp) -> Forall wfv (mem_objects data) ->
  mem_query mode data q att comp = apply_filters mode (q ++ att ++ comp) (mem_objects data).
Proof.
  intros mode data q att comp Hwf Hobjs. unfold mem_query.
  induction (mem_objects data) as [|o objs IH]; simpl; auto. inversion Hobjs; subst.
  rewrite complete_query_verdict_wf; auto. rewrite IH; auto.
Qed.

(* every filter of the three sets holds for every object the combined query lets through *)
Lemma complete_query_holds : forall mode q att comp o f,
  fl_wf (q ++ att ++ comp) -> wfv o ->
  holds_b mode (complete_query q att comp) o = true -> In f (q ++ att ++ comp) -> check_filter mode f o = Ok true.
Proof.
  intros mode q att comp o f Hwf Ho Hh Hf. unfold holds_b in Hh. rewrite complete_query_verdict_wf in Hh; auto.
  assert (Hh' : holds_b mode (q ++ att ++ comp) o = true) by exact Hh.
  rewrite holds_b_true in Hh'. auto.
Qed.

Theorem source_answers_satisfy_wf : forall mode om s q comp r o f,
  fl_wf (q ++ (match s with SMem _ a => a | SFs _ a => a end) ++ comp) -> wfv o ->
  source_query mode om s q comp = Ok r -> In o r ->
  In f (q ++ (match s with SMem _ a => a | SFs _ a => a end) ++ comp) -> check_filter mode f o = Ok true.
Proof.
  intros mode om s q comp r o f Hwf Ho H Hin Hf. destruct s as [data att | t att]; simpl in *.
  - unfold mem_query in H. destruct (apply_filters_answers _ _ _ _ _ H Hin) as [_ Hh].
    eapply complete_query_holds; eauto.
  - unfold fs_query in H. eapply complete_query_holds; eauto.
    apply holds_b_true. eapply fs_search_answers_hold; eauto.
Qed.

Theorem fs_all_versions_answers_wf : forall mode om t i att comp r o f,
  fl_wf ([mkf t_id OEq i] ++ att ++ comp) -> wfv o ->
  fs_all_versions mode om t i att comp = Ok r -> In o r ->
  In f ([mkf t_id OEq i] ++ att ++ comp) -> check_filter mode f o = Ok true.
Proof.
  intros mode om t i att comp r o f Hwf Ho H Hin Hf. unfold fs_all_versions, fs_query in H.
  eapply complete_query_holds; eauto. apply holds_b_true. eapply fs_search_answers_hold; eauto.
Qed.

(* Proofs/TimestampFacts.v -- digits, the fraction rules of format_datetime,
   and the strict reading of what `format` writes.                          *)
From Coq Require Import ZArith NArith List Bool Lia.
From V Require Import Base.UString Model.Calendar Model.Timestamp Spec.TimestampSpec Proofs.CalendarFacts.
Import ListNotations.
Open Scope Z_scope.

Ltac Zify.zify_post_hook ::= Z.to_euclidean_division_equations.

Definition sp (p : precision) : sprecision := match p with PAny => SAny | PSecond => SSecond | PMilli => SMilli end.
Definition sc (c : pconstraint) : sconstraint := match c with CExact => SExact | CMin => SMin end.

Definition isdigit (d : Z) : Prop := 0 <= d <= 9.

Ltac dcases d H :=
  let C := fresh "C" in
  assert (C : d = 0 \/ d = 1 \/ d = 2 \/ d = 3 \/ d = 4 \/ d = 5 \/ d = 6 \/ d = 7 \/ d = 8 \/ d = 9)
    by (unfold isdigit in H; lia);
  destruct C as [C|[C|[C|[C|[C|[C|[C|[C|[C|C]]]]]]]]]; subst d.

Lemma sdigit_dchar : forall d, isdigit d -> sdigit (dchar d) = Some d.
Proof. intros d H. dcases d H; reflexivity. Qed.
Lemma is_adigit_dchar : forall d, isdigit d -> is_adigit (dchar d) = true.
Proof. intros d H. dcases d H; reflexivity. Qed.
Lemma adigit_val_dchar : forall d, isdigit d -> adigit_val (dchar d) = d.
Proof. intros d H. dcases d H; reflexivity. Qed.
Lemma udigit_dchar : forall d, isdigit d -> udigit (dchar d) = Some d.
Proof. intros d H. dcases d H; reflexivity. Qed.

(* ---- digitsn ---- *)
Lemma digitsn_isdigit : forall n v, Forall isdigit (digitsn n v).
Proof.
  induction n; intros v; cbn [digitsn]; constructor; [|apply IHn].
  unfold isdigit. pose proof (Z.mod_pos_bound (v / 10 ^ Z.of_nat n) 10 ltac:(lia)). lia.
Qed.

Lemma digitsn_length : forall n v, length (digitsn n v) = n.
Proof. induction n; intros; cbn [digitsn length]; [reflexivity|now rewrite IHn]. Qed.

Lemma digits_value_app : forall a b acc, digits_value (a ++ b) acc = digits_value b (digits_value a acc).
Proof. induction a; intros; cbn [app digits_value]; [reflexivity|apply IHa]. Qed.

Lemma digits_value_digitsn : forall n v acc,
  digits_value (digitsn n v) acc = acc * 10 ^ Z.of_nat n + v mod 10 ^ Z.of_nat n.
Proof.
  induction n; intros v acc; cbn [digitsn digits_value].
  - cbn. rewrite Z.mod_1_r. lia.
  - rewrite IHn. rewrite Nat2Z.inj_succ, Z.pow_succ_r by lia.
    rewrite (Z.mul_comm 10 (10 ^ Z.of_nat n)).
    rewrite (Z.rem_mul_r v (10 ^ Z.of_nat n) 10) by (try apply Z.pow_nonzero; lia). ring.
Qed.

Lemma digits_value_small : forall n v, 0 <= v < 10 ^ Z.of_nat n -> digits_value (digitsn n v) 0 = v.
Proof. intros. rewrite digits_value_digitsn, Z.mod_small by assumption. lia. Qed.

Lemma digits_value_zeros : forall k acc, digits_value (repeat 0 k) acc = acc * 10 ^ Z.of_nat k.
Proof.
  induction k; intros acc; cbn [repeat digits_value].
  - cbn. lia.
  - rewrite IHk, Nat2Z.inj_succ, Z.pow_succ_r by lia. ring.
Qed.

Lemma digits_value_acc : forall ds acc, digits_value ds acc = acc * 10 ^ Z.of_nat (length ds) + digits_value ds 0.
Proof.
  induction ds as [|d r IH]; intros acc; cbn [digits_value length].
  - cbn. lia.
  - rewrite (IH (acc * 10 + d)), (IH (0 * 10 + d)), Nat2Z.inj_succ, Z.pow_succ_r by lia. ring.
Qed.

(* ---- rstrip0 ---- *)
Lemma rstrip0_decomp : forall ds, exists k, ds = rstrip0 ds ++ repeat 0 k.
Proof.
  induction ds as [|d r [k IH]].
  - exists 0%nat. reflexivity.
  - cbn [rstrip0]. destruct (rstrip0 r) as [|x xs] eqn:E.
    + destruct (Z.eqb_spec d 0) as [->|N].
      * exists (S k). cbn [app repeat]. cbn [app] in IH. now rewrite IH at 1.
      * exists k. cbn [app]. cbn [app] in IH. now rewrite IH at 1.
    + exists k. cbn [app]. f_equal. exact IH.
Qed.

Lemma rstrip0_last : forall ds, rstrip0 ds <> [] -> last (rstrip0 ds) 0 <> 0.
Proof.
  induction ds as [|d r IH]; cbn [rstrip0]; [congruence|].
  destruct (rstrip0 r) as [|x xs] eqn:E.
  - destruct (Z.eqb_spec d 0); [congruence|]. intros _. cbn. assumption.
  - intros _. change (last (d :: x :: xs) 0) with (last (x :: xs) 0). apply IH. congruence.
Qed.

Lemma rstrip0_isdigit : forall ds, Forall isdigit ds -> Forall isdigit (rstrip0 ds).
Proof.
  intros ds H. destruct (rstrip0_decomp ds) as [k E]. remember (rstrip0 ds) as r eqn:Hr. clear Hr. subst ds.
  now apply Forall_app in H as [H _].
Qed.

Lemma rstrip0_length : forall ds, (length (rstrip0 ds) <= length ds)%nat.
Proof.
  intros ds. destruct (rstrip0_decomp ds) as [k E]. remember (rstrip0 ds) as r eqn:Hr. clear Hr. subst ds.
  rewrite app_length. lia.
Qed.

(* value is kept when scaled back: value ds = value (rstrip0 ds) * 10^(dropped) *)
Lemma rstrip0_value : forall ds,
  digits_value ds 0 = digits_value (rstrip0 ds) 0 * 10 ^ Z.of_nat (length ds - length (rstrip0 ds)).
Proof.
  intros ds. destruct (rstrip0_decomp ds) as [k E]. remember (rstrip0 ds) as r eqn:Hr. clear Hr. subst ds.
  rewrite digits_value_app, digits_value_zeros, app_length, repeat_length. f_equal. f_equal. lia.
Qed.

Lemma rstrip0_nonempty : forall ds, digits_value ds 0 <> 0 -> rstrip0 ds <> [].
Proof.
  intros ds H E. apply H. rewrite rstrip0_value, E. reflexivity.
Qed.

(* ---- reading digit text with the strict reader ---- *)
Lemma read_num_text : forall ds n rest acc, Forall isdigit ds -> length ds = n ->
  read_num n (text_of ds ++ rest) acc = Some (digits_value ds acc, rest).
Proof.
  induction ds as [|d r IH]; intros n rest acc F L; subst n; cbn [length read_num text_of map app digits_value].
  - reflexivity.
  - inversion F; subst. rewrite sdigit_dchar by assumption. now apply IH.
Qed.

Lemma read_frac_text : forall ds, Forall isdigit ds -> read_frac (text_of ds ++ [ch_Z]) = Some ds.
Proof.
  induction ds as [|d r IH]; intros F; cbn [text_of map app read_frac].
  - reflexivity.
  - inversion F; subst. rewrite sdigit_dchar by assumption. fold (text_of r). now rewrite IH.
Qed.

Lemma read_tail_text : forall ds, Forall isdigit ds ->
  read_tail ((match ds with [] => [] | _ => ch_dot :: text_of ds end) ++ [ch_Z]) = Some ds.
Proof.
  intros [|d r] F; [reflexivity|].
  change ((ch_dot :: text_of (d :: r)) ++ [ch_Z]) with (46%N :: (text_of (d :: r) ++ [ch_Z])).
  cbn [read_tail]. now rewrite read_frac_text.
Qed.

Lemma expect_cons : forall c r, expect c (c :: r) = Some r.
Proof. intros. cbn [expect]. now rewrite N.eqb_refl. Qed.

Lemma read_shape_pieces : forall Y M D H Mi S tail,
  Forall isdigit Y -> Forall isdigit M -> Forall isdigit D -> Forall isdigit H -> Forall isdigit Mi -> Forall isdigit S ->
  length Y = 4%nat -> length M = 2%nat -> length D = 2%nat -> length H = 2%nat -> length Mi = 2%nat -> length S = 2%nat ->
  read_shape (text_of Y ++ ch_dash :: text_of M ++ ch_dash :: text_of D ++ ch_T :: text_of H ++ ch_colon ::
              text_of Mi ++ ch_colon :: text_of S ++ tail)
  = match read_tail tail with
    | Some ds => Some (mkReading (digits_value Y 0) (digits_value M 0) (digits_value D 0)
                                 (digits_value H 0) (digits_value Mi 0) (digits_value S 0) ds)
    | None => None
    end.
Proof.
  intros Y M D H Mi S tail FY FM FD FH FMi FS LY LM LD LH LMi LS.
  unfold read_shape, ch_dash, ch_T, ch_colon.
  rewrite (read_num_text Y 4) by assumption. cbv beta iota. rewrite expect_cons.
  rewrite (read_num_text M 2) by assumption. cbv beta iota. rewrite expect_cons.
  rewrite (read_num_text D 2) by assumption. cbv beta iota. rewrite expect_cons.
  rewrite (read_num_text H 2) by assumption. cbv beta iota. rewrite expect_cons.
  rewrite (read_num_text Mi 2) by assumption. cbv beta iota. rewrite expect_cons.
  rewrite (read_num_text S 2) by assumption. cbv beta iota.
  reflexivity.
Qed.

(* ---- the fields of an in-range instant ---- *)
Lemma fields_facts : forall t, in_range t = true ->
  let f := fields_of t in
  1 <= f_year f <= 9999 /\ valid_date (f_year f) (f_month f) (f_day f) = true /\
  days_of_civil (f_year f) (f_month f) (f_day f) = t / us_per_day /\
  0 <= f_hour f < 24 /\ 0 <= f_min f < 60 /\ 0 <= f_sec f < 60 /\
  f_us f = t mod 1000000 /\
  ((t / us_per_day * 24 + f_hour f) * 60 + f_min f) * 60 + f_sec f = t / 1000000.
Proof.
  intros t R. unfold in_range, max_instant in R. apply andb_true_iff in R as [R0 R1].
  apply Z.leb_le in R0. apply Z.ltb_lt in R1.
  unfold fields_of. pose proof (civil_roundtrip_lemma (t / us_per_day)) as C.
  destruct (civil_of_days (t / us_per_day)) as [[y m] d]. destruct C as [V Dn].
  cbv zeta. cbn [f_year f_month f_day f_hour f_min f_sec f_us].
  assert (Rd : 0 <= t / us_per_day < max_days) by (unfold us_per_day, max_days; lia).
  split; [apply (year_in_range y m d V); rewrite Dn; exact Rd|].
  split; [exact V|]. split; [exact Dn|].
  unfold us_per_day, us_per_sec. repeat split; lia.
Qed.

Lemma valid_date_bounds : forall y m d, valid_date y m d = true -> 1 <= m <= 12 /\ 1 <= d <= 31.
Proof.
  intros y m d V. unfold valid_date in V. repeat (apply andb_true_iff in V as [V ?]).
  rewrite ?Z.leb_le in *. split; [lia|]. split; [lia|].
  unfold days_in_month in *. destruct (m =? 2); [destruct (is_leap y); lia|].
  destruct ((m =? 4) || (m =? 6) || (m =? 9) || (m =? 11)); lia.
Qed.

(* ---- frac_digits ---- *)
Lemma Forall_firstn' : forall (A : Type) (P : A -> Prop) n l, Forall P l -> Forall P (firstn n l).
Proof.
  induction n; intros l H; cbn [firstn]; [constructor|]. destruct l; [constructor|].
  inversion H; subst. constructor; auto.
Qed.
Lemma frac_digits_isdigit : forall p c us, Forall isdigit (frac_digits p c us).
Proof.
  intros p c us. pose proof (digitsn_isdigit 6 us) as F.
  destruct p, c; cbn [frac_digits].
  all: try (destruct (us =? 0); [constructor | now apply rstrip0_isdigit]).
  - constructor.
  - now apply Forall_firstn'.
  - unfold ljust3. apply Forall_app. split; [now apply rstrip0_isdigit|].
    apply Forall_forall. intros x Hx. apply repeat_spec in Hx. subst. unfold isdigit. lia.
Qed.

(* the fraction, scaled to microseconds, is us rounded down to the unit *)
Lemma rstrip6_scaled : forall us, 0 <= us < 1000000 ->
  let ds := rstrip0 (digitsn 6 us) in
  digits_value ds 0 * 1000000 = us * 10 ^ Z.of_nat (length ds).
Proof.
  intros us B. cbv zeta.
  pose proof (rstrip0_value (digitsn 6 us)) as V. pose proof (rstrip0_length (digitsn 6 us)) as L.
  rewrite digits_value_small in V by (cbn; lia). rewrite digitsn_length in V, L.
  remember (rstrip0 (digitsn 6 us)) as ds eqn:Hds. clear Hds.
  rewrite V at 1. rewrite <- Z.mul_assoc, <- Z.pow_add_r by lia.
  replace (Z.of_nat (6 - length ds) + Z.of_nat (length ds)) with 6 by lia. reflexivity.
Qed.

Lemma frac_scaled : forall p c us, 0 <= us < 1000000 ->
  digits_value (frac_digits p c us) 0 * 1000000
  = (us - us mod unit_of (sp p) (sc c)) * 10 ^ Z.of_nat (length (frac_digits p c us)).
Proof.
  intros p c us B.
  assert (Any : forall x, x = (if us =? 0 then [] else rstrip0 (digitsn 6 us)) ->
                digits_value x 0 * 1000000 = (us - us mod 1) * 10 ^ Z.of_nat (length x)).
  { intros x ->. rewrite Z.mod_1_r, Z.sub_0_r. destruct (Z.eqb_spec us 0) as [->|N]; [reflexivity|].
    now apply rstrip6_scaled. }
  destruct p, c; cbn [frac_digits sp sc unit_of]; try (now apply Any).
  - (* second exact *) cbn. rewrite Z.mod_small by lia. lia.
  - (* milli exact *)
    change (firstn 3 (digitsn 6 us)) with [(us / 10 ^ 5) mod 10; (us / 10 ^ 4) mod 10; (us / 10 ^ 3) mod 10].
    cbn [digits_value length]. change (10 ^ Z.of_nat 3) with 1000. change (10 ^ 5) with 100000.
    change (10 ^ 4) with 10000. change (10 ^ 3) with 1000. lia.
  - (* milli min *)
    unfold ljust3. set (ds := rstrip0 (digitsn 6 us)).
    pose proof (rstrip6_scaled us B) as S. cbv zeta in S. fold ds in S.
    rewrite Z.mod_1_r, Z.sub_0_r, digits_value_app, digits_value_zeros, app_length, repeat_length.
    rewrite Nat2Z.inj_add, Z.pow_add_r by lia.
    replace (digits_value ds 0 * 10 ^ Z.of_nat (3 - length ds) * 1000000)
      with (digits_value ds 0 * 1000000 * 10 ^ Z.of_nat (3 - length ds)) by ring.
    rewrite S. ring.
Qed.

Lemma last_app_zeros : forall (ds : list Z) k, (0 < k)%nat -> last (ds ++ repeat 0 k) 0 = 0.
Proof.
  intros ds k H. destruct k; [lia|]. replace (S k) with (k + 1)%nat by lia.
  rewrite repeat_app, app_assoc. cbn [repeat]. apply last_last.
Qed.

Lemma frac_digit_rule : forall p c us, 0 <= us < 1000000 -> digit_rule (sp p) (sc c) (frac_digits p c us).
Proof.
  intros p c us B.
  assert (Any : (if us =? 0 then [] else rstrip0 (digitsn 6 us)) = [] \/
                last (if us =? 0 then [] else rstrip0 (digitsn 6 us)) 0 <> 0).
  { destruct (Z.eqb_spec us 0) as [->|N]; [now left|]. right. apply rstrip0_last, rstrip0_nonempty.
    rewrite digits_value_small by (cbn; lia). assumption. }
  destruct p, c; cbn [frac_digits sp sc digit_rule]; try exact Any; try reflexivity.
  unfold ljust3. set (ds := rstrip0 (digitsn 6 us)). rewrite app_length, repeat_length. split; [lia|].
  intros L. assert (E : (3 - length ds)%nat = 0%nat) by lia. rewrite E. cbn [repeat]. rewrite app_nil_r.
  apply rstrip0_last. intros E0. unfold ds in *. rewrite E0 in L. cbn in L. lia.
Qed.

(* in the any / at-least-second cases the fraction is empty exactly for whole seconds *)
Lemma frac_empty_iff : forall us, 0 <= us < 1000000 ->
  ((if us =? 0 then [] else rstrip0 (digitsn 6 us)) = [] <-> us = 0).
Proof.
  intros us B. destruct (Z.eqb_spec us 0) as [->|N]; [tauto|]. split; [|congruence].
  intros E. exfalso. apply (rstrip0_nonempty (digitsn 6 us)); [|exact E].
  rewrite digits_value_small by (cbn; lia). assumption.
Qed.

(* ---- what `format` writes, read strictly ---- *)
Definition two_digit (v : Z) : Prop := 0 <= v < 100.

Lemma spec_read_format : forall p c t, in_range t = true ->
  spec_read (format Pad4 p c t) = Some (t / 1000000, frac_digits p c (t mod 1000000)).
Proof.
  intros p c t R. pose proof (fields_facts t R) as F. cbv zeta in F.
  destruct F as (Hy & V & Dn & Hh & Hmi & Hs & Hus & Hsecs).
  pose proof (valid_date_bounds _ _ _ V) as [Hm Hd].
  unfold spec_read, format, year_text, pad2.
  set (f := fields_of t) in *.
  rewrite read_shape_pieces; try apply digitsn_isdigit; try apply digitsn_length.
  rewrite read_tail_text by apply frac_digits_isdigit.
  cbn [r_y r_mo r_d r_h r_mi r_s r_frac].
  rewrite !digits_value_small
    by (first [change (10 ^ Z.of_nat 4) with 10000 | change (10 ^ Z.of_nat 2) with 100]; lia).
  rewrite V. replace (f_hour f <? 24) with true by (symmetry; apply Z.ltb_lt; lia).
  replace (f_min f <? 60) with true by (symmetry; apply Z.ltb_lt; lia).
  replace (f_sec f <? 60) with true by (symmetry; apply Z.ltb_lt; lia).
  cbn [andb]. rewrite Dn, Hsecs, Hus. reflexivity.
Qed.

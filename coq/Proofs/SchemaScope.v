(* Proofs/SchemaScope.v -- the hypotheses of the C02 theorems as boolean predicates:
     jscope        the input JSON uses neither of the two documented loopholes of strict mode
                   (a "custom_properties" member; an "extension-definition--..." extension, whose
                   content the library does not look at)
     variant_sound the code under test matches the repaired variant at every C02 defect site
     env_ok        the constructor's clock is a representable instant and uuid5 yields UUID text
   and what world_refines gives per class.                                                    *)
From Coq Require Import NArith ZArith List String Bool Lia.
From V Require Import Base.UString Base.Json Model.SchemaTypes Model.PyBase Model.Schema
     Spec.StixValid Spec.SchemaRefine Proofs.SchemaBasics.
From V Require Model.Calendar.
Import ListNotations.

Definition key_scope (k : ustring) : bool :=
  negb (ustr_eqb k (u "custom_properties")) && negb (ustr_prefix (u "extension-definition--") k).

(* an extension entry that declares itself a toplevel-property-extension vouches for extra top-level
   properties that the library does not look at *)
Definition entry_scope (k : ustring) (v : jvalue) : bool :=
  key_scope k &&
  negb (ustr_eqb k (u "extension_type") && jvalue_eqb v (JStr (u "toplevel-property-extension"))).

Fixpoint jscope (j : jvalue) : bool :=
  match j with
  | JArr l => (fix go (l : list jvalue) : bool := match l with [] => true | x :: r => jscope x && go r end) l
  | JObj m => (fix go (m : list (ustring * jvalue)) : bool :=
                 match m with [] => true | kv :: r => entry_scope (fst kv) (snd kv) && jscope (snd kv) && go r end) m
  | _ => true
  end.

Definition dict_scope (m : list (ustring * jvalue)) : bool := jscope (JObj m).

Lemma jscope_arr l : jscope (JArr l) = forallb jscope l.
Proof. reflexivity. Qed.

Lemma jscope_obj m : jscope (JObj m) = forallb (fun kv => entry_scope (fst kv) (snd kv) && jscope (snd kv)) m.
Proof. reflexivity. Qed.

Lemma dict_scope_forall m : dict_scope m = true -> forallb (fun kv => entry_scope (fst kv) (snd kv) && jscope (snd kv)) m = true.
Proof. unfold dict_scope. rewrite jscope_obj. auto. Qed.

Lemma dict_scope_In' m k v : dict_scope m = true -> In (k, v) m -> entry_scope k v = true /\ jscope v = true.
Proof.
  intros H Hin. apply dict_scope_forall in H. rewrite forallb_forall in H.
  specialize (H _ Hin). simpl in H. apply andb_true_iff in H. auto.
Qed.

Lemma dict_scope_In m k v : dict_scope m = true -> In (k, v) m -> key_scope k = true /\ jscope v = true.
Proof.
  intros H Hin. destruct (dict_scope_In' _ _ _ H Hin) as [A B]. split; auto.
  unfold entry_scope in A. apply andb_true_iff in A. tauto.
Qed.

(* in scope, no entry of an `extensions` dictionary declares itself a toplevel-property-extension *)
Lemma dict_scope_not_toplevel m :
  dict_scope m = true ->
  jvalue_eqb (match alookup (u "extension_type") m with Some t => t | None => JNull end)
             (JStr (u "toplevel-property-extension")) = false.
Proof.
  intros H. destruct (alookup (u "extension_type") m) as [t|] eqn:E; auto.
  apply alookup_In in E. destruct (dict_scope_In' _ _ _ H E) as [A _].
  unfold entry_scope in A. apply andb_true_iff in A. destruct A as [_ A].
  rewrite ustr_eqb_refl in A. simpl in A. apply negb_true_iff in A. exact A.
Qed.

Lemma dict_scope_filter m p : dict_scope m = true -> dict_scope (filter p m) = true.
Proof.
  unfold dict_scope. rewrite !jscope_obj, !forallb_forall. intros H x Hx. apply filter_In in Hx. apply H. tauto.
Qed.

Lemma dict_scope_aset m k v : dict_scope m = true -> entry_scope k v = true -> jscope v = true -> dict_scope (aset k v m) = true.
Proof.
  unfold dict_scope. rewrite !jscope_obj, !forallb_forall. intros H Hk Hv x Hx.
  apply In_aset in Hx. destruct Hx as [-> | Hx]; auto. simpl. rewrite Hk, Hv. auto.
Qed.

Lemma dict_scope_aremove m k : dict_scope m = true -> dict_scope (aremove k m) = true.
Proof.
  unfold dict_scope. rewrite !jscope_obj. induction m as [|[k' v] m IH]; simpl; auto.
  intros H. apply andb_true_iff in H. destruct H as [H1 H2].
  destruct (ustr_eqb k k'); simpl; auto. rewrite H1. simpl. auto.
Qed.

Lemma dict_scope_lookup m k v : dict_scope m = true -> alookup k m = Some v -> jscope v = true.
Proof. intros H Hl. apply alookup_In in Hl. eapply dict_scope_In in Hl; eauto. tauto. Qed.

Lemma dict_scope_no_custom m : dict_scope m = true -> alookup (u "custom_properties") m = None.
Proof.
  intros H. destruct (alookup (u "custom_properties") m) eqn:E; auto.
  apply alookup_In in E. eapply dict_scope_In in E; eauto. destruct E as [E _].
  unfold key_scope in E. rewrite ustr_eqb_refl in E. discriminate.
Qed.

Lemma aremove_absent {A} (k : ustring) (m : list (ustring * A)) : alookup k m = None -> aremove k m = m.
Proof.
  induction m as [|[k' v] m IH]; simpl; auto. destruct (ustr_eqb k k'); intros H; try discriminate.
  rewrite IH; auto.
Qed.

(* ---------- variants, environment ---------- *)
Definition variant_sound (vr : variant) : bool :=
  vr_hex_z vr && vr_key_z vr && vr_sel_z vr && vr_hash_z vr && vr_uuid_canon vr && vr_year_pad vr &&
  vr_ext_nonempty vr && vr_sock_int vr.

Definition env_ok (ev : env) : bool :=
  Calendar.in_range (e_now ev) && valid_uuid_text V21 (e_uuid5 ev).

(* ---------- what the refinement check gives, class by class ---------- *)
Lemma flat_map_nil {A B} (f : A -> list B) (l : list A) x : flat_map f l = [] -> In x l -> f x = [].
Proof.
  induction l; simpl; intros H Hin; [tauto|]. apply app_eq_nil in H. destruct H as [H1 H2].
  destruct Hin as [-> | Hin]; auto.
Qed.

Lemma find_class_In cs id c : find_class cs id = Some c -> In c cs /\ cid c = id.
Proof.
  induction cs as [|c' cs IH]; simpl; intros H; try discriminate.
  destruct (ustr_eqb (cid c') id) eqn:E.
  - inversion H; subst. apply ustr_eqb_eq in E. auto.
  - destruct (IH H); auto.
Qed.

Lemma world_refines_class w sp c :
  world_refines w sp = true -> In c (wclasses w) ->
  exists sc, find_class (wclasses sp) (cid c) = Some sc /\ class_refine_failures c sc = [].
Proof.
  unfold world_refines, refine_failures. intros H Hin.
  destruct (flat_map _ (wclasses w) ++ _) eqn:E; try discriminate.
  apply app_eq_nil in E. destruct E as [E _].
  pose proof (flat_map_nil _ _ c E Hin) as Hc. simpl in Hc.
  destruct (find_class (wclasses sp) (cid c)) as [sc|]; try discriminate. eauto.
Qed.

Lemma world_refines_regs w sp :
  world_refines w sp = true ->
  pairs_eqb (robjects (wreg20 w)) (robjects (wreg20 sp)) = true /\
  pairs_eqb (robservables (wreg20 w)) (robservables (wreg20 sp)) = true /\
  pairs_eqb (rextensions (wreg20 w)) (rextensions (wreg20 sp)) = true /\
  pairs_eqb (rmarkings (wreg20 w)) (rmarkings (wreg20 sp)) = true /\
  pairs_eqb (robjects (wreg21 w)) (robjects (wreg21 sp)) = true /\
  pairs_eqb (robservables (wreg21 w)) (robservables (wreg21 sp)) = true /\
  pairs_eqb (rextensions (wreg21 w)) (rextensions (wreg21 sp)) = true /\
  pairs_eqb (rmarkings (wreg21 w)) (rmarkings (wreg21 sp)) = true.
Proof.
  unfold world_refines, refine_failures. intros H.
  destruct (flat_map _ (wclasses w) ++ _) eqn:E; try discriminate.
  apply app_eq_nil in E. destruct E as [_ E]. apply app_eq_nil in E. destruct E as [E _].
  apply app_eq_nil in E. destruct E as [E1 E2].
  unfold registry_failures in *.
  repeat match goal with
         | H : _ ++ _ = [] |- _ => apply app_eq_nil in H; destruct H
         end.
  repeat match goal with
         | H : (if ?b then [] else _) = [] |- _ => destruct b eqn:?; try discriminate; clear H
         end.
  repeat split; auto.
Qed.

Lemma pairs_eqb_eq a b : pairs_eqb a b = true -> a = b.
Proof.
  revert b. induction a as [|[k v] a IH]; destruct b as [|[k' v'] b]; simpl; intros H; try discriminate; auto.
  apply andb_true_iff in H. destruct H as [H H3]. apply andb_true_iff in H. destruct H as [H1 H2].
  apply ustr_eqb_eq in H1. apply ustr_eqb_eq in H2. subst. f_equal. auto.
Qed.

Lemma world_refines_reg_of w sp v : world_refines w sp = true -> reg_of w v = reg_of sp v.
Proof.
  intros H. apply world_refines_regs in H.
  destruct H as (A & B & C & D & E & F & G & I).
  apply pairs_eqb_eq in A, B, C, D, E, F, G, I.
  destruct v; simpl; [destruct (wreg20 w), (wreg20 sp) | destruct (wreg21 w), (wreg21 sp)]; simpl in *; congruence.
Qed.

Lemma world_refines_names w sp v : world_refines w sp = true -> reg_names_ok (reg_of sp v) = true.
Proof.
  unfold world_refines, refine_failures. intros H.
  destruct (flat_map _ (wclasses w) ++ _) eqn:E; try discriminate.
  apply app_eq_nil in E. destruct E as [_ E]. apply app_eq_nil in E. destruct E as [_ E].
  unfold spec_names_failures in E. apply app_eq_nil in E. destruct E as [E1 E2].
  destruct v; simpl.
  - destruct (reg_names_ok (wreg20 sp)); auto; discriminate.
  - destruct (reg_names_ok (wreg21 sp)); auto; discriminate.
Qed.

(* the C03 direction carries the same registry comparison *)
Lemma spec_refines_reg_of sp w v : spec_refines sp w = true -> reg_of w v = reg_of sp v.
Proof.
  unfold spec_refines, accept_failures. intros H.
  destruct (flat_map _ (wclasses sp) ++ _) eqn:E; try discriminate.
  apply app_eq_nil in E. destruct E as [_ E]. apply app_eq_nil in E. destruct E as [E1 E2].
  unfold registry_failures in *.
  repeat match goal with
         | H : _ ++ _ = [] |- _ => apply app_eq_nil in H; destruct H
         end.
  repeat match goal with
         | H : (if ?b then [] else _) = [] |- _ => destruct b eqn:?; try discriminate; clear H
         end.
  repeat match goal with
         | H : pairs_eqb _ _ = true |- _ => apply pairs_eqb_eq in H
         end.
  destruct v; simpl; [destruct (wreg20 w), (wreg20 sp) | destruct (wreg21 w), (wreg21 sp)]; simpl in *; congruence.
Qed.

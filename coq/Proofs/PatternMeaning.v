(* Proofs/PatternMeaning.v -- C10: the object the visitor builds means what the
   parse tree says: every comparison with its operator and negation, every
   constant, every path step, every qualifier, and the grouping.             *)
From Coq Require Import NArith ZArith List String Bool Lia.
From V Require Import Model.PatternSyntax Proofs.PatternNumbers Proofs.PatternLit Proofs.PatternPath
  Proofs.PatternCmp Proofs.PatternObs Proofs.PatternEscape.
Import ListNotations.
Open Scope N_scope.

(* ------------------------------------------------------------------ *)
(** * Constants *)

Lemma strip0_repeat : forall k x, strip0 (repeat 48 k ++ x) = strip0 x.
Proof. induction k as [|k IH]; intros x; [reflexivity|]. cbn [repeat app strip0]. change (48 =? 48) with true. cbn iota. apply IH. Qed.

Lemma rev_repeat : forall (A : Type) (a : A) k, rev (repeat a k) = repeat a k.
Proof.
  induction k as [|k IH]; [reflexivity|]. cbn [repeat rev]. rewrite IH.
  clear IH. induction k as [|k IH]; [reflexivity|]. cbn [repeat app]. rewrite IH. reflexivity.
Qed.

Lemma rstrip0_zeros : forall l k, rstrip0 (l ++ repeat 48 k) = rstrip0 l.
Proof. intros l k. unfold rstrip0. rewrite rev_app_distr, rev_repeat, strip0_repeat. reflexivity. Qed.

Lemma pad_right6_zeros : forall fr, (List.length fr <= 6)%nat -> exists k, pad_right6 fr = fr ++ repeat 48 k.
Proof.
  intros fr H. unfold pad_right6.
  destruct fr as [|a [|b [|c [|d [|e [|f [|g r]]]]]]].
  - exists 6%nat; reflexivity.
  - exists 5%nat; reflexivity.
  - exists 4%nat; reflexivity.
  - exists 3%nat; reflexivity.
  - exists 2%nat; reflexivity.
  - exists 1%nat; reflexivity.
  - exists 0%nat; reflexivity.
  - cbn in H. lia.
Qed.

Lemma rstrip0_pad : forall fr, (List.length fr <= 6)%nat -> rstrip0 (pad_right6 fr) = rstrip0 fr.
Proof. intros fr H. destruct (pad_right6_zeros fr H) as [k E]. rewrite E. apply rstrip0_zeros. Qed.

Lemma slice_2_m1_prefixed : forall a b body, slice_2_m1 (a :: b :: body ++ [c_quote]) = body.
Proof. intros. unfold slice_2_m1. cbn [tl]. apply removelast_last. Qed.

Lemma ts_meaning : forall b v, py_strptime b = Some v ->
  m_ts b = MTs (TsVal (ts_y v) (ts_mo v) (ts_d v) (ts_h v) (ts_mi v) (ts_s v) (rstrip0 (ts_us v))).
Proof.
  intros b v H. unfold py_strptime in H. unfold m_ts.
  destruct (ts_split b) as [f|]; [|discriminate].
  destruct (ts_frac (tf_rest f)) as [fr|]; [|discriminate].
  destruct (N.of_nat (List.length fr) <=? 6) eqn:L; [|discriminate].
  match type of H with (if ?c then _ else _) = _ => destruct c; [|discriminate] end.
  inversion H; subst v. cbn [ts_y ts_mo ts_d ts_h ts_mi ts_s ts_us].
  rewrite rstrip0_pad; [reflexivity|]. apply N.leb_le in L. lia.
Qed.

Lemma lit_meaning : forall t, kind_in t primitive_kinds = true -> lit_sem t = true ->
  ma_const (sv_lit t) = m_tok t.
Proof.
  intros t Hk Hs. pose proof (visit_lit t Hk Hs) as V.
  unfold kind_in in Hk. apply andb_true_iff in Hk. destruct Hk as [Hk Hok].
  destruct t as [k s]. unfold token_ok in Hok. unfold lit_sem in Hs. unfold m_tok. cbn [tk tx] in *.
  destruct k; cbn in Hk; try discriminate; unfold visit_terminal in V; cbn [tk tx] in V.
  - destruct (py_int s); [|discriminate]. inversion V as [E]. try rewrite <- E. reflexivity.
  - destruct (py_int s); [|discriminate]. inversion V as [E]. try rewrite <- E. reflexivity.
  - destruct (py_float s); [|discriminate]. inversion V as [E]. try rewrite <- E. reflexivity.
  - destruct (py_float s); [|discriminate]. inversion V as [E]. try rewrite <- E. reflexivity.
  - unfold mk_hex_from_tree in V. destruct (prefixed_body 104 s) as [b|]; [|discriminate].
    destruct (negb (is_nil b) && hex_pairs b); [|discriminate]. inversion V as [E]. try rewrite <- E. reflexivity.
  - unfold mk_binary_from_tree in V. destruct (prefixed_body 98 s) as [b|]; [|discriminate].
    destruct (b64_groups b); [|discriminate]. inversion V as [E]. try rewrite <- E. reflexivity.
  - destruct (starts_with_quote s && last_is s c_quote); [|discriminate]. inversion V as [E]. try rewrite <- E. reflexivity.
  - destruct (ustr_eqb s (u "true")); [inversion V as [E]; try rewrite <- E; reflexivity|].
    destruct (ustr_eqb s (u "false")); [inversion V as [E]; try rewrite <- E; reflexivity|discriminate].
  - unfold timestamp_ok in Hok. destruct (prefixed_body 116 s) as [b|] eqn:Eb; [|discriminate].
    pose proof (prefixed_body_shape _ _ _ Eb) as Sh. clear Eb. subst s.
    change (116 =? 116) with true in V. cbn iota in V. rewrite slice_2_m1_prefixed in V, Hs.
    destruct (py_strptime b) as [v|] eqn:Ev; [|discriminate]. inversion V as [E]. try rewrite <- E.
    cbn [ma_const]. symmetry. apply ts_meaning. exact Ev.
Qed.

(* ------------------------------------------------------------------ *)
(** * Names and paths *)

Lemma is_alpha_not_special : forall c, is_alpha_ c = true -> (c =? c_hyphen) = false /\ (c =? c_quote) = false /\ (c =? c_bslash) = false.
Proof.
  intros c H. unfold is_alpha_ in H. unfold c_hyphen, c_quote, c_bslash.
  repeat (apply orb_true_iff in H; destruct H as [H|H]);
    try (apply andb_true_iff in H; destruct H as [H1 H2]; apply N.leb_le in H1, H2);
    try apply N.eqb_eq in H; repeat split; apply N.eqb_neq; lia.
Qed.
Lemma is_digit_not_special : forall c, is_digit c = true -> (c =? c_hyphen) = false /\ (c =? c_quote) = false /\ (c =? c_bslash) = false.
Proof.
  intros c H. unfold is_digit in H. unfold c_hyphen, c_quote, c_bslash.
  apply andb_true_iff in H; destruct H as [H1 H2]; apply N.leb_le in H1, H2.
  repeat split; apply N.eqb_neq; lia.
Qed.

Definition plain_char (c : N) : bool := negb (c =? c_hyphen) && negb (c =? c_quote) && negb (c =? c_bslash).

Lemma ident_chars_plain : forall s, ident_ok s = true -> forallb plain_char s = true.
Proof.
  intros s H. destruct s as [|c r]; [discriminate|]. cbn [ident_ok] in H.
  apply andb_true_iff in H. destruct H as [H _]. apply andb_true_iff in H. destruct H as [Hc Hr].
  cbn [forallb]. apply andb_true_iff. split.
  - destruct (is_alpha_not_special c Hc) as [A [B C]]. unfold plain_char. rewrite A, B, C. reflexivity.
  - clear Hc. induction r as [|x r IH]; [reflexivity|]. cbn [forallb] in Hr |- *.
    apply andb_true_iff in Hr. destruct Hr as [Hx Hr]. rewrite (IH Hr), andb_true_r.
    apply orb_true_iff in Hx. destruct Hx as [Hx|Hx].
    + destruct (is_alpha_not_special x Hx) as [A [B C]]. unfold plain_char. rewrite A, B, C. reflexivity.
    + destruct (is_digit_not_special x Hx) as [A [B C]]. unfold plain_char. rewrite A, B, C. reflexivity.
Qed.

Lemma plain_no_hyphen : forall s, forallb plain_char s = true -> mem_N c_hyphen s = false.
Proof.
  induction s as [|c r IH]; intros H; [reflexivity|]. cbn [forallb] in H. apply andb_true_iff in H. destruct H as [Hc Hr].
  cbn [mem_N]. rewrite (IH Hr), orb_false_r. unfold plain_char in Hc.
  apply andb_true_iff in Hc. destruct Hc as [Hc _]. apply andb_true_iff in Hc. destruct Hc as [Hc _].
  apply negb_true_iff in Hc. rewrite N.eqb_sym. exact Hc.
Qed.

Lemma plain_no_quote_start : forall s, forallb plain_char s = true -> starts_with_quote s = false.
Proof.
  intros [|c r] H; [reflexivity|]. cbn [forallb] in H. apply andb_true_iff in H. destruct H as [Hc _].
  unfold plain_char in Hc. apply andb_true_iff in Hc. destruct Hc as [Hc _]. apply andb_true_iff in Hc. destruct Hc as [_ Hc].
  apply negb_true_iff in Hc. exact Hc.
Qed.

Lemma plain_unescape : forall s, forallb plain_char s = true -> unescape s = s.
Proof.
  induction s as [|c r IH]; intros H; [reflexivity|]. cbn [forallb] in H. apply andb_true_iff in H. destruct H as [Hc Hr].
  cbn [unescape]. unfold plain_char in Hc. apply andb_true_iff in Hc. destruct Hc as [_ Hc].
  apply negb_true_iff in Hc. rewrite Hc, (IH Hr). reflexivity.
Qed.

(* a lexed string body never starts with a bare quote *)
Lemma lex_body_no_quote_start : forall b, lex_body b <> None -> starts_with_quote b = false.
Proof.
  intros [|c r] H; [reflexivity|]. cbn [starts_with_quote]. destruct (c =? c_quote) eqn:E; [|reflexivity].
  exfalso. apply H. cbn [lex_body]. apply N.eqb_eq in E. subst c.
  change (c_quote =? c_bslash) with false. change (c_quote =? c_quote) with true. reflexivity.
Qed.

Lemma m_name_text_quoted : forall b, m_name_text (c_quote :: b ++ [c_quote]) = unescape b.
Proof. intros b. unfold m_name_text. change (starts_with_quote (c_quote :: b ++ [c_quote])) with true. cbn iota. rewrite slice_1_m1_quoted. reflexivity. Qed.

(* the name a component prints -- and therefore means *)
Definition pend_meaning (c : pending) : ustring :=
  match c with PName n => m_name_text n | PStr b => unescape b end.
Definition pend_wf (c : pending) : Prop :=
  match c with
  | PName n => mem_N c_hyphen n = false \/ starts_with_quote n = true
  | PStr b => lex_body b <> None
  end.

Lemma ma_name_plain : forall n, mem_N c_hyphen n = false \/ starts_with_quote n = true -> ma_name n = m_name_text n.
Proof.
  intros n [H|H]; unfold ma_name, quote_if_needed; rewrite H; [reflexivity|]. rewrite andb_false_r. reflexivity.
Qed.

Lemma ma_name_body : forall b, lex_body b <> None -> mem_N c_hyphen b || ident_ok b = true -> ma_name b = unescape b.
Proof.
  intros b L H. unfold ma_name, quote_if_needed.
  destruct (mem_N c_hyphen b) eqn:Hh.
  - rewrite (lex_body_no_quote_start b L). cbn [negb andb app]. apply m_name_text_quoted.
  - cbn [orb] in H. cbn [andb]. pose proof (ident_chars_plain b H) as P.
    unfold m_name_text. rewrite (plain_no_quote_start b P), (plain_unescape b P). reflexivity.
Qed.

Lemma ma_name_strconst : forall b, ma_name (str_const (CString b false)) = unescape b.
Proof.
  intros b. unfold str_const, print_string_const. cbn [pr_const text_of flat_map tx]. rewrite app_nil_r.
  cbn [app]. unfold ma_name, quote_if_needed.
  change (starts_with_quote (c_quote :: b ++ [c_quote])) with true. rewrite andb_false_r.
  apply m_name_text_quoted.
Qed.

Lemma key_pend : forall n, kind_in n [KIdent; KString] = true ->
  pend_wf (pend_of_key n) /\ pend_meaning (pend_of_key n) = m_name_text (tx n).
Proof.
  intros [k s] H. unfold kind_in in H. apply andb_true_iff in H. destruct H as [Hk Hok].
  unfold token_ok in Hok. cbn [tk tx] in *. unfold pend_of_key. cbn [tk tx].
  destruct k; cbn in Hk; try discriminate.
  - destruct (string_ok_shape s Hok) as [body [E L]]. subst s. rewrite slice_1_m1_quoted.
    split; [exact L|]. cbn [pend_meaning]. symmetry. apply m_name_text_quoted.
  - split; [|reflexivity]. left. apply plain_no_hyphen, ident_chars_plain. exact Hok.
Qed.

Lemma idx_meaning : forall i, kind_in i [KIntPos; KIntNeg; KASTERISK] = true -> ma_idx (idx_of i) = m_pstep (IndexStep i).
Proof.
  intros [k s] H. unfold kind_in in H. apply andb_true_iff in H. destruct H as [Hk Hok].
  unfold token_ok in Hok. cbn [tk tx] in *. unfold idx_of, m_pstep. cbn [tk tx].
  destruct k; cbn in Hk; try discriminate.
  - destruct (py_int_intneg s Hok) as [z Hz]. rewrite Hz. reflexivity.
  - destruct (py_int_intpos s Hok) as [z Hz]. rewrite Hz. reflexivity.
  - cbn [ma_idx]. rewrite Hok. reflexivity.
Qed.

Lemma comps_meaning : forall l cur, forallb wf_pstep l = true -> pend_wf cur -> comps_sem cur l = true ->
  flat_map ma_comp (comps cur l) = MKey (pend_meaning cur) :: map m_pstep l.
Proof.
  fix IH 1. intros l cur Hw Hc Hs.
  assert (Emit : emit_ok cur = true -> ma_comp (emit cur) = [MKey (pend_meaning cur)]).
  { intros He. destruct cur as [n|b]; cbn [emit ma_comp pend_meaning].
    - rewrite (ma_name_plain n Hc). reflexivity.
    - rewrite (ma_name_body b Hc He). reflexivity. }
  destruct l as [|s r].
  - cbn [comps flat_map map]. cbn [comps_sem] in Hs. rewrite (Emit Hs). reflexivity.
  - cbn [forallb] in Hw. apply andb_true_iff in Hw. destruct Hw as [Hws Hwr].
    destruct s as [n|i].
    + cbn [comps_sem] in Hs. apply andb_true_iff in Hs. destruct Hs as [He Hs].
      cbn [wf_pstep] in Hws. destruct (key_pend n Hws) as [Pw Pm].
      cbn [comps flat_map map]. rewrite (Emit He), (IH r (pend_of_key n) Hwr Pw Hs), Pm. reflexivity.
    + cbn [comps_sem] in Hs. apply andb_true_iff in Hs. destruct Hs as [Hi Hs].
      cbn [wf_pstep] in Hws.
      assert (Name : ma_name (idx_name cur) = pend_meaning cur).
      { destruct cur as [n|b]; cbn [idx_name pend_meaning]; [apply ma_name_plain; exact Hc|apply ma_name_strconst]. }
      cbn [comps flat_map map ma_comp]. rewrite Name, (idx_meaning i Hws). cbn [app]. f_equal. f_equal.
      destruct r as [|s' r']; [reflexivity|].
      destruct s' as [n'|i']; [|discriminate Hs].
      cbn [forallb] in Hwr. apply andb_true_iff in Hwr. destruct Hwr as [Hwn Hwr'].
      cbn [wf_pstep] in Hwn. destruct (key_pend n' Hwn) as [Pw Pm].
      rewrite (IH r' (pend_of_key n') Hwr' Pw Hs), Pm. reflexivity.
Qed.

Lemma wf_opc_steps : forall c, wf_opc c = true -> forallb wf_pstep (opc_steps c) = true.
Proof.
  induction c as [s|l IH r]; intros H; cbn [wf_opc opc_steps] in *.
  - cbn. rewrite H. reflexivity.
  - apply andb_true_iff in H. destruct H as [Hl Hr]. rewrite forallb_app, (IH Hl). cbn. rewrite Hr. reflexivity.
Qed.

Lemma m_opc_steps : forall c, m_opc c = map m_pstep (opc_steps c).
Proof. induction c as [s|l IH r]; cbn [m_opc opc_steps]; [reflexivity|]. rewrite map_app, IH. reflexivity. Qed.

Lemma path_meaning : forall p, wf_path p = true -> path_sem p = true -> ma_path (sv_path_v p) = m_path p.
Proof.
  intros [ty first rest] Hw Hs. unfold wf_path in Hw. cbn [op_type op_first op_rest] in Hw.
  apply andb_true_iff in Hw. destruct Hw as [Hw Hr]. apply andb_true_iff in Hw. destruct Hw as [Hty Hf].
  unfold ma_path, sv_path_v, m_path, path_sem, path_steps in *. cbn [op_type op_first op_rest ap_type ap_comps] in *.
  assert (Pf : pend_wf (PName (tx first))).
  { unfold kind_in in Hf. apply andb_true_iff in Hf. destruct Hf as [Hk Hok]. destruct first as [k s].
    unfold token_ok in Hok. cbn [tk tx] in *. destruct k; cbn in Hk; try discriminate.
    - right. destruct (string_ok_shape s Hok) as [body [E _]]. subst s. reflexivity.
    - left. apply plain_no_hyphen, ident_chars_plain. exact Hok. }
  destruct rest as [c|].
  - rewrite (comps_meaning (opc_steps c) (PName (tx first)) (wf_opc_steps c Hr) Pf Hs), m_opc_steps. reflexivity.
  - rewrite (comps_meaning [] (PName (tx first)) eq_refl Pf Hs). reflexivity.
Qed.

(* ------------------------------------------------------------------ *)
(** * Comparison expressions *)

Lemma sv_lit_not_list : forall t, match sv_lit t with CList _ => False | _ => True end.
Proof.
  intros [k s]. unfold sv_lit, visit_terminal. cbn [tk tx].
  destruct k; try exact I.
  - destruct (py_int s); exact I.
  - destruct (py_int s); exact I.
  - destruct (py_float s); exact I.
  - destruct (py_float s); exact I.
  - unfold mk_hex_from_tree. destruct (prefixed_body 104 s); [|exact I]. destruct (_ && _); exact I.
  - unfold mk_binary_from_tree. destruct (prefixed_body 98 s); [|exact I]. destruct (b64_groups _); exact I.
  - destruct (_ && _); exact I.
  - destruct (ustr_eqb s (u "true")); [exact I|]. destruct (ustr_eqb s (u "false")); exact I.
  - destruct (py_strptime _); exact I.
Qed.

Lemma ma_op_eq_lit : forall t, ma_op KlEq (sv_lit t) = MoEq.
Proof. intros t. pose proof (sv_lit_not_list t). unfold ma_op. destruct (sv_lit t); try reflexivity. contradiction. Qed.

Definition not_boolop (m : mexpr) : Prop := match m with MBoolOp _ _ => False | _ => True end.
Definition not_boolop_of (b : bool) (m : mexpr) : Prop := match m with MBoolOp b' _ => b' <> b | _ => True end.

Lemma ma_mk1 : forall b ops,
  match ops with x :: _ => not_boolop_of b (ma x) | [] => True end ->
  ma (mk1 b ops) = one_or (MBoolOp b) (map ma ops).
Proof.
  intros b ops H. destruct ops as [|x [|y r]]; [reflexivity|reflexivity|].
  cbn [mk1 ma map]. f_equal. cbn [splice_first]. destruct (ma x); try reflexivity.
  cbn in H. destruct (Bool.eqb isand b) eqn:E; [|reflexivity]. apply eqb_prop in E. contradiction.
Qed.

Lemma sv_pt_meaning_shape : forall p, not_boolop (ma (sv_pt p)).
Proof. destruct p; exact I. Qed.

Lemma one_or_and_shape : forall l, (forall x, In x l -> not_boolop x) -> not_boolop_of false (one_or (MBoolOp true) l).
Proof.
  intros l H. destruct l as [|x [|y r]]; cbn; try discriminate.
  specialize (H x (or_introl eq_refl)). destruct x; try exact I. contradiction.
Qed.

Lemma order_op_meaning : forall op, ma_op (order_cls op) = fun _ => m_order_op op.
Proof. intros op. unfold order_cls, m_order_op. destruct (tk op); reflexivity. Qed.

Lemma cmp_meaning :
  (forall p, wf_pt p = true -> sem_pt p = true -> ma (sv_pt p) = mc_pt p) /\
  (forall a, wf_and a = true -> sem_and a = true -> map ma (sv_and_ops a) = mc_and_list a) /\
  (forall o, wf_or o = true -> sem_or o = true -> map ma (sv_or_ops o) = mc_or_list o).
Proof.
  apply cmp_mutind.
  - intros p nt op l Hw Hs. cbn [wf_pt sem_pt] in Hw, Hs.
    apply andb_true_iff in Hw. destruct Hw as [Hw Hl]. apply andb_true_iff in Hw. destruct Hw as [Hp Hop].
    apply andb_true_iff in Hs. destruct Hs as [Sp Sl].
    cbn [sv_pt ma mc_pt]. rewrite (path_meaning p Hp Sp), (lit_meaning l Hl Sl), ma_op_eq_lit, xorb_comm. reflexivity.
  - intros p nt op l Hw Hs. cbn [wf_pt sem_pt] in Hw, Hs.
    apply andb_true_iff in Hw. destruct Hw as [Hw Hl]. apply andb_true_iff in Hw. destruct Hw as [Hp Hop].
    apply andb_true_iff in Hs. destruct Hs as [Sp Sl].
    cbn [sv_pt ma mc_pt]. rewrite (path_meaning p Hp Sp), (lit_meaning l (orderable_primitive l Hl) Sl), order_op_meaning. reflexivity.
  - intros p nt es Hw Hs. cbn [wf_pt sem_pt] in Hw, Hs.
    apply andb_true_iff in Hw. destruct Hw as [Hp Hes]. apply andb_true_iff in Hs. destruct Hs as [Sp Ses].
    cbn [sv_pt ma mc_pt ma_op ma_const]. rewrite (path_meaning p Hp Sp). f_equal. f_equal.
    rewrite map_map. clear Hp Sp. induction es as [|x r IH]; [reflexivity|].
    cbn [forallb] in Hes, Ses. apply andb_true_iff in Hes, Ses. destruct Hes as [Hx Hr]. destruct Ses as [Sx Sr].
    cbn [map]. rewrite (lit_meaning x Hx Sx), (IH Hr Sr). reflexivity.
  - intros o p nt s Hw Hs. cbn [wf_pt sem_pt] in Hw, Hs.
    apply andb_true_iff in Hw. destruct Hw as [Hp Hk].
    assert (Hk' : kind_in s primitive_kinds = true).
    { apply (kind_in_weaken _ _ _ Hk). intros k. destruct k; cbn; intros E; try discriminate; reflexivity. }
    assert (Sl : lit_sem s = true).
    { destruct (kind_single _ _ Hk) as [Hk1 _]. apply lit_sem_other; rewrite Hk1; discriminate. }
    cbn [sv_pt ma mc_pt]. rewrite (path_meaning p Hp Hs), (lit_meaning s Hk' Sl).
    assert (O : ma_op (strop_cls o) (sv_lit s) = m_strop o) by (destruct o; reflexivity).
    rewrite O. reflexivity.
  - intros e IH Hw Hs. cbn [wf_pt sem_pt] in Hw, Hs. cbn [sv_pt ma mc_pt]. f_equal.
    rewrite ma_mk1.
    + rewrite (IH Hw Hs). reflexivity.
    + destruct e as [a|l r]; cbn [sv_or_ops].
      * (* first operand is an AND chain or a single test *)
        destruct a as [p|l' r'].
        -- cbn [sv_and_ops mk1]. pose proof (sv_pt_meaning_shape p). destruct (ma (sv_pt p)); try exact I. contradiction.
        -- fold (sv_and (CAnd l' r')). rewrite sv_and_CAnd. cbn [ma]. discriminate.
      * destruct (sv_or_ops l) as [|x xs] eqn:E; [exact I|].
        cbn [app].
        (* x is the first operand of l, again an AND chain or a single test *)
        clear IH Hw Hs. revert x xs E. induction l as [a|l' IHl r']; intros x xs E.
        -- cbn [sv_or_ops] in E. inversion E; subst. destruct a as [p|l'' r''].
           ++ cbn [sv_and_ops mk1]. pose proof (sv_pt_meaning_shape p). destruct (ma (sv_pt p)); try exact I. contradiction.
           ++ fold (sv_and (CAnd l'' r'')). rewrite sv_and_CAnd. cbn [ma]. discriminate.
        -- cbn [sv_or_ops] in E. destruct (sv_or_ops l') as [|x' xs'] eqn:E'.
           ++ exfalso. exact (sv_or_ops_nonnil l' E').
           ++ cbn [app] in E. inversion E; subst. exact (IHl x xs' eq_refl).
  - intros nt p Hw Hs. discriminate Hs.
  - intros p IH Hw Hs. cbn [wf_and sem_and] in Hw, Hs. cbn [sv_and_ops map mc_and_list]. rewrite (IH Hw Hs). reflexivity.
  - intros l IHl r IHr Hw Hs. cbn [wf_and sem_and] in Hw, Hs.
    apply andb_true_iff in Hw. destruct Hw as [Hwl Hwr].
    apply andb_true_iff in Hs. destruct Hs as [Hs _]. apply andb_true_iff in Hs. destruct Hs as [Hsl Hsr].
    cbn [sv_and_ops mc_and_list]. rewrite map_app, (IHl Hwl Hsl). cbn [map]. rewrite (IHr Hwr Hsr). reflexivity.
  - intros a IH Hw Hs. cbn [wf_or sem_or] in Hw, Hs. cbn [sv_or_ops map mc_or_list]. f_equal.
    rewrite ma_mk1; [rewrite (IH Hw Hs); reflexivity|].
    destruct a as [p|l r]; cbn [sv_and_ops].
    + pose proof (sv_pt_meaning_shape p). destruct (ma (sv_pt p)); try exact I. contradiction.
    + destruct (sv_and_ops l) as [|x xs] eqn:E; [exact I|]. cbn [app].
      clear IH Hw Hs. revert x xs E. induction l as [p|l' IHl r']; intros x xs E.
      * cbn [sv_and_ops] in E. inversion E; subst. pose proof (sv_pt_meaning_shape p). destruct (ma (sv_pt p)); try exact I. contradiction.
      * cbn [sv_and_ops] in E. destruct (sv_and_ops l') as [|x' xs'] eqn:E'.
        -- exfalso. exact (sv_and_ops_nonnil l' E').
        -- cbn [app] in E. inversion E; subst. exact (IHl x xs' eq_refl).
  - intros l IHl r IHr Hw Hs. cbn [wf_or sem_or] in Hw, Hs.
    apply andb_true_iff in Hw. destruct Hw as [Hwl Hwr]. apply andb_true_iff in Hs. destruct Hs as [Hsl Hsr].
    cbn [sv_or_ops mc_or_list]. rewrite map_app, (IHl Hwl Hsl). cbn [map]. f_equal. f_equal.
    rewrite ma_mk1; [rewrite (IHr Hwr Hsr); reflexivity|].
    destruct r as [p|l' r']; cbn [sv_and_ops].
    + pose proof (sv_pt_meaning_shape p). destruct (ma (sv_pt p)); try exact I. contradiction.
    + destruct (sv_and_ops l') as [|x xs] eqn:E; [exact I|]. cbn [app].
      clear IHl IHr Hwl Hwr Hsl Hsr. revert x xs E. induction l' as [p|l'' IHl r'']; intros x xs E.
      * cbn [sv_and_ops] in E. inversion E; subst. pose proof (sv_pt_meaning_shape p). destruct (ma (sv_pt p)); try exact I. contradiction.
      * cbn [sv_and_ops] in E. destruct (sv_and_ops l'') as [|x' xs'] eqn:E'.
        -- exfalso. exact (sv_and_ops_nonnil l'' E').
        -- cbn [app] in E. inversion E; subst. exact (IHl x xs' eq_refl).
Qed.

(* Proofs/PatternMeaning.v -- C10: the object the visitor builds means what the
   parse tree says: every comparison with its operator and negation, every
   constant, every path step, every qualifier, and the grouping.             *)
From Coq Require Import NArith ZArith List String Bool Lia.
From V Require Import Model.PatternSyntax Spec.PatternSpec Proofs.PatternR Proofs.PatternNumbers Proofs.PatternLit Proofs.PatternPath
  Proofs.PatternCmp Proofs.PatternObs Proofs.PatternEscape.
Import ListNotations.
Open Scope N_scope.

(* ------------------------------------------------------------------ *)
(** * Constants *)

Lemma strip0_repeat : forall k x, strip0 (repeat 48 k ++ x) = strip0 x.
Proof. induction k as [|k IH]; intros x; [reflexivity|]. cbn [repeat app strip0]. change (48 =? 48) with true. cbn iota. apply IH. Qed.

Lemma rev_repeat : forall (A : Type) (a : A) k, rev (repeat a k) = repeat a k.
Proof.
  induction k as [|k IH]; [reflexivity|]. cbn [repeat rev]. rewrite IH.
  clear IH. induction k as [|k IH]; [reflexivity|]. cbn [repeat app]. rewrite IH. reflexivity.
Qed.

Lemma rstrip0_zeros : forall l k, rstrip0 (l ++ repeat 48 k) = rstrip0 l.
Proof. intros l k. unfold rstrip0. rewrite rev_app_distr, rev_repeat, strip0_repeat. reflexivity. Qed.

Lemma pad_right6_zeros : forall fr, (List.length fr <= 6)%nat -> exists k, pad_right6 fr = fr ++ repeat 48 k.
Proof.
  intros fr H. unfold pad_right6.
  destruct fr as [|a [|b [|c [|d [|e [|f [|g r]]]]]]].
  - exists 6%nat; reflexivity.
  - exists 5%nat; reflexivity.
  - exists 4%nat; reflexivity.
  - exists 3%nat; reflexivity.
  - exists 2%nat; reflexivity.
  - exists 1%nat; reflexivity.
  - exists 0%nat; reflexivity.
  - cbn in H. lia.
Qed.

Lemma rstrip0_pad : forall fr, (List.length fr <= 6)%nat -> rstrip0 (pad_right6 fr) = rstrip0 fr.
Proof. intros fr H. destruct (pad_right6_zeros fr H) as [k E]. rewrite E. apply rstrip0_zeros. Qed.

Lemma slice_2_m1_prefixed : forall a b body, slice_2_m1 (a :: b :: body ++ [c_quote]) = body.
Proof. intros. unfold slice_2_m1. cbn [tl]. apply removelast_last. Qed.

Lemma ts_meaning : forall b v, py_strptime b = Some v ->
  m_ts b = MTs (TsVal (ts_y v) (ts_mo v) (ts_d v) (ts_h v) (ts_mi v) (ts_s v) (rstrip0 (ts_us v))).
Proof.
  intros b v H. unfold py_strptime in H. unfold m_ts.
  destruct (ts_split b) as [f|]; [|discriminate].
  destruct (ts_frac (tf_rest f)) as [fr|]; [|discriminate].
  destruct (N.of_nat (List.length fr) <=? 6) eqn:L; [|discriminate].
  match type of H with (if ?c then _ else _) = _ => destruct c; [|discriminate] end.
  inversion H; subst v. cbn [ts_y ts_mo ts_d ts_h ts_mi ts_s ts_us].
  rewrite rstrip0_pad; [reflexivity|]. apply N.leb_le in L. lia.
Qed.

Lemma lit_meaning : forall t, kind_in t primitive_kinds = true -> lit_sem t = true ->
  ma_const (sv_lit t) = m_tok t.
Proof.
  intros t Hk Hs. pose proof (visit_lit t Hk Hs) as V.
  unfold kind_in in Hk. apply andb_true_iff in Hk. destruct Hk as [Hk Hok].
  destruct t as [k s]. unfold token_ok in Hok. unfold lit_sem in Hs. unfold m_tok. cbn [tk tx] in *.
  destruct k; cbn in Hk; try discriminate; unfold PatternSyntax.visit_terminal in V; cbn [tk tx] in V.
  - destruct (py_int s); [|discriminate]. inversion V as [E]. try rewrite <- E. reflexivity.
  - destruct (py_int s); [|discriminate]. inversion V as [E]. try rewrite <- E. reflexivity.
  - destruct (py_float s); [|discriminate]. inversion V as [E]. try rewrite <- E. reflexivity.
  - destruct (py_float s); [|discriminate]. inversion V as [E]. try rewrite <- E. reflexivity.
  - rewrite mk_hex_rep in V. destruct (prefixed_body 104 s) as [b|]; [|discriminate].
    destruct (hex_pairs b); [|discriminate]. inversion V as [E]. try rewrite <- E. reflexivity.
  - unfold mk_binary_from_tree in V. destruct (prefixed_body 98 s) as [b|]; [|discriminate].
    destruct (b64_groups b); [|discriminate]. inversion V as [E]. try rewrite <- E. reflexivity.
  - destruct (starts_with_quote s && last_is s c_quote); [|discriminate]. inversion V as [E]. try rewrite <- E. reflexivity.
  - destruct (ustr_eqb s (u "true")); [inversion V as [E]; try rewrite <- E; reflexivity|].
    destruct (ustr_eqb s (u "false")); [inversion V as [E]; try rewrite <- E; reflexivity|discriminate].
  - unfold timestamp_ok in Hok. destruct (prefixed_body 116 s) as [b|] eqn:Eb; [|discriminate].
    pose proof (prefixed_body_shape _ _ _ Eb) as Sh. clear Eb. subst s.
    change (116 =? 116) with true in V. cbn iota in V. rewrite slice_2_m1_prefixed in V, Hs.
    destruct (py_strptime b) as [v|] eqn:Ev; [|discriminate]. inversion V as [E]. try rewrite <- E.
    cbn [ma_const]. symmetry. apply ts_meaning. exact Ev.
Qed.

(* ------------------------------------------------------------------ *)
(** * Names and paths *)

Lemma is_alpha_not_special : forall c, is_alpha_ c = true -> (c =? c_hyphen) = false /\ (c =? c_quote) = false /\ (c =? c_bslash) = false.
Proof.
  intros c H. unfold is_alpha_ in H. unfold c_hyphen, c_quote, c_bslash.
  repeat (apply orb_true_iff in H; destruct H as [H|H]);
    try (apply andb_true_iff in H; destruct H as [H1 H2]; apply N.leb_le in H1, H2);
    try apply N.eqb_eq in H; repeat split; apply N.eqb_neq; lia.
Qed.
Lemma is_digit_not_special : forall c, is_digit c = true -> (c =? c_hyphen) = false /\ (c =? c_quote) = false /\ (c =? c_bslash) = false.
Proof.
  intros c H. unfold is_digit in H. unfold c_hyphen, c_quote, c_bslash.
  apply andb_true_iff in H; destruct H as [H1 H2]; apply N.leb_le in H1, H2.
  repeat split; apply N.eqb_neq; lia.
Qed.

Definition plain_char (c : N) : bool := negb (c =? c_hyphen) && negb (c =? c_quote) && negb (c =? c_bslash).

Lemma ident_chars_plain : forall s, ident_ok s = true -> forallb plain_char s = true.
Proof.
  intros s H. destruct s as [|c r]; [discriminate|]. cbn [ident_ok] in H.
  apply andb_true_iff in H. destruct H as [H _]. apply andb_true_iff in H. destruct H as [Hc Hr].
  cbn [forallb]. apply andb_true_iff. split.
  - destruct (is_alpha_not_special c Hc) as [A [B C]]. unfold plain_char. rewrite A, B, C. reflexivity.
  - clear Hc. induction r as [|x r IH]; [reflexivity|]. cbn [forallb] in Hr |- *.
    apply andb_true_iff in Hr. destruct Hr as [Hx Hr]. rewrite (IH Hr), andb_true_r.
    apply orb_true_iff in Hx. destruct Hx as [Hx|Hx].
    + destruct (is_alpha_not_special x Hx) as [A [B C]]. unfold plain_char. rewrite A, B, C. reflexivity.
    + destruct (is_digit_not_special x Hx) as [A [B C]]. unfold plain_char. rewrite A, B, C. reflexivity.
Qed.

Lemma plain_no_hyphen : forall s, forallb plain_char s = true -> mem_N c_hyphen s = false.
Proof.
  induction s as [|c r IH]; intros H; [reflexivity|]. cbn [forallb] in H. apply andb_true_iff in H. destruct H as [Hc Hr].
  cbn [mem_N]. rewrite (IH Hr), orb_false_r. unfold plain_char in Hc.
  apply andb_true_iff in Hc. destruct Hc as [Hc _]. apply andb_true_iff in Hc. destruct Hc as [Hc _].
  apply negb_true_iff in Hc. rewrite N.eqb_sym. exact Hc.
Qed.

Lemma plain_no_quote_start : forall s, forallb plain_char s = true -> starts_with_quote s = false.
Proof.
  intros [|c r] H; [reflexivity|]. cbn [forallb] in H. apply andb_true_iff in H. destruct H as [Hc _].
  unfold plain_char in Hc. apply andb_true_iff in Hc. destruct Hc as [Hc _]. apply andb_true_iff in Hc. destruct Hc as [_ Hc].
  apply negb_true_iff in Hc. exact Hc.
Qed.

Lemma plain_unescape : forall s, forallb plain_char s = true -> unescape s = s.
Proof.
  induction s as [|c r IH]; intros H; [reflexivity|]. cbn [forallb] in H. apply andb_true_iff in H. destruct H as [Hc Hr].
  cbn [unescape]. unfold plain_char in Hc. apply andb_true_iff in Hc. destruct Hc as [_ Hc].
  apply negb_true_iff in Hc. rewrite Hc, (IH Hr). reflexivity.
Qed.

(* a lexed string body never starts with a bare quote *)
Lemma lex_body_no_quote_start : forall b, lex_body b <> None -> starts_with_quote b = false.
Proof.
  intros [|c r] H; [reflexivity|]. cbn [starts_with_quote]. destruct (c =? c_quote) eqn:E; [|reflexivity].
  exfalso. apply H. cbn [lex_body]. apply N.eqb_eq in E. subst c.
  change (c_quote =? c_bslash) with false. change (c_quote =? c_quote) with true. reflexivity.
Qed.

Lemma m_name_text_quoted : forall b, m_name_text (c_quote :: b ++ [c_quote]) = unescape b.
Proof. intros b. unfold m_name_text. change (starts_with_quote (c_quote :: b ++ [c_quote])) with true. cbn iota. rewrite slice_1_m1_quoted. reflexivity. Qed.

(* the name a component prints -- and therefore means *)
Definition pend_meaning (c : pending) : ustring :=
  match c with PName n => m_name_text n | PStr b => unescape b end.
Definition pend_wf (c : pending) : Prop :=
  match c with
  | PName n => ident_ok n = true \/ starts_with_quote n = true
  | PStr b => lex_body b <> None
  end.

Lemma ma_name_plain : forall n, ident_ok n = true \/ starts_with_quote n = true -> ma_name n = m_name_text n.
Proof.
  intros n [H|H]; unfold PatternSyntax.ma_name; rewrite quote_if_needed_rep, H; [rewrite andb_false_r|]; reflexivity.
Qed.

Lemma ma_name_body : forall b, lex_body b <> None -> ma_name b = unescape b.
Proof.
  intros b L. unfold PatternSyntax.ma_name. rewrite quote_if_needed_rep, (lex_body_no_quote_start b L). cbn [negb andb].
  destruct (ident_ok b) eqn:Hi; cbn [negb].
  - pose proof (ident_chars_plain b Hi) as P.
    unfold m_name_text. rewrite (plain_no_quote_start b P), (plain_unescape b P). reflexivity.
  - cbn [List.app]. apply m_name_text_quoted.
Qed.

Lemma ma_name_strconst : forall b, ma_name (str_const (CString b false)) = unescape b.
Proof.
  intros b. unfold PatternSyntax.str_const, print_string_const. cbn [PatternSyntax.pr_const text_of flat_map tx]. rewrite app_nil_r.
  cbn [List.app]. unfold PatternSyntax.ma_name. rewrite quote_if_needed_rep.
  change (starts_with_quote (c_quote :: b ++ [c_quote])) with true. cbn [negb andb].
  apply m_name_text_quoted.
Qed.

Lemma key_pend : forall n, kind_in n [KIdent; KString] = true ->
  pend_wf (pend_of_key n) /\ pend_meaning (pend_of_key n) = m_name_text (tx n).
Proof.
  intros [k s] H. unfold kind_in in H. apply andb_true_iff in H. destruct H as [Hk Hok].
  unfold token_ok in Hok. cbn [tk tx] in *. unfold pend_of_key. cbn [tk tx].
  destruct k; cbn in Hk; try discriminate.
  - destruct (string_ok_shape s Hok) as [body [E L]]. subst s. rewrite slice_1_m1_quoted.
    split; [exact L|]. cbn [pend_meaning]. symmetry. apply m_name_text_quoted.
  - split; [|reflexivity]. left. exact Hok.
Qed.

Lemma idx_meaning : forall i, kind_in i [KIntPos; KIntNeg; KASTERISK] = true -> ma_idx (idx_of i) = m_pstep (IndexStep i).
Proof.
  intros [k s] H. unfold kind_in in H. apply andb_true_iff in H. destruct H as [Hk Hok].
  unfold token_ok in Hok. cbn [tk tx] in *. unfold idx_of, m_pstep. cbn [tk tx].
  destruct k; cbn in Hk; try discriminate.
  - destruct (py_int_intneg s Hok) as [z Hz]. rewrite Hz. reflexivity.
  - destruct (py_int_intpos s Hok) as [z Hz]. rewrite Hz. reflexivity.
  - cbn [ma_idx]. rewrite Hok. reflexivity.
Qed.

Lemma comps_meaning : forall l cur, forallb wf_pstep l = true -> pend_wf cur -> comps_sem cur l = true ->
  flat_map ma_comp (comps cur l) = MKey (pend_meaning cur) :: map m_pstep l.
Proof.
  fix IH 1. intros l cur Hw Hc Hs.
  assert (Emit : ma_comp (emit cur) = [MKey (pend_meaning cur)]).
  { destruct cur as [n|b]; cbn [emit PatternSyntax.ma_comp pend_meaning].
    - rewrite (ma_name_plain n Hc). reflexivity.
    - rewrite (ma_name_body b Hc). reflexivity. }
  destruct l as [|s r].
  - cbn [comps flat_map map]. rewrite Emit. reflexivity.
  - cbn [forallb] in Hw. apply andb_true_iff in Hw. destruct Hw as [Hws Hwr].
    destruct s as [n|i].
    + cbn [comps_sem] in Hs.
      cbn [wf_pstep] in Hws. destruct (key_pend n Hws) as [Pw Pm].
      cbn [comps flat_map map]. rewrite Emit, (IH r (pend_of_key n) Hwr Pw Hs), Pm. reflexivity.
    + cbn [comps_sem] in Hs.
      cbn [wf_pstep] in Hws.
      assert (Name : ma_name (idx_name cur) = pend_meaning cur).
      { destruct cur as [n|b]; cbn [idx_name pend_meaning]; [apply ma_name_plain; exact Hc|apply ma_name_strconst]. }
      cbn [comps flat_map map PatternSyntax.ma_comp]. rewrite Name, (idx_meaning i Hws). cbn [List.app]. f_equal. f_equal.
      destruct r as [|s' r']; [reflexivity|].
      destruct s' as [n'|i']; [|discriminate Hs].
      cbn [forallb] in Hwr. apply andb_true_iff in Hwr. destruct Hwr as [Hwn Hwr'].
      cbn [wf_pstep] in Hwn. destruct (key_pend n' Hwn) as [Pw Pm].
      rewrite (IH r' (pend_of_key n') Hwr' Pw Hs), Pm. reflexivity.
Qed.

Lemma wf_opc_steps : forall c, wf_opc c = true -> forallb wf_pstep (opc_steps c) = true.
Proof.
  induction c as [s|l IH r]; intros H; cbn [wf_opc opc_steps] in *.
  - cbn. rewrite H. reflexivity.
  - apply andb_true_iff in H. destruct H as [Hl Hr]. rewrite forallb_app, (IH Hl). cbn. rewrite Hr. reflexivity.
Qed.

Lemma m_opc_steps : forall c, m_opc c = map m_pstep (opc_steps c).
Proof. induction c as [s|l IH r]; cbn [m_opc opc_steps]; [reflexivity|]. rewrite map_app, IH. reflexivity. Qed.

Lemma path_meaning : forall p, wf_path p = true -> path_sem p = true -> ma_path (sv_path_v p) = m_path p.
Proof.
  intros [ty first rest] Hw Hs. unfold wf_path in Hw. cbn [op_type op_first op_rest] in Hw.
  apply andb_true_iff in Hw. destruct Hw as [Hw Hr]. apply andb_true_iff in Hw. destruct Hw as [Hty Hf].
  unfold PatternSyntax.ma_path, sv_path_v, m_path, path_sem, path_steps in *. cbn [op_type op_first op_rest ap_type ap_comps] in *.
  assert (Pf : pend_wf (PName (tx first))).
  { unfold kind_in in Hf. apply andb_true_iff in Hf. destruct Hf as [Hk Hok]. destruct first as [k s].
    unfold token_ok in Hok. cbn [tk tx] in *. destruct k; cbn in Hk; try discriminate.
    - right. destruct (string_ok_shape s Hok) as [body [E _]]. subst s. reflexivity.
    - left. exact Hok. }
  destruct rest as [c|].
  - rewrite (comps_meaning (opc_steps c) (PName (tx first)) (wf_opc_steps c Hr) Pf Hs), m_opc_steps. reflexivity.
  - rewrite (comps_meaning [] (PName (tx first)) eq_refl Pf Hs). reflexivity.
Qed.

(* ------------------------------------------------------------------ *)
(** * Comparison expressions *)

Lemma sv_lit_not_list : forall t, match sv_lit t with CList _ => False | _ => True end.
Proof.
  intros [k s]. unfold sv_lit, PatternSyntax.visit_terminal. cbn [tk tx].
  destruct k; try exact I.
  - destruct (py_int s); exact I.
  - destruct (py_int s); exact I.
  - destruct (py_float s); exact I.
  - destruct (py_float s); exact I.
  - unfold PatternSyntax.mk_hex_from_tree. destruct (prefixed_body 104 s); [|exact I]. destruct (_ && _); exact I.
  - unfold mk_binary_from_tree. destruct (prefixed_body 98 s); [|exact I]. destruct (b64_groups _); exact I.
  - destruct (_ && _); exact I.
  - destruct (ustr_eqb s (u "true")); [exact I|]. destruct (ustr_eqb s (u "false")); exact I.
  - destruct (py_strptime _); exact I.
Qed.

Lemma ma_op_eq_lit : forall t, ma_op KlEq (sv_lit t) = MoEq.
Proof. intros t. pose proof (sv_lit_not_list t). unfold ma_op. destruct (sv_lit t); try reflexivity. contradiction. Qed.

Definition not_boolop (m : mexpr) : Prop := match m with MBoolOp _ _ => False | _ => True end.
Definition not_boolop_of (b : bool) (m : mexpr) : Prop := match m with MBoolOp b' _ => b' <> b | _ => True end.

Lemma ma_mk1 : forall b ops,
  match ops with x :: _ => not_boolop_of b (ma x) | [] => True end ->
  ma (mk1 b ops) = one_or (MBoolOp b) (map ma ops).
Proof.
  intros b ops H. destruct ops as [|x [|y r]]; [reflexivity|reflexivity|].
  cbn [mk1 PatternSyntax.ma map]. f_equal. cbn [splice_first]. destruct (ma x); try reflexivity.
  cbn in H. destruct (Bool.eqb isand b) eqn:E; [|reflexivity]. apply eqb_prop in E. contradiction.
Qed.

Lemma sv_pt_meaning_shape : forall p, not_boolop (ma (sv_pt p)).
Proof. destruct p; exact I. Qed.

Lemma one_or_and_shape : forall l, (forall x, In x l -> not_boolop x) -> not_boolop_of false (one_or (MBoolOp true) l).
Proof.
  intros l H. destruct l as [|x [|y r]]; cbn; try discriminate.
  specialize (H x (or_introl eq_refl)). destruct x; try exact I. contradiction.
Qed.

Lemma sv_and_ops_head : forall a, exists p xs, sv_and_ops a = sv_pt p :: xs.
Proof.
  induction a as [p|l IH r]; cbn [sv_and_ops].
  - exists p, []. reflexivity.
  - destruct IH as [p [xs E]]. rewrite E. exists p, (xs ++ [sv_pt r]). reflexivity.
Qed.
Lemma sv_or_ops_head : forall o, exists a xs, sv_or_ops o = sv_and a :: xs.
Proof.
  induction o as [a|l IH r]; cbn [sv_or_ops].
  - exists a, []. reflexivity.
  - destruct IH as [a [xs E]]. rewrite E. exists a, (xs ++ [sv_and r]). reflexivity.
Qed.

Lemma sv_pt_shape_of : forall b p, not_boolop_of b (ma (sv_pt p)).
Proof. intros b p. pose proof (sv_pt_meaning_shape p). destruct (ma (sv_pt p)); try exact I. contradiction. Qed.

Lemma sv_and_shape_of : forall a, not_boolop_of false (ma (sv_and a)).
Proof.
  destruct a as [p|l r].
  - apply sv_pt_shape_of.
  - rewrite sv_and_CAnd. cbn [PatternSyntax.ma]. discriminate.
Qed.

Lemma and_ops_shape : forall a, match sv_and_ops a with x :: _ => not_boolop_of true (ma x) | [] => True end.
Proof. intros a. destruct (sv_and_ops_head a) as [p [xs E]]. rewrite E. apply sv_pt_shape_of. Qed.
Lemma or_ops_shape : forall o, match sv_or_ops o with x :: _ => not_boolop_of false (ma x) | [] => True end.
Proof. intros o. destruct (sv_or_ops_head o) as [a [xs E]]. rewrite E. apply sv_and_shape_of. Qed.

Lemma order_op_meaning : forall op, ma_op (order_cls op) = fun _ => m_order_op op.
Proof. intros op. unfold order_cls, m_order_op. destruct (tk op); reflexivity. Qed.

Lemma cmp_meaning :
  (forall p, wf_pt p = true -> sem_pt p = true -> ma (sv_pt p) = mc_pt p) /\
  (forall a, wf_and a = true -> sem_and a = true -> map ma (sv_and_ops a) = mc_and_list a) /\
  (forall o, wf_or o = true -> sem_or o = true -> map ma (sv_or_ops o) = mc_or_list o).
Proof.
  apply cmp_mutind.
  - intros p nt op l Hw Hs. cbn [wf_pt sem_pt] in Hw, Hs.
    apply andb_true_iff in Hw. destruct Hw as [Hw Hl]. apply andb_true_iff in Hw. destruct Hw as [Hp Hop].
    apply andb_true_iff in Hs. destruct Hs as [Sp Sl].
    cbn [sv_pt PatternSyntax.ma mc_pt]. rewrite (path_meaning p Hp Sp), (lit_meaning l Hl Sl), ma_op_eq_lit, xorb_comm. reflexivity.
  - intros p nt op l Hw Hs. cbn [wf_pt sem_pt] in Hw, Hs.
    apply andb_true_iff in Hw. destruct Hw as [Hw Hl]. apply andb_true_iff in Hw. destruct Hw as [Hp Hop].
    apply andb_true_iff in Hs. destruct Hs as [Sp Sl].
    cbn [sv_pt PatternSyntax.ma mc_pt]. rewrite (path_meaning p Hp Sp), (lit_meaning l (orderable_primitive l Hl) Sl), order_op_meaning. reflexivity.
  - intros p nt es Hw Hs. cbn [wf_pt sem_pt] in Hw, Hs.
    apply andb_true_iff in Hw. destruct Hw as [Hp Hes]. apply andb_true_iff in Hs. destruct Hs as [Sp Ses].
    cbn [sv_pt PatternSyntax.ma mc_pt ma_op ma_const]. rewrite (path_meaning p Hp Sp). f_equal. f_equal.
    rewrite map_map. clear Hp Sp. induction es as [|x r IH]; [reflexivity|].
    cbn [forallb] in Hes, Ses. apply andb_true_iff in Hes, Ses. destruct Hes as [Hx Hr]. destruct Ses as [Sx Sr].
    cbn [map]. rewrite (lit_meaning x Hx Sx), (IH Hr Sr). reflexivity.
  - intros o p nt s Hw Hs. cbn [wf_pt sem_pt] in Hw, Hs.
    apply andb_true_iff in Hw. destruct Hw as [Hp Hk].
    assert (Hk' : kind_in s primitive_kinds = true).
    { apply (kind_in_weaken _ _ _ Hk). intros k. destruct k; cbn; intros E; try discriminate; reflexivity. }
    assert (Sl : lit_sem s = true).
    { destruct (kind_single _ _ Hk) as [Hk1 _]. apply lit_sem_other; rewrite Hk1; discriminate. }
    cbn [sv_pt PatternSyntax.ma mc_pt]. rewrite (path_meaning p Hp Hs), (lit_meaning s Hk' Sl).
    assert (O : ma_op (strop_cls o) (sv_lit s) = m_strop o) by (destruct o; reflexivity).
    rewrite O. reflexivity.
  - intros e IH Hw Hs. cbn [wf_pt sem_pt] in Hw, Hs. cbn [sv_pt PatternSyntax.ma mc_pt]. f_equal.
    rewrite (ma_mk1 false (sv_or_ops e) (or_ops_shape e)), (IH Hw Hs). reflexivity.
  - intros nt p Hw Hs. discriminate Hs.
  - intros p IH Hw Hs. cbn [wf_and sem_and] in Hw, Hs. cbn [sv_and_ops map mc_and_list]. rewrite (IH Hw Hs). reflexivity.
  - intros l IHl r IHr Hw Hs. cbn [wf_and sem_and] in Hw, Hs.
    apply andb_true_iff in Hw. destruct Hw as [Hwl Hwr].
    apply andb_true_iff in Hs. destruct Hs as [Hs _]. apply andb_true_iff in Hs. destruct Hs as [Hsl Hsr].
    cbn [sv_and_ops mc_and_list]. rewrite map_app, (IHl Hwl Hsl). cbn [map]. rewrite (IHr Hwr Hsr). reflexivity.
  - intros a IH Hw Hs. cbn [wf_or sem_or] in Hw, Hs. cbn [sv_or_ops map mc_or_list]. f_equal.
    rewrite (ma_mk1 true (sv_and_ops a) (and_ops_shape a)), (IH Hw Hs). reflexivity.
  - intros l IHl r IHr Hw Hs. cbn [wf_or sem_or] in Hw, Hs.
    apply andb_true_iff in Hw. destruct Hw as [Hwl Hwr]. apply andb_true_iff in Hs. destruct Hs as [Hsl Hsr].
    cbn [sv_or_ops mc_or_list]. rewrite map_app, (IHl Hwl Hsl). cbn [map]. f_equal. f_equal.
    rewrite (ma_mk1 true (sv_and_ops r) (and_ops_shape r)), (IHr Hwr Hsr). reflexivity.
Qed.

Lemma or_meaning : forall e, wf_or e = true -> sem_or e = true -> ma (sv_or e) = mc_or e.
Proof.
  intros e Hw Hs. unfold sv_or, mc_or.
  rewrite (ma_mk1 false (sv_or_ops e) (or_ops_shape e)), (proj2 (proj2 cmp_meaning) e Hw Hs). reflexivity.
Qed.

(* ------------------------------------------------------------------ *)
(** * Observation expressions *)

Lemma qual_meaning : forall q, wf_qual q = true -> sem_qual q = true -> ma_qual (sv_qual q) = mc_qual q.
Proof.
  intros [a b|n|n] Hw Hs; cbn [wf_qual sem_qual] in Hw, Hs; cbn [sv_qual ma_qual mc_qual].
  - apply andb_true_iff in Hw, Hs. destruct Hw as [Ha Hb]. destruct Hs as [Sa Sb].
    rewrite (lit_meaning a (ts_primitive a Ha) Sa), (lit_meaning b (ts_primitive b Hb) Sb). reflexivity.
  - pose proof Hs as S.
    rewrite (lit_meaning n (within_primitive n Hw) S). reflexivity.
  - assert (S : lit_sem n = true).
    { destruct (kind_single _ _ Hw) as [Hk _]. apply lit_sem_other; rewrite Hk; discriminate. }
    rewrite (lit_meaning n (intpos_primitive n Hw) S). reflexivity.
Qed.

Definition obsop_eqb (a b : obsop) : bool :=
  match a, b with OpAnd, OpAnd | OpOr, OpOr | OpFb, OpFb => true | _, _ => false end.
Definition not_obsop_of (op : obsop) (m : mexpr) : Prop :=
  match m with MObsOp o _ => obsop_eqb o op = false | _ => True end.

(* ECompound op [x; y] reads as the chain it prints to *)
Lemma ma_compound2 : forall op x y,
  ma (ECompound op [x; y]) =
  MObsOp op (match ma x with
             | MObsOp o xs => if obsop_eqb o op then xs ++ [ma y] else [ma x; ma y]
             | _ => [ma x; ma y]
             end).
Proof.
  intros op x y. cbn [PatternSyntax.ma map splice_first]. destruct (ma x); try reflexivity.
  destruct op0, op; reflexivity.
Qed.

Lemma chain_step : forall op l (mr : mexpr) x y,
  l <> [] -> (forall z, In z l -> not_obsop_of op z) ->
  ma x = one_or (MObsOp op) l -> ma y = mr ->
  ma (ECompound op [x; y]) = one_or (MObsOp op) (l ++ [mr]).
Proof.
  intros op l mr x y Hl Hn Hx Hy. rewrite ma_compound2, Hx, Hy.
  destruct l as [|a [|b l']]; [congruence| |].
  - cbn [one_or app]. specialize (Hn a (or_introl eq_refl)).
    destruct a; try reflexivity. cbn in Hn. rewrite Hn. reflexivity.
  - cbn [one_or]. assert (E : obsop_eqb op op = true) by (destruct op; reflexivity). rewrite E.
    destruct l'; reflexivity.
Qed.

Lemma in_snoc : forall (A : Type) (l : list A) (x z : A), In z (l ++ [x]) -> In z l \/ z = x.
Proof. intros A l x z H. apply in_app_or in H. destruct H as [H|[H|[]]]; [left; exact H|right; symmetry; exact H]. Qed.

Lemma one_or_shape : forall op op' l, obsop_eqb op op' = false ->
  (forall z, In z l -> not_obsop_of op' z) -> not_obsop_of op' (one_or (MObsOp op) l).
Proof.
  intros op op' l Hne H. destruct l as [|a [|b r]]; cbn [one_or not_obsop_of]; try exact Hne.
  apply H. left. reflexivity.
Qed.

Lemma obs_meaning :
  (forall o, wf_obs o = true -> sem_obs o = true ->
     ma (sv_obs o) = mc_obs o /\ (forall op, not_obsop_of op (mc_obs o))) /\
  (forall a, wf_oand a = true -> sem_oand a = true ->
     ma (sv_oand a) = one_or (MObsOp OpAnd) (mc_oand_list a) /\ mc_oand_list a <> [] /\
     (forall z, In z (mc_oand_list a) -> forall op, not_obsop_of op z)) /\
  (forall a, wf_oor a = true -> sem_oor a = true ->
     ma (sv_oor a) = one_or (MObsOp OpOr) (mc_oor_list a) /\ mc_oor_list a <> [] /\
     (forall z, In z (mc_oor_list a) -> not_obsop_of OpOr z /\ not_obsop_of OpFb z)) /\
  (forall a, wf_fb a = true -> sem_fb a = true ->
     ma (sv_fb a) = one_or (MObsOp OpFb) (mc_fb_list a) /\ mc_fb_list a <> [] /\
     (forall z, In z (mc_fb_list a) -> not_obsop_of OpFb z)).
Proof.
  apply obs_mutind.
  - (* [ comparison expression ] *)
    intros e Hw Hs. cbn [wf_obs sem_obs] in Hw, Hs. split; [|intros op; exact I].
    cbn [sv_obs mc_obs]. rewrite <- (or_meaning e Hw Hs).
    unfold sv_or. destruct (sv_or_ops_head e) as [a [xs E]]. rewrite E.
    destruct xs as [|y ys].
    + cbn [mk1]. destruct a as [p|l r].
      * unfold sv_and. cbn [sv_and_ops mk1]. destruct p; reflexivity.
      * rewrite sv_and_CAnd. reflexivity.
    + reflexivity.
  - (* ( observation expressions ) *)
    intros e IH Hw Hs. cbn [wf_obs sem_obs] in Hw, Hs. destruct (IH Hw Hs) as [E _].
    split; [|intros op; exact I]. cbn [sv_obs mc_obs PatternSyntax.ma]. rewrite E. reflexivity.
  - (* qualified *)
    intros o IH q Hw Hs. cbn [wf_obs sem_obs] in Hw, Hs.
    apply andb_true_iff in Hw, Hs. destruct Hw as [Hwo Hwq]. destruct Hs as [Hso Hsq].
    destruct (IH Hwo Hso) as [E _]. split; [|intros op; exact I].
    cbn [sv_obs mc_obs PatternSyntax.ma]. rewrite E, (qual_meaning q Hwq Hsq). reflexivity.
  - (* AND level *)
    intros o IH Hw Hs. cbn [wf_oand sem_oand] in Hw, Hs. destruct (IH Hw Hs) as [E N].
    cbn [sv_oand mc_oand_list one_or]. split; [exact E|]. split; [discriminate|].
    intros z [Hz|[]] op. subst z. apply N.
  - intros l IHl r IHr Hw Hs. cbn [wf_oand sem_oand] in Hw, Hs.
    apply andb_true_iff in Hw, Hs. destruct Hw as [Hwl Hwr]. destruct Hs as [Hsl Hsr].
    destruct (IHl Hwl Hsl) as [El [Nl Sl]]. destruct (IHr Hwr Hsr) as [Er Nr].
    cbn [sv_oand mc_oand_list]. split; [|split].
    + apply (chain_step OpAnd (mc_oand_list l) (mc_obs r)); try assumption. intros z Hz. apply Sl. exact Hz.
    + intros H. apply app_eq_nil in H. destruct H; discriminate.
    + intros z Hz op. apply in_snoc in Hz. destruct Hz as [Hz|Hz]; [apply Sl; exact Hz|subst z; apply Nr].
  - (* OR level *)
    intros a IH Hw Hs. cbn [wf_oor sem_oor] in Hw, Hs. destruct (IH Hw Hs) as [E [N S]].
    cbn [sv_oor mc_oor_list one_or]. split; [exact E|]. split; [discriminate|].
    intros z [Hz|[]]. subst z. split; apply one_or_shape; try reflexivity; intros z Hz; apply S; exact Hz.
  - intros l IHl r IHr Hw Hs. cbn [wf_oor sem_oor] in Hw, Hs.
    apply andb_true_iff in Hw, Hs. destruct Hw as [Hwl Hwr]. destruct Hs as [Hsl Hsr].
    destruct (IHl Hwl Hsl) as [El [Nl Sl]]. destruct (IHr Hwr Hsr) as [Er [Nr Sr]].
    cbn [sv_oor mc_oor_list]. split; [|split].
    + apply (chain_step OpOr (mc_oor_list l)); try assumption. intros z Hz. apply Sl. exact Hz.
    + intros H. apply app_eq_nil in H. destruct H; discriminate.
    + intros z Hz. apply in_snoc in Hz. destruct Hz as [Hz|Hz]; [apply Sl; exact Hz|].
      subst z. split; apply one_or_shape; try reflexivity; intros z Hz; apply Sr; exact Hz.
  - (* FOLLOWEDBY level *)
    intros a IH Hw Hs. cbn [wf_fb sem_fb] in Hw, Hs. destruct (IH Hw Hs) as [E [N S]].
    cbn [sv_fb mc_fb_list one_or]. split; [exact E|]. split; [discriminate|].
    intros z [Hz|[]]. subst z. apply one_or_shape; [reflexivity|]. intros z Hz. apply S. exact Hz.
  - intros l IHl r IHr Hw Hs. cbn [wf_fb sem_fb] in Hw, Hs.
    apply andb_true_iff in Hw, Hs. destruct Hw as [Hwl Hwr]. destruct Hs as [Hsl Hsr].
    destruct (IHl Hwl Hsl) as [El [Nl Sl]]. destruct (IHr Hwr Hsr) as [Er [Nr Sr]].
    cbn [sv_fb mc_fb_list]. split; [|split].
    + apply (chain_step OpFb (mc_fb_list l)); try assumption.
    + intros H. apply app_eq_nil in H. destruct H; discriminate.
    + intros z Hz. apply in_snoc in Hz. destruct Hz as [Hz|Hz]; [apply Sl; exact Hz|].
      subst z. apply one_or_shape; [reflexivity|]. intros z Hz. apply Sr. exact Hz.
Qed.

(* ------------------------------------------------------------------ *)
(** * visit_preserves *)

Theorem visit_preserves_lemma : forall c : pattern, wf c = true -> sem c = true ->
  exists a, visit repaired c = Ok a /\ meaning_ast a = meaning_cst c.
Proof.
  intros c Hw Hs. exists (sv_fb c). split; [apply visit_sv; assumption|].
  unfold PatternSyntax.meaning_ast, meaning_cst. apply (proj2 (proj2 (proj2 obs_meaning)) c Hw Hs).
Qed.

(* Proofs/SchemaRefineFacts.v -- what `class_refine_failures lc sc = []` says, fact by fact, and
   constr_eqb as equality.                                                                      *)
From Coq Require Import NArith ZArith List String Bool Lia.
From V Require Import Base.UString Base.Json Model.SchemaTypes Model.PyBase
     Spec.SchemaRefine Proofs.SchemaBasics Proofs.SchemaScope.
Import ListNotations.

Lemma ulist_eqb_eq a b : ulist_eqb a b = true -> a = b.
Proof.
  revert b. induction a; destruct b; simpl; intros H; try discriminate; auto.
  apply andb_true_iff in H. destruct H as [H1 H2]. apply ustr_eqb_eq in H1. subst. f_equal. auto.
Qed.

Lemma ccond_eqb_eq : forall x y, ccond_eqb x y = true -> x = y.
Proof.
  induction x; intros y; destruct y; simpl; intros H; try discriminate;
    repeat match goal with
           | H : _ && _ = true |- _ => apply andb_true_iff in H; destruct H
           | H : ustr_eqb _ _ = true |- _ => apply ustr_eqb_eq in H; subst
           end; auto; f_equal; eauto.
Qed.

Lemma errclass_eqb_eq a b : errclass_eqb a b = true -> a = b.
Proof. destruct a, b; simpl; intros H; try discriminate; auto. apply ustr_eqb_eq in H. subst; auto. Qed.

Lemma ver_eqb_eq' a b : ver_eqb a b = true -> a = b.
Proof. destruct a, b; simpl; intros; auto; discriminate. Qed.

Lemma constr_eqb_eq : forall a b, constr_eqb a b = true -> a = b.
Proof.
  fix IH 1. intros a b. destruct a; destruct b; simpl; intros H; try discriminate; try reflexivity;
    repeat match goal with
           | H : _ && _ = true |- _ => apply andb_true_iff in H; destruct H
           end;
    repeat match goal with
           | H : ulist_eqb _ _ = true |- _ => apply ulist_eqb_eq in H; subst
           | H : ccond_eqb _ _ = true |- _ => apply ccond_eqb_eq in H; subst
           | H : errclass_eqb _ _ = true |- _ => apply errclass_eqb_eq in H; subst
           | H : ver_eqb _ _ = true |- _ => apply ver_eqb_eq' in H; subst
           end; try reflexivity.
  (* CWhen: the bodies *)
  f_equal. revert body0 H0. induction body as [|p body IHb]; destruct body0 as [|q body0]; intros Hb; try discriminate; auto.
  apply andb_true_iff in Hb. destruct Hb as [Hp Hr]. f_equal; [apply IH; exact Hp | apply IHb; exact Hr].
Qed.

Lemma in_combine_seq {A} (l : list A) x : In x l -> exists i, In (i, x) (combine (seq 0 (List.length l)) l).
Proof.
  generalize 0%nat. induction l as [|a l IH]; simpl; intros n H; [tauto|].
  destruct H as [-> | H].
  - exists n. left; auto.
  - destruct (IH (S n) H) as [i Hi]. exists i. right; auto.
Qed.

Section Facts.
  Variables lc sc : cls.
  Hypothesis H : class_refine_failures lc sc = [].

  Lemma crf_parts :
    header_ok lc sc = true /\
    (existsb is_opaque (ccons lc) || negb (preinit_known (cinit lc))) = false /\
    (forall s, In s (cslots lc) -> exists s', find_slot sc (sname s) = Some s' /\ kind_refines (skind s) (skind s') = true) /\
    (forall s', In s' (cslots sc) -> spec_requires sc s' = true ->
                exists s, find_slot lc (sname s') = Some s /\ always_present s = true) /\
    (forall k', In k' (ccons sc) -> k' = CSkipBaseCheck \/ In k' (ccons lc)).
  Proof.
    unfold class_refine_failures in H.
    apply app_eq_nil in H. destruct H as [H1 H2]. apply app_eq_nil in H2. destruct H2 as [H2 H3].
    apply app_eq_nil in H3. destruct H3 as [H3 H4]. apply app_eq_nil in H4. destruct H4 as [H4 H5].
    split; [destruct (header_ok lc sc); auto; discriminate|].
    split; [destruct (existsb is_opaque (ccons lc) || negb (preinit_known (cinit lc))); auto; discriminate|].
    split; [|split].
    - intros s Hs. pose proof (flat_map_nil _ _ s H3 Hs) as E. simpl in E.
      destruct (find_slot sc (sname s)) as [s'|]; try discriminate.
      destruct (kind_refines (skind s) (skind s')) eqn:Ek; try discriminate. eauto.
    - intros s' Hs' Hr. pose proof (flat_map_nil _ _ s' H4 Hs') as E. simpl in E. rewrite Hr in E. simpl in E.
      destruct (find_slot lc (sname s')) as [s|]; try discriminate.
      destruct (always_present s) eqn:Ea; try discriminate. eauto.
    - intros k' Hk. destruct (in_combine_seq _ _ Hk) as [i Hi].
      pose proof (flat_map_nil _ _ (i, k') H5 Hi) as E. simpl in E.
      destruct (existsb (constr_eqb k') (ccons lc)) eqn:Ex.
      + right. apply existsb_exists in Ex. destruct Ex as [k [Hin He]]. apply constr_eqb_eq in He. subst. auto.
      + simpl in E. destruct k'; try discriminate. auto.
  Qed.
End Facts.

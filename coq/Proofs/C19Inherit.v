(* Proofs/C19Inherit.v -- `custom types inherit`: the class table a Custom*
   decorator builds (Model/RegistryBuilder.v) is a well-formed table of the
   schema family's vocabulary:
     - its property names are distinct (OrderedDict), whatever the user passes;
     - the standard properties stand around the user's, intact, whenever the
       user's names do not repeat them;
     - the standard properties are, slot for slot, those the frozen
       specification tables give a built-in type of the same family and
       version (kernel evaluation on Gen/SpecTables.v);
   (the refinement part -- Spec/SchemaRefine.v -- is in Proofs/C19InheritRefine.v).
   Only the TYPES of the schema family are used here (Model/SchemaTypes.v).   *)
From Coq Require Import NArith ZArith List String Bool Arith Lia Permutation.
From V Require Import Base.UString Base.Json Model.SchemaTypes Model.RegistryBuilder.
From V Require Model.Registry.
Import ListNotations.

(* ---------------- strings ---------------- *)

Lemma ueqb_refl : forall a : ustring, ustr_eqb a a = true.
Proof. induction a; simpl; auto. rewrite N.eqb_refl. auto. Qed.

Lemma ueqb_eq : forall a b : ustring, ustr_eqb a b = true <-> a = b.
Proof.
  induction a; destruct b; simpl; split; intros H; try congruence; try discriminate; auto.
  - apply andb_true_iff in H. destruct H as [H1 H2]. apply N.eqb_eq in H1. apply IHa in H2. congruence.
  - inversion H; subst. rewrite N.eqb_refl. simpl. apply ueqb_refl.
Qed.

Lemma ueqb_neq : forall a b : ustring, ustr_eqb a b = false <-> a <> b.
Proof.
  intros. split; intros H.
  - intro E. apply ueqb_eq in E. congruence.
  - destruct (ustr_eqb a b) eqn:E; auto. apply ueqb_eq in E. contradiction.
Qed.

Definition names (l : list slot) : list ustring := map sname l.

(* the property of a class with a given name (what Spec/SchemaRefine.find_slot computes) *)
Definition slot_named (c : cls) (n : ustring) : option slot := find (fun s => ustr_eqb (sname s) n) (cslots c).

(* ---------------- OrderedDict ---------------- *)

Lemma slot_set_names : forall d s m, In m (names (slot_set d s)) <-> m = sname s \/ In m (names d).
Proof.
  induction d as [|t d IH]; intros; simpl.
  - split; intros [H | H]; auto; contradiction.
  - destruct (ustr_eqb (sname s) (sname t)) eqn:E; simpl.
    + apply ueqb_eq in E. rewrite <- E. split; intros H; intuition (subst; auto).
    + rewrite IH. split; intros H; intuition.
Qed.

Lemma slot_set_NoDup : forall d s, NoDup (names d) -> NoDup (names (slot_set d s)).
Proof.
  induction d as [|t d IH]; intros s ND; simpl.
  - constructor; [intros [] | constructor].
  - inversion ND as [|? ? Hn ND']; subst.
    destruct (ustr_eqb (sname s) (sname t)) eqn:E; simpl.
    + apply ueqb_eq in E. rewrite E. constructor; auto.
    + constructor; [|apply IH; auto].
      intro F. apply (slot_set_names d s (sname t)) in F. destruct F as [F | F]; [|contradiction].
      apply ueqb_neq in E. congruence.
Qed.

Lemma slot_set_In : forall d s x, In x (slot_set d s) -> x = s \/ In x d.
Proof.
  induction d as [|t d IH]; intros s x; simpl.
  - intros [H | []]; auto.
  - destruct (ustr_eqb (sname s) (sname t)); simpl; intros [H | H]; subst; auto.
    apply IH in H. tauto.
Qed.

Lemma slots_update_NoDup : forall l d, NoDup (names d) -> NoDup (names (slots_update d l)).
Proof.
  unfold slots_update. induction l as [|s l IH]; intros d ND; simpl; auto.
  apply IH. apply slot_set_NoDup. exact ND.
Qed.

Lemma slots_update_In : forall l d x, In x (slots_update d l) -> In x d \/ In x l.
Proof.
  unfold slots_update. induction l as [|s l IH]; intros d x; simpl; auto.
  intros H. apply IH in H. destruct H as [H | H]; auto.
  apply slot_set_In in H. destruct H as [-> | H]; auto.
Qed.

Lemma slots_update_names : forall l d m, In m (names (slots_update d l)) <-> In m (names d) \/ In m (names l).
Proof.
  unfold slots_update. induction l as [|s l IH]; intros d m; simpl.
  - tauto.
  - rewrite IH, slot_set_names. split; intros H; intuition.
Qed.

Lemma ordered_dict_NoDup : forall l, NoDup (names (ordered_dict l)).
Proof. intros. apply slots_update_NoDup. constructor. Qed.

Lemma ordered_dict_In : forall l x, In x (ordered_dict l) -> In x l.
Proof. intros l x H. apply slots_update_In in H. destruct H as [[] | H]; auto. Qed.

Lemma ordered_dict_names : forall l m, In m (names (ordered_dict l)) <-> In m (names l).
Proof. intros. unfold ordered_dict. rewrite slots_update_names. simpl. tauto. Qed.

Lemma slot_set_fresh : forall d s, ~ In (sname s) (names d) -> slot_set d s = d ++ [s].
Proof.
  induction d as [|t d IH]; intros s H; simpl; auto.
  destruct (ustr_eqb (sname s) (sname t)) eqn:E.
  - apply ueqb_eq in E. exfalso. apply H. left. auto.
  - rewrite IH; auto. intro F. apply H. right. exact F.
Qed.

(* without repeated names the dictionary is the list itself, in its order *)
Lemma slots_update_distinct : forall l d, NoDup (names d ++ names l) -> slots_update d l = d ++ l.
Proof.
  unfold slots_update. induction l as [|s l IH]; intros d ND; simpl.
  - rewrite app_nil_r. reflexivity.
  - assert (F : ~ In (sname s) (names d)).
    { simpl in ND. apply NoDup_remove_2 in ND. intro F. apply ND. apply in_or_app. auto. }
    rewrite (slot_set_fresh d s F), IH.
    + rewrite <- app_assoc. reflexivity.
    + unfold names. rewrite map_app. simpl. rewrite <- app_assoc. simpl. exact ND.
Qed.

Lemma ordered_dict_distinct : forall l, NoDup (names l) -> ordered_dict l = l.
Proof. intros. unfold ordered_dict. rewrite slots_update_distinct; auto. Qed.

(* ---------------- the sort ---------------- *)

Lemma insert_perm : forall s l, Permutation (s :: l) (insert_by_name s l).
Proof.
  induction l as [|t l IH]; simpl; auto.
  destruct (ustr_ltb (sname t) (sname s)); auto.
  eapply perm_trans; [apply perm_swap|]. constructor. exact IH.
Qed.

Lemma sort_perm : forall l, Permutation l (sort_by_name l).
Proof.
  induction l as [|s l IH]; simpl; auto.
  eapply perm_trans; [|apply insert_perm]. constructor. exact IH.
Qed.

Lemma sort_In : forall l x, In x (sort_by_name l) <-> In x l.
Proof.
  intros. split; intros H.
  - eapply Permutation_in; [apply Permutation_sym; apply sort_perm | exact H].
  - eapply Permutation_in; [apply sort_perm | exact H].
Qed.

(* ---------------- every table the builder makes has distinct property names ---------------- *)

Theorem custom_slots_NoDup_lemma : forall bv k V n xt user, NoDup (names (custom_slots bv k V n xt user)).
Proof.
  intros. destruct k; simpl; try apply ordered_dict_NoDup.
  unfold extension_slots. destruct xt as [[| | | |]|]; try apply ordered_dict_NoDup;
    try (apply slots_update_NoDup; simpl; constructor; [intros [] | constructor]).
  simpl. constructor; [intros [] | constructor].
Qed.

(* nothing appears in the table but the standard properties and the user's *)
Definition standard_slots (bv : bvar) (k : ckind) (V : ver) (n : ustring) (xt : option Registry.exttype) : list slot :=
  match k with
  | CObject => sdo_pre V n ++ sdo_post bv V
  | CObservable => sco_pre V n ++ sco_post V
  | CMarking => []
  | CExtension => match xt with Some x => [s_extension_type x] | None => [] end
  end.

Lemma custom_slots_In_lemma : forall bv k V n xt user s,
  In s (custom_slots bv k V n xt user) -> In s (standard_slots bv k V n xt) \/ In s user.
Proof.
  intros bv k V n xt user s H. destruct k; simpl in *.
  - apply ordered_dict_In in H. unfold object_pairs in H. rewrite !in_app_iff in H. rewrite in_app_iff.
    destruct H as [H | [H | [H | H]]]; auto.
    + apply filter_In in H. tauto.
    + apply (proj1 (sort_In _ _)) in H. apply filter_In in H. tauto.
  - apply ordered_dict_In in H. unfold observable_pairs in H. rewrite !in_app_iff in H. rewrite in_app_iff. tauto.
  - apply ordered_dict_In in H. auto.
  - unfold extension_slots in H. destruct xt as [[| | | |]|];
      try (apply slots_update_In in H; destruct H as [H | H]; [left; exact H | right; apply ordered_dict_In; exact H]).
    + left. exact H.
    + right. apply ordered_dict_In. exact H.
Qed.

(* ---------------- the standard properties stand intact around the user's ---------------- *)

Fixpoint unodup (l : list ustring) : bool :=
  match l with
  | [] => true
  | x :: r => negb (existsb (ustr_eqb x) r) && unodup r
  end.

Lemma unodup_NoDup : forall l, unodup l = true -> NoDup l.
Proof.
  induction l as [|x l IH]; simpl; intros H; [constructor|].
  apply andb_true_iff in H. destruct H as [H1 H2]. constructor; auto.
  apply negb_true_iff in H1. intro F.
  assert (existsb (ustr_eqb x) l = true) by (apply existsb_exists; exists x; split; auto; apply ueqb_refl).
  congruence.
Qed.

Definition bv0 : bvar := {| b_conf_range := false |}.
Definition standard_names (k : ckind) (V : ver) : list ustring :=
  names (standard_slots bv0 k V [] (Some Registry.XPropertyExt)).

Lemma standard_names_indep : forall bv k V n xt,
  (k = CExtension -> xt <> None) -> names (standard_slots bv k V n xt) = standard_names k V.
Proof.
  intros bv k V n xt H. destruct k, V; try reflexivity; destruct xt as [x|]; try reflexivity; exfalso; apply H; auto.
Qed.

Lemma standard_names_NoDup : forall k V, NoDup (standard_names k V).
Proof. intros. apply unodup_NoDup. destruct k, V; vm_compute; reflexivity. Qed.

Lemma NoDup_names_inj : forall (l : list slot) a b, NoDup (names l) -> In a l -> In b l -> sname a = sname b -> a = b.
Proof.
  induction l as [|t l IH]; intros a b ND Ia Ib E; [contradiction|].
  inversion ND as [|? ? Hn ND']; subst. destruct Ia as [-> | Ia], Ib as [-> | Ib]; auto.
  - exfalso. apply Hn. rewrite E. apply in_map. exact Ib.
  - exfalso. apply Hn. rewrite <- E. apply in_map. exact Ia.
Qed.

Lemma NoDup_app_disjoint : forall {A} (a b : list A), NoDup a -> NoDup b -> (forall x, In x a -> ~ In x b) -> NoDup (a ++ b).
Proof.
  induction a as [|x a IH]; intros b Na Nb D; simpl; auto.
  inversion Na; subst. constructor.
  - rewrite in_app_iff. intros [F | F]; [contradiction | apply (D x); simpl; auto].
  - apply IH; auto. intros y Iy. apply D. right. exact Iy.
Qed.

Lemma filter_names_NoDup : forall f (l : list slot), NoDup (names l) -> NoDup (names (filter f l)).
Proof.
  induction l as [|t l IH]; simpl; intros ND; auto. inversion ND; subst.
  destruct (f t); simpl; auto. constructor; auto.
  intro F. apply H1. unfold names in *. apply in_map_iff in F. destruct F as [x [E I]]. apply filter_In in I.
  rewrite <- E. apply in_map. tauto.
Qed.

Lemma perm_names : forall a b : list slot, Permutation a b -> Permutation (names a) (names b).
Proof. intros. apply Permutation_map. assumption. Qed.

(* objects: when the user's names are distinct and none is a standard name, the table is
   exactly  standard ++ user's non-x_ ++ standard ++ user's x_ (sorted by name) *)
Theorem object_table_shape_lemma : forall bv V n user,
  NoDup (names user) -> (forall s, In s user -> ~ In (sname s) (standard_names CObject V)) ->
  custom_slots bv CObject V n None user =
  sdo_pre V n ++ filter (fun s => negb (starts_x s)) user ++ sdo_post bv V ++ sort_by_name (filter starts_x user).
Proof.
  intros bv V n user ND D. simpl. apply ordered_dict_distinct. unfold object_pairs.
  pose proof (standard_names_NoDup CObject V) as SN.
  rewrite <- (standard_names_indep bv CObject V n None) in SN by discriminate. simpl in SN.
  unfold names in *. rewrite !map_app in *.
  (* rearrange: pre ++ nonx ++ post ++ xs  is a permutation of  (pre ++ post) ++ (nonx ++ xs) *)
  eapply Permutation_NoDup.
  - apply Permutation_sym.
    eapply perm_trans.
    + apply Permutation_app_head. apply Permutation_app_swap_app.
    + rewrite app_assoc. apply Permutation_refl.
  - apply NoDup_app_disjoint.
    + exact SN.
    + apply NoDup_app_disjoint.
      * apply (filter_names_NoDup _ user ND).
      * eapply Permutation_NoDup; [apply perm_names; apply sort_perm|].
        apply (filter_names_NoDup _ user ND).
      * intros x Ix F. apply in_map_iff in Ix. destruct Ix as [a [Ea Ia]]. apply in_map_iff in F. destruct F as [b [Eb Ib]].
        apply filter_In in Ia. apply (proj1 (sort_In _ _)) in Ib. apply filter_In in Ib.
        assert (a = b) by (apply (NoDup_names_inj user); unfold names; try tauto; congruence). subst b.
        destruct Ia as [_ Ia]. destruct Ib as [_ Ib]. rewrite Ib in Ia. discriminate.
    + intros x Ix F. rewrite in_app_iff in F.
      assert (exists s, In s user /\ sname s = x) as [s [Is Es]].
      { destruct F as [F | F]; apply in_map_iff in F; destruct F as [a [Ea Ia]].
        - apply filter_In in Ia. exists a. tauto.
        - apply (proj1 (sort_In _ _)) in Ia. apply filter_In in Ia. exists a. tauto. }
      apply (D s Is). rewrite Es.
      rewrite <- (standard_names_indep bv CObject V n None) by discriminate. unfold names. simpl. rewrite map_app. exact Ix.
Qed.

Theorem observable_table_shape_lemma : forall bv V n user,
  NoDup (names user) -> (forall s, In s user -> ~ In (sname s) (standard_names CObservable V)) ->
  custom_slots bv CObservable V n None user = sco_pre V n ++ user ++ sco_post V.
Proof.
  intros bv V n user ND D. simpl. apply ordered_dict_distinct. unfold observable_pairs.
  pose proof (standard_names_NoDup CObservable V) as SN.
  rewrite <- (standard_names_indep bv CObservable V n None) in SN by discriminate. simpl in SN.
  unfold names in *. rewrite !map_app in *.
  eapply Permutation_NoDup.
  - apply Permutation_sym. apply Permutation_app_head. apply Permutation_app_comm.
  - rewrite app_assoc. apply NoDup_app_disjoint; auto.
    intros x Ix F. apply in_map_iff in F. destruct F as [s [Es Is]]. apply (D s Is). rewrite Es.
    rewrite <- (standard_names_indep bv CObservable V n None) by discriminate. unfold names. simpl. rewrite map_app. exact Ix.
Qed.

(* whatever the user passes: a standard property whose name the user does not use is in the
   table as the decorator wrote it *)
Lemma find_self : forall (l : list slot) s,
  NoDup (names l) -> In s l -> find (fun x => ustr_eqb (sname x) (sname s)) l = Some s.
Proof.
  induction l as [|a l IH]; simpl; intros s ND Hin; [tauto|].
  inversion ND as [|? ? Hnotin ND']; subst. destruct Hin as [-> | Hin].
  - rewrite ueqb_refl. auto.
  - destruct (ustr_eqb (sname a) (sname s)) eqn:E; [|apply IH; auto].
    apply ueqb_eq in E. exfalso. apply Hnotin. rewrite E. apply in_map. auto.
Qed.

(* the value an OrderedDict keeps for a name is the LAST pair given with that name *)
Lemma slots_update_last : forall l d s,
  In s l -> (forall t, In t l -> sname t = sname s -> t = s) -> In s (slots_update d l).
Proof.
  unfold slots_update. induction l as [|a l IH]; intros d s I U; [contradiction|]. simpl.
  destruct (in_dec (fun x y : ustring => list_eq_dec N.eq_dec x y) (sname s) (names l)) as [Y | Nn].
  - (* the name occurs later: the later occurrence is s itself *)
    apply in_map_iff in Y. destruct Y as [t [Et It]].
    assert (t = s) by (apply U; [right; exact It | exact Et]). subst t.
    apply IH; auto. intros t' It' E'. apply U; auto. right. exact It'.
  - destruct I as [-> | I]; [|exfalso; apply Nn; apply in_map; exact I].
    (* s is set now and never overwritten *)
    assert (G : forall l' d', In s d' -> ~ In (sname s) (names l') -> In s (fold_left slot_set l' d')).
    { induction l' as [|b l' IH']; intros d' Id Nb; simpl; auto.
      apply IH'.
      - clear IH'. induction d' as [|c d' IHd]; [contradiction|]. simpl.
        destruct (ustr_eqb (sname b) (sname c)) eqn:E.
        + destruct Id as [-> | Id]; [|right; exact Id].
          apply ueqb_eq in E. exfalso. apply Nb. left. exact E.
        + destruct Id as [-> | Id]; [left; reflexivity | right; apply IHd; exact Id].
      - intro F. apply Nb. right. exact F. }
    apply G; auto.
    clear. induction d as [|c d IHd]; simpl; auto.
    destruct (ustr_eqb (sname s) (sname c)); simpl; auto.
Qed.

Theorem standard_property_intact_lemma : forall bv k V n user s,
  (k = CObject \/ k = CObservable) ->
  In s (standard_slots bv k V n None) -> (forall t, In t user -> sname t <> sname s) ->
  slot_named (custom_cls bv k V n None user (u "C")) (sname s) = Some s.
Proof.
  intros bv k V n user s K I D. unfold slot_named, custom_cls. cbn [cslots].
  apply find_self; [apply custom_slots_NoDup_lemma|].
  pose proof (standard_names_NoDup k V) as SN.
  rewrite <- (standard_names_indep bv k V n None) in SN by (destruct K; subst; discriminate).
  assert (U : forall t, In t (standard_slots bv k V n None) \/ In t user -> sname t = sname s -> t = s).
  { intros t [It | It] E; [|exfalso; apply (D t It E)]. apply (NoDup_names_inj _ t s SN It I E). }
  destruct K; subst k; simpl in *.
  - apply slots_update_last.
    + unfold object_pairs. rewrite in_app_iff in I. rewrite !in_app_iff. tauto.
    + intros t It E. apply U; auto. unfold object_pairs in It. rewrite !in_app_iff in It. rewrite in_app_iff.
      destruct It as [It | [It | [It | It]]]; auto.
      * apply filter_In in It. tauto.
      * apply (proj1 (sort_In _ _)) in It. apply filter_In in It. tauto.
  - apply slots_update_last.
    + unfold observable_pairs. rewrite in_app_iff in I. rewrite !in_app_iff. tauto.
    + intros t It E. apply U; auto. unfold observable_pairs in It. rewrite !in_app_iff in It. rewrite in_app_iff. tauto.
Qed.

(* ---------------- classes of a world ---------------- *)

Lemma find_class_app_some : forall cs cs' id c, find_class cs id = Some c -> find_class (cs ++ cs') id = Some c.
Proof.
  induction cs as [|a cs IH]; simpl; intros; try discriminate.
  destruct (ustr_eqb (cid a) id); auto.
Qed.

Lemma find_class_app_none : forall cs cs' id, find_class cs id = None -> find_class (cs ++ cs') id = find_class cs' id.
Proof.
  induction cs as [|a cs IH]; simpl; intros; auto.
  destruct (ustr_eqb (cid a) id); try discriminate. auto.
Qed.


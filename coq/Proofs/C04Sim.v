(* Proofs/C04Sim.v -- the "refused" side of flag_iff_strict_reparse with a definite error:
   an allow_custom=True run that returns a FLAGGED object is, under allow_custom=False on the same arguments,
   refused with ExtraPropertiesError (EExtra) or InvalidValueError (EInvalidValue) -- never Unmodelled, never
   out of fuel.  The strict run follows the lenient one step by step until the first place where custom
   content is admitted, and there it raises.                                                            *)
From Coq Require Import NArith ZArith List String Bool Lia Permutation.
From V Require Import Base.UString Base.Json Model.SchemaTypes Model.PyBase Model.Schema.
From V Require Import Proofs.C01Basics Proofs.C01Kinds Proofs.C01Float Proofs.C01KindsAll Proofs.C01Sort Proofs.C01Object
  Proofs.C01Roundtrip Proofs.C01Parse Proofs.C04Modes Proofs.C04Flag.
Import ListNotations.

Ltac crush H := unfold bind in H; repeat (match type of H with context [match ?g with _ => _ end] => destruct g end; try discriminate);
  try discriminate; try (inversion H; fail).

Section KindSim.
  Variable vr : variant.
  Variable w : world.
  Variable rc : ustring -> bool -> bool -> list (ustring * jvalue) -> result pval.
  Variable rp : bool -> bool -> list (ustring * jvalue) -> result pval.
  Variable ro : ver -> list (ustring * ustring) -> bool -> list (ustring * jvalue) -> result pval.
  Variable P : ustring -> bool.
  Hypothesis Hflip : vr_ref_flip_unreg vr = true.
  Hypothesis Hnoobs : forall vv, P (obs_tag vv) = false.
  Hypothesis Hrcm : rc_mode rc P.

  (* the nested constructor: a flagged result of the lenient call means the strict call raises *)
  Definition rc_sim : Prop :=
    forall cid i d o, P cid = true -> plain_dict d = true ->
      rc cid true i d = Ok o -> pval_has_custom o = true -> exists e, rc cid false i d = Err e.
  Hypothesis Hsim : rc_sim.

  Notation CK := (clean_kind vr w rc rp ro).

  Lemma hashes_loop_sim : forall names l acc p,
    hashes_loop vr names true l acc false = Ok (p, true) -> exists e, hashes_loop vr names false l acc false = Err e.
  Proof.
    intros names. induction l as [| [k hv] r IH]; intros acc p H.
    - cbn [hashes_loop] in H. inversion H.
    - rewrite hashes_loop_step in *. destruct (hash_value_ok vr k hv).
      + destruct (hash_target names k) as [n c]. cbn [negb andb orb] in *.
        destruct c.
        * eauto.
        * apply IH with (p := p). exact H.
      + destruct (infer_hash k); [destruct hv; discriminate |]. inversion H.
  Qed.

  Lemma clean_items_sim : forall (f g : jvalue -> result (pval * bool)) l res,
    (forall x p, In x l -> f x = Ok (p, false) -> g x = Ok (p, false)) ->
    (forall x p, In x l -> f x = Ok (p, true) -> exists e, g x = Err e) ->
    clean_items f l = Ok (res, true) -> exists e, clean_items g l = Err e.
  Proof.
    induction l as [| x r IH]; intros res Hf Ht H; cbn [clean_items] in *.
    - inversion H.
    - unfold bind in *. destruct (f x) as [[p hc] | |] eqn:Ex; try discriminate.
      destruct (clean_items f r) as [[res' h'] | |] eqn:Er; try discriminate.
      inversion H; subst. cbn [fst snd] in *.
      destruct hc.
      + destruct (Ht x p (or_introl eq_refl) Ex) as [e He]. rewrite He. eauto.
      + rewrite (Hf x p (or_introl eq_refl) Ex). cbn [orb] in H2. subst h'.
        destruct (IH res' (fun y q Hy => Hf y q (or_intror Hy)) (fun y q Hy => Ht y q (or_intror Hy)) eq_refl) as [e He].
        rewrite He. eauto.
  Qed.

  Lemma listof_items_sim : forall cid i l res, P cid = true -> forallb plain_json l = true ->
    listof_items rc cid true i l = Ok (res, true) -> exists e, listof_items rc cid false i l = Err e.
  Proof.
    induction l as [| x r IH]; intros res HP Hg H; cbn [listof_items] in *.
    - inversion H.
    - destruct x; try discriminate. unfold bind in *.
      cbn [forallb] in Hg. apply andb_true_iff in Hg. destruct Hg as [Hx Hr]. rewrite plain_json_obj in Hx.
      destruct (reserved_kw m) as [[] | |]; try discriminate.
      destruct (rc cid true i m) as [o | |] eqn:Eo; try discriminate.
      destruct (listof_items rc cid true i r) as [[res' h'] | |] eqn:Er; try discriminate.
      inversion H; subst. cbn [fst snd] in *.
      destruct (pval_has_custom o) eqn:Eh.
      + destruct (Hsim cid i m o HP Hx Eo Eh) as [e He]. rewrite He. eauto.
      + rewrite (Hrcm cid true false i m o HP Hx Eo Eh). cbn [orb] in H2. subst h'.
        destruct (IH res' HP Hr eq_refl) as [e He]. rewrite He. eauto.
  Qed.

  (* every covered kind: a flagged value under allow_custom=True is an error under allow_custom=False *)
  Theorem clean_kind_sim : forall k, kind_proved vr P k = true ->
    forall interop v p, plain_json v = true ->
    CK k true interop v = Ok (p, true) -> exists e, CK k false interop v = Err e.
  Proof.
    induction k; intros Hk interop jv pv Hv H; cbn [kind_proved] in Hk; try discriminate;
      try (rewrite Hnoobs in Hk; discriminate); cbn [clean_kind] in *.
    all: unfold clean_string, clean_float, clean_bool in H.
    all: try (walk H; try discriminate; inversion H; fail).
    - (* hashes *) unfold clean_hashes, bind in *. destruct (clean_dictionary vr v jv); try discriminate.
      eapply hashes_loop_sim; eauto.
    - (* reference *)
      unfold clean_reference, bind in *.
      destruct (py_str jv) as [s | |]; try discriminate.
      destruct (validate_id vr s v None interop); try discriminate.
      cbv zeta in *. cbn [negb andb] in *.
      set (hcx := negb (is_object w (fst (split_dashdash s)) v) || ustr_prefix (u "x-") (fst (split_dashdash s))) in *.
      match type of H with (if ?b then _ else _) = _ => destruct b; try discriminate end.
      assert (Hh : hcx = true) by congruence.
      match goal with |- exists e, (if ?b then _ else _) = _ => destruct b; cbn [negb andb]; [eauto |] end.
      rewrite Hh. eauto.
    - (* embedded *)
      destruct jv; try discriminate. unfold bind in *.
      destruct (reserved_kw m) as [[] | |]; try discriminate.
      destruct (rc cls true false m) as [o | |] eqn:Eo; try discriminate.
      rewrite plain_json_obj in Hv. cbn [negb andb] in H. inversion H; subst.
      destruct (Hsim cls false m pv Hk Hv Eo H2) as [e He]. rewrite He. eauto.
    - (* list *)
      unfold bind in *. destruct (list_items jv) as [l | |] eqn:El; try discriminate.
      destruct (clean_items (CK k true interop) l) as [[res h] | |] eqn:Ec; try discriminate.
      pose proof (finish_list_flag _ _ _ _ _ H) as Eh. subst h.
      pose proof (list_items_plain jv l Hv El) as Hl. rewrite forallb_forall in Hl.
      destruct (clean_items_sim (CK k true interop) (CK k false interop) l res) as [e He]; auto.
      + intros x p Hin Hx. eapply (clean_kind_mode vr w rc rp ro P Hflip Hnoobs Hrcm); eauto.
      + intros x p Hin Hx. eapply IHk; eauto.
      + rewrite He. eauto.
    - (* list of objects *)
      unfold bind in *. destruct (list_items jv) as [l | |] eqn:El; try discriminate.
      destruct (listof_items rc cls true interop l) as [[res h] | |] eqn:Ec; try discriminate.
      pose proof (finish_list_flag _ _ _ _ _ H) as Eh. subst h.
      destruct (listof_items_sim cls interop l res Hk (list_items_plain jv l Hv El) Ec) as [e He]. rewrite He. eauto.
  Qed.
End KindSim.

(* ------------------------------------------------------------------ one class *)
Section ObjSim.
  Variable vr : variant.
  Variable ev : env.
  Variable w : world.
  Variable pattern_ok : ver -> ustring -> bool.
  Variable selectors_ok : list (ustring * pval) -> pval -> result bool.
  Variable rc : ustring -> bool -> bool -> list (ustring * jvalue) -> result pval.
  Variable rp : bool -> bool -> list (ustring * jvalue) -> result pval.
  Variable ro : ver -> list (ustring * ustring) -> bool -> list (ustring * jvalue) -> result pval.
  Variable P : ustring -> bool.
  Hypothesis Hflip : vr_ref_flip_unreg vr = true.
  Hypothesis Hnoobs : forall vv, P (obs_tag vv) = false.
  Hypothesis Hrcm : rc_mode rc P.
  Hypothesis Hsim : rc_sim rc P.

  Variable c : cls.
  Variable interop : bool.
  Variable vrefs : option (list (ustring * ustring)).
  Hypothesis Hnodup : NoDup (map sname (cslots c)).
  Hypothesis Hslots : forallb (slot_ok vr P) (cslots c) = true.

  Notation CK := (clean_kind vr w rc rp ro).
  Notation STEP := (fun a => step vr ev w rc rp ro c a interop vrefs).
  Notation LOOPa := (fun a => assign_loop vr ev w rc rp ro c a interop vrefs).

  (* one property check that reports custom content under allow_custom=True raises InvalidValueError under False *)
  Lemma cp_sim : forall sl s s',
    In sl (cslots c) ->
    (forall v, alookup (sname sl) s = Some v -> exists j, v = PJ j /\ plain_json j = true /\ sname sl <> ext_key) ->
    check_property vr ev w rc rp ro c sl true interop vrefs s = Ok (s', true) ->
    check_property vr ev w rc rp ro c sl false interop vrefs s = Err EInvalidValue.
  Proof.
    intros sl s s' Hin Hraw H. unfold check_property, bind in *.
    destruct (default_value vr ev sl s) as [[s2 isnow] | |] eqn:Ed; try discriminate. cbn [fst snd] in *.
    unfold clean_present in *.
    destruct (alookup (sname sl) s2) as [raw |] eqn:Er; [| inversion H].
    destruct isnow; [inversion H |].
    rewrite forallb_forall in Hslots. pose proof (Hslots sl Hin) as Hok. unfold slot_ok in Hok.
    apply andb_true_iff in Hok. destruct Hok as [Hok Hx]. apply andb_true_iff in Hok. destruct Hok as [Hok _].
    apply andb_true_iff in Hok. destruct Hok as [Hkind Hdef].
    destruct (alookup (sname sl) s) as [x |] eqn:Es.
    - (* given *)
      unfold default_value in Ed. rewrite Es in Ed. inversion Ed; subst s2. rewrite Es in Er. inversion Er; subst x.
      destruct (Hraw raw eq_refl) as [j [Ej [Hpj Hne]]]. subst raw.
      destruct (CK (skind sl) true interop j) as [[v h] | |] eqn:Ec; try discriminate.
      unfold bind in H. destruct (refs_ok c sl vrefs v) as [[] | |]; try discriminate.
      inversion H; subst.
      assert (Hkp : kind_proved vr P (skind sl) = true).
      { apply orb_true_iff in Hkind. destruct Hkind as [Hk | Hk]; auto. apply ustr_eqb_eq in Hk. contradiction. }
      destruct (clean_kind_sim vr w rc rp ro P Hflip Hnoobs Hrcm Hsim (skind sl) Hkp interop j v Hpj Ec) as [e He].
      rewrite He. reflexivity.
    - (* a default: its kinds never flag *)
      exfalso. unfold default_value in Ed. rewrite Es in Ed.
      destruct (sdef sl) eqn:Edf.
      + inversion Ed; subst. rewrite Es in Er. discriminate.
      + destruct (skind sl) eqn:Ek; try discriminate. inversion Ed; subst. rewrite alookup_aset_same in Er. inversion Er; subst.
        cbn [clean_kind] in H. destruct (jvalue_eqb (JStr v) (JStr v)); try discriminate. unfold bind in H.
        destruct (refs_ok c sl vrefs (PJ (JStr v))) as [[] | |]; try discriminate.
      + destruct (skind sl) eqn:Ek; try discriminate. unfold bind in Ed.
        destruct (ts_clean_now (vr_year_pad vr) p c0 (e_now ev)); discriminate.
      + destruct (skind sl) eqn:Ek; try discriminate. inversion Ed; subst. rewrite alookup_aset_same in Er. inversion Er; subst.
        cbn [clean_kind] in H. unfold bind in H.
        destruct (validate_id vr (prefix ++ e_uuid4 ev) v (Some prefix) interop); try discriminate.
        destruct (refs_ok c sl vrefs (PJ (JStr (prefix ++ e_uuid4 ev)))) as [[] | |]; try discriminate.
      + destruct (skind sl) eqn:Ek; try discriminate. destruct j; try discriminate. inversion Ed; subst.
        rewrite alookup_aset_same in Er. inversion Er; subst. cbn [clean_kind clean_bool] in H. unfold bind in H.
        destruct (refs_ok c sl vrefs (PJ (JBool b))) as [[] | |]; try discriminate.
  Qed.

  Lemma step_sim : forall K n s s',
    (forall j, alookup n K = Some j -> nullish j = false /\ plain_json j = true /\ n <> ext_key) ->
    amem n s = false ->
    STEP true K n s false = Ok (s', true) -> STEP false K n s false = Err EInvalidValue.
  Proof.
    intros K n s s' HK Hf H. unfold step in *.
    destruct (slot_of c n) as [sl |] eqn:Es; [| inversion H].
    destruct (slot_of_In c n sl Es) as [Hin En]. subst n. unfold bind in *.
    destruct (check_property vr ev w rc rp ro c sl true interop vrefs (assign_raw K [] [] (sname sl) s)) as [[x y] | |] eqn:Ec;
      try discriminate.
    inversion H; subst. cbn [fst snd orb] in *.
    rewrite (cp_sim sl _ s' Hin); [reflexivity | | exact Ec].
    intros v Hv. rewrite assign_raw_spec in Hv. apply amem_alookup_none in Hf.
    destruct (alookup (sname sl) K) as [j0 |] eqn:Ek.
    - destruct (HK j0 eq_refl) as [Hn [Hp Hne]]. rewrite Hn in Hv. rewrite alookup_aset_same in Hv. inversion Hv; subst. eauto.
    - rewrite Hf in Hv. discriminate.
  Qed.

  Lemma loop_sim : forall K l s S,
    NoDup l -> (forall n, In n l -> amem n s = false) ->
    (forall n j, In n l -> alookup n K = Some j -> nullish j = false /\ plain_json j = true /\ n <> ext_key) ->
    LOOPa true K [] [] l s false = Ok (S, true) -> LOOPa false K [] [] l s false = Err EInvalidValue.
  Proof.
    induction l as [| n rest IH]; intros s S ND Hf HK H.
    - cbn [assign_loop] in H. inversion H.
    - rewrite loop_cons in *. unfold bind in *.
      destruct (step vr ev w rc rp ro c true interop vrefs K n s false) as [[s1 h1] | |] eqn:Es; try discriminate.
      cbn [fst snd] in H. inversion ND; subst.
      destruct h1.
      + rewrite (step_sim K n s s1); [reflexivity | | | exact Es].
        * intros j. apply HK. left. reflexivity.
        * apply Hf. left. reflexivity.
      + rewrite (step_mode vr ev w rc rp ro P Hflip Hnoobs Hrcm c interop vrefs Hslots true false K n s s1); [| | | exact Es].
        * cbn [fst snd]. apply (IH s1 S); auto.
          -- intros m Hm. unfold amem. rewrite (sos_frame _ _ _ m (step_shape vr ev w rc rp ro c true interop vrefs _ _ _ _ _ _ Es)).
             ++ apply Hf. right. exact Hm.
             ++ intros E2. subst. contradiction.
          -- intros m j Hm. apply HK. right. exact Hm.
        * intros j. apply HK. left. reflexivity.
        * intros j Hj. pose proof (Hf n (or_introl eq_refl)) as Hn. unfold amem in Hn. rewrite Hj in Hn. discriminate.
  Qed.

  (* the generic constructor *)
  Lemma cg_sim : forall fuel kw ci S d,
    plain_dict kw = true ->
    construct_generic vr ev w pattern_ok selectors_ok rc rp ro fuel c true interop kw [] vrefs = Ok (PObject ci S d true) ->
    construct_generic vr ev w pattern_ok selectors_ok rc rp ro fuel c false interop kw [] vrefs = Err EExtra \/
    construct_generic vr ev w pattern_ok selectors_ok rc rp ro fuel c false interop kw [] vrefs = Err EInvalidValue.
  Proof.
    intros fuel kw ci S d Hp H.
    destruct (plain_dict_no_key kw Hp) as [Hcp Hext].
    apply amem_alookup_none in Hcp. apply amem_alookup_none in Hext.
    rewrite (cg_plain vr ev w pattern_ok selectors_ok rc rp ro c true interop vrefs fuel kw Hcp Hext) in H.
    rewrite (cg_plain vr ev w pattern_ok selectors_ok rc rp ro c false interop vrefs fuel kw Hcp Hext).
    cbv zeta in *.
    destruct (filter (notPN c) (akeys kw)) as [| e0 E0] eqn:HE; [| left; reflexivity].
    right. cbn [app filter udedup] in *.
    match type of H with (if ?g then _ else _) = _ => destruct g eqn:Epre; try discriminate end.
    unfold bind in *.
    assert (Hf0 : flag0 vr [] = false) by (unfold flag0; destruct (vr_flag_from_stored vr); reflexivity).
    rewrite Hf0 in *.
    match type of H with match ?g with _ => _ end = _ => destruct g as [[S0 hc0] | |] eqn:EL; try discriminate end.
    assert (Hh : hc0 = true).
    { unfold cg_tail in H.
      destruct (existsb (fun s => sreq s && negb (amem (sname s) S0)) (cslots c)); try discriminate.
      unfold bind in H.
      match type of H with match ?g with _ => _ end = _ => destruct g as [[] | |]; try discriminate end.
      match type of H with match ?g with _ => _ end = _ => destruct g as [[] | |]; try discriminate end.
      injection H as _ _ _ E4. cbn [existsb] in E4. rewrite andb_false_r in E4. rewrite orb_false_r in E4. exact E4. }
    subst hc0.
    rewrite (loop_sim kw _ [] S0); [reflexivity | | | | exact EL].
    - cbn [app]. apply NoDup_app_disj; [exact Hnodup | apply NoDup_usort; constructor |].
      intros x _ Hx. apply (proj1 (In_usort _ _)) in Hx. contradiction.
    - intros; reflexivity.
    - intros n j _ Hj. destruct (plain_dict_lookup kw n j Hp Hj) as [A B]. repeat split; auto.
      intros En. subst n. rewrite Hext in Hj. discriminate.
  Qed.
End ObjSim.

(* ------------------------------------------------------------------ the knot *)
Section RunSim.
  Variable vr : variant.
  Variable ev : env.
  Variable w : world.
  Variable pattern_ok : ver -> ustring -> bool.
  Variable selectors_ok : list (ustring * pval) -> pval -> result bool.
  Hypothesis Hflip : vr_ref_flip_unreg vr = true.
  Variable ids : list ustring.
  Hypothesis Hclosed : closed_oki vr w ids = true.

  Notation RUN := (run vr ev w pattern_ok selectors_ok).

  Definition refused_definitely (r : result pval) : Prop := r = Err EExtra \/ r = Err EInvalidValue.

  Definition claim_sim (fuel : nat) : Prop :=
    forall kid interop kw vrefs o,
      mem_ustr kid ids = true -> plain_dict kw = true ->
      RUN fuel (RConstruct kid true interop kw vrefs) = Ok o -> pval_has_custom o = true ->
      refused_definitely (RUN fuel (RConstruct kid false interop kw vrefs)).

  Lemma claim_sim_rc : forall f, claim_sim f ->
    rc_sim (fun k a i kw0 => RUN f (RConstruct k a i kw0 None)) (nestable w ids).
  Proof.
    intros f Hc cid0 i d o Hn Hp H Hh. unfold nestable in Hn. apply andb_true_iff in Hn. destruct Hn as [Hm _].
    destruct (Hc cid0 i d None o Hm Hp H Hh) as [E | E]; rewrite E; eauto.
  Qed.

  Theorem run_sim : forall fuel, claim_sim fuel.
  Proof.
    induction fuel as [| f IH]; intros kid interop kw vrefs o Hm Hp H Hh.
    - cbn [run] in H. discriminate.
    - cbn [run] in H |- *.
      destruct (find_class (wclasses w) kid) as [c |] eqn:Ef; try discriminate.
      pose proof (ids_class_oki vr w ids Hclosed kid c Hm Ef) as Hok. unfold class_oki in Hok.
      apply andb_true_iff in Hok. destruct Hok as [Hok _]. apply andb_true_iff in Hok. destruct Hok as [Hok Hinit].
      apply andb_true_iff in Hok. destruct Hok as [Hnd Hslots]. apply nodupb_NoDup in Hnd.
      destruct (amem (u "_valid_refs") kw || amem (u "allow_custom") kw || amem (u "interoperability") kw || amem (u "self") kw);
        try discriminate.
      set (vrf := match cfamily c with FSco => Some match vrefs with Some r => r | None => [] end | _ => None end) in *.
      set (rc := fun k a0 i kw0 => RUN f (RConstruct k a0 i kw0 None)) in *.
      set (rp := fun a0 i d => RUN f (RParse a0 i None d)) in *.
      set (ro := fun vv refs a0 d => RUN f (RParseObs (Some vv) refs a0 false d)) in *.
      pose proof (claim_mode_rc vr ev w pattern_ok selectors_ok ids f
                    (run_mode vr ev w pattern_ok selectors_ok Hflip ids Hclosed f)) as Hrcm. fold rc in Hrcm.
      pose proof (claim_sim_rc f IH) as Hsim. fold rc in Hsim.
      unfold bind in *.
      assert (Hgen : exists kw1 obj, plain_dict kw1 = true /\
                construct_generic vr ev w pattern_ok selectors_ok rc rp ro (S f) c true interop kw1 [] vrf = Ok obj /\
                (forall b, (match cinit c with
                            | INone | IObservedDataWarn | IBundleObjects =>
                              construct_generic vr ev w pattern_ok selectors_ok rc rp ro (S f) c b interop kw [] vrf
                            | IPositional names =>
                              construct_generic vr ev w pattern_ok selectors_ok rc rp ro (S f) c b interop
                                (filter (fun kv => negb (mem_ustr (fst kv) names) ||
                                          (if vr_positional_none vr then negb (jvalue_eqb (snd kv) JNull) else truthy (snd kv))) kw) [] vrf
                            | IIndicatorPatternVersion =>
                              construct_generic vr ev w pattern_ok selectors_ok rc rp ro (S f) c b interop (ind_kw kw) [] vrf
                            | _ => Unmodelled
                            end) = construct_generic vr ev w pattern_ok selectors_ok rc rp ro (S f) c b interop kw1 [] vrf) /\
                (exists ci S0 d0, obj = PObject ci S0 d0 true)).
      { unfold ind_ok in Hinit.
        assert (Hflag : forall obj, match obj, cfamily c, cver c with
                          | PObject ocid inner dfl hc, FSco, V21 =>
                            if amem (u "id") kw then Ok obj
                            else if existsb (fun p => amem p inner) (cidcontrib c) then
                              match ctype c with
                              | Some t => Ok (PObject ocid (aset (u "id") (PJ (JStr (t ++ u "--" ++ e_uuid5 ev))) inner) dfl hc)
                              | None => Unmodelled
                              end
                            else Ok obj
                          | _, _, _ => Ok obj
                          end = Ok o ->
                          (exists ci S0 d0 h0, obj = PObject ci S0 d0 h0) -> exists ci S0 d0, obj = PObject ci S0 d0 true).
        { intros obj Hpost [ci [S0 [d0 [h0 Eo]]]]. subst obj.
          assert (h0 = true); [| subst; eauto].
          destruct (cfamily c); try (inversion Hpost; subst; exact Hh). destruct (cver c); try (inversion Hpost; subst; exact Hh).
          destruct (amem (u "id") kw); [inversion Hpost; subst; exact Hh |].
          destruct (existsb (fun p => amem p S0) (cidcontrib c)); [| inversion Hpost; subst; exact Hh].
          destruct (ctype c); try discriminate. inversion Hpost; subst. exact Hh. }
        destruct (cinit c) as [| names | | | | |] eqn:Ei; cbn [init_ok orb] in Hinit; try discriminate.
        - match type of H with match ?g with _ => _ end = _ => destruct g as [obj | |] eqn:Eg; try discriminate end.
          exists kw, obj. repeat split; auto. apply Hflag; [exact H | eapply cg_object; exact Eg].
        - match type of H with match ?g with _ => _ end = _ => destruct g as [obj | |] eqn:Eg; try discriminate end.
          eexists; exists obj. split; [| split; [exact Eg | split; [intros b; reflexivity | apply Hflag; [exact H | eapply cg_object; exact Eg]]]].
          unfold plain_dict in *. apply forallb_forall. intros x Hx. apply filter_In in Hx. destruct Hx as [Hx _].
          rewrite forallb_forall in Hp. apply Hp. exact Hx.
        - change (match construct_generic vr ev w pattern_ok selectors_ok rc rp ro (S f) c true interop (ind_kw kw) [] vrf with
                  | Ok obj => match obj, cfamily c, cver c with
                              | PObject ocid inner dfl hc, FSco, V21 =>
                                if amem (u "id") kw then Ok obj
                                else if existsb (fun p => amem p inner) (cidcontrib c) then
                                  match ctype c with
                                  | Some t => Ok (PObject ocid (aset (u "id") (PJ (JStr (t ++ u "--" ++ e_uuid5 ev))) inner) dfl hc)
                                  | None => Unmodelled
                                  end
                                else Ok obj
                              | _, _, _ => Ok obj
                              end
                  | Err e => Err e
                  | Unmodelled => Unmodelled
                  end = Ok o) in H.
          match type of H with match ?g with _ => _ end = _ => destruct g as [obj | |] eqn:Eg; try discriminate end.
          exists (ind_kw kw), obj. split; [apply ind_kw_plain; exact Hp |]. split; [exact Eg |]. split; [intros b; reflexivity |].
          apply Hflag; [exact H | eapply cg_object; exact Eg].
        - match type of H with match ?g with _ => _ end = _ => destruct g as [obj | |] eqn:Eg; try discriminate end.
          exists kw, obj. repeat split; auto. apply Hflag; [exact H | eapply cg_object; exact Eg].
        - match type of H with match ?g with _ => _ end = _ => destruct g as [obj | |] eqn:Eg; try discriminate end.
          exists kw, obj. repeat split; auto. apply Hflag; [exact H | eapply cg_object; exact Eg]. }
      destruct Hgen as [kw1 [obj [Hp1 [Hcg [Hsame [ci [S0 [d0 Eobj]]]]]]]]. subst obj.
      pose proof (cg_sim vr ev w pattern_ok selectors_ok rc rp ro (nestable w ids) Hflip (nestable_no_tag w ids) Hrcm Hsim c interop vrf
                    Hnd Hslots (S f) kw1 ci S0 d0 Hp1 Hcg) as Hstrict.
      rewrite <- (Hsame false) in Hstrict.
      unfold refused_definitely.
      destruct Hstrict as [E | E]; destruct (cinit c); try discriminate;
        first [ rewrite E; auto | unfold ind_kw in E; cbv zeta in E |- *; rewrite E; auto ].
  Qed.
End RunSim.

(* ------------------------------------------------------------------ "always detected", with the error named *)
Section Refused.
  Variable vr : variant.
  Variable ev : env.
  Variable w : world.
  Variable pattern_ok : ver -> ustring -> bool.
  Variable selectors_ok : list (ustring * pval) -> pval -> result bool.
  Hypothesis Hpad : vr_year_pad vr = true.
  Hypothesis Hflip : vr_ref_flip_unreg vr = true.
  Variable ids : list ustring.
  Hypothesis Hclosed : closed_oki vr w ids = true.

  Notation RUN := (run vr ev w pattern_ok selectors_ok).

  (* constructor level: a flagged object's own encoding is refused by the strict constructor with
     ExtraPropertiesError or InvalidValueError *)
  Theorem flagged_strict_reparse_refused_construct : forall fuel kid interop kw vrefs o,
    mem_ustr kid ids = true -> plain_dict kw = true -> id_given w kid kw = true ->
    RUN fuel (RConstruct kid true interop kw vrefs) = Ok o -> pval_has_custom o = true ->
    refused_definitely (RUN fuel (RConstruct kid false interop (omem o) vrefs)).
  Proof.
    intros fuel kid interop kw vrefs o Hm Hp Hid H Hh.
    destruct (run_construct_idem vr ev w pattern_ok selectors_ok Hpad ids (closed_oki_weaken vr w ids Hclosed) fuel kid true interop kw vrefs o
                Hm Hp Hid H) as [_ [_ [Hre Hpo]]].
    exact (run_sim vr ev w pattern_ok selectors_ok Hflip ids Hclosed fuel kid interop (omem o) vrefs o Hm Hpo Hre Hh).
  Qed.

  Hypothesis Hreg : registry_ok w = true.
  Variable pids : list ustring.
  Hypothesis Hsub : forallb (fun k => mem_ustr k ids) pids = true.
  Hypothesis Hpc : forallb (fun k => match find_class (wclasses w) k with Some c => parse_class_ok w c | None => false end) pids = true.

  (* stix2.parse level *)
  Theorem flagged_strict_reparse_refused_parse : forall fuel interop d ci Sv dfl,
    plain_dict d = true -> mem_ustr ci pids = true ->
    (amem id_key d = true \/ forall t, alookup type_key d = Some (JStr t) -> amem t (robservables (wreg21 w)) = false) ->
    RUN fuel (RParse true interop None d) = Ok (PObject ci Sv dfl true) ->
    refused_definitely (RUN fuel (RParse false interop None (omem (PObject ci Sv dfl true)))).
  Proof.
    intros fuel interop d ci Sv dfl Hp Hmp Hid H.
    destruct fuel as [| f]; [cbn [run] in H; discriminate |].
    destruct (parse_roundtrip_full vr ev w pattern_ok selectors_ok Hpad ids (closed_oki_weaken vr w ids Hclosed) Hreg pids Hsub Hpc
                (S f) true interop d ci Sv dfl true Hp Hmp Hid H) as [R1 [Hpl _]].
    set (o := PObject ci Sv dfl true) in *.
    destruct (parse_inv vr ev w pattern_ok selectors_ok pids f true interop (omem o) ci Sv dfl true Hmp R1) as [t [vv [Ety [Edet [Ecf Er]]]]].
    fold o in Er.
    assert (Hm : mem_ustr ci ids = true) by (rewrite forallb_forall in Hsub; apply Hsub; apply mem_ustr_In; exact Hmp).
    pose proof (run_sim vr ev w pattern_ok selectors_ok Hflip ids Hclosed f ci interop (omem o) None o Hm Hpl Er eq_refl) as Hs.
    remember f as f0. cbn [run]. change (u "type") with type_key. rewrite Ety. unfold bind. rewrite Edet. cbv zeta. rewrite Ecf. subst f0.
    unfold refused_definitely in *. destruct Hs as [E | E]; rewrite E; auto.
  Qed.
End Refused.

(* Proofs/PatternEqValid.v -- never raises, repaired variant, up to termination.
   A comparison expression is VALID when the object model's constructors can
   build it: duplicating it succeeds and yields a non-empty set of root types
   (every AND has an object type common to all its operands, no node has an
   empty operand list).  Everything the parser builds through the constructors
   is valid.  Validity is preserved by flatten / order / absorb / settle and by
   the special-value pass, and on a valid input the comparison-level DNF never
   ends up with an empty set of distributed operand sets: "if the original AND
   node was legal, it is guaranteed that there will be at least one legal
   distributed AND node" (comment in DNFTransformer.transform_and) -- proved
   here.  Hence the only failure left is fuel exhaustion.

   The argument uses the soundness theorems at one particular interpretation:
   objects are type names and an atom holds on an object iff the object is its
   type.  Then "e is true on t" says that t is a root type of e.            *)
From Coq Require Import NArith ZArith List Bool Permutation Lia String.
From V Require Import Base.UString Model.PatternEq Spec.PatternSemantics Proofs.PatternEqCmp Proofs.PatternEqLists
     Proofs.PatternEqC Proofs.PatternEqDnf Proofs.PatternEqNorm Proofs.PatternEqErr.
Import ListNotations.

Definition HT : ustring -> list step -> cop -> bool -> dconst -> ustring -> bool := fun _ _ _ _ _ _ => true.
Definition tsem (e : cexpr) (t : ustring) : bool := csem ustring (fun x => x) HT e t.

Lemma HT_den : respects_denotation ustring HT.
Proof. intros t p o n d d' x _. reflexivity. Qed.

Lemma HT_cidr : respects_cidr6 ustring HT.
Proof. intros t p o n s s' x _ _ _. reflexivity. Qed.

Definition valid (e : cexpr) : Prop := exists ts, rt_dupe e = Ok (Some ts).

(* ------------------------------------------------------------------ *)
(* the computed set is exactly the set of root types                   *)

Lemma rt_fold_and_inv : forall t rs cur ts,
    rt_fold BAnd cur rs = Ok (Some ts) -> mem_ustr t ts = true ->
    (forall c, cur = Some c -> mem_ustr t c = true) /\ Forall (fun a => forall s, a = Some s -> mem_ustr t s = true) rs.
Proof.
  induction rs as [|a rs IH]; simpl; intros cur ts E M.
  - inversion E; subst. split; [intros c Ec; inversion Ec; subst; exact M | constructor].
  - destruct (rt_step BAnd cur a) as [cur'|] eqn:Es; [|discriminate].
    destruct (IH cur' ts E M) as [Hc Hr].
    destruct a as [sa|]; simpl in Es; [|discriminate].
    destruct cur as [c0|].
    + destruct (inter_ustr c0 sa) eqn:Ei; [discriminate|]. inversion Es; subst cur'.
      specialize (Hc _ eq_refl). rewrite <- Ei, mem_inter in Hc. apply andb_true_iff in Hc. destruct Hc as [M0 Ma].
      split; [intros c Ec; inversion Ec; subst; exact M0|].
      constructor; [intros s Es'; inversion Es'; subst; exact Ma | exact Hr].
    + destruct sa; [discriminate|]. inversion Es; subst cur'. specialize (Hc _ eq_refl).
      split; [intros c Ec; discriminate|]. constructor; [intros s Es'; inversion Es'; subst; exact Hc | exact Hr].
Qed.

Lemma rt_fold_or_inv : forall t rs cur ts,
    rt_fold BOr cur rs = Ok (Some ts) -> mem_ustr t ts = true ->
    (exists c, cur = Some c /\ mem_ustr t c = true) \/ (exists s, In (Some s) rs /\ mem_ustr t s = true).
Proof.
  induction rs as [|a rs IH]; simpl; intros cur ts E M.
  - inversion E; subst. left. exists ts. auto.
  - destruct (rt_step BOr cur a) as [cur'|] eqn:Es; [|discriminate].
    destruct a as [sa|]; simpl in Es; [|discriminate].
    destruct (IH cur' ts E M) as [[c [Ec Mc]]|[s [Hs Ms]]].
    + subst cur'. destruct cur as [c0|].
      * destruct (union_ustr c0 sa) eqn:Eu; [discriminate|]. inversion Es; subst c.
        rewrite <- Eu, mem_union in Mc. apply orb_true_iff in Mc. destruct Mc as [Mc|Mc].
        -- left. exists c0. auto.
        -- right. exists sa. split; [left; reflexivity | exact Mc].
      * destruct sa; [discriminate|]. inversion Es; subst c. right. eexists. split; [left; reflexivity | exact Mc].
    + right. exists s. split; [right; exact Hs | exact Ms].
Qed.

Lemma rt_complete : forall e ts t, rt_dupe e = Ok (Some ts) -> mem_ustr t ts = true -> tsem e t = true.
Proof.
  induction e using cexpr_ind'; intros ts t E M; unfold tsem in *.
  - simpl in E. inversion E; subst. apply mem_In in M. destruct M as [M|[]]. simpl. unfold asem. simpl. subst t.
    rewrite ustr_eqb_refl. reflexivity.
  - simpl in E. destruct (mapM rt_dupe l) as [rs|] eqn:Em; [|discriminate]. apply mapM_Forall2 in Em.
    destruct (rt_fold_and_inv t rs None ts E M) as [_ Hr]. rewrite Forall_forall in Hr, H.
    simpl. apply forallb_forall. intros c Hc.
    destruct (Forall2_In_l _ _ _ c Em Hc) as [r [Hrin Ec]].
    pose proof (rt_fold_all_some _ _ _ _ E) as Hs. rewrite Forall_forall in Hs. destruct (Hs r Hrin) as [s ->].
    apply (H c Hc s t Ec). apply (Hr _ Hrin s eq_refl).
  - simpl in E. destruct (mapM rt_dupe l) as [rs|] eqn:Em; [|discriminate]. apply mapM_Forall2 in Em.
    destruct (rt_fold_or_inv t rs None ts E M) as [[c [Ec _]]|[s [Hs Ms]]]; [discriminate|].
    destruct (Forall2_In_r _ _ _ _ Em Hs) as [c [Hc Ec]]. rewrite Forall_forall in H.
    simpl. apply existsb_exists. exists c. split; [exact Hc | apply (H c Hc s t Ec Ms)].
Qed.

Lemma rt_sound_t : forall e ts t, rt_dupe e = Ok (Some ts) -> tsem e t = true -> mem_ustr t ts = true.
Proof. intros e ts t E S. apply (rt_sound ustring (fun x => x) HT e ts t E S). Qed.

(* ------------------------------------------------------------------ *)
(* validity: sub-nodes, witnesses, construction                        *)

Lemma valid_type : forall e, valid e -> exists t, tsem e t = true.
Proof.
  intros e [ts E]. pose proof (rt_dupe_nonempty _ _ E ts eq_refl) as Hn.
  destruct ts as [|t ts']; [contradiction Hn; reflexivity|].
  exists t. apply (rt_complete e (t :: ts') t E). apply mem_In. left. reflexivity.
Qed.

Lemma valid_children : forall o l, valid (mkb o l) -> Forall valid l /\ l <> [].
Proof.
  intros o l [ts E]. assert (Em : exists rs, mapM rt_dupe l = Ok rs /\ rt_fold o None rs = Ok (Some ts)).
  { destruct o; simpl in E; destruct (mapM rt_dupe l) as [rs|]; try discriminate; exists rs; auto. }
  destruct Em as [rs [Em Ef]]. split.
  - apply mapM_Forall2 in Em. apply Forall_forall. intros c Hc.
    destruct (Forall2_In_l _ _ _ c Em Hc) as [r [Hr Ec]].
    pose proof (rt_fold_all_some _ _ _ _ Ef) as Hs. rewrite Forall_forall in Hs. destruct (Hs r Hr) as [s ->].
    exists s. exact Ec.
  - intro El. subst l. simpl in Em. inversion Em; subst rs. simpl in Ef. discriminate.
Qed.

Lemma mapM_valid : forall l, Forall valid l -> exists ss, mapM rt_dupe l = Ok (map Some ss) /\ List.length ss = List.length l /\
                                                       Forall2 (fun c s => rt_dupe c = Ok (Some s)) l ss.
Proof.
  induction 1 as [|c l [s Ec] _ [ss [Em [El HF]]]].
  - exists []. repeat split; constructor.
  - exists (s :: ss). simpl. rewrite Ec, Em. repeat split; [simpl; congruence | constructor; assumption].
Qed.

Lemma rt_fold_and_ok : forall t ss cur,
    (forall c, cur = Some c -> mem_ustr t c = true) -> Forall (fun s => mem_ustr t s = true) ss ->
    (cur <> None \/ ss <> []) ->
    exists ts, rt_fold BAnd cur (map Some ss) = Ok (Some ts).
Proof.
  induction ss as [|s ss IH]; intros cur Hc Hs Hne; simpl.
  - destruct cur as [c|]; [exists c; reflexivity | destruct Hne as [Hne|Hne]; contradiction Hne; reflexivity].
  - inversion Hs as [|s0 l0 Ms Hs']; subst.
    destruct cur as [c|].
    + assert (Mi : mem_ustr t (inter_ustr c s) = true) by (rewrite mem_inter, (Hc c eq_refl), Ms; reflexivity).
      destruct (inter_ustr c s) as [|y nw] eqn:Ei; [discriminate Mi|].
      apply IH; [intros c' Ec'; inversion Ec'; subst; exact Mi | exact Hs' | left; discriminate].
    + destruct s as [|y s']; [discriminate Ms|].
      apply IH; [intros c' Ec'; inversion Ec'; subst; exact Ms | exact Hs' | left; discriminate].
Qed.

Lemma rt_fold_or_ok : forall ss cur,
    (forall c, cur = Some c -> c <> []) -> Forall (fun s => s <> []) ss -> (cur <> None \/ ss <> []) ->
    exists ts, rt_fold BOr cur (map Some ss) = Ok (Some ts).
Proof.
  induction ss as [|s ss IH]; intros cur Hc Hs Hne; simpl.
  - destruct cur as [c|]; [exists c; reflexivity | destruct Hne as [Hne|Hne]; contradiction Hne; reflexivity].
  - inversion Hs as [|s0 l0 Ns Hs']; subst.
    destruct cur as [c|].
    + destruct (union_ustr c s) as [|y nw] eqn:Eu.
      * unfold union_ustr in Eu. apply app_eq_nil in Eu. destruct Eu as [Ec _]. exfalso. apply (Hc c eq_refl Ec).
      * apply IH; [intros c' Ec'; inversion Ec'; discriminate | exact Hs' | left; discriminate].
    + destruct s as [|y s']; [contradiction Ns; reflexivity|].
      apply IH; [intros c' Ec'; inversion Ec'; discriminate | exact Hs' | left; discriminate].
Qed.

Lemma valid_and : forall l t, Forall valid l -> l <> [] -> (forall c, In c l -> tsem c t = true) -> valid (CAnd l).
Proof.
  intros l t Hv Hne Ht. destruct (mapM_valid l Hv) as [ss [Em [El HF]]].
  destruct (rt_fold_and_ok t ss None) as [ts Ef].
  - intros c Ec; discriminate.
  - apply Forall_forall. intros s Hs. destruct (Forall2_In_r _ _ _ s HF Hs) as [c [Hc Ec]].
    apply (rt_sound_t c s t Ec). apply Ht; exact Hc.
  - right. destruct ss; [destruct l; [contradiction Hne; reflexivity | discriminate El] | discriminate].
  - exists ts. simpl. rewrite Em. exact Ef.
Qed.

Lemma valid_or : forall l, Forall valid l -> l <> [] -> valid (COr l).
Proof.
  intros l Hv Hne. destruct (mapM_valid l Hv) as [ss [Em [El HF]]].
  destruct (rt_fold_or_ok ss None) as [ts Ef].
  - intros c Ec; discriminate.
  - apply Forall_forall. intros s Hs. destruct (Forall2_In_r _ _ _ s HF Hs) as [c [Hc Ec]].
    apply (rt_dupe_nonempty _ _ Ec s eq_refl).
  - right. destruct ss; [destruct l; [contradiction Hne; reflexivity | discriminate El] | discriminate].
  - exists ts. simpl. rewrite Em. exact Ef.
Qed.

(* a node whose operands are valid and which is true on some type is valid *)
Lemma valid_node : forall o l t, Forall valid l -> l <> [] -> tsem (mkb o l) t = true -> valid (mkb o l).
Proof.
  intros o l t Hv Hne Ht. destruct o; simpl mkb in *.
  - apply (valid_and l t Hv Hne). unfold tsem in Ht. simpl in Ht. rewrite forallb_forall in Ht. exact Ht.
  - apply valid_or; assumption.
Qed.

(* ------------------------------------------------------------------ *)
(* validity is preserved by flatten / order / absorb / settle          *)

Lemma valid_rebuild : forall o l l',
    valid (mkb o l) -> Forall valid l' -> l' <> [] -> (forall t, tsem (mkb o l') t = tsem (mkb o l) t) -> valid (mkb o l').
Proof.
  intros o l l' Hv Hl' Hne Hs. destruct (valid_type _ Hv) as [t Ht]. apply (valid_node o l' t Hl' Hne). rewrite Hs. exact Ht.
Qed.

Lemma Forall_valid_map : forall (pass : cexpr -> cexpr * bool) l,
    Forall (fun e => valid e -> valid (fst (pass e))) l -> Forall valid l -> Forall valid (map fst (map pass l)).
Proof.
  intros pass l HF Hv. rewrite map_map. apply Forall_map. rewrite Forall_forall in *. intros c Hc. apply HF; auto.
Qed.

Lemma cflatten_ops_valid : forall o l, Forall valid l -> Forall valid (fst (cflatten_ops o l)) /\ (l <> [] -> fst (cflatten_ops o l) <> []).
Proof.
  induction l as [|c l IH]; intro Hv; [split; [constructor | intro Hn; contradiction Hn; reflexivity]|].
  inversion Hv as [|c0 l0 Hc Hl]; subst. destruct (IH Hl) as [IH1 IH2]. cbn [cflatten_ops].
  destruct (cflatten_ops o l) as [r' ch]. cbn [fst] in *.
  destruct (ops_of o c) as [xs|] eqn:Eo; cbn [fst].
  - apply ops_of_some in Eo. subst c. destruct (valid_children o xs Hc) as [Hxs Hne].
    split; [apply Forall_app; split; assumption|]. intros _ E. apply app_eq_nil in E. destruct E as [E _]. contradiction.
  - split; [constructor; assumption | intros _; discriminate].
Qed.

Lemma cflatten_valid : forall e, valid e -> valid (fst (cflatten e)).
Proof.
  assert (Hnode : forall o l, Forall (fun e => valid e -> valid (fst (cflatten e))) l -> valid (mkb o l) ->
                              (forall t, tsem (fst (cflatten_node o (map fst (map cflatten l)))) t = tsem (mkb o l) t) ->
                              valid (fst (cflatten_node o (map fst (map cflatten l))))).
  { intros o l IH Hv Hs. destruct (valid_children o l Hv) as [Hl Hne].
    pose proof (Forall_valid_map cflatten l IH Hl) as Hl1.
    assert (Hne1 : map fst (map cflatten l) <> []) by (destruct l; [contradiction Hne; reflexivity | discriminate]).
    unfold cflatten_node in *. destruct (map fst (map cflatten l)) as [|x [|x' r]] eqn:El1.
    - contradiction Hne1; reflexivity.
    - simpl. inversion Hl1; assumption.
    - destruct (cflatten_ops_valid o (x :: x' :: r) Hl1) as [Hv' Hne'].
      destruct (cflatten_ops o (x :: x' :: r)) as [l' ch]. cbn [fst] in *.
      apply (valid_rebuild o l l' Hv Hv' (Hne' ltac:(discriminate)) Hs). }
  induction e using cexpr_ind'; intro Hv; [exact Hv | |].
  - rewrite cflatten_CAnd. apply (Hnode BAnd l H Hv). intro t. rewrite <- cflatten_CAnd. apply cflatten_sound.
  - rewrite cflatten_COr. apply (Hnode BOr l H Hv). intro t. rewrite <- cflatten_COr. apply cflatten_sound.
Qed.

Lemma Forall_incl : forall {A} (P : A -> Prop) l l', incl l' l -> Forall P l -> Forall P l'.
Proof. intros A P l l' Hi HF. rewrite Forall_forall in *. intros x Hx. apply HF, Hi, Hx. Qed.

Lemma dedupe_nonempty : forall {A} (cmp : A -> A -> comparison) l, l <> [] -> dedupe cmp l <> [].
Proof. intros A cmp [|x r] Hn; [contradiction Hn; reflexivity | simpl; discriminate]. Qed.

Lemma isort_nonempty : forall {A} (cmp : A -> A -> comparison) l, l <> [] -> isort cmp l <> [].
Proof.
  intros A cmp l Hn E. pose proof (Permutation_length (isort_perm cmp l)) as HL. rewrite E in HL.
  destruct l; [contradiction Hn; reflexivity | discriminate HL].
Qed.

Lemma corder_valid : forall e, valid e -> valid (fst (corder e)).
Proof.
  assert (Hnode : forall o l, Forall (fun e => valid e -> valid (fst (corder e))) l -> valid (mkb o l) ->
                              (forall t, tsem (fst (corder_node o (map fst (map corder l)))) t = tsem (mkb o l) t) ->
                              valid (fst (corder_node o (map fst (map corder l))))).
  { intros o l IH Hv Hs. destruct (valid_children o l Hv) as [Hl Hne].
    pose proof (Forall_valid_map corder l IH Hl) as Hl1.
    assert (Hne1 : map fst (map corder l) <> []) by (destruct l; [contradiction Hne; reflexivity | discriminate]).
    unfold corder_node in *. cbn [fst] in *.
    apply (valid_rebuild o l _ Hv); [| |exact Hs].
    - apply (Forall_incl valid (map fst (map corder l))); [|exact Hl1].
      eapply incl_tran; [apply dedupe_incl | apply incl_isort].
    - apply dedupe_nonempty, isort_nonempty. exact Hne1. }
  induction e using cexpr_ind'; intro Hv; [exact Hv | |].
  - rewrite corder_CAnd. apply (Hnode BAnd l H Hv). intro t. rewrite <- corder_CAnd. apply (corder_sound _ _ _ HT_den).
  - rewrite corder_COr. apply (Hnode BOr l H Hv). intro t. rewrite <- corder_COr. apply (corder_sound _ _ _ HT_den).
Qed.

Lemma cabsorb_valid : forall e, valid e -> valid (fst (cabsorb e)).
Proof.
  assert (Hnode : forall o l, Forall (fun e => valid e -> valid (fst (cabsorb e))) l -> valid (mkb o l) ->
                              (forall t, tsem (fst (cabsorb_node o (map fst (map cabsorb l)))) t = tsem (mkb o l) t) ->
                              valid (fst (cabsorb_node o (map fst (map cabsorb l))))).
  { intros o l IH Hv Hs. destruct (valid_children o l Hv) as [Hl Hne].
    pose proof (Forall_valid_map cabsorb l IH Hl) as Hl1.
    unfold cabsorb_node in *. cbn [fst] in *.
    apply (valid_rebuild o l _ Hv); [| |exact Hs].
    - apply (Forall_incl valid (map fst (map cabsorb l))); [apply remove_marked_incl | exact Hl1].
    - destruct (map fst (map cabsorb l)) as [|x r] eqn:El1; [destruct l; [contradiction Hne; reflexivity | discriminate]|].
      destruct (absorb_cover (cabsorbs (other_op o)) (fun _ _ => True)) with (ops := x :: r) (x := x) as [y [Hy _]]; auto.
      + left. reflexivity.
      + intro E. rewrite E in Hy. destruct Hy. }
  induction e using cexpr_ind'; intro Hv; [exact Hv | |].
  - rewrite cabsorb_CAnd. apply (Hnode BAnd l H Hv). intro t. rewrite <- cabsorb_CAnd. apply (cabsorb_sound _ _ _ HT_den).
  - rewrite cabsorb_COr. apply (Hnode BOr l H Hv). intro t. rewrite <- cabsorb_COr. apply (cabsorb_sound _ _ _ HT_den).
Qed.

Lemma csimplify_valid : forall e, valid e -> valid (fst (csimplify e)).
Proof.
  intros e Hv. unfold csimplify.
  pose proof (cflatten_valid e Hv) as H1. destruct (cflatten e) as [e1 c1]. simpl in H1.
  pose proof (corder_valid e1 H1) as H2. destruct (corder e1) as [e2 c2]. simpl in H2.
  pose proof (cabsorb_valid e2 H2) as H3. destruct (cabsorb e2) as [e3 c3]. exact H3.
Qed.

Lemma csettle_valid : forall fuel e e' ch, csettle fuel e = Ok (e', ch) -> valid e -> valid e'.
Proof.
  intros fuel e e' ch E. unfold csettle, settle in E.
  assert (Ht : forall a b c : cexpr, (valid a -> valid b) -> (valid b -> valid c) -> valid a -> valid c) by auto.
  assert (Hf : forall (a a' : cexpr) (c : bool), (fun y => Ok (csimplify y)) a = Ok (a', c) -> valid a -> valid a').
  { intros a a' c Ea Hv. inversion Ea. pose proof (csimplify_valid a Hv) as Hs. rewrite H0 in Hs. exact Hs. }
  exact (settle_loop_inv (fun a b => valid a -> valid b) (fun y => Ok (csimplify y)) Ht Hf _ _ _ _ _ E).
Qed.

(* ------------------------------------------------------------------ *)
(* DNF on a valid expression: never the empty OR, never an AttributeError *)

Lemma rt_fold_some : forall o rs c r, rt_fold o (Some c) rs = Ok r -> exists ts, r = Some ts.
Proof.
  induction rs as [|a rs IH]; simpl; intros c r E; [inversion E; eexists; reflexivity|].
  destruct (rt_step o (Some c) a) as [cur'|] eqn:Es; [|discriminate].
  destruct (rt_step_ok _ _ _ _ Es) as [s [nw [_ [-> _]]]]. apply (IH nw r E).
Qed.

Lemma rt_dupe_and_some : forall s r, rt_dupe (CAnd s) = Ok r -> s <> [] -> exists ts, r = Some ts.
Proof.
  intros s r E Hne. simpl in E. destruct (mapM rt_dupe s) as [rs|] eqn:Em; [|discriminate].
  destruct rs as [|a rs]; [apply mapM_Forall2 in Em; inversion Em; subst; contradiction Hne; reflexivity|].
  simpl in E. destruct (rt_step BAnd None a) as [cur'|] eqn:Es; [|discriminate].
  destruct (rt_step_ok _ _ _ _ Es) as [s0 [nw [_ [-> _]]]]. apply (rt_fold_some _ _ _ _ E).
Qed.

Lemma rt_dupe_and_valid_err : forall s e, Forall valid s -> rt_dupe (CAnd s) = Err e -> e = EValue.
Proof.
  intros s e Hv E. destruct (mapM_valid s Hv) as [ss [Em _]]. simpl in E. rewrite Em in E.
  clear Em. revert E. generalize (@None (list ustring)). induction ss as [|x ss IH]; intros cur E; cbn [rt_fold map] in E; [discriminate|].
  destruct (rt_step BAnd cur (Some x)) as [cur'|e0] eqn:Es; [apply (IH _ E)|].
  inversion E; subst e0. simpl in Es. destruct cur as [c|].
  - destruct (inter_ustr c x); inversion Es; reflexivity.
  - destruct x; inversion Es; reflexivity.
Qed.

Lemma dnf_prune_valid : forall sets,
    (forall s, In s sets -> Forall valid s /\ s <> []) ->
    exists kept, dnf_prune sets = Ok kept /\ Forall valid kept /\
                 (forall s, In s sets -> valid (CAnd s) -> In (CAnd s) kept).
Proof.
  induction sets as [|s r IH]; intro Hs.
  - exists []. repeat split; [constructor | intros s []].
  - destruct IH as [kept [Ek [Hv Hin]]]; [intros s' Hs'; apply Hs; right; exact Hs'|].
    destruct (Hs s (or_introl eq_refl)) as [Hsv Hne]. cbn [dnf_prune].
    destruct (rt_dupe (CAnd s)) as [rt|e] eqn:Er.
    + rewrite Ek. exists (CAnd s :: kept). split; [reflexivity|]. split.
      * constructor; [|exact Hv]. destruct (rt_dupe_and_some s rt Er Hne) as [ts ->]. exists ts. exact Er.
      * intros s' [<-|Hs'] Hvs'; [left; reflexivity | right; apply Hin; assumption].
    + rewrite (rt_dupe_and_valid_err s e Hsv Er). exists kept. split; [exact Ek | split; [exact Hv|]].
      intros s' [<-|Hs'] Hvs'; [destruct Hvs' as [ts Ets]; rewrite Ets in Er; discriminate | apply Hin; assumption].
Qed.

Lemma product_length : forall {A} (ls : list (list A)) p, In p (product ls) -> List.length p = List.length ls.
Proof.
  induction ls as [|l r IH]; simpl; intros p Hp.
  - destruct Hp as [<-|[]]. reflexivity.
  - apply in_flat_map in Hp. destruct Hp as [x [_ Hp]]. apply in_map_iff in Hp. destruct Hp as [q [<- Hq]].
    simpl. rewrite (IH q Hq). reflexivity.
Qed.

Definition dnf_good (r : res (cexpr * bool)) : Prop :=
  match r with Ok (e', _) => valid e' | Err x => x = EFuel end.

Lemma mapM_good : forall f l,
    (forall e, valid e -> dnf_good (cdnf f e)) -> Forall valid l ->
    match mapM (cdnf f) l with
    | Ok rs => Forall2 (fun c r => cdnf f c = Ok r /\ valid (fst r)) l rs
    | Err x => x = EFuel
    end.
Proof.
  intros f l IH. induction 1 as [|c l Hc _ IHl]; simpl; [constructor|].
  pose proof (IH c Hc) as Gc. destruct (cdnf f c) as [[c' ch]|x] eqn:Ec; [|exact Gc].
  destruct (mapM (cdnf f) l) as [rs|x]; [|exact IHl]. constructor; [split; [exact Ec | exact Gc] | exact IHl].
Qed.

Lemma valid_not_empty_or : forall e, valid e -> is_empty_or e = false.
Proof.
  intros [a|l|[|x l]] Hv; try reflexivity. destruct (valid_children BOr [] Hv) as [_ Hne]. contradiction Hne; reflexivity.
Qed.

Theorem cdnf_valid : forall fuel e, valid e -> dnf_good (cdnf fuel e).
Proof.
  induction fuel as [|f IH]; intros e Hv; [reflexivity|].
  destruct e as [a|l|l]; cbn [cdnf].
  - exact Hv.
  - (* AND *)
    destruct (valid_children BAnd l Hv) as [Hl Hne].
    pose proof (mapM_good f l IH Hl) as Gm. destruct (mapM (cdnf f) l) as [rs|x]; [|exact Gm]. simpl.
    assert (Hl' : Forall valid (map fst rs)).
    { apply Forall_forall. intros c' Hc'. apply in_map_iff in Hc'. destruct Hc' as [r [<- Hr]].
      destruct (Forall2_In_r _ _ _ r Gm Hr) as [c [_ [_ Vr]]]. exact Vr. }
    assert (Hne' : map fst rs <> []).
    { destruct l; [contradiction Hne; reflexivity|]. inversion Gm; subst. discriminate. }
    destruct (valid_type _ Hv) as [t Ht].
    assert (Ht' : forall c', In c' (map fst rs) -> tsem c' t = true).
    { intros c' Hc'. apply in_map_iff in Hc'. destruct Hc' as [r [<- Hr]].
      destruct (Forall2_In_r _ _ _ r Gm Hr) as [c [Hc [Ec _]]]. destruct r as [c' ch'].
      assert (Vc : valid c) by (rewrite Forall_forall in Hl; apply Hl; exact Hc).
      destruct Vc as [ts Ets].
      destruct (cdnf_clean ustring (fun x => x) HT f c c' ch' (rt_ok_clean _ _ Ets) Ec) as [_ Sc].
      unfold tsem. simpl. rewrite Sc. unfold tsem in Ht. simpl in Ht. rewrite forallb_forall in Ht. apply Ht; exact Hc. }
    destruct (split_or (map fst rs)) as [ors others] eqn:Es.
    destruct (split_or_spec _ _ _ Es) as [H1 [H2 H3]].
    destruct ors as [|o1 ors'].
    + simpl. apply (valid_and _ t Hl' Hne' Ht').
    + (* the distributed operand sets *)
      set (sets := map (fun p => (others ++ p)%list) (product (o1 :: ors'))).
      assert (Hsets : forall s, In s sets -> Forall valid s /\ s <> []).
      { intros s Hs. apply in_map_iff in Hs. destruct Hs as [p [<- Hp]]. split.
        - apply Forall_app. split.
          + apply Forall_forall. intros a Ha. rewrite Forall_forall in Hl'. apply Hl'. apply (H1 a Ha).
          + apply Forall_forall. intros a Ha. destruct (product_In _ p a Hp Ha) as [ops [Ho Hao]].
            assert (Vo : valid (COr ops)) by (rewrite Forall_forall in Hl'; apply Hl'; apply H2; exact Ho).
            destruct (valid_children BOr ops Vo) as [Vops _]. rewrite Forall_forall in Vops. apply Vops; exact Hao.
        - pose proof (product_length _ p Hp) as Lp. simpl in Lp. intro E. apply app_eq_nil in E. destruct E as [_ E].
          subst p. discriminate Lp. }
      destruct (dnf_prune_valid sets Hsets) as [kept [Ek [Vk Hin]]]. fold sets. rewrite Ek. simpl.
      (* some set is true on t, hence valid, hence kept *)
      assert (Hk : kept <> []).
      { pose proof (distribute_sem ustring (fun x => x) HT t (map fst rs) (o1 :: ors') others Es) as Hd.
        assert (Hand : csem ustring (fun x => x) HT (CAnd (map fst rs)) t = true)
          by (simpl; apply forallb_forall; intros c' Hc'; apply (Ht' c' Hc')).
        rewrite Hand in Hd. symmetry in Hd. apply existsb_exists in Hd. destruct Hd as [s [Hs Ss]]. fold sets in Hs.
        destruct (Hsets s Hs) as [Vs Ns].
        assert (Vand : valid (CAnd s)).
        { apply (valid_and s t Vs Ns). simpl in Ss. rewrite forallb_forall in Ss. exact Ss. }
        intro E. pose proof (Hin s Hs Vand) as Hi. rewrite E in Hi. destruct Hi. }
      (* the recursive calls on the kept nodes *)
      assert (Gk : match mapM (fun c => r <- cdnf f c ;; Ok (fst r)) kept with
                   | Ok kids => Forall valid kids /\ List.length kids = List.length kept
                   | Err x => x = EFuel end).
      { clear -IH Vk. induction Vk as [|k kept Hk _ IHk]; simpl; [split; [constructor | reflexivity]|].
        pose proof (IH k Hk) as Gc. destruct (cdnf f k) as [[k' ch]|x]; simpl; [|exact Gc].
        destruct (mapM (fun c => r <- cdnf f c ;; Ok (fst r)) kept) as [kids|x]; [|exact IHk].
        destruct IHk as [Vkids Lk]. split; [constructor; assumption | simpl; congruence]. }
      destruct (mapM (fun c => r <- cdnf f c ;; Ok (fst r)) kept) as [kids|x]; [|exact Gk]. simpl.
      destruct Gk as [Vkids Lk].
      assert (Ee : existsb is_empty_or kids = false).
      { destruct (existsb is_empty_or kids) eqn:Ee; [|reflexivity]. apply existsb_exists in Ee. destruct Ee as [k [Hkin Ek']].
        rewrite Forall_forall in Vkids. rewrite (valid_not_empty_or k (Vkids k Hkin)) in Ek'. discriminate. }
      rewrite Ee. simpl. apply valid_or; [exact Vkids|]. intro E. subst kids. destruct kept; [contradiction Hk; reflexivity | discriminate Lk].
  - (* OR *)
    destruct (valid_children BOr l Hv) as [Hl Hne].
    pose proof (mapM_good f l IH Hl) as Gm. destruct (mapM (cdnf f) l) as [rs|x]; [|exact Gm]. simpl.
    apply valid_or.
    + apply Forall_forall. intros c' Hc'. apply in_map_iff in Hc'. destruct Hc' as [r [<- Hr]].
      destruct (Forall2_In_r _ _ _ r Gm Hr) as [c [_ [_ Vr]]]. exact Vr.
    + destruct l; [contradiction Hne; reflexivity|]. inversion Gm; subst. discriminate.
Qed.

(* ------------------------------------------------------------------ *)
(* the whole normaliser on constructor-valid patterns                  *)

Lemma special_atom_type : forall v a a', special_atom v a = Ok a' -> a_type a' = a_type a.
Proof.
  intros v a a' E. unfold special_atom in E.
  repeat match type of E with
         | context [match ?x with _ => _ end] => destruct x; simpl in E; try discriminate E
         end; try (inversion E; reflexivity).
Qed.

Lemma mapM_rt_eq : forall (l : list cexpr0) (l' : list cexpr) v,
    Forall (fun e0 => forall e, cspecial v e0 = Ok e -> rt_dupe e = rt_dupe (unparen_c e0)) l ->
    mapM (cspecial v) l = Ok l' -> mapM rt_dupe l' = mapM rt_dupe (map unparen_c l).
Proof.
  intros l l' v HF Em. apply mapM_Forall2 in Em. revert HF. induction Em as [|c0 c l l' Ec _ IH]; intro HF; [reflexivity|].
  inversion HF as [|x xs Hc Hl]; subst. simpl. rewrite (Hc c Ec), (IH Hl). reflexivity.
Qed.

Lemma cspecial_rt : forall v e0 e, cspecial v e0 = Ok e -> rt_dupe e = rt_dupe (unparen_c e0).
Proof.
  intros v. induction e0 using cexpr0_ind'; intros e E; simpl in E.
  - apply bind_ok in E. destruct E as [a' [Ea E]]. inversion E; subst e. simpl. rewrite (special_atom_type v a a' Ea). reflexivity.
  - apply bind_ok in E. destruct E as [l' [El E]]. inversion E; subst e. simpl. rewrite (mapM_rt_eq l l' v H El). reflexivity.
  - apply bind_ok in E. destruct E as [l' [El E]]. inversion E; subst e. simpl. rewrite (mapM_rt_eq l l' v H El). reflexivity.
  - simpl. apply IHe0. exact E.
Qed.

Definition validb (e : cexpr) : bool := match rt_dupe e with Ok (Some _) => true | _ => false end.

Lemma validb_valid : forall e, validb e = true -> valid e.
Proof. intros e E. unfold validb in E. destruct (rt_dupe e) as [[ts|]|] eqn:Er; try discriminate. exists ts. exact Er. Qed.

(* every [ ... ] of the pattern holds a comparison expression the constructors accept *)
Fixpoint valid_o (p : oexpr0) : bool :=
  match p with
  | Obs0 c => validb (unparen_c c)
  | OAnd0 l => forallb valid_o l
  | OOr0 l => forallb valid_o l
  | OFby0 l => forallb valid_o l
  | OQual0 e _ => valid_o e
  | OParen0 e => valid_o e
  end.

Lemma cnormalize_valid_err : forall fuel c e,
    validb (unparen_c c) = true -> cnormalize repaired fuel c = Err e -> e = EFuel.
Proof.
  intros fuel c e Hv E. apply validb_valid in Hv. unfold cnormalize in E.
  destruct (cspecial_repaired_ok c) as [c1 E1]. rewrite E1 in E. simpl in E.
  assert (V1 : valid c1) by (destruct Hv as [ts Ets]; exists ts; rewrite (cspecial_rt _ _ _ E1); exact Ets).
  apply bind_err in E. destruct E as [E|[[c2 ch2] [E2 E]]]; [apply (settle_err csimplify _ _ _ _ E)|].
  pose proof (csettle_valid _ _ _ _ E2 V1) as V2.
  pose proof (cdnf_valid fuel c2 V2) as G3.
  apply bind_err in E. destruct E as [E|[[c3 ch3] [E3 E]]]; [rewrite E in G3; exact G3|].
  apply bind_err in E. destruct E as [E|[[c4 ch4] [_ E]]]; [apply (settle_err csimplify _ _ _ _ E) | discriminate].
Qed.

Lemma onormcmp_valid_err : forall fuel p e, valid_o p = true -> onormcmp repaired fuel p = Err e -> e = EFuel.
Proof.
  intros fuel. induction p using oexpr0_ind'; intros e Hv E; simpl in E, Hv.
  - apply bind_err in E. destruct E as [E|[[c' ch] [_ E]]]; [apply (cnormalize_valid_err _ _ _ Hv E) | discriminate].
  - apply bind_err in E. destruct E as [E|[rs [_ E]]]; [|discriminate].
    apply mapM_err in E. destruct E as [x [Hx Ex]]. rewrite Forall_forall in H. rewrite forallb_forall in Hv. apply (H x Hx e (Hv x Hx) Ex).
  - apply bind_err in E. destruct E as [E|[rs [_ E]]]; [|discriminate].
    apply mapM_err in E. destruct E as [x [Hx Ex]]. rewrite Forall_forall in H. rewrite forallb_forall in Hv. apply (H x Hx e (Hv x Hx) Ex).
  - apply bind_err in E. destruct E as [E|[rs [_ E]]]; [|discriminate].
    apply mapM_err in E. destruct E as [x [Hx Ex]]. rewrite Forall_forall in H. rewrite forallb_forall in Hv. apply (H x Hx e (Hv x Hx) Ex).
  - apply bind_err in E. destruct E as [E|[[r c] [_ E]]]; [apply (IHp e Hv E) | discriminate].
  - apply bind_err in E. destruct E as [E|[[r c] [_ E]]]; [apply (IHp e Hv E) | discriminate].
Qed.

Lemma onormalize_valid_err : forall fuel p e, valid_o p = true -> onormalize repaired fuel p = Err e -> e = EFuel.
Proof.
  intros fuel p e Hv E. unfold onormalize in E.
  apply bind_err in E. destruct E as [E|[[e0 c0] [_ E]]]; [apply (onormcmp_valid_err _ _ _ Hv E)|].
  apply bind_err in E. destruct E as [E|[[e1 c1] [_ E]]]; [apply (settle_err osimplify _ _ _ _ E)|].
  apply bind_err in E. destruct E as [E|[[e2 c2] [_ E]]]; [apply (odnf_err _ _ _ E)|].
  apply bind_err in E. destruct E as [E|[[e3 c3] [_ E]]]; [apply (settle_err osimplify _ _ _ _ E) | discriminate].
Qed.

(* equiv_never_raises, up to termination: on patterns the constructors accept, the repaired
   equivalence test can only fail by running out of fuel *)
Theorem equiv_valid_err : forall fuel p q e,
    valid_o p = true -> valid_o q = true -> equiv repaired fuel p q = Err e -> e = EFuel.
Proof.
  intros fuel p q e Vp Vq E. unfold equiv in E.
  apply bind_err in E. destruct E as [E|[n1 [_ E]]]; [apply (onormalize_valid_err _ _ _ Vp E)|].
  apply bind_err in E. destruct E as [E|[n2 [_ E]]]; [apply (onormalize_valid_err _ _ _ Vq E) | discriminate].
Qed.

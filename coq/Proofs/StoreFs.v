(* Proofs/StoreFs.v -- the filesystem store refines the plain list, by
   induction over every history of additions (property C11), including the
   search optimiser of query() for `=` filters on type and id.               *)
From Coq Require Import NArith ZArith List Bool Lia Permutation.
From V Require Import Base.UString Model.Store Model.StoreRun Spec.StoreSpec Proofs.StoreBase Proofs.StoreMem.
Import ListNotations.
Open Scope list_scope.

(* ---------- list facts ---------- *)
Lemma filter_partition_perm : forall {A} (g : A -> bool) (l : list A),
  Permutation (filter g l ++ filter (fun x => negb (g x)) l) l.
Proof.
  induction l as [|a l IH]; simpl; auto.
  destruct (g a); simpl.
  - constructor. auto.
  - apply Permutation_sym. apply Permutation_cons_app. apply Permutation_sym. auto.
Qed.

Lemma filter_map_comm : forall {A B} (f : A -> B) (g : B -> bool) (l : list A),
  map f (filter (fun x => g (f x)) l) = filter g (map f l).
Proof. induction l as [|a l IH]; simpl; auto. destruct (g (f a)); simpl; congruence. Qed.

(* ---------- the search optimiser ---------- *)
Lemma allowed_update : forall a v w, allowed a v = true -> v = w -> allowed (update_allow a w) v = true.
Proof.
  intros [l|] v w H E; subst; simpl in *.
  - apply existsb_exists in H. destruct H as [x [H1 H2]]. apply s_eqb_eq in H2. subst x.
    apply existsb_exists. exists w. split; [|apply s_eqb_refl].
    apply filter_In. split; auto. apply s_eqb_refl.
  - rewrite s_eqb_refl. reflexivity.
Qed.

Lemma opt_step_sound : forall o acc f, type_of_id (oid o) = otype o ->
  sholds f o = true -> allowed (fst acc) (otype o) = true /\ allowed (snd acc) (oid o) = true ->
  allowed (fst (opt_step acc f)) (otype o) = true /\ allowed (snd (opt_step acc f)) (oid o) = true.
Proof.
  intros o [ats ais] f Ht Hf [H1 H2]. destruct f; simpl in *; auto.
  - apply s_eqb_eq in Hf. split; auto. apply allowed_update; auto.
  - apply s_eqb_eq in Hf. split; apply allowed_update; auto. congruence.
Qed.

Lemma fold_opt_sound : forall o fl acc, type_of_id (oid o) = otype o ->
  all_hold fl o = true -> allowed (fst acc) (otype o) = true /\ allowed (snd acc) (oid o) = true ->
  allowed (fst (fold_left opt_step fl acc)) (otype o) = true /\
  allowed (snd (fold_left opt_step fl acc)) (oid o) = true.
Proof.
  intros o fl. induction fl as [|f r IH]; intros acc Ht Ha Hacc; simpl; auto.
  unfold all_hold in Ha. simpl in Ha. apply andb_true_iff in Ha. destruct Ha as [Hf Hr].
  apply IH; auto. apply opt_step_sound; auto.
Qed.

Lemma find_opts_sound : forall o fl, type_of_id (oid o) = otype o -> all_hold fl o = true ->
  allowed (fst (find_opts fl)) (otype o) = true /\ allowed (snd (find_opts fl)) (oid o) = true.
Proof.
  intros o fl Ht Ha. unfold find_opts.
  destruct (fold_opt_sound o fl (None, None) Ht Ha (conj eq_refl eq_refl)) as [H1 H2].
  destruct (fold_left opt_step fl (None, None)) as [ats ais]. simpl in H1, H2.
  destruct ats as [ts|]; destruct ais as [ids|]; simpl; auto.
  simpl in H1, H2.
  apply existsb_exists in H1. destruct H1 as [t [T1 T2]]. apply s_eqb_eq in T2. subst t.
  apply existsb_exists in H2. destruct H2 as [i [I1 I2]]. apply s_eqb_eq in I2. subst i.
  assert (In (otype o) (filter (fun t => existsb (fun i => ustr_eqb (type_of_id i) t) ids) ts)) as Hts.
  { apply filter_In. split; auto. apply existsb_exists. exists (oid o). split; auto. rewrite Ht. apply s_eqb_refl. }
  split.
  - apply existsb_exists. exists (otype o). split; auto. apply s_eqb_refl.
  - apply existsb_exists. exists (oid o). split; [|apply s_eqb_refl].
    apply filter_In. split; auto. apply existsb_exists. exists (otype o). split; auto. rewrite Ht. apply s_eqb_refl.
Qed.

Section Fs.
  Variable mode : text_mode.
  Variable iot : ustring -> option Z.
  Variable ts2fn : Z -> ustring.
  Hypothesis ts2fn_inj : forall a b, ts2fn a = ts2fn b -> a = b.

  Notation nrm := (norm_obj mode iot).
  Notation fadd1 := (fs_add1 mode iot ts2fn).
  Notation frun := (fs_run mode iot ts2fn).
  Notation fpath := (fs_path iot ts2fn).

  (* the filesystem theorems' domain: as for memory, and the id starts with the
     type; a versioned id has the shape the directory detection looks for *)
  Definition fs_ok (o : obj) : Prop :=
    clean o /\ type_of_id (oid o) = otype o /\ (omod o <> VNone -> id_like (otype o) (oid o) = true).

  Lemma aware_clean : forall o, clean o -> aware_obj o = o.
  Proof.
    intros o [H1 H2]. destruct o as [i t m c p ps]. unfold aware_obj. simpl in *.
    destruct m; destruct c; simpl in *; try contradiction; reflexivity.
  Qed.

  Definition file_of (o : obj) : fsfile :=
    match omod o with
    | VInst t => mkFile (otype o) (Some (oid o)) (ts2fn t) o
    | _ => mkFile (otype o) None (oid o) o
    end.

  Definition path_of (f : fsfile) := (ftype f, fdir f, fname f).

  Definition FsInv (L : list obj) (s : fs) : Prop :=
    (forall f, In f s -> In (fobj f) L /\ f = file_of (fobj f) /\ fs_ok (fobj f)) /\
    (forall o, In o L -> exists f, In f s /\ vkey_of (fobj f) = vkey_of o) /\
    NoDup (map path_of s).

  Lemma path_of_file_inj : forall a b, fs_ok a -> fs_ok b ->
    path_of (file_of a) = path_of (file_of b) -> vkey_of a = vkey_of b.
  Proof.
    intros a b [[Ha _] _] [[Hb _] _] E. unfold file_of, path_of, vkey_of in *.
    destruct (omod a) eqn:Ea; try (exfalso; exact Ha); destruct (omod b) eqn:Eb; try (exfalso; exact Hb);
      simpl in E; inversion E; subst; auto.
    apply ts2fn_inj in H2. subst. congruence.
  Qed.

  Lemma same_path_iff : forall t d n f, same_path t d n f = true <-> path_of f = (t, d, n).
  Proof.
    intros t d n f. unfold same_path, path_of. rewrite !andb_true_iff, !s_eqb_eq.
    assert (opt_ustr_eqb (fdir f) d = true <-> fdir f = d) as Ho.
    { destruct (fdir f), d; simpl; try rewrite s_eqb_eq; split; intros; try congruence; auto. }
    rewrite Ho. split; [intros [[A B] C]; congruence | intros E; inversion E; auto].
  Qed.

  Lemma fs_path_clean : forall o, clean o -> fpath o = Ok (path_of (file_of o)).
  Proof.
    intros o [H _]. unfold fs_path, file_of, path_of. destruct (omod o); simpl in *; try contradiction; reflexivity.
  Qed.

  (* one addition either stores a new version, or is refused because that
     version is already there (state unchanged); nothing else *)
  Lemma fadd1_step : forall L s o, FsInv L s -> fs_ok o ->
    (fadd1 o s = (s ++ [file_of o], None) /\ (forall o', In o' L -> vkey_of o' <> vkey_of o) /\ FsInv (L ++ [o]) (s ++ [file_of o])) \/
    (fadd1 o s = (s, Some EOverwrite) /\ (exists o', In o' L /\ vkey_of o' = vkey_of o) /\ FsInv (L ++ [o]) s).
  Proof.
    intros L s o [I1 [I2 I3]] Ho. pose proof Ho as [Cl [Ht Hid]].
    unfold fs_add1. rewrite (nrm_clean _ _ _ Cl), (fs_path_clean _ Cl), (aware_clean _ Cl).
    unfold path_of. cbv beta iota.
    assert ({| ftype := ftype (file_of o); fdir := fdir (file_of o); fname := fname (file_of o); fobj := o |} = file_of o) as Eta.
    { unfold file_of. destruct (omod o); reflexivity. }
    rewrite Eta. clear Eta.
    destruct (existsb (same_path (ftype (file_of o)) (fdir (file_of o)) (fname (file_of o))) s) eqn:Ex.
    - right. apply existsb_exists in Ex. destruct Ex as [f [F1 F2]]. apply same_path_iff in F2.
      destruct (I1 _ F1) as [G1 [G2 G3]].
      assert (vkey_of (fobj f) = vkey_of o) as Ev.
      { apply path_of_file_inj; auto. rewrite <- G2. exact F2. }
      split; [reflexivity|]. split; [eauto|].
      split; [|split]; auto.
      + intros f' Hf'. destruct (I1 _ Hf') as [A [B C]]. split; auto. apply in_or_app. auto.
      + intros o' Ho'. apply in_app_or in Ho'. destruct Ho' as [Ho'|[Ho'|[]]]; auto.
        subst o'. eauto.
    - left.
      assert (forall o', In o' L -> vkey_of o' <> vkey_of o) as Hnew.
      { intros o' Ho' E. destruct (I2 _ Ho') as [f [F1 F2]].
        destruct (I1 _ F1) as [G1 [G2 G3]].
        assert (existsb (same_path (ftype (file_of o)) (fdir (file_of o)) (fname (file_of o))) s = true) as Ex'; [|congruence].
        apply existsb_exists. exists f. split; auto. apply same_path_iff.
        rewrite G2. fold (path_of (file_of o)).
        (* same version and, through the id prefix, same type: same path *)
        rewrite <- F2 in E. unfold vkey_of in E. inversion E as [[E1 E2]].
        destruct G3 as [_ [Gt _]].
        unfold file_of, path_of. rewrite E2. rewrite <- Gt, <- Ht, E1. destruct (omod o); reflexivity. }
      split; [reflexivity|]. split; auto.
      split; [|split].
      + intros f Hf. apply in_app_or in Hf. destruct Hf as [Hf|[Hf|[]]].
        * destruct (I1 _ Hf) as [A [B C]]. split; auto. apply in_or_app. auto.
        * subst f. assert (fobj (file_of o) = o) as E by (unfold file_of; destruct (omod o); reflexivity).
          rewrite E. split; [apply in_or_app; simpl; auto|]. split; auto.
      + intros o' Ho'. apply in_app_or in Ho'. destruct Ho' as [Ho'|[Ho'|[]]].
        * destruct (I2 _ Ho') as [f [F1 F2]]. exists f. split; auto. apply in_or_app. auto.
        * subst o'. exists (file_of o). split; [apply in_or_app; simpl; auto|].
          unfold file_of; destruct (omod o); reflexivity.
      + rewrite map_app. simpl. apply NoDup_snoc; auto.
        intros Hin. apply in_map_iff in Hin. destruct Hin as [f [F1 F2]].
        assert (existsb (same_path (ftype (file_of o)) (fdir (file_of o)) (fname (file_of o))) s = true) as Ex'; [|congruence].
        apply existsb_exists. exists f. split; auto. apply same_path_iff. exact F1.
  Qed.

  Lemma frun_snoc : forall L o, frun (L ++ [o]) = fst (fadd1 o (frun L)).
  Proof. intros. unfold fs_run. rewrite fold_left_app. reflexivity. Qed.

  Lemma FsInv_nil : FsInv [] [].
  Proof. split; [|split]; simpl; try constructor; intros; contradiction. Qed.

  Lemma frun_inv : forall L, Forall fs_ok L -> FsInv L (frun L).
  Proof.
    intros L. induction L as [|o L IH] using rev_ind; intros F.
    - apply FsInv_nil.
    - apply Forall_app in F. destruct F as [F1 F2]. inversion F2; subst.
      rewrite frun_snoc.
      destruct (fadd1_step _ _ _ (IH F1) H1) as [[E [_ I]]|[E [_ I]]]; rewrite E; exact I.
  Qed.

  (* every call's outcome: stored, or refused as a re-addition *)
  Lemma fs_outcomes_ok : forall L, Forall fs_ok L ->
    Forall (fun e => e = None \/ e = Some EOverwrite) (fs_outcomes mode iot ts2fn L []).
  Proof.
    intros L. induction L as [|o L IH] using rev_ind; intros F.
    - constructor.
    - apply Forall_app in F. destruct F as [F1 F2]. inversion F2; subst.
      assert (forall L0 s0, fs_outcomes mode iot ts2fn (L0 ++ [o]) s0 =
              fs_outcomes mode iot ts2fn L0 s0 ++ [snd (fadd1 o (fold_left (fadd mode iot ts2fn) L0 s0))]) as Hs.
      { induction L0 as [|a r IHr]; intros s0; simpl; auto. rewrite IHr. reflexivity. }
      rewrite Hs. apply Forall_app. split; auto. constructor; [|constructor].
      fold (frun L).
      destruct (fadd1_step _ _ _ (frun_inv _ F1) H1) as [[E _]|[E _]]; rewrite E; simpl; auto.
  Qed.

  (* ---------- reading ---------- *)
  Lemma visited_stored : forall L s fl f, FsInv L s -> In f s -> all_hold fl (fobj f) = true ->
    visited (fst (find_opts fl)) (snd (find_opts fl)) s f = true.
  Proof.
    intros L s fl f [I1 _] Hf Ha. destruct (I1 _ Hf) as [_ [Ef [Cl [Ht Hid]]]].
    destruct (find_opts_sound _ _ Ht Ha) as [A1 A2].
    set (o := fobj f) in *.
    assert (ftype f = ftype (file_of o) /\ fdir f = fdir (file_of o) /\ fname f = fname (file_of o)) as [E1 [E2 E3]].
    { rewrite <- Ef. auto. }
    unfold visited. rewrite E1, E2, E3.
    unfold file_of. destruct (omod o) eqn:Em; simpl; rewrite A1; simpl; auto.
    rewrite A2, andb_true_r. unfold is_versioned_dir. apply existsb_exists. exists f. split; auto.
    rewrite E1, E2. unfold file_of. rewrite Em. simpl. rewrite s_eqb_refl. simpl.
    apply Hid. discriminate.
  Qed.

  Lemma fs_query_perm : forall L s fl, FsInv L s ->
    Permutation (fs_query fl s) (filter (all_hold fl) (map fobj s)).
  Proof.
    intros L s fl I. unfold fs_query.
    destruct (find_opts fl) as [ats ais] eqn:Eo.
    set (hit := filter (fun f => visited ats ais s f && all_hold fl (fobj f)) s).
    assert (hit = filter (fun f => all_hold fl (fobj f)) s) as Eh.
    { unfold hit. apply filter_ext_in. intros f Hf.
      destruct (all_hold fl (fobj f)) eqn:Ea; [|apply andb_false_r].
      pose proof (visited_stored _ _ _ _ I Hf Ea) as Hv. rewrite Eo in Hv. simpl in Hv. rewrite Hv. reflexivity. }
    rewrite <- filter_map_comm. rewrite <- Eh.
    apply Permutation_map. apply filter_partition_perm.
  Qed.

  Lemma In_fs_query : forall L s fl o, FsInv L s ->
    (In o (fs_query fl s) <-> In o (map fobj s) /\ all_hold fl o = true).
  Proof.
    intros L s fl o I. rewrite <- filter_In. split; apply Permutation_in.
    - eapply fs_query_perm; eauto.
    - apply Permutation_sym. eapply fs_query_perm; eauto.
  Qed.

  Lemma stored_sound : forall L s o, FsInv L s -> In o (map fobj s) -> In o L /\ fs_ok o.
  Proof.
    intros L s o [I1 _] H. apply in_map_iff in H. destruct H as [f [E H]]. subst. destruct (I1 _ H) as [A [_ B]]. auto.
  Qed.

  Lemma stored_distinct : forall L s, FsInv L s -> NoDup (map vkey_of (map fobj s)).
  Proof.
    intros L s [I1 [_ I3]]. induction s as [|f s IH]; simpl; [constructor|].
    simpl in I3. apply NoDup_cons_iff in I3. destruct I3 as [N1 N2].
    constructor.
    - intros H. apply in_map_iff in H. destruct H as [o [E H]]. apply in_map_iff in H. destruct H as [g [Eg Hg]]. subst o.
      apply N1. apply in_map_iff. exists g. split; auto.
      destruct (I1 g (or_intror Hg)) as [_ [G2 G3]]. destruct (I1 f (or_introl eq_refl)) as [_ [F2 F3]].
      rewrite G2, F2. unfold vkey_of in E. inversion E as [[E1 E2]].
      destruct G3 as [_ [Gt _]]. destruct F3 as [_ [Ft _]].
      unfold file_of, path_of. rewrite E2. rewrite <- Gt, <- Ft, E1. destruct (omod (fobj f)); reflexivity.
    - apply IH; auto. intros. apply I1. right. auto.
  Qed.

  Lemma all_hold_id : forall id o, all_hold [FId id] o = true <-> oid o = id.
  Proof. intros. unfold all_hold. simpl. rewrite andb_true_r. apply s_eqb_eq. Qed.

  Lemma last_max_spec : forall l best,
    (forall o, In o (best :: l) -> exists t, omod o = VInst t) ->
    exists o, last_max best l = Ok o /\ In o (best :: l) /\ forall o', In o' (best :: l) -> v_ge (omod o) (omod o').
  Proof.
    induction l as [|a l IH]; intros best H.
    - exists best. simpl. split; auto. split; auto. intros o' [E|[]]. subst.
      destruct (H o' (or_introl eq_refl)) as [t Et]. rewrite Et. simpl. lia.
    - destruct (H best (or_introl eq_refl)) as [tb Eb].
      destruct (H a (or_intror (or_introl eq_refl))) as [ta Ea].
      simpl. rewrite Eb, Ea. cbn [vgt].
      destruct (Z.ltb ta tb) eqn:El.
      + destruct (IH best) as [o [O1 [O2 O3]]].
        { intros o Ho. apply H. simpl in *. tauto. }
        exists o. split; auto. split; [simpl in *; tauto|].
        intros o' [E|[E|Hi]].
        * apply O3. simpl. auto.
        * subst o'. specialize (O3 best (or_introl eq_refl)). rewrite Eb in O3. rewrite Ea.
          destruct (omod o); simpl in *; try contradiction. apply Z.ltb_lt in El. lia.
        * apply O3. simpl. auto.
      + destruct (IH a) as [o [O1 [O2 O3]]].
        { intros o Ho. apply H. simpl in *. tauto. }
        exists o. split; auto. split; [simpl in *; tauto|].
        intros o' [E|[E|Hi]].
        * subst o'. specialize (O3 a (or_introl eq_refl)). rewrite Ea in O3. rewrite Eb.
          destruct (omod o); simpl in *; try contradiction. apply Z.ltb_ge in El. lia.
        * apply O3. simpl. auto.
        * apply O3. simpl. auto.
  Qed.

  (* lookup never raises on the domain, and what it returns *)
  Lemma fs_get_spec : forall L s id, FsInv L s -> uniform L ->
    exists x, fs_get [] id s = Ok x /\
      match x with
      | None => versions id L = []
      | Some o => In o L /\ oid o = id /\ forall o', In o' L -> oid o' = id -> v_ge (omod o) (omod o')
      end.
  Proof.
    intros L s id I U. unfold fs_get, fs_all.
    assert (forall o, In o (fs_query (FId id :: []) s) <-> In o (map fobj s) /\ oid o = id) as Hin.
    { intros o. rewrite (In_fs_query _ _ _ _ I). rewrite all_hold_id. tauto. }
    assert (forall o', In o' L -> oid o' = id -> exists o'', In o'' (fs_query [FId id] s) /\ omod o'' = omod o') as Hc.
    { intros o' H1 H2. destruct I as [J1 [J2 J3]]. destruct (J2 _ H1) as [f [F1 F2]].
      unfold vkey_of in F2. inversion F2 as [[E1 E2]].
      exists (fobj f). split; auto. apply Hin. split; [apply in_map; auto | congruence]. }
    destruct (fs_query [FId id] s) as [|o0 r] eqn:Eq.
    - exists None. split; auto.
      destruct (versions id L) as [|o' l'] eqn:Ev; auto.
      assert (In o' (versions id L)) as Hv by (rewrite Ev; simpl; auto).
      apply versions_In in Hv. destruct Hv as [H1 H2]. destruct (Hc _ H1 H2) as [o'' [[] _]].
    - assert (forall o, In o (o0 :: r) -> In o L /\ fs_ok o /\ oid o = id) as Hs.
      { intros o Ho. apply Hin in Ho. destruct Ho as [Ho1 Ho2]. destruct (stored_sound _ _ _ I Ho1). auto. }
      destruct (Hs o0 (or_introl eq_refl)) as [A0 [B0 C0]].
      destruct (omod o0) eqn:E0; try (destruct B0 as [[B0 _] _]; unfold normal in B0; rewrite E0 in B0; contradiction); cbn [is_vnone].
      + (* versioned: every version of the id has an instant *)
        assert (forall o, In o (o0 :: r) -> exists t', omod o = VInst t') as Hinst.
        { intros o Ho. destruct (Hs _ Ho) as [A [[[B _] _] C]].
          destruct (omod o) eqn:Eo; simpl in B; try contradiction; eauto.
          exfalso. assert (omod o0 = VNone) as X; [|congruence].
          apply (U o o0); auto. congruence. }
        assert (existsb (fun o => is_vnone (omod o)) r = false) as Hex.
        { destruct (existsb (fun o => is_vnone (omod o)) r) eqn:Ex; auto.
          apply existsb_exists in Ex. destruct Ex as [o [O1 O2]].
          destruct (Hinst o (or_intror O1)) as [t' Et]. rewrite Et in O2. discriminate. }
        rewrite Hex.
        destruct (last_max_spec r o0 Hinst) as [o [O1 [O2 O3]]]. rewrite O1.
        exists (Some o). split; auto. destruct (Hs _ O2) as [A [B C]]. repeat split; auto.
        intros o' H1 H2. destruct (Hc _ H1 H2) as [o'' [G1 G2]]. rewrite <- G2. apply O3. exact G1.
      + exists (Some o0). split; auto. repeat split; auto.
        intros o' H1 H2. assert (omod o' = VNone) as X.
        { apply (U o0 o'); auto. congruence. }
        rewrite X, E0. simpl. exact Logic.I.
  Qed.

  Definition fs_get_val (id : ustring) (s : fs) : option obj :=
    match fs_get [] id s with Ok x => x | Err _ => None end.

  Theorem fs_refines_inv : forall L s, FsInv L s -> uniform L ->
    refines L (fun id => fs_get_val id s) (fun id => fs_all [] id s) (map fobj s).
  Proof.
    intros L s I U.
    assert (forall id o, In o (fs_all [] id s) <-> In o (map fobj s) /\ oid o = id) as Hin.
    { intros id o. unfold fs_all. rewrite (In_fs_query _ _ _ _ I). rewrite all_hold_id. tauto. }
    constructor.
    - intros id H. unfold fs_get_val in H. destruct (fs_get_spec _ _ id I U) as [x [E S]]. rewrite E in H. subst x. exact S.
    - intros id o H. unfold fs_get_val in H. destruct (fs_get_spec _ _ id I U) as [x [E S]]. rewrite E in H. subst x. exact S.
    - intros id o H. apply Hin in H. destruct H as [H1 H2]. destruct (stored_sound _ _ _ I H1). auto.
    - intros id o H1 H2. destruct I as [J1 [J2 J3]]. destruct (J2 _ H1) as [f [F1 F2]].
      unfold vkey_of in F2. inversion F2 as [[E1 E2]].
      exists (fobj f). split; auto. apply Hin. split; [apply in_map; auto | congruence].
    - intros id. unfold fs_all.
      pose proof (fs_query_perm _ _ [FId id] I) as P.
      apply (Permutation_map omod) in P. apply Permutation_sym in P.
      eapply Permutation_NoDup; [exact P|].
      pose proof (stored_distinct _ _ I) as ND.
      (* within one id, distinct (id, version) pairs are distinct versions *)
      assert (forall l, NoDup (map vkey_of l) -> NoDup (map omod (filter (all_hold [FId id]) l))) as G.
      { induction l as [|a l IHl]; intros Hn; cbn [filter map]; [constructor|].
        cbn [map] in Hn. apply NoDup_cons_iff in Hn. destruct Hn as [N1 N2].
        destruct (all_hold [FId id] a) eqn:Ea; auto. cbn [map]. constructor; auto.
        intros Hi. apply in_map_iff in Hi. destruct Hi as [b [Eb Hb]]. apply filter_In in Hb. destruct Hb as [Hb1 Hb2].
        apply all_hold_id in Ea. apply all_hold_id in Hb2.
        apply N1. apply in_map_iff. exists b. split; auto. unfold vkey_of. congruence. }
      apply G. exact ND.
    - intros o H. destruct (stored_sound _ _ _ I H). auto.
    - intros o H. destruct I as [J1 [J2 J3]]. destruct (J2 _ H) as [f [F1 F2]]. exists (fobj f). split; auto. apply in_map. auto.
    - eapply stored_distinct; eauto.
  Qed.
End Fs.

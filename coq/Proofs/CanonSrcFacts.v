(* Proofs/CanonSrcFacts.v -- the ESCAPE_DCT table of the pinned Canonicalize.py,
   completed by its setdefault loop, denotes the model's escape_char.             *)
From Coq Require Import String NArith ZArith List Bool Lia.
From V Require Import Base.UString Base.Json Model.JcsText Model.Jcs Model.CanonSrc Proofs.JcsEscFacts.
Import ListNotations.
Open Scope N_scope.

Definition expected_escape_table : list (N * ustring) :=
  [(92, [92; 92]); (34, [92; 34]); (8, [92; 98]); (12, [92; 102]); (10, [92; 110]); (13, [92; 114]); (9, [92; 116])].

Definition expected_escape_regex : ustring := u "[\00005Cx00-\00005Cx1f\00005C\00005C\000022\00005Cb\00005Cf\00005Cn\00005Cr\00005Ct]".
Definition expected_fill_format : ustring := u "\00005Cu{0:04x}".

Lemma escape_low_table : forallb (fun c => ustr_eqb (escape_char_of expected_escape_table 32 c) (escape_char c)) below32 = true.
Proof. vm_compute. reflexivity. Qed.

Lemma expected_table_denotes_escape_char : forall c, escape_char_of expected_escape_table 32 c = escape_char c.
Proof.
  intro c. destruct (N.ltb_spec c 32) as [H|H].
  - pose proof escape_low_table as HL. rewrite forallb_forall in HL.
    apply ustr_eqb_true_eq. apply HL. apply below32_complete. exact H.
  - unfold escape_char_of, escape_char, c_bslash, c_quote.
    destruct (N.ltb_spec c 32); [lia|]. cbn [orb].
    destruct (N.eqb_spec c 92); [subst; reflexivity|]. destruct (N.eqb_spec c 34); [subst; reflexivity|].
    cbn [orb]. destruct (N.eqb_spec c 8); [lia|]. destruct (N.eqb_spec c 12); [lia|].
    destruct (N.eqb_spec c 10); [lia|]. destruct (N.eqb_spec c 13); [lia|]. destruct (N.eqb_spec c 9); [lia|].
    reflexivity.
Qed.

(* Proofs/NumToJsonSrc.v -- the program text of convert2Es6Format (as a term of
   Model/PyMini.v) computes Model.Jcs.convert2es6 on every input.  `expected` is the
   term the translator produces for the pinned source; Props/C16Src.v checks on every
   run that the regenerated term is this one.                                     *)
From Coq Require Import String NArith ZArith List Bool Lia.
From V Require Import Base.UString Base.Json Model.JcsText Model.Jcs Model.PyMini Proofs.JcsNumFacts.
Import ListNotations.
Open Scope Z_scope.

Definition expected_convert2es6 : list stmt :=
[
  If BArgZero [Return (SL (u "0"))] [];
  SSet VDouble SArgStr;
  If (BCmp CGe (IFind (SV VDouble) 110%N) (IL 0)) [RaiseValueError] [];
  SSet VSign (SL (u ""));
  If (BCmp CEq (IFind (SV VDouble) 45%N) (IL 0)) [SSet VSign (SL (u "-")); SSet VDouble (SSlice (SV VDouble) (Some (IL 1)) None)] [];
  SSet VExpStr (SL (u ""));
  ISet VExpVal (IL 0);
  ISet VQ (IFind (SV VDouble) 101%N);
  If (BCmp CGt (IV VQ) (IL 0)) [SSet VExpStr (SSlice (SV VDouble) (Some (IV VQ)) None); If (BStrEq (SSlice (SV VExpStr) (Some (IL 2)) (Some (IL 3))) (SL (u "0"))) [SSet VExpStr (SCat (SSlice (SV VExpStr) None (Some (IL 2))) (SSlice (SV VExpStr) (Some (IL 3)) None))] []; SSet VDouble (SSlice (SV VDouble) (Some (IL 0)) (Some (IV VQ))); ISet VExpVal (IInt (SSlice (SV VExpStr) (Some (IL 1)) None))] [];
  SSet VFirst (SV VDouble);
  SSet VDot (SL (u ""));
  SSet VLast (SL (u ""));
  ISet VQ (IFind (SV VDouble) 46%N);
  If (BCmp CGt (IV VQ) (IL 0)) [SSet VDot (SL (u ".")); SSet VFirst (SSlice (SV VDouble) None (Some (IV VQ))); SSet VLast (SSlice (SV VDouble) (Some (IAdd (IV VQ) (IL 1))) None)] [];
  If (BStrEq (SV VLast) (SL (u "0"))) [SSet VDot (SL (u "")); SSet VLast (SL (u ""))] [];
  If (BAnd (BCmp CGt (IV VExpVal) (IL 0)) (BCmp CLt (IV VExpVal) (IL 21))) [SSet VFirst (SCat (SV VFirst) (SV VLast)); SSet VLast (SL (u "")); SSet VDot (SL (u "")); SSet VExpStr (SL (u "")); ISet VQ (ISub (IV VExpVal) (ILen (SV VFirst))); While (BCmp CGe (IV VQ) (IL 0)) [ISet VQ (ISub (IV VQ) (IL 1)); SSet VFirst (SCat (SV VFirst) (SL (u "0")))]] [If (BAnd (BCmp CLt (IV VExpVal) (IL 0)) (BCmp CGt (IV VExpVal) (IL (-7)))) [SSet VLast (SCat (SV VFirst) (SV VLast)); SSet VFirst (SL (u "0")); SSet VDot (SL (u ".")); SSet VExpStr (SL (u "")); ISet VQ (IV VExpVal); While (BCmp CLt (IV VQ) (IL (-1))) [ISet VQ (IAdd (IV VQ) (IL 1)); SSet VLast (SCat (SL (u "0")) (SV VLast))]] []];
  Return (SCat (SCat (SCat (SCat (SV VSign) (SV VFirst)) (SV VDot)) (SV VLast)) (SV VExpStr)) ].

(* ---- slices ------------------------------------------------------------------------------ *)
Lemma slice_from : forall (s : ustring) k, py_slice s (Some (Z.of_nat k)) None = skipn k s.
Proof.
  intros s k. unfold py_slice, norm_bound.
  assert ((Z.of_nat k <? 0) = false) as -> by (apply Z.ltb_ge; lia).
  destruct (Nat.le_gt_cases k (length s)) as [H|H].
  - replace (Z.to_nat (Z.min (Z.of_nat k) (Z.of_nat (length s)))) with k by lia.
    apply firstn_all2. rewrite skipn_length. lia.
  - replace (Z.to_nat (Z.min (Z.of_nat k) (Z.of_nat (length s)))) with (length s) by lia.
    rewrite !skipn_all2 by lia. apply firstn_nil.
Qed.

Lemma slice_mid : forall (s : ustring) a b, (a <= b)%nat ->
  py_slice s (Some (Z.of_nat a)) (Some (Z.of_nat b)) = firstn (b - a) (skipn a s).
Proof.
  intros s a b Hab. unfold py_slice, norm_bound.
  assert ((Z.of_nat a <? 0) = false) as -> by (apply Z.ltb_ge; lia).
  assert ((Z.of_nat b <? 0) = false) as -> by (apply Z.ltb_ge; lia).
  destruct (Nat.le_gt_cases b (length s)) as [H|H].
  - replace (Z.to_nat (Z.min (Z.of_nat a) (Z.of_nat (length s)))) with a by lia.
    f_equal. lia.
  - destruct (Nat.le_gt_cases a (length s)) as [H2|H2].
    + replace (Z.to_nat (Z.min (Z.of_nat a) (Z.of_nat (length s)))) with a by lia.
      rewrite !firstn_all2; [reflexivity| |]; rewrite skipn_length; lia.
    + replace (Z.to_nat (Z.min (Z.of_nat a) (Z.of_nat (length s)))) with (length s) by lia.
      rewrite !skipn_all2 by lia. rewrite !firstn_nil. reflexivity.
Qed.

Lemma slice_to : forall (s : ustring) b, py_slice s None (Some (Z.of_nat b)) = firstn b s.
Proof.
  intros s b. unfold py_slice, norm_bound.
  assert ((Z.of_nat b <? 0) = false) as -> by (apply Z.ltb_ge; lia).
  simpl skipn. destruct (Nat.le_gt_cases b (length s)) as [H|H].
  - f_equal. lia.
  - rewrite !firstn_all2; [reflexivity|lia|lia].
Qed.

Lemma slice_2_3 : forall s : ustring, py_slice s (Some 2) (Some 3) = firstn 1 (skipn 2 s).
Proof. intro s. exact (slice_mid s 2 3 ltac:(lia)). Qed.
Lemma slice_to_2 : forall s : ustring, py_slice s None (Some 2) = firstn 2 s.
Proof. intro s. exact (slice_to s 2). Qed.
Lemma slice_from_3 : forall s : ustring, py_slice s (Some 3) None = skipn 3 s.
Proof. intro s. exact (slice_from s 3). Qed.
Lemma slice_from_1 : forall s : ustring, py_slice s (Some 1) None = skipn 1 s.
Proof. intro s. exact (slice_from s 1). Qed.
Lemma slice_0_to : forall (s : ustring) k, py_slice s (Some 0) (Some (Z.of_nat k)) = firstn k s.
Proof. intros s k. change 0 with (Z.of_nat 0). rewrite (slice_mid s 0 k ltac:(lia)). rewrite Nat.sub_0_r. reflexivity. Qed.

Lemma find_z_cases : forall c d,
  (exists q, find_idx c d = Some (S q) /\ find_z c d = Z.of_nat (S q) /\ (0 <? find_z c d) = true) \/
  ((find_idx c d = Some O \/ find_idx c d = None) /\ (0 <? find_z c d) = false).
Proof.
  intros c d. unfold find_z. destruct (find_idx c d) as [[|q]|].
  - right. split; [left; reflexivity|reflexivity].
  - left. exists q. split; [reflexivity|]. split; [reflexivity|]. apply Z.ltb_lt. lia.
  - right. split; [right; reflexivity|reflexivity].
Qed.

(* ---- unfolding the interpreter ----------------------------------------------------------------- *)
Section Run.
  Variable arg : ustring.

  Fixpoint wloop (b : bexpr) (body : list stmt) (n : nat) (s : st) : outcome :=
    match n with
    | O => NoFuel
    | S n' => match eval_b arg s b with
              | Some true => match exec arg body s with Normal s' => wloop b body n' s' | o => o end
              | Some false => Normal s
              | None => Raised
              end
    end.

  Lemma exec_If : forall b t e r s,
    exec arg (If b t e :: r) s =
    match (match eval_b arg s b with Some true => exec arg t s | Some false => exec arg e s | None => Raised end) with
    | Normal s' => exec arg r s'
    | o => o
    end.
  Proof. reflexivity. Qed.

  Lemma exec_stmt_While : forall b body s, exec_stmt arg (While b body) s = wloop b body loop_bound s.
  Proof. reflexivity. Qed.

  Lemma exec_While : forall b body r s,
    exec arg (While b body :: r) s = match wloop b body loop_bound s with Normal s' => exec arg r s' | o => o end.
  Proof. reflexivity. Qed.
End Run.

Section Blocks.
  Variable arg : ustring.

  Lemma exec_app : forall a b s,
    exec arg (a ++ b) s = match exec arg a s with Normal s' => exec arg b s' | o => o end.
  Proof.
    induction a as [|c a IH]; intros b s; [reflexivity|].
    simpl. destruct (exec_stmt arg c s); try reflexivity. apply IH.
  Qed.

  Definition B_zero : list stmt := [If BArgZero [Return (SL (u "0"))] []].
  Definition B_nan : list stmt :=
    [SSet VDouble SArgStr; If (BCmp CGe (IFind (SV VDouble) 110%N) (IL 0)) [RaiseValueError] []].
  Definition B_sign : list stmt :=
    [SSet VSign (SL (u ""));
     If (BCmp CEq (IFind (SV VDouble) 45%N) (IL 0)) [SSet VSign (SL (u "-")); SSet VDouble (SSlice (SV VDouble) (Some (IL 1)) None)] []].

  Ltac norm_slices :=
    repeat match goal with
    | |- context [py_slice ?d (Some (Z.of_nat ?k)) None] => rewrite (slice_from d k)
    | |- context [py_slice ?d None (Some (Z.of_nat ?k))] => rewrite (slice_to d k)
    end.

  Lemma L_sign : forall s,
    exec arg B_sign s =
    Normal (sset (sset s VSign (fst (split_sign (vDouble s)))) VDouble (snd (split_sign (vDouble s)))).
  Proof.
    intro s. unfold B_sign. cbn. unfold split_sign, find_z, c_minus.
    destruct (find_idx 45%N (vDouble s)) as [[|n]|]; cbn; try reflexivity.
    change 1 with (Z.of_nat 1). rewrite slice_from. reflexivity.
  Qed.

  Definition B_exp : list stmt :=
    [SSet VExpStr (SL (u "")); ISet VExpVal (IL 0); ISet VQ (IFind (SV VDouble) 101%N);
     If (BCmp CGt (IV VQ) (IL 0))
        [SSet VExpStr (SSlice (SV VDouble) (Some (IV VQ)) None);
         If (BStrEq (SSlice (SV VExpStr) (Some (IL 2)) (Some (IL 3))) (SL (u "0")))
            [SSet VExpStr (SCat (SSlice (SV VExpStr) None (Some (IL 2))) (SSlice (SV VExpStr) (Some (IL 3)) None))] [];
         SSet VDouble (SSlice (SV VDouble) (Some (IL 0)) (Some (IV VQ)));
         ISet VExpVal (IInt (SSlice (SV VExpStr) (Some (IL 1)) None))] []].

  Lemma L_exp : forall s,
    exec arg B_exp s =
    match split_exp (vDouble s) with
    | JOk (es, d, v) => Normal (iset (iset (sset (sset s VExpStr es) VDouble d) VExpVal v) VQ (find_z c_e (vDouble s)))
    | JRaise _ => Raised
    end.
  Proof.
    intro s. unfold B_exp. cbn -[find_z py_slice py_int firstn skipn Z.of_nat ustr_eqb Z.ltb].
    unfold split_exp, c_e.
    destruct (find_z_cases 101%N (vDouble s)) as [[q [F [Z1 Z2]]]|[F Z2]]; rewrite Z2.
    - rewrite F. rewrite Z1. rewrite slice_from, slice_2_3, slice_to_2, slice_from_3.
      unfold strip_exp_zero, c_0.
      destruct (ustr_eqb (firstn 1 (skipn 2 (skipn (S q) (vDouble s)))) [48%N]);
        cbn -[find_z py_slice py_int firstn skipn Z.of_nat ustr_eqb Z.ltb];
        rewrite slice_from_1, slice_0_to;
        match goal with |- context [py_int ?x] => destruct (py_int x) end; reflexivity.
    - destruct F as [F|F]; rewrite F; reflexivity.
  Qed.

  Definition B_dot : list stmt :=
    [SSet VFirst (SV VDouble); SSet VDot (SL (u "")); SSet VLast (SL (u "")); ISet VQ (IFind (SV VDouble) 46%N);
     If (BCmp CGt (IV VQ) (IL 0))
        [SSet VDot (SL (u ".")); SSet VFirst (SSlice (SV VDouble) None (Some (IV VQ)));
         SSet VLast (SSlice (SV VDouble) (Some (IAdd (IV VQ) (IL 1))) None)] []].

  Lemma L_dot : forall s,
    exec arg B_dot s =
    Normal (let '(f, d, l) := split_dot (vDouble s) in
            iset (sset (sset (sset s VFirst f) VDot d) VLast l) VQ (find_z c_dot (vDouble s))).
  Proof.
    intro s. unfold B_dot. cbn -[find_z py_slice py_int firstn skipn Z.of_nat ustr_eqb Z.ltb Z.add].
    unfold split_dot, c_dot.
    destruct (find_z_cases 46%N (vDouble s)) as [[q [F [Z1 Z2]]]|[F Z2]]; rewrite Z2.
    - rewrite F. rewrite Z1. replace (Z.of_nat (S q) + 1) with (Z.of_nat (S (S q))) by lia.
      rewrite slice_to, slice_from. reflexivity.
    - destruct F as [F|F]; rewrite F; reflexivity.
  Qed.

  Definition B_strip : list stmt := [If (BStrEq (SV VLast) (SL (u "0"))) [SSet VDot (SL (u "")); SSet VLast (SL (u ""))] []].

  Lemma L_strip : forall s,
    exec arg B_strip s =
    Normal (let '(f, d, l) := strip_dot0 (vFirst s, vDot s, vLast s) in sset (sset (sset s VFirst f) VDot d) VLast l).
  Proof.
    intro s. unfold B_strip, strip_dot0, c_0. cbn -[ustr_eqb].
    destruct (ustr_eqb (vLast s) [48%N]); destruct s; reflexivity.
  Qed.

  (* ---- the two padding loops ------------------------------------------------------------------- *)
  Definition cond1 : bexpr := BCmp CGe (IV VQ) (IL 0).
  Definition body1 : list stmt := [ISet VQ (ISub (IV VQ) (IL 1)); SSet VFirst (SCat (SV VFirst) (SL (u "0")))].

  Lemma wloop1 : forall k n s, Z.to_nat (vQ s + 1) = k -> (k < n)%nat ->
    wloop arg cond1 body1 n s = Normal (sset (iset s VQ (Z.min (vQ s) (-1))) VFirst (vFirst s ++ repeat c_0 k)).
  Proof.
    induction k as [|k IH]; intros n s Hk Hn; (destruct n as [|n]; [lia|]).
    - cbn -[Z.leb Z.min]. destruct (Z.leb_spec 0 (vQ s)); [exfalso; lia|].
      destruct s as [xd xs xe xf xo xl xv xq]. cbn -[Z.min] in *. rewrite List.app_nil_r. f_equal. f_equal. lia.
    - cbn -[Z.leb Z.min Z.sub]. destruct (Z.leb_spec 0 (vQ s)); [|exfalso; lia].
      rewrite IH; [|cbn -[Z.add Z.sub Z.to_nat]; lia|lia]. destruct s as [xd xs xe xf xo xl xv xq]. cbn -[Z.min Z.sub] in *. rewrite <- List.app_assoc.
      f_equal. f_equal. lia.
  Qed.

  Definition cond2 : bexpr := BCmp CLt (IV VQ) (IL (-1)).
  Definition body2 : list stmt := [ISet VQ (IAdd (IV VQ) (IL 1)); SSet VLast (SCat (SL (u "0")) (SV VLast))].

  Lemma repeat_snoc : forall (x : N) k l, repeat x k ++ x :: l = x :: repeat x k ++ l.
  Proof. induction k; intro l; simpl; [reflexivity|]. rewrite IHk. reflexivity. Qed.

  Lemma wloop2 : forall k n s, Z.to_nat (-1 - vQ s) = k -> (k < n)%nat ->
    wloop arg cond2 body2 n s = Normal (sset (iset s VQ (Z.max (vQ s) (-1))) VLast (repeat c_0 k ++ vLast s)).
  Proof.
    induction k as [|k IH]; intros n s Hk Hn; (destruct n as [|n]; [lia|]).
    - cbn -[Z.ltb Z.max]. destruct (Z.ltb_spec (vQ s) (-1)); [exfalso; lia|].
      destruct s as [xd xs xe xf xo xl xv xq]. cbn -[Z.max] in *. f_equal. f_equal. lia.
    - cbn -[Z.ltb Z.max Z.add]. destruct (Z.ltb_spec (vQ s) (-1)); [|exfalso; lia].
      rewrite IH; [|cbn -[Z.add Z.sub Z.to_nat]; lia|lia]. destruct s as [xd xs xe xf xo xl xv xq]. cbn -[Z.max Z.add] in *.
      change ([48%N] ++ xl) with (c_0 :: xl). rewrite repeat_snoc.
      f_equal. f_equal. lia.
  Qed.

  Definition B_asm : list stmt :=
    [If (BAnd (BCmp CGt (IV VExpVal) (IL 0)) (BCmp CLt (IV VExpVal) (IL 21)))
        [SSet VFirst (SCat (SV VFirst) (SV VLast)); SSet VLast (SL (u "")); SSet VDot (SL (u "")); SSet VExpStr (SL (u ""));
         ISet VQ (ISub (IV VExpVal) (ILen (SV VFirst))); While cond1 body1]
        [If (BAnd (BCmp CLt (IV VExpVal) (IL 0)) (BCmp CGt (IV VExpVal) (IL (-7))))
            [SSet VLast (SCat (SV VFirst) (SV VLast)); SSet VFirst (SL (u "0")); SSet VDot (SL (u ".")); SSet VExpStr (SL (u ""));
             ISet VQ (IV VExpVal); While cond2 body2] []];
     Return (SCat (SCat (SCat (SCat (SV VSign) (SV VFirst)) (SV VDot)) (SV VLast)) (SV VExpStr))].

  Lemma L_asm : forall s,
    exec arg B_asm s = Returned (assemble (vSign s) (vFirst s) (vDot s) (vLast s) (vExpStr s) (vExpVal s)).
  Proof.
    intro s. unfold B_asm, assemble.
    remember (While cond1 body1) as W1 eqn:EW1. remember (While cond2 body2) as W2 eqn:EW2.
    cbn -[Z.ltb Z.sub]. destruct ((0 <? vExpVal s) && (vExpVal s <? 21)) eqn:C1.
    - apply andb_true_iff in C1. destruct C1 as [C1 C2]. rewrite C1, C2.
      subst W1. rewrite exec_stmt_While.
      rewrite (wloop1 (Z.to_nat (vExpVal s - Z.of_nat (length (vFirst s ++ vLast s)) + 1)));
        [|reflexivity|cbn -[Z.sub]; apply Z.ltb_lt in C2; unfold loop_bound; lia].
      cbn. rewrite !List.app_nil_r. rewrite <- !List.app_assoc. reflexivity.
    - destruct (0 <? vExpVal s) eqn:D1; simpl in C1; [rewrite C1|];
      (destruct ((vExpVal s <? 0) && (-7 <? vExpVal s)) eqn:C3;
       [ apply andb_true_iff in C3; destruct C3 as [C3 C4]; rewrite C3, C4;
         subst W2; rewrite exec_stmt_While;
         rewrite (wloop2 (Z.to_nat (- vExpVal s - 1)));
           [|cbn -[Z.sub Z.opp Z.to_nat]; f_equal; lia|apply Z.ltb_lt in C4; unfold loop_bound; lia];
         cbn; rewrite !List.app_nil_r; rewrite <- !List.app_assoc; reflexivity
       | destruct (vExpVal s <? 0) eqn:D3; simpl in C3; [rewrite C3|]; cbn; rewrite <- ?List.app_assoc; reflexivity ]).
  Qed.
End Blocks.

Definition outcome_of (r : jres ustring) : outcome :=
  match r with JOk t => Returned t | JRaise _ => Raised end.

Lemma expected_blocks :
  expected_convert2es6 = B_zero ++ B_nan ++ B_sign ++ B_exp ++ B_dot ++ B_strip ++ B_asm.
Proof. reflexivity. Qed.

Lemma L_zero : forall arg s, exec arg B_zero s = if is_zero_repr arg then Returned [c_0] else Normal s.
Proof. intros arg s. unfold B_zero. cbn -[is_zero_repr]. destruct (is_zero_repr arg); reflexivity. Qed.

Lemma L_nan : forall arg s,
  exec arg B_nan s = match find_idx c_n arg with Some _ => Raised | None => Normal (sset s VDouble arg) end.
Proof.
  intros arg s. unfold B_nan. cbn -[find_z Z.leb]. unfold find_z, c_n.
  destruct (find_idx 110%N arg) as [i|]; [|reflexivity].
  destruct (Z.leb_spec 0 (Z.of_nat i)); [reflexivity|exfalso; lia].
Qed.

Global Opaque B_zero B_nan B_sign B_exp B_dot B_strip B_asm.

Theorem expected_exec : forall arg, exec arg expected_convert2es6 st0 = outcome_of (convert2es6 arg).
Proof.
  intro arg. rewrite expected_blocks. unfold convert2es6.
  rewrite exec_app, L_zero. destruct (is_zero_repr arg); [reflexivity|].
  rewrite exec_app, L_nan. destruct (find_idx c_n arg) as [i|]; [reflexivity|].
  rewrite exec_app, L_sign. cbn -[exec find_z split_sign split_exp split_dot strip_dot0 assemble].
  destruct (split_sign arg) as [pySign pyDouble]. cbn -[exec find_z split_sign split_exp split_dot strip_dot0 assemble].
  rewrite exec_app, L_exp. cbn -[exec find_z split_sign split_exp split_dot strip_dot0 assemble].
  destruct (split_exp pyDouble) as [[[pyExpStr pyDouble'] pyExpVal]|e]; [|reflexivity].
  cbn -[exec find_z split_sign split_exp split_dot strip_dot0 assemble].
  rewrite exec_app, L_dot. cbn -[exec find_z split_sign split_exp split_dot strip_dot0 assemble].
  destruct (split_dot pyDouble') as [[f d] l]. cbn -[exec find_z split_sign split_exp split_dot strip_dot0 assemble].
  rewrite exec_app, L_strip. cbn -[exec find_z split_sign split_exp split_dot strip_dot0 assemble].
  destruct (strip_dot0 (f, d, l)) as [[f' d'] l']. cbn -[exec find_z split_sign split_exp split_dot strip_dot0 assemble].
  rewrite L_asm. reflexivity.
Qed.

Theorem expected_run : forall arg, run_fun arg expected_convert2es6 = convert2es6 arg.
Proof.
  intro arg. unfold run_fun. rewrite expected_exec. unfold convert2es6.
  destruct (is_zero_repr arg); [reflexivity|].
  destruct (find_idx c_n arg); [reflexivity|].
  destruct (split_sign arg) as [a b]. destruct (split_exp b) as [[[x y] z]|e] eqn:E.
  - destruct (strip_dot0 (split_dot y)) as [[p q] r]. reflexivity.
  - unfold split_exp in E. destruct (find_idx c_e b) as [[|n]|]; try discriminate.
    destruct (py_int _); [discriminate|]. inversion E. reflexivity.
Qed.

(* Proofs/C14Detect.v -- detect_spec_version recognises every shape the
   serialiser emits for version V as V (for ANY registry, any nesting depth of
   bundles), and the facts about the identifier strictness switch.            *)
From Coq Require Import NArith ZArith List String Bool.
From V Require Import Base.UString Base.Json Model.VersionDetect Model.IdCheck.
Import ListNotations.

(* ---- detect, unfolded once, with the `objects` member found by jlookup ---- *)
Section D.
Variable md : dmode.
Variable obs21 : list ustring.

Definition objs_res (m : list (ustring * jvalue)) : option dres :=
  match jlookup k_objects m with
  | None => None
  | Some (JArr []) => Some (empty_max md)
  | Some (JArr l) => Some (seq_max (map (detect md obs21) l) None)
  | Some other => Some (iter_non_list md other)
  end.

Definition detect_body (m : list (ustring * jvalue)) : dres :=
  match jlookup k_type m with
  | None => if notype_parse md then DParseError else DKeyError k_type
  | Some ty =>
    match jlookup k_spec_version m with
    | Some sv => if is_bundle_type ty then DVal (JStr v20) else DVal sv
    | None =>
      match jlookup k_id m with
      | None => DVal (JStr v20)
      | Some _ =>
        if is_bundle_type ty then
          match objs_res m with
          | None => if bundle_default md then DVal (JStr v21) else DKeyError k_objects
          | Some r => max_with_21 r
          end
        else match ty with
             | JArr _ | JObj _ => DTypeError
             | JStr t => if umem t obs21 then DVal (JStr v21) else DVal (JStr v20)
             | _ => DVal (JStr v20)
             end
      end
    end
  end.

Lemma each_map : forall l,
  (fix each (l : list jvalue) : list dres := match l with [] => [] | x :: r => detect md obs21 x :: each r end) l
  = map (detect md obs21) l.
Proof. induction l as [|x r IH]; simpl; [reflexivity|]. f_equal; try exact IH. Qed.

Lemma detect_obj : forall m, detect md obs21 (JObj m) = detect_body m.
Proof.
  intro m. unfold detect_body, objs_res. cbn [detect].
  set (find := fix find (m : list (ustring * jvalue)) : option dres := _).
  assert (forall m0, find m0 = match jlookup k_objects m0 with
                               | None => None
                               | Some (JArr []) => Some (empty_max md)
                               | Some (JArr l) => Some (seq_max (map (detect md obs21) l) None)
                               | Some other => Some (iter_non_list md other)
                               end) as Hfind.
  { induction m0 as [|[k v] rest IH]; [reflexivity|].
    cbn [find jlookup]. destruct (ustr_eqb k_objects k).
    - destruct v; try reflexivity. destruct l; [reflexivity|]. rewrite each_map. reflexivity.
    - exact IH. }
  rewrite Hfind. reflexivity.
Qed.
End D.

(* ---- the shapes the serialiser emits ---- *)
Section Shapes.
Variable md : dmode.
Variable obs21 : list ustring.

Inductive emitted : ustring -> jvalue -> Prop :=
| em_sco20 : forall m ty,                      (* 2.0 observable (inside observed-data): no id, no spec_version *)
    jlookup k_type m = Some ty -> jlookup k_spec_version m = None -> jlookup k_id m = None ->
    emitted v20 (JObj m)
| em_obj20 : forall m t i,                     (* 2.0 SDO / SRO / marking definition / registered custom object *)
    jlookup k_type m = Some (JStr t) -> ustr_eqb t s_bundle = false ->
    jlookup k_spec_version m = None -> jlookup k_id m = Some i -> umem t obs21 = false ->
    emitted v20 (JObj m)
| em_bundle20 : forall m sv,                   (* 2.0 bundle: carries spec_version *)
    jlookup k_type m = Some (JStr s_bundle) -> jlookup k_spec_version m = Some sv ->
    emitted v20 (JObj m)
| em_obj21 : forall m t,                       (* 2.1 SDO / SRO / marking / language-content / extension-definition / SCO with spec_version *)
    jlookup k_type m = Some (JStr t) -> ustr_eqb t s_bundle = false ->
    jlookup k_spec_version m = Some (JStr v21) ->
    emitted v21 (JObj m)
| em_sco21 : forall m t i,                     (* 2.1 SCO without spec_version: registered observable type, has an id *)
    jlookup k_type m = Some (JStr t) -> ustr_eqb t s_bundle = false ->
    jlookup k_spec_version m = None -> jlookup k_id m = Some i -> umem t obs21 = true ->
    emitted v21 (JObj m)
| em_bundle21 : forall m i x l,                (* 2.1 bundle with members, each itself an emitted shape *)
    jlookup k_type m = Some (JStr s_bundle) -> jlookup k_spec_version m = None -> jlookup k_id m = Some i ->
    jlookup k_objects m = Some (JArr (x :: l)) -> emitted_all (x :: l) ->
    emitted v21 (JObj m)
| em_bundle21_empty : forall m i,              (* 2.1 bundle without members: the serialiser omits `objects` *)
    jlookup k_type m = Some (JStr s_bundle) -> jlookup k_spec_version m = None -> jlookup k_id m = Some i ->
    jlookup k_objects m = None -> bundle_default md = true ->
    emitted v21 (JObj m)
with emitted_all : list jvalue -> Prop :=
| ea_nil : emitted_all []
| ea_cons : forall V x l, emitted V x -> emitted_all l -> emitted_all (x :: l).

Scheme emitted_mut := Minimality for emitted Sort Prop
  with emitted_all_mut := Minimality for emitted_all Sort Prop.

Definition is_ver (r : dres) : Prop := r = DVal (JStr v20) \/ r = DVal (JStr v21).

Lemma seq_max_vers : forall rs best,
  Forall is_ver rs -> (best = None \/ best = Some (JStr v20) \/ best = Some (JStr v21)) ->
  (rs <> [] \/ best <> None) ->
  is_ver (seq_max rs best).
Proof.
  induction rs as [|r rs IH]; intros best Hall Hb Hne.
  - simpl. destruct Hb as [-> | [-> | ->]].
    + destruct Hne as [Hne|Hne]; exfalso; apply Hne; reflexivity.
    + left. reflexivity.
    + right. reflexivity.
  - inversion Hall as [|r0 rs0 Hr Hrs]; subst.
    destruct Hr as [-> | ->]; destruct Hb as [-> | [-> | ->]]; cbn -[v20 v21];
      try (apply IH; [exact Hrs | auto | right; discriminate]).
    all: vm_compute (py_gt _ _); cbv iota; apply IH; [exact Hrs | auto | right; discriminate].
Qed.

Lemma max_with_21_ver : forall r, is_ver r -> max_with_21 r = DVal (JStr v21).
Proof. intros r [-> | ->]; vm_compute; reflexivity. Qed.

Lemma is_bundle_str : forall t, is_bundle_type (JStr t) = ustr_eqb t s_bundle.
Proof. reflexivity. Qed.

Lemma ustr_eqb_refl : forall s, ustr_eqb s s = true.
Proof. induction s as [|c s IH]; simpl; [reflexivity|]. rewrite N.eqb_refl. exact IH. Qed.

Theorem detect_emitted :
  (forall V d, emitted V d -> detect md obs21 d = DVal (JStr V) /\ (V = v20 \/ V = v21)) /\
  (forall l, emitted_all l -> Forall is_ver (map (detect md obs21) l)).
Proof.
  assert (forall V d, emitted V d -> detect md obs21 d = DVal (JStr V) /\ (V = v20 \/ V = v21)) as H1.
  { apply (emitted_mut
             (fun V d => detect md obs21 d = DVal (JStr V) /\ (V = v20 \/ V = v21))
             (fun l => Forall is_ver (map (detect md obs21) l))).
    - intros m ty Ht Hs Hi. split; [|auto]. rewrite detect_obj. unfold detect_body. rewrite Ht, Hs, Hi. reflexivity.
    - intros m t i Ht Hb Hs Hi Hu. split; [|auto]. rewrite detect_obj. unfold detect_body.
      rewrite Ht, Hs, Hi, is_bundle_str, Hb, Hu. reflexivity.
    - intros m sv Ht Hs. split; [|auto]. rewrite detect_obj. unfold detect_body.
      rewrite Ht, Hs, is_bundle_str, ustr_eqb_refl. reflexivity.
    - intros m t Ht Hb Hs. split; [|auto]. rewrite detect_obj. unfold detect_body.
      rewrite Ht, Hs, is_bundle_str, Hb. reflexivity.
    - intros m t i Ht Hb Hs Hi Hu. split; [|auto]. rewrite detect_obj. unfold detect_body.
      rewrite Ht, Hs, Hi, is_bundle_str, Hb, Hu. reflexivity.
    - intros m i x l Ht Hs Hi Ho _ IH. split; [|auto]. rewrite detect_obj. unfold detect_body.
      rewrite Ht, Hs, Hi, is_bundle_str, ustr_eqb_refl. unfold objs_res. rewrite Ho.
      apply max_with_21_ver. apply seq_max_vers; [exact IH | auto | left; discriminate].
    - intros m i Ht Hs Hi Ho Hd. split; [|auto]. rewrite detect_obj. unfold detect_body.
      rewrite Ht, Hs, Hi, is_bundle_str, ustr_eqb_refl. unfold objs_res. rewrite Ho, Hd. reflexivity.
    - constructor.
    - intros V x l _ [IHx HV] _ IHl. simpl. constructor; [|exact IHl].
      rewrite IHx. destruct HV as [-> | ->]; [left|right]; reflexivity. }
  split; [exact H1|].
  induction 1 as [|V x l Hx Hl IH]; simpl; constructor; [|exact IH].
  destruct (H1 V x Hx) as [-> [-> | ->]]; [left|right]; reflexivity.
Qed.

(* outside `emitted`: a 2.0 object (id, no spec_version) whose type name is ALSO registered as a 2.1 observable -- possible
   with the public decorators (a custom 2.0 object and a custom 2.1 observable of the same name) -- is taken for 2.1 *)
Lemma collision_20_object_21_observable : forall m t i,
  jlookup k_type m = Some (JStr t) -> ustr_eqb t s_bundle = false ->
  jlookup k_spec_version m = None -> jlookup k_id m = Some i -> umem t obs21 = true ->
  detect md obs21 (JObj m) = DVal (JStr v21) /\ DVal (JStr v21) <> DVal (JStr v20).
Proof.
  intros m t i Ht Hb Hs Hi Hu. split; [|discriminate]. rewrite detect_obj. unfold detect_body.
  rewrite Ht, Hs, Hi, is_bundle_str, Hb, Hu. reflexivity.
Qed.

(* the pinned code: an empty 2.1 bundle (no `objects` member) is not recognised *)
Lemma empty_bundle21_pinned : forall m i,
  jlookup k_type m = Some (JStr s_bundle) -> jlookup k_spec_version m = None -> jlookup k_id m = Some i ->
  jlookup k_objects m = None -> bundle_default md = false ->
  detect md obs21 (JObj m) = DKeyError k_objects.
Proof.
  intros m i Ht Hs Hi Ho Hd. rewrite detect_obj. unfold detect_body.
  rewrite Ht, Hs, Hi, is_bundle_str, ustr_eqb_refl. unfold objs_res. rewrite Ho, Hd. reflexivity.
Qed.
End Shapes.

(* ---- identifier strictness ---- *)
From Coq Require Import Lia.
Open Scope N_scope.

Lemma relaxed_ignores_spec_version_pf : forall im s v v', check_uuid im s v true = check_uuid im s v' true.
Proof. reflexivity. Qed.

Lemma strict_v20_implies_any_pf : forall im s v,
  check_uuid im s v20s false = UOk true -> check_uuid im s v false = UOk true.
Proof.
  intros im s v. unfold check_uuid. destruct (uuid_int s) as [[n|]|]; try discriminate.
  destruct (canonical_text im && negb (ustr_eqb (canon_text n) (ustr_lower s))); [discriminate|].
  rewrite ustr_eqb_refl. destruct (variant_rfc4122 n); simpl; [|discriminate].
  intro H. destruct (ustr_eqb v v20s); [exact H|reflexivity].
Qed.

(* relaxed mode accepts exactly the 8-4-4-4-12 hexadecimal shape (whatever the bits say) *)
Lemma strict_subset_relaxed_pf : forall im s v,
  interop_match im s = true -> check_uuid im s v false = UOk true -> check_uuid im s v true = UOk true.
Proof. intros im s v Hm _. unfold check_uuid. rewrite Hm. reflexivity. Qed.

(* -- with the canonical-text repair, strict acceptance implies the relaxed shape for EVERY text -- *)
Ltac leb_cases :=
  repeat match goal with
         | |- context [?a <=? ?b] => destruct (N.leb_spec a b)
         | |- context [?a <? ?b] => destruct (N.ltb_spec a b)
         | |- context [?a =? ?b] => destruct (N.eqb_spec a b)
         end.

Lemma is_hex_lower_char : forall c, is_hex (lower_char c) = is_hex c.
Proof.
  intro c. unfold lower_char. destruct (N.leb_spec 65 c); destruct (N.leb_spec c 90); simpl;
    unfold is_hex; leb_cases; simpl; try reflexivity; lia.
Qed.

Lemma lower_char_eqb : forall c k, (k <? 65) = true -> (lower_char c =? k) = (c =? k).
Proof.
  intros c k Hk. apply N.ltb_lt in Hk. unfold lower_char.
  destruct (N.leb_spec 65 c); destruct (N.leb_spec c 90); simpl; leb_cases; try reflexivity; lia.
Qed.

Definition lo (s : ustring) : ustring := map lower_char s.

Lemma take_hex_lo : forall k s, take_hex k (lo s) = option_map lo (take_hex k s).
Proof.
  induction k as [|k IH]; intro s; [reflexivity|]. destruct s as [|c r]; [reflexivity|].
  cbn [take_hex lo map]. rewrite is_hex_lower_char. destruct (is_hex c); [apply IH|reflexivity].
Qed.

Lemma take_dash_lo : forall o, take_dash (option_map lo o) = option_map lo (take_dash o).
Proof.
  intros [[|c r]|]; try reflexivity. cbn [option_map lo map take_dash].
  rewrite lower_char_eqb by reflexivity. destruct (c =? 45); reflexivity.
Qed.

Lemma obind_lo : forall o k, obind (option_map lo o) (take_hex k) = option_map lo (obind o (take_hex k)).
Proof. intros [s|] k; [apply take_hex_lo|reflexivity]. Qed.

Lemma interop_match_lower : forall im s, interop_match im (ustr_lower s) = interop_match im s.
Proof.
  intros im s. unfold interop_match. change (ustr_lower s) with (lo s).
  rewrite take_hex_lo, !take_dash_lo, !obind_lo, !take_dash_lo, !obind_lo.
  repeat (rewrite ?take_dash_lo, ?obind_lo).
  match goal with |- context [option_map lo ?X] => destruct X as [[|c [|c' r]]|] end; try reflexivity.
  cbn [option_map lo map]. rewrite lower_char_eqb by reflexivity. reflexivity.
Qed.

Lemma is_hex_digit : forall n k, is_hex (digit_at n k) = true.
Proof.
  intros n k. unfold digit_at. assert ((n / 16 ^ k) mod 16 < 16) as H by (apply N.mod_lt; discriminate).
  revert H. generalize ((n / 16 ^ k) mod 16). intros d Hd. unfold hex_lower. destruct (N.ltb_spec d 10); unfold is_hex; leb_cases; simpl; try reflexivity; lia.
Qed.

Lemma interop_match_canon : forall im n, interop_match im (canon_text n) = true.
Proof.
  intros im n. unfold canon_text. cbn [map app]. unfold interop_match.
  cbn [take_hex take_dash obind]. rewrite !is_hex_digit. cbn [take_hex take_dash obind N.eqb Pos.eqb].
  rewrite !is_hex_digit. cbn [take_hex take_dash obind N.eqb Pos.eqb].
  rewrite !is_hex_digit. cbn [take_hex take_dash obind N.eqb Pos.eqb].
  rewrite !is_hex_digit. cbn [take_hex take_dash obind N.eqb Pos.eqb].
  rewrite !is_hex_digit. reflexivity.
Qed.

Lemma ustr_eqb_eq : forall a b, ustr_eqb a b = true -> a = b.
Proof.
  induction a as [|x a IH]; destruct b as [|y b]; simpl; intro H; try discriminate; [reflexivity|].
  apply andb_true_iff in H as [H1 H2]. apply N.eqb_eq in H1. rewrite H1, (IH b H2). reflexivity.
Qed.

Lemma strict_subset_relaxed_repaired_pf : forall im s v, canonical_text im = true ->
  check_uuid im s v false = UOk true -> check_uuid im s v true = UOk true.
Proof.
  intros im s v Hc. unfold check_uuid. destruct (uuid_int s) as [[n|]|]; try discriminate.
  rewrite Hc. destruct (ustr_eqb (canon_text n) (ustr_lower s)) eqn:He; cbn [negb andb]; [|intro H; discriminate H].
  intros _. apply ustr_eqb_eq in He.
  rewrite <- (interop_match_lower im s), <- He, interop_match_canon. reflexivity.
Qed.

Definition zero_uuid : ustring := u "00000000-0000-0000-0000-000000000000".
Definition v1_uuid : ustring := u "c9bd2a4e-2b1c-1d3e-8f00-0123456789ab".
Definition v4_uuid : ustring := u "c9bd2a4e-2b1c-4d3e-8f00-0123456789ab".
Definition braced_uuid : ustring := u "{c9bd2a4e-2b1c-4d3e-8f00-0123456789ab}".

Definition both_modes (P : idmode -> Prop) : Prop := P pinned_idmode /\ P repaired_idmode.

Lemma strictness_witnesses_pf :
  (* relaxed mode admits an id no version admits in strict mode *)
  both_modes (fun im =>
    check_uuid im zero_uuid v20s true = UOk true /\ check_uuid im zero_uuid v20s false = UOk false
    /\ check_uuid im zero_uuid v21 true = UOk true /\ check_uuid im zero_uuid v21 false = UOk false)
  (* 2.1 admits an id 2.0 does not *)
  /\ both_modes (fun im => check_uuid im v1_uuid v21 false = UOk true /\ check_uuid im v1_uuid v20s false = UOk false)
  (* a version-4 id is fine everywhere *)
  /\ both_modes (fun im => check_uuid im v4_uuid v20s false = UOk true /\ check_uuid im v4_uuid v21 false = UOk true
                           /\ check_uuid im v4_uuid v21 true = UOk true)
  (* before the canonical-text repair, strict mode (uuid.UUID) was the laxer one outside the canonical shape *)
  /\ (check_uuid pinned_idmode braced_uuid v21 false = UOk true /\ check_uuid pinned_idmode braced_uuid v21 true = UOk false
      /\ check_uuid repaired_idmode braced_uuid v21 false = UOk false).
Proof. vm_compute. repeat split. Qed.

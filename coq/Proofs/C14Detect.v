(* Proofs/C14Detect.v -- detect_spec_version recognises every shape the
   serialiser emits for version V as V (for ANY registry, any nesting depth of
   bundles), and the facts about the identifier strictness switch.            *)
From Coq Require Import NArith ZArith List String Bool.
From V Require Import Base.UString Base.Json Model.VersionDetect Model.IdCheck.
Import ListNotations.

(* ---- detect, unfolded once, with the `objects` member found by jlookup ---- *)
Section D.
Variable md : dmode.
Variable obs21 : list ustring.

Definition objs_res (m : list (ustring * jvalue)) : option dres :=
  match jlookup k_objects m with
  | None => None
  | Some (JArr []) => Some (empty_max md)
  | Some (JArr l) => Some (seq_max (map (detect md obs21) l) None)
  | Some other => Some (iter_non_list md other)
  end.

Definition detect_body (m : list (ustring * jvalue)) : dres :=
  match jlookup k_type m with
  | None => if notype_parse md then DParseError else DKeyError k_type
  | Some ty =>
    match jlookup k_spec_version m with
    | Some sv => if is_bundle_type ty then DVal (JStr v20) else DVal sv
    | None =>
      match jlookup k_id m with
      | None => DVal (JStr v20)
      | Some _ =>
        if is_bundle_type ty then
          match objs_res m with
          | None => if bundle_default md then DVal (JStr v21) else DKeyError k_objects
          | Some r => max_with_21 r
          end
        else match ty with
             | JArr _ | JObj _ => DTypeError
             | JStr t => if umem t obs21 then DVal (JStr v21) else DVal (JStr v20)
             | _ => DVal (JStr v20)
             end
      end
    end
  end.

Lemma each_map : forall l,
  (fix each (l : list jvalue) : list dres := match l with [] => [] | x :: r => detect md obs21 x :: each r end) l
  = map (detect md obs21) l.
Proof. induction l as [|x r IH]; simpl; [reflexivity|]. f_equal; try exact IH. Qed.

Lemma detect_obj : forall m, detect md obs21 (JObj m) = detect_body m.
Proof.
  intro m. unfold detect_body, objs_res. cbn [detect].
  set (find := fix find (m : list (ustring * jvalue)) : option dres := _).
  assert (forall m0, find m0 = match jlookup k_objects m0 with
                               | None => None
                               | Some (JArr []) => Some (empty_max md)
                               | Some (JArr l) => Some (seq_max (map (detect md obs21) l) None)
                               | Some other => Some (iter_non_list md other)
                               end) as Hfind.
  { induction m0 as [|[k v] rest IH]; [reflexivity|].
    cbn [find jlookup]. destruct (ustr_eqb k_objects k).
    - destruct v; try reflexivity. destruct l; [reflexivity|]. rewrite each_map. reflexivity.
    - exact IH. }
  rewrite Hfind. reflexivity.
Qed.
End D.

(* ---- the shapes the serialiser emits ---- *)
Section Shapes.
Variable md : dmode.
Variable obs21 : list ustring.

Inductive emitted : ustring -> jvalue -> Prop :=
| em_sco20 : forall m ty,                      (* 2.0 observable (inside observed-data): no id, no spec_version *)
    jlookup k_type m = Some ty -> jlookup k_spec_version m = None -> jlookup k_id m = None ->
    emitted v20 (JObj m)
| em_obj20 : forall m t i,                     (* 2.0 SDO / SRO / marking definition / registered custom object *)
    jlookup k_type m = Some (JStr t) -> ustr_eqb t s_bundle = false ->
    jlookup k_spec_version m = None -> jlookup k_id m = Some i -> umem t obs21 = false ->
    emitted v20 (JObj m)
| em_bundle20 : forall m sv,                   (* 2.0 bundle: carries spec_version *)
    jlookup k_type m = Some (JStr s_bundle) -> jlookup k_spec_version m = Some sv ->
    emitted v20 (JObj m)
| em_obj21 : forall m t,                       (* 2.1 SDO / SRO / marking / language-content / extension-definition / SCO with spec_version *)
    jlookup k_type m = Some (JStr t) -> ustr_eqb t s_bundle = false ->
    jlookup k_spec_version m = Some (JStr v21) ->
    emitted v21 (JObj m)
| em_sco21 : forall m t i,                     (* 2.1 SCO without spec_version: registered observable type, has an id *)
    jlookup k_type m = Some (JStr t) -> ustr_eqb t s_bundle = false ->
    jlookup k_spec_version m = None -> jlookup k_id m = Some i -> umem t obs21 = true ->
    emitted v21 (JObj m)
| em_bundle21 : forall m i x l,                (* 2.1 bundle with members, each itself an emitted shape *)
    jlookup k_type m = Some (JStr s_bundle) -> jlookup k_spec_version m = None -> jlookup k_id m = Some i ->
    jlookup k_objects m = Some (JArr (x :: l)) -> emitted_all (x :: l) ->
    emitted v21 (JObj m)
| em_bundle21_empty : forall m i,              (* 2.1 bundle without members: the serialiser omits `objects` *)
    jlookup k_type m = Some (JStr s_bundle) -> jlookup k_spec_version m = None -> jlookup k_id m = Some i ->
    jlookup k_objects m = None -> bundle_default md = true ->
    emitted v21 (JObj m)
with emitted_all : list jvalue -> Prop :=
| ea_nil : emitted_all []
| ea_cons : forall V x l, emitted V x -> emitted_all l -> emitted_all (x :: l).

Scheme emitted_mut := Minimality for emitted Sort Prop
  with emitted_all_mut := Minimality for emitted_all Sort Prop.

Definition is_ver (r : dres) : Prop := r = DVal (JStr v20) \/ r = DVal (JStr v21).

Lemma seq_max_vers : forall rs best,
  Forall is_ver rs -> (best = None \/ best = Some (JStr v20) \/ best = Some (JStr v21)) ->
  (rs <> [] \/ best <> None) ->
  is_ver (seq_max rs best).
Proof.
  induction rs as [|r rs IH]; intros best Hall Hb Hne.
  - simpl. destruct Hb as [-> | [-> | ->]].
    + destruct Hne as [Hne|Hne]; exfalso; apply Hne; reflexivity.
    + left. reflexivity.
    + right. reflexivity.
  - inversion Hall as [|r0 rs0 Hr Hrs]; subst.
    destruct Hr as [-> | ->]; destruct Hb as [-> | [-> | ->]]; cbn -[v20 v21];
      try (apply IH; [exact Hrs | auto | right; discriminate]).
    all: vm_compute (py_gt _ _); cbv iota; apply IH; [exact Hrs | auto | right; discriminate].
Qed.

Lemma max_with_21_ver : forall r, is_ver r -> max_with_21 r = DVal (JStr v21).
Proof. intros r [-> | ->]; vm_compute; reflexivity. Qed.

Lemma is_bundle_str : forall t, is_bundle_type (JStr t) = ustr_eqb t s_bundle.
Proof. reflexivity. Qed.

Lemma ustr_eqb_refl : forall s, ustr_eqb s s = true.
Proof. induction s as [|c s IH]; simpl; [reflexivity|]. rewrite N.eqb_refl. exact IH. Qed.

Theorem detect_emitted :
  (forall V d, emitted V d -> detect md obs21 d = DVal (JStr V) /\ (V = v20 \/ V = v21)) /\
  (forall l, emitted_all l -> Forall is_ver (map (detect md obs21) l)).
Proof.
  assert (forall V d, emitted V d -> detect md obs21 d = DVal (JStr V) /\ (V = v20 \/ V = v21)) as H1.
  { apply (emitted_mut
             (fun V d => detect md obs21 d = DVal (JStr V) /\ (V = v20 \/ V = v21))
             (fun l => Forall is_ver (map (detect md obs21) l))).
    - intros m ty Ht Hs Hi. split; [|auto]. rewrite detect_obj. unfold detect_body. rewrite Ht, Hs, Hi. reflexivity.
    - intros m t i Ht Hb Hs Hi Hu. split; [|auto]. rewrite detect_obj. unfold detect_body.
      rewrite Ht, Hs, Hi, is_bundle_str, Hb, Hu. reflexivity.
    - intros m sv Ht Hs. split; [|auto]. rewrite detect_obj. unfold detect_body.
      rewrite Ht, Hs, is_bundle_str, ustr_eqb_refl. reflexivity.
    - intros m t Ht Hb Hs. split; [|auto]. rewrite detect_obj. unfold detect_body.
      rewrite Ht, Hs, is_bundle_str, Hb. reflexivity.
    - intros m t i Ht Hb Hs Hi Hu. split; [|auto]. rewrite detect_obj. unfold detect_body.
      rewrite Ht, Hs, Hi, is_bundle_str, Hb, Hu. reflexivity.
    - intros m i x l Ht Hs Hi Ho _ IH. split; [|auto]. rewrite detect_obj. unfold detect_body.
      rewrite Ht, Hs, Hi, is_bundle_str, ustr_eqb_refl. unfold objs_res. rewrite Ho.
      apply max_with_21_ver. apply seq_max_vers; [exact IH | auto | left; discriminate].
    - intros m i Ht Hs Hi Ho Hd. split; [|auto]. rewrite detect_obj. unfold detect_body.
      rewrite Ht, Hs, Hi, is_bundle_str, ustr_eqb_refl. unfold objs_res. rewrite Ho, Hd. reflexivity.
    - constructor.
    - intros V x l _ [IHx HV] _ IHl. simpl. constructor; [|exact IHl].
      rewrite IHx. destruct HV as [-> | ->]; [left|right]; reflexivity. }
  split; [exact H1|].
  induction 1 as [|V x l Hx Hl IH]; simpl; constructor; [|exact IH].
  destruct (H1 V x Hx) as [-> [-> | ->]]; [left|right]; reflexivity.
Qed.

(* the pinned code: an empty 2.1 bundle (no `objects` member) is not recognised *)
Lemma empty_bundle21_pinned : forall m i,
  jlookup k_type m = Some (JStr s_bundle) -> jlookup k_spec_version m = None -> jlookup k_id m = Some i ->
  jlookup k_objects m = None -> bundle_default md = false ->
  detect md obs21 (JObj m) = DKeyError k_objects.
Proof.
  intros m i Ht Hs Hi Ho Hd. rewrite detect_obj. unfold detect_body.
  rewrite Ht, Hs, Hi, is_bundle_str, ustr_eqb_refl. unfold objs_res. rewrite Ho, Hd. reflexivity.
Qed.
End Shapes.

(* ---- identifier strictness ---- *)
Lemma relaxed_ignores_spec_version_pf : forall s v v', check_uuid s v true = check_uuid s v' true.
Proof. reflexivity. Qed.

Lemma strict_v20_implies_any_pf : forall s v, check_uuid s v20s false = UOk true -> check_uuid s v false = UOk true.
Proof.
  intros s v. unfold check_uuid. destruct (uuid_int s) as [[n|]|]; try discriminate.
  rewrite ustr_eqb_refl. destruct (variant_rfc4122 n); simpl; [|discriminate].
  intro H. destruct (ustr_eqb v v20s); [exact H|reflexivity].
Qed.

(* relaxed mode accepts exactly the 8-4-4-4-12 hexadecimal shape (whatever the bits say) *)
Lemma relaxed_is_shape_pf : forall s v, check_uuid s v true = UOk (interop_match s).
Proof. reflexivity. Qed.

Lemma strict_subset_relaxed_pf : forall s v,
  interop_match s = true -> check_uuid s v false = UOk true -> check_uuid s v true = UOk true.
Proof. intros s v Hm _. unfold check_uuid. rewrite Hm. reflexivity. Qed.

Definition zero_uuid : ustring := u "00000000-0000-0000-0000-000000000000".
Definition v1_uuid : ustring := u "c9bd2a4e-2b1c-1d3e-8f00-0123456789ab".
Definition v4_uuid : ustring := u "c9bd2a4e-2b1c-4d3e-8f00-0123456789ab".
Definition braced_uuid : ustring := u "{c9bd2a4e-2b1c-4d3e-8f00-0123456789ab}".

Lemma strictness_witnesses_pf :
  (* relaxed mode admits an id no version admits in strict mode *)
  (check_uuid zero_uuid v20s true = UOk true /\ check_uuid zero_uuid v20s false = UOk false
   /\ check_uuid zero_uuid v21 true = UOk true /\ check_uuid zero_uuid v21 false = UOk false)
  (* 2.1 admits an id 2.0 does not *)
  /\ (check_uuid v1_uuid v21 false = UOk true /\ check_uuid v1_uuid v20s false = UOk false)
  (* a version-4 id is fine everywhere *)
  /\ (check_uuid v4_uuid v20s false = UOk true /\ check_uuid v4_uuid v21 false = UOk true /\ check_uuid v4_uuid v21 true = UOk true)
  (* outside the canonical shape strict mode (uuid.UUID) is the laxer one *)
  /\ (check_uuid braced_uuid v21 false = UOk true /\ check_uuid braced_uuid v21 true = UOk false).
Proof. vm_compute. repeat split. Qed.

(* Proofs/JcsNumFacts.v -- the number theorem of C16: convert2es6 (the model of
   NumberToJson.convert2Es6Format) applied to the repr layout of a double gives
   the ECMAScript Number::toString text, for all digit strings of length 1..17
   and all exponents.                                                          *)
From Coq Require Import String NArith ZArith List Bool Lia Decimal DecimalFacts DecimalN.
From V Require Import Base.UString Base.Json Model.JcsText Model.Jcs Spec.Rfc8785.
Import ListNotations.
Open Scope N_scope.

(* ---- generic list / string facts ------------------------------------------ *)
Lemma ustr_eqb_eq : forall a b, ustr_eqb a b = true <-> a = b.
Proof.
  induction a as [|x a IH]; destruct b as [|y b]; simpl; split; intro H; try discriminate; try reflexivity.
  - apply andb_true_iff in H. destruct H as [H1 H2]. apply N.eqb_eq in H1. apply IH in H2. congruence.
  - inversion H; subst. apply andb_true_iff. split. apply N.eqb_refl. apply IH. reflexivity.
Qed.

Lemma ustr_eqb_neq : forall a b, a <> b -> ustr_eqb a b = false.
Proof. intros a b H. destruct (ustr_eqb a b) eqn:E; auto. apply ustr_eqb_eq in E. contradiction. Qed.

Lemma ustr_eqb_refl : forall a, ustr_eqb a a = true.
Proof. intro a. apply ustr_eqb_eq. reflexivity. Qed.

Definition lacks (c : N) (s : ustring) : Prop := Forall (fun x => x <> c) s.

Lemma find_idx_none : forall c s, lacks c s -> find_idx c s = None.
Proof.
  induction s as [|x s IH]; simpl; intro H; auto.
  inversion H; subst. apply N.eqb_neq in H2. rewrite H2. rewrite IH; auto.
Qed.

Lemma find_idx_app : forall c p r, lacks c p -> find_idx c (p ++ c :: r) = Some (length p).
Proof.
  induction p as [|x p IH]; simpl; intros r H.
  - rewrite N.eqb_refl. reflexivity.
  - inversion H; subst. apply N.eqb_neq in H2. rewrite H2. rewrite IH; auto.
Qed.

Lemma firstn_len_app : forall (A : Type) (p r : list A), firstn (length p) (p ++ r) = p.
Proof. induction p; simpl; intros; auto. f_equal. apply IHp. Qed.

Lemma skipn_len_app : forall (A : Type) (p r : list A), skipn (length p) (p ++ r) = r.
Proof. induction p; simpl; intros; auto. Qed.

Lemma lacks_app : forall c a b, lacks c a -> lacks c b -> lacks c (a ++ b).
Proof. intros. apply Forall_app. split; assumption. Qed.

(* ---- digit characters ------------------------------------------------------ *)
Definition isdig (c : N) : Prop := 48 <= c <= 57.

Lemma isdig_lacks : forall c s, Forall isdig s -> (c < 48 \/ 57 < c) -> lacks c s.
Proof.
  intros c s H Hc. eapply Forall_impl; [|exact H]. unfold isdig. intros a Ha. lia.
Qed.

Lemma dchars_isdig : forall ds, Forall (fun d => d < 10) ds -> Forall isdig (dchars ds).
Proof.
  induction 1; simpl; constructor; auto. unfold isdig, dchar. lia.
Qed.

Lemma repeat0_isdig : forall m, Forall isdig (repeat c_0 m).
Proof. induction m; simpl; constructor; auto. unfold isdig, c_0. lia. Qed.

Lemma digits_of_uint_isdig : forall d, Forall isdig (digits_of_uint d).
Proof. induction d; simpl; constructor; auto; unfold isdig; lia. Qed.

Lemma dec_show_isdig : forall a, Forall isdig (dec_show a).
Proof. intro. apply digits_of_uint_isdig. Qed.

(* ---- decimal numerals ------------------------------------------------------- *)
Lemma uint_of_digits_of_uint : forall d, uint_of_digits (digits_of_uint d) = Some d.
Proof. induction d; simpl; try rewrite IHd; reflexivity. Qed.

Lemma to_uint_norm : forall a, unorm (N.to_uint a) = N.to_uint a.
Proof.
  intro a. rewrite <- (DecimalN.Unsigned.to_of (N.to_uint a)).
  rewrite DecimalN.Unsigned.of_to. reflexivity.
Qed.

Lemma to_uint_nonnil : forall a, N.to_uint a <> Nil.
Proof. intro a. rewrite <- to_uint_norm. apply unorm_nonnil. Qed.

Lemma to_uint_D0 : forall a r, N.to_uint a = D0 r -> a = 0.
Proof.
  intros a r H. pose proof (to_uint_norm a) as Hn. rewrite H in Hn.
  unfold unorm in Hn. destruct (nzhead (D0 r)) eqn:E.
  - inversion Hn; subst. rewrite <- (DecimalN.Unsigned.of_to a). rewrite H. reflexivity.
  - exfalso. apply (nzhead_nonzero (D0 r) r). rewrite E. exact Hn.
  - discriminate. - discriminate. - discriminate. - discriminate. - discriminate.
  - discriminate. - discriminate. - discriminate. - discriminate.
Qed.

Lemma digits_of_uint_nil : forall d, digits_of_uint d = [] -> d = Nil.
Proof. destruct d; simpl; intro H; try discriminate; reflexivity. Qed.

Lemma dec_show_nonnil : forall a, dec_show a <> [].
Proof. intros a H. apply digits_of_uint_nil in H. exact (to_uint_nonnil a H). Qed.

Lemma dec_parse_show : forall a, dec_parse (dec_show a) = Some a.
Proof.
  intro a. unfold dec_parse. destruct (dec_show a) eqn:E.
  - exfalso. exact (dec_show_nonnil a E).
  - rewrite <- E. unfold dec_show. rewrite uint_of_digits_of_uint. simpl.
    rewrite DecimalN.Unsigned.of_to. reflexivity.
Qed.

(* a non-zero number's numeral does not start with the digit 0 *)
Lemma dec_show_head : forall a, a <> 0 -> exists c r, dec_show a = c :: r /\ c <> 48.
Proof.
  intros a Ha. unfold dec_show. destruct (N.to_uint a) eqn:E; simpl.
  - exfalso. exact (to_uint_nonnil a E).
  - exfalso. apply Ha. eapply to_uint_D0. exact E.
  - eexists; eexists; split; [reflexivity|lia].
  - eexists; eexists; split; [reflexivity|lia].
  - eexists; eexists; split; [reflexivity|lia].
  - eexists; eexists; split; [reflexivity|lia].
  - eexists; eexists; split; [reflexivity|lia].
  - eexists; eexists; split; [reflexivity|lia].
  - eexists; eexists; split; [reflexivity|lia].
  - eexists; eexists; split; [reflexivity|lia].
  - eexists; eexists; split; [reflexivity|lia].
Qed.

(* ---- the exponent suffix ---------------------------------------------------- *)
Lemma strip_exp_zero_py : forall e, e <> 0%Z -> strip_exp_zero (exp_text_py e) = es6_exp e.
Proof.
  intros e He. unfold exp_text_py, es6_exp, strip_exp_zero.
  destruct (Z.abs_N e <? 10) eqn:E; simpl.
  - reflexivity.
  - destruct (dec_show_head (Z.abs_N e)) as [c [r [H1 H2]]]; [lia|].
    rewrite H1. simpl. unfold c_0 at 1. apply N.eqb_neq in H2. rewrite H2. simpl. reflexivity.
Qed.

Lemma py_int_es6_exp : forall e, py_int (skipn 1 (es6_exp e)) = Some e.
Proof.
  intro e. unfold es6_exp. simpl skipn. destruct (e <? 0)%Z eqn:E.
  - unfold c_minus. cbn [py_int]. rewrite dec_parse_show. simpl. f_equal.
    rewrite N2Z.inj_abs_N. apply Z.ltb_lt in E. lia.
  - unfold c_plus. cbn [py_int]. rewrite dec_parse_show. simpl. f_equal.
    rewrite N2Z.inj_abs_N. apply Z.ltb_ge in E. lia.
Qed.

Lemma es6_exp_lacks_dot : forall e, lacks c_dot (es6_exp e).
Proof.
  intro e. unfold es6_exp. constructor; [unfold c_e, c_dot; lia|].
  constructor; [destruct (e <? 0)%Z; unfold c_minus, c_plus, c_dot; lia|].
  apply isdig_lacks; [apply dec_show_isdig | unfold c_dot; lia].
Qed.

(* ---- what convert2es6 does after the sign has been split off --------------- *)
Definition conv_tail (pySign body : ustring) : jres ustring :=
  match split_exp body with
  | JRaise e => JRaise e
  | JOk (pyExpStr, pyDouble, pyExpVal) =>
    let '(pyFirst, pyDot, pyLast) := strip_dot0 (split_dot pyDouble) in
    JOk (assemble pySign pyFirst pyDot pyLast pyExpStr pyExpVal)
  end.

Lemma skipn_S_len_app : forall (A : Type) (p : list A) x r, skipn (S (length p)) (p ++ x :: r) = r.
Proof. induction p; intros; [reflexivity|]. simpl length. change (skipn (S (S (length p))) ((a :: p) ++ x :: r)) with (skipn (S (length p)) (p ++ x :: r)). apply IHp. Qed.

Lemma split_exp_none : forall body, lacks c_e body -> split_exp body = JOk ([], body, 0%Z).
Proof. intros. unfold split_exp. rewrite find_idx_none; auto. Qed.

Lemma split_dot_at : forall p r, p <> [] -> lacks c_dot p -> split_dot (p ++ c_dot :: r) = (p, [c_dot], r).
Proof.
  intros p r Hp Hl. unfold split_dot. rewrite find_idx_app; auto.
  destruct p as [|x p]; [contradiction|].
  change (length (x :: p)) with (S (length p)). cbv iota beta.
  change (S (length p)) with (length (x :: p)).
  rewrite firstn_len_app, skipn_S_len_app. reflexivity.
Qed.

Lemma split_exp_at : forall p e, p <> [] -> lacks c_e p ->
  split_exp (p ++ exp_text_py e) =
  match py_int (skipn 1 (strip_exp_zero (exp_text_py e))) with
  | Some v => JOk (strip_exp_zero (exp_text_py e), p, v)
  | None => JRaise ValueError
  end.
Proof.
  intros p e Hp Hl. unfold split_exp. unfold exp_text_py at 1.
  rewrite find_idx_app; auto.
  destruct p as [|x p]; [contradiction|].
  change (length (x :: p)) with (S (length p)). cbv iota beta zeta.
  change (S (length p)) with (length (x :: p)).
  rewrite firstn_len_app, skipn_len_app. reflexivity.
Qed.

Lemma assemble_zero : forall s f d l, assemble s f d l [] 0%Z = s ++ f ++ d ++ l.
Proof. intros. unfold assemble. simpl. rewrite List.app_nil_r. reflexivity. Qed.

(* fixed notation, point inside or after the digits *)
Lemma tail_fixed : forall sign p r,
  p <> [] -> Forall isdig p -> Forall isdig r -> r <> [c_0] ->
  conv_tail sign (p ++ c_dot :: r) = JOk (sign ++ p ++ c_dot :: r).
Proof.
  intros sign p r Hp Fp Fr Hr. unfold conv_tail.
  rewrite split_exp_none.
  2:{ apply lacks_app; [apply isdig_lacks; auto; unfold c_e; lia|].
      constructor; [unfold c_dot, c_e; lia|]. apply isdig_lacks; auto; unfold c_e; lia. }
  rewrite split_dot_at; auto. 2:{ apply isdig_lacks; auto; unfold c_dot; lia. }
  unfold strip_dot0. rewrite (ustr_eqb_neq r [c_0] Hr). rewrite assemble_zero. reflexivity.
Qed.

(* fixed notation of an integer: the trailing .0 is dropped *)
Lemma tail_fixed_int : forall sign p,
  p <> [] -> Forall isdig p ->
  conv_tail sign (p ++ [c_dot; c_0]) = JOk (sign ++ p).
Proof.
  intros sign p Hp Fp. unfold conv_tail.
  rewrite split_exp_none.
  2:{ apply lacks_app; [apply isdig_lacks; auto; unfold c_e; lia|].
      repeat constructor; unfold c_dot, c_0, c_e; lia. }
  rewrite split_dot_at; auto. 2:{ apply isdig_lacks; auto; unfold c_dot; lia. }
  unfold strip_dot0. rewrite ustr_eqb_refl. rewrite assemble_zero. rewrite !List.app_nil_r. reflexivity.
Qed.

(* exponent notation *)
Lemma tail_exp : forall sign d rest e,
  d < 10 -> Forall (fun x => x < 10) rest -> dchars rest <> [c_0] -> e <> 0%Z ->
  conv_tail sign (mant_text (d :: rest) ++ exp_text_py e) =
  JOk (assemble sign [dchar d] (match rest with [] => [] | _ => [c_dot] end) (dchars rest) (es6_exp e) e).
Proof.
  intros sign d rest e Hd Hrest Hr He. unfold conv_tail.
  assert (Hm : lacks c_e (mant_text (d :: rest))).
  { destruct rest; simpl.
    - constructor; [unfold dchar, c_e; lia | constructor].
    - constructor; [unfold dchar, c_e; lia|]. constructor; [unfold c_dot, c_e; lia|].
      apply isdig_lacks; [apply (dchars_isdig (n :: rest)); auto | unfold c_e; lia]. }
  assert (Hne : mant_text (d :: rest) <> []) by (destruct rest; simpl; discriminate).
  rewrite (split_exp_at _ _ Hne Hm).
  rewrite strip_exp_zero_py; auto. rewrite py_int_es6_exp. clear Hm Hne.
  destruct rest as [|r0 rest].
  - simpl mant_text. unfold split_dot. rewrite find_idx_none.
    2:{ constructor; [unfold dchar, c_dot; lia| constructor]. }
    unfold strip_dot0. simpl. reflexivity.
  - unfold mant_text. change (dchar d :: c_dot :: dchars (r0 :: rest)) with ([dchar d] ++ c_dot :: dchars (r0 :: rest)).
    rewrite split_dot_at; [|discriminate|constructor; [unfold dchar, c_dot; lia|constructor]].
    unfold strip_dot0. rewrite (ustr_eqb_neq _ _ Hr). reflexivity.
Qed.

(* ---- the front of convert2es6: zero test, nan/inf test, sign -------------- *)
Definition repr_char (c : N) : Prop := isdig c \/ c = c_dot \/ c = c_e \/ c = c_plus \/ c = c_minus.

Lemma rc_dig : forall s, Forall isdig s -> Forall repr_char s.
Proof. intros s H. eapply Forall_impl; [|exact H]. intros a Ha. left. exact Ha. Qed.

Lemma exp_text_py_rc : forall e, Forall repr_char (exp_text_py e).
Proof.
  intro e. unfold exp_text_py. constructor; [right; right; left; reflexivity|].
  constructor; [destruct (e <? 0)%Z; unfold repr_char; auto|].
  cbv zeta. destruct (Z.abs_N e <? 10).
  - constructor; [left; unfold isdig, c_0; lia|]. apply rc_dig, dec_show_isdig.
  - apply rc_dig, dec_show_isdig.
Qed.

Lemma conv_front : forall neg body,
  (exists c r, body = c :: r /\ isdig c) ->
  Forall repr_char body ->
  (exists c, In c body /\ 49 <= c <= 57) ->
  convert2es6 (sign_text neg ++ body) = conv_tail (sign_text neg) body.
Proof.
  intros neg body [c0 [r0 [Hb Hc0]]] Hrc [c [Hin Hc]].
  unfold convert2es6.
  assert (Hz : is_zero_repr (sign_text neg ++ body) = false).
  { destruct (is_zero_repr (sign_text neg ++ body)) eqn:E; auto. exfalso.
    unfold is_zero_repr in E. apply orb_true_iff in E.
    assert (Hin' : In c (sign_text neg ++ body)) by (apply in_or_app; right; exact Hin).
    destruct E as [E|E]; apply ustr_eqb_eq in E; rewrite E in Hin'; simpl in Hin';
      unfold c_0, c_dot, c_minus in Hin'; intuition lia. }
  rewrite Hz.
  assert (Hn : find_idx c_n (sign_text neg ++ body) = None).
  { apply find_idx_none. apply lacks_app.
    - destruct neg; simpl; repeat constructor. unfold c_minus, c_n. lia.
    - eapply Forall_impl; [|exact Hrc]. intros a Ha. unfold repr_char, isdig, c_dot, c_e, c_plus, c_minus in Ha.
      unfold c_n. lia. }
  rewrite Hn.
  assert (Hs : split_sign (sign_text neg ++ body) = (sign_text neg, body)).
  { unfold split_sign. destruct neg; simpl.
    - reflexivity.
    - subst body. simpl. assert (c0 =? c_minus = false) as ->.
      { apply N.eqb_neq. unfold isdig in Hc0. unfold c_minus. lia. }
      destruct (find_idx c_minus r0); reflexivity. }
  rewrite Hs. reflexivity.
Qed.

(* ---- the theorem ------------------------------------------------------------- *)
Ltac zb := repeat match goal with
  | H : (_ && _)%bool = true |- _ => apply andb_true_iff in H; destruct H
  | H : (_ && _)%bool = false |- _ => apply andb_false_iff in H
  | H : (_ <? _)%Z = true |- _ => apply Z.ltb_lt in H
  | H : (_ <? _)%Z = false |- _ => apply Z.ltb_ge in H
  | H : (_ <=? _)%Z = true |- _ => apply Z.leb_le in H
  | H : (_ <=? _)%Z = false |- _ => apply Z.leb_gt in H
  end.
Ltac set_true c := let E := fresh "E" in destruct c eqn:E; [| exfalso; zb; lia].
Ltac set_false c := let E := fresh "E" in destruct c eqn:E; [exfalso; zb; lia|].

Lemma dchars_not_zero : forall d rest, last (d :: rest) 0 <> 0 -> dchars rest <> [c_0].
Proof.
  intros d rest H E. destruct rest as [|r [|r' rest]]; simpl in E; try discriminate.
  simpl in H. inversion E. unfold dchar, c_0 in *. apply H. lia.
Qed.

Lemma last_skipn : forall (A : Type) (l : list A) i x, (i < length l)%nat -> last (skipn i l) x = last l x.
Proof.
  induction l as [|a l IH]; intros i x Hi; [simpl in Hi; lia|].
  destruct i; [reflexivity|]. simpl skipn. simpl in Hi.
  rewrite IH by lia. destruct l; [simpl in Hi; lia|reflexivity].
Qed.

Lemma dchars_last_not_zero : forall l, l <> [] -> last l 0 <> 0 -> dchars l <> [c_0].
Proof.
  intros l Hl H E. destruct l as [|a [|b l]]; simpl in E; try discriminate; try contradiction.
  simpl in H. inversion E. unfold dchar, c_0 in *. apply H. lia.
Qed.

Lemma repeat_not_single : forall (m : nat) (s : ustring), s <> [] -> m <> 0%nat -> repeat c_0 m ++ s <> [c_0].
Proof.
  intros m s Hs Hm E. destruct m; [contradiction|]. simpl in E. inversion E.
  destruct (repeat c_0 m); destruct s; simpl in *; try discriminate; contradiction.
Qed.

Lemma Forall_firstn' : forall (A : Type) (P : A -> Prop) i l, Forall P l -> Forall P (firstn i l).
Proof. intros A P i. induction i; intros l H; simpl; [constructor|]. destruct H; constructor; auto. Qed.

Lemma Forall_skipn' : forall (A : Type) (P : A -> Prop) i l, Forall P l -> Forall P (skipn i l).
Proof. intros A P i. induction i; intros l H; simpl; auto. destruct H; [constructor|auto]. Qed.

Ltac prove_bool :=
  match goal with
  | |- ?c = _ => let E := fresh "E" in destruct c eqn:E; first [reflexivity | exfalso; zb; lia]
  end.
Ltac ifs := repeat match goal with
  | |- context [if ?c then _ else _] =>
     lazymatch c with
     | context [Z.ltb] => idtac
     | context [Z.leb] => idtac
     end;
     first [ assert (c = true) as -> by prove_bool | assert (c = false) as -> by prove_bool ]
  end.

Lemma num_es6_proof : forall neg ds n, wf_digits ds ->
  convert2es6 (py_repr neg ds n) = JOk (es6_tostring neg ds n).
Proof.
  intros neg ds n [Hlen [Hdig [Hhd Hlast]]].
  destruct ds as [|d rest]; [simpl in Hlen; lia|].
  simpl in Hhd. pose proof Hdig as Hdig0. inversion Hdig as [|? ? Hd Hrest]; subst.
  assert (Hd' : 49 <= dchar d <= 57) by (unfold dchar; lia).
  assert (Hdd : isdig (dchar d)) by (unfold isdig; lia).
  pose proof (dchars_isdig _ Hdig0) as HD.
  pose proof (dchars_isdig _ Hrest) as HR.
  pose proof (dchars_not_zero _ _ Hlast) as HR0.
  unfold py_repr, es6_tostring.
  set (k := Z.of_nat (length (d :: rest))).
  assert (Hk : (1 <= k <= 17)%Z) by (unfold k; lia).
  fold (sign_text neg).
  assert (Hcases : (-4 < n <= 0 \/ 0 < n < k \/ k <= n <= 16 \/ (n <= -4 \/ 16 < n))%Z) by lia.
  destruct Hcases as [Hc|[Hc|[Hc|Hc]]].
  - (* 0.000ddd *)
    ifs. rewrite conv_front.
    + change (c_0 :: c_dot :: repeat c_0 (Z.to_nat (- n)) ++ dchars (d :: rest))
        with ([c_0] ++ c_dot :: repeat c_0 (Z.to_nat (- n)) ++ dchars (d :: rest)).
      rewrite tail_fixed; try reflexivity; try discriminate.
      * repeat constructor; unfold c_0; lia.
      * apply Forall_app; split; [apply repeat0_isdig | exact HD].
      * destruct (Z.to_nat (- n)) eqn:Em; simpl.
        -- intro E2. inversion E2. unfold dchar, c_0 in *. lia.
        -- intro E2. inversion E2. destruct (repeat c_0 n0); discriminate.
    + eexists; eexists; split; [reflexivity| unfold isdig, c_0; lia].
    + constructor; [left; unfold isdig, c_0; lia|]. constructor; [right; left; reflexivity|].
      apply rc_dig. apply Forall_app; split; [apply repeat0_isdig | exact HD].
    + exists (dchar d). split; [|exact Hd']. right; right. apply in_or_app. right. left. reflexivity.
  - (* ddd.ddd *)
    ifs.
    assert (Hi : (0 < Z.to_nat n < length (d :: rest))%nat) by (unfold k in *; lia).
    destruct (Z.to_nat n) as [|i] eqn:Ei; [lia|].
    assert (HF : Forall isdig (dchars (firstn (S i) (d :: rest)))) by (apply dchars_isdig, Forall_firstn'; exact Hdig0).
    assert (HS : Forall isdig (dchars (skipn (S i) (d :: rest)))) by (apply dchars_isdig, Forall_skipn'; exact Hdig0).
    rewrite conv_front.
    + rewrite tail_fixed; try reflexivity; auto.
      * simpl. discriminate.
      * apply dchars_last_not_zero.
        -- intro E2. apply (f_equal (@length N)) in E2. rewrite skipn_length in E2. simpl in E2, Hi. lia.
        -- rewrite last_skipn; [exact Hlast|lia].
    + simpl. eexists; eexists; split; [reflexivity|exact Hdd].
    + apply Forall_app; split; [apply rc_dig; exact HF|].
      constructor; [right; left; reflexivity|apply rc_dig; exact HS].
    + exists (dchar d). split; [|exact Hd']. apply in_or_app. left. simpl. left. reflexivity.
  - (* ddd000.0 *)
    ifs. rewrite conv_front.
    + rewrite app_assoc. rewrite tail_fixed_int; try reflexivity.
      * simpl. discriminate.
      * apply Forall_app; split; [exact HD | apply repeat0_isdig].
    + simpl. eexists; eexists; split; [reflexivity|exact Hdd].
    + apply Forall_app; split; [apply rc_dig; exact HD|].
      apply Forall_app; split; [apply rc_dig, repeat0_isdig|].
      constructor; [right; left; reflexivity|]. constructor; [left; unfold isdig, c_0; lia|constructor].
    + exists (dchar d). split; [|exact Hd']. simpl. left. reflexivity.
  - (* exponent notation in repr *)
    assert (He : (n - 1 <> 0)%Z) by lia.
    assert (((-4 <? n) && (n <=? 16))%Z = false) as -> by prove_bool.
    rewrite conv_front.
    + rewrite tail_exp; auto. unfold assemble.
      assert (Hsub : (17 <= n <= 21 \/ -6 < n <= -4 \/ (n <= -6 \/ 21 < n))%Z) by lia.
      destruct Hsub as [Hs|[Hs|Hs]].
      * (* 1e16 <= x < 1e21: all digits, then zeros *)
        ifs. f_equal. f_equal. change ([dchar d] ++ dchars rest) with (dchars (d :: rest)). f_equal.
        f_equal. unfold dchars. rewrite map_length. fold k. lia.
      * (* 1e-6 <= x < 1e-4 *)
        ifs. f_equal. f_equal. simpl. f_equal. f_equal. f_equal. f_equal. lia.
      * ifs. f_equal. f_equal. destruct rest; simpl; reflexivity.
    + destruct rest; simpl; eexists; eexists; split; try reflexivity; exact Hdd.
    + apply Forall_app; split; [|apply exp_text_py_rc].
      destruct rest as [|r0 rest]; simpl.
      * constructor; [left; exact Hdd|constructor].
      * constructor; [left; exact Hdd|]. constructor; [right; left; reflexivity|]. apply rc_dig. exact HR.
    + exists (dchar d). split; [|exact Hd']. apply in_or_app. left. destruct rest; simpl; left; reflexivity.
Qed.

Lemma num_nan_inf_refused_proof :
  convert2es6 (u "nan") = JRaise ValueError /\ convert2es6 (u "inf") = JRaise ValueError /\
  convert2es6 (u "-inf") = JRaise ValueError.
Proof. repeat split; reflexivity. Qed.

Lemma wf_digits_example : wf_digits [1; 2; 5].
Proof. unfold wf_digits. simpl. repeat split; try lia. repeat constructor; lia. Qed.

Lemma num_zero_pos : convert2es6 [c_0; c_dot; c_0] = JOk [c_0].
Proof. reflexivity. Qed.

Lemma num_zero_neg : convert2es6 [c_minus; c_0; c_dot; c_0] = JOk [c_0].
Proof. reflexivity. Qed.

Lemma wf_digits_15 : wf_digits [1; 5].
Proof. unfold wf_digits. simpl. repeat split; try lia. repeat constructor; lia. Qed.

(* an int that float() cannot hold is refused with ValueError *)
Lemma canon_refuses_too_large_int_proof : forall z, float_overflows z = true -> canon (JInt z) = JRaise ValueError.
Proof.
  intros z H. unfold canon, int_too_big. 
  assert (E : int_float_repr z = None).
  { unfold int_float_repr, float_overflows in *. apply Z.leb_le in H.
    assert (B : (9007199254740992 < 2 ^ 1024 - 2 ^ 970)%Z) by (vm_compute; reflexivity).
    destruct (Z.eqb_spec z 0); [subst; exfalso; simpl in H; lia|].
    destruct (Z.leb_spec (Z.abs z) 9007199254740992); [exfalso; lia|reflexivity]. }
  rewrite E, H. reflexivity.
Qed.

(* Proofs/FiltersBasics.v -- basic facts about Model/Filters.v: string
   equality, the result monad, all_hold / apply_filters as a filter,
   permutation helpers.                                                  *)
From Coq Require Import NArith ZArith List Bool Permutation Lia.
From V Require Import Base.UString Model.Filters.
Import ListNotations.

(* ---- strings ---- *)

Lemma ustr_eqb_refl : forall a, ustr_eqb a a = true.
Proof. induction a; simpl; auto. rewrite N.eqb_refl. auto. Qed.

Lemma ustr_eqb_eq : forall a b, ustr_eqb a b = true <-> a = b.
Proof.
  induction a; destruct b; simpl; split; intro H; try discriminate; auto.
  - apply andb_true_iff in H. destruct H as [H1 H2]. apply N.eqb_eq in H1. apply IHa in H2. subst. auto.
  - inversion H; subst. rewrite N.eqb_refl. simpl. apply IHa. auto.
Qed.

Lemma ustr_eqb_neq : forall a b, ustr_eqb a b = false <-> a <> b.
Proof.
  intros a b. split; intro H.
  - intro E. apply ustr_eqb_eq in E. congruence.
  - destruct (ustr_eqb a b) eqn:E; auto. apply ustr_eqb_eq in E. contradiction.
Qed.

Lemma ustr_eqb_sym : forall a b, ustr_eqb a b = ustr_eqb b a.
Proof.
  intros a b. destruct (ustr_eqb a b) eqn:E.
  - apply ustr_eqb_eq in E. subst. symmetry. apply ustr_eqb_refl.
  - destruct (ustr_eqb b a) eqn:E2; auto. apply ustr_eqb_eq in E2. subst. rewrite ustr_eqb_refl in E. discriminate.
Qed.

(* x == "a string" *)
Lemma py_eq_str_l : forall a y, py_eq (VStr a) y = true <-> y = VStr a.
Proof.
  intros a y. destruct y; simpl; split; intro H; try discriminate; try (inversion H; fail).
  - apply ustr_eqb_eq in H. subst. auto.
  - inversion H; subst. apply ustr_eqb_refl.
Qed.

Lemma py_eq_str_str : forall a b, py_eq (VStr a) (VStr b) = ustr_eqb a b.
Proof. reflexivity. Qed.

Lemma pset_mem_str : forall a l, pset_mem (VStr a) l = true <-> In (VStr a) l.
Proof.
  intros a l. unfold pset_mem. rewrite existsb_exists. split.
  - intros [y [Hy He]]. apply py_eq_str_l in He. subst. auto.
  - intro H. exists (VStr a). split; auto. apply py_eq_str_l. auto.
Qed.

Lemma pset_mem_str_false : forall a l, pset_mem (VStr a) l = false <-> ~ In (VStr a) l.
Proof.
  intros a l. split; intro H.
  - intro Hin. apply pset_mem_str in Hin. congruence.
  - destruct (pset_mem (VStr a) l) eqn:E; auto. apply pset_mem_str in E. contradiction.
Qed.

(* ---- result monad ---- *)

Lemma bind_ok : forall {A B} (r : res A) (k : A -> res B) b,
  bind r k = Ok b -> exists a, r = Ok a /\ k a = Ok b.
Proof. intros A B r k b H. destruct r; simpl in H; try discriminate. eauto. Qed.

Lemma bind_raise : forall {A B} (r : res A) (k : A -> res B) e,
  bind r k = Raise e -> r = Raise e \/ exists a, r = Ok a /\ k a = Raise e.
Proof.
  intros A B r k e H. destruct r as [a|e0]; simpl in H.
  - right. exists a. split; auto.
  - left. inversion H; subst; auto.
Qed.

(* ---- the verdict of a filter list on one object ---- *)

Definition holds_b (mode : ts_mode) (fl : list flt) (o : pv) : bool :=
  match all_hold mode fl o with Ok true => true | _ => false end.

Definition defined_on (mode : ts_mode) (fl : list flt) (o : pv) : Prop :=
  exists b, all_hold mode fl o = Ok b.

Lemma all_hold_true : forall mode fl o,
  all_hold mode fl o = Ok true <-> (forall f, In f fl -> check_filter mode f o = Ok true).
Proof.
  induction fl; intro o; simpl.
  - split; auto. intros _ f [].
  - split.
    + intros H f [Hf | Hf].
      * subst. destruct (check_filter mode f o) as [[|]|]; simpl in H; auto; discriminate.
      * destruct (check_filter mode a o) as [[|]|]; simpl in H; try discriminate. apply IHfl; auto.
    + intro H. rewrite (H a (or_introl eq_refl)). simpl. apply IHfl. intros f Hf. apply H. auto.
Qed.

Lemma all_hold_false : forall mode fl o,
  all_hold mode fl o = Ok false -> exists f, In f fl /\ check_filter mode f o = Ok false.
Proof.
  induction fl; intros o H; simpl in H; try discriminate.
  destruct (check_filter mode a o) as [[|]|] eqn:E; simpl in H; try discriminate.
  - destruct (IHfl o H) as [f [Hf Hc]]. exists f. split; auto. right; auto.
  - exists a. split; auto. left; auto.
Qed.

Lemma holds_b_true : forall mode fl o,
  holds_b mode fl o = true <-> (forall f, In f fl -> check_filter mode f o = Ok true).
Proof.
  intros. unfold holds_b. rewrite <- all_hold_true.
  destruct (all_hold mode fl o) as [[|]|]; split; intro H; auto; discriminate.
Qed.

(* a filter that does not say "True" makes the object fail *)
Lemma holds_b_false_of : forall mode fl o f,
  In f fl -> check_filter mode f o <> Ok true -> holds_b mode fl o = false.
Proof.
  intros mode fl o f Hin Hne. destruct (holds_b mode fl o) eqn:E; auto.
  rewrite holds_b_true in E. specialize (E f Hin). contradiction.
Qed.

(* ---- apply_filters is `filter`, provided nothing raises ---- *)

Lemma apply_filters_ok : forall mode fl objs r,
  apply_filters mode fl objs = Ok r <->
  (Forall (defined_on mode fl) objs /\ r = filter (holds_b mode fl) objs).
Proof.
  induction objs; intro r; simpl.
  - split.
    + intro H. inversion H. split; auto.
    + intros [_ H]. subst. auto.
  - split.
    + intro H. apply bind_ok in H. destruct H as [b [Hb H]].
      apply bind_ok in H. destruct H as [r' [Hr' H]]. inversion H; subst; clear H.
      apply IHobjs in Hr'. destruct Hr' as [HF Hr]. split.
      * constructor; auto. exists b. auto.
      * subst. simpl. assert (Hh : holds_b mode fl a = b) by (unfold holds_b; rewrite Hb; destruct b; auto).
        rewrite Hh. destruct b; auto.
    + intros [HF Hr]. inversion HF as [|x l [b Hb] HF']; subst.
      rewrite Hb. simpl.
      assert (Hrec : apply_filters mode fl objs = Ok (filter (holds_b mode fl) objs)) by (apply IHobjs; auto).
      rewrite Hrec. simpl.
      assert (Hh : holds_b mode fl a = b) by (unfold holds_b; rewrite Hb; destruct b; auto).
      rewrite Hh. destruct b; auto.
Qed.

Lemma apply_filters_total : forall mode fl objs,
  Forall (defined_on mode fl) objs -> apply_filters mode fl objs = Ok (filter (holds_b mode fl) objs).
Proof. intros. apply apply_filters_ok. auto. Qed.

Lemma apply_filters_raise : forall mode fl objs e,
  apply_filters mode fl objs = Raise e -> exists o e', In o objs /\ all_hold mode fl o = Raise e'.
Proof.
  induction objs; intros e H; simpl in H; try discriminate.
  apply bind_raise in H. destruct H as [H | [b [Hb H]]].
  - exists a, e. split; auto. left; auto.
  - apply bind_raise in H. destruct H as [H | [r [Hr H]]]; try discriminate.
    destruct (IHobjs e H) as [o [e' [Hin Ho]]]. exists o, e'. split; auto. right; auto.
Qed.

Lemma apply_filters_ok_or_raise : forall mode fl objs,
  (exists r, apply_filters mode fl objs = Ok r) \/ (exists e, apply_filters mode fl objs = Raise e).
Proof. intros. destruct (apply_filters mode fl objs); eauto. Qed.

Lemma defined_on_of_ok : forall mode fl objs r,
  apply_filters mode fl objs = Ok r -> Forall (defined_on mode fl) objs.
Proof. intros. apply apply_filters_ok in H. tauto. Qed.

(* ---- permutation helpers ---- *)

Lemma Permutation_filter : forall {A} (g : A -> bool) (l l' : list A),
  Permutation l l' -> Permutation (filter g l) (filter g l').
Proof.
  intros A g l l' H. induction H; simpl; auto.
  - destruct (g x); auto.
  - destruct (g x), (g y); auto. apply perm_swap.
  - eapply Permutation_trans; eauto.
Qed.

Lemma filter_partition_perm : forall {A} (g : A -> bool) (l : list A),
  Permutation l (filter g l ++ filter (fun x => negb (g x)) l).
Proof.
  induction l; simpl; auto.
  destruct (g a); simpl.
  - constructor. auto.
  - apply Permutation_cons_app. auto.
Qed.

Lemma filter_none : forall {A} (g : A -> bool) (l : list A),
  (forall x, In x l -> g x = false) -> filter g l = [].
Proof.
  induction l; simpl; auto. intro H. rewrite (H a (or_introl eq_refl)). apply IHl. intros. apply H. auto.
Qed.

Lemma filter_flat_map : forall {A B} (g : B -> bool) (f : A -> list B) (l : list A),
  filter g (flat_map f l) = flat_map (fun x => filter g (f x)) l.
Proof.
  induction l; simpl; auto. rewrite filter_app. rewrite IHl. auto.
Qed.

Lemma flat_map_nil_on : forall {A B} (f : A -> list B) (l : list A),
  (forall x, In x l -> f x = []) -> flat_map f l = [].
Proof.
  induction l; simpl; auto. intro H. rewrite (H a (or_introl eq_refl)). simpl. apply IHl. intros. apply H. auto.
Qed.

Lemma Forall_flat_map : forall {A B} (P : B -> Prop) (f : A -> list B) (l : list A),
  Forall P (flat_map f l) <-> Forall (fun x => Forall P (f x)) l.
Proof.
  induction l; simpl.
  - split; constructor.
  - rewrite Forall_app. rewrite IHl. split.
    + intros [H1 H2]. constructor; auto.
    + intro H. inversion H; auto.
Qed.

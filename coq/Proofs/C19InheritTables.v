(* Proofs/C19InheritTables.v -- `custom types inherit`, the part evaluated by
   the kernel on the generated tables: the standard properties a decorator
   puts around the user's are, slot for slot, those the frozen specification
   tables (Gen/SpecTables.v) and the library's own tables (Gen/Tables.v) give
   a built-in type of the same family and version; and the side condition of
   the generic C02 theorem holds for the library world extended by any
   registered custom type.                                                   *)
From Coq Require Import NArith ZArith List String Bool.
From V Require Import Base.UString Base.Json Model.SchemaTypes Model.PyBase Spec.SchemaRefine Model.RegistryBuilder
                      Gen.Tables Gen.SpecTables Proofs.SchemaTables Proofs.C19Inherit Proofs.C19InheritRefine.
From V Require Model.Registry.
Import ListNotations.

(* the reference built-in class of each family and version *)
Definition ref_class (w : world) (k : ckind) (V : ver) : option cls :=
  match k, V with
  | CObject, V20 => find_class (wclasses w) (u "2.0/Identity")
  | CObject, V21 => find_class (wclasses w) (u "2.1/Identity")
  | CObservable, V20 => find_class (wclasses w) (u "2.0/File")
  | CObservable, V21 => find_class (wclasses w) (u "2.1/File")
  | _, _ => None
  end.
Definition ref_type (k : ckind) : ustring := match k with CObject => u "identity" | _ => u "file" end.

(* which `confidence` a world's reference 2.1 object class has *)
Definition bvar_of_world (w : world) : option bvar :=
  match ref_class w CObject V21 with
  | Some c => match find_slot c (u "confidence") with
              | Some s => match skind s with
                          | KInt None None => Some {| b_conf_range := false |}
                          | KInt (Some 0%Z) (Some 100%Z) => Some {| b_conf_range := true |}
                          | _ => None
                          end
              | None => None
              end
  | None => None
  end.

(* every standard slot of a custom type NAMED LIKE the reference type is a slot of the reference class *)
Definition standard_in (w : world) (k : ckind) (V : ver) : Prop :=
  exists bv c, bvar_of_world w = Some bv /\ ref_class w k V = Some c /\
            map (fun s => find_slot c (sname s)) (standard_slots bv k V (ref_type k) None)
            = map Some (standard_slots bv k V (ref_type k) None).

Lemma standard_in_spec_lemma : forall k V, (k = CObject \/ k = CObservable) -> standard_in spec k V.
Proof. intros k V [-> | ->]; destruct V; (eexists; eexists; split; [vm_compute; reflexivity | split; vm_compute; reflexivity]). Qed.

Lemma standard_in_lib_lemma : forall k V, (k = CObject \/ k = CObservable) -> standard_in lib k V.
Proof. intros k V [-> | ->]; destruct V; (eexists; eexists; split; [vm_compute; reflexivity | split; vm_compute; reflexivity]). Qed.

(* the type name enters the standard slots only through `type` and `id`, uniformly *)
Lemma standard_slots_name_lemma : forall bv k V n xt s, In s (standard_slots bv k V n xt) ->
  s = s_type n \/ (exists V', s = s_id n V') \/ (forall n', In s (standard_slots bv k V n' xt)).
Proof.
  intros bv k V n xt s I.
  destruct k, V; simpl in I; try contradiction; try (destruct xt as [x|]; simpl in I; try contradiction);
    repeat (destruct I as [<- | I];
            [first [left; reflexivity | right; left; eexists; reflexivity | right; right; intros n'; simpl; tauto]|]);
    try contradiction.
Qed.

(* the library world extended by a registered custom type still satisfies the side condition
   `world_refines` of the generic C02 theorem, against the (relaxed) specification extended by
   the same class: what the specification says about a custom type is its common properties --
   which by standard_in_spec are the builder's -- plus the properties the user declared *)
Lemma extended_world_refines_lemma : forall bv k V n xt user cn,
  forallb slot_kind_ok user = true ->
  find_class (wclasses spec_relaxed) (custom_cid cn) = None ->
  name_ok_for k n = true ->
  world_refines (world_add lib k V n (custom_cls bv k V n xt user cn))
                (world_add spec_relaxed k V n (custom_cls bv k V n xt user cn)) = true.
Proof.
  intros bv k V n xt user cn HK HF HN. apply world_refines_add_lemma.
  - exact lib_refines_relaxed.
  - exact HF.
  - reflexivity.
  - apply custom_refines_itself_lemma. exact HK.
  - exact HN.
Qed.

(* no built-in class id has the form of a custom class id, so the freshness premise always holds *)
Lemma custom_cid_fresh_lemma : forall cn, find_class (wclasses spec_relaxed) (custom_cid cn) = None.
Proof.
  intros cn.
  assert (G : forall cs, forallb (fun c => match cid c with 50%N :: _ => true | _ => false end) cs = true ->
                         find_class cs (custom_cid cn) = None).
  { induction cs as [|c cs IH]; simpl; intros H; auto. apply andb_true_iff in H. destruct H as [H1 H2].
    destruct (cid c) as [|x r] eqn:E; try discriminate.
    destruct (ustr_eqb (x :: r) (custom_cid cn)) eqn:Q; auto.
    apply ueqb_eq in Q. unfold custom_cid in Q. vm_compute in Q. inversion Q; subst. vm_compute in H1. discriminate. }
  apply G. vm_compute. reflexivity.
Qed.

(* Proofs/ErrorsWitness.v -- C17: concrete inputs on which the model with ONE
   site left unguarded (and the live class tables) produces an outcome outside
   the documented family.  The harness runs the same inputs on the
   implementation to decide which sites the code under check has guarded. *)
From Coq Require Import NArith ZArith List String Bool.
From V Require Import Base.UString Base.Json Model.Errors Gen.C17Classes Proofs.ErrorsFacts.
Import ListNotations.
Open Scope string_scope.

Definition has_nonfamily {A} (m : M A) : bool :=
  existsb (fun r => match r with Exc e _ => negb (family e) | Val _ => false end) m.

Lemma has_nonfamily_sound : forall A (m : M A), has_nonfamily m = true ->
  exists e s, In (Exc e s) m /\ family e = false.
Proof.
  intros A m H. unfold has_nonfamily in H. apply existsb_exists in H.
  destruct H as [r [Hin Hr]]. destruct r as [a|e s]; [discriminate Hr|].
  exists e, s. split; [exact Hin|]. destruct (family e); [discriminate Hr|reflexivity].
Qed.

Definition s_ (x : string) : jvalue := JStr (u x).
Definition uuid := "8e2e2d2b-17d4-4cbf-938f-98ee46b3cd3f".
Definition ts := "2020-01-01T00:00:00.000Z".

Definition identity21 (extra : list (ustring * jvalue)) : jvalue :=
  JObj ([(u "type", s_ "identity"); (u "spec_version", s_ "2.1"); (u "id", s_ ("identity--" ++ uuid));
         (u "created", s_ ts); (u "modified", s_ ts); (u "name", s_ "n")] ++ extra)%list.

Definition w_init_extensions_items := identity21 [(u "extensions", s_ "abc")].
Definition w_init_extension_entry := identity21 [(u "extensions", JObj [(u "foo-ext", JInt 5)])].
Definition w_init_toplevel_props :=
  JObj [(u "type", s_ "file"); (u "spec_version", s_ "2.1"); (u "id", s_ ("file--" ++ uuid)); (u "name", s_ "x");
        (u "extensions", JObj [(u "ntfs-ext", JObj [(u "extension_type", s_ "toplevel-property-extension"); (u "sid", s_ "1")])])].
Definition w_init_custom_props_keys := identity21 [(u "custom_properties", JInt 0)].
Definition w_cons_custom_gm :=      (* parsed with allow_custom=True *)
  JObj [(u "type", s_ "bundle"); (u "id", s_ ("bundle--" ++ uuid)); (u "objects", JArr [identity21 []]);
        (u "granular_markings", JArr [JInt 5])].
Definition w_ms20_precision :=
  JObj [(u "type", s_ "marking-definition"); (u "id", s_ ("marking-definition--" ++ uuid)); (u "created", JInt 5);
        (u "definition_type", s_ "statement"); (u "definition", JObj [(u "statement", s_ "s")])].
Definition w_d2s_extensions_items :=
  JObj [(u "type", s_ "x-foo"); (u "id", s_ ("x-foo--" ++ uuid)); (u "extensions", s_ "abc")].
Definition w_d2s_extension_entry :=
  JObj [(u "type", s_ "x-foo"); (u "id", s_ ("x-foo--" ++ uuid));
        (u "extensions", JObj [(u ("extension-definition--" ++ uuid), JInt 5)])].
Definition w_detect_objects := JObj [(u "type", s_ "bundle"); (u "id", s_ ("bundle--" ++ uuid))].
Definition w_detect_type :=
  JObj [(u "type", s_ "bundle"); (u "id", s_ ("bundle--" ++ uuid)); (u "objects", JArr [JObj [(u "id", s_ "x")]])].
Definition w_tlp_definition :=
  JObj [(u "type", s_ "marking-definition"); (u "spec_version", s_ "2.1"); (u "id", s_ ("marking-definition--" ++ uuid));
        (u "created", s_ ts); (u "definition_type", s_ "tlp");
        (u "extensions", JObj [(u ("extension-definition--" ++ uuid), JObj [(u "extension_type", s_ "property-extension")])])].
Definition w_validator_crash20 :=
  JObj [(u "type", s_ "indicator"); (u "id", s_ ("indicator--" ++ uuid)); (u "created", s_ ts); (u "modified", s_ ts);
        (u "pattern", s_ ""); (u "valid_from", s_ ts); (u "labels", JArr [s_ "x"])].
Definition w_validator_crash21 :=
  JObj [(u "type", s_ "indicator"); (u "spec_version", s_ "2.1"); (u "id", s_ ("indicator--" ++ uuid)); (u "created", s_ ts);
        (u "modified", s_ ts); (u "pattern", s_ ""); (u "pattern_type", s_ "stix"); (u "valid_from", s_ ts)].
Definition w_json_depth := s_ "[[[[...".       (* stands for a text nested beyond the interpreter's limit *)
Definition dec_deep : decoder := fun _ => TTooDeep.

Definition w_genid_number_range :=
  JObj [(u "type", s_ "autonomous-system"); (u "spec_version", s_ "2.1"); (u "number", JInt (10 ^ 400)%Z)].

Definition witness (s : site) : option (jvalue * bool * decoder) :=
  let nodec := dec_table [] in
  match s with
  | S_lib => None
  | S_init_extensions_items => Some (w_init_extensions_items, false, nodec)
  | S_init_extension_entry => Some (w_init_extension_entry, false, nodec)
  | S_init_toplevel_props => Some (w_init_toplevel_props, false, nodec)
  | S_init_custom_props_keys => Some (w_init_custom_props_keys, false, nodec)
  | S_cons_custom_gm => Some (w_cons_custom_gm, true, nodec)
  | S_ms20_precision => Some (w_ms20_precision, false, nodec)
  | S_d2s_extensions_items => Some (w_d2s_extensions_items, false, nodec)
  | S_d2s_extension_entry => Some (w_d2s_extension_entry, false, nodec)
  | S_detect_objects => Some (w_detect_objects, false, nodec)
  | S_detect_type => Some (w_detect_type, false, nodec)
  | S_tlp_definition => Some (w_tlp_definition, false, nodec)
  | S_validator_crash20 => Some (w_validator_crash20, false, nodec)
  | S_validator_crash21 => Some (w_validator_crash21, false, nodec)
  | S_json_depth => Some (w_json_depth, false, dec_deep)
  | S_genid_number_range => Some (w_genid_number_range, false, nodec)
  end.

(* with only site s unguarded, the witness of s escapes the family AT s;
   with every site guarded, it does not *)
Definition witness_refutes (s : site) : bool :=
  match witness s with
  | None => true
  | Some (x, ac, dec) =>
      existsb (fun r => match r with Exc e s' => negb (family e) && site_beq s s' | Val _ => false end)
              (parse (unguarded_at [s]) live clean_any true false dec x ac false None)
      && negb (has_nonfamily (parse repaired live clean_any true false dec x ac false None))
  end.

Lemma all_witnesses_refute : forallb witness_refutes all_sites = true.
Proof. vm_compute. reflexivity. Qed.

Lemma witness_refutes_sound : forall s x ac dec, witness s = Some (x, ac, dec) -> witness_refutes s = true ->
  exists e, In (Exc e s) (parse (unguarded_at [s]) live clean_any true false dec x ac false None) /\ family e = false.
Proof.
  intros s x ac dec Hw H. unfold witness_refutes in H. rewrite Hw in H.
  apply andb_true_iff in H. destruct H as [H _]. apply existsb_exists in H.
  destruct H as [r [Hin Hr]]. destruct r as [a|e s']; [discriminate Hr|].
  apply andb_true_iff in Hr. destruct Hr as [Hf Hs].
  assert (s = s') by (apply internal_site_dec_bl; exact Hs). subst s'.
  exists e. split; [exact Hin|]. destruct (family e); [discriminate Hf|reflexivity].
Qed.

Lemma site_refuted : forall s, s <> S_lib ->
  exists x ac dec e, In (Exc e s) (parse (unguarded_at [s]) live clean_any true false dec x ac false None) /\ family e = false.
Proof.
  intros s Hs.
  assert (Hall := all_witnesses_refute). rewrite forallb_forall in Hall.
  assert (Hin : In s all_sites) by (destruct s; simpl; tauto).
  specialize (Hall s Hin).
  destruct (witness s) as [[[x ac] dec]|] eqn:Hw.
  - exists x, ac, dec. eapply witness_refutes_sound; eassumption.
  - destruct s; try discriminate Hw. contradiction Hs; reflexivity.
Qed.

Lemma live_known : reg_known live = true.
Proof. vm_compute. reflexivity. Qed.

Lemma all_classes_known : forallb (fun kc => cls_known (snd kc)) all_classes = true.
Proof. vm_compute. reflexivity. Qed.

(* the registries after the harness's user registrations (c17_impl.register_custom: classes built by
   stix2/custom.py around user classes without their own __init__) *)
Lemma live_custom_known : reg_known live_custom = true.
Proof. vm_compute. reflexivity. Qed.

(* stix2/exceptions.py as read by the generator: every __str__ / __repr__ / __init__ formats a constant template *)
Lemma exceptions_templates_ok : exceptions_str_templates_constant = true.
Proof. reflexivity. Qed.

(* translators/tr_c17flow.py: the operations of the mirrored functions of the current source are all accounted for,
   and every site has its guarded form there *)
Lemma source_inventory_ok : source_inventory_reviewed = true.
Proof. reflexivity. Qed.

Lemma source_all_guarded : forall s, s <> S_genid_number_range -> source_variant s = true.
Proof. intros s Hs. destruct s; try reflexivity; (contradiction Hs; reflexivity). Qed.

Lemma source_all_guarded_given : source_variant S_genid_number_range = true -> all_guarded source_variant.
Proof. intros H s. destruct s; try reflexivity; exact H. Qed.

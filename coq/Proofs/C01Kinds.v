(* Proofs/C01Kinds.v -- clean_encode_idem, kind by kind:
   cleaning the ENCODING of a cleaned value gives that cleaned value back, with the same
   custom-content flag (Property.clean is idempotent on its own serialized output).
   Leaf kinds here (no nested constructor); lists of proved kinds; the kinds that call
   constructors / parsers take the idempotence of those calls as hypotheses (supplied by the
   induction over fuel in Proofs/C01Roundtrip.v).                                  *)
From Coq Require Import NArith ZArith List String Bool Lia.
From V Require Import Base.UString Base.Json Model.SchemaTypes Model.PyBase Model.Schema.
From V Require Model.Timestamp Model.Calendar.
From V Require Import Proofs.C01Basics Proofs.TimestampFacts Proofs.C15Proofs.
Import ListNotations.

Ltac destr_match H :=
  match type of H with
  | context [match ?x with _ => _ end] => destruct x eqn:?
  end.
Ltac inv H := inversion H; subst; clear H.
Ltac walk H := unfold bind in H; repeat (destr_match H; try discriminate).
Ltac inv_ok H := match type of H with Ok _ = Ok _ => inv H end.

(* ------------------------------------------------------------------ timestamps *)
Lemma ts_text_reads_back : forall p c t,
  Calendar.in_range t = true ->
  let t' := Timestamp.stored_trunc (ts_prec p) (ts_constr c) t in
  ts_clean true p c (Timestamp.format Timestamp.Pad4 (ts_prec p) (ts_constr c) t') =
  Ok (t', Timestamp.format Timestamp.Pad4 (ts_prec p) (ts_constr c) t').
Proof.
  intros p c t R t'. unfold ts_clean.
  assert (Rt' : Calendar.in_range t' = true).
  { unfold t'. rewrite stored_trunc_floor. apply floor_in_range. exact R. }
  rewrite (parse_format_lemma (ts_prec p) (ts_constr c) t' Rt').
  assert (E : Timestamp.stored_trunc (ts_prec p) (ts_constr c)
                (TimestampSpec.floor_to (sp (ts_prec p)) (sc (ts_constr c)) t') = t').
  { rewrite stored_trunc_floor. rewrite floor_idem. unfold t'. rewrite stored_trunc_floor. apply floor_idem. }
  rewrite E. reflexivity.
Qed.

Lemma ts_clean_idem : forall p c s us txt,
  ts_clean true p c s = Ok (us, txt) -> ts_clean true p c txt = Ok (us, txt).
Proof.
  intros p c s us txt H. unfold ts_clean in H.
  destruct (Timestamp.parse_strptime s) as [t |] eqn:E; try discriminate.
  inv H. apply ts_text_reads_back. eapply parse_strptime_in_range; eauto.
Qed.

Lemma ts_clean_now_idem : forall p c now us txt,
  ts_clean_now true p c now = Ok (us, txt) -> ts_clean true p c txt = Ok (us, txt).
Proof.
  intros p c now us txt H. unfold ts_clean_now in H.
  destruct (Calendar.in_range now) eqn:R; try discriminate.
  inv H. apply ts_text_reads_back. exact R.
Qed.

(* ------------------------------------------------------------------ jvalue_eqb *)
Lemma jvalue_eqb_eq : forall a b0, jvalue_eqb a b0 = true -> a = b0.
Proof.
  intros a. induction a using jvalue_nested_ind; intros b0; destruct b0; cbn [jvalue_eqb]; intros E; try discriminate; auto.
  - f_equal. apply Bool.eqb_prop. exact E.
  - f_equal. apply Z.eqb_eq. exact E.
  - f_equal. apply ustr_eqb_eq. exact E.
  - f_equal. apply ustr_eqb_eq. exact E.
  - f_equal. revert l0 E. induction H as [| x xs Hx Hxs IH]; intros [| y ys] E; try discriminate; auto.
    apply andb_true_iff in E. destruct E as [E1 E2]. f_equal; auto.
  - f_equal. revert m0 E. induction H as [| [k x] xs Hx Hxs IH]; intros [| [k' y] ys] E; try discriminate; auto.
    apply andb_true_iff in E. destruct E as [E12 E3]. apply andb_true_iff in E12. destruct E12 as [E1 E2].
    apply ustr_eqb_eq in E1. subst. f_equal; auto. f_equal. apply Hx. exact E2.
Qed.

Lemma jvalue_eqb_refl : forall a, jvalue_eqb a a = true.
Proof.
  induction a using jvalue_nested_ind; cbn [jvalue_eqb]; auto.
  - destruct b; reflexivity.
  - apply Z.eqb_refl.
  - apply ustr_eqb_refl.
  - apply ustr_eqb_refl.
  - induction H; auto. rewrite H. cbn [andb]. exact IHForall.
  - induction H as [| [k x] xs Hx Hxs IH]; auto. cbn [fst snd] in Hx. rewrite ustr_eqb_refl, Hx. cbn [andb]. exact IH.
Qed.

(* ------------------------------------------------------------------ hashes *)
Section Hashes.
  Variable vr : variant.
  Variable names : list ustring.
  Variable allow : bool.

  (* the member name an entry is stored under, and what it contributes to the flag *)
  Definition hash_target (k : ustring) : ustring * bool :=
    match infer_hash k with
    | Some alg => match hash_spec_name names alg with Some n => (n, false) | None => (k, true) end
    | None => (k, negb (mem_ustr k names))
    end.
  Definition hash_value_ok (k : ustring) (hv : jvalue) : bool :=
    match infer_hash k with
    | Some alg => match hv with JStr s => check_hash (vr_hash_z vr) alg s | _ => false end
    | None => true
    end.

  Lemma hashes_loop_step : forall k hv r acc hc,
    hashes_loop vr names allow ((k, hv) :: r) acc hc =
    if hash_value_ok k hv then
      let '(n, c) := hash_target k in
      if negb allow && (hc || c) then Err ECustomContent
      else hashes_loop vr names allow r (aset n (PJ hv) acc) (hc || c)
    else match infer_hash k with
         | Some _ => match hv with JStr _ => Err EValueError | _ => Err ETypeError end
         | None => Ok (PMap acc, hc)   (* unreachable: hash_value_ok is true then *)
         end.
  Proof.
    intros. cbn [hashes_loop]. unfold hash_value_ok, hash_target.
    destruct (infer_hash k) as [alg |].
    - destruct hv; try reflexivity.
      destruct (check_hash (vr_hash_z vr) alg s); cbn [negb]; try reflexivity.
      destruct (hash_spec_name names alg); cbn [orb]; try rewrite orb_false_r; try rewrite orb_true_r; reflexivity.
    - reflexivity.
  Qed.

  (* a spec name maps to itself: it is found again as the spec name of its own algorithm *)
  Lemma spec_name_self : forall alg n, hash_spec_name names alg = Some n ->
    infer_hash n = Some alg /\ hash_target n = (n, false).
  Proof.
    intros alg n H. unfold hash_spec_name in H. pose proof (find_some _ _ H) as [_ P].
    destruct (infer_hash n) as [a |] eqn:E; try discriminate.
    apply ustr_eqb_eq in P. subst a. split; auto.
    unfold hash_target. rewrite E. unfold hash_spec_name. rewrite H. reflexivity.
  Qed.

  (* targets are fixed points of hash_target, with the same contribution *)
  Lemma hash_target_idem : forall k n c, hash_target k = (n, c) -> hash_target n = (n, c).
  Proof.
    intros k n c H. unfold hash_target in H.
    destruct (infer_hash k) as [alg |] eqn:E.
    - destruct (hash_spec_name names alg) as [n' |] eqn:S; inv H.
      + apply (spec_name_self alg n S).
      + unfold hash_target. rewrite E, S. reflexivity.
    - inv H. unfold hash_target. rewrite E. reflexivity.
  Qed.

  Lemma hash_value_ok_target : forall k hv n c, hash_target k = (n, c) -> hash_value_ok k hv = true -> hash_value_ok n hv = true.
  Proof.
    intros k hv n c H V. unfold hash_target in H. unfold hash_value_ok in *.
    destruct (infer_hash k) as [alg |] eqn:E.
    - destruct (hash_spec_name names alg) as [n' |] eqn:S; inv H.
      + destruct (spec_name_self alg n S) as [E' _]. rewrite E'. exact V.
      + rewrite E. exact V.
    - inv H. rewrite E. reflexivity.
  Qed.

  (* what the accumulator of a successful run looks like *)
  Definition entry_ok (kx : ustring * pval) : Prop :=
    exists hv, snd kx = PJ hv /\ hash_value_ok (fst kx) hv = true /\ exists c, hash_target (fst kx) = (fst kx, c).
  Definition flag_of (acc : list (ustring * pval)) : bool := existsb (fun kx => snd (hash_target (fst kx))) acc.

  Lemma aset_Forall : forall (P : ustring * pval -> Prop) k v acc, Forall P acc -> P (k, v) -> Forall P (aset k v acc).
  Proof.
    induction acc as [| [k' v'] r IH]; intros F H; cbn [aset].
    - constructor; auto.
    - inversion F; subst. destruct (ustr_eqb k k'); constructor; auto.
  Qed.

  Lemma flag_of_aset : forall k v acc, flag_of (aset k v acc) = flag_of acc || snd (hash_target k).
  Proof.
    unfold flag_of. induction acc as [| [k' v'] r IH]; cbn [aset existsb fst].
    - rewrite orb_false_r. reflexivity.
    - destruct (ustr_eqb k k') eqn:E; cbn [existsb fst].
      + apply ustr_eqb_eq in E. subst. destruct (snd (hash_target k')); cbn [orb]; auto. rewrite orb_false_r. reflexivity.
      + rewrite IH. rewrite orb_assoc. reflexivity.
  Qed.

  Lemma aset_nonempty : forall (A : Type) k (v : A) acc, aset k v acc <> [].
  Proof. intros A k v [| [k' v'] r]; cbn [aset]; [| destruct (ustr_eqb k k')]; discriminate. Qed.

  Lemma hashes_loop_nonempty : forall l acc hc p h,
    hashes_loop vr names allow l acc hc = Ok (PMap p, h) -> acc <> [] -> p <> [].
  Proof.
    induction l as [| [k2 hv2] r2 IH2]; intros acc0 hc0 p h H2 Hne.
    - cbn [hashes_loop] in H2. inv H2. exact Hne.
    - rewrite hashes_loop_step in H2. destruct (hash_value_ok k2 hv2).
      + destruct (hash_target k2) as [n2 c2]. destruct (negb allow && (hc0 || c2)); try discriminate.
        eapply IH2; [exact H2 | apply aset_nonempty].
      + destruct (infer_hash k2); [destruct hv2; discriminate |]. inv H2. exact Hne.
  Qed.

  Lemma hashes_loop_inv : forall l acc hc acc' hc',
    hashes_loop vr names allow l acc hc = Ok (PMap acc', hc') ->
    Forall entry_ok acc -> NoDup (map fst acc) ->
    Forall entry_ok acc' /\ NoDup (map fst acc') /\ hc' = hc || existsb (fun k => snd (hash_target k)) (map fst l) /\
    (acc = [] -> l <> [] -> acc' <> []) /\ (forall p h, hashes_loop vr names allow l acc hc = Ok (p, h) -> p = PMap acc').
  Proof.
    induction l as [| [k hv] r IH]; intros acc hc acc' hc' H F ND.
    - cbn [hashes_loop] in H. inv H. cbn [map existsb]. rewrite orb_false_r. repeat split; auto.
      all: try (intros p h E; inv E; reflexivity).
      all: try (intros ? C; exfalso; apply C; reflexivity).
    - pose proof H as H0. rewrite hashes_loop_step in H.
      destruct (hash_value_ok k hv) eqn:V.
      2:{ destruct (infer_hash k) eqn:E; [destruct hv; discriminate |]. unfold hash_value_ok in V. rewrite E in V. discriminate. }
      destruct (hash_target k) as [n c] eqn:T.
      destruct (negb allow && (hc || c)); try discriminate.
      specialize (IH _ _ _ _ H).
      assert (F' : Forall entry_ok (aset n (PJ hv) acc)).
      { apply aset_Forall; auto. exists hv. cbn [fst snd]. repeat split; auto.
        - eapply hash_value_ok_target; eauto.
        - exists c. eapply hash_target_idem; eauto. }
      destruct (IH F' (aset_NoDup _ _ _ _ ND)) as [A [B [C [D E]]]].
      repeat split; auto.
      + rewrite C. cbn [map existsb fst]. rewrite T. cbn [snd]. rewrite orb_assoc. reflexivity.
      + intros Ha _ Hn. subst acc'. eapply hashes_loop_nonempty; [exact H | apply aset_nonempty | reflexivity].
      + intros p h E2. rewrite hashes_loop_step in E2. rewrite V, T in E2.
        destruct (negb allow && (hc || c)); try discriminate. eapply E; eauto.
  Qed.

  Lemma hashes_loop_flags : forall l acc hc acc' hc',
    hashes_loop vr names allow l acc hc = Ok (PMap acc', hc') ->
    negb allow && hc = false ->
    hc = flag_of acc ->
    negb allow && hc' = false /\ hc' = flag_of acc'.
  Proof.
    induction l as [| [k hv] r IH]; intros acc hc acc' hc' H Ha Hf.
    - cbn [hashes_loop] in H. inv H. auto.
    - rewrite hashes_loop_step in H. destruct (hash_value_ok k hv) eqn:V.
      2:{ destruct (infer_hash k) eqn:E; [destruct hv; discriminate |]. unfold hash_value_ok in V. rewrite E in V. discriminate. }
      destruct (hash_target k) as [n c] eqn:T.
      destruct (negb allow && (hc || c)) eqn:G; try discriminate.
      eapply IH; [exact H | exact G |].
      rewrite flag_of_aset. rewrite (hash_target_idem _ _ _ T). cbn [snd]. rewrite Hf. reflexivity.
  Qed.

  Lemma hashes_loop_keys : forall (P : ustring -> Prop) l acc hc acc' hc',
    hashes_loop vr names allow l acc hc = Ok (PMap acc', hc') ->
    (forall k, In k (map fst l) -> P k) -> (forall n, In n names -> P n) ->
    Forall P (map fst acc) -> Forall P (map fst acc').
  Proof.
    intros P. induction l as [| [k hv] r IH]; intros acc hc acc' hc' H Hl Hn Fa.
    - cbn [hashes_loop] in H. inv H. exact Fa.
    - rewrite hashes_loop_step in H. destruct (hash_value_ok k hv) eqn:V.
      2:{ destruct (infer_hash k) eqn:E; [destruct hv; discriminate |]. unfold hash_value_ok in V. rewrite E in V. discriminate. }
      destruct (hash_target k) as [n c] eqn:T.
      destruct (negb allow && (hc || c)) eqn:G; try discriminate.
      eapply IH; [exact H | | exact Hn |].
      + intros k' Hk'. apply Hl. right. exact Hk'.
      + assert (Pn : P n).
        { unfold hash_target in T. destruct (infer_hash k) as [alg |].
          - destruct (hash_spec_name names alg) as [n' |] eqn:S; inv T.
            + apply Hn. unfold hash_spec_name in S. apply find_some in S. destruct S as [S _]. apply in_rev. exact S.
            + apply Hl. left. reflexivity.
          - inv T. apply Hl. left. reflexivity. }
        clear - Fa Pn. induction acc as [| [k' v'] a IHa]; cbn [aset map fst].
        * constructor; auto.
        * inversion Fa; subst. destruct (ustr_eqb n k') eqn:E; cbn [map fst]; constructor; auto.
  Qed.

  (* re-running the loop over a well-formed accumulator rebuilds it *)
  Lemma hashes_loop_rebuild : forall L acc0 hc0,
    Forall entry_ok L -> NoDup (map fst (acc0 ++ L)) ->
    (negb allow && (hc0 || flag_of L) = false) ->
    hashes_loop vr names allow (map (fun kx => (fst kx, encode false (snd kx))) L) acc0 hc0 =
    Ok (PMap (acc0 ++ L), hc0 || flag_of L).
  Proof.
    induction L as [| [k x] r IH]; intros acc0 hc0 F ND Hal.
    - cbn [map hashes_loop flag_of existsb]. rewrite app_nil_r, orb_false_r. reflexivity.
    - inversion F as [| ? ? Hk Hr]; subst. destruct Hk as [hv [E1 [V [c T]]]]. cbn [fst snd] in *. subst x.
      cbn [map fst snd encode]. rewrite hashes_loop_step. rewrite V, T.
      assert (Hc : flag_of ((k, PJ hv) :: r) = c || flag_of r).
      { unfold flag_of. cbn [existsb fst]. rewrite T. reflexivity. }
      rewrite Hc in Hal.
      assert (Hal1 : negb allow && (hc0 || c) = false).
      { destruct allow; cbn [negb andb] in *; auto. destruct hc0; cbn [orb] in *; auto. destruct c; cbn [orb] in *; auto. }
      rewrite Hal1.
      assert (Hfresh : amem k acc0 = false).
      { destruct (amem k acc0) eqn:Em; auto. apply amem_In in Em. rewrite map_app in ND. exfalso.
        apply NoDup_remove_2 with (l := map fst acc0) (l' := map fst r) (a := k).
        - exact ND.
        - apply in_or_app. left. exact Em. }
      assert (Has : aset k (PJ hv) acc0 = acc0 ++ [(k, PJ hv)]).
      { clear - Hfresh. unfold amem in Hfresh. induction acc0 as [| [k' v'] a IHa]; cbn [aset app]; auto.
        cbn [alookup] in Hfresh. destruct (ustr_eqb k k'); try discriminate. f_equal. apply IHa. exact Hfresh. }
      rewrite Has. rewrite IH; auto.
      + rewrite <- app_assoc. cbn [app]. rewrite Hc. rewrite orb_assoc. reflexivity.
      + rewrite <- app_assoc. cbn [app]. exact ND.
      + rewrite <- orb_assoc. exact Hal.
  Qed.
End Hashes.

Section Leaf.
  Variable vr : variant.
  Variable w : world.
  Variable rc : ustring -> bool -> bool -> list (ustring * jvalue) -> result pval.
  Variable rp : bool -> bool -> list (ustring * jvalue) -> result pval.
  Variable ro : ver -> list (ustring * ustring) -> bool -> list (ustring * jvalue) -> result pval.

  Notation CK := (clean_kind vr w rc rp ro).

  Definition idem_kind (k : pkind) : Prop :=
    forall allow interop v p hc, CK k allow interop v = Ok (p, hc) -> CK k allow interop (encode false p) = Ok (p, hc).

  Hypothesis Hpad : vr_year_pad vr = true.

  Lemma idem_string_like : forall v p hc, clean_string v = Ok (p, hc) -> clean_string (encode false p) = Ok (p, hc).
  Proof.
    intros v p hc H. unfold clean_string in *. walk H. inv_ok H. reflexivity.
  Qed.

  Lemma idem_KString : idem_kind KString.
  Proof. intros a i v p hc H. cbn [clean_kind] in *. apply idem_string_like in H. exact H. Qed.
  Lemma idem_KPattern : idem_kind KPattern.
  Proof. intros a i v p hc H. cbn [clean_kind] in *. apply idem_string_like in H. exact H. Qed.
  Lemma idem_KObjRef : forall t, idem_kind (KObjRef t).
  Proof. intros t a i v p hc H. cbn [clean_kind] in *. apply idem_string_like in H. exact H. Qed.
  Lemma idem_KOpenVocab : forall t, idem_kind (KOpenVocab t).
  Proof. intros t a i v p hc H. cbn [clean_kind] in *. apply idem_string_like in H. exact H. Qed.

  Lemma idem_KFixed : forall fv al, idem_kind (KFixed fv al).
  Proof.
    intros fv al a i v p hc H. cbn [clean_kind] in *.
    destruct (jvalue_eqb v (JStr fv)) eqn:E; try discriminate. inv_ok H. cbn [encode]. rewrite E. reflexivity.
  Qed.

  Lemma idem_KId : forall pre vv, idem_kind (KId pre vv).
  Proof.
    intros pre vv a i v p hc H. cbn [clean_kind] in *. destruct v; try discriminate.
    unfold bind in *. destruct (validate_id vr s vv (Some pre) i) eqn:E; try discriminate.
    inv_ok H. cbn [encode]. rewrite E. reflexivity.
  Qed.

  Lemma idem_KInt : forall mn mx, idem_kind (KInt mn mx).
  Proof.
    intros mn mx a i v p hc H. cbn [clean_kind] in *.
    destruct (py_int v) as [z | |] eqn:E; try discriminate.
    destruct (match mn with Some b => (z <? b)%Z | None => false end) eqn:E1; try discriminate.
    destruct (match mx with Some b => (b <? z)%Z | None => false end) eqn:E2; try discriminate.
    inv_ok H. cbn [encode py_int]. rewrite E1, E2. reflexivity.
  Qed.

  Lemma idem_KBool : idem_kind KBool.
  Proof.
    intros a i v p hc H. cbn [clean_kind] in *. unfold clean_bool in H.
    walk H; inv_ok H; reflexivity.
  Qed.

  Lemma idem_KTime : forall pr c, idem_kind (KTime pr c).
  Proof.
    intros pr c a i v p hc H. cbn [clean_kind] in *. destruct v; try discriminate.
    unfold bind in *. rewrite Hpad in *.
    destruct (ts_clean true pr c s) as [[us txt] | |] eqn:E; try discriminate.
    inv_ok H. cbn [fst snd encode]. rewrite (ts_clean_idem _ _ _ _ _ E). reflexivity.
  Qed.

  Lemma idem_KDict : forall vv, idem_kind (KDict vv).
  Proof.
    intros vv a i v p hc H. cbn [clean_kind] in *. unfold bind in *.
    destruct (clean_dictionary vr vv v) as [d | |] eqn:E; try discriminate.
    inv_ok H. cbn [encode].
    assert (Ev : v = JObj d).
    { unfold clean_dictionary, bind in E. destruct v; cbn [get_dict] in E; try discriminate.
      destruct (clean_dict_keys vr vv m); try discriminate. destruct m; try discriminate. inv_ok E. reflexivity. }
    subst v. rewrite E. reflexivity.
  Qed.

  Lemma idem_KBinary : idem_kind KBinary.
  Proof.
    intros a i v p hc H. cbn [clean_kind] in *. destruct v; try discriminate.
    destruct (all_ascii s && (if vr_b64_strict vr then b64_strict s else b64_ok s)) eqn:E; try discriminate. inv_ok H. cbn [encode]. rewrite E. reflexivity.
  Qed.

  Lemma idem_KHex : idem_kind KHex.
  Proof.
    intros a i v p hc H. cbn [clean_kind] in *. destruct v; try discriminate.
    destruct (re_hex_pairs (vr_hex_z vr) s) eqn:E; try discriminate. inv_ok H. cbn [encode]. rewrite E. reflexivity.
  Qed.

  Lemma idem_KSelector : idem_kind KSelector.
  Proof.
    intros a i v p hc H. cbn [clean_kind] in *. destruct v; try discriminate.
    destruct (negb (all_ascii s)) eqn:E0; try discriminate.
    destruct (re_selector (vr_sel_z vr) (vr_sel_upper vr) s) eqn:E; try discriminate.
    inv_ok H. cbn [encode]. rewrite E0, E. reflexivity.
  Qed.

  Lemma idem_KEnum : forall al, idem_kind (KEnum al).
  Proof.
    intros al a i v p hc H. cbn [clean_kind] in *. unfold bind in *.
    destruct (py_str v) as [s | |]; try discriminate.
    destruct (mem_ustr s al) eqn:E; try discriminate. inv_ok H. cbn [encode py_str]. rewrite E. reflexivity.
  Qed.

  Lemma idem_KAny : idem_kind KAny.
  Proof. intros a i v p hc H. cbn [clean_kind] in *. inv_ok H. reflexivity. Qed.

  Lemma idem_KMarking : forall vv, idem_kind (KMarking vv).
  Proof. intros vv a i v p hc H. cbn [clean_kind] in H. discriminate. Qed.

  Lemma clean_dict_keys_Forall : forall vv d, clean_dict_keys vr vv d = Ok tt <-> Forall (fun k => dict_key_ok vr vv k = true) (map fst d).
  Proof.
    induction d as [| [k x] r IH]; cbn [clean_dict_keys map fst]; split; intros H; auto.
    - destruct (dict_key_ok vr vv k) eqn:E; try discriminate. constructor; auto. apply IH. exact H.
    - inversion H; subst. rewrite H2. apply IH. exact H3.
  Qed.

  Definition hashes_kind_ok (names : list ustring) (vv : ver) : bool := forallb (dict_key_ok vr vv) names.

  Lemma idem_KHashes : forall names vv, hashes_kind_ok names vv = true -> idem_kind (KHashes names vv).
  Proof.
    intros names vv Hn a i v p hc H. cbn [clean_kind] in *. unfold clean_hashes in *. unfold bind in *.
    destruct (clean_dictionary vr vv v) as [d | |] eqn:E; try discriminate.
    assert (Ev : v = JObj d /\ clean_dict_keys vr vv d = Ok tt /\ d <> []).
    { unfold clean_dictionary, bind in E. destruct v; cbn [get_dict] in E; try discriminate.
      destruct (clean_dict_keys vr vv m) as [[] | |] eqn:Ek; try discriminate. destruct m; try discriminate. inv_ok E.
      repeat split; auto. discriminate. }
    destruct Ev as [Ev [Ek Hne]]. subst v.
    assert (Hp : exists acc', p = PMap acc').
    { clear - H. revert H. generalize (@nil (ustring * pval)) false. induction d as [| [k x] r IH]; intros acc h H.
      - cbn [hashes_loop] in H. inv_ok H. eauto.
      - rewrite hashes_loop_step in H. destruct (hash_value_ok vr k x).
        + destruct (hash_target names k). destruct (negb a && (h || b)); try discriminate. eapply IH; eauto.
        + destruct (infer_hash k); [destruct x; discriminate |]. inv_ok H. eauto. }
    destruct Hp as [acc' Hp]. subst p.
    destruct (hashes_loop_inv vr names a d [] false acc' hc H (Forall_nil _) (NoDup_nil _)) as [F [ND [_ [Hne' _]]]].
    destruct (hashes_loop_flags vr names a d [] false acc' hc H) as [Ha Hf].
    { destruct a; reflexivity. } { reflexivity. }
    assert (Hk : Forall (fun k => dict_key_ok vr vv k = true) (map fst acc')).
    { eapply (hashes_loop_keys vr names a (fun k => dict_key_ok vr vv k = true)); [exact H | | | constructor].
      - apply clean_dict_keys_Forall in Ek. rewrite Forall_forall in Ek. exact Ek.
      - intros n Hin. unfold hashes_kind_ok in Hn. rewrite forallb_forall in Hn. apply Hn. exact Hin. }
    rewrite encode_map. unfold enc_members.
    set (L := map (fun kv : ustring * pval => (fst kv, encode false (snd kv))) acc').
    assert (EL : clean_dictionary vr vv (JObj L) = Ok L).
    { unfold clean_dictionary, bind. cbn [get_dict].
      assert (Ekl : clean_dict_keys vr vv L = Ok tt).
      { apply clean_dict_keys_Forall. unfold L. rewrite map_map. cbn [fst]. exact Hk. }
      rewrite Ekl. destruct L eqn:EL0; auto.
      exfalso. apply (Hne' eq_refl Hne). unfold L in EL0. destruct acc'; [reflexivity | discriminate]. }
    rewrite EL. unfold L.
    rewrite (hashes_loop_rebuild vr names a acc' [] false F).
    - cbn [app orb]. rewrite <- Hf. reflexivity.
    - cbn [app]. exact ND.
    - cbn [orb]. rewrite <- Hf. exact Ha.
  Qed.

  Lemma idem_KRef : forall wh g sp vv, idem_kind (KRef wh g sp vv).
  Proof.
    intros wh g sp vv a i v p hc H. cbn [clean_kind] in *. unfold clean_reference in *. unfold bind in *.
    destruct (py_str v) as [s | |] eqn:Es; try discriminate.
    destruct (validate_id vr s vv None i) eqn:Ev; try discriminate.
    match type of H with (if ?b then _ else _) = _ => destruct b eqn:E1; try discriminate end.
    match type of H with (if ?b then _ else _) = _ => destruct b eqn:E2; try discriminate end.
    inv_ok H. cbn [encode py_str]. rewrite Ev. rewrite E1, E2. reflexivity.
  Qed.
End Leaf.

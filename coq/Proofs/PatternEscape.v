(* Proofs/PatternEscape.v -- C10: escape_quotes_and_backslashes and the lexer's
   StringLiteral rule are inverse to each other, for every string.            *)
From Coq Require Import NArith List Bool Lia.
From V Require Import Model.PatternSyntax Proofs.PatternR.
Import ListNotations.
Open Scope N_scope.

Lemma escape_cons : forall c s,
  escape (c :: s) =
  (if c =? c_bslash then [c_bslash; c_bslash] else if c =? c_quote then [c_bslash; c_quote] else [c]) ++ escape s.
Proof. reflexivity. Qed.

(* the body the printer writes lexes back to the string *)
Lemma lex_body_escape : forall s, lex_body (escape s) = Some s.
Proof.
  induction s as [|c s IH]; [reflexivity|].
  rewrite escape_cons.
  destruct (c =? c_bslash) eqn:Hb.
  - apply N.eqb_eq in Hb; subst c. cbn [app lex_body]. 
    change (c_bslash =? c_bslash) with true. cbn [orb].
    change (c_bslash =? c_quote) with false. cbn [orb].
    cbn. fold (escape s). rewrite IH. reflexivity.
  - destruct (c =? c_quote) eqn:Hq.
    + apply N.eqb_eq in Hq; subst c. cbn [app lex_body].
      change (c_bslash =? c_bslash) with true.
      change (c_quote =? c_quote) with true. cbn [orb].
      rewrite IH. reflexivity.
    + cbn [app lex_body]. rewrite Hb, Hq, IH. reflexivity.
Qed.

(* unescape agrees with the lexer's reading on every well-formed body *)
Lemma lex_body_unescape : forall s t, lex_body s = Some t -> unescape s = t.
Proof.
  fix IH 1. intros s t. destruct s as [|c r]; cbn [lex_body unescape].
  - intros H; inversion H; reflexivity.
  - destruct (c =? c_bslash) eqn:Hb.
    + destruct r as [|d r']; [discriminate|].
      destruct ((d =? c_quote) || (d =? c_bslash)); [|discriminate].
      destruct (lex_body r') as [t'|] eqn:E; [|discriminate].
      intros H; inversion H; subst. f_equal. apply IH; exact E.
    + destruct (c =? c_quote); [discriminate|].
      destruct (lex_body r) as [t'|] eqn:E; [|discriminate].
      intros H; inversion H; subst. f_equal. apply IH; exact E.
Qed.

Lemma unescape_escape : forall s, unescape (escape s) = s.
Proof. intros s. apply lex_body_unescape, lex_body_escape. Qed.

Lemma string_escape_roundtrip_lemma : forall s, lex_string (print_string s) = Some s.
Proof.
  intros s. unfold print_string, print_string_const, lex_string.
  cbn [app]. change (c_quote =? c_quote) with true. cbn iota.
  rewrite rev_app_distr. cbn [rev app].
  change (c_quote =? c_quote) with true. cbn iota.
  rewrite rev_involutive. apply lex_body_escape.
Qed.

(* the printed literal is a StringLiteral token, and the visitor's reading of
   it (raw body kept, printed as is) denotes the same string *)
Lemma print_string_ok : forall s, string_ok (print_string s) = true.
Proof. intros s. unfold string_ok. rewrite string_escape_roundtrip_lemma. reflexivity. Qed.

(* escaping never produces a lexically different string: injective *)
Lemma escape_inj : forall s t, escape s = escape t -> s = t.
Proof.
  intros s t H. rewrite <- (unescape_escape s), <- (unescape_escape t), H. reflexivity.
Qed.

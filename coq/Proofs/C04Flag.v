(* Proofs/C04Flag.v -- flag_iff_strict_reparse, constructor level, for the proved classes and the
   repaired reference inversion (vr_ref_flip_unreg):
     an allow_custom=True run returns flag false  <->  the allow_custom=False run on the object's own
     encoding succeeds.
   Route: a run that returns a custom-free object does not depend on the allow_custom switch
   (run_mode, by induction over fuel on top of Proofs/C04Modes.v), composed with the round trip
   (Proofs/C01Roundtrip.v).                                                              *)
From Coq Require Import NArith ZArith List String Bool Lia Permutation.
From V Require Import Base.UString Base.Json Model.SchemaTypes Model.PyBase Model.Schema.
From V Require Import Proofs.C01Basics Proofs.C01Kinds Proofs.C01Float Proofs.C01KindsAll Proofs.C01Sort Proofs.C01Object
  Proofs.C01Roundtrip Proofs.C04Modes.
Import ListNotations.

Section ObjMode.
  Variable vr : variant.
  Variable ev : env.
  Variable w : world.
  Variable pattern_ok : ver -> ustring -> bool.
  Variable selectors_ok : list (ustring * pval) -> pval -> result bool.
  Variable rc : ustring -> bool -> bool -> list (ustring * jvalue) -> result pval.
  Variable rp : bool -> bool -> list (ustring * jvalue) -> result pval.
  Variable ro : ver -> list (ustring * ustring) -> bool -> list (ustring * jvalue) -> result pval.
  Variable P : ustring -> bool.
  Hypothesis Hflip : vr_ref_flip_unreg vr = true.
  Hypothesis Hnoobs : forall vv, P (obs_tag vv) = false.
  Hypothesis Hrcm : rc_mode rc P.

  Variable c : cls.
  Variable interop : bool.
  Variable vrefs : option (list (ustring * ustring)).
  Hypothesis Hnodup : NoDup (map sname (cslots c)).
  Hypothesis Hslots : forallb (slot_ok vr P) (cslots c) = true.

  Notation CK := (clean_kind vr w rc rp ro).
  Notation CPa := (fun a => check_property vr ev w rc rp ro c).
  Notation STEP := (fun a => step vr ev w rc rp ro c a interop vrefs).
  Notation LOOPa := (fun a => assign_loop vr ev w rc rp ro c a interop vrefs).

  (* one property check that reports no custom content does not depend on the mode *)
  Lemma cp_mode : forall sl a a' s s',
    In sl (cslots c) ->
    (forall j, alookup (sname sl) s = Some (PJ j) -> plain_json j = true /\ sname sl <> ext_key) ->
    check_property vr ev w rc rp ro c sl a interop vrefs s = Ok (s', false) ->
    check_property vr ev w rc rp ro c sl a' interop vrefs s = Ok (s', false).
  Proof.
    intros sl a a' s s' Hin Hpl H. unfold check_property, bind in *.
    destruct (default_value vr ev sl s) as [[s2 isnow] | |] eqn:Ed; try discriminate. cbn [fst snd] in *.
    unfold clean_present in *.
    destruct (alookup (sname sl) s2) as [raw |] eqn:Er; [| exact H].
    destruct isnow; [exact H |].
    destruct raw.
    - destruct (CK (skind sl) a interop j) as [[v h] | |] eqn:Ec; try discriminate.
      unfold bind in *. destruct (refs_ok c sl vrefs v) as [[] | |] eqn:Ero; try discriminate.
      injection H as Hs Hh. subst h.
      (* the raw value: given (plain by hypothesis) or a default (a leaf) *)
      assert (Hj : plain_json j = true /\ sname sl <> ext_key \/ (alookup (sname sl) s = None)).
      { destruct (alookup (sname sl) s) as [x |] eqn:Es.
        - left. unfold default_value in Ed. rewrite Es in Ed. inv_ok Ed. rewrite Es in Er. inv Er. apply Hpl. reflexivity.
        - right. reflexivity. }
      rewrite forallb_forall in Hslots. pose proof (Hslots sl Hin) as Hok. unfold slot_ok in Hok.
      apply andb_true_iff in Hok. destruct Hok as [Hok Hx]. apply andb_true_iff in Hok. destruct Hok as [Hok _].
      apply andb_true_iff in Hok. destruct Hok as [Hkind Hdef].
      assert (Hgoal : CK (skind sl) a' interop j = Ok (v, false)).
      { destruct Hj as [[Hjp Hne] | Hnone].
        - assert (Hkp : kind_proved vr P (skind sl) = true).
          { apply orb_true_iff in Hkind. destruct Hkind as [Hk | Hk]; auto. apply ustr_eqb_eq in Hk. contradiction. }
          eapply (clean_kind_mode vr w rc rp ro P Hflip Hnoobs Hrcm); eauto.
        - (* a default: fixed string, fresh identifier or constant boolean -- kinds whose cleaning ignores the mode *)
          unfold default_value in Ed. rewrite Hnone in Ed.
          destruct (sdef sl) eqn:Edf.
          + inv_ok Ed. rewrite Hnone in Er. discriminate.
          + destruct (skind sl) eqn:Ek; try discriminate. cbn [clean_kind] in *. exact Ec.
          + destruct (skind sl) eqn:Ek; try discriminate. unfold bind in Ed.
            destruct (ts_clean_now (vr_year_pad vr) p c0 (e_now ev)); discriminate.
          + destruct (skind sl) eqn:Ek; try discriminate. cbn [clean_kind] in *. exact Ec.
          + destruct (skind sl) eqn:Ek; try discriminate. cbn [clean_kind] in *. exact Ec. }
      rewrite Hgoal. rewrite Ero. rewrite Hs. reflexivity.
    - destruct (vr_marking_flag vr); [| exact H]. cbn [pval_has_custom] in *. rewrite !andb_false_r in *. exact H.
    - destruct (vr_marking_flag vr); [| exact H]. cbn [pval_has_custom] in *. rewrite !andb_false_r in *. exact H.
    - destruct (vr_marking_flag vr); [| exact H]. cbn [pval_has_custom] in *. rewrite !andb_false_r in *. exact H.
    - destruct (vr_marking_flag vr); [| exact H].
      cbn [pval_has_custom] in *. destruct (negb a && hc) eqn:E; try discriminate. injection H as Hs Hh.
      subst hc. rewrite andb_false_r. rewrite Hs. reflexivity.
  Qed.

  Lemma step_flag_mono : forall a K n s hc s' hc', STEP a K n s hc = Ok (s', hc') -> hc = true -> hc' = true.
  Proof.
    intros a K n s hc s' hc' H Hc. unfold step in H. destruct (slot_of c n).
    - unfold bind in H. destruct (check_property vr ev w rc rp ro c s0 a interop vrefs (assign_raw K [] [] n s)) as [[x y] | |];
        try discriminate. inv_ok H. reflexivity.
    - inv_ok H. reflexivity.
  Qed.

  Lemma loop_flag_mono : forall a K l s hc S hcf, LOOPa a K [] [] l s hc = Ok (S, hcf) -> hc = true -> hcf = true.
  Proof.
    induction l as [| n rest IH]; intros s hc S hcf H Hc.
    - cbn [assign_loop] in H. inv_ok H. reflexivity.
    - rewrite loop_cons in H. unfold bind in H.
      destruct (step vr ev w rc rp ro c a interop vrefs K n s hc) as [[s1 h1] | |] eqn:Es; try discriminate.
      cbn [fst snd] in H. eapply IH; [exact H |]. eapply step_flag_mono; eauto.
  Qed.

  Lemma step_mode : forall a a' K n s s',
    (forall j, alookup n K = Some j -> nullish j = false /\ plain_json j = true /\ n <> ext_key) ->
    (forall j, alookup n s = Some (PJ j) -> plain_json j = true /\ n <> ext_key) ->
    STEP a K n s false = Ok (s', false) -> STEP a' K n s false = Ok (s', false).
  Proof.
    intros a a' K n s s' HK Hs H. unfold step in *.
    destruct (slot_of c n) as [sl |] eqn:Es; [| exact H].
    destruct (slot_of_In c n sl Es) as [Hin En]. subst n.
    unfold bind in *.
    destruct (check_property vr ev w rc rp ro c sl a interop vrefs (assign_raw K [] [] (sname sl) s)) as [[x y] | |] eqn:Ec;
      try discriminate.
    injection H as Hx Hy. cbn [fst snd orb] in *. subst x y.
    rewrite (cp_mode sl a a' _ s' Hin); [reflexivity | | exact Ec].
    intros j Hj. rewrite assign_raw_spec in Hj.
    destruct (alookup (sname sl) K) as [j0 |] eqn:Ek.
    - destruct (HK j0 eq_refl) as [Hn [Hp Hne]]. rewrite Hn in Hj. rewrite alookup_aset_same in Hj. inv Hj. auto.
    - apply Hs. exact Hj.
  Qed.

  (* the raw values waiting in the setting are exactly those of later names: with all names fresh there are none *)
  Lemma loop_mode : forall a a' K l s S,
    NoDup l -> (forall n, In n l -> amem n s = false) ->
    (forall n j, In n l -> alookup n K = Some j -> nullish j = false /\ plain_json j = true /\ n <> ext_key) ->
    LOOPa a K [] [] l s false = Ok (S, false) -> LOOPa a' K [] [] l s false = Ok (S, false).
  Proof.
    induction l as [| n rest IH]; intros s S ND Hf HK H.
    - cbn [assign_loop] in *. exact H.
    - rewrite loop_cons in *. unfold bind in *.
      destruct (step vr ev w rc rp ro c a interop vrefs K n s false) as [[s1 h1] | |] eqn:Es; try discriminate.
      cbn [fst snd] in H. inversion ND; subst.
      destruct h1.
      + pose proof (loop_flag_mono _ _ _ _ _ _ _ H eq_refl). discriminate.
      + rewrite (step_mode a a' K n s s1); [| | | exact Es].
        * cbn [fst snd]. apply IH; auto.
          -- intros m Hm. unfold amem. rewrite (sos_frame _ _ _ m (step_shape vr ev w rc rp ro c a interop vrefs _ _ _ _ _ _ Es)).
             ++ apply Hf. right. exact Hm.
             ++ intros E2. subst. contradiction.
          -- intros m j Hm. apply HK. right. exact Hm.
        * intros j. apply HK. left. reflexivity.
        * intros j Hj. pose proof (Hf n (or_introl eq_refl)) as Hn. unfold amem in Hn. rewrite Hj in Hn. discriminate.
  Qed.

  Notation CGa := (fun a => construct_generic vr ev w pattern_ok selectors_ok rc rp ro).

  Lemma cg_tail_inv : forall a fuel AC S0 hc0 ci S d,
    cg_tail vr pattern_ok selectors_ok c a fuel AC (S0, hc0) = Ok (PObject ci S d false) ->
    hc0 = false /\ vr_flag_from_stored vr && existsb (fun n => amem n S0) AC = false /\
    forall a', cg_tail vr pattern_ok selectors_ok c a' fuel AC (S0, hc0) = Ok (PObject ci S d false).
  Proof.
    intros a fuel AC S0 hc0 ci S d H. unfold cg_tail in *.
    destruct (existsb (fun s => sreq s && negb (amem (sname s) S0)) (cslots c)); try discriminate.
    unfold bind in *.
    match type of H with match ?g with _ => _ end = _ => destruct g as [[] | |]; try discriminate end.
    match type of H with match ?g with _ => _ end = _ => destruct g as [[] | |]; try discriminate end.
    assert (Hhc : hc0 || vr_flag_from_stored vr && existsb (fun n => amem n S0) AC = false /\
                  ci = cid c /\ S = S0 /\ d = defaulted_names c S0).
    { destruct a.
      - inversion H; subst. auto.
      - destruct (hc0 || vr_flag_from_stored vr && existsb (fun n => amem n S0) AC); try discriminate.
        inversion H; subst. auto. }
    destruct Hhc as [Hhc [E1 [E2 E3]]]. subst ci S d.
    apply orb_false_iff in Hhc. destruct Hhc as [H1 H2]. repeat split; auto.
    intros a'. rewrite H1, H2. cbn [orb]. destruct a'; reflexivity.
  Qed.

  Lemma cg_mode : forall a a' fuel kw ci S d,
    plain_dict kw = true ->
    construct_generic vr ev w pattern_ok selectors_ok rc rp ro fuel c a interop kw [] vrefs = Ok (PObject ci S d false) ->
    construct_generic vr ev w pattern_ok selectors_ok rc rp ro fuel c a' interop kw [] vrefs = Ok (PObject ci S d false).
  Proof.
    intros a a' fuel kw ci S d Hp H.
    destruct (plain_dict_no_key kw Hp) as [Hcp Hext].
    apply amem_alookup_none in Hcp. apply amem_alookup_none in Hext.
    rewrite (cg_plain vr ev w pattern_ok selectors_ok rc rp ro c a interop vrefs fuel kw Hcp Hext) in H.
    rewrite (cg_plain vr ev w pattern_ok selectors_ok rc rp ro c a' interop vrefs fuel kw Hcp Hext).
    cbv zeta in *.
    set (E := filter (notPN c) (akeys kw)) in *.
    set (AC := udedup (filter (notPN c) (E ++ []))) in *.
    assert (Hchk : E = [] \/ a = true).
    { destruct E; [left; reflexivity |]. destruct a; [right; reflexivity | discriminate H]. }
    rewrite (extra_match _ E a _ _ Hchk) in H.
    match type of H with (if ?g then _ else _) = _ => destruct g eqn:Epre; try discriminate end.
    unfold bind in H.
    destruct (assign_loop vr ev w rc rp ro c a interop vrefs kw [] [] (PN c ++ [] ++ usort AC) [] (flag0 vr AC))
      as [[S0 hc0] | |] eqn:EL; try discriminate.
    destruct (cg_tail_inv _ _ _ _ _ _ _ _ H) as [Hh0 [Hst Htail]]. subst hc0.
    assert (Hf0 : flag0 vr AC = false).
    { destruct (flag0 vr AC) eqn:Ef; auto. pose proof (loop_flag_mono _ _ _ _ _ _ _ EL eq_refl). discriminate. }
    rewrite Hf0 in *.
    assert (HAC : forall x, In x AC -> notPN c x = true /\ In x (akeys kw)).
    { intros x Hx. unfold AC in Hx. apply (proj1 (In_udedup _ _)) in Hx. apply filter_In in Hx. destruct Hx as [Hx1 Hx2].
      rewrite app_nil_r in Hx1. unfold E in Hx1. apply filter_In in Hx1. tauto. }
    assert (HND : NoDup (PN c ++ [] ++ usort AC)).
    { cbn [app]. apply NoDup_app_disj; [exact Hnodup | apply NoDup_usort; apply NoDup_udedup |].
      intros x Hx Hx2. apply (proj1 (In_usort _ _)) in Hx2. destruct (HAC x Hx2) as [Hn _]. unfold notPN in Hn.
      apply negb_true_iff in Hn. apply (proj2 (mem_ustr_In x (PN c))) in Hx. congruence. }
    assert (Hkw : forall n j, alookup n kw = Some j -> nullish j = false /\ plain_json j = true /\ n <> ext_key).
    { intros n j Hj. destruct (plain_dict_lookup kw n j Hp Hj) as [A B]. repeat split; auto.
      intros En. subst n. rewrite Hext in Hj. discriminate. }
    (* there are no extra keyword arguments: they would have set the flag *)
    assert (HE : E = []).
    { destruct E as [| e E0] eqn:EE; auto. exfalso.
      assert (He : In e AC).
      { unfold AC. apply (proj2 (In_udedup _ _)). rewrite app_nil_r. apply filter_In.
        assert (Hin : In e (filter (notPN c) (akeys kw))) by (fold E; rewrite EE; left; reflexivity).
        apply filter_In in Hin. destruct Hin as [_ Hn]. split; [left; reflexivity | exact Hn]. }
      unfold flag0 in Hf0. destruct (vr_flag_from_stored vr) eqn:Ev.
      - cbn [andb] in Hst.
        destruct (HAC e He) as [Hn Hk]. unfold akeys in Hk. apply in_map_iff in Hk. destruct Hk as [[k j] [Ek Hk]]. cbn [fst] in Ek. subst k.
        assert (Hm : amem e kw = true) by (apply amem_In; apply in_map_iff; exists (e, j); auto).
        unfold amem in Hm. destruct (alookup e kw) as [j' |] eqn:Ej; try discriminate.
        destruct (Hkw e j' Ej) as [Hnn _].
        assert (Hs : amem e S0 = true).
        { eapply (loop_custom_stored vr ev w rc rp ro c a interop vrefs kw _ [] _ S0 false e j' HND);
            [| apply slot_of_none; exact Hn | exact Ej | exact Hnn | exact EL].
          apply in_or_app. right. cbn [app]. apply (proj2 (In_usort _ _)). exact He. }
        assert (existsb (fun n => amem n S0) AC = true) by (apply existsb_exists; exists e; auto). congruence.
      - destruct AC; [contradiction | discriminate]. }
    rewrite (extra_match _ E a' _ _ (or_introl HE)).

    rewrite (loop_mode a a' kw _ [] S0 HND (fun _ _ => eq_refl)); [| | exact EL].
    - cbn [bind]. apply Htail.
    - intros n j _. apply Hkw.
  Qed.
End ObjMode.

(* ------------------------------------------------------------------ the knot *)
Section RunMode.
  Variable vr : variant.
  Variable ev : env.
  Variable w : world.
  Variable pattern_ok : ver -> ustring -> bool.
  Variable selectors_ok : list (ustring * pval) -> pval -> result bool.
  Hypothesis Hflip : vr_ref_flip_unreg vr = true.
  Variable ids : list ustring.
  Hypothesis Hclosed : closed_oki vr w ids = true.

  Notation RUN := (run vr ev w pattern_ok selectors_ok).

  Definition claim_mode (fuel : nat) : Prop :=
    forall kid a a' interop kw vrefs o,
      mem_ustr kid ids = true -> plain_dict kw = true ->
      RUN fuel (RConstruct kid a interop kw vrefs) = Ok o -> pval_has_custom o = false ->
      RUN fuel (RConstruct kid a' interop kw vrefs) = Ok o.

  Lemma claim_mode_rc : forall f, claim_mode f ->
    rc_mode (fun k a i kw0 => RUN f (RConstruct k a i kw0 None)) (nestable w ids).
  Proof.
    intros f Hc cid0 a a' i d o Hn Hp H Hh. unfold nestable in Hn. apply andb_true_iff in Hn. destruct Hn as [Hm _].
    eapply Hc; eauto.
  Qed.

  Theorem run_mode : forall fuel, claim_mode fuel.
  Proof.
    induction fuel as [| f IH]; intros kid a a' interop kw vrefs o Hm Hp H Hh.
    - cbn [run] in H. discriminate.
    - cbn [run] in H |- *.
      destruct (find_class (wclasses w) kid) as [c |] eqn:Ef; try discriminate.
      pose proof (ids_class_oki vr w ids Hclosed kid c Hm Ef) as Hok. unfold class_oki in Hok.
      apply andb_true_iff in Hok. destruct Hok as [Hok _]. apply andb_true_iff in Hok. destruct Hok as [Hok Hinit].
      apply andb_true_iff in Hok. destruct Hok as [Hnd Hslots]. apply nodupb_NoDup in Hnd.
      destruct (amem (u "_valid_refs") kw || amem (u "allow_custom") kw || amem (u "interoperability") kw || amem (u "self") kw);
        try discriminate.
      set (vrf := match cfamily c with FSco => Some match vrefs with Some r => r | None => [] end | _ => None end) in *.
      set (rc := fun k a0 i kw0 => RUN f (RConstruct k a0 i kw0 None)) in *.
      set (rp := fun a0 i d => RUN f (RParse a0 i None d)) in *.
      set (ro := fun vv refs a0 d => RUN f (RParseObs (Some vv) refs a0 false d)) in *.
      pose proof (claim_mode_rc f IH) as Hrcm. fold rc in Hrcm.
      unfold bind in *.
      (* the generic constructor in mode a, on the (possibly filtered) keyword arguments kw1 *)
      assert (Hgen : exists kw1 obj, plain_dict kw1 = true /\
                construct_generic vr ev w pattern_ok selectors_ok rc rp ro (S f) c a interop kw1 [] vrf = Ok obj /\
                (forall b, (match cinit c with
                            | INone | IObservedDataWarn | IBundleObjects =>
                              construct_generic vr ev w pattern_ok selectors_ok rc rp ro (S f) c b interop kw [] vrf
                            | IPositional names =>
                              construct_generic vr ev w pattern_ok selectors_ok rc rp ro (S f) c b interop
                                (filter (fun kv => negb (mem_ustr (fst kv) names) ||
                                          (if vr_positional_none vr then negb (jvalue_eqb (snd kv) JNull) else truthy (snd kv))) kw) [] vrf
                            | IIndicatorPatternVersion =>
                              construct_generic vr ev w pattern_ok selectors_ok rc rp ro (S f) c b interop (ind_kw kw) [] vrf
                            | _ => Unmodelled
                            end) = construct_generic vr ev w pattern_ok selectors_ok rc rp ro (S f) c b interop kw1 [] vrf) /\
                match obj, cfamily c, cver c with
                | PObject ocid inner dfl hc, FSco, V21 =>
                  if amem (u "id") kw then Ok obj
                  else if existsb (fun p => amem p inner) (cidcontrib c) then
                    match ctype c with
                    | Some t => Ok (PObject ocid (aset (u "id") (PJ (JStr (t ++ u "--" ++ e_uuid5 ev))) inner) dfl hc)
                    | None => Unmodelled
                    end
                  else Ok obj
                | _, _, _ => Ok obj
                end = Ok o).
      { unfold ind_ok in Hinit.
        destruct (cinit c) as [| names | | | | |] eqn:Ei; cbn [init_ok orb] in Hinit; try discriminate.
        - match type of H with match ?g with _ => _ end = _ => destruct g as [obj | |] eqn:Eg; try discriminate end.
          exists kw, obj. repeat split; auto.
        - match type of H with match ?g with _ => _ end = _ => destruct g as [obj | |] eqn:Eg; try discriminate end.
          eexists; exists obj. split; [| split; [exact Eg | split; [intros b; reflexivity | exact H]]].
          unfold plain_dict in *. apply forallb_forall. intros x Hx. apply filter_In in Hx. destruct Hx as [Hx _].
          rewrite forallb_forall in Hp. apply Hp. exact Hx.
        - change (match construct_generic vr ev w pattern_ok selectors_ok rc rp ro (S f) c a interop (ind_kw kw) [] vrf with
                  | Ok obj => match obj, cfamily c, cver c with
                              | PObject ocid inner dfl hc, FSco, V21 =>
                                if amem (u "id") kw then Ok obj
                                else if existsb (fun p => amem p inner) (cidcontrib c) then
                                  match ctype c with
                                  | Some t => Ok (PObject ocid (aset (u "id") (PJ (JStr (t ++ u "--" ++ e_uuid5 ev))) inner) dfl hc)
                                  | None => Unmodelled
                                  end
                                else Ok obj
                              | _, _, _ => Ok obj
                              end
                  | Err e => Err e
                  | Unmodelled => Unmodelled
                  end = Ok o) in H.
          match type of H with match ?g with _ => _ end = _ => destruct g as [obj | |] eqn:Eg; try discriminate end.
          exists (ind_kw kw), obj. split; [apply ind_kw_plain; exact Hp |]. split; [exact Eg |]. split; [intros b; reflexivity | exact H].
        - match type of H with match ?g with _ => _ end = _ => destruct g as [obj | |] eqn:Eg; try discriminate end.
          exists kw, obj. repeat split; auto.
        - match type of H with match ?g with _ => _ end = _ => destruct g as [obj | |] eqn:Eg; try discriminate end.
          exists kw, obj. repeat split; auto. }
      destruct Hgen as [kw1 [obj [Hp1 [Hcg [Hsame Hpost]]]]].
      (* the result of the generic constructor is an object with the flag of the final result *)
      destruct (cg_unfold vr ev w pattern_ok selectors_ok rc rp ro c a interop vrf Hnd (S f) kw1 obj Hp1 Hcg)
        as [AC [S0 [hc0 [hc [_ [_ [_ Eobj]]]]]]].
      subst obj.
      assert (Ehc : hc = false).
      { destruct (cfamily c); try (inv Hpost; exact Hh). destruct (cver c); try (inv Hpost; exact Hh).
        destruct (amem (u "id") kw); [inv Hpost; exact Hh |].
        destruct (existsb (fun p => amem p S0) (cidcontrib c)); [| inv Hpost; exact Hh].
        destruct (ctype c); try discriminate. inv Hpost. exact Hh. }
      subst hc.
      pose proof (cg_mode vr ev w pattern_ok selectors_ok rc rp ro (nestable w ids) Hflip (nestable_no_tag w ids) Hrcm c interop vrf Hnd Hslots
                    a a' (S f) kw1 _ _ _ Hp1 Hcg) as Hcg'.
      assert (Hgoal : (match cinit c with
                       | INone | IObservedDataWarn | IBundleObjects =>
                         construct_generic vr ev w pattern_ok selectors_ok rc rp ro (S f) c a' interop kw [] vrf
                       | IPositional names =>
                         construct_generic vr ev w pattern_ok selectors_ok rc rp ro (S f) c a' interop
                           (filter (fun kv => negb (mem_ustr (fst kv) names) ||
                                     (if vr_positional_none vr then negb (jvalue_eqb (snd kv) JNull) else truthy (snd kv))) kw) [] vrf
                       | IIndicatorPatternVersion =>
                         construct_generic vr ev w pattern_ok selectors_ok rc rp ro (S f) c a' interop (ind_kw kw) [] vrf
                       | _ => Unmodelled
                       end) = Ok (PObject (cid c) S0 (defaulted_names c S0) false)).
      { rewrite (Hsame a'). exact Hcg'. }
      destruct (cinit c); try discriminate; try (rewrite Hgoal; exact Hpost).
      unfold ind_kw in Hgoal. cbv zeta in Hgoal |- *. rewrite Hgoal. exact Hpost.
  Qed.
End RunMode.

(* ------------------------------------------------------------------ flag <-> strict reparse *)
From V Require Import Proofs.C04Strict.

Section Flag.
  Variable vr : variant.
  Variable ev : env.
  Variable w : world.
  Variable pattern_ok : ver -> ustring -> bool.
  Variable selectors_ok : list (ustring * pval) -> pval -> result bool.
  Hypothesis Hpad : vr_year_pad vr = true.
  Hypothesis Hflip : vr_ref_flip_unreg vr = true.
  Variable ids : list ustring.
  Hypothesis Hclosed : closed_oki vr w ids = true.

  Notation RUN := (run vr ev w pattern_ok selectors_ok).

  Lemma strict_construct_flag_plain : forall fuel kid interop kw vrefs o,
    plain_dict kw = true -> RUN fuel (RConstruct kid false interop kw vrefs) = Ok o -> pval_has_custom o = false.
  Proof.
    intros fuel kid interop kw vrefs o Hp H. destruct o as [j | us t | l | m | ci i d hc]; try reflexivity.
    cbn [pval_has_custom]. destruct hc; auto.
    pose proof (run_construct_strict_flag vr ev w pattern_ok selectors_ok fuel kid interop kw vrefs ci i d true H eq_refl) as Hc.
    destruct (plain_dict_no_key kw Hp) as [Hn _]. unfold C04Strict.cp, cp_key in *. congruence.
  Qed.

  Theorem flag_iff_strict_reparse_construct : forall fuel kid interop kw vrefs o,
    mem_ustr kid ids = true -> plain_dict kw = true -> id_given w kid kw = true ->
    RUN fuel (RConstruct kid true interop kw vrefs) = Ok o ->
    (pval_has_custom o = false <-> exists o', RUN fuel (RConstruct kid false interop (omem o) vrefs) = Ok o').
  Proof.
    intros fuel kid interop kw vrefs o Hm Hp Hid H.
    destruct (run_construct_idem vr ev w pattern_ok selectors_ok Hpad ids (closed_oki_weaken vr w ids Hclosed) fuel kid true interop kw vrefs o Hm Hp Hid H)
      as [_ [_ [Hre Hpo]]].
    split.
    - intros Hh.
      pose proof (run_mode vr ev w pattern_ok selectors_ok Hflip ids Hclosed fuel kid true false interop kw vrefs o Hm Hp H Hh) as Hs.
      destruct (run_construct_idem vr ev w pattern_ok selectors_ok Hpad ids (closed_oki_weaken vr w ids Hclosed) fuel kid false interop kw vrefs o Hm Hp Hid Hs)
        as [_ [_ [Hre' _]]].
      exists o. exact Hre'.
    - intros [o' Hs].
      pose proof (strict_construct_flag_plain fuel kid interop (omem o) vrefs o' Hpo Hs) as Hh'.
      pose proof (run_mode vr ev w pattern_ok selectors_ok Hflip ids Hclosed fuel kid false true interop (omem o) vrefs o' Hm Hpo Hs Hh') as Ha.
      rewrite Hre in Ha. inversion Ha. subst o'. exact Hh'.
  Qed.
End Flag.

(* Proofs/PatternEqC.v -- comparison expressions: comparator-equal expressions
   mean the same, and every pass of the comparison-level normaliser
   (flatten, order/dedupe, absorption, settle, DNF with root-type pruning,
   special values) preserves the meaning, for EVERY interpretation H of the
   atoms that depends on a constant through its value.                     *)
From Coq Require Import NArith ZArith QArith List Bool Permutation Lia String.
From V Require Import Base.UString Model.PatternEq Spec.PatternSemantics Proofs.PatternEqCmp Proofs.PatternEqLists.
Import ListNotations.

(* ------------------------------------------------------------------ *)
(* comparator-equal constants have the same value                      *)

Lemma bool_cmp_eq : forall a b, bool_cmp a b = Eq -> a = b.
Proof. destruct a, b; simpl; intro E; try discriminate; reflexivity. Qed.

Lemma prim_cmp_den : forall p q, prim_cmp p q = Eq -> dprim_eq (den_prim p) (den_prim q).
Proof.
  intros p q; destruct p, q; simpl; intro E; try discriminate;
    try (rewrite num_cmp_Q in E; apply Qeq_alt; exact E);
    try (apply ustr_compare_eq in E; congruence);
    try (apply bool_cmp_eq in E; congruence);
    try (apply Z.compare_eq in E; congruence).
Qed.

Lemma dprim_eq_refl : forall d, dprim_eq d d.
Proof. destruct d; simpl; reflexivity. Qed.

Lemma dconst_eq_refl : forall d, dconst_eq d d.
Proof.
  destruct d as [d|l]; simpl; [apply dprim_eq_refl|].
  exists l. split; [apply Permutation_refl|]. induction l; constructor; [apply dprim_eq_refl | assumption].
Qed.

Lemma Forall2_perm_r : forall {A B} (R : A -> B -> Prop) l1 l2,
    Forall2 R l1 l2 -> forall l2', Permutation l2 l2' -> exists l1', Permutation l1 l1' /\ Forall2 R l1' l2'.
Proof.
  intros A B R l1 l2 HF l2' HP. revert l1 HF.
  induction HP; intros l1 HF.
  - inversion HF; subst. exists []. split; constructor.
  - inversion HF as [|a1 b1 la lb R1 HF1]; subst. destruct (IHHP _ HF1) as [l1' [P1 F1]].
    exists (a1 :: l1'). split; [constructor; exact P1 | constructor; assumption].
  - inversion HF as [|a1 b1 la lb R1 HF1]; subst. inversion HF1 as [|a2 b2 la' lb' R2 HF2]; subst.
    exists (a2 :: a1 :: la'). split; [apply perm_swap | repeat constructor; assumption].
  - destruct (IHHP1 _ HF) as [la [Pa Fa]]. destruct (IHHP2 _ Fa) as [lb [Pb Fb]].
    exists lb. split; [eapply perm_trans; eassumption | exact Fb].
Qed.

Lemma list_cmp_den : forall l1 l2, list_cmp l1 l2 = Eq -> dconst_eq (DSet (map den_prim l1)) (DSet (map den_prim l2)).
Proof.
  intros l1 l2 E. unfold list_cmp in E. apply lex_eq_Forall2 in E.
  assert (F : Forall2 dprim_eq (map den_prim (isort prim_cmp l1)) (map den_prim (isort prim_cmp l2))).
  { clear -E. induction E; simpl; constructor; [apply prim_cmp_den; assumption | assumption]. }
  destruct (Forall2_perm_r _ _ _ F (map den_prim l2)) as [m [Pm Fm]].
  { apply Permutation_map, isort_perm. }
  simpl. exists m. split; [|exact Fm].
  eapply perm_trans; [|exact Pm]. apply Permutation_map, Permutation_sym, isort_perm.
Qed.

Lemma const_cmp_den : forall a b, const_cmp a b = Eq -> dconst_eq (den a) (den b).
Proof.
  destruct a, b; simpl; intro E; try discriminate.
  - apply prim_cmp_den; exact E.
  - apply list_cmp_den; exact E.
Qed.

Lemma const_cmp_str : forall s k, const_cmp (KP (PStr s)) k = Eq -> k = KP (PStr s).
Proof.
  intros s [p|l] E; simpl in E; [|discriminate].
  destruct p; simpl in E; try discriminate. apply ustr_compare_eq in E. congruence.
Qed.

Lemma den_atom_cmp : forall a b,
    a_type a = a_type b -> a_path a = a_path b -> a_op a = a_op b -> const_cmp (a_rhs a) (a_rhs b) = Eq ->
    dconst_eq (den_atom a) (den_atom b).
Proof.
  intros a b Et Ep Eo Ek. unfold den_atom. rewrite <- Et, <- Ep, <- Eo.
  destruct (a_rhs a) as [[]|] eqn:Ka;
    try (pose proof (const_cmp_den _ _ Ek) as D; destruct (a_rhs b) as [[]|]; simpl in Ek; try discriminate; exact D).
  apply const_cmp_str in Ek. rewrite Ek. apply dconst_eq_refl.
Qed.

(* the passes at a node *)
Lemma cflatten_CAnd : forall l, fst (cflatten (CAnd l)) = fst (cflatten_node BAnd (map fst (map cflatten l))).
Proof. intro l. simpl. destruct (cflatten_node BAnd (map fst (map cflatten l))); reflexivity. Qed.
Lemma cflatten_COr : forall l, fst (cflatten (COr l)) = fst (cflatten_node BOr (map fst (map cflatten l))).
Proof. intro l. simpl. destruct (cflatten_node BOr (map fst (map cflatten l))); reflexivity. Qed.
Lemma corder_CAnd : forall l, fst (corder (CAnd l)) = fst (corder_node BAnd (map fst (map corder l))).
Proof. reflexivity. Qed.
Lemma corder_COr : forall l, fst (corder (COr l)) = fst (corder_node BOr (map fst (map corder l))).
Proof. reflexivity. Qed.
Lemma cabsorb_CAnd : forall l, fst (cabsorb (CAnd l)) = fst (cabsorb_node BAnd (map fst (map cabsorb l))).
Proof. reflexivity. Qed.
Lemma cabsorb_COr : forall l, fst (cabsorb (COr l)) = fst (cabsorb_node BOr (map fst (map cabsorb l))).
Proof. reflexivity. Qed.

Section CSound.
  Variable obj : Type.
  Variable otype : obj -> ustring.
  Variable H : ustring -> list step -> cop -> bool -> dconst -> obj -> bool.
  Hypothesis Hden : respects_denotation obj H.

  Notation asem := (asem obj otype H).
  Notation csem := (csem obj otype H).

  Lemma atom_cmp_sem : forall a b, atom_cmp a b = Eq -> forall x, asem a x = asem b x.
  Proof.
    intros a b E x. rewrite atom_cmp_form in E.
    apply lex2_eq in E. destruct E as [Et E]. apply lex2_eq in E. destruct E as [Ep E].
    apply lex2_eq in E. destruct E as [Eo E]. apply lex2_eq in E. destruct E as [En Ek].
    apply ustr_compare_eq in Et. apply (lex_eq_eq step_cmp step_cmp_eq) in Ep.
    apply cop_cmp_eq in Eo. apply neg_cmp_eq in En.
    unfold PatternSemantics.asem. rewrite <- Et, <- Ep, <- Eo, <- En. f_equal.
    apply Hden. apply den_atom_cmp; assumption.
  Qed.

  Lemma Forall2_forallb : forall {A} (f g : A -> bool) l1 l2,
      Forall2 (fun a b => f a = g b) l1 l2 -> forallb f l1 = forallb g l2.
  Proof. induction 1; simpl; congruence. Qed.

  Lemma Forall2_existsb : forall {A} (f g : A -> bool) l1 l2,
      Forall2 (fun a b => f a = g b) l1 l2 -> existsb f l1 = existsb g l2.
  Proof. induction 1; simpl; congruence. Qed.

  (* cmp_eq_sound, comparison level *)
  Lemma ccmp_sem : forall a b, ccmp a b = Eq -> forall x, csem a x = csem b x.
  Proof.
    induction a using cexpr_ind'; intros [b | l2 | l2] E x; simpl in E; try discriminate.
    - simpl. apply atom_cmp_sem; exact E.
    - simpl. apply Forall2_forallb. apply lex_eq_Forall2 in E.
      revert H0. clear -E. induction E; intro HF; constructor; inversion HF; subst; auto.
    - simpl. apply Forall2_existsb. apply lex_eq_Forall2 in E.
      revert H0. clear -E. induction E; intro HF; constructor; inversion HF; subst; auto.
  Qed.

  (* ---------------------------------------------------------------- *)
  (* the meaning of a node                                             *)

  Definition nsem (o : bop) (l : list cexpr) (x : obj) : bool :=
    match o with BAnd => forallb (fun e => csem e x) l | BOr => existsb (fun e => csem e x) l end.

  Lemma csem_mkb : forall o l x, csem (mkb o l) x = nsem o l x.
  Proof. destruct o; reflexivity. Qed.

  Lemma nsem_app : forall o l1 l2 x,
      nsem o (l1 ++ l2) x = match o with BAnd => nsem o l1 x && nsem o l2 x | BOr => nsem o l1 x || nsem o l2 x end.
  Proof. destruct o; simpl; intros; [apply forallb_app | apply existsb_app]. Qed.

  Lemma nsem_cons : forall o e l x,
      nsem o (e :: l) x = match o with BAnd => csem e x && nsem o l x | BOr => csem e x || nsem o l x end.
  Proof. destruct o; reflexivity. Qed.

  Lemma ops_of_some : forall o e l, ops_of o e = Some l -> e = mkb o l.
  Proof. destruct o, e; simpl; intros l0 E; inversion E; reflexivity. Qed.

  Lemma nsem_pointwise : forall o l1 l2 x,
      Forall2 (fun a b => csem a x = csem b x) l1 l2 -> nsem o l1 x = nsem o l2 x.
  Proof. destruct o; intros; simpl; [apply Forall2_forallb | apply Forall2_existsb]; assumption. Qed.

  Lemma Forall_map_Forall2 : forall {A B} (P : A -> B -> Prop) (f : A -> B) l,
      Forall (fun a => P a (f a)) l -> Forall2 P l (map f l).
  Proof. induction 1; simpl; constructor; assumption. Qed.

  Lemma Forall2_flip : forall {A B} (P : A -> B -> Prop) l1 l2, Forall2 P l1 l2 -> Forall2 (fun b a => P a b) l2 l1.
  Proof. induction 1; constructor; assumption. Qed.

  (* a bottom-up pass: children first, then the node function *)
  Lemma node_pass : forall (pass : cexpr -> cexpr * bool) o l x,
      Forall (fun e => csem (fst (pass e)) x = csem e x) l ->
      nsem o (map fst (map pass l)) x = nsem o l x.
  Proof.
    intros pass o l x HF. apply nsem_pointwise. rewrite map_map.
    apply Forall2_flip. apply Forall_map_Forall2. eapply Forall_impl; [|exact HF]. simpl. auto.
  Qed.

  (* ---------------------------------------------------------------- *)
  (* FlattenTransformer                                                *)

  Lemma cflatten_ops_sem : forall o l x, nsem o (fst (cflatten_ops o l)) x = nsem o l x.
  Proof.
    induction l as [|e l IH]; intro x; simpl; [reflexivity|].
    destruct (cflatten_ops o l) as [r' ch] eqn:Er. simpl in IH.
    destruct (ops_of o e) as [xs|] eqn:Eo; simpl.
    - apply ops_of_some in Eo. subst e. rewrite nsem_app, nsem_cons, IH, csem_mkb. reflexivity.
    - rewrite !nsem_cons, IH. reflexivity.
  Qed.

  Lemma cflatten_node_sem : forall o l x, csem (fst (cflatten_node o l)) x = nsem o l x.
  Proof.
    intros o l x. unfold cflatten_node.
    destruct l as [|e [|e' l]].
    - pose proof (cflatten_ops_sem o [] x) as E. destruct (cflatten_ops o []) eqn:Ef. simpl in *. rewrite csem_mkb. exact E.
    - simpl. destruct o; simpl; [rewrite andb_true_r | rewrite orb_false_r]; reflexivity.
    - pose proof (cflatten_ops_sem o (e :: e' :: l) x) as E.
      destruct (cflatten_ops o (e :: e' :: l)) eqn:Ef. simpl fst in *. rewrite csem_mkb. exact E.
  Qed.

  Lemma cflatten_sound : forall e x, csem (fst (cflatten e)) x = csem e x.
  Proof.
    induction e using cexpr_ind'; intro x; try reflexivity.
    - rewrite cflatten_CAnd, cflatten_node_sem. apply (node_pass cflatten BAnd).
      eapply Forall_impl; [|exact H0]. auto.
    - rewrite cflatten_COr, cflatten_node_sem. apply (node_pass cflatten BOr).
      eapply Forall_impl; [|exact H0]. auto.
  Qed.

  (* ---------------------------------------------------------------- *)
  (* OrderDedupeTransformer                                            *)

  Lemma nsem_perm : forall o l l' x, Permutation l l' -> nsem o l x = nsem o l' x.
  Proof. destruct o; intros; simpl; [apply forallb_perm | apply existsb_perm]; assumption. Qed.

  Lemma nsem_dedupe : forall o l x, nsem o (dedupe ccmp l) x = nsem o l x.
  Proof.
    destruct o; intros; simpl; [apply forallb_dedupe | apply existsb_dedupe];
      intros a b _ _ E; apply ccmp_sem; exact E.
  Qed.

  Lemma corder_node_sem : forall o l x, csem (fst (corder_node o l)) x = nsem o l x.
  Proof.
    intros. unfold corder_node. simpl. rewrite csem_mkb, nsem_dedupe. apply nsem_perm, isort_perm.
  Qed.

  Lemma corder_sound : forall e x, csem (fst (corder e)) x = csem e x.
  Proof.
    induction e using cexpr_ind'; intro x; try reflexivity.
    - rewrite corder_CAnd, corder_node_sem. apply (node_pass corder BAnd).
      eapply Forall_impl; [|exact H0]. auto.
    - rewrite corder_COr, corder_node_sem. apply (node_pass corder BOr).
      eapply Forall_impl; [|exact H0]. auto.
  Qed.

  (* ---------------------------------------------------------------- *)
  (* AbsorptionTransformer                                             *)

  Lemma in_cmp_sem : forall c l x, in_cmp ccmp c l = true -> exists y, In y l /\ csem y x = csem c x.
  Proof.
    intros c l x E. apply in_cmp_true in E. destruct E as [y [Hy Ey]].
    exists y. split; [exact Hy | symmetry; apply ccmp_sem; exact Ey].
  Qed.

  (* under an OR: c2 = AND(..) may go because it implies c1 *)
  Lemma cabsorbs_or : forall c1 c2 x, cabsorbs BAnd c1 c2 = true -> csem c2 x = true -> csem c1 x = true.
  Proof.
    intros c1 c2 x E S2. unfold cabsorbs in E.
    destruct (ops_of BAnd c2) as [ops2|] eqn:O2; [|discriminate].
    apply ops_of_some in O2. subst c2. simpl in S2. rewrite forallb_forall in S2.
    destruct (in_cmp ccmp c1 ops2) eqn:I1.
    - destruct (in_cmp_sem _ _ x I1) as [y [Hy Ey]]. rewrite <- Ey. apply S2; exact Hy.
    - destruct (ops_of BAnd c1) as [ops1|] eqn:O1; [|discriminate].
      apply ops_of_some in O1. subst c1. simpl. apply forallb_forall. intros a Ha.
      rewrite forallb_forall in E. destruct (in_cmp_sem _ _ x (E a Ha)) as [y [Hy Ey]].
      rewrite <- Ey. apply S2; exact Hy.
  Qed.

  (* under an AND: c2 = OR(..) may go because c1 implies it *)
  Lemma cabsorbs_and : forall c1 c2 x, cabsorbs BOr c1 c2 = true -> csem c1 x = true -> csem c2 x = true.
  Proof.
    intros c1 c2 x E S1. unfold cabsorbs in E.
    destruct (ops_of BOr c2) as [ops2|] eqn:O2; [|discriminate].
    apply ops_of_some in O2. subst c2. simpl. apply existsb_exists.
    destruct (in_cmp ccmp c1 ops2) eqn:I1.
    - destruct (in_cmp_sem _ _ x I1) as [y [Hy Ey]]. exists y. split; [exact Hy | congruence].
    - destruct (ops_of BOr c1) as [ops1|] eqn:O1; [|discriminate].
      apply ops_of_some in O1. subst c1. simpl in S1. apply existsb_exists in S1. destruct S1 as [a [Ha Sa]].
      rewrite forallb_forall in E. destruct (in_cmp_sem _ _ x (E a Ha)) as [y [Hy Ey]].
      exists y. split; [exact Hy | congruence].
  Qed.

  Lemma cabsorb_node_sem : forall o l x, csem (fst (cabsorb_node o l)) x = nsem o l x.
  Proof.
    intros o l x. unfold cabsorb_node. simpl. rewrite csem_mkb. destruct o; simpl.
    - apply forallb_cover; [apply remove_marked_incl|]. intros c Hc.
      destruct (absorb_cover (cabsorbs BOr) (fun a b => csem a x = true -> csem b x = true)) with (ops := l) (x := c)
        as [y [Hy Ly]]; auto.
      + intros a b E. apply cabsorbs_and; exact E.
      + exists y. split; [exact Hy|]. destruct Ly as [->|Ly]; auto.
    - apply existsb_cover; [apply remove_marked_incl|]. intros c Hc.
      destruct (absorb_cover (cabsorbs BAnd) (fun a b => csem b x = true -> csem a x = true)) with (ops := l) (x := c)
        as [y [Hy Ly]]; auto.
      + intros a b E. apply cabsorbs_or; exact E.
      + exists y. split; [exact Hy|]. destruct Ly as [->|Ly]; auto.
  Qed.

  Lemma cabsorb_sound : forall e x, csem (fst (cabsorb e)) x = csem e x.
  Proof.
    induction e using cexpr_ind'; intro x; try reflexivity.
    - rewrite cabsorb_CAnd, cabsorb_node_sem. apply (node_pass cabsorb BAnd).
      eapply Forall_impl; [|exact H0]. auto.
    - rewrite cabsorb_COr, cabsorb_node_sem. apply (node_pass cabsorb BOr).
      eapply Forall_impl; [|exact H0]. auto.
  Qed.

  (* ---------------------------------------------------------------- *)
  (* the chain and the settle loop                                     *)

  Lemma csimplify_sound : forall e x, csem (fst (csimplify e)) x = csem e x.
  Proof.
    intros e x. unfold csimplify.
    pose proof (cflatten_sound e x) as H1. destruct (cflatten e) as [e1 c1]. simpl in H1.
    pose proof (corder_sound e1 x) as H2. destruct (corder e1) as [e2 c2]. simpl in H2.
    pose proof (cabsorb_sound e2 x) as H3. destruct (cabsorb e2) as [e3 c3]. simpl in *. congruence.
  Qed.

  Lemma csettle_sound : forall fuel e e' ch, csettle fuel e = Ok (e', ch) -> forall x, csem e' x = csem e x.
  Proof.
    intros fuel e e' ch E x. unfold csettle, settle in E.
    apply (settle_loop_inv (fun a b => csem b x = csem a x) (fun y => Ok (csimplify y))) in E; auto.
    - intros a b c H1 H2. congruence.
    - intros a a' c Ea. inversion Ea. pose proof (csimplify_sound a x) as Hs. rewrite H1 in Hs. exact Hs.
  Qed.
End CSound.

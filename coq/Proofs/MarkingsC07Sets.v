(* Proofs/MarkingsC07Sets.v -- the set of (selector, marking) pairs a list of
   granular markings stands for, and what expand_markings / compress_markings
   do to it (nothing).  Foundation of the C07 laws. *)
From Coq Require Import String.
From Coq Require Import NArith ZArith List Bool Arith Lia.
From V Require Import Base.UString Model.Markings Spec.MarkingSpec Proofs.MarkingsC08.
Import ListNotations.

(* ---------------------------------------------------------------- *)
(* strings, membership                                               *)

Lemma mem_ustr_in : forall x l, mem_ustr x l = true <-> In x l.
Proof.
  intros x l. induction l as [|y l IH]; simpl; [split; [discriminate | tauto]|].
  rewrite orb_true_iff, IH, ustr_eqb_eq. split; intros [H|H]; auto.
Qed.

Lemma mem_ustr_false : forall x l, mem_ustr x l = false <-> ~ In x l.
Proof.
  intros x l. rewrite <- mem_ustr_in. destruct (mem_ustr x l); split; intro H; try congruence;
    try (exfalso; apply H; reflexivity).
Qed.

Lemma ustr_compare_eq : forall a b, ustr_compare a b = Eq -> a = b.
Proof.
  induction a as [|x a IH]; destruct b as [|y b]; simpl; intro H; try discriminate; auto.
  destruct (N.compare x y) eqn:E; try discriminate. apply N.compare_eq in E. subst. f_equal. auto.
Qed.

Lemma ustr_compare_refl : forall a, ustr_compare a a = Eq.
Proof. induction a as [|x a IH]; simpl; auto. rewrite N.compare_refl. exact IH. Qed.

Lemma in_insert_uniq : forall y x l, In y (insert_uniq x l) <-> y = x \/ In y l.
Proof.
  intros y x l. induction l as [|z l IH]; simpl.
  - split; intros [H|H]; auto.
  - destruct (ustr_compare x z) eqn:E; simpl.
    + apply ustr_compare_eq in E. subst z. split; [auto|]. intros [H|H]; auto.
    + split; intros [H|H]; auto.
    + rewrite IH. split; intros [H|[H|H]]; auto.
Qed.

Lemma in_sorted_set : forall y l, In y (sorted_set l) <-> In y l.
Proof.
  intros y l. unfold sorted_set. induction l as [|x l IH]; simpl; [tauto|].
  rewrite in_insert_uniq, IH. split; intros [H|H]; auto.
Qed.

Lemma in_insert_sorted : forall y x l, In y (insert_sorted x l) <-> y = x \/ In y l.
Proof.
  intros y x l. induction l as [|z l IH]; simpl.
  - split; intros [H|H]; auto.
  - destruct (ustr_ltb z x); simpl.
    + rewrite IH. split; intros [H|[H|H]]; auto.
    + split; intros [H|[H|H]]; auto.
Qed.

Lemma in_py_sorted : forall y l, In y (py_sorted l) <-> In y l.
Proof.
  intros y l. unfold py_sorted. induction l as [|x l IH]; simpl; [tauto|].
  rewrite in_insert_sorted, IH. split; intros [H|H]; auto.
Qed.

Lemma in_dedupe : forall y l, In y (dedupe l) <-> In y l.
Proof.
  intros y l. induction l as [|x l IH]; simpl; [tauto|].
  rewrite filter_In, IH. split.
  - intros [H|[H _]]; auto.
  - intros [H|H]; auto. destruct (ustr_eqb x y) eqn:E.
    + apply ustr_eqb_eq in E. auto.
    + right. split; auto.
Qed.

Lemma in_real : forall m ms, In m (real ms) <-> In m ms /\ nonempty m = true.
Proof. intros m ms. unfold real. apply filter_In. Qed.

Lemma list_ustr_eqb_eq : forall a b, list_ustr_eqb a b = true <-> a = b.
Proof.
  induction a as [|x a IH]; destruct b as [|y b]; simpl; split; intro H; try discriminate; auto.
  - apply andb_true_iff in H. destruct H as [H1 H2]. apply ustr_eqb_eq in H1. apply IH in H2. congruence.
  - inversion H; subst. rewrite ustr_eqb_refl. simpl. apply IH. reflexivity.
Qed.

Lemma gm_eqb_eq : forall a b, gm_eqb a b = true <-> a = b.
Proof.
  intros [s1 r1 l1] [s2 r2 l2]. unfold gm_eqb. simpl.
  rewrite !andb_true_iff, list_ustr_eqb_eq, !ustr_eqb_eq. split.
  - intros [[H1 H2] H3]. congruence.
  - intro H. inversion H. auto.
Qed.

Lemma mem_gm_in : forall x l, mem_gm x l = true <-> In x l.
Proof.
  intros x l. induction l as [|y l IH]; simpl; [split; [discriminate | tauto]|].
  rewrite orb_true_iff, IH, gm_eqb_eq. split; intros [H|H]; auto.
Qed.

Lemma pair_eqb_eq : forall a b, pair_eqb a b = true <-> a = b.
Proof.
  intros [a1 a2] [b1 b2]. unfold pair_eqb. simpl. rewrite andb_true_iff, !ustr_eqb_eq. split.
  - intros [H1 H2]. congruence.
  - intro H. inversion H. auto.
Qed.

Lemma mem_pair_in : forall p l, mem_pair p l = true <-> In p l.
Proof.
  intros p l. unfold mem_pair. rewrite existsb_exists. split.
  - intros [q [H1 H2]]. apply pair_eqb_eq in H2. subst. exact H1.
  - intro H. exists p. split; auto. apply pair_eqb_eq. reflexivity.
Qed.

Lemma in_minus : forall p P Q, In p (minus P Q) <-> In p P /\ ~ In p Q.
Proof.
  intros p P Q. unfold minus. rewrite filter_In. rewrite negb_true_iff.
  rewrite <- (mem_pair_in p Q). destruct (mem_pair p Q); split; intros [H1 H2]; split; auto; try discriminate.
  exfalso. apply H2. reflexivity.
Qed.

Lemma in_product : forall s m sels ms, In (s, m) (product sels ms) <-> In s sels /\ In m ms.
Proof.
  intros s m sels ms. unfold product. rewrite in_flat_map. split.
  - intros [s' [H1 H2]]. apply in_map_iff in H2. destruct H2 as [m' [E H2]]. inversion E; subst. auto.
  - intros [H1 H2]. exists s. split; auto. apply in_map_iff. exists m. auto.
Qed.

(* ---------------------------------------------------------------- *)
(* pairs                                                             *)

Lemma in_gm_pairs : forall s m g,
  In (s, m) (gm_pairs g) <-> In s (g_sels g) /\ nonempty m = true /\ (m = g_ref g \/ m = g_lang g).
Proof.
  intros s m g. unfold gm_pairs. rewrite in_flat_map. split.
  - intros [s' [H1 H2]]. apply in_app_or in H2. destruct H2 as [H2|H2].
    + destruct (nonempty (g_ref g)) eqn:E; [|contradiction]. destruct H2 as [H2|[]].
      inversion H2; subst. auto.
    + destruct (nonempty (g_lang g)) eqn:E; [|contradiction]. destruct H2 as [H2|[]].
      inversion H2; subst. auto.
  - intros [H1 [H2 H3]]. exists s. split; auto. apply in_or_app. destruct H3 as [H3|H3]; subst m.
    + left. rewrite H2. left. reflexivity.
    + right. rewrite H2. left. reflexivity.
Qed.

Lemma in_pairs : forall s m gs,
  In (s, m) (pairs gs) <->
  exists g, In g gs /\ In s (g_sels g) /\ nonempty m = true /\ (m = g_ref g \/ m = g_lang g).
Proof.
  intros s m gs. unfold pairs. rewrite in_flat_map. split.
  - intros [g [H1 H2]]. exists g. split; auto. apply in_gm_pairs. exact H2.
  - intros [g [H1 H2]]. exists g. split; auto. apply in_gm_pairs. exact H2.
Qed.

Lemma pairs_app : forall a b, pairs (a ++ b) = pairs a ++ pairs b.
Proof. intros a b. unfold pairs. apply flat_map_app. Qed.

Lemma pairs_nonempty : forall s m gs, In (s, m) (pairs gs) -> nonempty m = true.
Proof. intros s m gs H. apply in_pairs in H. destruct H as [g [_ [_ [H _]]]]. exact H. Qed.

(* ---------------------------------------------------------------- *)
(* expand_markings                                                   *)

Lemma in_expand_one : forall g' g,
  In g' (expand_one g) <->
  (nonempty (g_ref g) = true /\ exists s, In s (g_sels g) /\ g' = mkgm [s] (g_ref g) []) \/
  (nonempty (g_lang g) = true /\ exists s, In s (g_sels g) /\ g' = mkgm [s] [] (g_lang g)).
Proof.
  intros g' g. unfold expand_one. rewrite in_app_iff. split.
  - intros [H|H].
    + left. destruct (nonempty (g_ref g)); [|contradiction]. split; auto.
      apply in_map_iff in H. destruct H as [s [E H]]. exists s. auto.
    + right. destruct (nonempty (g_lang g)); [|contradiction]. split; auto.
      apply in_map_iff in H. destruct H as [s [E H]]. exists s. auto.
  - intros [[H1 [s [H2 E]]]|[H1 [s [H2 E]]]]; [left|right]; rewrite H1; apply in_map_iff; exists s; auto.
Qed.

Lemma in_expand : forall g' gs,
  In g' (expand_markings gs) <-> exists g, In g gs /\ In g' (expand_one g).
Proof. intros g' gs. unfold expand_markings. apply in_flat_map. Qed.

Theorem pairs_expand : forall gs, same_set (pairs (expand_markings gs)) (pairs gs).
Proof.
  intros gs [s m]. rewrite !in_pairs. split.
  - intros [g' [H1 [H2 [H3 H4]]]]. apply in_expand in H1. destruct H1 as [g [Hg H1]]. exists g. split; auto.
    apply in_expand_one in H1. destruct H1 as [[Hn [s' [Hs E]]]|[Hn [s' [Hs E]]]]; subst g'; simpl in *.
    + destruct H2 as [H2|[]]. subst s'. split; auto. split; auto. destruct H4 as [H4|H4]; auto.
      subst m. discriminate.
    + destruct H2 as [H2|[]]. subst s'. split; auto. split; auto. destruct H4 as [H4|H4]; auto.
      subst m. discriminate.
  - intros [g [H1 [H2 [H3 H4]]]]. destruct H4 as [H4|H4]; subst m.
    + exists (mkgm [s] (g_ref g) []). split; [|simpl; auto].
      apply in_expand. exists g. split; auto. apply in_expand_one. left. split; auto. exists s. auto.
    + exists (mkgm [s] [] (g_lang g)). split; [|simpl; auto].
      apply in_expand. exists g. split; auto. apply in_expand_one. right. split; auto. exists s. auto.
Qed.

(* every expanded entry has one selector and one identifier *)
Inductive single : gm -> ustring -> ustring -> Prop :=
| single_ref : forall s m, nonempty m = true -> single (mkgm [s] m []) s m
| single_lang : forall s m, nonempty m = true -> single (mkgm [s] [] m) s m.

Lemma expand_single : forall g' gs, In g' (expand_markings gs) -> exists s m, single g' s m.
Proof.
  intros g' gs H. apply in_expand in H. destruct H as [g [_ H]]. apply in_expand_one in H.
  destruct H as [[Hn [s [_ E]]]|[Hn [s [_ E]]]]; subst g'; exists s; eexists; constructor; assumption.
Qed.

Lemma single_pairs : forall g s m, single g s m -> gm_pairs g = [(s, m)].
Proof.
  intros g s m H. inversion H; subst; unfold gm_pairs; simpl; rewrite H0; reflexivity.
Qed.

(* ---------------------------------------------------------------- *)
(* compress_markings                                                 *)

Definition amap_pairs (m : amap) : list pair := flat_map (fun kv => map (fun s => (s, fst kv)) (snd kv)) m.

Lemma in_amap_pairs : forall s k m, In (s, k) (amap_pairs m) <-> exists ss, In (k, ss) m /\ In s ss.
Proof.
  intros s k m. unfold amap_pairs. rewrite in_flat_map. split.
  - intros [[k' ss] [H1 H2]]. simpl in H2. apply in_map_iff in H2. destruct H2 as [s' [E H2]].
    inversion E; subst. exists ss. auto.
  - intros [ss [H1 H2]]. exists (k, ss). split; auto. simpl. apply in_map_iff. exists s. auto.
Qed.

Lemma in_amap_update : forall s k' k sels m,
  In (s, k') (amap_pairs (amap_update k sels m)) <-> In (s, k') (amap_pairs m) \/ (k' = k /\ In s sels).
Proof.
  intros s k' k sels m. induction m as [|[k0 ss] m IH].
  - simpl. rewrite app_nil_r. rewrite in_map_iff. split.
    + intros [s' [E H]]. inversion E; subst. auto.
    + intros [[]|[E H]]. subst. exists s. auto.
  - simpl. destruct (ustr_eqb k k0) eqn:E.
    + apply ustr_eqb_eq in E. subst k0. unfold amap_pairs. simpl. fold (amap_pairs m).
      rewrite !in_app_iff, !in_map_iff. split.
      * intros [[s' [E H]]|H]; auto. inversion E; subst. apply in_app_or in H. destruct H as [H|H]; auto.
        left. left. exists s. auto.
      * intros [[[s' [E H]]|H]|[E H]]; auto.
        -- inversion E; subst. left. exists s. split; auto. apply in_or_app. auto.
        -- subst. left. exists s. split; auto. apply in_or_app. auto.
    + unfold amap_pairs. simpl. fold (amap_pairs m). fold (amap_pairs (amap_update k sels m)).
      rewrite !in_app_iff, IH. tauto.
Qed.

Lemma in_compress_step : forall p m g,
  In p (amap_pairs (compress_step m g)) <-> In p (amap_pairs m) \/ In p (gm_pairs g).
Proof.
  intros [s k] m g. unfold compress_step. rewrite in_gm_pairs.
  destruct (nonempty (g_ref g)) eqn:E1; destruct (nonempty (g_lang g)) eqn:E2; rewrite ?in_amap_update; split.
  - intros [[H|[H1 H2]]|[H1 H2]]; subst; auto 6.
  - intros [H|[H1 [H2 [H3|H3]]]]; subst; auto.
  - intros [H|[H1 H2]]; subst; auto 6.
  - intros [H|[H1 [H2 [H3|H3]]]]; subst; auto. congruence.
  - intros [H|[H1 H2]]; subst; auto 6.
  - intros [H|[H1 [H2 [H3|H3]]]]; subst; auto. congruence.
  - auto.
  - intros [H|[H1 [H2 [H3|H3]]]]; subst; auto; congruence.
Qed.

Lemma in_compress_fold : forall p gs m,
  In p (amap_pairs (fold_left compress_step gs m)) <-> In p (amap_pairs m) \/ In p (pairs gs).
Proof.
  intros p gs. induction gs as [|g gs IH]; intro m; simpl.
  - tauto.
  - rewrite IH, in_compress_step. unfold pairs. simpl. rewrite in_app_iff. tauto.
Qed.

Definition keys_nonempty (m : amap) : Prop := forall k ss, In (k, ss) m -> nonempty k = true.

Lemma keys_update : forall k sels m, nonempty k = true -> keys_nonempty m -> keys_nonempty (amap_update k sels m).
Proof.
  intros k sels m Hk. induction m as [|[k0 ss] m IH]; intros Hm k' ss' Hin; simpl in Hin.
  - destruct Hin as [E|[]]. inversion E; subst. exact Hk.
  - destruct (ustr_eqb k k0) eqn:E.
    + destruct Hin as [E'|Hin].
      * inversion E'; subst. apply (Hm k' ss). left. reflexivity.
      * apply (Hm k' ss'). right. exact Hin.
    + destruct Hin as [E'|Hin].
      * inversion E'; subst. apply (Hm k' ss'). left. reflexivity.
      * apply IH with (ss := ss'); auto. intros k1 ss1 H1. apply (Hm k1 ss1). right. exact H1.
Qed.

Lemma keys_step : forall m g, keys_nonempty m -> keys_nonempty (compress_step m g).
Proof.
  intros m g H. unfold compress_step.
  destruct (nonempty (g_ref g)) eqn:E1; destruct (nonempty (g_lang g)) eqn:E2; auto using keys_update.
Qed.

Lemma keys_fold : forall gs m, keys_nonempty m -> keys_nonempty (fold_left compress_step gs m).
Proof. induction gs as [|g gs IH]; intros m H; simpl; auto using keys_step. Qed.

Lemma in_compress_entry : forall s m kv, nonempty (fst kv) = true ->
  (In (s, m) (gm_pairs (compress_entry kv)) <-> m = fst kv /\ In s (snd kv)).
Proof.
  intros s m [k ss] Hk. simpl in *. rewrite in_gm_pairs. unfold compress_entry. simpl.
  destruct (is_marking k); simpl; rewrite in_sorted_set; split.
  - intros [H1 [H2 [H3|H3]]]; subst; auto. discriminate.
  - intros [H1 H2]. subst. auto.
  - intros [H1 [H2 [H3|H3]]]; subst; auto. discriminate.
  - intros [H1 H2]. subst. auto.
Qed.

Lemma pairs_compress_entries : forall m, keys_nonempty m ->
  same_set (pairs (map compress_entry m)) (amap_pairs m).
Proof.
  intros m Hk [s k]. unfold pairs. rewrite in_flat_map. rewrite in_amap_pairs. split.
  - intros [g [H1 H2]]. apply in_map_iff in H1. destruct H1 as [[k0 ss] [E H1]]. subst g.
    apply in_compress_entry in H2; [|simpl; eapply Hk; eauto]. simpl in H2. destruct H2 as [E H2]. subst k0.
    exists ss. auto.
  - intros [ss [H1 H2]]. exists (compress_entry (k, ss)). split; [apply in_map; exact H1|].
    apply in_compress_entry; simpl; [eapply Hk; eauto | auto].
Qed.

(* .get('granular_markings', []) of what compress_markings returns *)
Definition olist (x : option (list gm)) : list gm := match x with Some l => l | None => [] end.

Theorem pairs_compress : forall gs, same_set (pairs (olist (compress_markings gs))) (pairs gs).
Proof.
  intros gs p. destruct gs as [|g gs]; [simpl; tauto|].
  unfold compress_markings, olist.
  assert (Hk : keys_nonempty (fold_left compress_step (g :: gs) [])).
  { apply keys_fold. intros k ss []. }
  rewrite (pairs_compress_entries _ Hk p). rewrite in_compress_fold. simpl. tauto.
Qed.

(* compress_entry sorts every identifier into the field is_marking says *)
Theorem compress_well_kinded : forall gs, well_kinded (olist (compress_markings gs)).
Proof.
  intros gs g Hg. destruct gs as [|g0 gs]; [contradiction|]. unfold compress_markings, olist in Hg.
  apply in_map_iff in Hg. destruct Hg as [[k ss] [E _]]. subst g. unfold compress_entry. simpl.
  destruct (is_marking k) eqn:Ek; simpl; split; intro H; try discriminate; assumption.
Qed.

Lemma same_set_refl : forall {A} (l : list A), same_set l l.
Proof. intros A l x. tauto. Qed.

Lemma same_set_sym : forall {A} (a b : list A), same_set a b -> same_set b a.
Proof. intros A a b H x. specialize (H x). tauto. Qed.

Lemma same_set_trans : forall {A} (a b c : list A), same_set a b -> same_set b c -> same_set a c.
Proof. intros A a b c H1 H2 x. specialize (H1 x). specialize (H2 x). tauto. Qed.

Lemma same_set_app : forall {A} (a a' b b' : list A), same_set a a' -> same_set b b' -> same_set (a ++ b) (a' ++ b').
Proof. intros A a a' b b' H1 H2 x. rewrite !in_app_iff. specialize (H1 x). specialize (H2 x). tauto. Qed.

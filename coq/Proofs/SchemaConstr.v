(* Proofs/SchemaConstr.v -- soundness of the co-constraint evaluation (C02): when the library's
   constraint methods accept the stored properties, the specification's constraints hold of the
   serialized members (for the constraint forms covered so far: constr_proved).                   *)
From Coq Require Import NArith ZArith List String Bool Lia.
From V Require Import Base.UString Base.Json Model.SchemaTypes Model.PyBase Model.Schema
     Spec.StixValid Spec.SchemaRefine Proofs.SchemaBasics Proofs.SchemaValidMono Proofs.SchemaScope
     Proofs.SchemaObject Proofs.SchemaProved.
Import ListNotations.

Lemma s_dedup_udedup l : s_dedup l = udedup l.
Proof. induction l; simpl; auto. Qed.

Lemma existsb_ext_in {A} (f g : A -> bool) l : (forall x, In x l -> f x = g x) -> existsb f l = existsb g l.
Proof. induction l; simpl; intros H; auto. rewrite H, IHl; auto. Qed.

Lemma forallb_ext_in {A} (f g : A -> bool) l : (forall x, In x l -> f x = g x) -> forallb f l = forallb g l.
Proof. induction l; simpl; intros H; auto. rewrite H, IHl; auto. Qed.

Lemma filter_ext_in' {A} (f g : A -> bool) l : (forall x, In x l -> f x = g x) -> filter f l = filter g l.
Proof. induction l; simpl; intros H; auto. rewrite H, IHl; auto. Qed.

Lemma udedup_In x l : In x (udedup l) -> In x l.
Proof.
  induction l; simpl; auto. destruct (mem_ustr a l); simpl; intros H; auto. destruct H; auto.
Qed.

Lemma encode_JBool_inv x b : encode false x = JBool b -> x = PJ (JBool b).
Proof. destruct x; simpl; intros H; try discriminate. subst; auto. Qed.

Lemma constr_all_In g l k : constr_all g l = Ok tt -> In k l -> g k = Ok tt.
Proof.
  induction l; simpl; intros H Hin; [tauto|]. inv_bind H. destruct a0. destruct Hin as [-> | Hin]; auto.
Qed.

(* ---- writing over the value of a property that is present ---- *)
Lemma amem_aset_present {A} (key : ustring) (v : A) st p : amem key st = true -> amem p (aset key v st) = amem p st.
Proof.
  intros H. rewrite amem_aset. destruct (ustr_eqb p key) eqn:E; auto. apply ustr_eqb_eq in E. subst. auto.
Qed.

Lemma at_least_one_aset ps key v st : amem key st = true -> at_least_one ps (aset key v st) = at_least_one ps st.
Proof.
  intros H. unfold at_least_one. destruct ps; auto.
  rewrite (existsb_ext_in _ (fun p => amem p st)); auto. intros x _. apply amem_aset_present. auto.
Qed.

Lemma eval_constr_aset vr pok fuel c st k key v :
  constr_proved k = true -> ~ In key (constr_names c k) -> amem key st = true ->
  eval_constr vr pok fuel c (aset key v st) k = eval_constr vr pok fuel c st k.
Proof.
  intros Hp Hn Hk. destruct fuel; auto. destruct k; simpl in Hp; try discriminate; simpl.
  - apply at_least_one_aset; auto.
  - apply at_least_one_aset; auto.
  - rewrite (filter_ext_in' _ (fun p => amem p st)); auto. intros x _. apply amem_aset_present; auto.
  - assert (E : depends_ok ps ds (aset key v st) = depends_ok ps ds st); [|rewrite E; auto].
    unfold depends_ok. apply forallb_ext_in. intros p Hp'. apply forallb_ext_in. intros dp _.
    rewrite !amem_aset_present by auto. unfold pget. rewrite alookup_aset_other; auto.
    apply ustr_eqb_neq. intros ->. apply Hn. simpl. apply in_or_app. auto.
  - rewrite at_least_one_aset by auto. rewrite amem_aset_present by auto. auto.
  - auto.
Qed.

Lemma constr_all_ext g1 g2 l : (forall k, In k l -> g1 k = g2 k) -> constr_all g1 l = constr_all g2 l.
Proof. induction l; simpl; intros H; auto. rewrite H, IHl; auto. Qed.

Lemma defaulted_names_aset c key v st :
  mem_ustr key (dconst_names c) = false -> defaulted_names c (aset key v st) = defaulted_names c st.
Proof.
  intros H. unfold defaulted_names. f_equal. apply filter_ext_in'. intros s Hs.
  destruct (sdef s) eqn:Ed; auto. rewrite alookup_aset_other; auto.
  apply ustr_eqb_neq. intros E. apply mem_ustr_false in H. apply H. unfold dconst_names.
  rewrite <- E. apply in_map. apply filter_In. split; auto. rewrite Ed. auto.
Qed.

Section Constr.
  Variable vr : variant.
  Variable pok : ver -> ustring -> bool.
  Variables c sc : cls.
  Hypothesis Hfam : cfamily c = cfamily sc.
  Hypothesis Hsub : forall s, In s (cslots c) -> exists s', find_slot sc (sname s) = Some s'.
  Variable setting : list (ustring * pval).
  Hypothesis ND : NoDup (map fst setting).

  Notation mem := (members c setting).

  Lemma dfl_sub p : In p (defaulted_names c setting) -> In p (dconst_names c).
  Proof.
    unfold defaulted_names, dconst_names. intros H. apply in_map_iff in H. destruct H as [s [<- Hs]].
    apply filter_In in Hs. destruct Hs as [Hs Hc]. apply in_map. apply filter_In. split; auto.
    apply andb_true_iff in Hc. destruct Hc as [_ Hc]. destruct (sdef s); auto; discriminate.
  Qed.

  Lemma lookup_members p :
    mem_ustr p (dconst_names c) = false ->
    jlookup p mem = match alookup p setting with Some x => Some (encode false x) | None => None end.
  Proof.
    intros H. rewrite jlookup_alookup. unfold members, kept. rewrite alookup_map_encode.
    rewrite (alookup_filter_keys (fun k => false || negb (mem_ustr k (defaulted_names c setting)))).
    assert (mem_ustr p (defaulted_names c setting) = false).
    { apply mem_ustr_false. intros Hin. apply dfl_sub in Hin. apply mem_ustr_In in Hin. congruence. }
    rewrite H0. simpl. auto.
  Qed.

  Lemma jhas_members p : mem_ustr p (dconst_names c) = false -> jhas p mem = amem p setting.
  Proof. intros H. unfold jhas, jget, amem. rewrite (lookup_members p H). destruct (alookup p setting); auto. Qed.

  Lemma default_checked_sub p : In p (default_checked c) -> In p (s_default_checked sc).
  Proof.
    unfold default_checked, s_default_checked. rewrite Hfam. intros H. apply filter_In in H. destruct H as [H1 H2].
    apply filter_In. split; auto. apply in_map_iff in H1. destruct H1 as [s [<- Hs]].
    destruct (Hsub s Hs) as [s' Hf]. unfold find_slot in Hf. apply find_some in Hf. destruct Hf as [Hin He].
    apply ustr_eqb_eq in He. rewrite <- He. apply in_map. auto.
  Qed.

  Lemma at_least_one_inv ps : at_least_one ps setting = Ok tt -> ps = [] \/ existsb (fun p => amem p setting) ps = true.
  Proof.
    unfold at_least_one. destruct ps; auto. destruct (existsb _ (u :: ps)) eqn:E; auto. discriminate.
  Qed.

  Lemma constr_sound k fuel :
    constr_proved k = true ->
    (forall p, In p (constr_names c k) -> mem_ustr p (dconst_names c) = false) ->
    (uses_default_checked k = true -> default_checked c <> []) ->
    eval_constr vr pok fuel c setting k = Ok tt ->
    jconstr pok 1 sc mem k = true.
  Proof.
    intros Hp Hn Hd H. destruct fuel; [discriminate|].
    change (jconstr_body pok (jconstr pok 0 sc mem) sc mem k = true).
    destruct k; simpl in Hp; try discriminate; simpl in H; simpl constr_names in Hn; unfold jconstr_body.
    - (* CAtLeastOne *)
      destruct (at_least_one_inv _ H) as [-> | E]; auto. destruct ps; auto.
      rewrite (existsb_ext_in _ (fun p => amem p setting)); auto. intros x Hx. apply jhas_members. auto.
    - (* CAtLeastOneDefault *)
      destruct (at_least_one_inv _ H) as [E | E]; [exfalso; apply Hd; auto|].
      apply existsb_exists in E. destruct E as [p [Hin Hp']].
      assert (Hex : existsb (fun p => jhas p mem) (s_default_checked sc) = true).
      { apply existsb_exists. exists p. split; [apply default_checked_sub; auto|]. rewrite jhas_members; auto. }
      destruct (s_default_checked sc); auto.
    - (* CMutEx *)
      rewrite s_dedup_udedup.
      rewrite (filter_ext_in' _ (fun p => amem p setting)).
      + destruct (Nat.ltb 1 _ || Nat.eqb _ 0) eqn:E; try discriminate.
        apply orb_false_iff in E. destruct E as [E1 E2]. apply Nat.ltb_ge in E1. apply Nat.eqb_neq in E2.
        apply Nat.eqb_eq. lia.
      + intros x Hx. apply jhas_members. apply Hn. apply udedup_In. auto.
    - (* CDepends *)
      destruct (depends_ok ps ds setting) eqn:E; try discriminate. unfold depends_ok in E.
      rewrite forallb_forall in *. intros p Hpin. specialize (E p Hpin).
      rewrite forallb_forall in *. intros dp Hdin. specialize (E dp Hdin).
      assert (Ap : mem_ustr p (dconst_names c) = false) by (apply Hn; apply in_or_app; auto).
      assert (Ad : mem_ustr dp (dconst_names c) = false) by (apply Hn; apply in_or_app; auto).
      rewrite !jhas_members by auto. unfold jget. rewrite (lookup_members p Ap).
      destruct (negb (amem p setting) && amem dp setting); auto.
      unfold pget in E. destruct (alookup p setting) as [x|]; auto.
      destruct (encode false x) eqn:Ex; auto. destruct b; auto.
      apply encode_JBool_inv in Ex. subst x. exact E.
    - (* CProcessExt *)
      assert (Ae : mem_ustr (u "extensions") (dconst_names c) = false).
      { apply Hn. apply in_or_app. right. left. auto. }
      destruct (at_least_one (default_checked c) setting) as [[]| |] eqn:E.
      + destruct (at_least_one_inv _ E) as [E' | E']; [exfalso; apply Hd; auto|].
        apply existsb_exists in E'. destruct E' as [p [Hin Hp']].
        apply orb_true_iff. left. apply existsb_exists. exists p. split; [apply default_checked_sub; auto|].
        rewrite jhas_members; auto. apply Hn. apply in_or_app. auto.
      + match type of H with (if ?b then _ else _) = _ => destruct b eqn:E2; try discriminate end.
        apply negb_false_iff in E2. change (amem (u "extensions") setting = true) in E2.
        rewrite jhas_members, E2 by auto. apply orb_true_r.
      + match type of H with (if ?b then _ else _) = _ => destruct b eqn:E2; try discriminate end.
        apply negb_false_iff in E2. change (amem (u "extensions") setting = true) in E2.
        rewrite jhas_members, E2 by auto. apply orb_true_r.
    - (* CSkipBaseCheck *) reflexivity.
  Qed.
End Constr.

(* the stored properties with the value of a present property written over *)
Lemma facts_aset vr sp pok c sc key v setting :
  facts vr sp pok c sc setting -> entry_ok sp pok sc key v -> amem key setting = true ->
  (forall k, In k ((match cfamily c with FExt => [CAtLeastOneDefault] | _ => [] end) ++ ccons c) ->
             constr_proved k = true /\ ~ In key (constr_names c k)) ->
  facts vr sp pok c sc (aset key v setting).
Proof.
  intros (HInv & Hreq & Hdef & fuel & Hall) Hv Hk Hcons.
  split; [apply Inv_aset; auto|]. split; [|split].
  - intros s' Hs' Hr. rewrite amem_aset_present; auto.
  - intros s Hs Hd. rewrite amem_aset_present; auto.
  - exists fuel. rewrite <- Hall. apply constr_all_ext. intros k Hin.
    destruct (Hcons k Hin). apply eval_constr_aset; auto.
Qed.

(* Proofs/SchemaKnot.v -- C02, the whole interpreter: by induction on the fuel of `run`, every strict,
   non-interoperability request whose input is in scope and whose class is covered (class_proved)
   returns an object that the specification's class accepts.                                       *)
From Coq Require Import NArith ZArith List String Bool Lia.
From V Require Import Base.UString Base.Json Model.SchemaTypes Model.PyBase Model.Schema
     Spec.StixValid Spec.SchemaRefine Proofs.SchemaBasics Proofs.SchemaValidMono Proofs.SchemaScope
     Proofs.SchemaTime Proofs.SchemaLeaf Proofs.SchemaObject Proofs.SchemaProved Proofs.SchemaKinds
     Proofs.SchemaConstr Proofs.SchemaRefineFacts.
Import ListNotations.

(* keep the string literals of the model readable under simpl *)
Local Arguments u : simpl never.

Definition req_strict (r : request) : bool :=
  match r with
  | RConstruct _ a i _ _ => negb a && negb i
  | RParse a i _ _ => negb a && negb i
  | RParseObs _ _ a i _ => negb a && negb i
  end.

Definition req_scope (r : request) : bool :=
  match r with
  | RConstruct _ _ _ kw _ => dict_scope kw
  | RParse _ _ _ d => dict_scope d
  | RParseObs _ _ _ _ d => dict_scope d
  end.

(* the constructor of a class returns an object of that class *)
Lemma construct_generic_cid vr ev w pok sok rc rp ro fuel c allow interop kwargs pre vrefs o :
  construct_generic vr ev w pok sok rc rp ro fuel c allow interop kwargs pre vrefs = Ok o ->
  exists inner dfl hc, o = PObject (cid c) inner dfl hc.
Proof.
  unfold construct_generic. intros H. inv_bind H. inv_bind Hb. cbv zeta in Hbb.
  match type of Hbb with
  | context [match ?ck with [] => _ | _ :: _ => _ end] => destruct ck; destruct allow
  end; try discriminate.
  all: match type of Hbb with (if ?b then _ else _) = _ => destruct b; try discriminate end.
  all: inv_bind Hbb; destruct a1 as [setting hc]; cbn [bind] in Hbbb.
  all: match type of Hbbb with (if ?b then _ else _) = _ => destruct b; try discriminate end.
  all: inv_bind Hbbb; inv_bind Hbbbb.
  all: repeat match type of Hbbbbb with (if ?b then _ else _) = _ => destruct b; try discriminate end.
  all: inversion Hbbbbb; eauto.
Qed.

Lemma run_construct_cid vr ev w pok sok fuel k allow interop kw vrefs oc inner dfl hc :
  run vr ev w pok sok fuel (RConstruct k allow interop kw vrefs) = Ok (PObject oc inner dfl hc) -> oc = k.
Proof.
  destruct fuel; [discriminate|]. simpl. intros H.
  destruct (find_class (wclasses w) k) as [c|] eqn:Hfc; try discriminate.
  destruct (find_class_In _ _ _ Hfc) as [_ Hcid].
  match type of H with (if ?b then _ else _) = _ => destruct b; try discriminate end.
  inv_bind H.
  assert (exists inner' dfl' hc', a = PObject (cid c) inner' dfl' hc') as (inner' & dfl' & hc' & ->).
  { destruct (cinit c) as [|names| | |vv| |src]; try discriminate; try (eapply construct_generic_cid; eauto; fail).
    destruct (alookup (u "definition_type") kw) as [dt|]; [|eapply construct_generic_cid; eauto].
    destruct (alookup (u "definition") kw) as [dv|]; [|eapply construct_generic_cid; eauto].
    destruct dt as [| | | |t| |]; try discriminate.
    repeat match type of Ha with
           | match ?x with _ => _ end = _ => destruct x eqn:?; try discriminate
           | (if ?b then _ else _) = _ => destruct b eqn:?; try discriminate
           end.
    inv_bind Ha.
    match type of Hab with (if ?b then _ else _) = _ => destruct b; try discriminate end.
    inv_bind Hab. apply construct_generic_cid in Habb. destruct Habb as (i & dd & h & ->).
    repeat match goal with |- context [match ?x with _ => _ end] => destruct x end; simpl; eauto. }
  destruct (cfamily c); destruct (cver c); try (injection Hb as <- <- <- <-; auto; fail).
  repeat match type of Hb with
         | (if ?b then _ else _) = _ => destruct b
         | match ?x with _ => _ end = _ => destruct x; try discriminate
         end; injection Hb as <- <- <- <-; auto.
Qed.

Ltac crush H :=
  repeat match type of H with
         | match ?x with _ => _ end = _ => destruct x eqn:?; try discriminate
         | (if ?b then _ else _) = _ => destruct b eqn:?; try discriminate
         end.

Lemma d2s_ext_scan_raw g d l o : d2s_ext_scan g d l = Ok o -> o = PJ (JObj d).
Proof.
  induction l as [|[k e] l IH]; cbn [d2s_ext_scan]; intros H; [discriminate|].
  crush H; auto; inversion H; auto.
Qed.

Section Knot.
  Variable vr : variant.
  Variable ev : env.
  Variables w sp : world.
  Variable pok : ver -> ustring -> bool.
  Variable sok : list (ustring * pval) -> pval -> result bool.

  Hypothesis Hvr : variant_sound vr = true.
  Hypothesis Hev : env_ok ev = true.
  Hypothesis Href : world_refines w sp = true.

  Definition result_ok (n : nat) (r : request) (o : pval) : Prop :=
    match r with
    | RConstruct kid _ _ _ _ => class_proved n w kid = true -> good sp pok kid o
    | _ => forall cid inner dfl hc, o = PObject cid inner dfl hc -> class_proved n w cid = true -> good sp pok cid o
    end.

  Lemma good_cid kid o : good sp pok kid o -> exists inner dfl, o = PObject kid inner dfl false.
  Proof. intros (inner & dfl & E & _). eauto. Qed.

  Lemma class_wf_parts c : class_wf c = true ->
    unodup (map sname (cslots c)) = true /\
    (forall k p, In k (ext_constr c ++ ccons c) -> In p (constr_names c k) -> mem_ustr p (dconst_names c) = false) /\
    (forall k, In k (ext_constr c ++ ccons c) -> uses_default_checked k = true -> default_checked c <> []) /\
    (forall s j, In s (cslots c) -> sdef s = DConst j -> jscope j = true).
  Proof.
    unfold class_wf. intros H.
    repeat (apply andb_true_iff in H; let H2 := fresh "W" in destruct H as [H H2]).
    split; [auto|]. split; [|split].
    - intros k p Hk Hp. rewrite forallb_forall in W2. specialize (W2 k Hk). rewrite forallb_forall in W2.
      specialize (W2 p Hp). apply negb_true_iff in W2. auto.
    - intros k Hk Hu Hnil. apply orb_true_iff in W1. destruct W1 as [W1 | W1].
      + apply negb_true_iff in W1. assert (existsb uses_default_checked (ext_constr c ++ ccons c) = true).
        { apply existsb_exists. eauto. } congruence.
      + rewrite Hnil in W1. discriminate.
    - intros s j Hs Hd. rewrite forallb_forall in W0. specialize (W0 s Hs). rewrite Hd in W0. auto.
  Qed.

  Lemma header_ok_parts lc sc : header_ok lc sc = true -> cver lc = cver sc /\ cfamily lc = cfamily sc.
  Proof.
    unfold header_ok. intros H. apply andb_true_iff in H. destruct H as [H H3]. apply andb_true_iff in H. destruct H as [H1 _].
    split.
    - destruct (cver lc), (cver sc); simpl in H1; auto; discriminate.
    - destruct (cfamily lc), (cfamily sc); simpl in H3; auto; discriminate.
  Qed.

  (* the generic constructor on a covered class *)
  Lemma generic_ok f n c kwargs vrefs o :
    (forall r o, req_strict r = true -> req_scope r = true -> run vr ev w pok sok f r = Ok o -> result_ok n r o) ->
    find_class (wclasses w) (cid c) = Some c ->
    class_wf c = true ->
    forallb (fun s => kind_proved (class_proved n w) (skind s)) (cslots c) = true ->
    forallb constr_proved (ext_constr c ++ ccons c) = true ->
    dict_scope kwargs = true ->
    construct_generic vr ev w pok sok
      (fun k a i kw => run vr ev w pok sok f (RConstruct k a i kw None))
      (fun a i d => run vr ev w pok sok f (RParse a i None d))
      (fun vv refs a d => run vr ev w pok sok f (RParseObs (Some vv) refs a false d))
      (S f) c false false kwargs [] vrefs = Ok o ->
    exists sc setting,
      class_refine_failures c sc = [] /\
      o = PObject (cid c) setting (defaulted_names c setting) false /\
      facts vr sp pok c sc setting /\
      (forall st, facts vr sp pok c sc st -> good sp pok (cid c) (PObject (cid c) st (defaulted_names c st) false)).
  Proof.
    intros IH Hfc Hwf Hkinds Hcons Hsc H.
    destruct (find_class_In _ _ _ Hfc) as [Hin _].
    destruct (world_refines_class _ _ _ Href Hin) as [sc [Hfs Hcrf]].
    destruct (crf_parts _ _ Hcrf) as (Hhead & _ & Hslots & Hreq & Hcc).
    destruct (header_ok_parts _ _ Hhead) as [Hver Hfam].
    destruct (class_wf_parts _ Hwf) as (Hnames & Hcn & Hdc & Hdconst).
    destruct (vr_flags vr Hvr) as (_ & _ & _ & _ & _ & Hpad & _ & _).
    set (rc := fun k a i kw => run vr ev w pok sok f (RConstruct k a i kw None)) in *.
    set (rp := fun a i d => run vr ev w pok sok f (RParse a i None d)) in *.
    set (ro := fun vv refs a d => run vr ev w pok sok f (RParseObs (Some vv) refs a false d)) in *.
    assert (IHrc : forall k d o', class_proved n w k = true -> dict_scope d = true -> rc k false false d = Ok o' -> good sp pok k o').
    { intros k d o' Hk Hd Hr. unfold rc in Hr. apply (IH (RConstruct k false false d None) o'); auto. }
    assert (Hslots' : forall s, In s (cslots c) ->
               exists s', find_slot sc (sname s) = Some s' /\ kind_refines (skind s) (skind s') = true /\
                          sound_kind vr w sp pok rc rp ro (skind s) (skind s')).
    { intros s Hs. destruct (Hslots s Hs) as [s' [Hf Hk]]. exists s'. split; auto. split; auto.
      rewrite forallb_forall in Hkinds. eapply kind_sound; eauto. }
    assert (Hcon : forall fuel setting,
               Inv sp pok sc setting ->
               constr_all (eval_constr vr pok fuel c setting)
                          ((match cfamily c with FExt => [CAtLeastOneDefault] | _ => [] end) ++ ccons c) = Ok tt ->
               exists n0, forallb (jconstr pok n0 sc (members c setting))
                                  ((match cfamily sc with FExt => [CAtLeastOneDefault] | _ => [] end) ++ ccons sc) = true).
    { intros fuel setting HInv Hall. exists 1%nat. rewrite forallb_forall. intros k' Hk'.
      assert (Hlib : k' = CSkipBaseCheck \/ In k' (ext_constr c ++ ccons c)).
      { apply in_app_or in Hk'. destruct Hk' as [Hk' | Hk'].
        - right. apply in_or_app. left. unfold ext_constr. rewrite Hfam. exact Hk'.
        - destruct (Hcc k' Hk'); auto. right. apply in_or_app. auto. }
      destruct Hlib as [-> | Hlib]; [reflexivity|].
      destruct HInv as [ND _].
      eapply (constr_sound vr pok c sc Hfam) with (fuel := fuel); eauto.
      + intros s Hs. destruct (Hslots s Hs) as [s' [Hf _]]. eauto.
      + rewrite forallb_forall in Hcons. auto.
      + eapply constr_all_In; eauto. }
    assert (Hpre : forall (m : ustring) (x : pval), alookup m (@nil (ustring * pval)) = Some x ->
                   match x with PJ _ => False | _ => True end /\ entry_ok sp pok sc m x /\ pval_has_custom x = false).
    { intros m x Hx. discriminate Hx. }
    destruct (construct_generic_facts vr ev w sp pok sok rc rp ro Hpad c sc Hnames Hslots' Hdconst Hreq kwargs Hsc []
                Hpre (S f) kwargs vrefs o eq_refl H)
      as (setting & -> & F).
    exists sc, setting. split; [auto|split; [auto|split; [exact F|]]].
    intros st Fst. eapply (facts_good vr w sp pok sok rc rp ro c sc); eauto.
  Qed.

  Theorem knot : forall fuel n r o,
      req_strict r = true -> req_scope r = true ->
      run vr ev w pok sok fuel r = Ok o -> result_ok n r o.
  Proof.
    induction fuel as [|f IH]; intros n r o Hst Hsc H; [discriminate|].
    destruct r as [kid allow interop kwargs0 vrefs0 | allow interop version d | vv refs allow interop d];
      simpl in Hst; apply andb_true_iff in Hst; destruct Hst as [Ha Hi];
      apply negb_true_iff in Ha; apply negb_true_iff in Hi; subst allow interop; simpl in Hsc.
    - (* a class constructor *)
      intros Hcp. destruct n as [|m]; [discriminate|]. simpl in Hcp.
      simpl in H. destruct (find_class (wclasses w) kid) as [c|] eqn:Hfc; try discriminate.
      destruct (find_class_In _ _ _ Hfc) as [Hin Hcid]. subst kid.
      repeat (apply andb_true_iff in Hcp; let H2 := fresh "P" in destruct Hcp as [Hcp H2]).
      rename Hcp into Pinit.
      match type of H with (if ?b then _ else _) = _ => destruct b; try discriminate end.
      inv_bind H.
      assert (Hgen : exists sc setting,
                 class_refine_failures c sc = [] /\
                 a = PObject (cid c) setting (defaulted_names c setting) false /\
                 facts vr sp pok c sc setting /\
                 (forall st, facts vr sp pok c sc st -> good sp pok (cid c) (PObject (cid c) st (defaulted_names c st) false))).
      { destruct (cinit c) eqn:Ei; simpl in Pinit; try discriminate.
        - eapply generic_ok; eauto.
        - eapply generic_ok; [eauto|eauto|eauto|eauto|eauto| |exact Ha]. apply dict_scope_filter. auto.
        - eapply generic_ok; [eauto|eauto|eauto|eauto|eauto| |exact Ha].
          match goal with |- dict_scope (if ?b then _ else _) = true => destruct b; auto end.
          apply dict_scope_aset; auto.
        - eapply generic_ok; eauto.
        - eapply generic_ok; eauto. }
      destruct Hgen as (sc & setting & Hcrf & -> & F & Hgood).
      pose proof (Hgood setting F) as G0.
      destruct (cfamily c) eqn:Efam; destruct (cver c) eqn:Ever; try (injection Hb as <-; exact G0).
      destruct (amem _ kwargs0); [injection Hb as <-; exact G0|].
      destruct (existsb _ (cidcontrib c)); [|injection Hb as <-; exact G0].
      destruct (ctype c) as [t|] eqn:Et; try discriminate. injection Hb as <-.
      (* the deterministic id is written over the default *)
      destruct (class_wf_parts _ P1) as (Hnames & _).
      unfold class_wf in P1. rewrite Efam, Ever, Et in P1.
      apply andb_true_iff in P1. destruct P1 as [_ W]. apply andb_true_iff in W. destruct W as [Wid W].
      destruct (find_slot c (u "id")) as [sid|] eqn:Esid; try discriminate.
      destruct (skind sid) as [| | | |p vv| | | | | | | | | | | | | | | | | | | |] eqn:Ekid; try discriminate.
      destruct vv; try discriminate. destruct (sdef sid) eqn:Edid; try discriminate.
      apply ustr_eqb_eq in W. subst p.
      destruct (find_slot_spec _ _ _ Esid) as [Hsid Hnid].
      destruct (crf_parts _ _ Hcrf) as (_ & _ & Hslots & _ & _).
      destruct (Hslots sid Hsid) as [s' [Hf' Hkr]]. rewrite Hnid in Hf'. rewrite Ekid in Hkr.
      destruct (skind s') as [| | | |p' vv'| | | | | | | | | | | | | | | | | | | |] eqn:Ek'; simpl in Hkr; try discriminate.
      apply andb_true_iff in Hkr. destruct Hkr as [Hp' Hv']. apply ustr_eqb_eq in Hp'. subst p'.
      destruct vv'; try discriminate.
      assert (Hamem : amem (u "id") setting = true).
      { destruct F as (_ & _ & Hdef & _). rewrite <- Hnid. apply Hdef; auto. unfold default_present. rewrite Edid. auto. }
      assert (Fid : facts vr sp pok c sc (aset (u "id") (PJ (JStr (t ++ u "--" ++ e_uuid5 ev))) setting)).
      { apply facts_aset; auto.
        - split; [exact I|]. exists s'. split; auto. exists 1%nat. rewrite Ek'. simpl.
          unfold valid_id.
          replace (t ++ 45%N :: 45%N :: e_uuid5 ev) with ((t ++ u "--") ++ e_uuid5 ev) by (rewrite <- app_assoc; reflexivity).
          rewrite ustr_prefix_app. rewrite udrop_app. rewrite andb_true_l.
          unfold env_ok in Hev. apply andb_true_iff in Hev. tauto.
        - intros k Hk. split.
          + rewrite forallb_forall in P. apply P. unfold ext_constr. exact Hk.
          + rewrite forallb_forall in Wid. specialize (Wid k Hk). apply negb_true_iff in Wid.
            apply mem_ustr_false in Wid. exact Wid. }
      pose proof (Hgood _ Fid) as G1.
      rewrite defaulted_names_aset in G1; auto.
      apply mem_ustr_false. unfold dconst_names. intros Hin'. apply in_map_iff in Hin'. destruct Hin' as [s2 [Hn2 Hf2]].
      apply filter_In in Hf2. destruct Hf2 as [Hs2 Hd2].
      assert (s2 = sid).
      { pose proof (find_self_nodup (cslots c) s2 (unodup_NoDup _ Hnames) Hs2) as A.
        pose proof (find_self_nodup (cslots c) sid (unodup_NoDup _ Hnames) Hsid) as B.
        rewrite Hn2, <- Hnid in A. rewrite A in B. inversion B; auto. }
      subst s2. rewrite Edid in Hd2. discriminate.
    - (* parse *)
      intros cid inner dfl hc -> Hcp. simpl in H.
      destruct (alookup (u "type") d) as [ty|]; try discriminate.
      inv_bind H.
      crush Hb.
      all: try (apply d2s_ext_scan_raw in Hb; discriminate).
      all: inv_bind Hb; crush Hbb; injection Hbb as ->.
      all: pose proof (run_construct_cid _ _ _ _ _ _ _ _ _ _ _ _ _ _ _ Hba); subst.
      all: exact (IH n (RConstruct _ false false d None) _ eq_refl Hsc Hba Hcp).
    - (* parse_observable *)
      intros cid inner dfl hc -> Hcp. simpl in H.
      destruct (alookup (u "type") d) as [ty|]; try discriminate.
      inv_bind H.
      crush Hb.
      all: inv_bind Hb; crush Hbb; injection Hbb as ->.
      all: pose proof (run_construct_cid _ _ _ _ _ _ _ _ _ _ _ _ _ _ _ Hba); subst.
      all: exact (IH n (RConstruct _ false false d (Some refs)) _ eq_refl Hsc Hba Hcp).
  Qed.
End Knot.

(* Proofs/ScoIdFacts.v -- facts about Model/ScoId.v: lookups, the projection onto
   the contributing properties, the choice of one hash.                          *)
From Coq Require Import String NArith ZArith List Bool Lia Sorted Permutation.
From V Require Import Base.UString Base.Json Model.JcsText Model.Jcs Model.ScoId
  Spec.Rfc8785 Spec.JcsSpec Spec.JsonParse Spec.ScoIdSpec
  Proofs.JcsNumFacts Proofs.JcsSortFacts Proofs.JcsCanonFacts Proofs.JcsParseFacts.
Import ListNotations.
Open Scope N_scope.

(* ---- lookups ------------------------------------------------------------------------ *)
Lemma plookup_In : forall (A : Type) k (m : list (ustring * A)) v, plookup k m = Some v -> In (k, v) m.
Proof.
  induction m as [|[k' v'] m IH]; simpl; intros v H; [discriminate|].
  destruct (ustr_eqb k k') eqn:E.
  - apply ustr_eqb_eq in E. subst. inversion H. left. reflexivity.
  - right. apply IH. exact H.
Qed.

Lemma plookup_none : forall (A : Type) k (m : list (ustring * A)), plookup k m = None <-> ~ In k (map fst m).
Proof.
  induction m as [|[k' v'] m IH]; simpl; [tauto|].
  destruct (ustr_eqb k k') eqn:E.
  - apply ustr_eqb_eq in E. subst. split; [discriminate|]. intro H. exfalso. apply H. left. reflexivity.
  - rewrite IH. split; intro H.
    + intros [H1|H1]; [|contradiction]. subst. rewrite ustr_eqb_refl in E. discriminate.
    + intro H1. apply H. right. exact H1.
Qed.

Lemma In_plookup : forall (A : Type) k v (m : list (ustring * A)), NoDup (map fst m) -> In (k, v) m -> plookup k m = Some v.
Proof.
  induction m as [|[k' v'] m IH]; simpl; intros Hn H; [contradiction|].
  inversion Hn as [|? ? Hnotin Hn']; subst. destruct H as [H|H].
  - inversion H; subst. rewrite ustr_eqb_refl. reflexivity.
  - destruct (ustr_eqb k k') eqn:E.
    + apply ustr_eqb_eq in E. subst. exfalso. apply Hnotin. change k' with (fst (k', v)). apply in_map. exact H.
    + apply IH; assumption.
Qed.

Lemma plookup_perm : forall (A : Type) k (m m' : list (ustring * A)),
  Permutation m m' -> NoDup (map fst m) -> plookup k m = plookup k m'.
Proof.
  intros A k m m' Hp Hn. destruct (plookup k m) as [v|] eqn:E.
  - symmetry. apply In_plookup.
    + eapply Permutation_NoDup; [apply Permutation_map; exact Hp|exact Hn].
    + eapply Permutation_in; [exact Hp|]. apply plookup_In. exact E.
  - symmetry. apply plookup_none. apply plookup_none in E. intro H. apply E.
    eapply Permutation_in; [apply Permutation_map, Permutation_sym; exact Hp|exact H].
Qed.

(* ---- dict_set -------------------------------------------------------------------------- *)
Lemma dict_set_keys : forall (A : Type) k (v : A) d k', In k' (map fst (dict_set k v d)) <-> k' = k \/ In k' (map fst d).
Proof.
  induction d as [|[k0 v0] d IH]; simpl; intro k'.
  - split; intros [H|H]; auto; contradiction.
  - destruct (ustr_eqb k k0) eqn:E; simpl.
    + apply ustr_eqb_eq in E. subst. intuition (subst; auto).
    + rewrite IH. intuition (subst; auto).
Qed.

Lemma dict_set_nodup : forall (A : Type) k (v : A) d, NoDup (map fst d) -> NoDup (map fst (dict_set k v d)).
Proof.
  induction d as [|[k0 v0] d IH]; simpl; intro Hn.
  - constructor; [intros []|constructor].
  - inversion Hn as [|? ? Hnotin Hn']; subst. destruct (ustr_eqb k k0) eqn:E; simpl.
    + apply ustr_eqb_eq in E. subst. constructor; assumption.
    + constructor; [|apply IH; assumption]. intro H. apply dict_set_keys in H. destruct H as [H|H]; [|contradiction].
      subst. rewrite ustr_eqb_refl in E. discriminate.
Qed.

Lemma dict_set_In : forall (A : Type) k (v : A) d k' v', NoDup (map fst d) ->
  (In (k', v') (dict_set k v d) <-> (k' = k /\ v' = v) \/ (k' <> k /\ In (k', v') d)).
Proof.
  induction d as [|[k0 v0] d IH]; simpl; intros k' v' Hn.
  - split; [intros [H|[]]; inversion H; auto|intros [[H1 H2]|[_ []]]; subst; auto].
  - inversion Hn as [|? ? Hnotin Hn']; subst. destruct (ustr_eqb k k0) eqn:E; simpl.
    + apply ustr_eqb_eq in E. subst. split.
      * intros [H|H]; [inversion H; auto|]. right. split; [|right; exact H].
        intro; subst. apply Hnotin. change k0 with (fst (k0, v')). apply in_map. exact H.
      * intros [[H1 H2]|[H1 [H2|H2]]]; subst; auto. inversion H2; subst. contradiction.
    + rewrite (IH k' v' Hn'). split.
      * intros [H|[[H1 H2]|[H1 H2]]]; auto. inversion H; subst. right. split; auto.
        intro; subst. rewrite ustr_eqb_refl in E. discriminate.
      * intros [[H1 H2]|[H1 [H2|H2]]]; auto.
Qed.

Lemma dict_set_nonempty : forall (A : Type) k (v : A) d, dict_set k v d <> [].
Proof. intros A k v [|[k0 v0] d]; simpl; [discriminate|]. destruct (ustr_eqb k k0); discriminate. Qed.

(* ---- the projection ----------------------------------------------------------------------- *)
Section Project.
  Variable prefs : list ustring.
  Variable hp : hash_pick.

  Lemma project_ext : forall contrib obj obj' acc,
    (forall k, In k contrib -> plookup k obj = plookup k obj') ->
    project prefs hp contrib obj acc = project prefs hp contrib obj' acc.
  Proof.
    induction contrib as [|key rest IH]; intros obj obj' acc H; [reflexivity|].
    simpl. rewrite <- (H key (or_introl eq_refl)).
    destruct (plookup key obj) as [v|].
    - destruct (contrib_value prefs hp key v); [|reflexivity]. apply IH. intros k Hk. apply H. right. exact Hk.
    - apply IH. intros k Hk. apply H. right. exact Hk.
  Qed.

  (* the value a present contributing property gets *)
  Definition member_of (obj : list (ustring * pval)) (k : ustring) (jv : jvalue) : Prop :=
    exists v, plookup k obj = Some v /\ contrib_value prefs hp k v = IOk jv.

  Lemma member_of_fun : forall obj k jv jv', member_of obj k jv -> member_of obj k jv' -> jv = jv'.
  Proof. intros obj k jv jv' [v [H1 H2]] [v' [H1' H2']]. rewrite H1 in H1'. inversion H1'; subst. rewrite H2 in H2'. inversion H2'. reflexivity. Qed.

  Lemma project_spec_acc : forall contrib obj acc m,
    NoDup (map fst acc) -> (forall k jv, In (k, jv) acc -> member_of obj k jv) ->
    project prefs hp contrib obj acc = IOk m ->
    NoDup (map fst m) /\
    (forall k jv, In (k, jv) m <-> member_of obj k jv /\ (In k (map fst acc) \/ In k contrib)).
  Proof.
    induction contrib as [|key rest IH]; intros obj acc m Hn Hacc H.
    - simpl in H. inversion H; subst. split; [exact Hn|]. intros k jv. split.
      + intro Hin. split; [apply Hacc; exact Hin|]. left. change k with (fst (k, jv)). apply in_map. exact Hin.
      + intros [Hm [Hk|[]]]. apply in_map_iff in Hk. destruct Hk as [[k' jv'] [E Hin]]. simpl in E. subst k'.
        rewrite (member_of_fun obj k jv jv' Hm (Hacc _ _ Hin)). exact Hin.
    - simpl in H. destruct (plookup key obj) as [v|] eqn:El.
      + destruct (contrib_value prefs hp key v) as [jv0|e] eqn:Ec; [|discriminate].
        assert (Hm0 : member_of obj key jv0) by (exists v; auto).
        destruct (IH obj (dict_set key jv0 acc) m (dict_set_nodup _ key jv0 acc Hn)) as [N S]; [|exact H|].
        { intros k jv Hin. apply (dict_set_In _ key jv0 acc k jv Hn) in Hin.
          destruct Hin as [[E1 E2]|[_ Hin]]; [subst; exact Hm0|apply Hacc; exact Hin]. }
        split; [exact N|]. intros k jv. rewrite S. split; intros [Hm Hk]; (split; [exact Hm|]).
        * destruct Hk as [Hk|Hk]; [|right; right; exact Hk]. apply dict_set_keys in Hk.
          destruct Hk as [Hk|Hk]; [subst; right; left; reflexivity|left; exact Hk].
        * destruct Hk as [Hk|[Hk|Hk]]; [left; apply dict_set_keys; right; exact Hk|subst; left; apply dict_set_keys; left; reflexivity|right; exact Hk].
      + destruct (IH obj acc m Hn Hacc H) as [N S]. split; [exact N|]. intros k jv. rewrite S.
        split; intros [Hm Hk]; (split; [exact Hm|]).
        * destruct Hk as [Hk|Hk]; [left; exact Hk|right; right; exact Hk].
        * destruct Hk as [Hk|[Hk|Hk]]; [left; exact Hk| |right; exact Hk].
          subst. destruct Hm as [v [Hv _]]. rewrite El in Hv. discriminate.
  Qed.

  Lemma project_spec : forall contrib obj m, project prefs hp contrib obj [] = IOk m ->
    NoDup (map fst m) /\ (forall k jv, In (k, jv) m <-> In k contrib /\ member_of obj k jv).
  Proof.
    intros contrib obj m H. destruct (project_spec_acc contrib obj [] m) as [N S]; auto.
    - constructor.
    - intros k jv [].
    - split; [exact N|]. intros k jv. rewrite S. simpl. tauto.
  Qed.

  Lemma project_nonempty_acc : forall contrib obj acc m, acc <> [] -> project prefs hp contrib obj acc = IOk m -> m <> [].
  Proof.
    induction contrib as [|key rest IH]; intros obj acc m Ha H.
    - simpl in H. inversion H; subst. exact Ha.
    - simpl in H. destruct (plookup key obj) as [v|].
      + destruct (contrib_value prefs hp key v) as [jv|e]; [|discriminate].
        eapply IH; [|exact H]. apply dict_set_nonempty.
      + eapply IH; eauto.
  Qed.

  Lemma project_none_present : forall contrib obj acc,
    (forall k, In k contrib -> plookup k obj = None) -> project prefs hp contrib obj acc = IOk acc.
  Proof.
    induction contrib as [|key rest IH]; intros obj acc H; [reflexivity|].
    simpl. rewrite (H key (or_introl eq_refl)). apply IH. intros k Hk. apply H. right. exact Hk.
  Qed.

  Lemma project_empty_inv : forall contrib obj, project prefs hp contrib obj [] = IOk [] ->
    forall k, In k contrib -> plookup k obj = None.
  Proof.
    induction contrib as [|key rest IH]; intros obj H k Hk; [contradiction|].
    simpl in H. destruct (plookup key obj) as [v|] eqn:El.
    - destruct (contrib_value prefs hp key v) as [jv|e]; [|discriminate].
      exfalso. eapply project_nonempty_acc; [|exact H|reflexivity]. discriminate.
    - destruct Hk as [Hk|Hk]; [subst; exact El|]. apply IH; assumption.
  Qed.
End Project.

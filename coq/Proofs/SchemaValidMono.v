(* Proofs/SchemaValidMono.v -- the specification validator (Spec/StixValid.v) is monotone in its fuel:
   more fuel never turns a valid verdict into an invalid one.                                     *)
From Coq Require Import NArith ZArith List String Bool Lia.
From V Require Import Base.UString Base.Json Model.SchemaTypes Model.PyBase Spec.StixValid.
Import ListNotations.

Lemma forallb_imp {A} (f g : A -> bool) (l : list A) :
  (forall x, In x l -> f x = true -> g x = true) -> forallb f l = true -> forallb g l = true.
Proof.
  induction l; simpl; intros H Hf; auto.
  apply andb_true_iff in Hf. destruct Hf as [H1 H2]. apply andb_true_iff. split; auto.
Qed.

Lemma existsb_imp {A} (f g : A -> bool) (l : list A) :
  (forall x, In x l -> f x = true -> g x = true) -> existsb f l = true -> existsb g l = true.
Proof.
  induction l; simpl; intros H Hf; auto.
  apply orb_true_iff in Hf. apply orb_true_iff. destruct Hf as [H1 | H2]; auto.
Qed.

Section Mono.
  Variable sw : world.
  Variable pok : ver -> ustring -> bool.

  Lemma jconstr_body_mono (r1 r2 : constr -> bool) c m k :
    (forall x, r1 x = true -> r2 x = true) ->
    jconstr_body pok r1 c m k = true -> jconstr_body pok r2 c m k = true.
  Proof.
    intros Hr. destruct k; simpl; auto.
    destruct (jcond c0 m) as [[|]|]; auto. apply forallb_imp. auto.
  Qed.

  Lemma jconstr_mono_S n c m k : jconstr pok n c m k = true -> jconstr pok (S n) c m k = true.
  Proof.
    revert k. induction n; intros k H; [discriminate|].
    change (jconstr_body pok (jconstr pok (S n) c m) c m k = true).
    change (jconstr_body pok (jconstr pok n c m) c m k = true) in H.
    eapply jconstr_body_mono; eauto.
  Qed.

  Lemma valid_kind_body_mono (vk1 vk2 : pkind -> jvalue -> bool) (vo1 vo2 : ustring -> jvalue -> bool) k j :
    (forall k j, vk1 k j = true -> vk2 k j = true) ->
    (forall c j, vo1 c j = true -> vo2 c j = true) ->
    valid_kind_body sw vk1 vo1 k j = true -> valid_kind_body sw vk2 vo2 k j = true.
  Proof.
    intros Hk Ho. destruct k; simpl; auto.
    - (* KObservable *)
      destruct j; auto. intros H. apply andb_true_iff in H. destruct H as [H1 H2]. rewrite H1. simpl.
      revert H2. apply forallb_imp. intros [key x] _. simpl. destruct x; auto.
      match goal with |- context [jlookup ?a ?b] => destruct (jlookup a b) as [[]|] end; auto.
      match goal with |- context [assoc ?a ?b] => destruct (assoc a b) end; auto.
    - (* KExtensions *)
      destruct j; auto. intros H. apply andb_true_iff in H. destruct H as [H1 H2]. rewrite H2, andb_true_r.
      revert H1. apply forallb_imp. intros [key x] _. simpl.
      match goal with |- context [assoc ?a ?b] => destruct (assoc a b) end; auto.
    - (* KStixObject *)
      destruct j; auto.
      match goal with |- context [jlookup ?a ?b] => destruct (jlookup a b) as [[]|] end; auto.
      match goal with |- context [assoc ?a (robjects ?r)] => destruct (assoc a (robjects r)) end.
      + intros H. apply andb_true_iff in H. destruct H as [H1 H2]. rewrite H1. simpl. auto.
      + match goal with |- context [assoc ?a (robservables ?r)] => destruct (assoc a (robservables r)) end; auto.
    - (* KMarking *)
      destruct j; auto. apply existsb_imp. auto.
    - (* KList *)
      destruct j; auto. intros H. apply andb_true_iff in H. destruct H as [H1 H2]. rewrite H1. simpl.
      revert H2. apply forallb_imp. auto.
    - (* KListOf *)
      destruct j; auto. intros H. apply andb_true_iff in H. destruct H as [H1 H2]. rewrite H1. simpl.
      revert H2. apply forallb_imp. auto.
  Qed.

  Lemma valid_obj_body_mono (vk1 vk2 : pkind -> jvalue -> bool)
        (jc1 jc2 : cls -> list (ustring * jvalue) -> constr -> bool) cid j :
    (forall k j, vk1 k j = true -> vk2 k j = true) ->
    (forall c m k, jc1 c m k = true -> jc2 c m k = true) ->
    valid_obj_body sw vk1 jc1 cid j = true -> valid_obj_body sw vk2 jc2 cid j = true.
  Proof.
    intros Hk Hc. unfold valid_obj_body. destruct (find_class (wclasses sw) cid); auto. destruct j; auto.
    intros H. apply andb_true_iff in H. destruct H as [H H3]. apply andb_true_iff in H. destruct H as [H1 H2].
    rewrite H2, andb_true_r. apply andb_true_iff. split.
    - revert H1. apply forallb_imp. intros kv _. destruct (find _ (cslots c)); auto.
    - revert H3. apply forallb_imp. auto.
  Qed.

  Lemma valid_mono_S n :
    (forall k j, valid_kind sw pok n k j = true -> valid_kind sw pok (S n) k j = true) /\
    (forall c j, valid_obj sw pok n c j = true -> valid_obj sw pok (S n) c j = true).
  Proof.
    induction n.
    - split; intros; discriminate.
    - destruct IHn as [IHk IHo]. split.
      + intros k j H.
        change (valid_kind_body sw (valid_kind sw pok (S n)) (valid_obj sw pok (S n)) k j = true).
        change (valid_kind_body sw (valid_kind sw pok n) (valid_obj sw pok n) k j = true) in H.
        revert H. apply valid_kind_body_mono; auto.
      + intros c j H.
        change (valid_obj_body sw (valid_kind sw pok (S n)) (jconstr pok (S (S n))) c j = true).
        change (valid_obj_body sw (valid_kind sw pok n) (jconstr pok (S n)) c j = true) in H.
        revert H. apply valid_obj_body_mono; auto. intros. apply jconstr_mono_S; auto.
  Qed.

  Lemma valid_kind_mono (n m : nat) k j : (n <= m)%nat -> valid_kind sw pok n k j = true -> valid_kind sw pok m k j = true.
  Proof. induction 1; auto. intros Hv. apply (proj1 (valid_mono_S m)). auto. Qed.

  Lemma valid_obj_mono (n m : nat) c j : (n <= m)%nat -> valid_obj sw pok n c j = true -> valid_obj sw pok m c j = true.
  Proof. induction 1; auto. intros Hv. apply (proj2 (valid_mono_S m)). auto. Qed.

  Lemma jconstr_mono (n m : nat) c mem k : (n <= m)%nat -> jconstr pok n c mem k = true -> jconstr pok m c mem k = true.
  Proof. induction 1; auto. intros Hv. apply jconstr_mono_S. auto. Qed.
End Mono.

(* Proofs/SchemaC02.v -- C02 assembled: strict_sound for an arbitrary class table (partial: covered
   classes), its instance on the generated tables, and the refuted variants.                       *)
From Coq Require Import NArith ZArith List String Bool Lia.
From V Require Import Base.UString Base.Json Model.SchemaTypes Model.PyBase Model.Schema Model.SchemaRun
     Spec.StixValid Spec.SchemaRefine Proofs.SchemaBasics Proofs.SchemaScope Proofs.SchemaObject
     Proofs.SchemaProved Proofs.SchemaKnot Proofs.SchemaTables Gen.Tables Gen.SpecTables.
From V Require Model.Markings.
Import ListNotations.

Lemma strict_sound_partial_gen :
  forall (vr : variant) (ev : env) (w sp : world) pok sok fuel n req oc inner dfl hc,
    variant_sound vr = true -> env_ok ev = true -> world_refines w sp = true ->
    req_strict req = true -> req_scope req = true ->
    run vr ev w pok sok fuel req = Ok (PObject oc inner dfl hc) ->
    class_proved n w oc = true ->
    hc = false /\ exists m, valid_obj sp pok m oc (encode false (PObject oc inner dfl hc)) = true.
Proof.
  intros vr ev w sp pok sok fuel n req oc inner dfl hc Hvr Hev Href Hst Hsc Hrun Hcp.
  pose proof (knot vr ev w sp pok sok Hvr Hev Href fuel n req _ Hst Hsc Hrun) as K.
  assert (G : good sp pok oc (PObject oc inner dfl hc)).
  { destruct req as [kid a i kw vr0 | a i v d | vv refs a i d]; simpl in K.
    - pose proof (run_construct_cid _ _ _ _ _ _ _ _ _ _ _ _ _ _ _ Hrun). subst kid. auto.
    - eapply K; eauto.
    - eapply K; eauto. }
  destruct G as (inner' & dfl' & E & m & Hm). inversion E; subst. split; auto. eauto.
Qed.

(* the classes of the generated tables that the theorem covers *)
Definition cover_depth : nat := 8.
Definition lib_covered : list ustring :=
  Eval vm_compute in map cid (filter (fun c => class_proved cover_depth lib (cid c)) (wclasses lib)).
Definition lib_uncovered : list ustring :=
  Eval vm_compute in map cid (filter (fun c => negb (class_proved cover_depth lib (cid c))) (wclasses lib)).

Lemma lib_covered_spec : forall c, In c lib_covered -> class_proved cover_depth lib c = true.
Proof.
  assert (H : forallb (fun c => class_proved cover_depth lib c) lib_covered = true) by (vm_compute; reflexivity).
  intros c Hc. rewrite forallb_forall in H. auto.
Qed.

Lemma strict_sound_partial_lib :
  forall (vr : variant) (ev : env) pok sok fuel req oc inner dfl hc,
    variant_sound vr = true -> env_ok ev = true ->
    req_strict req = true -> req_scope req = true ->
    run vr ev lib pok sok fuel req = Ok (PObject oc inner dfl hc) ->
    In oc lib_covered ->
    hc = false /\ exists m, valid_obj spec_relaxed pok m oc (encode false (PObject oc inner dfl hc)) = true.
Proof.
  intros. eapply strict_sound_partial_gen; eauto.
  - exact lib_refines_relaxed.
  - apply lib_covered_spec. auto.
Qed.

(* ---- the defective variants: witnesses ---- *)
Definition witness_pok : ver -> ustring -> bool := pat_ok [] [].
Definition witness_sok := sel_ok Markings.cfg_pinned.
Definition uu : ustring := u "8d1c5bdf-5a0e-4b8e-9a3c-1f2e3d4c5b6a".

Definition variant_with (f : variant -> variant) : variant := f variant_repaired.

Definition vr_dollar_hex : variant :=
  {| vr_hex_z := false; vr_key_z := true; vr_sel_z := true; vr_hash_z := true; vr_interop_z := true;
     vr_uuid_canon := true; vr_year_pad := true; vr_sel_upper := true; vr_ref_flip_unreg := true;
     vr_parse_guard_custom := true; vr_ext_scan_guard := true; vr_detect_default := true; vr_d2s_ext_guard := true;
     vr_toplevel_needs_slot := true; vr_ext_nonempty := true; vr_marking_flag := true;
     vr_flag_from_stored := true; vr_sock_int := true; vr_positional_none := true; vr_bundle20_recheck := true; vr_md20_default_ms := true; vr_ext_order_sorted := true;
     vr_b64_strict := true; vr_detect_notype_parse := true |}.

Definition vr_uuid_lax : variant :=
  {| vr_hex_z := true; vr_key_z := true; vr_sel_z := true; vr_hash_z := true; vr_interop_z := true;
     vr_uuid_canon := false; vr_year_pad := true; vr_sel_upper := true; vr_ref_flip_unreg := true;
     vr_parse_guard_custom := true; vr_ext_scan_guard := true; vr_detect_default := true; vr_d2s_ext_guard := true;
     vr_toplevel_needs_slot := true; vr_ext_nonempty := true; vr_marking_flag := true;
     vr_flag_from_stored := true; vr_sock_int := true; vr_positional_none := true; vr_bundle20_recheck := true; vr_md20_default_ms := true; vr_ext_order_sorted := true;
     vr_b64_strict := true; vr_detect_notype_parse := true |}.

Definition vr_ext_empty : variant :=
  {| vr_hex_z := true; vr_key_z := true; vr_sel_z := true; vr_hash_z := true; vr_interop_z := true;
     vr_uuid_canon := true; vr_year_pad := true; vr_sel_upper := true; vr_ref_flip_unreg := true;
     vr_parse_guard_custom := true; vr_ext_scan_guard := true; vr_detect_default := true; vr_d2s_ext_guard := true;
     vr_toplevel_needs_slot := true; vr_ext_nonempty := false; vr_marking_flag := true;
     vr_flag_from_stored := true; vr_sock_int := true; vr_positional_none := true; vr_bundle20_recheck := true; vr_md20_default_ms := true; vr_ext_order_sorted := true;
     vr_b64_strict := true; vr_detect_notype_parse := true |}.

(* a 2.0 kill-chain phase / 2.1 external reference are enough: leaf classes present in every table *)
Definition req_hex : request :=
  RConstruct (u "2.1/WindowsPEOptionalHeaderType") false false [(u "magic_hex", JStr (u "ab\00000A"))] None.
Definition req_uuid : request :=
  RConstruct (u "2.1/GranularMarking") false false
             [(u "selectors", JArr [JStr (u "id")]); (u "marking_ref", JStr (u "marking-definition--8d1c5bdf5a0e4b8e9a3c1f2e3d4c5b6a"))] None.
Definition req_ext_empty : request :=
  RConstruct (u "2.1/File") false false [(u "name", JStr (u "a")); (u "extensions", JObj [])] None.

(* one member that no fuel makes valid refutes the object *)
Lemma valid_obj_false_of_member sw pok m oc c mem k v s :
  find_class (wclasses sw) oc = Some c -> In (k, v) mem ->
  find (fun s => ustr_eqb (sname s) k) (cslots c) = Some s ->
  valid_kind sw pok m (skind s) v = false ->
  valid_obj sw pok (S m) oc (JObj mem) = false.
Proof.
  intros Hc Hin Hs Hv.
  change (valid_obj_body sw (valid_kind sw pok m) (jconstr pok (S m)) oc (JObj mem) = false).
  unfold valid_obj_body. rewrite Hc.
  assert (E : forallb (fun kv => match find (fun s => ustr_eqb (sname s) (fst kv)) (cslots c) with
                                 | Some s => valid_kind sw pok m (skind s) (snd kv)
                                 | None => has_toplevel_extension c mem && no_empties (snd kv)
                                 end) mem = false).
  { apply not_true_is_false. intros T. rewrite forallb_forall in T. specialize (T _ Hin). simpl in T.
    rewrite Hs, Hv in T. discriminate. }
  rewrite E. reflexivity.
Qed.

Definition refuted_by (vr : variant) (req : request) : Prop :=
  req_strict req = true /\ req_scope req = true /\
  exists oc inner dfl,
    run vr sentinel_env lib witness_pok witness_sok 6 req = Ok (PObject oc inner dfl false) /\
    forall m, valid_obj spec witness_pok m oc (encode false (PObject oc inner dfl false)) = false.

Lemma refuted_hex : refuted_by vr_dollar_hex req_hex.
Proof.
  split; [reflexivity|]. split; [reflexivity|]. do 3 eexists. split; [vm_compute; reflexivity|].
  intros m. destruct m; [reflexivity|].
  eapply valid_obj_false_of_member with (k := u "magic_hex"); [vm_compute; reflexivity | simpl; left; reflexivity | vm_compute; reflexivity |].
  destruct m; reflexivity.
Qed.

Lemma refuted_uuid : refuted_by vr_uuid_lax req_uuid.
Proof.
  split; [reflexivity|]. split; [reflexivity|]. do 3 eexists. split; [vm_compute; reflexivity|].
  intros m. destruct m; [reflexivity|].
  eapply valid_obj_false_of_member with (k := u "marking_ref"); [vm_compute; reflexivity | simpl; tauto | vm_compute; reflexivity |].
  destruct m; vm_compute; reflexivity.
Qed.

Lemma refuted_ext_empty : refuted_by vr_ext_empty req_ext_empty.
Proof.
  split; [reflexivity|]. split; [reflexivity|]. do 3 eexists. split; [vm_compute; reflexivity|].
  intros m. destruct m; [reflexivity|].
  eapply valid_obj_false_of_member with (k := u "extensions"); [vm_compute; reflexivity | simpl; tauto | vm_compute; reflexivity |].
  destruct m; reflexivity.
Qed.

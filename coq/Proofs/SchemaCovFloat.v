(* Proofs/SchemaCovFloat.v -- C02 coverage extension: per-kind soundness of FloatProperty (KFloat) in
   the statement shape of Proofs/SchemaLeaf.v (sound_at): the float the library stores (carried by its
   repr text; an int / bool input is stored as "<digits>.0") is a number within the specification's
   bounds whenever the library's bounds are contained in them.  The reading-back of "<digits>.0" is
   Proofs/C01Float.v:dec_of_repr_int_text.                                                        *)
From Coq Require Import NArith ZArith List String Bool Lia.
From V Require Import Base.UString Base.Json Model.SchemaTypes Model.PyBase Model.Schema
     Spec.StixValid Spec.SchemaRefine Proofs.SchemaBasics Proofs.SchemaLeaf Proofs.C01Float.
Import ListNotations.

Local Arguments u : simpl never.
Local Open Scope Z_scope.

Definition lo_ok (mn : option Z) (me : Z * Z) : bool :=
  match mn with Some b => match dec_cmp_int me b with Lt => false | _ => true end | None => true end.
Definition hi_ok (mx : option Z) (me : Z * Z) : bool :=
  match mx with Some b => match dec_cmp_int me b with Gt => false | _ => true end | None => true end.

Lemma pow10_pos k : 0 < 10 ^ k \/ 10 ^ k = 0.
Proof. destruct (Z.le_gt_cases 0 k); [left; apply Z.pow_pos_nonneg; lia | right; apply Z.pow_neg_r; lia]. Qed.

Lemma lo_ok_mono mn mn' me : lower_within mn mn' = true -> lo_ok mn me = true -> lo_ok mn' me = true.
Proof.
  unfold lower_within, lo_ok. destruct mn' as [y|]; auto. destruct mn as [x|]; try discriminate.
  intros Hle H. apply Z.leb_le in Hle. destruct me as [m e]. unfold dec_cmp_int in *.
  destruct (0 <=? e).
  - destruct (Z.compare_spec (m * 10 ^ e) x); try discriminate;
      destruct (Z.compare_spec (m * 10 ^ e) y); auto; lia.
  - assert (P : 0 <= 10 ^ (- e)) by (apply Z.pow_nonneg; lia).
    assert (y * 10 ^ (- e) <= x * 10 ^ (- e)) by (apply Z.mul_le_mono_nonneg_r; auto).
    destruct (Z.compare_spec m (x * 10 ^ (- e))); try discriminate;
      destruct (Z.compare_spec m (y * 10 ^ (- e))); auto; lia.
Qed.

Lemma hi_ok_mono mx mx' me : upper_within mx mx' = true -> hi_ok mx me = true -> hi_ok mx' me = true.
Proof.
  unfold upper_within, hi_ok. destruct mx' as [y|]; auto. destruct mx as [x|]; try discriminate.
  intros Hle H. apply Z.leb_le in Hle. destruct me as [m e]. unfold dec_cmp_int in *.
  destruct (0 <=? e).
  - destruct (Z.compare_spec (m * 10 ^ e) x); try discriminate;
      destruct (Z.compare_spec (m * 10 ^ e) y); auto; lia.
  - assert (P : 0 <= 10 ^ (- e)) by (apply Z.pow_nonneg; lia).
    assert (x * 10 ^ (- e) <= y * 10 ^ (- e)) by (apply Z.mul_le_mono_nonneg_r; auto).
    destruct (Z.compare_spec m (x * 10 ^ (- e))); try discriminate;
      destruct (Z.compare_spec m (y * 10 ^ (- e))); auto; lia.
Qed.

Lemma lo_ok_scaled mn z : lo_ok mn (z * 10, -1) = lo_ok mn (z, 0).
Proof. unfold lo_ok. destruct mn; auto. rewrite dec_cmp_int_scaled. reflexivity. Qed.
Lemma hi_ok_scaled mx z : hi_ok mx (z * 10, -1) = hi_ok mx (z, 0).
Proof. unfold hi_ok. destruct mx; auto. rewrite dec_cmp_int_scaled. reflexivity. Qed.

Lemma clean_float_eq mn mx v :
  clean_float mn mx v =
  match v with
  | JFloat r =>
    match dec_of_repr r with
    | Some me => if lo_ok mn me && hi_ok mx me then Ok (PJ (JFloat r), false) else Err EValueError
    | None => Unmodelled
    end
  | JInt z =>
    if (Z.abs z <? 10 ^ 16)%Z then
      if lo_ok mn (z, 0) && hi_ok mx (z, 0) then Ok (PJ (JFloat (ustr_of_Z z ++ u ".0")), false) else Err EValueError
    else Unmodelled
  | JBool b => let z := (if b then 1 else 0)%Z in
               if lo_ok mn (z, 0) && hi_ok mx (z, 0) then Ok (PJ (JFloat (ustr_of_Z z ++ u ".0")), false) else Err EValueError
  | JStr _ => Unmodelled
  | _ => Err EValueError
  end.
Proof. destruct v; reflexivity. Qed.

Section CovFloat.
  Variable vr : variant.
  Variables w sp : world.
  Variable pok : ver -> ustring -> bool.
  Variable rc : ustring -> bool -> bool -> list (ustring * jvalue) -> result pval.
  Variable rp : bool -> bool -> list (ustring * jvalue) -> result pval.
  Variable ro : ver -> list (ustring * ustring) -> bool -> list (ustring * jvalue) -> result pval.

  Notation SA := (sound_at vr w sp pok rc rp ro).

  Lemma float_text_ok mn mx mn' mx' z :
    lower_within mn mn' = true -> upper_within mx mx' = true -> Z.abs z < 10 ^ 16 ->
    lo_ok mn (z, 0) && hi_ok mx (z, 0) = true ->
    number_in_bounds mn' mx' (JFloat (ustr_of_Z z ++ u ".0")) = true.
  Proof.
    intros Hl Hu Hz H. apply andb_true_iff in H. destruct H as [H1 H2].
    unfold number_in_bounds. rewrite (dec_of_repr_int_text z Hz).
    change (lo_ok mn' (z * 10, -1) && hi_ok mx' (z * 10, -1) = true).
    rewrite lo_ok_scaled, hi_ok_scaled.
    rewrite (lo_ok_mono _ _ _ Hl H1), (hi_ok_mono _ _ _ Hu H2). reflexivity.
  Qed.

  Lemma cov_sound_float mn mx mn' mx' :
    lower_within mn mn' = true -> upper_within mx mx' = true -> SA (KFloat mn mx) (KFloat mn' mx').
  Proof.
    intros Hl Hu x pv hc n H. cbn [clean_kind] in H. rewrite clean_float_eq in H.
    assert (Fin : forall z, Z.abs z < 10 ^ 16 ->
              (if lo_ok mn (z, 0) && hi_ok mx (z, 0) then Ok (PJ (JFloat (ustr_of_Z z ++ u ".0")), false) else Err EValueError)
              = Ok (pv, hc) ->
              hc = false /\ nice pv /\ valid_kind sp pok (S n) (KFloat mn' mx') (encode false pv) = true).
    { intros z Hz E. destruct (lo_ok mn (z, 0) && hi_ok mx (z, 0)) eqn:Eb; try discriminate.
      injection E as <- <-. split; [auto|split; [exact I|]].
      change (number_in_bounds mn' mx' (JFloat (ustr_of_Z z ++ u ".0")) = true).
      eapply float_text_ok; eauto. }
    destruct x as [|b|z|r|s|l|m]; try discriminate.
    - (* bool *) cbv zeta in H. apply (Fin (if b then 1 else 0)); [destruct b; reflexivity | exact H].
    - (* int *)
      destruct (Z.abs z <? 10 ^ 16) eqn:A; try discriminate. apply Z.ltb_lt in A.
      apply (Fin z A). exact H.
    - (* float *)
      destruct (dec_of_repr r) as [me|] eqn:Ed; try discriminate.
      destruct (lo_ok mn me && hi_ok mx me) eqn:Eb; try discriminate.
      injection H as <- <-. split; [auto|split; [exact I|]].
      change (number_in_bounds mn' mx' (JFloat r) = true). unfold number_in_bounds. rewrite Ed.
      apply andb_true_iff in Eb. destruct Eb as [H1 H2].
      change (lo_ok mn' me && hi_ok mx' me = true).
      rewrite (lo_ok_mono _ _ _ Hl H1), (hi_ok_mono _ _ _ Hu H2). reflexivity.
  Qed.
End CovFloat.

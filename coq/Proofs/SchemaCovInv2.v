(* Proofs/SchemaCovInv2.v -- C02 coverage extension: further invariants of _STIXBase.__init__
   (construct_generic), about the model only (no class-specific wrapping: pre = []):
     Ipj     a property whose kind cleans to a plain JSON value holds a plain JSON value;
     Ireq    every property the class marks required is set (else MissingPropertiesError);
     fixed   a property with a fixed value and the fixed default holds that value (`type`);
   and the bundle Imodel = Itime /\ Ipj /\ Ireq that the constraint-soundness lemmas take.          *)
From Coq Require Import NArith ZArith List String Bool Lia.
From V Require Import Base.UString Base.Json Model.SchemaTypes Model.PyBase Model.Schema
     Spec.StixValid Spec.SchemaRefine Proofs.SchemaBasics Proofs.SchemaLeaf Proofs.SchemaObject
     Proofs.SchemaCovProved Proofs.SchemaCovTime Proofs.SchemaCovInv.
Import ListNotations.

Local Arguments u : simpl never.

Definition pj_kind (k : pkind) : bool :=
  match k with
  | KString | KPattern | KObjRef _ | KOpenVocab _ | KFixed _ _ | KId _ _ | KInt _ _ | KFloat _ _ | KBool
  | KDict _ | KBinary | KHex | KRef _ _ _ _ | KSelector | KEnum _ | KAny => true
  | _ => false
  end.

Definition is_pj (x : pval) : Prop := exists j, x = PJ j.

Definition Ipj (c : cls) (setting : list (ustring * pval)) : Prop :=
  forall s x, In s (cslots c) -> pj_kind (skind s) = true -> alookup (sname s) setting = Some x -> is_pj x.

Definition Ireq (c : cls) (setting : list (ustring * pval)) : Prop :=
  forall s, In s (cslots c) -> sreq s = true -> amem (sname s) setting = true.

(* the value of a MarkingProperty: an object wrapped by the class __init__ -- truthy exactly when its
   serialization is, and its `tlp` member is never elided *)
Definition mark_ok (x : pval) : Prop :=
  ptruthy x = truthy (encode false x) /\
  forall k inner dfl hc, x = PObject k inner dfl hc -> mem_ustr (u "tlp") dfl = false.

Definition Imark (c : cls) (setting : list (ustring * pval)) : Prop :=
  forall s x, In s (cslots c) -> is_marking_kind (skind s) = true -> alookup (sname s) setting = Some x -> mark_ok x.

Definition Imodel (c : cls) (setting : list (ustring * pval)) : Prop :=
  Itime c setting /\ Ipj c setting /\ Ireq c setting /\ Imark c setting.

Lemma mark_ok_pj j : mark_ok (PJ j).
Proof. split; [reflexivity|]. intros; discriminate. Qed.

Lemma Imark_nil c : Imark c [].
Proof. intros s x _ _ H. discriminate H. Qed.

Lemma Ipj_nil c : Ipj c [].
Proof. intros s x _ _ H. discriminate H. Qed.

(* writing a plain JSON value over a present property that is not a timestamp *)
Lemma Imodel_aset_pj c key j setting :
  Imodel c setting ->
  (forall s, In s (cslots c) -> sname s = key -> is_time_kind (skind s) = false) ->
  Imodel c (aset key (PJ j) setting).
Proof.
  intros (HT & HP & HR & HK) Hk. split; [apply Itime_aset_other; auto|]. split; [|split].
  - intros s x Hs Hp Hx. destruct (ustr_eqb (sname s) key) eqn:E.
    + apply ustr_eqb_eq in E. rewrite E, alookup_aset_same in Hx. injection Hx as <-. exists j. reflexivity.
    + rewrite alookup_aset_other in Hx by auto. eapply HP; eauto.
  - intros s Hs Hr. rewrite amem_aset. rewrite (HR s Hs Hr). apply orb_true_r.
  - intros s x Hs Hm Hx. destruct (ustr_eqb (sname s) key) eqn:E.
    + apply ustr_eqb_eq in E. rewrite E, alookup_aset_same in Hx. injection Hx as <-. apply mark_ok_pj.
    + rewrite alookup_aset_other in Hx by auto. eapply HK; eauto.
Qed.

(* ---- what clean returns for those kinds ---- *)
Ltac crush_pj H :=
  repeat match type of H with
         | bind _ _ = Ok _ => let a := fresh "a" in let H1 := fresh H "a" in let H2 := fresh H "b" in
                              apply bind_ok in H; destruct H as [a [H1 H2]]; try clear H1
         | match ?x with _ => _ end = _ => destruct x; try discriminate
         | (if ?b then _ else _) = _ => destruct b; try discriminate
         | (let _ := _ in _) = _ => cbv zeta in H
         end.

Section Inv3.
  Variable vr : variant.
  Variable ev : env.
  Variable w : world.
  Variable rc : ustring -> bool -> bool -> list (ustring * jvalue) -> result pval.
  Variable rp : bool -> bool -> list (ustring * jvalue) -> result pval.
  Variable ro : ver -> list (ustring * ustring) -> bool -> list (ustring * jvalue) -> result pval.

  Lemma clean_kind_pj k allow interop v pv hc :
    pj_kind k = true -> clean_kind vr w rc rp ro k allow interop v = Ok (pv, hc) -> is_pj pv.
  Proof.
    intros Hk H. unfold is_pj.
    destruct k; try discriminate Hk; cbn [clean_kind] in H;
      unfold clean_string, clean_float, clean_bool, clean_reference in H.
    all: crush_pj H.
    all: try (injection H as <- _; eauto; fail).
    all: try (injection Hb as <- _; eauto; fail).
    all: try (injection Hbb as <- _; eauto; fail).
    all: try (apply bind_ok in Hb; destruct Hb as [a0 [_ Hb]]); cbv zeta in Hb; crush_pj Hb; injection Hb as <- _; eauto.
  Qed.

  Hypothesis Hpad : vr_year_pad vr = true.
  Variable c : cls.
  Hypothesis Hnames : unodup (map sname (cslots c)) = true.
  Variables kwargs custom_props : list (ustring * jvalue).
  (* what the class __init__ wrapped: nothing at a plain-valued property, marking values at marking ones *)
  Variable pre : list (ustring * pval).
  Hypothesis Hpre_t : forall n x, alookup n pre = Some x -> tnice x.
  Hypothesis Hpre_pj : forall s, In s (cslots c) -> pj_kind (skind s) = true -> alookup (sname s) pre = None.
  Hypothesis Hpre_mark : forall n x, alookup n pre = Some x -> mark_ok x.

  Notation AR := (assign_raw kwargs custom_props pre).

  Lemma assign_raw_at_pj n setting x :
    alookup n pre = None ->
    alookup n (AR n setting) = Some x -> is_pj x \/ alookup n setting = Some x.
  Proof.
    unfold assign_raw. intros ->.
    destruct (match alookup n kwargs with Some v => Some v | None => alookup n custom_props end) as [v|]; auto.
    destruct v as [| | | | |l|]; auto; try (rewrite alookup_aset_same; intros E; injection E as <-; left; eexists; reflexivity).
    destruct l; auto. rewrite alookup_aset_same. intros E. injection E as <-. left. eexists; reflexivity.
  Qed.

  (* one property: the value at the slot's name afterwards *)
  Lemma check_property_pj s allow interop vrefs st st2 h :
    check_property vr ev w rc rp ro c s allow interop vrefs st = Ok (st2, h) ->
    pj_kind (skind s) = true ->
    (forall x, alookup (sname s) st = Some x -> is_pj x) ->
    (forall x, alookup (sname s) st2 = Some x -> is_pj x) /\
    (forall fv al, skind s = KFixed fv al -> sdef s = DFixed -> alookup (sname s) st2 = Some (PJ (JStr fv))).
  Proof.
    intros H Hk Hst. unfold check_property in H. inv_bind H. destruct a as [st1 isnow]. cbn [fst snd] in Hb.
    set (n := sname s) in *.
    (* the default: afterwards the value present, if any, is plain, and isnow = false *)
    assert (D : isnow = false /\ (forall x, alookup n st1 = Some x -> is_pj x) /\
                (forall fv al, skind s = KFixed fv al -> sdef s = DFixed ->
                               exists j, alookup n st1 = Some (PJ j))).
    { unfold default_value in Ha. fold n in Ha. destruct (alookup n st) as [x0|] eqn:El.
      - injection Ha as <- <-. split; auto. split; [intros x Hx; apply Hst; rewrite <- Hx; auto|].
        intros fv al _ _. destruct (Hst x0 eq_refl) as [j ->]. eauto.
      - destruct (sdef s) eqn:Ed.
        + injection Ha as <- <-. split; auto. split; [intros x Hx; congruence|]. intros; discriminate.
        + destruct (skind s); try discriminate. injection Ha as <- <-. split; auto.
          split; [intros x Hx; rewrite alookup_aset_same in Hx; injection Hx as <-; eexists; reflexivity|].
          intros fv al _ _. rewrite alookup_aset_same. eauto.
        + destruct (skind s); try discriminate.
        + destruct (skind s); try discriminate. injection Ha as <- <-. split; auto.
          split; [intros x Hx; rewrite alookup_aset_same in Hx; injection Hx as <-; eexists; reflexivity|].
          intros; discriminate.
        + injection Ha as <- <-. split; auto.
          split; [intros x Hx; rewrite alookup_aset_same in Hx; injection Hx as <-; eexists; reflexivity|].
          intros; discriminate. }
    destruct D as (-> & D1 & D2).
    unfold clean_present in Hb. fold n in Hb.
    destruct (alookup n st1) as [raw|] eqn:El.
    - destruct (D1 raw eq_refl) as [j ->].
      destruct (clean_kind vr w rc rp ro (skind s) allow interop j) as [[v hc]| |] eqn:Ec; try discriminate.
      inv_bind Hb. injection Hbb as <- _. rewrite alookup_aset_same. split.
      + intros x Hx. injection Hx as <-. eapply clean_kind_pj; eauto.
      + intros fv al Ek _. rewrite Ek in Ec. cbn [clean_kind] in Ec.
        destruct (jvalue_eqb j (JStr fv)) eqn:Ej; try discriminate. injection Ec as <- _.
        apply jvalue_eqb_JStr in Ej. subst j. reflexivity.
    - injection Hb as <- _. split.
      + intros x Hx. congruence.
      + intros fv al Ek Ed. destruct (D2 fv al Ek Ed) as [j Hj]. congruence.
  Qed.

  Lemma assign_loop_pj allow interop vrefs : forall l setting hc setting' hc',
    Ipj c setting ->
    assign_loop vr ev w rc rp ro c allow interop vrefs kwargs custom_props pre l setting hc = Ok (setting', hc') ->
    Ipj c setting' /\
    (forall s fv al, In s (cslots c) -> skind s = KFixed fv al -> sdef s = DFixed ->
                     In (sname s) l \/ alookup (sname s) setting = Some (PJ (JStr fv)) ->
                     alookup (sname s) setting' = Some (PJ (JStr fv))).
  Proof.
    induction l as [|n rest IH]; intros setting hc setting' hc' HI H.
    - simpl in H. injection H as <- _. split; auto. intros s fv al _ _ _ [[] | E]; auto.
    - cbn [assign_loop] in H. destruct (slot_of c n) as [s0|] eqn:Es.
      + destruct (slot_of_name _ _ _ Es) as [Hs0 Hn0]. inv_bind H. destruct a as [st2 h]. cbn [fst snd] in Hb.
        destruct (check_property_time vr ev w rc rp ro Hpad c _ _ _ _ _ _ _ Ha) as [Hoth _].
        assert (Same : forall s, In s (cslots c) -> ustr_eqb (sname s) (sname s0) = true -> s = s0).
        { intros s Hs E. apply ustr_eqb_eq in E.
          pose proof (find_self_nodup (cslots c) s (unodup_NoDup _ Hnames) Hs) as A.
          pose proof (find_self_nodup (cslots c) s0 (unodup_NoDup _ Hnames) Hs0) as B.
          rewrite E in A. rewrite A in B. injection B as ->. reflexivity. }
        assert (At : pj_kind (skind s0) = true ->
                     (forall x, alookup (sname s0) st2 = Some x -> is_pj x) /\
                     (forall fv al, skind s0 = KFixed fv al -> sdef s0 = DFixed -> alookup (sname s0) st2 = Some (PJ (JStr fv)))).
        { intros Hk. eapply check_property_pj; eauto.
          intros x Hx. rewrite Hn0 in Hx.
          assert (Hnp : alookup n pre = None) by (rewrite <- Hn0; apply Hpre_pj; auto).
          destruct (assign_raw_at_pj _ _ _ Hnp Hx) as [T | Hx2]; auto.
          rewrite <- Hn0 in Hx2. eapply HI; eauto. }
        assert (HI2 : Ipj c st2).
        { intros s x Hs Hk Hx. destruct (ustr_eqb (sname s) (sname s0)) eqn:E.
          - rewrite (Same s Hs E) in *. destruct (At Hk) as [A1 _]. auto.
          - rewrite (Hoth _ E) in Hx. rewrite assign_raw_other in Hx by (rewrite <- Hn0; exact E). eapply HI; eauto. }
        destruct (IH st2 _ setting' hc' HI2 Hb) as [R1 R2]. split; auto.
        intros s fv al Hs Ek Ed Hor. apply (R2 s fv al Hs Ek Ed).
        destruct (ustr_eqb (sname s) (sname s0)) eqn:E.
        * right. rewrite (Same s Hs E) in *. assert (Hk : pj_kind (skind s0) = true) by (rewrite Ek; reflexivity).
          destruct (At Hk) as [_ A2]. eauto.
        * destruct Hor as [[Hin | Hin] | Hx]; auto.
          -- rewrite Hn0 in E. rewrite Hin, ustr_eqb_refl in E. discriminate.
          -- right. rewrite (Hoth _ E). rewrite assign_raw_other by (rewrite <- Hn0; exact E). exact Hx.
      + assert (HI2 : Ipj c (AR n setting)).
        { intros s x Hs Hk Hx. rewrite assign_raw_other in Hx by (eapply slot_of_none; eauto). eapply HI; eauto. }
        destruct (IH _ _ setting' hc' HI2 H) as [R1 R2]. split; auto.
        intros s fv al Hs Ek Ed Hor. apply (R2 s fv al Hs Ek Ed).
        pose proof (slot_of_none c n s Es Hs) as E.
        destruct Hor as [[Hin | Hin] | Hx]; auto.
        * rewrite Hin, ustr_eqb_refl in E. discriminate.
        * right. rewrite assign_raw_other by exact E. exact Hx.
  Qed.

  (* ---- marking-valued properties ---- *)
  Lemma assign_raw_at_mark n setting x :
    alookup n (AR n setting) = Some x -> mark_ok x \/ alookup n setting = Some x.
  Proof.
    unfold assign_raw. destruct (alookup n pre) as [pv|] eqn:Ep.
    - rewrite alookup_aset_same. intros E. injection E as <-. left. eapply Hpre_mark; eauto.
    - destruct (match alookup n kwargs with Some v => Some v | None => alookup n custom_props end) as [v|]; auto.
      destruct v as [| | | | |l|]; auto; try (rewrite alookup_aset_same; intros E; injection E as <-; left; apply mark_ok_pj).
      destruct l; auto. rewrite alookup_aset_same. intros E. injection E as <-. left. apply mark_ok_pj.
  Qed.

  Lemma check_property_mark s allow interop vrefs st st2 h :
    check_property vr ev w rc rp ro c s allow interop vrefs st = Ok (st2, h) ->
    is_marking_kind (skind s) = true ->
    forall x, alookup (sname s) st2 = Some x -> mark_ok x \/ alookup (sname s) st = Some x.
  Proof.
    intros H Hk x Hx. unfold check_property in H. inv_bind H. destruct a as [st1 isnow]. cbn [fst snd] in Hb.
    set (n := sname s) in *.
    assert (D : forall y, alookup n st1 = Some y -> is_pj y \/ alookup n st = Some y).
    { unfold default_value in Ha. fold n in Ha. destruct (alookup n st) as [x0|] eqn:El.
      - injection Ha as <- <-. intros y Hy. right. rewrite <- Hy. auto.
      - destruct (sdef s) eqn:Ed.
        + injection Ha as <- <-. intros y Hy. congruence.
        + destruct (skind s); try discriminate.
        + destruct (skind s); try discriminate.
        + destruct (skind s); try discriminate.
        + injection Ha as <- <-. intros y Hy. rewrite alookup_aset_same in Hy. injection Hy as <-. left. eexists; reflexivity. }
    unfold clean_present in Hb. fold n in Hb.
    destruct (alookup n st1) as [raw|] eqn:El; [|injection Hb as <- _; congruence].
    assert (Keep : st2 = st1 -> mark_ok x \/ alookup n st = Some x).
    { intros ->. rewrite El in Hx. injection Hx as <-. destruct (D raw eq_refl) as [[j ->] | E]; auto. left. apply mark_ok_pj. }
    destruct isnow; [injection Hb as <- _; auto|].
    destruct raw as [j| | | |].
    - destruct (skind s); try discriminate Hk. cbn [clean_kind] in Hb. discriminate.
    - apply Keep. destruct (vr_marking_flag vr); [destruct (negb allow && _); try discriminate|]; injection Hb as <- _; auto.
    - apply Keep. destruct (vr_marking_flag vr); [destruct (negb allow && _); try discriminate|]; injection Hb as <- _; auto.
    - apply Keep. destruct (vr_marking_flag vr); [destruct (negb allow && _); try discriminate|]; injection Hb as <- _; auto.
    - apply Keep. destruct (vr_marking_flag vr); [destruct (negb allow && _); try discriminate|]; injection Hb as <- _; auto.
  Qed.

  Lemma assign_loop_mark allow interop vrefs : forall l setting hc setting' hc',
    Imark c setting ->
    assign_loop vr ev w rc rp ro c allow interop vrefs kwargs custom_props pre l setting hc = Ok (setting', hc') ->
    Imark c setting'.
  Proof.
    induction l as [|n rest IH]; intros setting hc setting' hc' HI H.
    - simpl in H. injection H as <- _. exact HI.
    - cbn [assign_loop] in H. destruct (slot_of c n) as [s0|] eqn:Es.
      + destruct (slot_of_name _ _ _ Es) as [Hs0 Hn0]. inv_bind H. destruct a as [st2 h]. cbn [fst snd] in Hb.
        destruct (check_property_time vr ev w rc rp ro Hpad c _ _ _ _ _ _ _ Ha) as [Hoth _].
        eapply IH; [|exact Hb].
        intros s x Hs Hk Hx. destruct (ustr_eqb (sname s) (sname s0)) eqn:E.
        * apply ustr_eqb_eq in E.
          assert (s = s0).
          { pose proof (find_self_nodup (cslots c) s (unodup_NoDup _ Hnames) Hs) as A.
            pose proof (find_self_nodup (cslots c) s0 (unodup_NoDup _ Hnames) Hs0) as B.
            rewrite E in A. rewrite A in B. injection B as ->. reflexivity. }
          subst s0. destruct (check_property_mark _ _ _ _ _ _ _ Ha Hk x Hx) as [T | Hx1]; auto.
          rewrite Hn0 in Hx1. destruct (assign_raw_at_mark _ _ _ Hx1) as [T | Hx2]; auto.
          rewrite <- Hn0 in Hx2. eapply HI; eauto.
        * rewrite (Hoth _ E) in Hx. rewrite assign_raw_other in Hx by (rewrite <- Hn0; exact E). eapply HI; eauto.
      + eapply IH; [|exact H].
        intros s x Hs Hk Hx. rewrite assign_raw_other in Hx by (eapply slot_of_none; eauto). eapply HI; eauto.
  Qed.

  (* the whole constructor *)
  Lemma construct_generic_model pok sok fuel allow interop kwargs0 vrefs o :
    kwargs = aremove (u "custom_properties") kwargs0 ->
    custom_props = match alookup (u "custom_properties") kwargs0 with Some (JObj m) => m | _ => [] end ->
    construct_generic vr ev w pok sok rc rp ro fuel c allow interop kwargs0 pre vrefs = Ok o ->
    exists setting hc, o = PObject (cid c) setting (defaulted_names c setting) hc /\ Imodel c setting /\
      (forall s fv al, In s (cslots c) -> skind s = KFixed fv al -> sdef s = DFixed ->
                       alookup (sname s) setting = Some (PJ (JStr fv))).
  Proof.
    intros Ek Ec H. unfold construct_generic in H. inv_bind H.
    assert (Ea : a = custom_props).
    { rewrite Ec. destruct (alookup (u "custom_properties") kwargs0) as [[| | | | | |m]|]; try (injection Ha as <-; reflexivity);
        try (destruct (truthy _); discriminate). }
    subst a. rewrite <- Ek in Hb. inv_bind Hb. cbv zeta in Hbb.
    match type of Hbb with
    | context [match ?ck with [] => _ | _ :: _ => _ end] => destruct ck; destruct allow
    end; try discriminate.
    all: match type of Hbb with (if ?b then _ else _) = _ => destruct b; try discriminate end.
    all: inv_bind Hbb; destruct a0 as [setting hc]; cbn [bind] in Hbbb.
    all: pose proof (assign_loop_time vr ev w rc rp ro Hpad c Hnames _ _ _ Hpre_t _ _ _ _ _ _ _ _ (Itime_nil c) Hbba) as HT.
    all: destruct (assign_loop_pj _ _ _ _ _ _ _ _ (Ipj_nil c) Hbba) as [HP HF].
    all: pose proof (assign_loop_mark _ _ _ _ _ _ _ _ (Imark_nil c) Hbba) as HK.
    all: match type of Hbbb with (if ?b then _ else _) = _ => destruct b eqn:Emiss; try discriminate end.
    all: inv_bind Hbbb; inv_bind Hbbbb.
    all: assert (HR : Ireq c setting)
      by (intros s Hs Hr; destruct (amem (sname s) setting) eqn:Eam; auto;
          exfalso; assert (X : existsb (fun s => sreq s && negb (amem (sname s) setting)) (cslots c) = true)
            by (apply existsb_exists; exists s; split; auto; rewrite Hr, Eam; reflexivity); congruence).
    all: assert (HF' : forall s fv al, In s (cslots c) -> skind s = KFixed fv al -> sdef s = DFixed ->
                                       alookup (sname s) setting = Some (PJ (JStr fv)))
      by (intros s fv al Hs Ek' Ed; apply (HF s fv al Hs Ek' Ed); left; apply in_or_app; left; apply in_map; exact Hs).
    all: repeat match type of Hbbbbb with (if ?b then _ else _) = _ => destruct b; try discriminate end.
    all: injection Hbbbbb as <-; exists setting; eexists; split; [reflexivity|];
      split; [split; [exact HT|split; [exact HP|split; [exact HR|exact HK]]]|exact HF'].
  Qed.
End Inv3.

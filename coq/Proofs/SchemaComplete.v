(* Proofs/SchemaComplete.v -- C03, per-kind completeness of Property.clean (the reverse direction of
   Proofs/SchemaLeaf.v): a value the specification's rule for a kind k' accepts is let through, in strict
   non-interoperability mode, by every library kind k that `kind_accepts k k'` relates to it, without
   a custom flag, and the cleaned value serializes back to the same value (timestamps: the same instant).

   Shape (what further lemmas should target):
     complete_at k k' := forall j n, valid_kind sp pok n k' j = true ->
                         exists pv, clean_kind vr w rc rp ro k false false j = Ok (pv, false) /\
                                    jsame k' j (encode true pv)
   leaf_complete is the explicit coverage predicate (kinds proved so far).                          *)
From Coq Require Import NArith ZArith List String Bool Lia.
From V Require Import Base.UString Base.Json Model.SchemaTypes Model.PyBase Model.Schema
     Spec.StixValid Spec.SchemaRefine Proofs.SchemaBasics.
Import ListNotations.

(* the number a JSON number denotes, as mantissa and decimal exponent *)
Definition jnum (j : jvalue) : option (Z * Z) :=
  match j with JInt z => Some (z, 0%Z) | JFloat r => dec_of_repr r | _ => None end.

(* m1 * 10^e1 = m2 * 10^e2 *)
Definition dec_same (a b : Z * Z) : Prop :=
  let e := Z.min (snd a) (snd b) in
  (fst a * 10 ^ (snd a - e) = fst b * 10 ^ (snd b - e))%Z.

(* "the same value": equal JSON, except that timestamps are compared as instants and numbers of a
   float-valued property by value (5 and 5.0 are the same number) *)
Fixpoint jsame (k : pkind) (a b : jvalue) {struct k} : Prop :=
  match k with
  | KFloat _ _ =>
    match jnum a, jnum b with
    | Some x, Some y => dec_same x y
    | _, _ => False
    end
  | KTime _ _ =>
    match a, b with
    | JStr x, JStr y => instant_of_text x <> None /\ instant_of_text x = instant_of_text y
    | _, _ => False
    end
  | KList k0 =>
    match a, b with
    | JArr l, JArr l' => Forall2 (jsame k0) l l'
    | _, _ => False
    end
  | _ => a = b
  end.

Definition leaf_complete (k : pkind) : bool :=
  match k with
  | KString | KPattern | KObjRef _ | KOpenVocab _ | KFixed _ _ | KInt _ _ | KBool | KEnum _ | KHex | KDict _ => true
  | _ => false
  end.

Fixpoint kind_complete (k : pkind) : bool :=
  match k with
  | KList k' => kind_complete k'
  | _ => leaf_complete k
  end.

Section Complete.
  Variable vr : variant.
  Variables w sp : world.
  Variable pok : ver -> ustring -> bool.
  Variable rc : ustring -> bool -> bool -> list (ustring * jvalue) -> result pval.
  Variable rp : bool -> bool -> list (ustring * jvalue) -> result pval.
  Variable ro : ver -> list (ustring * ustring) -> bool -> list (ustring * jvalue) -> result pval.

  Notation CK := (clean_kind vr w rc rp ro).

  Definition complete_at (k k' : pkind) : Prop :=
    forall j n, valid_kind sp pok n k' j = true ->
                exists pv, CK k false false j = Ok (pv, false) /\ jsame k' j (encode true pv).

  Lemma valid_S n k j : valid_kind sp pok n k j = true -> exists m, n = S m.
  Proof. destruct n; simpl; intros H; [discriminate|eauto]. Qed.

  Lemma jsame_refl_leaf k j : (match k with KTime _ _ | KList _ | KFloat _ _ => False | _ => True end) -> jsame k j j.
  Proof. destruct k; simpl; intros H; auto; contradiction. Qed.

  (* ---- string-valued kinds ---- *)
  Lemma complete_stringy k k' : is_stringy k = true -> is_stringy k' = true -> complete_at k k'.
  Proof.
    intros Hk Hk' j n H. destruct (valid_S _ _ _ H) as [m ->].
    assert (exists s, j = JStr s) as [s ->].
    { destruct k'; simpl in Hk'; try discriminate; simpl in H; destruct j; try discriminate; eauto. }
    exists (PJ (JStr s)). split.
    - destruct k; simpl in Hk; try discriminate; reflexivity.
    - destruct k'; simpl in Hk'; try discriminate; reflexivity.
  Qed.

  Lemma ustr_eqb_refl' a : ustr_eqb a a = true. Proof. apply ustr_eqb_refl. Qed.

  (* ---- fixed ---- *)
  Lemma complete_fixed fv a fv' a' : ustr_eqb fv fv' = true -> complete_at (KFixed fv a) (KFixed fv' a').
  Proof.
    intros E j n H. apply ustr_eqb_eq in E. subst fv'. destruct (valid_S _ _ _ H) as [m ->]. simpl in H.
    exists (PJ j). split; [|reflexivity]. simpl. rewrite H. reflexivity.
  Qed.

  (* ---- booleans ---- *)
  Lemma complete_bool : complete_at KBool KBool.
  Proof.
    intros j n H. destruct (valid_S _ _ _ H) as [m ->]. simpl in H. destruct j; try discriminate.
    exists (PJ (JBool b)). split; reflexivity.
  Qed.

  (* ---- integers ---- *)
  Lemma dec_cmp_int_int' z b : dec_cmp_int (z, 0%Z) b = Z.compare z b.
  Proof. unfold dec_cmp_int. simpl. rewrite Z.mul_1_r. auto. Qed.

  Lemma complete_int mn mx mn' mx' :
    lower_within mn' mn = true -> upper_within mx' mx = true -> complete_at (KInt mn mx) (KInt mn' mx').
  Proof.
    intros Hl Hu j n H. destruct (valid_S _ _ _ H) as [m ->]. simpl in H. destruct j; try discriminate.
    unfold number_in_bounds in H. cbv beta iota in H. apply andb_true_iff in H. destruct H as [H1 H2].
    exists (PJ (JInt z)). split; [|reflexivity]. simpl.
    assert (A : match mn with Some b => (z <? b)%Z | None => false end = false).
    { destruct mn as [x|]; auto. unfold lower_within in Hl. destruct mn' as [y|]; try discriminate.
      rewrite dec_cmp_int_int' in H1. apply Z.leb_le in Hl. apply Z.ltb_ge.
      destruct (Z.compare z y) eqn:C; try discriminate;
        [apply Z.compare_eq_iff in C | rewrite Z.compare_gt_iff in C]; lia. }
    assert (B : match mx with Some b => (b <? z)%Z | None => false end = false).
    { destruct mx as [x|]; auto. unfold upper_within in Hu. destruct mx' as [y|]; try discriminate.
      rewrite dec_cmp_int_int' in H2. apply Z.leb_le in Hu. apply Z.ltb_ge.
      destruct (Z.compare z y) eqn:C; try discriminate;
        [apply Z.compare_eq_iff in C | rewrite Z.compare_lt_iff in C]; lia. }
    rewrite A, B. reflexivity.
  Qed.

  (* ---- enumerations ---- *)
  Lemma complete_enum a a' : usubset a' a = true -> complete_at (KEnum a) (KEnum a').
  Proof.
    intros Hs j n H. destruct (valid_S _ _ _ H) as [m ->]. simpl in H. destruct j; try discriminate.
    exists (PJ (JStr s)). split; [|reflexivity]. simpl.
    assert (mem_ustr s a = true).
    { unfold usubset in Hs. rewrite forallb_forall in Hs. apply Hs. apply mem_ustr_In. auto. }
    rewrite H0. reflexivity.
  Qed.

  (* ---- hexadecimal strings ---- *)
  Lemma complete_hex : complete_at KHex KHex.
  Proof.
    intros j n H. destruct (valid_S _ _ _ H) as [m ->]. simpl in H. destruct j; try discriminate.
    exists (PJ (JStr s)). split; [|reflexivity]. simpl.
    unfold re_hex_pairs, dollar. unfold strict_hex in H. rewrite H. reflexivity.
  Qed.

  (* ---- dictionaries ---- *)
  Lemma strict_key_ok vv k : strict_dict_key vv k = true -> dict_key_ok vr vv k = true.
  Proof.
    unfold strict_dict_key. intros H. apply andb_true_iff in H. destruct H as [H1 H2].
    unfold dict_key_ok, re_dict_key, dollar. rewrite H1. rewrite andb_true_l.
    destruct vv; apply andb_true_iff in H2; destruct H2 as [A B].
    - rewrite A, B. rewrite andb_true_l.
      destruct (List.length k); [discriminate A | reflexivity].
    - rewrite B. rewrite andb_true_l.
      destruct (List.length k); [discriminate A | reflexivity].
  Qed.

  Lemma clean_dict_keys_complete vv d :
    forallb (fun kv => strict_dict_key vv (fst kv)) d = true -> clean_dict_keys vr vv d = Ok tt.
  Proof.
    induction d as [|[k x] d IH]; simpl; auto. intros H. apply andb_true_iff in H. destruct H as [H1 H2].
    rewrite (strict_key_ok _ _ H1). auto.
  Qed.

  Lemma complete_dict vv vv' : ver_eqb vv vv' = true -> complete_at (KDict vv) (KDict vv').
  Proof.
    intros Ev j n H. assert (vv' = vv) by (destruct vv, vv'; simpl in Ev; auto; discriminate). subst vv'.
    destruct (valid_S _ _ _ H) as [m ->]. simpl in H. destruct j; try discriminate.
    apply andb_true_iff in H. destruct H as [H1 H2].
    exists (PJ (JObj m0)). split; [|reflexivity]. simpl. unfold clean_dictionary. simpl.
    rewrite (clean_dict_keys_complete _ _ H2). simpl. destruct m0; [discriminate|reflexivity].
  Qed.

  (* ---- every covered leaf kind ---- *)
  Lemma leaf_complete_sound k k' : leaf_complete k = true -> kind_accepts k k' = true -> complete_at k k'.
  Proof.
    intros Hl Ha. destruct k; simpl in Hl; try discriminate; destruct k'; simpl in Ha; try discriminate.
    all: try (apply complete_stringy; reflexivity).
    all: try (apply complete_fixed; auto; fail).
    all: try (apply andb_true_iff in Ha; destruct Ha; apply complete_int; auto; fail).
    all: try (apply complete_bool; fail).
    all: try (apply complete_dict; auto; fail).
    all: try (apply complete_hex; fail).
    all: try (apply complete_enum; auto; fail).
  Qed.

  (* ---- lists of covered kinds ---- *)
  Lemma clean_items_complete k k' l n :
    complete_at k k' -> forallb (valid_kind sp pok n k') l = true ->
    exists res, clean_items (CK k false false) l = Ok (res, false) /\ Forall2 (jsame k') l (map (encode true) res).
  Proof.
    intros Hk. induction l as [|x l IH]; simpl; intros H.
    - exists []. split; [reflexivity | constructor].
    - apply andb_true_iff in H. destruct H as [H1 H2].
      destruct (Hk x n H1) as [pv [Hc Hs]]. destruct (IH H2) as [res [Hr Hf]].
      exists (pv :: res). rewrite Hc. simpl. rewrite Hr. simpl. split; [reflexivity | constructor; auto].
  Qed.

  Lemma kind_complete_sound : forall k k', kind_complete k = true -> kind_accepts k k' = true -> complete_at k k'.
  Proof.
    induction k; intros k' Hp Ha; try (apply leaf_complete_sound; auto; fail).
    simpl in Hp. destruct k'; simpl in Ha; try discriminate.
    intros j n H. destruct (valid_S _ _ _ H) as [m ->]. simpl in H. destruct j; try discriminate.
    apply andb_true_iff in H. destruct H as [Hne Hall].
    destruct (clean_items_complete k k' l m (IHk k' Hp Ha) Hall) as [res [Hr Hf]].
    exists (PArr res). split.
    - simpl. rewrite Hr. simpl. destruct res as [|r0 res]; [|reflexivity].
      inversion Hf; subst. simpl in Hne. discriminate.
    - rewrite encode_PArr. simpl. exact Hf.
  Qed.
End Complete.

(* Proofs/C04Strict.v -- customisation disallowed (allow_custom=False):
   no property cleaner reports custom content without raising, a constructor / parse
   returns a flagged object only through the custom_properties loophole, and with the
   parse guard (variant vr_parse_guard_custom) never.                            *)
From Coq Require Import NArith ZArith List String Bool Lia.
From V Require Import Base.UString Base.Json Model.SchemaTypes Model.PyBase Model.Schema.
From V Require Import Proofs.C01Basics.
Import ListNotations.

Ltac destr_match H :=
  match type of H with
  | context [match ?x with _ => _ end] => destruct x eqn:?
  end.
Ltac inv H := inversion H; subst; clear H.
Ltac inv_pairs := repeat match goal with E : (_, _) = (_, _) |- _ => inv E end.
Ltac walk H := unfold bind in H; repeat (destr_match H; try discriminate).

Section S.
  Variable vr : variant.
  Variable w : world.
  Variable rc : ustring -> bool -> bool -> list (ustring * jvalue) -> result pval.
  Variable rp : bool -> bool -> list (ustring * jvalue) -> result pval.
  Variable ro : ver -> list (ustring * ustring) -> bool -> list (ustring * jvalue) -> result pval.

  Definition CK := clean_kind vr w rc rp ro.

  Lemma hashes_loop_strict : forall names l acc h p hc,
    hashes_loop vr names false l acc h = Ok (p, hc) -> h = false -> hc = false.
  Proof.
    induction l as [| [k x] r IH]; intros acc h p hc H Hh; cbn [hashes_loop] in H.
    - inv H. reflexivity.
    - walk H; inv_pairs; cbn [negb andb orb] in *; eapply IH; eauto.
  Qed.

  Lemma obs_loop_strict : forall vv refs l acc h p hc,
    obs_loop ro vv refs false l acc h = Ok (p, hc) -> h = false -> hc = false.
  Proof.
    induction l as [| [k x] r IH]; intros acc h p hc H Hh; cbn [obs_loop] in H.
    - inv H. reflexivity.
    - walk H; cbn [negb andb orb] in *; eapply IH; eauto.
  Qed.

  Lemma ext_loop_strict : forall vv interop l acc h p hc,
    ext_loop vr w rc vv false interop l acc h = Ok (p, hc) -> h = false -> hc = false.
  Proof.
    induction l as [| [k x] r IH]; intros acc h p hc H Hh; cbn [ext_loop] in H.
    - inv H. reflexivity.
    - walk H; cbn [negb andb orb] in *; eapply IH; eauto.
  Qed.

  Lemma finish_list_strict : forall r p hc, finish_list false r = Ok (p, hc) -> hc = false.
  Proof.
    intros [res h] p hc H. unfold finish_list in H. cbn [negb andb] in H.
    destruct h; try discriminate. destruct res; try discriminate. inv H. reflexivity.
  Qed.

  Lemma clean_kind_strict : forall k interop v p hc,
    CK k false interop v = Ok (p, hc) -> hc = false.
  Proof.
    intros k interop v p hc H. unfold CK in H.
    destruct k; cbn [clean_kind] in H.
    all: unfold clean_string, clean_float, clean_bool, clean_hashes, clean_reference in H.
    all: walk H.
    all: try discriminate.
    all: try (match type of H with Ok _ = Ok _ => inv H; cbn [pval_has_custom negb andb orb fst snd] in *; auto; fail end).
    all: match goal with
      | H0 : hashes_loop _ _ false _ _ _ = Ok _ |- _ => eapply hashes_loop_strict; [exact H0 | reflexivity]
      | H0 : obs_loop _ _ _ false _ _ _ = Ok _ |- _ => eapply obs_loop_strict; [exact H0 | reflexivity]
      | H0 : ext_loop _ _ _ _ false _ _ _ _ = Ok _ |- _ => eapply ext_loop_strict; [exact H0 | reflexivity]
      | H0 : finish_list false _ = Ok _ |- _ => eapply finish_list_strict; exact H0
      end.
  Qed.
End S.

(* ------------------------------------------------------------------ amem through the kwargs rewrites *)
Lemma amem_filter : forall (A : Type) k (f : ustring * A -> bool) m, amem k (filter f m) = true -> amem k m = true.
Proof.
  intros A k f m H. apply amem_In. apply amem_In in H.
  apply in_map_iff in H. destruct H as [[k' v] [E H]]. simpl in E. subst.
  apply filter_In in H. destruct H as [H _]. apply (in_map fst) in H. exact H.
Qed.

Lemma amem_aset_other : forall (A : Type) k k' (v : A) m, k <> k' -> amem k (aset k' v m) = amem k m.
Proof.
  unfold amem. induction m as [| [k2 v2] r IH]; intros Hne; cbn [aset alookup].
  - destruct (ustr_eqb k k') eqn:E; auto. apply ustr_eqb_eq in E. contradiction.
  - destruct (ustr_eqb k' k2) eqn:E2; cbn [alookup].
    + apply ustr_eqb_eq in E2. subst. destruct (ustr_eqb k k2) eqn:E; auto.
    + destruct (ustr_eqb k k2); auto.
Qed.

Lemma amem_aremove : forall (A : Type) k k' (m : list (ustring * A)), amem k (aremove k' m) = true -> amem k m = true.
Proof.
  unfold amem. induction m as [| [k2 v2] r IH]; cbn [aremove alookup]; intros H; auto.
  destruct (ustr_eqb k' k2) eqn:E2.
  - destruct (ustr_eqb k k2); auto.
  - cbn [alookup] in H. destruct (ustr_eqb k k2); auto.
Qed.

Lemma d2s_ext_scan_result : forall g d l o, d2s_ext_scan g d l = Ok o -> o = PJ (JObj d).
Proof.
  induction l as [| [k x] r IH]; intros o H; cbn [d2s_ext_scan] in H; try discriminate.
  walk H; try (inv H; reflexivity); eauto.
Qed.

Section Run.
  Variable vr : variant.
  Variable ev : env.
  Variable w : world.
  Variable pattern_ok : ver -> ustring -> bool.
  Variable selectors_ok : list (ustring * pval) -> pval -> result bool.

  Definition cp : ustring := u "custom_properties".

  Lemma cg_strict_flag : forall rc rp ro fuel c interop kw pre vrf ci i d hc,
    construct_generic vr ev w pattern_ok selectors_ok rc rp ro fuel c false interop kw pre vrf = Ok (PObject ci i d hc) ->
    hc = true -> amem cp kw = true.
  Proof.
    intros rc rp ro fuel c interop kw pre vrf ci i d hc H Hhc.
    unfold construct_generic in H. unfold amem, cp.
    destruct (alookup (u "custom_properties") kw) eqn:E; auto.
    exfalso. walk H; inv H; discriminate.
  Qed.

  Definition strict_request (r : request) : bool :=
    match r with
    | RConstruct _ a _ _ _ => negb a
    | RParse a _ _ _ => negb a
    | RParseObs _ _ a _ _ => negb a
    end.
  Definition request_kwargs (r : request) : list (ustring * jvalue) :=
    match r with
    | RConstruct _ _ _ kw _ => kw
    | RParse _ _ _ d => d
    | RParseObs _ _ _ _ d => d
    end.

  Notation RUN := (run vr ev w pattern_ok selectors_ok).

  Lemma run_construct_strict_flag : forall fuel kid interop kw vrf ci i d hc,
    RUN fuel (RConstruct kid false interop kw vrf) = Ok (PObject ci i d hc) ->
    hc = true -> amem cp kw = true.
  Proof.
    intros fuel kid interop kw vrf ci i d hc H Hhc.
    destruct fuel as [| f]; cbn [run] in H; try discriminate.
    destruct (find_class (wclasses w) kid) as [c |]; try discriminate.
    match type of H with (if ?g then _ else _) = _ => destruct g; try discriminate end.
    unfold bind in H.
    match type of H with match ?o with _ => _ end = _ => destruct o as [obj | |] eqn:Eo; try discriminate end.
    assert (Hobj : obj = PObject ci i d hc \/ exists i', obj = PObject ci i' d hc).
    { destruct obj; try (left; congruence).
      destruct (cfamily c); try (left; congruence).
      destruct (cver c); try (left; congruence).
      walk H; inv H; eauto. }
    assert (Hcg : forall c' kw' pre vrf' obj',
              construct_generic vr ev w pattern_ok selectors_ok
                (fun k a i0 kw0 => RUN f (RConstruct k a i0 kw0 None))
                (fun a i0 d0 => RUN f (RParse a i0 None d0))
                (fun vv refs a d0 => RUN f (RParseObs (Some vv) refs a false d0))
                (S f) c' false interop kw' pre vrf' = Ok obj' ->
              (obj' = PObject ci i d hc \/ exists i', obj' = PObject ci i' d hc) -> amem cp kw' = true).
    { intros c' kw' pre vrf' obj' Hc [Ho | [i' Ho]]; subst obj'; eapply cg_strict_flag; eauto. }
    clear H.
    destruct (cinit c); try discriminate.
    - eapply Hcg; eauto.
    - eapply amem_filter. eapply Hcg; eauto.
    - match type of Eo with context [if ?g then _ else _] => destruct g end.
      + rewrite <- (amem_aset_other _ cp (u "pattern_version") (JStr (u "2.1")) kw).
        * eapply Hcg; eauto.
        * unfold cp. intros E. apply (f_equal (@List.length N)) in E. vm_compute in E. discriminate.
      + eapply Hcg; eauto.
    - eapply Hcg; eauto.
    - walk Eo; first [eapply Hcg; eauto; fail | eapply amem_aremove; eapply Hcg; eauto].
    - eapply Hcg; eauto.
  Qed.

  Theorem strict_flag_only_by_loophole : forall fuel r ci i d hc,
    strict_request r = true ->
    RUN fuel r = Ok (PObject ci i d hc) ->
    hc = true ->
    amem cp (request_kwargs r) = true /\ (match r with RConstruct _ _ _ _ _ => True | _ => vr_parse_guard_custom vr = false end).
  Proof.
    intros fuel r ci i d hc Hs H Hhc.
    destruct r as [kid a interop kw vrf | a interop version dd | vv refs a interop dd]; cbn [strict_request] in Hs;
      apply negb_true_iff in Hs; subst a; cbn [request_kwargs].
    - split; auto. eapply run_construct_strict_flag; eauto.
    - destruct fuel as [| f]; cbn [run] in H; try discriminate.
      walk H; try (inv H; fail).
      all: try (match goal with H0 : d2s_ext_scan _ _ _ = Ok _ |- _ => apply d2s_ext_scan_result in H0; discriminate end).
      all: inv H; cbn [pval_has_custom negb andb] in *.
      all: try (rewrite andb_true_r in *).
      all: split; [eapply run_construct_strict_flag; eauto | ].
      all: try (destruct (vr_parse_guard_custom vr); auto; discriminate).
    - destruct fuel as [| f]; cbn [run] in H; try discriminate.
      walk H; try (inv H; fail).
      all: inv H; cbn [pval_has_custom negb andb] in *.
      all: try (rewrite andb_true_r in *).
      all: split; [eapply run_construct_strict_flag; eauto | ].
      all: try (destruct (vr_parse_guard_custom vr); auto; discriminate).
  Qed.

  (* with the guard of the repaired variant a strict parse never returns a flagged object *)
  Corollary strict_parse_flag_false_guarded : forall fuel interop version dd ci i d hc,
    vr_parse_guard_custom vr = true ->
    RUN fuel (RParse false interop version dd) = Ok (PObject ci i d hc) -> hc = false.
  Proof.
    intros fuel interop version dd ci i d hc Hg H. destruct hc; auto.
    destruct (strict_flag_only_by_loophole fuel (RParse false interop version dd) ci i d true eq_refl H eq_refl) as [_ Hf].
    congruence.
  Qed.
End Run.

(* Proofs/MarkingsC07Query.v -- the two queries (get_markings, is_marked):
   what they report in terms of the pair set, that they agree with each other
   under the same options, and that inherited / descendant lookups follow the
   path tree in the repaired variant (with witnesses for the pinned one). *)
From Coq Require Import String.
From Coq Require Import NArith ZArith List Bool Arith Lia.
From V Require Import Base.UString Model.Markings Spec.MarkingSpec Proofs.MarkingsC08 Proofs.MarkingsSyntax
                      Proofs.MarkingsC07Sets Proofs.MarkingsC07Ops.
Import ListNotations.

(* ---------------------------------------------------------------- *)
(* get_markings (granular)                                           *)

Lemma g_get_spec : forall c o sels i d r l res m,
  g_get_markings c o sels i d r l = Ok res ->
  (In m res <->
   exists g us a, In g (gms_list o) /\ In us sels /\ In a (g_sels g) /\ sel_match c i d us a = true /\
     ((m = g_ref g /\ nonempty m = true /\ r = true) \/ (m = g_lang g /\ nonempty m = true /\ l = true))).
Proof.
  intros c o sels i d r l res m H. unfold g_get_markings in H.
  destruct (validate c (view o) sels); [|discriminate]. simpl in H. inversion H. subst res. clear H.
  rewrite in_flat_map. split.
  - intros [g [Hg H]]. apply in_flat_map in H. destruct H as [us [Hus H]].
    apply in_flat_map in H. destruct H as [a [Ha H]].
    destruct (sel_match c i d us a) eqn:Em; [|contradiction].
    exists g, us, a. repeat (split; auto). apply in_app_or in H. destruct H as [H|H].
    + destruct (nonempty (g_ref g)) eqn:En; destruct r; simpl in H; try contradiction.
      destruct H as [H|[]]. subst m. auto.
    + destruct (nonempty (g_lang g)) eqn:En; destruct l; simpl in H; try contradiction.
      destruct H as [H|[]]. subst m. auto.
  - intros [g [us [a [Hg [Hus [Ha [Hm Hid]]]]]]]. exists g. split; auto.
    apply in_flat_map. exists us. split; auto. apply in_flat_map. exists a. split; auto.
    rewrite Hm. apply in_or_app. destruct Hid as [[E [Hn Hr]]|[E [Hn Hl]]]; subst.
    + left. rewrite Hn. simpl. auto.
    + right. rewrite Hn. simpl. auto.
Qed.

(* with both kinds asked for: in terms of the pair set *)
Theorem g_get_pairs : forall c o sels i d res m,
  g_get_markings c o sels i d true true = Ok res ->
  (In m res <-> exists us a, In us sels /\ In (a, m) (pairs (gms_list o)) /\ sel_match c i d us a = true).
Proof.
  intros c o sels i d res m H. rewrite (g_get_spec _ _ _ _ _ _ _ _ m H). split.
  - intros [g [us [a [Hg [Hus [Ha [Hm Hid]]]]]]]. exists us, a. split; auto. split; auto.
    apply in_pairs. exists g. split; auto. split; auto. destruct Hid as [[E [Hn _]]|[E [Hn _]]]; auto.
  - intros [us [a [Hus [Hp Hm]]]]. apply in_pairs in Hp. destruct Hp as [g [Hg [Ha [Hn Hid]]]].
    exists g, us, a. repeat (split; auto). destruct Hid as [E|E]; auto.
Qed.

(* ---------------------------------------------------------------- *)
(* is_marked (granular)                                              *)

Lemma g_is_marked_spec : forall c o m sels i d b,
  nonempty m = true ->
  g_is_marked c o [m] sels i d = Ok b ->
  (b = true <->
   exists g us a, In g (gms_list o) /\ In us sels /\ In a (g_sels g) /\ sel_match c i d us a = true /\
     (m = g_ref g \/ m = g_lang g)).
Proof.
  intros c o m sels i d b Hn H. unfold g_is_marked in H.
  destruct (validate c (view o) sels); [|discriminate]. cbn [negb] in H. inversion H. clear H.
  cbn [forallb]. rewrite andb_true_r. rewrite mem_ustr_in. rewrite in_flat_map. split.
  - intros [g [Hhit Hf]]. apply in_flat_map in Hhit. destruct Hhit as [g0 [Hg0 Hhit]].
    apply in_flat_map in Hhit. destruct Hhit as [us [Hus Hhit]].
    apply in_flat_map in Hhit. destruct Hhit as [a [Ha Hhit]].
    destruct (sel_match c i d us a) eqn:Em; [|destruct Hhit]. destruct Hhit as [E|[]]. subst g0.
    exists g, us, a. repeat (split; auto). apply in_app_or in Hf. destruct Hf as [Hf|Hf].
    + destruct (ustr_eqb (g_ref g) m) eqn:E; simpl in Hf; [|destruct Hf].
      apply ustr_eqb_eq in E. left. congruence.
    + destruct (ustr_eqb (g_lang g) m) eqn:E; simpl in Hf; [|destruct Hf].
      apply ustr_eqb_eq in E. right. congruence.
  - intros [g [us [a [Hg [Hus [Ha [Hm Hid]]]]]]]. exists g. split.
    + apply in_flat_map. exists g. split; auto. apply in_flat_map. exists us. split; auto.
      apply in_flat_map. exists a. split; auto. rewrite Hm. left. reflexivity.
    + apply in_or_app. destruct Hid as [E|E].
      * left. subst m. rewrite ustr_eqb_refl. simpl. auto.
      * right. subst m. rewrite ustr_eqb_refl. simpl. auto.
Qed.

(* the two granular queries agree, in every variant *)
Theorem g_query_agreement : forall c o m sels i d b res,
  nonempty m = true ->
  g_is_marked c o [m] sels i d = Ok b ->
  g_get_markings c o sels i d true true = Ok res ->
  (b = true <-> In m res).
Proof.
  intros c o m sels i d b res Hn Hb Hr.
  rewrite (g_is_marked_spec _ _ _ _ _ _ _ Hn Hb). rewrite (g_get_spec _ _ _ _ _ _ _ _ m Hr). split.
  - intros [g [us [a [Hg [Hus [Ha [Hm Hid]]]]]]]. exists g, us, a. repeat (split; auto).
    destruct Hid as [E|E]; auto.
  - intros [g [us [a [Hg [Hus [Ha [Hm Hid]]]]]]]. exists g, us, a. repeat (split; auto).
    destruct Hid as [[E _]|[E _]]; auto.
Qed.

(* both queries raise on exactly the same inputs *)
Theorem g_query_errors_agree : forall c o ms sels i d r l e,
  g_is_marked c o ms sels i d = Err e <-> g_get_markings c o sels i d r l = Err e.
Proof.
  intros c o ms sels i d r l e. unfold g_is_marked, g_get_markings.
  destruct (validate c (view o) sels); simpl.
  - split; [|discriminate]. destruct ms; discriminate.
  - split; intro H; inversion H; reflexivity.
Qed.

(* ---------------------------------------------------------------- *)
(* the dispatching API                                               *)

Lemma o_is_marked_single : forall o m, o_is_marked o [m] = mem_ustr m (omr_list o).
Proof. intros o m. unfold o_is_marked. simpl. apply orb_false_r. Qed.

Theorem query_agreement : forall c, c_api c = SameMarking ->
  forall o m sels i d b res,
    nonempty m = true ->
    is_marked c o [m] sels i d = Ok b ->
    get_markings c o sels i d true true = Ok res ->
    (b = true <-> In m res).
Proof.
  intros c Hapi o m sels i d b res Hn Hb Hr. destruct sels as [ss|].
  - unfold is_marked in Hb. unfold get_markings in Hr.
    destruct (g_is_marked c o [m] ss i d) as [b0|e] eqn:Eb; [|discriminate].
    destruct (g_get_markings c o ss i d true true) as [r0|e] eqn:Er; [|discriminate].
    pose proof (g_query_agreement _ _ _ _ _ _ _ _ Hn Eb Er) as Hag.
    destruct i.
    + rewrite Hapi in Hb. injection Hb as Hb. injection Hr as Hr. subst b res.
      rewrite in_app_iff. rewrite orb_false_r. rewrite orb_true_iff. rewrite mem_ustr_in.
      unfold o_get_markings. tauto.
    + injection Hb as Hb. injection Hr as Hr. subst b res. exact Hag.
  - unfold is_marked in Hb. unfold get_markings in Hr. injection Hb as Hb. injection Hr as Hr. subst b res.
    rewrite orb_false_r. unfold o_get_markings. apply mem_ustr_in.
Qed.

(* Pinned combination: with inherited=True, is_marked(M) is true as soon as the
   object carries any object marking, whatever M is. *)
Definition green_id : ustring := u "marking-definition--34098fce-860f-48ae-8e50-ebd3cc5e41da".
Definition with_api a := mkcfg AnyValue Position AnyMapping NestedLists ByPathTree a AnyCaseKeys Ind20Checked.
Definition with_inherit i := mkcfg AnyValue Position AnyMapping NestedLists i SameMarking AnyCaseKeys Ind20Checked.

Definition api_witness : sobj :=
  mkobj KDict true true
        [(u "type", VStr (u "identity")); (u "name", VStr (u "ACME")); (u "created", VTime (u "t"));
         (u "modified", VTime (u "t"))]
        (Some [green_id]) None.

Theorem api_refuted :
  exists o m sels i d res,
    nonempty m = true /\
    is_marked (with_api AnyObjectMarking) o [m] sels i d = Ok true /\
    get_markings (with_api AnyObjectMarking) o sels i d true true = Ok res /\ ~ In m res.
Proof.
  exists api_witness, red_id, (Some [u "name"]), true, false, [green_id].
  split; [reflexivity|]. split; [vm_compute; reflexivity|]. split; [vm_compute; reflexivity|].
  intros [H|[]]. vm_compute in H. discriminate.
Qed.

Theorem api_repaired_on_witness :
  is_marked (with_api SameMarking) api_witness [red_id] (Some [u "name"]) true false = Ok false /\
  is_marked (with_api SameMarking) api_witness [green_id] (Some [u "name"]) true false = Ok true.
Proof. split; vm_compute; reflexivity. Qed.

(* ---------------------------------------------------------------- *)
(* the path tree                                                     *)

Lemma ustr_prefix_iff : forall p s, ustr_prefix p s = true <-> exists t, s = p ++ t.
Proof.
  induction p as [|x p IH]; intro s; simpl.
  - split; [intros _; exists s; reflexivity | reflexivity].
  - destruct s as [|y s].
    + split; [discriminate | intros [t E]; discriminate].
    + rewrite andb_true_iff, N.eqb_eq, IH. split.
      * intros [E [t Et]]. subst. exists t. reflexivity.
      * intros [t E]. inversion E. subst. split; auto. exists t. reflexivity.
Qed.

Lemma split_aux_app_dot : forall a t cur,
  split_dot_aux (a ++ dot :: t) cur = split_dot_aux a cur ++ split_dot t.
Proof.
  induction a as [|x a IH]; intros t cur.
  - change (split_dot_aux ([] ++ dot :: t) cur) with (split_dot_aux (dot :: t) cur).
    unfold split_dot_aux at 1. fold split_dot_aux. rewrite N.eqb_refl. reflexivity.
  - change ((x :: a) ++ dot :: t) with (x :: (a ++ dot :: t)).
    unfold split_dot_aux at 1 2. fold split_dot_aux. destruct (x =? dot)%N.
    + rewrite IH. reflexivity.
    + apply IH.
Qed.

Lemma split_dot_app : forall a t, split_dot (a ++ dot :: t) = split_dot a ++ split_dot t.
Proof. intros a t. unfold split_dot at 1 2. apply split_aux_app_dot. Qed.

Lemma split_dot_nonempty : forall s, split_dot s <> [].
Proof. intro s. apply split_aux_nonempty. Qed.

Lemma join_dot_app : forall l1 l2, l1 <> [] -> l2 <> [] -> join_dot (l1 ++ l2) = join_dot l1 ++ dot :: join_dot l2.
Proof.
  induction l1 as [|a l1 IH]; intros l2 H1 H2; [congruence|].
  destruct l1 as [|b l1].
  - simpl app. rewrite join_dot_cons by assumption. reflexivity.
  - change ((a :: b :: l1) ++ l2) with (a :: ((b :: l1) ++ l2)).
    rewrite join_dot_cons by (simpl; discriminate). rewrite IH by (assumption || discriminate).
    rewrite (join_dot_cons a (b :: l1)) by discriminate. rewrite <- app_assoc. reflexivity.
Qed.

(* startswith(a + '.') is "a is a proper ancestor on the path tree" *)
Theorem dotted_prefix_is_ancestor : forall a s,
  ustr_prefix (a ++ [dot]) s = true <-> proper_ancestor a s.
Proof.
  intros a s. rewrite ustr_prefix_iff. unfold proper_ancestor, segments. split.
  - intros [t E]. subst s. rewrite <- app_assoc. simpl. exists (split_dot t).
    split; [apply split_dot_nonempty | apply split_dot_app].
  - intros [rest [Hne E]]. exists (join_dot rest).
    rewrite <- (join_split s). rewrite E. rewrite join_dot_app; auto using split_dot_nonempty.
    rewrite join_split. rewrite <- app_assoc. reflexivity.
Qed.

Lemma ancestor_or_self_iff : forall a s, ancestor_or_self a s <-> a = s \/ proper_ancestor a s.
Proof.
  intros a s. unfold ancestor_or_self, proper_ancestor. split.
  - intros [rest E]. destruct rest as [|x rest].
    + left. rewrite app_nil_r in E. rewrite <- (join_split a), <- (join_split s). unfold segments in E. congruence.
    + right. exists (x :: rest). split; [discriminate | exact E].
  - intros [E|[rest [_ E]]].
    + subst. exists []. rewrite app_nil_r. reflexivity.
    + exists rest. exact E.
Qed.

Theorem sel_match_tree : forall c, c_inherit c = ByPathTree ->
  forall i d us a,
    sel_match c i d us a = true <->
    us = a \/ (i = true /\ proper_ancestor a us) \/ (d = true /\ proper_ancestor us a).
Proof.
  intros c Hc i d us a. unfold sel_match, starts. rewrite Hc.
  rewrite !orb_true_iff, !andb_true_iff, ustr_eqb_eq, !dotted_prefix_is_ancestor. tauto.
Qed.

(* inherited / descendant lookups follow the path tree *)
Theorem inherit_is_tree : forall c, c_inherit c = ByPathTree ->
  forall o sels i d res m,
    g_get_markings c o sels i d true true = Ok res ->
    (In m res <->
     exists us a, In us sels /\ In (a, m) (pairs (gms_list o)) /\
       (us = a \/ (i = true /\ proper_ancestor a us) \/ (d = true /\ proper_ancestor us a))).
Proof.
  intros c Hc o sels i d res m H. rewrite (g_get_pairs _ _ _ _ _ _ m H). split.
  - intros [us [a [H1 [H2 H3]]]]. exists us, a. split; auto. split; auto. apply (sel_match_tree c Hc). exact H3.
  - intros [us [a [H1 [H2 H3]]]]. exists us, a. split; auto. split; auto. apply (sel_match_tree c Hc). exact H3.
Qed.

(* the reading of the property text: an inherited lookup of one selector reports the markings of the
   selector itself and of its ancestors, nothing else *)
Theorem inherited_lookup : forall c, c_inherit c = ByPathTree ->
  forall o s res m,
    g_get_markings c o [s] true false true true = Ok res ->
    (In m res <-> exists a, In (a, m) (pairs (gms_list o)) /\ ancestor_or_self a s).
Proof.
  intros c Hc o s res m H. rewrite (inherit_is_tree c Hc _ _ _ _ _ m H). split.
  - intros [us [a [[E|[]] [Hp Hm]]]]. subst us. exists a. split; auto. apply ancestor_or_self_iff.
    destruct Hm as [E|[[_ Hm]|[Hd _]]]; auto; discriminate.
  - intros [a [Hp Ha]]. exists s, a. split; [left; reflexivity|]. split; auto.
    apply ancestor_or_self_iff in Ha. destruct Ha as [E|Ha]; auto.
Qed.

Theorem descendant_lookup : forall c, c_inherit c = ByPathTree ->
  forall o s res m,
    g_get_markings c o [s] false true true true = Ok res ->
    (In m res <-> exists a, In (a, m) (pairs (gms_list o)) /\ ancestor_or_self s a).
Proof.
  intros c Hc o s res m H. rewrite (inherit_is_tree c Hc _ _ _ _ _ m H). split.
  - intros [us [a [[E|[]] [Hp Hm]]]]. subst us. exists a. split; auto. apply ancestor_or_self_iff.
    destruct Hm as [E|[[Hi _]|[_ Hm]]]; auto; discriminate.
  - intros [a [Hp Ha]]. exists s, a. split; [left; reflexivity|]. split; auto.
    apply ancestor_or_self_iff in Ha. destruct Ha as [E|Ha]; auto.
Qed.

(* pinned: a marking on `created` is reported for `created_by_ref` *)
Definition inherit_witness : sobj :=
  mkobj KDict true true
        [(u "type", VStr (u "identity")); (u "name", VStr (u "ACME")); (u "created", VTime (u "t"));
         (u "created_by_ref", VStr (u "identity--x")); (u "modified", VTime (u "t"))]
        None (Some [mkgm [u "created"] red_id []]).

Theorem inherit_refuted :
  exists o s res m,
    g_get_markings (with_inherit ByPrefix) o [s] true false true true = Ok res /\ In m res /\
    ~ exists a, In (a, m) (pairs (gms_list o)) /\ ancestor_or_self a s.
Proof.
  exists inherit_witness, (u "created_by_ref"), [red_id], red_id.
  split; [vm_compute; reflexivity|]. split; [left; reflexivity|].
  intros [a [Hp [rest Ha]]]. simpl in Hp. destruct Hp as [Hp|[]]. inversion Hp. subst a.
  vm_compute in Ha. destruct rest; discriminate.
Qed.

Theorem inherit_repaired_on_witness :
  g_get_markings (with_inherit ByPathTree) inherit_witness [u "created_by_ref"] true false true true = Ok [] /\
  g_get_markings (with_inherit ByPathTree) inherit_witness [u "created"] true false true true = Ok [red_id].
Proof. split; vm_compute; reflexivity. Qed.

(* ---------------------------------------------------------------- *)
(* after adding, the marking is reported for those selectors         *)

Lemma sel_match_refl : forall c i d s, sel_match c i d s s = true.
Proof. intros. unfold sel_match. rewrite ustr_eqb_refl. reflexivity. Qed.

Theorem add_then_get : forall c o ms sels o1 s m i d res,
  g_add_markings c o ms sels = Ok o1 ->
  In s sels -> In m ms -> nonempty m = true ->
  g_get_markings c o1 [s] i d true true = Ok res ->
  In m res.
Proof.
  intros c o ms sels o1 s m i d res Hadd Hs Hm Hn Hget.
  apply (g_get_pairs _ _ _ _ _ _ m Hget). exists s, s. split; [left; reflexivity|].
  split; [|apply sel_match_refl].
  apply (g_add_pairs _ _ _ _ _ Hadd (s, m)). apply in_or_app. right. apply in_product. split; auto.
  apply in_real. auto.
Qed.

Theorem add_then_is_marked : forall c o ms sels o1 s m i d b,
  g_add_markings c o ms sels = Ok o1 ->
  In s sels -> In m ms -> nonempty m = true ->
  g_is_marked c o1 [m] [s] i d = Ok b ->
  b = true.
Proof.
  intros c o ms sels o1 s m i d b Hadd Hs Hm Hn Hb.
  destruct (g_get_markings c o1 [s] i d true true) as [res|e] eqn:Hget.
  - apply (g_query_agreement _ _ _ _ _ _ _ _ Hn Hb Hget). eapply add_then_get; eauto.
  - apply g_query_errors_agree with (ms := [m]) in Hget. congruence.
Qed.

(* after clearing (default flags) nothing is reported for the cleared selectors themselves *)
Theorem clear_then_get : forall c o sels o1 s res,
  g_clear_markings c o sels true true = Ok o1 -> In s sels ->
  g_get_markings c o1 [s] false false true true = Ok res ->
  res = [].
Proof.
  intros c o sels o1 s res Hc Hs Hget. destruct res as [|m res]; [reflexivity|]. exfalso.
  assert (Hin : In m (m :: res)) by (left; reflexivity).
  apply (g_get_pairs _ _ _ _ _ _ m Hget) in Hin. destruct Hin as [us [a [[E|[]] [Hp Hm]]]]. subst us.
  unfold sel_match in Hm. rewrite !andb_false_r, !orb_false_r in Hm. apply ustr_eqb_eq in Hm. subst a.
  apply (g_clear_pairs_all _ _ _ _ Hc (s, m)) in Hp. apply filter_In in Hp. destruct Hp as [_ Hp].
  simpl in Hp. apply negb_true_iff in Hp. apply mem_ustr_false in Hp. contradiction.
Qed.

(* ---------------------------------------------------------------- *)
(* is_marked with several markings, and with none                    *)

Definition hits (c : cfg) (o : sobj) (sels : list ustring) (i d : bool) : list gm :=
  flat_map (fun g => flat_map (fun us => flat_map (fun ms => if sel_match c i d us ms then [g] else []) (g_sels g)) sels)
           (gms_list o).

Lemma in_hits : forall c o sels i d g,
  In g (hits c o sels i d) <->
  In g (gms_list o) /\ exists us a, In us sels /\ In a (g_sels g) /\ sel_match c i d us a = true.
Proof.
  intros c o sels i d g. unfold hits. rewrite in_flat_map. split.
  - intros [g0 [Hg0 H]]. apply in_flat_map in H. destruct H as [us [Hus H]].
    apply in_flat_map in H. destruct H as [a [Ha H]].
    destruct (sel_match c i d us a) eqn:Em; [|destruct H]. destruct H as [E|[]]. subst g0.
    split; auto. exists us, a. auto.
  - intros [Hg [us [a [Hus [Ha Hm]]]]]. exists g. split; auto. apply in_flat_map. exists us. split; auto.
    apply in_flat_map. exists a. split; auto. rewrite Hm. left. reflexivity.
Qed.

Lemma g_is_marked_unfold : forall c o ms sels i d b,
  g_is_marked c o ms sels i d = Ok b ->
  b = match ms with
      | [] => match hits c o sels i d with [] => false | _ => true end
      | _ => forallb (fun m => mem_ustr m
               (flat_map (fun g => (if mem_ustr (g_ref g) ms then [g_ref g] else []) ++
                                   (if mem_ustr (g_lang g) ms then [g_lang g] else [])) (hits c o sels i d))) ms
      end.
Proof.
  intros c o ms sels i d b H. unfold g_is_marked in H.
  destruct (validate c (view o) sels); [|discriminate]. cbn [negb] in H.
  destruct ms; injection H as H; subst b; reflexivity.
Qed.

(* granular is_marked with a list of markings: ALL of them must be reported (the docstring says ANY) *)
Theorem g_is_marked_many : forall c o ms sels i d b res,
  ms <> [] -> (forall m, In m ms -> nonempty m = true) ->
  g_is_marked c o ms sels i d = Ok b ->
  g_get_markings c o sels i d true true = Ok res ->
  (b = true <-> forall m, In m ms -> In m res).
Proof.
  intros c o ms sels i d b res Hne Hn Hb Hr. apply g_is_marked_unfold in Hb.
  destruct ms as [|m0 ms0]; [congruence|]. subst b. rewrite forallb_forall.
  assert (Hequiv : forall m, In m (m0 :: ms0) ->
            (mem_ustr m (flat_map (fun g => (if mem_ustr (g_ref g) (m0 :: ms0) then [g_ref g] else []) ++
                                            (if mem_ustr (g_lang g) (m0 :: ms0) then [g_lang g] else []))
                                  (hits c o sels i d)) = true <-> In m res)).
  { intros m Hm. rewrite mem_ustr_in. rewrite (g_get_spec _ _ _ _ _ _ _ _ m Hr). rewrite in_flat_map. split.
    - intros [g [Hh Hf]]. apply in_hits in Hh. destruct Hh as [Hg [us [a [Hus [Ha Hmt]]]]].
      exists g, us, a. repeat (split; auto). pose proof (Hn m Hm) as Hnm.
      apply in_app_or in Hf. destruct Hf as [Hf|Hf].
      + destruct (mem_ustr (g_ref g) (m0 :: ms0)); [|destruct Hf]. destruct Hf as [Hf|[]]. left. auto.
      + destruct (mem_ustr (g_lang g) (m0 :: ms0)); [|destruct Hf]. destruct Hf as [Hf|[]]. right. auto.
    - intros [g [us [a [Hg [Hus [Ha [Hmt Hid]]]]]]]. exists g. split.
      + apply in_hits. split; auto. exists us, a. auto.
      + apply in_or_app. destruct Hid as [[E _]|[E _]]; subst m.
        * left. apply mem_ustr_in in Hm. rewrite Hm. left. reflexivity.
        * right. apply mem_ustr_in in Hm. rewrite Hm. left. reflexivity. }
  split.
  - intros H m Hm. apply Hequiv; auto.
  - intros H m Hm. apply Hequiv; auto.
Qed.

(* object-level is_marked with a list of markings: ANY of them *)
Theorem o_is_marked_many : forall o ms, ms <> [] ->
  (o_is_marked o ms = true <-> exists m, In m ms /\ In m (omr_list o)).
Proof.
  intros o ms Hne. unfold o_is_marked. destruct ms as [|m0 ms0]; [congruence|].
  rewrite existsb_exists. split.
  - intros [m [H1 H2]]. exists m. split; auto. apply mem_ustr_in. exact H2.
  - intros [m [H1 H2]]. exists m. split; auto. apply mem_ustr_in. exact H2.
Qed.

(* every granular marking carries an identifier (true of every constructed object and of every mutator result) *)
Definition labelled (gs : list gm) : Prop := forall g, In g gs -> nonempty (g_ref g) = true \/ nonempty (g_lang g) = true.

(* is_marked without a marking: "is there any marking" = get_markings reports something *)
Theorem g_is_marked_none : forall c o sels i d b res,
  labelled (gms_list o) ->
  g_is_marked c o [] sels i d = Ok b ->
  g_get_markings c o sels i d true true = Ok res ->
  (b = true <-> res <> []).
Proof.
  intros c o sels i d b res Hl Hb Hr. apply g_is_marked_unfold in Hb. subst b. split.
  - intro H. destruct (hits c o sels i d) as [|g hs] eqn:Eh; [discriminate|].
    assert (Hin : In g (hits c o sels i d)) by (rewrite Eh; left; reflexivity).
    apply in_hits in Hin. destruct Hin as [Hg [us [a [Hus [Ha Hm]]]]].
    destruct (Hl g Hg) as [Hn|Hn].
    + assert (In (g_ref g) res).
      { apply (g_get_spec _ _ _ _ _ _ _ _ (g_ref g) Hr). exists g, us, a. repeat (split; auto). }
      intro E. rewrite E in H0. destruct H0.
    + assert (In (g_lang g) res).
      { apply (g_get_spec _ _ _ _ _ _ _ _ (g_lang g) Hr). exists g, us, a. repeat (split; auto). }
      intro E. rewrite E in H0. destruct H0.
  - intro H. destruct res as [|m res]; [congruence|].
    assert (Hin : In m (m :: res)) by (left; reflexivity).
    apply (g_get_spec _ _ _ _ _ _ _ _ m Hr) in Hin. destruct Hin as [g [us [a [Hg [Hus [Ha [Hm _]]]]]]].
    assert (Hh : In g (hits c o sels i d)) by (apply in_hits; split; auto; exists us, a; auto).
    destruct (hits c o sels i d); [destruct Hh | reflexivity].
Qed.

Lemma compress_labelled : forall gs, labelled (olist (compress_markings gs)).
Proof.
  intros gs g Hg. destruct gs as [|g0 gs]; [contradiction|]. unfold compress_markings, olist in Hg.
  apply in_map_iff in Hg. destruct Hg as [[k ss] [E Hin]]. subst g.
  assert (Hk : keys_nonempty (fold_left compress_step (g0 :: gs) [])) by (apply keys_fold; intros k0 ss0 []).
  pose proof (Hk k ss Hin) as Hn. unfold compress_entry. simpl. destruct (is_marking k); simpl; auto.
Qed.

(* the dispatch on `selectors is None` *)
Theorem dispatch : forall c o m ss r l i d,
  add_markings c o m (Some ss) = g_add_markings c o m ss /\ add_markings c o m None = o_add_markings c o m /\
  remove_markings c o m (Some ss) = g_remove_markings c o m ss /\ remove_markings c o m None = o_remove_markings c o m /\
  clear_markings c o (Some ss) r l = g_clear_markings c o ss r l /\ clear_markings c o None r l = o_clear_markings c o /\
  set_markings c o m (Some ss) r l = g_set_markings c o m ss r l /\ set_markings c o m None r l = o_set_markings c o m /\
  get_markings c o None i d r l = Ok (omr_list o) /\ is_marked c o m None i d = Ok (o_is_marked o m).
Proof. intros. repeat split. Qed.

(* Proofs/MarkingsVersioning.v -- bridge from C07's "every result is a new version whose non-marking
   content is unchanged" to C05's theorems about versioning.new_version (Model/Versioning.v, imported,
   not edited).  The marking functions call new_version(obj, <name>=..., allow_custom=True); the names
   are read from the source text (Gen/MarkingFacts.v: src_nv_changed_keys).  For any such call C05's
   model says: the result's version time is strictly later after serialization, and every property
   other than `modified` and the named ones is what it was.  (Model/Markings.v is deliberately not
   imported here: the two models share several identifiers.)  This file contains nothing but the use of
   r-c15-c05's lemmas nv_strict_lemma / nv_exact_lemma: if it stops compiling, their statements moved. *)
From Coq Require Import String ZArith List Bool.
From V Require Import Base.UString Base.Json Model.Timestamp Model.Versioning
  Proofs.VersioningFacts Proofs.VersioningProofs Gen.MarkingFacts Proofs.MarkingsSrc.
Import ListNotations.
Open Scope list_scope.

Lemma requested_untouched : forall ch d k, ~ In k (keys ch) -> requested ch d k = pget k d.
Proof. intros ch d k H. unfold requested. rewrite (plookup_not_in k ch H). reflexivity. Qed.

(* cp, ck: C05's arbitrary property-cleaning / constructor-check parameters; stored cp c k x is x itself for a
   dict and the cleaned value for an object of a class (Proofs/VersioningProofs.v) *)
Theorem marking_call_is_new_version : forall T nm cp ck c d ch now d' v,
  good_ver v -> NoDup (keys d) -> NoDup (keys ch) ->
  (forall k, In k (keys ch) -> In k src_nv_changed_keys) ->
  check_versionable T c d = Ok v ->
  new_version T nm cp ck c d ch now = Ok d' ->
  later nm v d d' /\
  (forall k, ustr_eqb k kmod = false -> ~ In k marking_keys -> plookup k d' = stored cp c k (pget k d)).
Proof.
  intros T nm cp ck c d ch now d' v Hv Nd Nc Hk Hc Hn. split.
  - exact (nv_strict_lemma T nm cp ck c d ch now d' v Hv Nd Nc Hc Hn).
  - intros k Hm Hnot. rewrite (nv_exact_lemma T nm cp ck c d ch now d' Nd Nc Hn k Hm). f_equal.
    apply requested_untouched. intro Hin. apply Hnot. apply src_changes_only_marking_keys. apply Hk. exact Hin.
Qed.

(* Proofs/FiltersStoreLink.v -- a bridge offered to the store model of
   properties C11 / C18 (Model/Store.v, owned by their builder; only imported
   here).  That model keeps the per-object verdict of a filter abstract:
   `FOther h` with h : obj -> bool.  Here: a view of a Store.obj as a value of
   Model/Filters.v, and the function `h_of` that instantiates h with the
   concrete evaluation (Filter._check_filter) of a C12 filter, so that every
   theorem of Store.v stated for arbitrary h holds in particular for real
   filters, with
       Store.all_hold (map (sfilter_of mode) fl) o = holds_b mode fl (pv_of_obj o).
   The two special shapes FType / FId agree with the concrete evaluation of
   Filter("type","=",t) / Filter("id","=",i).                               *)
From Coq Require Import NArith ZArith List String Bool.
From V Require Import Base.UString Model.Filters Spec.FilterSpec Proofs.FiltersBasics Proofs.FiltersOpt.
From V Require Model.Store.
Import ListNotations.

Module S := V.Model.Store.

(* `modified` / `created` as the stores hold them (a naive datetime has no
   counterpart in Model/Filters.v, which only knows aware ones; it is shown as
   the same instant -- objects with a naive timestamp are outside C12's model) *)
Definition pv_of_vkey (k : S.vkey) : option pv :=
  match k with
  | S.VInst t => Some (VTime t)
  | S.VNaive t => Some (VTime t)
  | S.VText s => Some (VStr s)
  | S.VNone => None
  end.

Definition opt_field (name : string) (v : option pv) : list (ustring * pv) :=
  match v with Some x => [(u name, x)] | None => [] end.

(* type and id first, then the timestamps, then the string-valued properties *)
Definition pv_of_obj (o : S.obj) : pv :=
  VDict ([(t_type, VStr (S.otype o)); (t_id, VStr (S.oid o))]
         ++ opt_field "modified" (pv_of_vkey (S.omod o))
         ++ opt_field "created" (pv_of_vkey (S.ocre o))
         ++ map (fun kv => (fst kv, VStr (snd kv))) (S.oprops o)).

(* the verdict of one real filter on a stored object (an exception is "no") *)
Definition h_of (mode : ts_mode) (f : flt) : S.obj -> bool :=
  fun o => match check_filter mode f (pv_of_obj o) with Ok true => true | _ => false end.

Definition sfilter_of (mode : ts_mode) (f : flt) : S.sfilter := S.FOther (h_of mode f).

Theorem store_all_hold_is_holds_b : forall mode fl o,
  Forall (fun f => exists b, check_filter mode f (pv_of_obj o) = Ok b) fl ->
  S.all_hold (map (sfilter_of mode) fl) o = holds_b mode fl (pv_of_obj o).
Proof.
  intros mode fl o. induction fl as [|f fl IH]; intro Hd.
  - reflexivity.
  - inversion Hd as [|x l [b Hb] Hd']; subst. unfold S.all_hold in *. simpl. rewrite IH; auto.
    unfold h_of, holds_b. simpl. rewrite Hb. destruct b; simpl; auto.
Qed.

(* without the definedness hypothesis: whenever the store model lets an object through, every filter holds *)
Theorem store_all_hold_sound : forall mode fl o,
  S.all_hold (map (sfilter_of mode) fl) o = true <-> holds_b mode fl (pv_of_obj o) = true.
Proof.
  intros mode fl o. rewrite holds_b_true. unfold S.all_hold. rewrite forallb_forall. split.
  - intros H f Hf. specialize (H (sfilter_of mode f) (in_map _ _ _ Hf)). simpl in H. unfold h_of in H.
    destruct (check_filter mode f (pv_of_obj o)) as [[|]|]; auto; discriminate.
  - intros H sf Hsf. apply in_map_iff in Hsf. destruct Hsf as [f [<- Hf]]. simpl. unfold h_of. rewrite (H f Hf). reflexivity.
Qed.

(* the two shapes the store model treats specially are the concrete evaluation of the corresponding filters *)
Theorem ftype_is_concrete : forall mode t o,
  (mode = InstantOnDicts -> parse_ts (S.otype o) = None) ->
  S.sholds (S.FType t) o = h_of mode (mkf t_type OEq (VStr t)) o.
Proof.
  intros mode t o Hts. unfold h_of, pv_of_obj.
  rewrite (chk_on_name mode (mkf t_type OEq (VStr t)) _ t_type (S.otype o)); [|reflexivity|reflexivity].
  unfold check_property. rewrite coerce_str; auto. cbn [bind fop_ fval py_eq S.sholds].
  match goal with |- context [ustr_eqb ?a ?b] => destruct (ustr_eqb a b) end; reflexivity.
Qed.

Theorem fid_is_concrete : forall mode i o,
  (mode = InstantOnDicts -> parse_ts (S.oid o) = None) ->
  S.sholds (S.FId i) o = h_of mode (mkf t_id OEq (VStr i)) o.
Proof.
  intros mode i o Hts. unfold h_of, pv_of_obj.
  rewrite (chk_on_name mode (mkf t_id OEq (VStr i)) _ t_id (S.oid o)); [|reflexivity|reflexivity].
  unfold check_property. rewrite coerce_str; auto. cbn [bind fop_ fval py_eq S.sholds].
  match goal with |- context [ustr_eqb ?a ?b] => destruct (ustr_eqb a b) end; reflexivity.
Qed.

(* a string-valued property filter of the store model (prop_is) is the concrete `=` filter,
   for property names other than the four fixed ones and objects that carry the name once *)
Theorem prop_is_is_concrete : forall mode k v o,
  k <> t_type -> k <> t_id -> k <> u "modified" -> k <> u "created" ->
  split_dot k = [k] ->
  (mode = InstantOnDicts -> forall x, S.prop_get k o = Some x -> parse_ts x = None) ->
  S.prop_is k v o = h_of mode (mkf k OEq (VStr v)) o.
Proof.
  intros mode k v o H1 H2 H3 H4 Hs Hts. unfold S.prop_is, h_of, check_filter. simpl fprop. rewrite Hs.
  unfold pv_of_obj. cbn [check_path].
  assert (Hl : plookup k ([(t_type, VStr (S.otype o)); (t_id, VStr (S.oid o))]
                          ++ opt_field "modified" (pv_of_vkey (S.omod o))
                          ++ opt_field "created" (pv_of_vkey (S.ocre o))
                          ++ map (fun kv => (fst kv, VStr (snd kv))) (S.oprops o))
               = match S.prop_get k o with Some x => Some (VStr x) | None => None end).
  { simpl. apply ustr_eqb_neq in H1. apply ustr_eqb_neq in H2. rewrite H1, H2.
    assert (Hm : forall name w rest, k <> u name ->
              plookup k (opt_field name w ++ rest) = plookup k rest).
    { intros name w rest Hn. destruct w; simpl; auto. apply ustr_eqb_neq in Hn. rewrite Hn. auto. }
    rewrite (Hm "modified"%string); auto. rewrite (Hm "created"%string); auto.
    unfold S.prop_get. induction (S.oprops o) as [|[k' x] l IH]; simpl; auto.
    rewrite (ustr_eqb_sym k k'). destruct (ustr_eqb k' k); auto. }
  rewrite Hl. destruct (S.prop_get k o) as [x|] eqn:E; [|reflexivity].
  unfold check_property. rewrite coerce_str; auto. cbn [bind fop_ fval py_eq S.sholds].
  match goal with |- context [ustr_eqb ?a ?b] => destruct (ustr_eqb a b) end; reflexivity.
Qed.

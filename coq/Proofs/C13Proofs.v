(* Proofs/C13Proofs.v -- the lemmas of HeapFacts / HeapInterp / HeapApiFacts /
   HeapStoreFacts restated against Spec/HeapSpec.v for the code as written
   (every defensive copy Deep), the facts about the generated class tables,
   and the witnesses showing that the frame theorem FAILS for the variants in
   which a defensive copy is missing.                                        *)
From Coq Require Import NArith ZArith String Bool Arith List Lia.
From V Require Import Model.Heap Model.HeapOps Model.HeapApi Model.HeapRun Spec.HeapSpec.
From V Require Import Proofs.HeapFacts Proofs.HeapInterp Proofs.HeapApiFacts Proofs.HeapStoreFacts Proofs.HeapExec Proofs.HeapPriv.
From V Require Import Gen.HeapWorld.
Import ListNotations.
Open Scope nat_scope.

Lemma grows_unchanged : forall h h', grows h h' -> unchanged h h'.
Proof. intros h h' [_ G]. exact G. Qed.

Lemma same_but_unchanged_but : forall d h h', same_but d h h' -> unchanged_but d h h'.
Proof. intros d h h' (_ & G & S). split; auto. Qed.

(* ---- C13, first sentence, from the frame ---- *)
Lemma unchanged_values_l : forall h h', unchanged h h' -> values_kept h h'.
Proof.
  intros h h' U n v t H. eapply value_frame; eauto. intros l nd E _. auto.
Qed.

Lemma unchanged_but_values_l : forall d h h',
  unchanged_but d h h' -> (forall nd, get h d = Some nd -> is_store nd = true) -> values_kept h h'.
Proof.
  intros d h h' [G _] Hd n v t H. eapply value_frame; eauto.
  intros l nd E Ns. apply G; auto. intro; subst. rewrite (Hd _ E) in Ns. discriminate.
Qed.

(* ---- the interpreter ---- *)
Lemma frame_run_l : forall W q h h' r, run as_written W q h = (h', r) -> unchanged h h'.
Proof. intros. apply grows_unchanged. eapply run_grows; eauto. apply safe_as_written. Qed.

Lemma frame_interp_l : forall vt W d n q h h' r, copies vt -> interp vt W d n q h = (h', r) -> unchanged h h'.
Proof. intros. apply grows_unchanged. eapply interp_grows; eauto. Qed.

(* ---- versioning, markings, bundle, factory ---- *)
Lemma frame_new_version_l : forall W data kwargs h h' r,
  new_version as_written W data kwargs h = (h', r) -> unchanged h h'.
Proof. intros. apply grows_unchanged. eapply new_version_grows; eauto. apply safe_as_written. Qed.

Lemma frame_revoke_l : forall W data h h' r, revoke as_written W data h = (h', r) -> unchanged h h'.
Proof. intros. apply grows_unchanged. eapply revoke_grows; eauto. apply safe_as_written. Qed.

Lemma frame_expand_l : forall gm h h' r, expand_markings gm h = (h', r) -> unchanged h h'.
Proof. intros. apply grows_unchanged. eapply expand_markings_grows; eauto. Qed.

Lemma expand_result_new_l : forall gm h h' e, expand_markings gm h = (h', RVal (VR e)) ->
  length h <= e /\ exists xs, get h' e = Some (NList xs) /\
                              forall d, In (VR d) xs -> length h <= d.
Proof.
  intros gm h h' e H. destruct (expand_markings_spec _ _ _ _ H) as [_ S].
  destruct (S _ eq_refl) as (e' & Ee & He & (xs & Ex & Fx)). inversion Ee; subst e'.
  split; auto. exists xs. split; auto. intros d Hd. rewrite Forall_forall in Fx. apply (Fx _ Hd).
Qed.

Lemma frame_compress_l : forall gm h h' r, compress_markings gm h = (h', r) -> unchanged h h'.
Proof. intros. apply grows_unchanged. eapply compress_markings_grows; eauto. Qed.

Lemma frame_granular_add_l : forall W obj marking selectors h h' r,
  granular_add as_written W obj marking selectors h = (h', r) -> unchanged h h'.
Proof. intros. apply grows_unchanged. eapply granular_add_grows; eauto. apply safe_as_written. Qed.

Lemma frame_granular_clear_l : forall W obj selectors h h' r,
  granular_clear as_written W obj selectors h = (h', r) -> unchanged h h'.
Proof. intros. apply grows_unchanged. eapply granular_clear_grows; eauto. apply safe_as_written. Qed.

Lemma frame_object_add_l : forall W obj marking h h' r,
  object_add as_written W obj marking h = (h', r) -> unchanged h h'.
Proof. intros. apply grows_unchanged. eapply object_add_grows; eauto. apply safe_as_written. Qed.

Lemma frame_object_remove_l : forall W obj marking h h' r,
  object_remove as_written W obj marking h = (h', r) -> unchanged h h'.
Proof. intros. apply grows_unchanged. eapply object_remove_grows; eauto. apply safe_as_written. Qed.

Lemma frame_object_clear_l : forall W obj h h' r,
  object_clear as_written W obj h = (h', r) -> unchanged h h'.
Proof. intros. apply grows_unchanged. eapply object_clear_grows; eauto. apply safe_as_written. Qed.

Lemma frame_granular_remove_l : forall W obj marking selectors h h' r,
  granular_remove as_written W obj marking selectors h = (h', r) -> unchanged h h'.
Proof. intros. apply grows_unchanged. eapply granular_remove_grows; eauto. apply safe_as_written. Qed.

Lemma frame_granular_set_l : forall W obj marking selectors h h' r,
  granular_set as_written W obj marking selectors h = (h', r) -> unchanged h h'.
Proof. intros. apply grows_unchanged. eapply granular_set_grows; eauto. apply safe_as_written. Qed.

Lemma frame_object_set_l : forall W obj marking h h' r,
  object_set as_written W obj marking h = (h', r) -> unchanged h h'.
Proof. intros. apply grows_unchanged. eapply object_set_grows; eauto. apply safe_as_written. Qed.

Lemma frame_api_markings_l : forall W fn obj marking selectors h h' r,
  api_markings as_written W fn obj marking selectors h = (h', r) -> unchanged h h'.
Proof. intros. apply grows_unchanged. eapply api_markings_grows; eauto. apply safe_as_written. Qed.

Lemma frame_remove_custom_l : forall W obj h h' r,
  remove_custom_stix as_written W obj h = (h', r) -> unchanged h h'.
Proof. intros. apply grows_unchanged. eapply remove_custom_stix_grows; eauto. apply safe_as_written. Qed.

Lemma frame_clear_opts_l : forall W mr lg obj selectors h h' r,
  granular_clear_f as_written W mr lg obj selectors h = (h', r) -> unchanged h h'.
Proof. intros. apply grows_unchanged. eapply granular_clear_f_grows; eauto. apply safe_as_written. Qed.

Lemma frame_set_opts_l : forall W mr lg obj marking selectors h h' r,
  granular_set_f as_written W mr lg obj marking selectors h = (h', r) -> unchanged h h'.
Proof. intros. apply grows_unchanged. eapply granular_set_f_grows; eauto. apply safe_as_written. Qed.

Lemma frame_deduplicate_l : forall lst h h' r, deduplicate lst h = (h', r) -> unchanged h h'.
Proof. intros. apply grows_unchanged. eapply deduplicate_grows; eauto. Qed.

Lemma frame_copy_l : forall v h h' r, shallow_copy v h = (h', r) -> unchanged h h'.
Proof. intros. apply grows_unchanged. eapply shallow_copy_grows; eauto. Qed.

Lemma frame_bundle_l : forall W cls args kw h h' r,
  bundle as_written W cls args kw h = (h', r) -> unchanged h h'.
Proof. intros. apply grows_unchanged. eapply bundle_grows; eauto. apply safe_as_written. Qed.

Lemma frame_factory_new_l : forall kw la h h' r, factory_new kw la h = (h', r) -> unchanged h h'.
Proof. intros. apply grows_unchanged. eapply factory_new_grows; eauto. Qed.

Lemma frame_factory_create_l : forall W f cls kwargs h h' r,
  factory_create as_written W f cls kwargs h = (h', r) -> unchanged h h'.
Proof. intros. apply grows_unchanged. eapply factory_create_grows; eauto. apply safe_as_written. Qed.

(* ---- the memory store ---- *)
Lemma frame_store_new_l : forall h h' s, store_new h = (h', s) -> unchanged h h'.
Proof. intros. apply grows_unchanged. eapply store_new_grows; eauto. Qed.

Lemma frame_store_add_l : forall W n d data h h' r,
  store_add as_written W n d data h = (h', r) -> unchanged_but d h h'.
Proof. intros. apply same_but_unchanged_but. eapply store_add_same_but; eauto. apply safe_as_written. Qed.

Lemma store_add_values_l : forall W n s d data h h' r,
  store_data h s = Some d -> store_add as_written W n d data h = (h', r) -> values_kept h h'.
Proof.
  intros W n s d data h h' r Hs H. eapply unchanged_but_values_l; [eapply frame_store_add_l; eauto|].
  intros nd E. unfold store_data in Hs. destruct s as [a|l]; [discriminate|].
  destruct (get h l) as [[?|?|c fs|?]|]; try discriminate.
  destruct (assoc (u "_data") fs) as [[a|d']|]; try discriminate.
  destruct (get h d') as [[?|?|? ?|m]|] eqn:E'; try discriminate.
  inversion Hs; subst d'. rewrite E in E'. inversion E'. reflexivity.
Qed.

(* ---- deep copy ---- *)
Lemma deepcopy_spec_l : forall n v h t, value n h v = Some t ->
  exists h' c, deepcopy n v h = (h', RVal c) /\ value n h' c = Some t /\ all_new h h' c /\ unchanged h h'.
Proof.
  intros n v h t Hv. destruct (deepcopy_equal_disjoint_l _ _ _ _ Hv) as (h' & c & E & V & D & _ & U).
  exists h', c. repeat split; auto.
Qed.

Lemma deepcopy_any_l : forall n v h h' c, deepcopy n v h = (h', RVal c) -> all_new h h' c /\ unchanged h h'.
Proof. intros. eapply deepcopy_disjoint_l; eauto. Qed.

Lemma all_new_disjoint_l : forall h h' c v l, all_new h h' c -> reaches h v l -> ~ reaches h' c l.
Proof. intros h h' c v l D R R'. apply reaches_lt in R. apply D in R'. lia. Qed.

(* ---- the whole operation language, and histories ---- *)
Lemma unchanged_ns_values_l : forall h h', unchanged_ns h h' -> values_kept h h'.
Proof. intros h h' U n v t H. eapply value_frame; eauto. Qed.

Lemma exec_frame_l : forall W o e h h' r,
  public_op o = true -> exec as_written W o e h = (h', r) -> unchanged_ns h h'.
Proof. intros W o e h h' r Hp H. eapply exec_kept; eauto. apply safe_as_written. Qed.

Lemma history_l : forall W ops e h e' h',
  forallb public_op ops = true -> run_state as_written W ops e h = (e', h') ->
  unchanged_ns h h' /\ values_kept h h' /\ exists e2, e' = e ++ e2.
Proof.
  intros W ops e h e' h' Hp H.
  assert (K : kept h h') by (eapply run_state_kept; eauto; apply safe_as_written).
  split; [apply K|]. split; [apply unchanged_ns_values_l; apply K | eapply run_state_env; eauto].
Qed.

Lemma history_steps_l : forall W ops1 ops2 e h e1 h1 e2 h2,
  forallb public_op (ops1 ++ ops2) = true ->
  run_state as_written W ops1 e h = (e1, h1) -> run_state as_written W (ops1 ++ ops2) e h = (e2, h2) ->
  values_kept h1 h2.
Proof.
  intros W ops1 ops2 e h e1 h1 e2 h2 Hp H1 H2.
  rewrite run_state_app, H1 in H2. rewrite forallb_app in Hp. apply andb_true_iff in Hp.
  eapply history_l; [apply Hp | exact H2].
Qed.

Lemma report_empty_l : forall h h' e,
  values_kept h h' -> Forall (fun v => value FUEL h v <> None) e -> changed h h' e = [].
Proof. intros. apply changed_nil; auto. Qed.

(* ---- private attributes only: the invariant behind the delattr refusal ---- *)
Lemma private_kept_l : forall vt W ops e h e' h',
  private_attrs h -> run_state vt W ops e h = (e', h') -> private_attrs h'.
Proof. intros. eapply run_state_priv; eauto. Qed.

Lemma delattr_public_l : forall o name h,
  private_attrs h -> setattr_allowed name = false -> py_delattr o name h = (h, RExc "AttributeError").
Proof. exact delattr_public. Qed.

Lemma history_d_l : forall W ops e h e' h',
  private_attrs h -> forallb public_op_d ops = true -> run_state as_written W ops e h = (e', h') ->
  unchanged_ns h h' /\ values_kept h h' /\ private_attrs h'.
Proof.
  intros W ops e h e' h' P Hp H.
  assert (K : kept h h') by (eapply run_state_kept_d; eauto; apply safe_as_written).
  split; [apply K|]. split; [apply unchanged_ns_values_l; apply K | eapply run_state_priv; eauto].
Qed.

Lemma history_from_scratch_l : forall W ops1 ops2 e1 h1 e2 h2,
  forallb public_op_d (ops1 ++ ops2) = true ->
  run_state as_written W ops1 [] [] = (e1, h1) -> run_state as_written W (ops1 ++ ops2) [] [] = (e2, h2) ->
  values_kept h1 h2.
Proof.
  intros W ops1 ops2 e1 h1 e2 h2 Hp H1 H2.
  rewrite run_state_app, H1 in H2. rewrite forallb_app in Hp. apply andb_true_iff in Hp.
  eapply history_d_l; [|apply Hp|exact H2]. eapply run_state_priv; [apply priv_nil|eauto].
Qed.

(* ---- the attribute guards ---- *)
Lemma world_names_ok : forallb (fun cs => forallb (fun pk => negb (setattr_allowed (fst pk))) (snd cs)) world_classes = true.
Proof. vm_compute. reflexivity. Qed.

Lemma world_names_refused_l : forall c sch name k,
  In (c, sch) (classes world_now) -> In (name, k) sch -> setattr_allowed name = false.
Proof.
  intros c sch name k Hc Hn. assert (H := world_names_ok).
  rewrite forallb_forall in H. specialize (H _ Hc). simpl in H.
  rewrite forallb_forall in H. specialize (H _ Hn). simpl in H.
  destruct (setattr_allowed name); auto; discriminate.
Qed.

Lemma delattr_constructed_l : forall W c kw h h' o name,
  private_attrs h -> run as_written W (QConstruct c kw) h = (h', RVal o) -> setattr_allowed name = false ->
  py_delattr o name h' = (h', RExc "AttributeError").
Proof.
  intros W c kw h h' o name P H Hn. apply delattr_public; auto. eapply run_priv; eauto.
Qed.

(* ---- the frame theorem is false when a defensive copy is missing ---- *)
Definition tiny_world : world :=
  {| classes := [(u "v21.File", [(u "extensions", KExt true)]); (u "v21.NTFSExt", [(u "sid", KAtom)]);
                 (u "v21.ObservedData", [(u "objects", KObs true)])];
     registry := [(u "2.1/extensions/ntfs-ext", u "v21.NTFSExt"); (u "2.1/observables/file", u "v21.File")];
     det_id := []; defaults := []; defn_classes := []; with_ext := []; observables := []; keep_in_bundle := [] |}.

Definition variant_ext (cm : copy_mode) : variant := {| cm_ext := cm; cm_obs := Deep; cm_pobs := Deep; cm_nv := Deep; cm_fac := Deep |}.
Definition with_pobs (cm : copy_mode) : variant := {| cm_ext := Deep; cm_obs := Deep; cm_pobs := cm; cm_nv := Deep; cm_fac := Deep |}.
Definition with_nv (cm : copy_mode) : variant := {| cm_ext := Deep; cm_obs := Deep; cm_pobs := Deep; cm_nv := cm; cm_fac := Deep |}.
Definition with_fac (cm : copy_mode) : variant := {| cm_ext := Deep; cm_obs := Deep; cm_pobs := Deep; cm_nv := Deep; cm_fac := cm |}.

(* caller: ext = {"ntfs-ext": {"sid": "x"}} *)
Definition heap_ext : heap := [NDict [(u "sid", VA (AStr (u "x")))]; NDict [(u "ntfs-ext", VR 0)]].

Lemma ext_nocopy_refuted_l :
  exists h', fst (run (variant_ext NoCopy) tiny_world (QClean (KExt true) (VR 1)) heap_ext) = h' /\ ~ unchanged heap_ext h'.
Proof.
  eexists. split; [reflexivity|]. intro U. specialize (U 1 _ eq_refl). vm_compute in U. discriminate.
Qed.

(* caller: obs = {"type": "file", "name": "a"} given to parse_observable *)
Definition heap_obs : heap := [NDict [(u "type", VA (AStr (u "file"))); (u "name", VA (AStr (u "a")))]].

Lemma pobs_nocopy_refuted_l :
  exists h', fst (run (with_pobs NoCopy) tiny_world (QParseObs (VR 0) (VA ANone) (Some true) true) heap_obs) = h' /\ ~ unchanged heap_obs h'.
Proof.
  eexists. split; [reflexivity|]. intro U. specialize (U 0 _ eq_refl). vm_compute in U. discriminate.
Qed.

(* caller: a dict object with versioning properties given to new_version *)
Definition heap_nv : heap := [NDict [(u "type", VA (AStr (u "x-thing"))); (u "created", VA (AStr (u "2020")));
                                     (u "modified", VA (AStr (u "2020")))]].

Lemma nv_nocopy_refuted_l :
  exists h', fst (new_version (with_nv NoCopy) tiny_world (VR 0) [(u "name", VA (AStr (u "n")))] heap_nv) = h' /\ ~ unchanged heap_nv h'.
Proof.
  eexists. split; [reflexivity|]. intro U. specialize (U 0 _ eq_refl). vm_compute in U. discriminate.
Qed.

(* a factory whose default external_references is a list; create(..., external_references=x)
   with a SHALLOW copy of the defaults appends to the factory's own list *)
Definition heap_fac : heap :=
  [ NList [VA (AStr (u "r1"))];
    NDict [(u "external_references", VR 0)];
    NObj (u "ObjectFactory") [(u "_defaults", VR 1); (u "_list_append", VA (ABool true))];
    NDict [(u "external_references", VA (AStr (u "r2")))] ].

Lemma fac_shallow_refuted_l :
  exists h', fst (factory_create (with_fac Shallow) tiny_world (VR 2) (u "v21.File") (VR 3) heap_fac) = h' /\ ~ unchanged heap_fac h'.
Proof.
  eexists. split; [reflexivity|]. intro U. specialize (U 0 _ eq_refl). vm_compute in U. discriminate.
Qed.

(* a custom type declared with extension_name=: its constructor writes the type's own extension
   into the STORED extensions dict -- the caller's, if ExtensionsProperty.clean does not copy *)
Definition custom_world : world :=
  {| classes := [(u "custom.T", [(u "name", KAtom); (u "extensions", KExt true)]); (u "custom.E", [])];
     registry := [(u "2.1/extensions/extension-definition--1", u "custom.E")];
     det_id := []; defaults := []; defn_classes := [];
     with_ext := [(u "custom.T", u "extension-definition--1")]; observables := []; keep_in_bundle := [] |}.

(* caller: ext = {} ; kw = {"name": "n", "extensions": ext} *)
Definition heap_custom : heap := [NDict []; NDict [(u "name", VA (AStr (u "n"))); (u "extensions", VR 0)]].

Lemma custom_nocopy_refuted_l :
  exists h', fst (run (variant_ext NoCopy) custom_world (QConstruct (u "custom.T") (VR 1)) heap_custom) = h' /\ ~ unchanged heap_custom h'.
Proof.
  eexists. split; [reflexivity|]. intro U. specialize (U 0 _ eq_refl). vm_compute in U. discriminate.
Qed.

Lemma custom_runs_l :
  exists h' o, run as_written custom_world (QConstruct (u "custom.T") (VR 1)) heap_custom = (h', RVal (VR o)) /\
               get h' 0 = Some (NDict []) /\ mapping_get h' (VR 3) (u "extension-definition--1") <> None.
Proof.
  eexists; eexists. split; [vm_compute; reflexivity|]. split; [vm_compute; reflexivity|].
  vm_compute. discriminate.
Qed.

(* ------------------------------------------------------------------ *)
(* success paths: the operations return a value (not RExc / RFuel) on concrete inputs
   AND the caller's containers are still what they were                              *)

Lemma extensions_clean_runs_l :
  exists h' c, run as_written tiny_world (QClean (KExt true) (VR 1)) heap_ext = (h', RVal c) /\ length h' = 6 /\
               get h' 0 = get heap_ext 0 /\ get h' 1 = get heap_ext 1.
Proof. eexists; eexists. split; [vm_compute; reflexivity|]. repeat split; vm_compute; reflexivity. Qed.

Lemma deepcopy_runs_l :
  exists h' c, deepcopy 5 (VR 1) heap_ext = (h', RVal c) /\ c = VR 3.
Proof. eexists; eexists; split; vm_compute; reflexivity. Qed.

Lemma new_version_runs_l :
  exists h' o, new_version as_written tiny_world (VR 0) [(u "name", VA (AStr (u "n")))] heap_nv = (h', RVal (VR o)) /\
               get h' 0 = get heap_nv 0 /\ mapping_get h' (VR o) (u "name") = Some (VA (AStr (u "n"))) /\
               mapping_get heap_nv (VR 0) (u "name") = None.
Proof. eexists; eexists. split; [vm_compute; reflexivity|]. repeat split; vm_compute; reflexivity. Qed.

Lemma parse_observable_runs_l :
  exists h' o, run as_written tiny_world (QParseObs (VR 0) (VA ANone) (Some true) true) heap_obs = (h', RVal (VR o)) /\
               get h' 0 = get heap_obs 0 /\ class_of h' (VR o) = Some (u "v21.File").
Proof. eexists; eexists. split; [vm_compute; reflexivity|]. split; vm_compute; reflexivity. Qed.

Lemma factory_create_runs_l :
  exists h' o, factory_create as_written tiny_world (VR 2) (u "v21.File") (VR 3) heap_fac = (h', RVal (VR o)) /\
               get h' 0 = get heap_fac 0 /\ get h' 1 = get heap_fac 1 /\ get h' 2 = get heap_fac 2 /\ get h' 3 = get heap_fac 3.
Proof. eexists; eexists. split; [vm_compute; reflexivity|]. repeat split; vm_compute; reflexivity. Qed.

(* a memory store (table at 1) and a caller's dict of an unregistered type (kept by reference, allow_custom) *)
Definition heap_store : heap :=
  [ NDict [(u "type", VA (AStr (u "x-thing"))); (u "id", VA (AStr (u "x-thing--1"))); (u "modified", VA (AStr (u "2020")))];
    NStore [];
    NObj (u "MemoryStore") [(u "_data", VR 1)] ].

Lemma store_add_runs_l :
  exists h', store_add as_written tiny_world FUEL 1 (VR 0) heap_store = (h', RVal (VA ANone)) /\
             get h' 0 = get heap_store 0 /\ get h' 2 = get heap_store 2 /\
             get h' 1 = Some (NStore [(u "x-thing--1", VR 0)]).
Proof. eexists. split; [vm_compute; reflexivity|]. repeat split; vm_compute; reflexivity. Qed.

(* granular add_markings on a caller's dict, with the caller's selector list *)
Definition heap_mark : heap :=
  [ NDict [(u "type", VA (AStr (u "x-thing"))); (u "created", VA (AStr (u "2020"))); (u "modified", VA (AStr (u "2020")));
           (u "name", VA (AStr (u "n")))];
    NList [VA (AStr (u "name"))] ].

Lemma granular_add_runs_l :
  exists h' o, granular_add as_written tiny_world (VR 0) (VA (AStr (u "marking-definition--1"))) (VR 1) heap_mark = (h', RVal (VR o)) /\
               get h' 0 = get heap_mark 0 /\ get h' 1 = get heap_mark 1 /\
               mapping_get h' (VR o) (u "granular_markings") <> None /\
               mapping_get heap_mark (VR 0) (u "granular_markings") = None.
Proof.
  eexists; eexists. split; [vm_compute; reflexivity|]. split; [vm_compute; reflexivity|].
  split; [vm_compute; reflexivity|]. split; [vm_compute; discriminate | vm_compute; reflexivity].
Qed.

(* a history from the empty heap in which every step returns a container *)
Definition demo_ops : list opcall :=
  [ OMk (XD [(u "type", XA (AStr (u "x-thing"))); (u "created", XA (AStr (u "2020"))); (u "modified", XA (AStr (u "2020")));
             (u "labels", XL [XA (AStr (u "a"))])]);
    ONewVersion 0 None; ODeepcopy 1; OCopy 0; OApi AGet 0 None None ].

Lemma history_runs_l :
  exists e' h', run_state as_written tiny_world demo_ops [] [] = (e', h') /\ length e' = 5 /\
                forallb (fun v => match v with VR _ => true | VA _ => false end) e' = true /\
                forallb public_op_d demo_ops = true.
Proof. eexists; eexists. split; [vm_compute; reflexivity|]. repeat split; vm_compute; reflexivity. Qed.

(* Proofs/PatternEqRules.v -- commutativity, associativity and idempotence are
   recognised by the WHOLE comparison-level pipeline, for arbitrary operands.
   One round of flatten / order / absorb maps the two sides to
   comparator-equal expressions (PatternEqSort: sort-and-dedupe is canonical
   for the set of operands), a settle loop may be entered one round later
   (settle x and settle (round x) agree), and everything after respects
   comparator-equality (PatternEqCong).                                    *)
From Coq Require Import NArith ZArith List Bool Permutation Lia Arith String Sorted.
From V Require Import Base.UString Model.PatternEq Proofs.PatternEqCmp Proofs.PatternEqLists Proofs.PatternEqSort
     Proofs.PatternEqDnf Proofs.PatternEqTerm Proofs.PatternEqCong.
Import ListNotations.
Local Open Scope nat_scope.
Local Open Scope list_scope.

Lemma F2_length_eq : forall {A B} (R : A -> B -> Prop) l1 l2, Forall2 R l1 l2 -> List.length l1 = List.length l2.
Proof. induction 1; simpl; congruence. Qed.

Lemma map_const_sum : forall {A} (l : list A), list_sum (map (fun _ => 1) l) = List.length l.
Proof. induction l; simpl; congruence. Qed.

(* ------------------------------------------------------------------ *)
(* a pass that reports no change changes nothing                       *)

Lemma sorted_respects : forall {A} (cmp : A -> A -> comparison), lawful cmp ->
    forall l s, Forall2 (ceq cmp) l s -> Sorted (ngt cmp) s -> Sorted (ngt cmp) l.
Proof.
  intros A cmp L l s HF. induction HF as [|x y l s Hxy HF IH]; intro Hs; [constructor|].
  inversion Hs as [|? ? Hs' Hd]; subst. constructor; [apply IH; exact Hs'|].
  destruct HF as [|x' y' l s Hxy' _]; constructor. inversion Hd as [|? ? Hyy]; subst. unfold ngt in *.
  rewrite (cmp_respects cmp L x y x' y' Hxy Hxy'). exact Hyy.
Qed.

Lemma sortdedupe_eq_id : forall {A} (cmp : A -> A -> comparison), lawful cmp ->
    forall l, Forall2 (ceq cmp) l (dedupe cmp (isort cmp l)) -> dedupe cmp (isort cmp l) = l.
Proof.
  intros A cmp L l HF.
  assert (Hlen : List.length (dedupe cmp (isort cmp l)) = List.length (isort cmp l)).
  { rewrite <- (F2_length_eq _ _ _ HF). symmetry. apply Permutation_length, isort_perm. }
  assert (Hd : dedupe cmp (isort cmp l) = isort cmp l).
  { destruct (dedupe_lsum cmp (fun _ => 1) (isort cmp l) (fun _ => le_n 1)) as [_ I2]. apply I2.
    unfold lsum. rewrite !map_const_sum. exact Hlen. }
  rewrite Hd in *. apply (sorted_isort_id cmp). apply (sorted_respects cmp L l (isort cmp l) HF). apply (isort_sorted cmp L).
Qed.

Lemma corder_false_id : forall e, snd (corder e) = false -> fst (corder e) = e.
Proof.
  assert (Hn : forall o l, Forall (fun e => snd (corder e) = false -> fst (corder e) = e) l ->
                           snd (corder (mkb o l)) = false -> fst (corder (mkb o l)) = mkb o l).
  { intros o l IH Hf. rewrite corder_unfold in *. cbn [fst snd] in *. apply orb_false_iff in Hf. destruct Hf as [Hc Hnode].
    assert (El : map fst (map corder l) = l).
    { rewrite map_map. apply map_id_on. clear Hnode. induction IH as [|c l Hcx _ IHl]; [constructor|].
      simpl in Hc. apply orb_false_iff in Hc. destruct Hc as [H1 H2]. constructor; [apply Hcx; exact H1 | apply IHl; exact H2]. }
    rewrite El in *. unfold corder_node in *. cbn [fst snd] in *. apply negb_false_iff in Hnode. apply is_eq_true in Hnode.
    apply lex_eq_Forall2 in Hnode. rewrite (sortdedupe_eq_id ccmp ccmp_lawful l Hnode). reflexivity. }
  induction e using cexpr_ind'; intro Hf; [reflexivity | apply (Hn BAnd l H Hf) | apply (Hn BOr l H Hf)].
Qed.

Lemma csimplify_false_id : forall e, snd (csimplify e) = false -> fst (csimplify e) = e.
Proof.
  intros e Hf. unfold csimplify in *.
  destruct (cflatten_shrinks e) as [_ [_ F3]]. destruct (cflatten e) as [e1 c1]. cbn [fst snd] in *.
  pose proof (corder_false_id e1) as O3. destruct (corder e1) as [e2 c2]. cbn [fst snd] in *.
  destruct (cabsorb_shrinks e2) as [_ [_ A3]]. destruct (cabsorb e2) as [e3 c3]. cbn [fst snd] in *.
  apply orb_false_iff in Hf. destruct Hf as [Hf H3]. apply orb_false_iff in Hf. destruct Hf as [H1 H2].
  rewrite (A3 H3), (O3 H2), (F3 H1). reflexivity.
Qed.

(* ------------------------------------------------------------------ *)
(* normal forms of a settle loop, independent of fuel and flag         *)

Section SettleRounds.
  Context {A : Type} (g : A -> A * bool).
  Hypothesis g_false_id : forall a, snd (g a) = false -> fst (g a) = a.

  Definition snf (a y : A) : Prop := exists fuel ch0 ch, settle_loop fuel (fun x => Ok (g x)) a ch0 = Ok (y, ch).

  Lemma settle_loop_flag : forall fuel a ch1 ch2 y c,
      settle_loop fuel (fun x => Ok (g x)) a ch1 = Ok (y, c) -> exists c', settle_loop fuel (fun x => Ok (g x)) a ch2 = Ok (y, c').
  Proof.
    induction fuel as [|n IH]; intros a ch1 ch2 y c E; [discriminate|].
    rewrite settle_loop_S in *. destruct (g a) as [a1 c1]. destruct c1; [apply (IH a1 true true y c E)|].
    inversion E; subst. eexists; reflexivity.
  Qed.

  Lemma snf_det : forall a y y', snf a y -> snf a y' -> y = y'.
  Proof.
    intros a y y' [f1 [c1 [d1 E1]]] [f2 [c2 [d2 E2]]].
    destruct (settle_loop_flag f2 a c2 c1 y' d2 E2) as [d2' E2'].
    pose proof (settle_loop_more _ f1 a c1 _ f2 E1) as M1. pose proof (settle_loop_more _ f2 a c1 _ f1 E2') as M2.
    rewrite Nat.add_comm in M2. rewrite M1 in M2. inversion M2. reflexivity.
  Qed.

  (* entering the loop one round later *)
  Lemma snf_round : forall a y, snf a y <-> snf (fst (g a)) y.
  Proof.
    intros a y. split.
    - intros [fuel [c0 [c E]]]. destruct fuel as [|n]; [discriminate|]. rewrite settle_loop_S in E.
      destruct (g a) as [a1 c1] eqn:Eg. cbn [fst]. destruct c1.
      + exists n, true, c. exact E.
      + inversion E; subst. pose proof (g_false_id a) as Hid. rewrite Eg in Hid. cbn [fst snd] in Hid.
        pose proof (Hid eq_refl) as Hya. subst y.
        exists 1, false, false. rewrite settle_loop_S, Eg. reflexivity.
    - intros [fuel [c0 [c E]]]. destruct (g a) as [a1 c1] eqn:Eg. cbn [fst] in E. destruct c1.
      + exists (S fuel), false. destruct (settle_loop_flag fuel a1 c0 true y c E) as [c' E'].
        exists c'. rewrite settle_loop_S, Eg. exact E'.
      + pose proof (g_false_id a) as Hid. rewrite Eg in Hid. cbn [fst snd] in Hid. rewrite (Hid eq_refl) in E.
        exists fuel, c0, c. exact E.
  Qed.
End SettleRounds.

Definition cnf := snf csimplify.

Lemma cnf_of_csettle : forall fuel e y ch, csettle fuel e = Ok (y, ch) -> cnf e y.
Proof. intros fuel e y ch E. exists fuel, false, ch. exact E. Qed.

Lemma cnf_cong : forall a b y, ceqc a b -> cnf a y -> forall y', cnf b y' -> ceqc y y'.
Proof.
  intros a b y Hab [f1 [c1 [d1 E1]]] y' Hb.
  pose proof (settle_loop_cong ceqc csimplify csimplify_cong f1 a b c1 Hab) as Hr. rewrite E1 in Hr.
  destruct (settle_loop f1 (fun x => Ok (csimplify x)) b c1) as [[y2 d2]|x] eqn:E2; simpl in Hr; [|contradiction].
  destruct Hr as [Hy _]. assert (Hb2 : cnf b y2) by (exists f1, c1, d2; exact E2).
  rewrite (snf_det csimplify b y' y2 Hb Hb2). exact Hy.
Qed.

(* if one round (or two) brings the two sides to comparator-equal expressions, the settle loops end comparator-equal *)
Lemma csettle_by_round : forall X X' f1 f2 y y' c c',
    ceqc (fst (csimplify X)) (fst (csimplify X')) ->
    csettle f1 X = Ok (y, c) -> csettle f2 X' = Ok (y', c') -> ceqc y y'.
Proof.
  intros X X' f1 f2 y y' c c' Hr E1 E2.
  apply (cnf_cong (fst (csimplify X)) (fst (csimplify X')) y Hr).
  - apply (proj1 (snf_round csimplify csimplify_false_id X y)). apply (cnf_of_csettle _ _ _ _ E1).
  - apply (proj1 (snf_round csimplify csimplify_false_id X' y')). apply (cnf_of_csettle _ _ _ _ E2).
Qed.

Lemma csettle_by_rounds2 : forall X X' f1 f2 y y' c c',
    ceqc (fst (csimplify (fst (csimplify X)))) (fst (csimplify (fst (csimplify X')))) ->
    csettle f1 X = Ok (y, c) -> csettle f2 X' = Ok (y', c') -> ceqc y y'.
Proof.
  intros X X' f1 f2 y y' c c' Hr E1 E2.
  apply (cnf_cong _ _ y Hr).
  - apply (proj1 (snf_round csimplify csimplify_false_id _ y)). apply (proj1 (snf_round csimplify csimplify_false_id X y)). apply (cnf_of_csettle _ _ _ _ E1).
  - apply (proj1 (snf_round csimplify csimplify_false_id _ y')). apply (proj1 (snf_round csimplify csimplify_false_id X' y')). apply (cnf_of_csettle _ _ _ _ E2).
Qed.

(* and then the rest of the pipeline *)
Lemma ccore_after_settle : forall fuel X X' n n' c c',
    (forall y y' d d', csettle fuel X = Ok (y, d) -> csettle fuel X' = Ok (y', d') -> ceqc y y') ->
    ccore fuel X = Ok (n, c) -> ccore fuel X' = Ok (n', c') -> ceqc n n'.
Proof.
  intros fuel X X' n n' c c' Hs E1 E2. unfold ccore in *.
  apply bind_ok in E1. destruct E1 as [[y d] [S1 E1]]. apply bind_ok in E2. destruct E2 as [[y' d'] [S2 E2]].
  pose proof (Hs y y' d d' S1 S2) as Hy.
  apply bind_ok in E1. destruct E1 as [[z dz] [D1 E1]]. apply bind_ok in E2. destruct E2 as [[z' dz'] [D2 E2]].
  pose proof (cdnf_cong fuel y y' Hy) as Hd. rewrite D1, D2 in Hd. destruct Hd as [Hz _].
  apply bind_ok in E1. destruct E1 as [[w dw] [T1 E1]]. apply bind_ok in E2. destruct E2 as [[w' dw'] [T2 E2]].
  pose proof (csettle_cong fuel z z' Hz) as Ht. rewrite T1, T2 in Ht. destruct Ht as [Hw _].
  inversion E1; inversion E2; subst. exact Hw.
Qed.

(* ------------------------------------------------------------------ *)
(* what one round does to a node                                       *)

Definition gfl (o : bop) (x : cexpr) : list cexpr := match ops_of o x with Some xs => xs | None => [x] end.
Definition fc (l : list cexpr) : list cexpr := map (fun e => fst (cflatten e)) l.
Definition oc (l : list cexpr) : list cexpr := map (fun e => fst (corder e)) l.

Lemma cflatten_ops_flat : forall o l, fst (cflatten_ops o l) = flat_map (gfl o) l.
Proof.
  induction l as [|x l IH]; [reflexivity|]. cbn [cflatten_ops]. destruct (cflatten_ops o l) as [r ch]. cbn [fst] in IH.
  simpl. unfold gfl at 1. destruct (ops_of o x); cbn [fst]; rewrite IH; reflexivity.
Qed.

Definition collapse (o : bop) (k : list cexpr) : cexpr := match k with [x] => x | k' => mkb o (flat_map (gfl o) k') end.

Lemma collapse_big : forall o k, List.length k <> 1 -> collapse o k = mkb o (flat_map (gfl o) k).
Proof. intros o [|a [|b r]] Hk; try reflexivity. contradiction Hk; reflexivity. Qed.

Lemma cflatten_mkb : forall o l, fst (cflatten (mkb o l)) = collapse o (fc l).
Proof.
  intros o l. rewrite cflatten_unfold. cbn [fst]. unfold collapse, fc. rewrite map_map. unfold cflatten_node.
  destruct (map (fun x => fst (cflatten x)) l) as [|x [|x' r]] eqn:El.
  - reflexivity.
  - reflexivity.
  - rewrite <- cflatten_ops_flat. destruct (cflatten_ops o (x :: x' :: r)); reflexivity.
Qed.

Lemma corder_mkb : forall o m, fst (corder (mkb o m)) = mkb o (dedupe ccmp (isort ccmp (oc m))).
Proof. intros o m. rewrite corder_unfold. cbn [fst]. unfold corder_node, oc. cbn [fst]. rewrite map_map. reflexivity. Qed.

Lemma csimplify_fst : forall e, fst (csimplify e) = fst (cabsorb (fst (corder (fst (cflatten e))))).
Proof.
  intro e. unfold csimplify. destruct (cflatten e) as [e1 c1]. cbn [fst]. destruct (corder e1) as [e2 c2]. cbn [fst].
  destruct (cabsorb e2) as [e3 c3]. reflexivity.
Qed.

Lemma incl_flat_map : forall {A B} (f : A -> list B) l l', incl l l' -> incl (flat_map f l) (flat_map f l').
Proof.
  intros A B f l l' Hi y Hy. apply in_flat_map in Hy. destruct Hy as [x [Hx Hy]]. apply in_flat_map. exists x. split; [apply Hi; exact Hx | exact Hy].
Qed.

(* same SET of operands (any order, any multiplicity), not a single operand: one round makes them comparator-equal *)
Lemma round_seteq : forall o l l', incl l l' -> incl l' l -> List.length l <> 1 -> List.length l' <> 1 ->
                                   ceqc (fst (csimplify (mkb o l))) (fst (csimplify (mkb o l'))).
Proof.
  intros o l l' H1 H2 N1 N2. rewrite !csimplify_fst.
  assert (Ef : forall k, List.length k <> 1 -> fst (cflatten (mkb o k)) = mkb o (flat_map (gfl o) (fc k))).
  { intros k Nk. rewrite cflatten_mkb. apply collapse_big. unfold fc. rewrite map_length. exact Nk. }
  rewrite (Ef l N1), (Ef l' N2), !corder_mkb.
  refine (proj1 (cabsorb_cong _ _ _)). apply ceqc_mkb.
  apply (sortdedupe_set ccmp ccmp_lawful); apply (covers_incl ccmp ccmp_lawful); unfold oc, fc;
    apply incl_map; apply incl_flat_map; apply incl_map; assumption.
Qed.

(* A op (B op C) and (A op B) op C: flatten alone makes them identical *)
Lemma flat_map_gfl_single : forall o x, flat_map (gfl o) [x] = gfl o x.
Proof. intros. simpl. apply app_nil_r. Qed.

Lemma gfl_mkb : forall o m, gfl o (mkb o m) = m.
Proof. intros o m. unfold gfl. destruct o; reflexivity. Qed.

Lemma cflatten_assoc : forall o l1 l2 l3, l2 <> [] ->
    fst (cflatten (mkb o (l1 ++ mkb o l2 :: l3))) = fst (cflatten (mkb o (l1 ++ l2 ++ l3))).
Proof.
  intros o l1 l2 l3 Hne.
  rewrite (cflatten_mkb o (l1 ++ mkb o l2 :: l3)), (cflatten_mkb o (l1 ++ l2 ++ l3)).
  unfold fc. rewrite !map_app. cbn [map]. fold (fc l1) (fc l2) (fc l3).
  pose proof (cflatten_mkb o l2) as HI.
  remember (fc l1) as A eqn:EA. remember (fc l2) as B eqn:EB. remember (fc l3) as C eqn:EC.
  remember (fst (cflatten (mkb o l2))) as I eqn:EI. clear EA EC EI.
  assert (HB : B <> []) by (subst B; unfold fc; destruct l2; [contradiction Hne; reflexivity | discriminate]). clear EB.
  assert (HgI : gfl o I = flat_map (gfl o) B).
  { rewrite HI. unfold collapse. destruct B as [|x [|x' r]]; [contradiction HB; reflexivity | symmetry; apply flat_map_gfl_single | apply gfl_mkb]. }
  assert (Hflat : flat_map (gfl o) (A ++ I :: C) = flat_map (gfl o) (A ++ B ++ C)).
  { rewrite !flat_map_app. simpl. rewrite HgI. reflexivity. }
  assert (HBl : 1 <= List.length B) by (destruct B; [contradiction HB; reflexivity | simpl; lia]).
  destruct (Nat.eq_dec (List.length A + List.length C) 0) as [Hz|Hnz].
  - assert (A = []) by (destruct A; [reflexivity | simpl in Hz; lia]). assert (C = []) by (destruct C; [reflexivity | simpl in Hz; lia]).
    subst A C. cbn [app]. rewrite ?app_nil_r. exact HI.
  - rewrite (collapse_big o (A ++ I :: C)) by (rewrite app_length; simpl; lia).
    rewrite (collapse_big o (A ++ B ++ C)) by (rewrite !app_length; lia).
    rewrite Hflat. reflexivity.
Qed.

Lemma round_assoc : forall o l1 l2 l3, l2 <> [] ->
    fst (csimplify (mkb o (l1 ++ mkb o l2 :: l3))) = fst (csimplify (mkb o (l1 ++ l2 ++ l3))).
Proof. intros o l1 l2 l3 Hne. rewrite !csimplify_fst, (cflatten_assoc o l1 l2 l3 Hne). reflexivity. Qed.

(* A op A = A: two rounds *)
Lemma rounds_idem : forall o a,
    ceqc (fst (csimplify (fst (csimplify (mkb o [a; a]))))) (fst (csimplify (fst (csimplify a)))).
Proof.
  intros o a. set (a1 := fst (cflatten a)).
  assert (E1 : fst (cflatten (mkb o [a; a])) = mkb o (gfl o a1 ++ gfl o a1 ++ [])).
  { rewrite cflatten_mkb. reflexivity. }
  destruct (ops_of o a1) as [m|] eqn:Eo.
  - (* A is itself an o-node after flattening: its operands twice *)
    assert (Ea1 : a1 = mkb o m) by (destruct o, a1; simpl in Eo; inversion Eo; reflexivity).
    refine (proj1 (csimplify_cong _ _ _)).
    rewrite (csimplify_fst (mkb o [a; a])), (csimplify_fst a), E1. fold a1. unfold gfl. rewrite Eo, Ea1, !corder_mkb.
    refine (proj1 (cabsorb_cong _ _ _)). apply ceqc_mkb.
    apply (sortdedupe_set ccmp ccmp_lawful); apply (covers_incl ccmp ccmp_lawful); unfold oc; apply incl_map.
    + intros x Hx. rewrite app_nil_r in Hx. apply in_app_or in Hx. tauto.
    + intros x Hx. apply in_or_app. left. exact Hx.
  - (* otherwise the first round leaves the one-operand node o[A'], which the second round collapses *)
    set (a2 := fst (corder a1)). set (a3 := fst (cabsorb a2)).
    assert (R1 : fst (csimplify (mkb o [a; a])) = mkb o [a3]).
    { rewrite csimplify_fst, E1. unfold gfl. rewrite Eo. cbn [app]. rewrite corder_mkb. unfold oc. cbn [map]. fold a2.
      assert (Es : dedupe ccmp (isort ccmp [a2; a2]) = [a2]).
      { unfold isort. simpl. rewrite (ccmp_refl a2). simpl. rewrite (ccmp_refl a2). reflexivity. }
      rewrite Es. rewrite cabsorb_unfold. cbn [fst map]. fold a3. destruct o; reflexivity. }
    assert (R2 : fst (csimplify a) = a3).
    { rewrite csimplify_fst. reflexivity. }
    rewrite R1, R2. rewrite (csimplify_fst (mkb o [a3])), cflatten_mkb. cbn [fc map collapse]. rewrite <- csimplify_fst. apply ceqc_refl.
Qed.

(* ------------------------------------------------------------------ *)
(* the comparison-level pipeline                                       *)

Theorem ccore_seteq : forall fuel o l l' n n' c c',
    incl l l' -> incl l' l -> List.length l <> 1 -> List.length l' <> 1 ->
    ccore fuel (mkb o l) = Ok (n, c) -> ccore fuel (mkb o l') = Ok (n', c') -> ceqc n n'.
Proof.
  intros fuel o l l' n n' c c' H1 H2 N1 N2. apply ccore_after_settle.
  intros y y' d d'. apply csettle_by_round. apply round_seteq; assumption.
Qed.

Theorem ccore_assoc : forall fuel o l1 l2 l3 n n' c c', l2 <> [] ->
    ccore fuel (mkb o (l1 ++ mkb o l2 :: l3)) = Ok (n, c) -> ccore fuel (mkb o (l1 ++ l2 ++ l3)) = Ok (n', c') -> ceqc n n'.
Proof.
  intros fuel o l1 l2 l3 n n' c c' Hne. apply ccore_after_settle.
  intros y y' d d'. apply csettle_by_round. rewrite (round_assoc o l1 l2 l3 Hne). apply ceqc_refl.
Qed.

Theorem ccore_idem : forall fuel o a n n' c c',
    ccore fuel (mkb o [a; a]) = Ok (n, c) -> ccore fuel a = Ok (n', c') -> ceqc n n'.
Proof.
  intros fuel o a n n' c c'. apply ccore_after_settle.
  intros y y' d d'. apply csettle_by_rounds2. apply rounds_idem.
Qed.

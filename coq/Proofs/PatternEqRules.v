(* Proofs/PatternEqRules.v -- commutativity, associativity and idempotence are
   recognised by the WHOLE comparison-level pipeline, for arbitrary operands.
   One round of flatten / order / absorb maps the two sides to
   comparator-equal expressions (PatternEqSort: sort-and-dedupe is canonical
   for the set of operands), a settle loop may be entered one round later
   (settle x and settle (round x) agree), and everything after respects
   comparator-equality (PatternEqCong).                                    *)
From Coq Require Import NArith ZArith List Bool Permutation Lia Arith String Sorted.
From V Require Import Base.UString Model.PatternEq Proofs.PatternEqCmp Proofs.PatternEqLists Proofs.PatternEqSort
     Proofs.PatternEqDnf Proofs.PatternEqTerm Proofs.PatternEqCong.
Import ListNotations.
Local Open Scope nat_scope.
Local Open Scope list_scope.

Lemma F2_length_eq : forall {A B} (R : A -> B -> Prop) l1 l2, Forall2 R l1 l2 -> List.length l1 = List.length l2.
Proof. induction 1; simpl; congruence. Qed.

Lemma map_const_sum : forall {A} (l : list A), list_sum (map (fun _ => 1) l) = List.length l.
Proof. induction l; simpl; congruence. Qed.

(* ------------------------------------------------------------------ *)
(* a pass that reports no change changes nothing                       *)

Lemma sorted_respects : forall {A} (cmp : A -> A -> comparison), lawful cmp ->
    forall l s, Forall2 (ceq cmp) l s -> Sorted (ngt cmp) s -> Sorted (ngt cmp) l.
Proof.
  intros A cmp L l s HF. induction HF as [|x y l s Hxy HF IH]; intro Hs; [constructor|].
  inversion Hs as [|? ? Hs' Hd]; subst. constructor; [apply IH; exact Hs'|].
  destruct HF as [|x' y' l s Hxy' _]; constructor. inversion Hd as [|? ? Hyy]; subst. unfold ngt in *.
  rewrite (cmp_respects cmp L x y x' y' Hxy Hxy'). exact Hyy.
Qed.

Lemma sortdedupe_eq_id : forall {A} (cmp : A -> A -> comparison), lawful cmp ->
    forall l, Forall2 (ceq cmp) l (dedupe cmp (isort cmp l)) -> dedupe cmp (isort cmp l) = l.
Proof.
  intros A cmp L l HF.
  assert (Hlen : List.length (dedupe cmp (isort cmp l)) = List.length (isort cmp l)).
  { rewrite <- (F2_length_eq _ _ _ HF). symmetry. apply Permutation_length, isort_perm. }
  assert (Hd : dedupe cmp (isort cmp l) = isort cmp l).
  { destruct (dedupe_lsum cmp (fun _ => 1) (isort cmp l) (fun _ => le_n 1)) as [_ I2]. apply I2.
    unfold lsum. rewrite !map_const_sum. exact Hlen. }
  rewrite Hd in *. apply (sorted_isort_id cmp). apply (sorted_respects cmp L l (isort cmp l) HF). apply (isort_sorted cmp L).
Qed.

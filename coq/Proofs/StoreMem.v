(* Proofs/StoreMem.v -- the memory store refines the plain list, by induction
   over every history of additions (property C11).                           *)
From Coq Require Import NArith ZArith List Bool Lia Permutation.
From V Require Import Base.UString Model.Store Model.StoreRun Spec.StoreSpec Proofs.StoreBase.
Import ListNotations.
Open Scope list_scope.

(* ---------- the list side ---------- *)
Lemma versions_app : forall id L1 L2, versions id (L1 ++ L2) = versions id L1 ++ versions id L2.
Proof. intros. unfold versions. apply filter_app. Qed.

Lemma versions_In : forall id L o, In o (versions id L) <-> In o L /\ oid o = id.
Proof.
  intros. unfold versions. rewrite filter_In. unfold has_id. rewrite s_eqb_eq. tauto.
Qed.

Lemma versions_one_same : forall o, versions (oid o) [o] = [o].
Proof. intros. unfold versions, has_id. simpl. rewrite s_eqb_refl. reflexivity. Qed.

Lemma versions_one_other : forall id o, oid o <> id -> versions id [o] = [].
Proof. intros. unfold versions, has_id. simpl. apply s_eqb_neq in H. rewrite H. reflexivity. Qed.

Lemma v_ge_refl : forall k, ok_v k -> v_ge k k.
Proof. destruct k; simpl; intros; try contradiction; auto. lia. Qed.

Lemma all_hold_nil : forall o, all_hold [] o = true.
Proof. reflexivity. Qed.

Lemma filter_true : forall {A} (l : list A), filter (fun _ => true) l = l.
Proof. induction l; simpl; congruence. Qed.

Lemma filter_all_hold_nil : forall l, filter (all_hold []) l = l.
Proof. intros. apply filter_true. Qed.

Lemma uniform_app_l : forall L1 L2, uniform (L1 ++ L2) -> uniform L1.
Proof. unfold uniform. intros L1 L2 U o o' H1 H2. apply U; apply in_or_app; auto. Qed.

Section Mem.
  Variable mode : text_mode.
  Variable iot : ustring -> option Z.

  Notation nrm := (norm_obj mode iot).
  Notation add1 := (mem_add1 mode iot).
  Notation run := (mem_run mode iot).

  Lemma norm_v_ok : forall k, ok_v k -> norm_v mode iot k = k.
  Proof. destruct k; simpl; intros; try contradiction; destruct mode; reflexivity. Qed.

  Lemma nrm_normal : forall o, normal o -> ok_v (ocre o) \/ True -> omod (nrm o) = omod o.
  Proof. intros o H _. simpl. apply norm_v_ok. exact H. Qed.

  Lemma norm_v_idem : forall k, norm_v mode iot (norm_v mode iot k) = norm_v mode iot k.
  Proof.
    destruct k; destruct mode; simpl; auto.
    destruct (iot s) eqn:E; simpl; auto. rewrite E. reflexivity.
  Qed.

  Lemma nrm_idem : forall o, nrm (nrm o) = nrm o.
  Proof. intros. unfold norm_obj. simpl. rewrite !norm_v_idem. reflexivity. Qed.

  Lemma add1_nrm : forall o m, add1 (nrm o) m = add1 o m.
  Proof. intros. unfold mem_add1. rewrite nrm_idem. reflexivity. Qed.

  Lemma run_snoc : forall L o, run (L ++ [o]) = fst (add1 o (run L)).
  Proof. intros. unfold mem_run. rewrite fold_left_app. reflexivity. Qed.

  Lemma run_map_nrm : forall L, run (map nrm L) = run L.
  Proof.
    intros L. unfold mem_run. generalize (@nil (ustring * entry)).
    induction L as [|o r IH]; intros m; simpl; auto.
    unfold madd at 2 4. rewrite add1_nrm. apply IH.
  Qed.

  (* ---------- invariant ---------- *)
  Definition fam_ok (vl : list obj) (vs : list (vkey * obj)) (lat : option obj) : Prop :=
    NoDup (map fst vs) /\
    (forall k o, In (k, o) vs -> k = omod o /\ In o vl) /\
    (forall o, In o vl -> exists o', In (omod o, o') vs) /\
    (exists l, lat = Some l /\ In l vl /\ forall o, In o vl -> v_ge (omod l) (omod o)).

  Definition entry_ok (vl : list obj) (e : option entry) : Prop :=
    match e with
    | None => vl = []
    | Some (EOne o) => In o vl /\ forall o', In o' vl -> omod o' = VNone
    | Some (EFam vs lat) => (forall o', In o' vl -> exists t, omod o' = VInst t) /\ fam_ok vl vs lat
    end.

  Definition MemInv (L : list obj) (m : mem) : Prop :=
    NoDup (map fst m) /\ forall id, entry_ok (versions id L) (dict_get ustr_eqb m id).

  (* every stored object is an added one *)
  Definition nrm_id : forall o, normal o -> forall m, add1 o m =
    (if is_vnone (omod o) then (dict_set ustr_eqb m (oid o) (EOne (nrm o)), None)
     else match dict_get ustr_eqb m (oid o) with
          | Some (EOne _) => (m, Some EKind)
          | Some (EFam vs lat) => let (e, r) := fam_add vs lat (nrm o) in (dict_set ustr_eqb m (oid o) e, r)
          | None => let (e, r) := fam_add [] None (nrm o) in (dict_set ustr_eqb m (oid o) e, r)
          end).
  Proof.
    intros o N m. unfold mem_add1. cbn [omod oid norm_obj]. rewrite (norm_v_ok _ N). reflexivity.
  Qed.

  (* objects whose created is also an instant or absent are left as they are *)
  Definition clean (o : obj) : Prop := ok_v (omod o) /\ ok_v (ocre o).

  Lemma nrm_clean : forall o, clean o -> nrm o = o.
  Proof. intros o [H1 H2]. destruct o. unfold norm_obj. simpl in *. rewrite !norm_v_ok; auto. Qed.

  Lemma fam_add_step : forall vl vs lat o t,
    omod o = VInst t ->
    (forall o', In o' vl -> exists t', omod o' = VInst t') ->
    fam_ok vl vs lat ->
    exists vs' lat', fam_add vs lat o = (EFam vs' lat', None) /\ fam_ok (vl ++ [o]) vs' lat'.
  Proof.
    intros vl vs lat o t Ho Hinst [ND [Hs [Hc [l [Hl [Hin Hmax]]]]]].
    unfold fam_add. subst lat.
    destruct (Hinst l Hin) as [tl Htl]. rewrite Ho, Htl. cbn [vgt].
    set (vs1 := dict_set vkey_eqb vs (VInst t) o).
    assert (NoDup (map fst vs1) /\
            (forall k o0, In (k, o0) vs1 -> k = omod o0 /\ In o0 (vl ++ [o])) /\
            (forall o0, In o0 (vl ++ [o]) -> exists o', In (omod o0, o') vs1)) as [P1 [P2 P3]].
    { unfold vs1. split; [|split].
      - apply dict_set_NoDup; auto. apply vkey_eqb_eq.
      - intros k o0 H. apply In_dict_set in H; auto; try apply vkey_eqb_eq.
        destruct H as [[H1 H2]|[H1 H2]]; subst.
        + split; auto. apply in_or_app. right. simpl. auto.
        + apply Hs in H2. destruct H2. split; auto. apply in_or_app. auto.
      - intros o1 H1. apply in_app_or in H1.
        destruct (vkey_dec (omod o1) (VInst t)) as [E1|N1].
        + rewrite E1. exists o. apply In_dict_set_same. apply vkey_eqb_eq.
        + destruct H1 as [H1|[H1|[]]].
          * destruct (Hc _ H1) as [o' Ho']. exists o'. apply In_dict_set_other; auto. apply vkey_eqb_eq.
          * subst o1. congruence. }
    destruct (Z.ltb tl t) eqn:Elt.
    - exists vs1, (Some o). split; [reflexivity|]. split; [|split; [|split]]; auto.
      exists o. split; auto. split; [apply in_or_app; right; simpl; auto|].
      intros o1 H1. apply in_app_or in H1. destruct H1 as [H1|[H1|[]]].
      + specialize (Hmax _ H1). destruct (Hinst _ H1) as [t1 Ht1]. rewrite Ho, Ht1. rewrite Htl, Ht1 in Hmax.
        simpl in *. apply Z.ltb_lt in Elt. lia.
      + subst o1. rewrite Ho. simpl. lia.
    - exists vs1, (Some l). split; [reflexivity|]. split; [|split; [|split]]; auto.
      exists l. split; auto. split; [apply in_or_app; auto|].
      intros o1 H1. apply in_app_or in H1. destruct H1 as [H1|[H1|[]]]; auto.
      subst o1. rewrite Ho, Htl. simpl. apply Z.ltb_ge in Elt. lia.
  Qed.

  Lemma fam_add_first : forall o t, omod o = VInst t ->
    fam_add [] None o = (EFam [(omod o, o)] (Some o), None) /\ fam_ok [o] [(omod o, o)] (Some o).
  Proof.
    intros o t Ho. split; [reflexivity|].
    repeat split; simpl.
    - constructor; [intros []|constructor].
    - destruct H as [H|[]]. inversion H; auto.
    - destruct H as [H|[]]. inversion H; auto.
    - intros o1 [H|[]]. subst. eauto.
    - exists o. split; auto. split; auto. intros o1 [H|[]]. subst. rewrite Ho. simpl. lia.
  Qed.

  Lemma entry_ok_other : forall id L o e, oid o <> id ->
    entry_ok (versions id L) e -> entry_ok (versions id (L ++ [o])) e.
  Proof.
    intros. rewrite versions_app, versions_one_other, app_nil_r; auto.
  Qed.

  (* one addition: never an exception on the theorem's domain, and the invariant is kept *)
  Lemma add1_step : forall L m o,
    MemInv L m -> clean o -> uniform (L ++ [o]) ->
    exists m', add1 o m = (m', None) /\ MemInv (L ++ [o]) m'.
  Proof.
    intros L m o [ND Inv] Cl U.
    assert (normal o) as No by (destruct Cl; auto).
    rewrite (nrm_id _ No). rewrite (nrm_clean _ Cl).
    assert (forall e, (forall id, id <> oid o -> True) -> entry_ok (versions (oid o) (L ++ [o])) (Some e) ->
            MemInv (L ++ [o]) (dict_set ustr_eqb m (oid o) e)) as Hset.
    { intros e _ He. split.
      - apply dict_set_NoDup; auto. apply s_eqb_eq.
      - intros id. destruct (s_dec (oid o) id) as [E|N].
        + subst id. rewrite dict_get_set_same; auto. apply s_eqb_eq.
        + rewrite dict_get_set_other; auto; try apply s_eqb_eq. apply entry_ok_other; auto. }
    (* the versions of this id added before agree with o on having `modified` *)
    assert (forall o', In o' (versions (oid o) L) -> (omod o' = VNone <-> omod o = VNone)) as Hu.
    { intros o' H. apply versions_In in H. destruct H as [H1 H2].
      apply U; auto; apply in_or_app; simpl; auto. }
    unfold normal in No.
    destruct (omod o) eqn:Emod; try (exfalso; exact No); cbn [is_vnone].
    - (* versioned *)
      specialize (Inv (oid o)) as Io.
      destruct (dict_get ustr_eqb m (oid o)) as [[vs lat|x]|] eqn:Eg; cbn [entry_ok] in Io.
      + destruct Io as [Hinst Hf].
        destruct (fam_add_step _ _ _ _ _ Emod Hinst Hf) as [vs' [lat' [E F]]].
        rewrite E. eexists. split; [reflexivity|]. apply Hset; auto.
        rewrite versions_app, versions_one_same. cbn [entry_ok]. split; auto.
        intros o' H. apply in_app_or in H. destruct H as [H|[H|[]]]; auto. subst. eauto.
      + destruct Io as [Hin Hn]. specialize (Hn _ Hin). apply Hu in Hin. apply Hin in Hn. discriminate.
      + destruct (fam_add_first _ _ Emod) as [E F]. rewrite E.
        eexists. split; [reflexivity|]. apply Hset; auto.
        rewrite versions_app, versions_one_same, Io. cbn [entry_ok app]. split; auto.
        intros o' [H|[]]. subst. eauto.
    - (* unversioned *)
      eexists. split; [reflexivity|]. apply Hset; auto.
      rewrite versions_app, versions_one_same. cbn [entry_ok]. split.
      + apply in_or_app. right. simpl. auto.
      + intros o' H. apply in_app_or in H. destruct H as [H|[H|[]]].
        * apply Hu in H. apply H. reflexivity.
        * subst. auto.
  Qed.

  Lemma MemInv_nil : MemInv [] [].
  Proof. split; simpl; [constructor | intros; reflexivity]. Qed.

  (* over every history: no addition raises and the invariant holds *)
  Lemma run_inv : forall L, Forall clean L -> uniform L ->
    MemInv L (run L) /\ Forall (fun e => e = None) (mem_outcomes mode iot L []) .
  Proof.
    intros L. induction L as [|o L IH] using rev_ind; intros F U.
    - split; [apply MemInv_nil | constructor].
    - apply Forall_app in F. destruct F as [F1 F2]. inversion F2; subst.
      destruct (IH F1 (uniform_app_l _ _ U)) as [I O].
      destruct (add1_step _ _ _ I H1 U) as [m' [E I']].
      split.
      + rewrite run_snoc, E. exact I'.
      + clear - O E.
        assert (forall L0 m0, mem_outcomes mode iot (L0 ++ [o]) m0 =
                mem_outcomes mode iot L0 m0 ++ [snd (add1 o (fold_left (madd mode iot) L0 m0))]) as Hs.
        { induction L0 as [|a r IHr]; intros m0; simpl; auto. rewrite IHr. reflexivity. }
        rewrite Hs. apply Forall_app. split; auto. constructor; [|constructor].
        fold (run L). rewrite E. reflexivity.
  Qed.

  (* ---------- reading the invariant ---------- *)
  Lemma In_mem_objs : forall m o, NoDup (map fst m) ->
    (In o (mem_objs m) <-> exists id e, dict_get ustr_eqb m id = Some e /\ In o (entry_objs e)).
  Proof.
    intros m o ND. unfold mem_objs. rewrite in_flat_map. split.
    - intros [[id e] [H1 H2]]. exists id, e. split; auto. apply In_dict_get; auto. apply s_eqb_eq.
    - intros [id [e [H1 H2]]]. exists (id, e). split; auto. apply dict_get_In in H1; auto. apply s_eqb_eq.
  Qed.

  Lemma entry_objs_sound : forall vl e o, entry_ok vl (Some e) -> In o (entry_objs e) -> In o vl.
  Proof.
    intros vl [vs lat|x] o H Hi; simpl in *.
    - destruct H as [_ [_ [Hs _]]]. apply in_map_iff in Hi. destruct Hi as [[k o1] [E Hi]]. simpl in E. subst.
      apply Hs in Hi. tauto.
    - destruct H as [H _]. destruct Hi as [Hi|[]]. subst. auto.
  Qed.

  Lemma entry_objs_complete : forall vl e o, entry_ok vl (Some e) -> In o vl ->
    exists o', In o' (entry_objs e) /\ omod o' = omod o.
  Proof.
    intros vl [vs lat|x] o H Hi; simpl in *.
    - destruct H as [_ [_ [Hs [Hc _]]]]. destruct (Hc _ Hi) as [o' Ho']. exists o'. split.
      + apply in_map_iff. exists (omod o, o'). auto.
      + apply Hs in Ho'. destruct Ho'. auto.
    - destruct H as [H Hn]. exists x. split; auto. rewrite (Hn _ H), (Hn _ Hi). reflexivity.
  Qed.

  Lemma entry_objs_distinct : forall vl e, entry_ok vl (Some e) -> NoDup (map omod (entry_objs e)).
  Proof.
    intros vl [vs lat|x] H; simpl in *.
    - destruct H as [_ [ND [Hs _]]].
      assert (map omod (map snd vs) = map fst vs) as E.
      { rewrite map_map. apply map_ext_in. intros [k o] Hi. simpl. apply Hs in Hi. destruct Hi. auto. }
      rewrite E. auto.
    - constructor; [intros []|constructor].
  Qed.

  Lemma NoDup_flat_entries : forall (m : mem),
    NoDup (map fst m) ->
    (forall id e, In (id, e) m -> (forall o, In o (entry_objs e) -> oid o = id) /\ NoDup (map omod (entry_objs e))) ->
    NoDup (map vkey_of (mem_objs m)).
  Proof.
    induction m as [|[id e] r IH]; intros ND H; simpl.
    - constructor.
    - inversion ND; subst. rewrite map_app.
      destruct (H id e (or_introl eq_refl)) as [Hid Hnd].
      assert (NoDup (map vkey_of (mem_objs r))) as IHr.
      { apply IH; auto. intros. apply H. right. auto. }
      clear IH.
      assert (forall l, (forall o, In o l -> oid o = id) -> NoDup (map omod l) -> NoDup (map vkey_of l ++ map vkey_of (mem_objs r))) as G.
      { induction l as [|a l IHl]; intros Hl Hn; simpl; auto.
        apply NoDup_cons_iff in Hn. destruct Hn as [Hna Hnl]. constructor.
        - rewrite in_app_iff. intros [Hi|Hi].
          + apply in_map_iff in Hi. destruct Hi as [b [Eb Hb]]. unfold vkey_of in Eb. inversion Eb as [[Eb1 Eb2]].
            apply Hna. apply in_map_iff. exists b. auto.
          + apply in_map_iff in Hi. destruct Hi as [b [Eb Hb]]. unfold vkey_of in Eb. inversion Eb as [[Eb1 Eb2]].
            unfold mem_objs in Hb. apply in_flat_map in Hb. destruct Hb as [[id' e'] [Hm Hb]]. simpl in Hb.
            destruct (H id' e' (or_intror Hm)) as [Hid' _]. apply Hid' in Hb.
            apply H2. apply in_map_iff. exists (id', e'). split; auto. simpl.
            rewrite <- Hb, Eb1. apply Hl. simpl. auto.
        - apply IHl; auto. intros. apply Hl. simpl. auto. }
      apply G; auto.
  Qed.

  Theorem mem_refines_inv : forall L m, MemInv L m ->
    refines L (fun id => mem_get [] id m) (fun id => mem_all [] id m) (mem_objs m).
  Proof.
    intros L m [ND Inv]. constructor.
    - intros id H. unfold mem_get in H. specialize (Inv id).
      destruct (dict_get ustr_eqb m id) as [[vs [l|]|x]|]; simpl in *; try discriminate; auto.
      destruct Inv as [_ [_ [_ [_ [l [Hl _]]]]]]. discriminate.
    - intros id o H. unfold mem_get in H. specialize (Inv id).
      destruct (dict_get ustr_eqb m id) as [[vs [l|]|x]|]; simpl in *; try discriminate; inversion H; subst.
      + destruct Inv as [_ [_ [_ [_ [l' [Hl [Hin Hmax]]]]]]]. inversion Hl; subst l'.
        apply versions_In in Hin. destruct Hin as [Hi1 Hi2]. repeat split; auto.
        intros o' Ho1 Ho2. apply Hmax. apply versions_In. auto.
      + destruct Inv as [Hin Hn]. pose proof Hin as Hin'. apply versions_In in Hin. destruct Hin as [Hi1 Hi2]. repeat split; auto.
        intros o' Ho1 Ho2. rewrite (Hn _ Hin'). rewrite (Hn o'); [exact I|]. apply versions_In. auto.
    - intros id o H. unfold mem_all in H. specialize (Inv id).
      destruct (dict_get ustr_eqb m id) as [e|]; [|contradiction].
      rewrite filter_all_hold_nil in H. apply versions_In. eapply entry_objs_sound; eauto.
    - intros id o H1 H2. unfold mem_all. specialize (Inv id).
      assert (In o (versions id L)) as Hv by (apply versions_In; auto).
      destruct (dict_get ustr_eqb m id) as [e|].
      + rewrite filter_all_hold_nil. eapply entry_objs_complete; eauto.
      + simpl in Inv. rewrite Inv in Hv. contradiction.
    - intros id. unfold mem_all. specialize (Inv id).
      destruct (dict_get ustr_eqb m id) as [e|]; [|constructor].
      rewrite filter_all_hold_nil. eapply entry_objs_distinct; eauto.
    - intros o H. apply In_mem_objs in H; auto. destruct H as [id [e [H1 H2]]].
      specialize (Inv id). rewrite H1 in Inv. apply (entry_objs_sound _ _ _ Inv) in H2. apply versions_In in H2. tauto.
    - intros o H. specialize (Inv (oid o)).
      assert (In o (versions (oid o) L)) as Hv by (apply versions_In; auto).
      destruct (dict_get ustr_eqb m (oid o)) as [e|] eqn:Eg.
      + destruct (entry_objs_complete _ _ _ Inv Hv) as [o' [H1 H2]]. exists o'. split.
        * apply In_mem_objs; eauto.
        * unfold vkey_of. apply (entry_objs_sound _ _ _ Inv) in H1. apply versions_In in H1. destruct H1 as [_ H1].
          rewrite H1, H2. reflexivity.
      + simpl in Inv. rewrite Inv in Hv. contradiction.
    - apply NoDup_flat_entries; auto. intros id e H.
      apply (In_dict_get _ _ ustr_eqb s_eqb_eq) in H; auto.
      specialize (Inv id). rewrite H in Inv. split.
      + intros o Ho. apply (entry_objs_sound _ _ _ Inv) in Ho. apply versions_In in Ho. tauto.
      + eapply entry_objs_distinct; eauto.
  Qed.
End Mem.

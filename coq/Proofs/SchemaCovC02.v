(* Proofs/SchemaCovC02.v -- C02 coverage extension, assembled on the generated tables: the classes the
   larger coverage predicate covers (kernel-computed on every build), the instance of
   strict_sound_partial2 on them, and the refutation of the defective socket-option variant.       *)
From Coq Require Import NArith ZArith List String Bool Lia.
From V Require Import Base.UString Base.Json Model.SchemaTypes Model.PyBase Model.Schema Model.SchemaRun
     Spec.StixValid Spec.SchemaRefine Proofs.SchemaBasics Proofs.SchemaScope Proofs.SchemaObject
     Proofs.SchemaProved Proofs.SchemaKnot Proofs.SchemaTables Proofs.SchemaC02
     Proofs.SchemaCovProved Proofs.SchemaCovKnot Gen.Tables Gen.SpecTables.
Import ListNotations.

Definition cover2_depth : nat := 8.
Definition lib_covered2 : list ustring :=
  Eval vm_compute in map cid (filter (fun c => class_proved2 cover2_depth lib (cid c)) (wclasses lib)).
Definition lib_uncovered2 : list ustring :=
  Eval vm_compute in map cid (filter (fun c => negb (class_proved2 cover2_depth lib (cid c))) (wclasses lib)).

(* how many of the generated classes each predicate covers: (larger predicate, Proofs/SchemaProved.v's, all) *)
Definition coverage_counts : nat * nat * nat :=
  Eval vm_compute in (List.length lib_covered2, List.length lib_covered, List.length (wclasses lib)).

Lemma lib_covered2_spec : forall c, In c lib_covered2 -> class_proved2 cover2_depth lib c = true.
Proof.
  assert (H : forallb (fun c => class_proved2 cover2_depth lib c) lib_covered2 = true) by (vm_compute; reflexivity).
  intros c Hc. rewrite forallb_forall in H. auto.
Qed.

(* the larger predicate contains the smaller one on the generated tables *)
Lemma lib_covered_sub : forallb (fun c => mem_ustr c lib_covered2) lib_covered = true.
Proof. vm_compute. reflexivity. Qed.

Lemma strict_sound_partial2_lib :
  forall (vr : variant) (ev : env) pok sok fuel req oc inner dfl hc,
    variant_sound vr = true -> env_ok ev = true ->
    req_strict req = true -> req_scope req = true ->
    run vr ev lib pok sok fuel req = Ok (PObject oc inner dfl hc) ->
    In oc lib_covered2 ->
    hc = false /\ exists m, valid_obj spec_relaxed pok m oc (encode false (PObject oc inner dfl hc)) = true.
Proof.
  intros. eapply strict_sound_partial2_gen; eauto.
  - exact lib_refines_relaxed.
  - apply lib_covered2_spec. auto.
Qed.

(* ---- the defective socket-option variant: isinstance(True, int) ---- *)
(* the witness variant: any variant with vr_sock_int = false that lets the request through; the
   pinned one is used so that this file does not restate the variant record field by field *)
Definition vr_sock_bool : variant := variant_pinned.

Lemma vr_sock_bool_flag : vr_sock_int vr_sock_bool = false.
Proof. reflexivity. Qed.

(* the class table with the socket-option check in the form the translator reads from the source
   (either spelling of the check) *)
Definition sock_cls : cls :=
  {| cid := u "2.1/SocketExt"; cver := V21; ctype := Some (u "socket-ext"); cfamily := FExt;
     cslots := [ {| sname := u "address_family"; skind := KString; sreq := true; sdef := DNone |};
                 {| sname := u "options"; skind := KDict V21; sreq := false; sdef := DNone |} ];
     ccons := [CSocketOptions]; cinit := INone; cidcontrib := []; cserialize_tlp := false |}.
Definition sock_world : world :=
  {| wclasses := [sock_cls]; wreg20 := {| robjects := []; robservables := []; rextensions := []; rmarkings := [] |};
     wreg21 := {| robjects := []; robservables := []; rextensions := [(u "socket-ext", u "2.1/SocketExt")]; rmarkings := [] |};
     wtlp20 := []; wtlp21 := [] |}.

Definition req_sock_bool : request :=
  RConstruct (u "2.1/SocketExt") false false
             [(u "address_family", JStr (u "AF_INET")); (u "options", JObj [(u "SO_KEEPALIVE", JBool true)])] None.

(* one co-constraint that no fuel satisfies refutes the object *)
Lemma valid_obj_false_of_constr sw pok m oc c mem k :
  find_class (wclasses sw) oc = Some c ->
  In k ((match cfamily c with FExt => [CAtLeastOneDefault] | _ => [] end) ++ ccons c) ->
  jconstr pok (S m) c mem k = false ->
  valid_obj sw pok (S m) oc (JObj mem) = false.
Proof.
  intros Hc Hin Hk.
  change (valid_obj_body sw (valid_kind sw pok m) (jconstr pok (S m)) oc (JObj mem) = false).
  unfold valid_obj_body. rewrite Hc.
  assert (E : forallb (jconstr pok (S m) c mem)
                      ((match cfamily c with FExt => [CAtLeastOneDefault] | _ => [] end) ++ ccons c) = false).
  { apply not_true_is_false. intros T. rewrite forallb_forall in T. specialize (T _ Hin). congruence. }
  rewrite E. apply andb_false_r.
Qed.

(* the table is its own specification here: the statement is about the co-constraint, whatever the rest *)
Lemma sock_world_refines : world_refines sock_world sock_world = true.
Proof. vm_compute. reflexivity. Qed.

Lemma refuted_sock_bool :
  req_strict req_sock_bool = true /\ req_scope req_sock_bool = true /\
  exists oc inner dfl,
    run vr_sock_bool sentinel_env sock_world witness_pok witness_sok 6 req_sock_bool = Ok (PObject oc inner dfl false) /\
    forall m, valid_obj sock_world witness_pok m oc (encode false (PObject oc inner dfl false)) = false.
Proof.
  split; [reflexivity|]. split; [reflexivity|]. do 3 eexists. split; [vm_compute; reflexivity|].
  intros m. destruct m; [reflexivity|].
  eapply valid_obj_false_of_constr with (k := CSocketOptions); [vm_compute; reflexivity | simpl; tauto |].
  destruct m; vm_compute; reflexivity.
Qed.

(* the same request on the repaired variant is refused *)
Lemma repaired_sock_refuses :
  exists e, run variant_repaired sentinel_env sock_world witness_pok witness_sok 6 req_sock_bool = Err e.
Proof. eexists. vm_compute. reflexivity. Qed.

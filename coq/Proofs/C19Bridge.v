(* Proofs/C19Bridge.v -- the bridge between the registration model
   (Model/Registry.v: which name is registered) and the schema family's world
   (Model/SchemaTypes.v: registry rows + class tables): a successful
   registration, mirrored by `world_add` of the builder's class, keeps the two
   registries in agreement and makes the name resolve to the builder's table. *)
From Coq Require Import NArith ZArith List String Bool Arith Lia.
From V Require Import Base.UString Base.Json Model.SchemaTypes Model.RegistryBuilder Proofs.C19Inherit.
From V Require Model.Registry Proofs.RegistryFacts.
Import ListNotations.

Definition cat_rows (k : ckind) (r : registry) : list (ustring * ustring) :=
  match k with
  | CObject => robjects r | CObservable => robservables r | CExtension => rextensions r | CMarking => rmarkings r
  end.

(* the two registries know the same names (class ids are written differently for built-ins) *)
Definition dom_agree (r : Registry.registry) (w : world) : Prop :=
  forall V k n, Registry.lookup r (version_of_ver V) (category_of_ckind k) n = None <-> assoc n (cat_rows k (reg_of w V)) = None.

Lemma assoc_app : forall a b n, assoc n (a ++ b) = match assoc n a with Some x => Some x | None => assoc n b end.
Proof.
  induction a as [|[k v] a IH]; simpl; intros; auto.
  destruct (ustr_eqb n k); auto.
Qed.

Lemma cat_rows_add_same : forall k r n id, cat_rows k (reg_add k r n id) = cat_rows k r ++ [(n, id)].
Proof. destruct k; reflexivity. Qed.

Lemma cat_rows_add_other : forall k k' r n id, k <> k' -> cat_rows k' (reg_add k r n id) = cat_rows k' r.
Proof. destruct k, k'; intros; try reflexivity; exfalso; apply H; reflexivity. Qed.

Lemma reg_of_add_same : forall w k V n c, reg_of (world_add w k V n c) V = reg_add k (reg_of w V) n (cid c).
Proof. destruct V; reflexivity. Qed.

Lemma reg_of_add_other : forall w k V V' n c, V <> V' -> reg_of (world_add w k V n c) V' = reg_of w V'.
Proof. destruct V, V'; intros; try reflexivity; exfalso; apply H; reflexivity. Qed.

Lemma version_of_ver_inj : forall a b, version_of_ver a = version_of_ver b -> a = b.
Proof. destruct a, b; simpl; intros; congruence. Qed.

Lemma category_of_ckind_inj : forall a b, category_of_ckind a = category_of_ckind b -> a = b.
Proof. destruct a, b; simpl; intros; congruence. Qed.

Lemma SchemaTypes_ver_eq_dec : forall a b : ver, {a = b} + {a <> b}.
Proof. decide equality. Qed.

Lemma ckind_eq_dec : forall a b : ckind, {a = b} + {a <> b}.
Proof. decide equality. Qed.

Lemma find_class_snoc_fresh : forall cs c, find_class cs (cid c) = None -> find_class (cs ++ [c]) (cid c) = Some c.
Proof.
  intros. rewrite (find_class_app_none _ _ _ H). simpl. rewrite ueqb_refl. reflexivity.
Qed.

Theorem registered_type_resolves_in_world_lemma : forall vt r w bv k V n xt user cn r',
  dom_agree r w ->
  Registry.decorate vt r (regreq_of k V n xt user cn) = (r', Registry.Done) ->
  find_class (wclasses w) (custom_cid cn) = None ->
  let c := custom_cls bv k V n xt user cn in
  let w' := world_add w k V n c in
  Registry.lookup r' (version_of_ver V) (category_of_ckind k) n = Some (custom_cid cn)
  /\ assoc n (cat_rows k (reg_of w' V)) = Some (custom_cid cn)
  /\ find_class (wclasses w') (custom_cid cn) = Some c
  /\ dom_agree r' w'.
Proof.
  intros vt r w bv k V n xt user cn r' A D F c w'.
  pose proof (RegistryFacts.reg_exact_lemma vt r _ r' D) as [E1 [_ E3]].
  cbn [regreq_of Registry.r_ver Registry.r_kind Registry.r_name Registry.r_cls] in E1, E3.
  (* the name was free before: the registration succeeded *)
  assert (Free : Registry.lookup r (version_of_ver V) (category_of_ckind k) n = None).
  { destruct (Registry.lookup r (version_of_ver V) (category_of_ckind k) n) eqn:L; auto.
    destruct (RegistryFacts.reg_exclusive_lemma vt r (regreq_of k V n xt user cn) _ L) as [e [Fl _]].
    rewrite D in Fl. discriminate. }
  assert (SE : RegistryFacts.side_entry (regreq_of k V n xt user cn) = None).
  { unfold RegistryFacts.side_entry, regreq_of. cbn. destruct k, V; reflexivity. }
  split; [exact E1|]. split; [|split].
  - subst w'. rewrite reg_of_add_same, cat_rows_add_same, assoc_app.
    rewrite (proj1 (A V k n) Free). simpl. rewrite ueqb_refl. reflexivity.
  - subst w' c. cbn [world_add wclasses]. apply (find_class_snoc_fresh (wclasses w) (custom_cls bv k V n xt user cn)). exact F.
  - intros V' k' n'.
    destruct (RegistryFacts.key_eq_dec_lemma (version_of_ver V', category_of_ckind k', n') (version_of_ver V, category_of_ckind k, n)) as [Q | Q].
    + inversion Q as [[Q1 Q2 Q3]]. apply version_of_ver_inj in Q1. apply category_of_ckind_inj in Q2. subst V' k' n'.
      rewrite E1. subst w'. rewrite reg_of_add_same, cat_rows_add_same, assoc_app, (proj1 (A V k n) Free). simpl.
      rewrite ueqb_refl. split; discriminate.
    + rewrite (E3 _ _ _ Q) by (intros e He; rewrite SE in He; discriminate).
      rewrite (A V' k' n'). subst w'.
      destruct (SchemaTypes_ver_eq_dec V V') as [-> | NV].
      * rewrite reg_of_add_same.
        destruct (ckind_eq_dec k k') as [-> | NK].
        -- rewrite cat_rows_add_same, assoc_app.
           destruct (assoc n' (cat_rows k' (reg_of w V'))); [split; discriminate|]. simpl.
           destruct (ustr_eqb n' n) eqn:En; [|tauto].
           apply ueqb_eq in En. subst n'. exfalso. apply Q. reflexivity.
        -- rewrite (cat_rows_add_other k k' _ _ _ NK). tauto.
      * rewrite (reg_of_add_other _ _ _ _ _ _ NV). tauto.
Qed.


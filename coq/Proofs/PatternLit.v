(* Proofs/PatternLit.v -- C10: what the visitor makes of literal tokens. *)
From Coq Require Import NArith ZArith List String Bool Lia.
From V Require Import Model.PatternSyntax Spec.PatternSpec Proofs.PatternR Proofs.PatternNumbers.
Import ListNotations.
Open Scope N_scope.

(* ------------------------------------------------------------------ *)
(** * Literals *)


(* what the visitor needs of a literal beyond its lexical class: a timestamp
   Python's datetime can represent (finding C10-timestamp-unrepresentable;
   unreal dates are not valid patterns) *)

Lemma last_is_snoc : forall (l : ustring) c, last_is (l ++ [c]) c = true.
Proof. intros l c. unfold last_is. rewrite last_last. apply N.eqb_refl. Qed.

(* a StringLiteral token's text is  ' body '  *)
Lemma string_ok_shape : forall s, string_ok s = true ->
  exists body, s = c_quote :: body ++ [c_quote] /\ lex_body body <> None.
Proof.
  intros s H. unfold string_ok, lex_string in H.
  destruct s as [|c r]; [discriminate|].
  destruct (c =? c_quote) eqn:Ec; [|discriminate]. apply N.eqb_eq in Ec; subst c.
  destruct (rev r) as [|q br] eqn:Er; [discriminate|].
  destruct (q =? c_quote) eqn:Eq; [|discriminate]. apply N.eqb_eq in Eq; subst q.
  exists (rev br). split.
  - f_equal. rewrite <- (rev_involutive r), Er. reflexivity.
  - destruct (lex_body (rev br)); [discriminate|discriminate].
Qed.

Lemma slice_1_m1_quoted : forall body, slice_1_m1 (c_quote :: body ++ [c_quote]) = body.
Proof. intros body. unfold slice_1_m1. cbn [tl]. apply removelast_last. Qed.

Lemma string_tok_visit : forall t, tk t = KString -> string_ok (tx t) = true ->
  visit_terminal t = Ok (VConst (CString (slice_1_m1 (tx t)) false)).
Proof.
  intros [k s] Hk Hs. cbn in Hk, Hs |- *. subst k. unfold PatternSyntax.visit_terminal. cbn [tk tx].
  destruct (string_ok_shape s Hs) as [body [E _]]. subst s.
  change (starts_with_quote (c_quote :: body ++ [c_quote])) with true.
  change (c_quote :: body ++ [c_quote]) with ((c_quote :: body) ++ [c_quote]) at 1.
  rewrite last_is_snoc. reflexivity.
Qed.

Lemma prefixed_body_shape : forall letter s b, prefixed_body letter s = Some b ->
  s = letter :: c_quote :: b ++ [c_quote].
Proof.
  intros letter s b H. unfold prefixed_body in H.
  destruct s as [|a [|q r]]; try discriminate.
  destruct (a =? letter) eqn:Ea; [|discriminate].
  destruct (q =? c_quote) eqn:Eq; [|discriminate].
  destruct (last_is r c_quote) eqn:El; [|discriminate].
  cbn in H. inversion H; subst b. apply N.eqb_eq in Ea, Eq. subst a q.
  f_equal. f_equal.
  unfold last_is in El. apply N.eqb_eq in El.
  destruct r as [|x r'].
  - vm_compute in El. discriminate.
  - assert (Hne : x :: r' <> []) by discriminate.
    pose proof (app_removelast_last (c_quote + 1) Hne) as H1. rewrite El in H1. exact H1.
Qed.

Lemma visit_lit : forall t, kind_in t primitive_kinds = true -> lit_sem t = true ->
  visit_terminal t = Ok (VConst (sv_lit t)).
Proof.
  intros t Hk Hs.
  assert (E : exists c, visit_terminal t = Ok (VConst c)).
  { unfold kind_in in Hk. apply andb_true_iff in Hk. destruct Hk as [Hk Hok].
    destruct t as [k s]. unfold token_ok in Hok. unfold lit_sem in Hs. cbn [tk tx] in *.
    destruct k; cbn in Hk; try discriminate;
      try (unfold PatternSyntax.visit_terminal; cbn [tk tx]; match goal with |- context [starts_with_quote] => fail 1 | _ => idtac end).
    - destruct (py_int_intneg s Hok) as [z Hz]. rewrite Hz. eexists; reflexivity.
    - destruct (py_int_intpos s Hok) as [z Hz]. rewrite Hz. eexists; reflexivity.
    - destruct (py_float_floatneg s Hok) as [f Hf]. rewrite Hf. eexists; reflexivity.
    - destruct (py_float_floatpos s Hok) as [f Hf]. rewrite Hf. eexists; reflexivity.
    - unfold hex_ok in Hok. rewrite mk_hex_rep.
      destruct (prefixed_body 104 s) as [b|]; [|discriminate]. rewrite Hok. eexists; reflexivity.
    - unfold binary_ok in Hok. unfold mk_binary_from_tree.
      destruct (prefixed_body 98 s) as [b|]; [|discriminate]. rewrite Hok. eexists; reflexivity.
    - rewrite (string_tok_visit (Tok KString s) eq_refl Hok). eexists; reflexivity.
    - unfold bool_ok in Hok. destruct (ustr_eqb s (u "true")); [eexists; reflexivity|].
      rewrite orb_false_l in Hok. rewrite Hok. eexists; reflexivity.
    - unfold timestamp_ok in Hok. destruct (prefixed_body 116 s) as [b|] eqn:Eb; [|discriminate].
      rewrite (prefixed_body_shape _ _ _ Eb) in *. change (116 =? 116) with true. cbn iota.
      destruct (py_strptime _); [|discriminate]. eexists; reflexivity. }
  destruct E as [c E]. unfold sv_lit. rewrite E. reflexivity.
Qed.

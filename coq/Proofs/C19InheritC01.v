(* Proofs/C19InheritC01.v -- `custom types inherit`, end to end for C01 (round trip): the round-trip
   theorems of the C01 builder (Props/C01.v roundtrip_equal_partial, reserialize_identical_partial,
   roundtrip_equal_parse_partial -- stated for an arbitrary class table w under the table conditions
   closed_okw / registry_ok / parse_class_ok) instantiated at the library world extended by a
   registered custom type.  The table conditions are booleans: they are evaluated by the kernel on the
   extended world for the example custom types of Proofs/C19InheritC02.v (one per kind and version).  *)
From Coq Require Import NArith ZArith List String Bool.
From V Require Import Base.UString Base.Json Model.SchemaTypes Model.PyBase Model.Schema Model.Serialize
     Proofs.C01Kinds Proofs.C01KindsAll Proofs.C01Object Proofs.C01Roundtrip Proofs.C01Parse Proofs.C01LibInstance Gen.Tables
     Model.RegistryBuilder Proofs.C19Inherit Proofs.C19InheritC02.
From V Require Model.Registry.
Import ListNotations.

(* constructing from the object's own encoding returns the same object -- in any world extended by a
   builder table, for the classes `ids` that pass the C01 table conditions there *)
Lemma custom_type_roundtrip_equal_lemma :
  forall vr ev bv k V n xt user cn pattern_ok selectors_ok, vr_year_pad vr = true ->
  forall ids, closed_okw vr (world_add lib k V n (custom_cls bv k V n xt user cn)) ids = true ->
  forall fuel kid allow interop kw vrefs o,
    mem_ustr kid ids = true -> plain_dict kw = true ->
    id_given (world_add lib k V n (custom_cls bv k V n xt user cn)) kid kw = true ->
    run vr ev (world_add lib k V n (custom_cls bv k V n xt user cn)) pattern_ok selectors_ok fuel
        (RConstruct kid allow interop kw vrefs) = Ok o ->
    run vr ev (world_add lib k V n (custom_cls bv k V n xt user cn)) pattern_ok selectors_ok fuel
        (RConstruct kid allow interop (omem o) vrefs) = Ok o.
Proof. intros. eapply construct_roundtrip; eauto. Qed.

Lemma custom_type_reserialize_identical_lemma :
  forall vr ev bv k V n xt user cn pattern_ok selectors_ok, vr_year_pad vr = true ->
  forall ids, closed_okw vr (world_add lib k V n (custom_cls bv k V n xt user cn)) ids = true ->
  forall fuel kid allow interop kw vrefs o o' (opts : sopts),
    mem_ustr kid ids = true -> plain_dict kw = true ->
    id_given (world_add lib k V n (custom_cls bv k V n xt user cn)) kid kw = true ->
    run vr ev (world_add lib k V n (custom_cls bv k V n xt user cn)) pattern_ok selectors_ok fuel
        (RConstruct kid allow interop kw vrefs) = Ok o ->
    run vr ev (world_add lib k V n (custom_cls bv k V n xt user cn)) pattern_ok selectors_ok fuel
        (RConstruct kid allow interop (omem o) vrefs) = Ok o' ->
    serialize_value opts o' = serialize_value opts o.
Proof. intros. eapply reserialize_identical_construct; eauto. Qed.

(* the table conditions hold for the example custom types, each in the library world extended by it,
   together with every library class the C01 theorems cover *)
Definition c01_ok_in_extended (k : ckind) (V : ver) (n : ustring) (c : cls) : bool :=
  closed_okw variant_repaired (world_add lib k V n c) (lib_proved_idsw ++ [cid c]).

Lemma ex_custom_types_c01_ok_lemma :
  c01_ok_in_extended CObject V21 (u "x-ex-object") ex_object21 = true /\
  c01_ok_in_extended CObject V20 (u "x-ex-object") ex_object20 = true /\
  c01_ok_in_extended CObservable V21 (u "x-ex-observable") ex_observable21 = true /\
  c01_ok_in_extended CObservable V20 (u "x-ex-observable") ex_observable20 = true /\
  c01_ok_in_extended CExtension V21 (u "x-ex-ext") ex_extension21 = true /\
  c01_ok_in_extended CMarking V21 (u "x-ex-marking") ex_marking = true.
Proof. repeat split; vm_compute; reflexivity. Qed.

(* ... and the conditions of the parse-level round trip (registry_ok, parse_class_ok) for the custom object types *)
Lemma ex_custom_objects_parse_ok_lemma :
  registry_ok (world_add lib CObject V21 (u "x-ex-object") ex_object21) = true /\
  parse_class_ok (world_add lib CObject V21 (u "x-ex-object") ex_object21) ex_object21 = true /\
  registry_ok (world_add lib CObject V20 (u "x-ex-object") ex_object20) = true /\
  parse_class_ok (world_add lib CObject V20 (u "x-ex-object") ex_object20) ex_object20 = true.
Proof. repeat split; vm_compute; reflexivity. Qed.

(* stix2.parse(text) with no version named, in an extended world *)
Lemma custom_type_roundtrip_parse_lemma :
  forall vr ev bv k V n xt user cn pattern_ok selectors_ok, vr_year_pad vr = true ->
  let w := world_add lib k V n (custom_cls bv k V n xt user cn) in
  forall ids, closed_okw vr w ids = true -> registry_ok w = true ->
  forall pids, forallb (fun k => mem_ustr k ids) pids = true ->
    forallb (fun k => match find_class (wclasses w) k with Some c => parse_class_ok w c | None => false end) pids = true ->
  forall fuel allow interop d ci S dfl hc,
    plain_dict d = true ->
    mem_ustr ci pids = true ->
    (amem id_key d = true \/ forall t, alookup type_key d = Some (JStr t) -> amem t (robservables (wreg21 w)) = false) ->
    run vr ev w pattern_ok selectors_ok fuel (RParse allow interop None d) = Ok (PObject ci S dfl hc) ->
    run vr ev w pattern_ok selectors_ok fuel (RParse allow interop None (omem (PObject ci S dfl hc))) = Ok (PObject ci S dfl hc).
Proof. intros. eapply parse_roundtrip; eauto. Qed.

(* Proofs/SchemaKinds.v -- per-kind soundness of clean (C02) for every covered kind, composite kinds
   included: lists of covered kinds and embedded objects, given the statement for the constructors
   they call (the induction hypothesis of the knot).                                                *)
From Coq Require Import NArith ZArith List String Bool Lia.
From V Require Import Base.UString Base.Json Model.SchemaTypes Model.PyBase Model.Schema
     Spec.StixValid Spec.SchemaRefine Proofs.SchemaBasics Proofs.SchemaValidMono Proofs.SchemaScope
     Proofs.SchemaTime Proofs.SchemaLeaf Proofs.SchemaObject Proofs.SchemaProved.
Import ListNotations.

Lemma forallb_map {A B} (f : B -> bool) (g : A -> B) (l : list A) :
  forallb f (map g l) = forallb (fun x => f (g x)) l.
Proof. induction l; simpl; congruence. Qed.

Section Kinds.
  Variable vr : variant.
  Variables w sp : world.
  Variable pok : ver -> ustring -> bool.
  Variable rc : ustring -> bool -> bool -> list (ustring * jvalue) -> result pval.
  Variable rp : bool -> bool -> list (ustring * jvalue) -> result pval.
  Variable ro : ver -> list (ustring * ustring) -> bool -> list (ustring * jvalue) -> result pval.

  Hypothesis Hvr : variant_sound vr = true.

  Lemma vr_flags :
    vr_hex_z vr = true /\ vr_key_z vr = true /\ vr_sel_z vr = true /\ vr_hash_z vr = true /\
    vr_uuid_canon vr = true /\ vr_year_pad vr = true /\ vr_ext_nonempty vr = true /\ vr_sock_int vr = true.
  Proof.
    pose proof Hvr as H. unfold variant_sound in H.
    repeat (apply andb_true_iff in H; let H2 := fresh "F" in destruct H as [H H2]). repeat split; auto.
  Qed.

  Notation SK := (sound_kind vr w sp pok rc rp ro).
  Notation SA := (sound_at vr w sp pok rc rp ro).

  Lemma sound_at_kind k k' : SA k k' -> SK k k'.
  Proof. intros H v pv hc _ Hc. destruct (H v pv hc 0%nat Hc) as [A [B C]]. repeat split; eauto. Qed.

  (* timestamps *)
  Lemma sound_time p c p' c' : prec_eqb p p' = true -> pconstr_eqb c c' = true -> SA (KTime p c) (KTime p' c').
  Proof.
    intros Hp Hc v pv hc n H.
    assert (p' = p) by (destruct p, p'; simpl in Hp; auto; discriminate).
    assert (c' = c) by (destruct c, c'; simpl in Hc; auto; discriminate). subst.
    simpl in H. destruct v; try discriminate. inv_bind H. inversion Hb; subst. split; auto.
    destruct vr_flags as (_ & _ & _ & _ & _ & Hpad & _ & _). rewrite Hpad in Ha.
    pose proof (ts_clean_valid _ _ _ _ Ha) as Hvt. split; [simpl; eapply valid_timestamp_nonempty; eauto|].
    simpl. exact Hvt.
  Qed.

  (* every covered leaf kind *)
  Lemma leaf_sound k k' : leaf_proved k = true -> kind_refines k k' = true -> SK k k'.
  Proof.
    destruct vr_flags as (Hhex & Hkey & Hsel & Hhash & Huuid & Hpad & Hext & Hsock).
    intros Hl Hr. apply sound_at_kind.
    destruct k; simpl in Hl; try discriminate.
    - (* KString *) destruct k'; simpl in Hr; try discriminate; apply sound_stringy; auto.
    - (* KPattern *) destruct k'; simpl in Hr; try discriminate; apply sound_stringy; auto.
    - (* KObjRef *) destruct k'; simpl in Hr; try discriminate; apply sound_stringy; auto.
    - (* KFixed *) destruct k'; simpl in Hr; try discriminate. apply sound_fixed; auto.
    - (* KInt *) destruct k'; simpl in Hr; try discriminate. apply andb_true_iff in Hr. destruct Hr. apply sound_int; auto.
    - (* KBool *) destruct k'; simpl in Hr; try discriminate. apply sound_bool.
    - (* KTime *) destruct k'; simpl in Hr; try discriminate. apply andb_true_iff in Hr. destruct Hr. apply sound_time; auto.
    - (* KDict *) destruct k'; simpl in Hr; try discriminate. apply sound_dict; auto.
    - (* KBinary *) destruct k'; simpl in Hr; try discriminate. apply sound_binary.
    - (* KHex *) destruct k'; simpl in Hr; try discriminate. apply sound_hex; auto.
    - (* KSelector *) destruct k'; simpl in Hr; try discriminate. apply sound_selector; auto.
    - (* KEnum *) destruct k'; simpl in Hr; try discriminate. apply sound_enum; auto.
    - (* KOpenVocab *) destruct k'; simpl in Hr; try discriminate; apply sound_stringy; auto.
  Qed.

  (* ---- composite kinds ---- *)
  Variable cp : ustring -> bool.
  Hypothesis IHrc : forall cid d o, cp cid = true -> dict_scope d = true ->
                                    rc cid false false d = Ok o -> good sp pok cid o.

  Lemma list_items_scope v l : jscope v = true -> list_items v = Ok l -> forallb jscope l = true.
  Proof.
    unfold list_items. intros Hv H. destruct v; inversion H; subst.
    - reflexivity.
    - rewrite <- jscope_arr. exact Hv.
    - rewrite forallb_forall. intros x Hx. apply in_map_iff in Hx. destruct Hx as [kv [<- _]]. auto.
  Qed.

  Lemma clean_items_sound k k' l res hc :
    SK k k' -> forallb jscope l = true ->
    clean_items (clean_kind vr w rc rp ro k false false) l = Ok (res, hc) ->
    hc = false /\ exists n, forallb (fun x => valid_kind sp pok n k' (encode false x)) res = true.
  Proof.
    intros Hk. revert res hc. induction l as [|x l IH]; simpl; intros res hc Hsc H.
    - inversion H; subst. split; auto. exists 0%nat. auto.
    - apply andb_true_iff in Hsc. destruct Hsc as [Hx Hl]. inv_bind H. destruct a as [pv hx]. inv_bind Hb.
      destruct a as [rest hr]. inversion Hbb; subst. simpl.
      destruct (Hk x pv hx Hx Ha) as [-> [_ [n1 H1]]]. destruct (IH rest hr Hl Hba) as [-> [n2 H2]].
      split; auto. exists (Nat.max n1 n2). simpl. apply andb_true_iff. split.
      + eapply valid_kind_mono; [|exact H1]. lia.
      + revert H2. apply forallb_imp. intros y _. apply valid_kind_mono. lia.
  Qed.

  Lemma finish_list_inv r pv hc : finish_list false r = Ok (pv, hc) -> exists res, r = (res, false) /\ res <> [] /\ pv = PArr res /\ hc = false.
  Proof.
    unfold finish_list. destruct r as [res h]. simpl. destruct h; try discriminate.
    destruct res; try discriminate. intros H. inversion H; subst. eexists; repeat split; eauto. discriminate.
  Qed.

  Lemma listof_items_sound cid l res hc :
    cp cid = true -> forallb jscope l = true ->
    listof_items rc cid false false l = Ok (res, hc) ->
    exists n, forallb (fun x => valid_obj sp pok n cid (encode false x)) res = true.
  Proof.
    intros Hcp. revert res hc. induction l as [|x l IH]; simpl; intros res hc Hsc H.
    - inversion H; subst. exists 0%nat. auto.
    - apply andb_true_iff in Hsc. destruct Hsc as [Hx Hl]. destruct x; try discriminate.
      inv_bind H. inv_bind Hb. inv_bind Hbb. destruct a1 as [rest hr]. inversion Hbbb; subst. simpl.
      destruct (IHrc cid m a0 Hcp Hx Hba) as (inner & dfl & -> & n1 & H1).
      destruct (IH rest hr Hl Hbba) as [n2 H2].
      exists (Nat.max n1 n2). simpl. apply andb_true_iff. split.
      + eapply valid_obj_mono; [|exact H1]. lia.
      + revert H2. apply forallb_imp. intros y _. apply valid_obj_mono. lia.
  Qed.

  Lemma listof_items_hc cid l res hc :
    cp cid = true -> forallb jscope l = true ->
    listof_items rc cid false false l = Ok (res, hc) -> hc = false.
  Proof.
    intros Hcp. revert res hc. induction l as [|x l IH]; simpl; intros res hc Hsc H.
    - inversion H; auto.
    - apply andb_true_iff in Hsc. destruct Hsc as [Hx Hl]. destruct x; try discriminate.
      inv_bind H. inv_bind Hb. inv_bind Hbb. destruct a1 as [rest hr]. inversion Hbbb; subst. simpl.
      destruct (IHrc cid m a0 Hcp Hx Hba) as (inner & dfl & -> & _). simpl. eapply IH; eauto.
  Qed.

  Lemma kind_sound : forall k k', kind_proved cp k = true -> kind_refines k k' = true -> SK k k'.
  Proof.
    induction k; intros k' Hp Hr; try (apply leaf_sound; auto; fail).
    - (* KEmbedded *)
      simpl in Hp. destruct k'; simpl in Hr; try discriminate. apply ustr_eqb_eq in Hr. subst cls0.
      intros v pv hc Hv H. simpl in H. destruct v; try discriminate. inv_bind H. inv_bind Hb.
      destruct (IHrc cls m a0 Hp Hv Hba) as (inner & dfl & -> & n & Hn).
      simpl in Hbb. inversion Hbb; subst. split; auto. split; [exact I|]. exists (S n). exact Hn.
    - (* KList *)
      simpl in Hp. destruct k'; simpl in Hr; try discriminate.
      intros v pv hc Hv H. simpl in H. inv_bind H. inv_bind Hb.
      apply finish_list_inv in Hbb. destruct Hbb as (res & -> & Hne & -> & ->).
      destruct (clean_items_sound k k' a res false (IHk k' Hp Hr) (list_items_scope _ _ Hv Ha) Hba) as [_ [n Hn]].
      split; auto. split; [exact I|]. exists (S n). rewrite encode_PArr. simpl. rewrite forallb_map.
      rewrite Hn, andb_true_r. destruct res; simpl; auto; contradiction.
    - (* KListOf *)
      simpl in Hp. destruct k'; simpl in Hr; try discriminate. apply ustr_eqb_eq in Hr. subst cls0.
      intros v pv hc Hv H. simpl in H. inv_bind H. inv_bind Hb.
      apply finish_list_inv in Hbb. destruct Hbb as (res & -> & Hne & -> & ->).
      destruct (listof_items_sound cls a res false Hp (list_items_scope _ _ Hv Ha) Hba) as [n Hn].
      split; auto. split; [exact I|]. exists (S n). rewrite encode_PArr. simpl. rewrite forallb_map.
      rewrite Hn, andb_true_r. destruct res; simpl; auto; contradiction.
  Qed.
End Kinds.

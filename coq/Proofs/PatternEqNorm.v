(* Proofs/PatternEqNorm.v -- the whole comparison-level normaliser
   (NormalizeComparisonExpressionsTransformer.__comp_normalize =
   special values, settle(flatten, order, absorb), DNF, settle) preserves the
   meaning of a comparison expression.                                     *)
From Coq Require Import NArith ZArith List Bool Permutation Lia String.
From V Require Import Base.UString Model.PatternEq Spec.PatternSemantics Proofs.PatternEqCmp Proofs.PatternEqLists
     Proofs.PatternEqC Proofs.PatternEqDnf Proofs.PatternEqIp4.
Import ListNotations.

(* ------------------------------------------------------------------ *)
(* flatness: the settle loop hands DNF an expression with no OR directly under an OR *)

Lemma is_cor_mkb : forall o l, is_cor (mkb o l) = match o with BOr => true | BAnd => false end.
Proof. destruct o; reflexivity. Qed.

Lemma ops_of_none_or : forall e, ops_of BOr e = None -> is_cor e = false.
Proof. destruct e; simpl; intro E; try reflexivity; discriminate. Qed.

Lemma flat_cflatten_ops_and : forall l, Forall (fun c => flatb c = true) l ->
                                         Forall (fun c => flatb c = true) (fst (cflatten_ops BAnd l)).
Proof.
  induction 1 as [|c l Hc _ IH]; [constructor|]. cbn [cflatten_ops].
  destruct (cflatten_ops BAnd l) as [r' ch]. cbn [fst] in IH.
  destruct (ops_of BAnd c) as [xs|] eqn:Eo; cbn [fst].
  - apply ops_of_some in Eo. subst c. simpl in Hc. apply Forall_app. split; [apply Forall_forall; apply forallb_forall; exact Hc | exact IH].
  - constructor; assumption.
Qed.

Lemma flat_cflatten_ops_or : forall l, Forall (fun c => flatb c = true) l ->
                                        Forall (fun c => flatb c && negb (is_cor c) = true) (fst (cflatten_ops BOr l)).
Proof.
  induction 1 as [|c l Hc _ IH]; [constructor|]. cbn [cflatten_ops].
  destruct (cflatten_ops BOr l) as [r' ch]. cbn [fst] in IH.
  destruct (ops_of BOr c) as [xs|] eqn:Eo; cbn [fst].
  - apply ops_of_some in Eo. subst c. simpl in Hc. apply Forall_app. split; [apply Forall_forall; apply forallb_forall; exact Hc | exact IH].
  - constructor; [|exact IH]. rewrite Hc, (ops_of_none_or _ Eo). reflexivity.
Qed.

Lemma flat_cflatten : forall e, flatb (fst (cflatten e)) = true.
Proof.
  induction e using cexpr_ind'; [reflexivity | |].
  - rewrite cflatten_CAnd.
    assert (HF : Forall (fun c => flatb c = true) (map fst (map cflatten l))).
    { rewrite map_map. apply Forall_map. exact H. }
    unfold cflatten_node. destruct (map fst (map cflatten l)) as [|c [|c' r]] eqn:El.
    + reflexivity.
    + simpl. inversion HF; assumption.
    + pose proof (flat_cflatten_ops_and _ HF) as HH. destruct (cflatten_ops BAnd (c :: c' :: r)) as [l' ch]. simpl in *.
      apply forallb_forall. apply Forall_forall. exact HH.
  - rewrite cflatten_COr.
    assert (HF : Forall (fun c => flatb c = true) (map fst (map cflatten l))).
    { rewrite map_map. apply Forall_map. exact H. }
    unfold cflatten_node. destruct (map fst (map cflatten l)) as [|c [|c' r]] eqn:El.
    + reflexivity.
    + simpl. inversion HF; assumption.
    + pose proof (flat_cflatten_ops_or _ HF) as HH. destruct (cflatten_ops BOr (c :: c' :: r)) as [l' ch]. simpl in *.
      apply forallb_forall. apply Forall_forall. exact HH.
Qed.

Lemma is_cor_corder : forall e, is_cor (fst (corder e)) = is_cor e.
Proof. destruct e; reflexivity. Qed.

Lemma is_cor_cabsorb : forall e, is_cor (fst (cabsorb e)) = is_cor e.
Proof. destruct e; reflexivity. Qed.

(* a pass that maps children and then keeps a sub-collection of them preserves flatness *)
Lemma flat_node_pass : forall (pass : cexpr -> cexpr * bool) o l l',
    (forall c, is_cor (fst (pass c)) = is_cor c) ->
    Forall (fun c => flatb c = true -> flatb (fst (pass c)) = true) l ->
    incl l' (map fst (map pass l)) ->
    flatb (mkb o l) = true -> flatb (mkb o l') = true.
Proof.
  intros pass o l l' Hcor HF Hincl F.
  assert (HP : forall c', In c' l' -> exists c, In c l /\ c' = fst (pass c)).
  { intros c' Hc'. apply Hincl in Hc'. rewrite map_map in Hc'. apply in_map_iff in Hc'. destruct Hc' as [c [<- Hc]]. exists c. auto. }
  rewrite Forall_forall in HF.
  destruct o; simpl in *; apply forallb_forall; intros c' Hc'; destruct (HP c' Hc') as [c [Hc ->]];
    rewrite forallb_forall in F; pose proof (F c Hc) as Fc.
  - apply HF; assumption.
  - apply andb_true_iff in Fc. destruct Fc as [Fc Nc]. rewrite Hcor, Nc, (HF c Hc Fc). reflexivity.
Qed.

Lemma incl_isort : forall {A} (cmp : A -> A -> comparison) l, incl (isort cmp l) l.
Proof. intros A cmp l x Hx. apply (Permutation_in x (isort_perm cmp l) Hx). Qed.

Lemma flat_corder : forall e, flatb e = true -> flatb (fst (corder e)) = true.
Proof.
  induction e using cexpr_ind'; intro F; [reflexivity | |].
  - rewrite corder_CAnd. unfold corder_node. simpl fst.
    apply (flat_node_pass corder BAnd l); auto using is_cor_corder.
    eapply incl_tran; [apply dedupe_incl | apply incl_isort].
  - rewrite corder_COr. unfold corder_node. simpl fst.
    apply (flat_node_pass corder BOr l); auto using is_cor_corder.
    eapply incl_tran; [apply dedupe_incl | apply incl_isort].
Qed.

Lemma flat_cabsorb : forall e, flatb e = true -> flatb (fst (cabsorb e)) = true.
Proof.
  induction e using cexpr_ind'; intro F; [reflexivity | |].
  - rewrite cabsorb_CAnd. unfold cabsorb_node. simpl fst.
    apply (flat_node_pass cabsorb BAnd l); auto using is_cor_cabsorb. apply remove_marked_incl.
  - rewrite cabsorb_COr. unfold cabsorb_node. simpl fst.
    apply (flat_node_pass cabsorb BOr l); auto using is_cor_cabsorb. apply remove_marked_incl.
Qed.

Lemma flat_csimplify : forall e, flatb (fst (csimplify e)) = true.
Proof.
  intro e. unfold csimplify.
  pose proof (flat_cflatten e) as H1. destruct (cflatten e) as [e1 c1]. simpl in H1.
  pose proof (flat_corder e1 H1) as H2. destruct (corder e1) as [e2 c2]. simpl in H2.
  pose proof (flat_cabsorb e2 H2) as H3. destruct (cabsorb e2) as [e3 c3]. exact H3.
Qed.

Lemma flat_csettle : forall fuel e e' ch, csettle fuel e = Ok (e', ch) -> flatb e' = true.
Proof.
  intros fuel e e' ch E. unfold csettle, settle in E.
  apply (settle_loop_post (fun a => flatb a = true) (fun y => Ok (csimplify y))) in E; auto.
  intros a a' c Ea. inversion Ea. pose proof (flat_csimplify a) as Hs. rewrite H0 in Hs. exact Hs.
Qed.

(* ------------------------------------------------------------------ *)
(* SpecialValueCanonicalization                                        *)

Lemma fold_cp_idem : forall c, fold_cp (fold_cp c) = fold_cp c.
Proof.
  intro c. unfold fold_cp.
  destruct ((65 <=? c) && (c <=? 90))%N eqn:E1.
  - apply andb_true_iff in E1. destruct E1 as [A B]. apply N.leb_le in A. apply N.leb_le in B.
    replace ((65 <=? c + 32) && (c + 32 <=? 90))%N with false
      by (symmetry; apply andb_false_iff; right; apply N.leb_gt; lia).
    replace ((192 <=? c + 32) && (c + 32 <=? 222) && negb (c + 32 =? 215))%N with false; [reflexivity|].
    symmetry. apply andb_false_iff. left. apply andb_false_iff. left. apply N.leb_gt. lia.
  - destruct ((192 <=? c) && (c <=? 222) && negb (c =? 215))%N eqn:E2.
    + apply andb_true_iff in E2. destruct E2 as [E2 _]. apply andb_true_iff in E2. destruct E2 as [A B].
      apply N.leb_le in A. apply N.leb_le in B.
      replace ((65 <=? c + 32) && (c + 32 <=? 90))%N with false
        by (symmetry; apply andb_false_iff; right; apply N.leb_gt; lia).
      replace ((192 <=? c + 32) && (c + 32 <=? 222) && negb (c + 32 =? 215))%N with false; [reflexivity|].
      symmetry. apply andb_false_iff. left. apply andb_false_iff. right. apply N.leb_gt. lia.
    + rewrite E1, E2. reflexivity.
Qed.

Lemma lower_is_casefold : forall s, lower s = casefold s.
Proof. reflexivity. Qed.

Lemma casefold_idem : forall s, casefold (casefold s) = casefold s.
Proof. induction s; simpl; [reflexivity|]. rewrite fold_cp_idem, IHs. reflexivity. Qed.

Lemma nibble_fold : forall c, nibble (fold_cp c) = nibble c.
Proof.
  intro c. unfold fold_cp.
  destruct ((65 <=? c) && (c <=? 90))%N eqn:E1.
  - apply andb_true_iff in E1. destruct E1 as [A B]. apply N.leb_le in A. apply N.leb_le in B.
    unfold nibble.
    replace ((48 <=? c + 32) && (c + 32 <=? 57))%N with false by (symmetry; apply andb_false_iff; right; apply N.leb_gt; lia).
    replace ((65 <=? c + 32) && (c + 32 <=? 70))%N with false by (symmetry; apply andb_false_iff; right; apply N.leb_gt; lia).
    replace ((48 <=? c) && (c <=? 57))%N with false by (symmetry; apply andb_false_iff; right; apply N.leb_gt; lia).
    replace (65 <=? c)%N with true by (symmetry; apply N.leb_le; lia).
    replace (97 <=? c + 32)%N with true by (symmetry; apply N.leb_le; lia).
    replace (97 <=? c)%N with false by (symmetry; apply N.leb_gt; lia).
    simpl. destruct (c <=? 70)%N eqn:E70.
    + apply N.leb_le in E70. replace (c + 32 <=? 102)%N with true by (symmetry; apply N.leb_le; lia). lia.
    + apply N.leb_gt in E70. replace (c + 32 <=? 102)%N with false by (symmetry; apply N.leb_gt; lia). reflexivity.
  - destruct ((192 <=? c) && (c <=? 222) && negb (c =? 215))%N eqn:E2; [|reflexivity].
    apply andb_true_iff in E2. destruct E2 as [E2 _]. apply andb_true_iff in E2. destruct E2 as [A B].
    apply N.leb_le in A. apply N.leb_le in B. unfold nibble.
    replace ((48 <=? c + 32) && (c + 32 <=? 57))%N with false by (symmetry; apply andb_false_iff; right; apply N.leb_gt; lia).
    replace ((65 <=? c + 32) && (c + 32 <=? 70))%N with false by (symmetry; apply andb_false_iff; right; apply N.leb_gt; lia).
    replace ((97 <=? c + 32) && (c + 32 <=? 102))%N with false by (symmetry; apply andb_false_iff; right; apply N.leb_gt; lia).
    replace ((48 <=? c) && (c <=? 57))%N with false by (symmetry; apply andb_false_iff; right; apply N.leb_gt; lia).
    replace ((65 <=? c) && (c <=? 70))%N with false by (symmetry; apply andb_false_iff; right; apply N.leb_gt; lia).
    replace ((97 <=? c) && (c <=? 102))%N with false by (symmetry; apply andb_false_iff; right; apply N.leb_gt; lia).
    reflexivity.
Qed.

Lemma hex_decode_fold : forall s, hex_decode (casefold s) = hex_decode s.
Proof.
  fix IH 1. intros [|a [|b r]]; try reflexivity.
  simpl. rewrite !nibble_fold. f_equal. apply IH.
Qed.

(* the model's path classifier agrees with the specification's *)
Lemma special_kind_reg : forall t p, special_kind t p = SpReg -> regkey_path t p = true.
Proof.
  intros t p E. unfold special_kind in E. unfold regkey_path.
  destruct (ustr_eqb t (u "windows-registry-key")) eqn:Et.
  - simpl. destruct (path_is1 p "key" || path_is_values_name p) eqn:Ep; [|discriminate].
    unfold path_is1, path_is_values_name in Ep.
    destruct p as [|a [|i [|b [|? ?]]]]; simpl in Ep; try discriminate; rewrite ?orb_false_r in Ep; exact Ep.
  - destruct (ustr_eqb t (u "ipv4-addr")); [destruct (path_is1 p "value"); discriminate|].
    destruct (ustr_eqb t (u "ipv6-addr")); [destruct (path_is1 p "value"); discriminate|]. discriminate.
Qed.

Lemma special_kind_ip : forall t p v6, special_kind t p = SpIp v6 -> regkey_path t p = false.
Proof.
  intros t p v6 E. unfold special_kind in E. unfold regkey_path.
  destruct (ustr_eqb t (u "windows-registry-key")) eqn:Et; [|reflexivity].
  destruct (path_is1 p "key" || path_is_values_name p); discriminate.
Qed.

Lemma special_kind_none : forall t p, special_kind t p = SpNone -> regkey_path t p = false.
Proof.
  intros t p E. unfold special_kind in E. unfold regkey_path.
  destruct (ustr_eqb t (u "windows-registry-key")) eqn:Et; [|reflexivity].
  simpl. destruct (path_is1 p "key" || path_is_values_name p) eqn:Ep; [discriminate|].
  unfold path_is1, path_is_values_name in Ep.
  destruct p as [|a [|i [|b [|? ?]]]]; simpl in *; try reflexivity; rewrite ?orb_false_r in Ep; exact Ep.
Qed.

Lemma special_kind_ip4 : forall t p, special_kind t p = SpIp false -> ip4_path t p = true.
Proof.
  intros t p E. unfold special_kind in E. unfold ip4_path.
  destruct (ustr_eqb t (u "windows-registry-key")); [destruct (path_is1 p "key" || path_is_values_name p); discriminate|].
  destruct (ustr_eqb t (u "ipv4-addr")) eqn:E4.
  - simpl. unfold path_is1 in E. destruct p as [|k [|? ?]]; try discriminate E.
    destruct (step_is_key k "value") eqn:Ek; [exact Ek | discriminate E].
  - destruct (ustr_eqb t (u "ipv6-addr")); [destruct (path_is1 p "value"); discriminate | discriminate].
Qed.

Lemma special_kind_not_ip4 : forall t p, special_kind t p <> SpIp false -> regkey_path t p = false -> ip4_path t p = false.
Proof.
  intros t p E Hr. unfold special_kind in E. unfold ip4_path.
  destruct (ustr_eqb t (u "windows-registry-key")) eqn:Ew.
  - (* the type is windows-registry-key, not ipv4-addr *)
    apply PatternEqDnf.ustr_eqb_eq in Ew. subst t. reflexivity.
  - destruct (ustr_eqb t (u "ipv4-addr")) eqn:E4; [|reflexivity]. simpl.
    unfold path_is1 in E. destruct p as [|k [|? ?]]; try reflexivity.
    destruct (step_is_key k "value") eqn:Ek; [exfalso; apply E; reflexivity | exact Ek].
Qed.

(* the canonicalisation that applies to an atom under a variant *)
Definition eff_kind (v : variant) (a : atom) : sp_kind :=
  match v_regex v with
  | KeepRegex => if is_matches (a_op a) then SpNone else special_kind (a_type a) (a_path a)
  | LowerRegex => special_kind (a_type a) (a_path a)
  end.

(* atoms on which a defective variant of the special-value pass changes the meaning:
   LowerRegex rewrites the regular expression of MATCHES (lower-cased on a registry-key path,
   replaced by a canonical address on an IP path); Unguarded lower-cases the base64 text of a
   binary constant on a registry-key path.  safe_atom says that nothing of the kind happens. *)
Definition safe_atom (v : variant) (a : atom) : bool :=
  match eff_kind v a, a_rhs a with
  | SpReg, KP (PStr s) => if is_matches (a_op a) then ustr_eqb (lower s) s else true
  | SpIp v6, KP (PStr s) =>
    if is_matches (a_op a) then match ip_canon v6 s with CanonTo s' => ustr_eqb s' s | _ => true end else true
  | SpReg, KP (PBin s) => match v_special v with Guarded => true | Unguarded => ustr_eqb (lower s) s end
  | _, _ => true
  end.

Fixpoint safe_c (v : variant) (e : cexpr0) : bool :=
  match e with
  | Atom0 a => safe_atom v a
  | And0 l => forallb (safe_c v) l
  | Or0 l => forallb (safe_c v) l
  | Paren0 e' => safe_c v e'
  end.

Fixpoint safe_o (v : variant) (e : oexpr0) : bool :=
  match e with
  | Obs0 c => safe_c v c
  | OAnd0 l => forallb (safe_o v) l
  | OOr0 l => forallb (safe_o v) l
  | OFby0 l => forallb (safe_o v) l
  | OQual0 e' _ => safe_o v e'
  | OParen0 e' => safe_o v e'
  end.

Definition repaired : variant := mkVariant Guarded KeepRegex.

Lemma safe_atom_repaired : forall a, safe_atom repaired a = true.
Proof.
  intro a. unfold safe_atom, eff_kind, repaired. simpl.
  destruct (is_matches (a_op a)); [reflexivity|].
  destruct (special_kind (a_type a) (a_path a)); try reflexivity; destruct (a_rhs a) as [[]|]; reflexivity.
Qed.

Fixpoint cexpr0_ind' (P : cexpr0 -> Prop)
         (HA : forall a, P (Atom0 a))
         (HAnd : forall l, Forall P l -> P (And0 l))
         (HOr : forall l, Forall P l -> P (Or0 l))
         (HP : forall e, P e -> P (Paren0 e)) (e : cexpr0) {struct e} : P e :=
  let go := fix go (l : list cexpr0) : Forall P l :=
              match l with
              | [] => Forall_nil P
              | x :: r => Forall_cons x (cexpr0_ind' P HA HAnd HOr HP x) (go r)
              end in
  match e with
  | Atom0 a => HA a
  | And0 l => HAnd l (go l)
  | Or0 l => HOr l (go l)
  | Paren0 e' => HP e' (cexpr0_ind' P HA HAnd HOr HP e')
  end.

Fixpoint oexpr0_ind' (P : oexpr0 -> Prop)
         (HObs : forall c, P (Obs0 c))
         (HAnd : forall l, Forall P l -> P (OAnd0 l))
         (HOr : forall l, Forall P l -> P (OOr0 l))
         (HFby : forall l, Forall P l -> P (OFby0 l))
         (HQ : forall e q, P e -> P (OQual0 e q))
         (HP : forall e, P e -> P (OParen0 e)) (e : oexpr0) {struct e} : P e :=
  let go := fix go (l : list oexpr0) : Forall P l :=
              match l with
              | [] => Forall_nil P
              | x :: r => Forall_cons x (oexpr0_ind' P HObs HAnd HOr HFby HQ HP x) (go r)
              end in
  match e with
  | Obs0 c => HObs c
  | OAnd0 l => HAnd l (go l)
  | OOr0 l => HOr l (go l)
  | OFby0 l => HFby l (go l)
  | OQual0 e' q => HQ e' q (oexpr0_ind' P HObs HAnd HOr HFby HQ HP e')
  | OParen0 e' => HP e' (oexpr0_ind' P HObs HAnd HOr HFby HQ HP e')
  end.

Lemma safe_c_repaired : forall e, safe_c repaired e = true.
Proof.
  induction e using cexpr0_ind'; simpl; auto using safe_atom_repaired;
    apply forallb_forall; apply Forall_forall; assumption.
Qed.

Lemma safe_o_repaired : forall e, safe_o repaired e = true.
Proof.
  induction e using oexpr0_ind'; simpl; auto using safe_c_repaired;
    apply forallb_forall; apply Forall_forall; assumption.
Qed.

Section NormSound.
  Variable obj : Type.
  Variable otype : obj -> ustring.
  Variable H : ustring -> list step -> cop -> bool -> dconst -> obj -> bool.
  Hypothesis Hden : respects_denotation obj H.
  Hypothesis Hcidr : respects_cidr6 obj H.

  Notation asem := (asem obj otype H).
  Notation csem := (csem obj otype H).
  Notation csem0 := (csem0 obj otype H).

  Lemma asem_same_den : forall a a' x,
      a_type a' = a_type a -> a_path a' = a_path a -> a_op a' = a_op a -> a_neg a' = a_neg a ->
      den_atom a' = den_atom a -> asem a' x = asem a x.
  Proof. intros a a' x Et Ep Eo En Ed. unfold PatternSemantics.asem. rewrite Et, Ep, Eo, En, Ed. reflexivity. Qed.

  Lemma ip_strict_none : forall m v6 s t, special_text m (SpIp v6) true s = Ok t -> t = None.
  Proof.
    intros m v6 s t E. unfold special_text in E. destruct (ip_canon v6 s) as [| |s']; try (inversion E; reflexivity).
    - destruct m; inversion E; reflexivity.
    - destruct (ustr_eqb s' s); inversion E; reflexivity.
  Qed.

  Definition set_rhs (a : atom) (k : const) : atom := mkAtom (a_type a) (a_path a) (a_op a) (a_neg a) k.

  (* the canonical address text denotes the same value in the context of the atom *)
  Lemma ip_text_sound : forall v6 m a s t x,
      special_kind (a_type a) (a_path a) = SpIp v6 -> a_rhs a = KP (PStr s) ->
      (is_matches (a_op a) = true -> match ip_canon v6 s with CanonTo s' => s' = s | _ => True end) ->
      special_text m (SpIp v6) false s = Ok t ->
      asem (match t with Some s' => set_rhs a (KP (PStr s')) | None => a end) x = asem a x.
  Proof.
    intros v6 m a s t x Ek Er Hm Et. pose proof (special_kind_ip _ _ _ Ek) as Hnreg.
    unfold special_text in Et. destruct (ip_canon v6 s) as [| |s'] eqn:Ec.
    - destruct m; inversion Et. reflexivity.
    - inversion Et. reflexivity.
    - inversion Et. unfold PatternSemantics.asem, set_rhs. simpl. f_equal.
      unfold den_atom. simpl. rewrite Er, Hnreg.
      destruct (is_matches (a_op a)) eqn:Em.
      + rewrite (Hm eq_refl). reflexivity.
      + destruct v6.
        * (* IPv6: hypothesis on H *)
          assert (E4 : ip4_path (a_type a) (a_path a) = false)
            by (apply special_kind_not_ip4; [rewrite Ek; discriminate | exact Hnreg]).
          rewrite E4. apply (Hcidr _ _ _ _ s s' x Ek Em Ec).
        * (* IPv4: the canonical text denotes the same network *)
          rewrite (special_kind_ip4 _ _ Ek).
          rewrite (ip4_canon_preserves_net s s' Ec).
          destruct (ip4_canon_to_has_net s s' Ec) as [[ad n] En]. rewrite En. reflexivity.
  Qed.

  Lemma special_atom_eff : forall v a,
      special_atom v a =
      let kind := eff_kind v a in
      match kind with
      | SpNone => Ok a
      | _ =>
        match a_rhs a with
        | KP (PStr s) =>
          t <- special_text (v_special v) kind false s ;;
          Ok (match t with Some s' => set_rhs a (KP (PStr s')) | None => a end)
        | KP (PHex s) =>
          match v_special v with
          | Guarded => Ok a
          | Unguarded => t <- special_text (v_special v) kind true s ;;
                         Ok (match t with Some s' => set_rhs a (KP (PHex s')) | None => a end)
          end
        | KP (PBin s) =>
          match v_special v with
          | Guarded => Ok a
          | Unguarded => t <- special_text (v_special v) kind true s ;;
                         Ok (match t with Some s' => set_rhs a (KP (PBin s')) | None => a end)
          end
        | _ => match v_special v with Unguarded => Err EAttribute | Guarded => Ok a end
        end
      end.
  Proof. intros v a. unfold special_atom, eff_kind, set_rhs. destruct (v_regex v); reflexivity. Qed.

  Lemma eff_kind_some : forall v a k, eff_kind v a = k -> k <> SpNone -> special_kind (a_type a) (a_path a) = k.
  Proof.
    intros v a k E Hk. unfold eff_kind in E. destruct (v_regex v); [exact E|].
    destruct (is_matches (a_op a)); [congruence | exact E].
  Qed.

  (* special_sound *)
  Lemma special_atom_sound : forall v a a' x,
      safe_atom v a = true -> special_atom v a = Ok a' -> asem a' x = asem a x.
  Proof.
    intros v a a' x Hs E. rewrite special_atom_eff in E. cbv zeta in E. unfold safe_atom in Hs.
    destruct (eff_kind v a) as [| |v6] eqn:Ee.
    - inversion E; reflexivity.
    - (* registry key *)
      pose proof (eff_kind_some v a SpReg Ee ltac:(discriminate)) as Ek.
      pose proof (special_kind_reg _ _ Ek) as Hreg.
      destruct (a_rhs a) as [[z|m e|s|b|t|s|s]|l] eqn:Er;
        try (destruct (v_special v); inversion E; reflexivity).
      + (* string: lower-cased *)
        simpl in E. inversion E. apply asem_same_den; try reflexivity. unfold den_atom, set_rhs. simpl. rewrite Er, Hreg.
        destruct (is_matches (a_op a)) eqn:Em.
        * apply PatternEqDnf.ustr_eqb_eq in Hs. rewrite Hs. reflexivity.
        * exact (f_equal (fun z => DP (DStr z)) (casefold_idem s)).
      + (* hex: the lower-cased text denotes the same bytes *)
        destruct (v_special v); simpl in E; inversion E; [|reflexivity].
        apply asem_same_den; try reflexivity. unfold den_atom, set_rhs. simpl. rewrite Er. simpl.
        exact (f_equal (fun z => DP (DHex z)) (hex_decode_fold s)).
      + (* binary: only when lower-casing leaves the text alone *)
        destruct (v_special v) eqn:Es; simpl in E; inversion E; [|reflexivity].
        apply PatternEqDnf.ustr_eqb_eq in Hs.
        apply asem_same_den; try reflexivity. unfold den_atom, set_rhs. simpl. rewrite Er. simpl. rewrite Hs. reflexivity.
    - (* IP address *)
      pose proof (eff_kind_some v a (SpIp v6) Ee ltac:(discriminate)) as Ek.
      destruct (a_rhs a) as [[z|m e|s|b|t|s|s]|l] eqn:Er;
        try (destruct (v_special v); inversion E; reflexivity).
      + apply bind_ok in E. destruct E as [t [Et E]]. inversion E; subst a'.
        apply (ip_text_sound v6 (v_special v) a s t x Ek Er); [|exact Et].
        intro Em. rewrite Em in Hs. destruct (ip_canon v6 s); auto. apply PatternEqDnf.ustr_eqb_eq in Hs. exact Hs.
      + destruct (v_special v); [|inversion E; reflexivity].
        apply bind_ok in E. destruct E as [t [Et E]]. rewrite (ip_strict_none _ _ _ _ Et) in E. inversion E; reflexivity.
      + destruct (v_special v); [|inversion E; reflexivity].
        apply bind_ok in E. destruct E as [t [Et E]]. rewrite (ip_strict_none _ _ _ _ Et) in E. inversion E; reflexivity.
  Qed.

  Lemma cspecial_sound : forall v e0 e,
      safe_c v e0 = true -> cspecial v e0 = Ok e -> forall x, csem e x = csem0 e0 x.
  Proof.
    induction e0 using cexpr0_ind'; intros e Hs E x; unfold PatternSemantics.csem0 in *.
    - simpl in E. apply bind_ok in E. destruct E as [a' [Ea E]]. inversion E; subst e. simpl.
      apply (special_atom_sound v a a' x Hs Ea).
    - simpl in E. apply bind_ok in E. destruct E as [l' [El E]]. inversion E; subst e. simpl.
      apply mapM_Forall2 in El. simpl in Hs. rewrite forallb_forall in Hs. rewrite Forall_forall in H0.
      symmetry. apply (Forall2_forallb (fun c => csem c x) (fun c => csem c x)).
      clear E. revert Hs H0. induction El as [|c0 c l0 l1 Ec _ IHl]; intros Hs H0; simpl; constructor.
      + symmetry. apply (H0 c0 (or_introl eq_refl) c (Hs c0 (or_introl eq_refl)) Ec x).
      + apply IHl; [intros y Hy; apply Hs; right; exact Hy | intros y Hy; apply H0; right; exact Hy].
    - simpl in E. apply bind_ok in E. destruct E as [l' [El E]]. inversion E; subst e. simpl.
      apply mapM_Forall2 in El. simpl in Hs. rewrite forallb_forall in Hs. rewrite Forall_forall in H0.
      symmetry. apply (Forall2_existsb (fun c => csem c x) (fun c => csem c x)).
      clear E. revert Hs H0. induction El as [|c0 c l0 l1 Ec _ IHl]; intros Hs H0; simpl; constructor.
      + symmetry. apply (H0 c0 (or_introl eq_refl) c (Hs c0 (or_introl eq_refl)) Ec x).
      + apply IHl; [intros y Hy; apply Hs; right; exact Hy | intros y Hy; apply H0; right; exact Hy].
    - simpl in E. simpl in Hs. simpl. apply (IHe0 e Hs E x).
  Qed.

  (* the comparison-level normaliser *)
  Lemma cnormalize_sound : forall v fuel e0 e ch,
      safe_c v e0 = true -> cnormalize v fuel e0 = Ok (e, ch) -> forall x, csem e x = csem0 e0 x.
  Proof.
    intros v fuel e0 e ch Hs E x. unfold cnormalize in E.
    apply bind_ok in E. destruct E as [e1 [E1 E]].
    apply bind_ok in E. destruct E as [[e2 c2] [E2 E]].
    apply bind_ok in E. destruct E as [[e3 c3] [E3 E]].
    apply bind_ok in E. destruct E as [[e4 c4] [E4 E]]. inversion E; subst e.
    rewrite (csettle_sound obj otype H Hden fuel e3 e4 c4 E4 x).
    destruct (cdnf_flat obj otype H fuel e2 e3 c3 (flat_csettle _ _ _ _ E2) E3) as [S3 _]. rewrite S3.
    rewrite (csettle_sound obj otype H Hden fuel e1 e2 c2 E2 x).
    apply (cspecial_sound v e0 e1 Hs E1 x).
  Qed.
End NormSound.

(* Proofs/PatternEqNorm.v -- the whole comparison-level normaliser
   (NormalizeComparisonExpressionsTransformer.__comp_normalize =
   special values, settle(flatten, order, absorb), DNF, settle) preserves the
   meaning of a comparison expression.                                     *)
From Coq Require Import NArith ZArith List Bool Permutation Lia String.
From V Require Import Base.UString Model.PatternEq Spec.PatternSemantics Proofs.PatternEqCmp Proofs.PatternEqLists
     Proofs.PatternEqC Proofs.PatternEqDnf.
Import ListNotations.

(* ------------------------------------------------------------------ *)
(* flatness: the settle loop hands DNF an expression with no OR directly under an OR *)

Lemma is_cor_mkb : forall o l, is_cor (mkb o l) = match o with BOr => true | BAnd => false end.
Proof. destruct o; reflexivity. Qed.

Lemma ops_of_none_or : forall e, ops_of BOr e = None -> is_cor e = false.
Proof. destruct e; simpl; intro E; try reflexivity; discriminate. Qed.

Lemma flat_cflatten_ops_and : forall l, Forall (fun c => flatb c = true) l ->
                                         Forall (fun c => flatb c = true) (fst (cflatten_ops BAnd l)).
Proof.
  induction 1 as [|c l Hc _ IH]; [constructor|]. cbn [cflatten_ops].
  destruct (cflatten_ops BAnd l) as [r' ch]. cbn [fst] in IH.
  destruct (ops_of BAnd c) as [xs|] eqn:Eo; cbn [fst].
  - apply ops_of_some in Eo. subst c. simpl in Hc. apply Forall_app. split; [apply Forall_forall; apply forallb_forall; exact Hc | exact IH].
  - constructor; assumption.
Qed.

Lemma flat_cflatten_ops_or : forall l, Forall (fun c => flatb c = true) l ->
                                        Forall (fun c => flatb c && negb (is_cor c) = true) (fst (cflatten_ops BOr l)).
Proof.
  induction 1 as [|c l Hc _ IH]; [constructor|]. cbn [cflatten_ops].
  destruct (cflatten_ops BOr l) as [r' ch]. cbn [fst] in IH.
  destruct (ops_of BOr c) as [xs|] eqn:Eo; cbn [fst].
  - apply ops_of_some in Eo. subst c. simpl in Hc. apply Forall_app. split; [apply Forall_forall; apply forallb_forall; exact Hc | exact IH].
  - constructor; [|exact IH]. rewrite Hc, (ops_of_none_or _ Eo). reflexivity.
Qed.

Lemma flat_cflatten : forall e, flatb (fst (cflatten e)) = true.
Proof.
  induction e using cexpr_ind'; [reflexivity | |].
  - rewrite cflatten_CAnd.
    assert (HF : Forall (fun c => flatb c = true) (map fst (map cflatten l))).
    { rewrite map_map. apply Forall_map. exact H. }
    unfold cflatten_node. destruct (map fst (map cflatten l)) as [|c [|c' r]] eqn:El.
    + reflexivity.
    + simpl. inversion HF; assumption.
    + pose proof (flat_cflatten_ops_and _ HF) as HH. destruct (cflatten_ops BAnd (c :: c' :: r)) as [l' ch]. simpl in *.
      apply forallb_forall. apply Forall_forall. exact HH.
  - rewrite cflatten_COr.
    assert (HF : Forall (fun c => flatb c = true) (map fst (map cflatten l))).
    { rewrite map_map. apply Forall_map. exact H. }
    unfold cflatten_node. destruct (map fst (map cflatten l)) as [|c [|c' r]] eqn:El.
    + reflexivity.
    + simpl. inversion HF; assumption.
    + pose proof (flat_cflatten_ops_or _ HF) as HH. destruct (cflatten_ops BOr (c :: c' :: r)) as [l' ch]. simpl in *.
      apply forallb_forall. apply Forall_forall. exact HH.
Qed.

Lemma is_cor_corder : forall e, is_cor (fst (corder e)) = is_cor e.
Proof. destruct e; reflexivity. Qed.

Lemma is_cor_cabsorb : forall e, is_cor (fst (cabsorb e)) = is_cor e.
Proof. destruct e; reflexivity. Qed.

(* a pass that maps children and then keeps a sub-collection of them preserves flatness *)
Lemma flat_node_pass : forall (pass : cexpr -> cexpr * bool) o l l',
    (forall c, is_cor (fst (pass c)) = is_cor c) ->
    Forall (fun c => flatb c = true -> flatb (fst (pass c)) = true) l ->
    incl l' (map fst (map pass l)) ->
    flatb (mkb o l) = true -> flatb (mkb o l') = true.
Proof.
  intros pass o l l' Hcor HF Hincl F.
  assert (HP : forall c', In c' l' -> exists c, In c l /\ c' = fst (pass c)).
  { intros c' Hc'. apply Hincl in Hc'. rewrite map_map in Hc'. apply in_map_iff in Hc'. destruct Hc' as [c [<- Hc]]. exists c. auto. }
  rewrite Forall_forall in HF.
  destruct o; simpl in *; apply forallb_forall; intros c' Hc'; destruct (HP c' Hc') as [c [Hc ->]];
    rewrite forallb_forall in F; pose proof (F c Hc) as Fc.
  - apply HF; assumption.
  - apply andb_true_iff in Fc. destruct Fc as [Fc Nc]. rewrite Hcor, Nc, (HF c Hc Fc). reflexivity.
Qed.

Lemma incl_isort : forall {A} (cmp : A -> A -> comparison) l, incl (isort cmp l) l.
Proof. intros A cmp l x Hx. apply (Permutation_in x (isort_perm cmp l) Hx). Qed.

Lemma flat_corder : forall e, flatb e = true -> flatb (fst (corder e)) = true.
Proof.
  induction e using cexpr_ind'; intro F; [reflexivity | |].
  - rewrite corder_CAnd. unfold corder_node. simpl fst.
    apply (flat_node_pass corder BAnd l); auto using is_cor_corder.
    eapply incl_tran; [apply dedupe_incl | apply incl_isort].
  - rewrite corder_COr. unfold corder_node. simpl fst.
    apply (flat_node_pass corder BOr l); auto using is_cor_corder.
    eapply incl_tran; [apply dedupe_incl | apply incl_isort].
Qed.

Lemma flat_cabsorb : forall e, flatb e = true -> flatb (fst (cabsorb e)) = true.
Proof.
  induction e using cexpr_ind'; intro F; [reflexivity | |].
  - rewrite cabsorb_CAnd. unfold cabsorb_node. simpl fst.
    apply (flat_node_pass cabsorb BAnd l); auto using is_cor_cabsorb. apply remove_marked_incl.
  - rewrite cabsorb_COr. unfold cabsorb_node. simpl fst.
    apply (flat_node_pass cabsorb BOr l); auto using is_cor_cabsorb. apply remove_marked_incl.
Qed.

Lemma flat_csimplify : forall e, flatb (fst (csimplify e)) = true.
Proof.
  intro e. unfold csimplify.
  pose proof (flat_cflatten e) as H1. destruct (cflatten e) as [e1 c1]. simpl in H1.
  pose proof (flat_corder e1 H1) as H2. destruct (corder e1) as [e2 c2]. simpl in H2.
  pose proof (flat_cabsorb e2 H2) as H3. destruct (cabsorb e2) as [e3 c3]. exact H3.
Qed.

Lemma flat_csettle : forall fuel e e' ch, csettle fuel e = Ok (e', ch) -> flatb e' = true.
Proof.
  intros fuel e e' ch E. unfold csettle, settle in E.
  apply (settle_loop_post (fun a => flatb a = true) (fun y => Ok (csimplify y))) in E; auto.
  intros a a' c Ea. inversion Ea. pose proof (flat_csimplify a) as Hs. rewrite H0 in Hs. exact Hs.
Qed.

(* Proofs/C15Proofs.v -- lemmas behind Props/C15.v *)
From Coq Require Import ZArith NArith List Bool Lia.
From V Require Import Base.UString Model.Calendar Model.Timestamp Spec.TimestampSpec.
Import ListNotations.
Open Scope Z_scope.

Definition sp (p : precision) : sprecision := match p with PAny => SAny | PSecond => SSecond | PMilli => SMilli end.
Definition sc (c : pconstraint) : sconstraint := match c with CExact => SExact | CMin => SMin end.

Lemma unit_pos : forall p c, 0 < unit_of p c.
Proof. intros [] []; cbn; lia. Qed.

Lemma floor_le_lemma : forall p c t,
  floor_to p c t <= t < floor_to p c t + unit_of p c /\ (floor_to p c t) mod unit_of p c = 0.
Proof.
  intros p c t. unfold floor_to. pose proof (unit_pos p c) as H.
  pose proof (Z.mod_pos_bound t (unit_of p c) H) as B. split; [lia|].
  rewrite Zminus_mod, Zmod_mod, Z.sub_diag. apply Z.mod_0_l. lia.
Qed.

Lemma floor_monotone_lemma : forall p c t1 t2, t1 <= t2 -> floor_to p c t1 <= floor_to p c t2.
Proof.
  intros p c t1 t2 H. unfold floor_to. pose proof (unit_pos p c) as U.
  rewrite !Zmod_eq by lia.
  pose proof (Z.div_le_mono t1 t2 (unit_of p c) U H). nia.
Qed.

(* Proofs/C15Proofs.v -- lemmas behind Props/C15.v *)
From Coq Require Import String ZArith NArith List Bool Lia.
From V Require Import Base.UString Model.Calendar Model.Timestamp Spec.TimestampSpec
  Proofs.CalendarFacts Proofs.TimestampFacts Proofs.StrptimeFacts.
Import ListNotations.
Open Scope list_scope. Open Scope Z_scope.

Ltac Zify.zify_post_hook ::= Z.to_euclidean_division_equations.

(* ---- truncation ---- *)
Lemma unit_pos : forall p c, 0 < unit_of p c.
Proof. intros [] []; cbn; lia. Qed.

Lemma unit_cases : forall p c, unit_of p c = 1 \/ unit_of p c = 1000 \/ unit_of p c = 1000000.
Proof. intros [] []; cbn; auto. Qed.

Lemma floor_le_lemma : forall p c t,
  floor_to p c t <= t < floor_to p c t + unit_of p c /\ (floor_to p c t) mod unit_of p c = 0.
Proof.
  intros p c t. unfold floor_to. pose proof (unit_pos p c) as H.
  pose proof (Z.mod_pos_bound t (unit_of p c) H) as B. split; [lia|].
  rewrite Zminus_mod, Zmod_mod, Z.sub_diag. apply Z.mod_0_l. lia.
Qed.

Lemma floor_monotone_lemma : forall p c t1 t2, t1 <= t2 -> floor_to p c t1 <= floor_to p c t2.
Proof.
  intros p c t1 t2 H. unfold floor_to. pose proof (unit_pos p c) as U.
  rewrite !Zmod_eq by lia.
  pose proof (Z.div_le_mono t1 t2 (unit_of p c) U H). nia.
Qed.

Lemma floor_idem : forall p c t, floor_to p c (floor_to p c t) = floor_to p c t.
Proof.
  intros p c t. pose proof (floor_le_lemma p c t) as [_ M]. unfold floor_to at 1. rewrite M. lia.
Qed.

Lemma floor_in_range : forall p c t, in_range t = true -> in_range (floor_to p c t) = true.
Proof.
  intros p c t R. unfold in_range, max_instant in *. apply andb_true_iff in R as [R0 R1].
  apply Z.leb_le in R0. apply Z.ltb_lt in R1. apply andb_true_iff.
  unfold floor_to. destruct (unit_cases p c) as [E|[E|E]]; rewrite E; split; try apply Z.leb_le; try apply Z.ltb_lt; lia.
Qed.

(* shifting by a multiple of the unit commutes with truncation *)
Lemma floor_shift : forall p c t o, o mod unit_of p c = 0 -> floor_to p c (t - o) = floor_to p c t - o.
Proof.
  intros p c t o H. unfold floor_to. destruct (unit_cases p c) as [E|[E|E]]; rewrite E in *; lia.
Qed.

(* the model's "ensure correct precision" step is the specification's truncation *)
Lemma stored_trunc_floor : forall p c t, stored_trunc p c t = floor_to (sp p) (sc c) t.
Proof.
  intros [] [] t; cbn [stored_trunc sp sc]; unfold floor_to; cbn [unit_of]; lia.
Qed.

(* ---- the written text depends on the instant only through its truncation ---- *)
Lemma floor_divmod : forall u k t, 0 < u -> 0 < k ->
  (t - t mod u) / (k * u) = t / (k * u) /\
  (t - t mod u) mod (k * u) = t mod (k * u) - (t mod (k * u)) mod u.
Proof.
  intros u k t Hu Hk. set (D := k * u). assert (HD : 0 < D) by (unfold D; nia).
  assert (E : t mod u = (t mod D) mod u).
  { apply Znumtheory.Zmod_div_mod; try assumption. exists k. reflexivity. }
  pose proof (Z.div_mod t D ltac:(lia)) as DM.
  pose proof (Z.mod_pos_bound t D HD) as B.
  pose proof (Z.mod_pos_bound (t mod D) u Hu) as B2.
  pose proof (Z.mod_le (t mod D) u ltac:(lia) Hu) as B3.
  assert (EQ : t - t mod u = D * (t / D) + (t mod D - (t mod D) mod u)) by (rewrite E; lia).
  split.
  - symmetry. apply (Z.div_unique_pos _ _ _ (t mod D - (t mod D) mod u)); [lia|exact EQ].
  - symmetry. apply (Z.mod_unique_pos _ _ (t / D)); [lia|exact EQ].
Qed.

Lemma fields_of_floor : forall u t, (u = 1 \/ u = 1000 \/ u = 1000000) ->
  fields_of (t - t mod u) =
  let f := fields_of t in
  mkFields (f_year f) (f_month f) (f_day f) (f_hour f) (f_min f) (f_sec f) (f_us f - f_us f mod u).
Proof.
  intros u t U. unfold fields_of. cbv zeta.
  assert (Hu : 0 < u) by lia.
  assert (Kd : exists k, 0 < k /\ us_per_day = k * u).
  { unfold us_per_day. destruct U as [->|[->| ->]]; [exists 86400000000|exists 86400000|exists 86400]; split; reflexivity. }
  assert (Ks : exists k, 0 < k /\ us_per_sec = k * u).
  { unfold us_per_sec. destruct U as [->|[->| ->]]; [exists 1000000|exists 1000|exists 1]; split; reflexivity. }
  destruct Kd as (kd & Hkd & Ed). destruct Ks as (ks & Hks & Es).
  destruct (floor_divmod u kd t Hu Hkd) as [D R]. rewrite <- Ed in D, R.
  rewrite D, R. destruct (civil_of_days (t / us_per_day)) as [[y m] d].
  cbn [f_year f_month f_day f_hour f_min f_sec f_us].
  set (r := t mod us_per_day).
  destruct (floor_divmod u ks r Hu Hks) as [S M]. rewrite <- Es in S, M.
  rewrite S, M. reflexivity.
Qed.

Lemma frac_digits_floor : forall p c us, 0 <= us < 1000000 ->
  frac_digits p c (us - us mod unit_of (sp p) (sc c)) = frac_digits p c us.
Proof.
  intros p c us B. destruct p, c; cbn [sp sc unit_of]; rewrite ?Z.mod_1_r, ?Z.sub_0_r; try reflexivity.
  cbn [frac_digits digitsn firstn].
  change (10 ^ Z.of_nat 5) with 100000. change (10 ^ Z.of_nat 4) with 10000. change (10 ^ Z.of_nat 3) with 1000.
  set (x := us - us mod 1000).
  assert (E5 : x / 100000 mod 10 = us / 100000 mod 10) by (unfold x; lia).
  assert (E4 : x / 10000 mod 10 = us / 10000 mod 10) by (unfold x; lia).
  assert (E3 : x / 1000 mod 10 = us / 1000 mod 10) by (unfold x; lia).
  now rewrite E5, E4, E3.
Qed.

Lemma format_floor : forall ym p c t, in_range t = true ->
  format ym p c (floor_to (sp p) (sc c) t) = format ym p c t.
Proof.
  intros ym p c t R. unfold format, floor_to. rewrite fields_of_floor by apply unit_cases. cbv zeta.
  cbn [f_year f_month f_day f_hour f_min f_sec f_us].
  pose proof (fields_facts t R) as F. cbv zeta in F. destruct F as (_ & _ & _ & _ & _ & _ & Hus & _).
  rewrite frac_digits_floor; [reflexivity|]. rewrite Hus. lia.
Qed.

(* ---- canonical shape, what the text denotes, digit counts ---- *)
Lemma fmt_canonical_lemma : forall p c t, in_range t = true -> is_canonical (format Pad4 p c t) = true.
Proof.
  intros p c t R. pose proof (spec_read_format p c t R) as S. unfold spec_read in S. unfold is_canonical.
  destruct (read_shape (format Pad4 p c t)); [reflexivity|discriminate].
Qed.

Lemma fmt_canonical_refuted_lemma :
  exists t, in_range t = true /\ forall p c, is_canonical (format Unpadded p c t) = false.
Proof. exists (dt 999 1 2 3 4 5 0). split; [reflexivity|]. intros [] []; vm_compute; reflexivity. Qed.

Lemma fmt_denotes_lemma : forall p c t, in_range t = true ->
  exists rd, spec_read (format Pad4 p c t) = Some rd /\ denotes rd (floor_to (sp p) (sc c) t).
Proof.
  intros p c t R. eexists. split; [apply (spec_read_format p c t R)|].
  unfold denotes. pose proof (frac_scaled p c (t mod 1000000) ltac:(lia)) as F.
  set (ds := frac_digits p c (t mod 1000000)) in *.
  set (k := 10 ^ Z.of_nat (length ds)) in *.
  unfold floor_to.
  assert (E : t - t mod unit_of (sp p) (sc c)
              = t / 1000000 * 1000000 + (t mod 1000000 - (t mod 1000000) mod unit_of (sp p) (sc c))).
  { destruct (unit_cases (sp p) (sc c)) as [U|[U|U]]; rewrite U; lia. }
  rewrite E. rewrite Z.mul_add_distr_r, Z.mul_add_distr_r, <- F. ring.
Qed.

Lemma frac_length6 : forall p c us, (length (frac_digits p c us) <= 6)%nat.
Proof.
  intros p c us. pose proof (rstrip0_length (digitsn 6 us)) as L. rewrite digitsn_length in L.
  destruct p, c; cbn [frac_digits]; try (destruct (us =? 0); cbn [length]; lia).
  - rewrite firstn_length, digitsn_length. lia.
  - unfold ljust3. rewrite app_length, repeat_length. lia.
Qed.

Lemma fmt_digits_lemma : forall p c t, in_range t = true ->
  exists secs ds, spec_read (format Pad4 p c t) = Some (secs, ds) /\ digit_rule (sp p) (sc c) ds /\
                  (length ds <= 6)%nat.
Proof.
  intros p c t R. exists (t / 1000000), (frac_digits p c (t mod 1000000)).
  split; [apply (spec_read_format p c t R)|]. split; [apply frac_digit_rule; lia|apply frac_length6].
Qed.

(* a reading denotes at most one instant *)
Lemma denotes_unique : forall rd x y, denotes rd x -> denotes rd y -> x = y.
Proof.
  intros [secs ds] x y Hx Hy. unfold denotes in *.
  assert (K : 0 < 10 ^ Z.of_nat (length ds)) by (apply Z.pow_pos_nonneg; lia). nia.
Qed.

Lemma fmt_order_lemma : forall p c t1 t2 rd1 rd2 x1 x2, in_range t1 = true -> in_range t2 = true -> t1 <= t2 ->
  spec_read (format Pad4 p c t1) = Some rd1 -> spec_read (format Pad4 p c t2) = Some rd2 ->
  denotes rd1 x1 -> denotes rd2 x2 -> x1 <= x2.
Proof.
  intros p c t1 t2 rd1 rd2 x1 x2 R1 R2 L S1 S2 D1 D2.
  destruct (fmt_denotes_lemma p c t1 R1) as (r1 & E1 & F1). destruct (fmt_denotes_lemma p c t2 R2) as (r2 & E2 & F2).
  rewrite S1 in E1. rewrite S2 in E2. inversion E1; inversion E2; subst.
  rewrite (denotes_unique _ _ _ D1 F1), (denotes_unique _ _ _ D2 F2). now apply floor_monotone_lemma.
Qed.

(* ---- reading back with the library's own parser (strptime model) ---- *)
Lemma digitsn2_eq : forall v, digitsn 2 v = [v / 10 mod 10; v mod 10].
Proof. intros v. cbn [digitsn]. change (10 ^ Z.of_nat 1) with 10. change (10 ^ Z.of_nat 0) with 1. now rewrite Z.div_1_r. Qed.

Lemma digitsn4_eq : forall v, digitsn 4 v = [v / 1000 mod 10; v / 100 mod 10; v / 10 mod 10; v mod 10].
Proof.
  intros v. cbn [digitsn]. change (10 ^ Z.of_nat 3) with 1000. change (10 ^ Z.of_nat 2) with 100.
  change (10 ^ Z.of_nat 1) with 10. change (10 ^ Z.of_nat 0) with 1. now rewrite Z.div_1_r.
Qed.

Lemma mod10_isdigit : forall v, isdigit (v mod 10).
Proof. intros v. unfold isdigit. lia. Qed.

Lemma has_dot_text_of : forall ds, Forall isdigit ds -> has_dot (text_of ds) = false.
Proof.
  induction ds as [|d r IH]; intros F; [reflexivity|]. inversion F; subst.
  unfold has_dot, text_of in *. cbn [map existsb]. rewrite dchar_not_dot by assumption. now apply IH.
Qed.

Lemma has_dot_app : forall a b, has_dot (a ++ b)%list = has_dot a || has_dot b.
Proof. intros. unfold has_dot. apply existsb_app. Qed.

(* the microsecond value strptime recovers from the written fraction *)
Lemma frac_us_value : forall p c us, 0 <= us < 1000000 ->
  (match frac_digits p c us with
   | [] => 0
   | _ => digits_value (frac_digits p c us) 0 * 10 ^ Z.of_nat (6 - length (frac_digits p c us))
   end) = us - us mod unit_of (sp p) (sc c).
Proof.
  intros p c us B. pose proof (frac_scaled p c us B) as F. pose proof (frac_length6 p c us) as L.
  set (ds := frac_digits p c us) in *.
  assert (G : digits_value ds 0 * 10 ^ Z.of_nat (6 - length ds) = us - us mod unit_of (sp p) (sc c)).
  { assert (K : 0 < 10 ^ Z.of_nat (length ds)) by (apply Z.pow_pos_nonneg; lia).
    assert (P : 1000000 = 10 ^ Z.of_nat (6 - length ds) * 10 ^ Z.of_nat (length ds)).
    { rewrite <- Z.pow_add_r by lia. replace (Z.of_nat (6 - length ds) + Z.of_nat (length ds)) with 6 by lia. reflexivity. }
    rewrite P in F. nia. }
  destruct ds as [|d r] eqn:E; [cbn in G; lia|exact G].
Qed.

Lemma parse_format_lemma : forall p c t, in_range t = true ->
  parse_strptime (format Pad4 p c t) = Some (floor_to (sp p) (sc c) t).
Proof.
  intros p c t R. pose proof (fields_facts t R) as F. cbv zeta in F.
  destruct F as (Hy & V & Dn & Hh & Hmi & Hs & Hus & Hsecs).
  pose proof (valid_date_bounds _ _ _ V) as [Hm Hd].
  unfold parse_strptime.
  set (f := fields_of t) in *.
  set (frac := frac_digits p c (f_us f)).
  assert (FF : Forall isdigit frac) by apply frac_digits_isdigit.
  assert (Shape : format Pad4 p c t =
    dchar (f_year f / 1000 mod 10) :: dchar (f_year f / 100 mod 10) :: dchar (f_year f / 10 mod 10) :: dchar (f_year f mod 10) :: 45%N ::
    dchar (f_month f / 10 mod 10) :: dchar (f_month f mod 10) :: 45%N ::
    dchar (f_day f / 10 mod 10) :: dchar (f_day f mod 10) :: 84%N ::
    dchar (f_hour f / 10 mod 10) :: dchar (f_hour f mod 10) :: 58%N ::
    dchar (f_min f / 10 mod 10) :: dchar (f_min f mod 10) :: 58%N ::
    dchar (f_sec f / 10 mod 10) :: dchar (f_sec f mod 10) ::
    (match frac with [] => [] | _ => 46%N :: text_of frac end) ++ [90%N]).
  { unfold format, year_text, pad2. fold f. fold frac. rewrite digitsn4_eq, !digitsn2_eq. reflexivity. }
  assert (Dot : has_dot (format Pad4 p c t) = negb (is_nil frac)).
  { rewrite Shape. unfold has_dot. cbn [existsb]. rewrite !dchar_not_dot by apply mod10_isdigit.
    cbn [orb N.eqb Pos.eqb]. fold (has_dot ((match frac with [] => [] | _ => 46%N :: text_of frac end) ++ [90%N])).
    rewrite has_dot_app. destruct frac as [|d r]; [reflexivity|]. reflexivity. }
  rewrite Dot, Shape.
  rewrite regex_match_canonical; try apply mod10_isdigit; try assumption; try apply frac_length6; try lia.
  unfold frac. rewrite frac_us_value by lia.
  replace (((f_year f / 1000 mod 10 * 10 + f_year f / 100 mod 10) * 10 + f_year f / 10 mod 10) * 10 + f_year f mod 10)
    with (f_year f) by lia.
  replace (f_month f / 10 mod 10 * 10 + f_month f mod 10) with (f_month f) by lia.
  replace (f_day f / 10 mod 10 * 10 + f_day f mod 10) with (f_day f) by lia.
  replace (f_hour f / 10 mod 10 * 10 + f_hour f mod 10) with (f_hour f) by lia.
  replace (f_min f / 10 mod 10 * 10 + f_min f mod 10) with (f_min f) by lia.
  replace (f_sec f / 10 mod 10 * 10 + f_sec f mod 10) with (f_sec f) by lia.
  set (us' := f_us f - f_us f mod unit_of (sp p) (sc c)).
  assert (Bus : 0 <= us' < 1000000).
  { unfold us'. rewrite Hus. destruct (unit_cases (sp p) (sc c)) as [U|[U|U]]; rewrite U; lia. }
  assert (VF : valid_fields (f_year f) (f_month f) (f_day f) (f_hour f) (f_min f) (f_sec f) us' = true).
  { unfold valid_fields, us_per_sec. rewrite V.
    repeat (apply andb_true_iff; split); try apply Z.leb_le; try apply Z.ltb_lt; try reflexivity; lia. }
  rewrite VF. f_equal. unfold instant_of, floor_to, us', us_per_sec. rewrite Dn, Hsecs, Hus.
  destruct (unit_cases (sp p) (sc c)) as [U|[U|U]]; rewrite U; lia.
Qed.

(* ---- write . read . write ---- *)
Lemma write_instant : forall p c t, in_range t = true ->
  format_dt Pad4 p c (stored_trunc p c t) (Some 0) = Ok (format Pad4 p c t).
Proof.
  intros p c t R. unfold format_dt. rewrite Z.sub_0_r, stored_trunc_floor, floor_in_range by assumption.
  now rewrite format_floor.
Qed.

Lemma fmt_fixpoint_lemma : forall nm p c t, in_range t = true ->
  write nm Pad4 p c (InStr (format Pad4 p c t)) = Ok (format Pad4 p c t).
Proof.
  intros nm p c t R. unfold write, parse_into. rewrite parse_format_lemma by assumption.
  rewrite write_instant by (now apply floor_in_range). now rewrite format_floor.
Qed.

(* ---- every accepted input: the text written is that of the UTC instant ---- *)
Lemma valid_fields_in_range : forall y m d hh mm ss us, valid_fields y m d hh mm ss us = true ->
  in_range (instant_of y m d hh mm ss us) = true.
Proof.
  intros y m d hh mm ss us V. unfold valid_fields, us_per_sec in V.
  repeat (apply andb_true_iff in V as [V ?]). rewrite ?Z.leb_le, ?Z.ltb_lt in *.
  match goal with H : valid_date _ _ _ = true |- _ => pose proof (valid_date_within_year _ _ _ H) as W end.
  pose proof (days_before_year_mono 1 y ltac:(lia)) as M1. change (days_before_year 1) with 0 in M1.
  pose proof (days_before_year_mono (y + 1) 10000 ltac:(lia)) as M2. change (days_before_year 10000) with 3652059 in M2.
  unfold in_range, max_instant, instant_of, us_per_sec. apply andb_true_iff; split; [apply Z.leb_le|apply Z.ltb_lt]; lia.
Qed.

Lemma parse_strptime_in_range : forall s t, parse_strptime s = Some t -> in_range t = true.
Proof.
  intros s t H. unfold parse_strptime in H.
  destruct (regex_match (has_dot s) s) as [[[[[[[[y m] d] hh] mm] ss] us] [|? ?]]|]; try discriminate.
  destruct (valid_fields y m d hh mm ss us) eqn:V; [|discriminate]. inversion H; subst. now apply valid_fields_in_range.
Qed.

Lemma write_string_lemma : forall nm p c s t, parse_strptime s = Some t ->
  write nm Pad4 p c (InStr s) = Ok (format Pad4 p c t) /\ in_range t = true.
Proof.
  intros nm p c s t H. pose proof (parse_strptime_in_range s t H) as R. split; [|exact R].
  unfold write, parse_into. rewrite H. now apply write_instant.
Qed.

Lemma write_string_rejected_lemma : forall nm p c s, parse_strptime s = None -> write nm Pad4 p c (InStr s) = Raise "ValueError"%string.
Proof. intros nm p c s H. unfold write, parse_into. now rewrite H. Qed.

Lemma write_date_lemma : forall nm p c y m d, valid_fields y m d 0 0 0 0 = true ->
  write nm Pad4 p c (InDate y m d) = Ok (format Pad4 p c (instant_of y m d 0 0 0 0)).
Proof.
  intros nm p c y m d V. unfold write, parse_into. apply write_instant. now apply valid_fields_in_range.
Qed.

(* datetime with an offset that is a multiple of the precision unit (every
   whole-second offset is): truncating the local fields, then converting to UTC,
   writes the text of the UTC instant                                        *)
Lemma write_aware_lemma : forall nm p c l o, in_range (l - o) = true -> o mod unit_of (sp p) (sc c) = 0 ->
  write nm Pad4 p c (InDatetime l (Some o)) = Ok (format Pad4 p c (l - o)).
Proof.
  intros nm p c l o R M. unfold write, parse_into, format_dt.
  rewrite stored_trunc_floor, <- floor_shift by assumption.
  rewrite floor_in_range by assumption. now rewrite format_floor.
Qed.

Lemma write_naive_lemma : forall nm p c l, in_range l = true ->
  write nm Pad4 p c (InDatetime l None) = Ok (format Pad4 p c l).
Proof.
  intros nm p c l R. destruct nm; unfold write, parse_into, format_dt; rewrite stored_trunc_floor.
  - now rewrite format_floor.
  - rewrite Z.sub_0_r, floor_in_range by assumption. now rewrite format_floor.
Qed.

Lemma whole_second_offset : forall p c o, o mod 1000000 = 0 -> o mod unit_of p c = 0.
Proof. intros p c o H. destruct (unit_cases p c) as [U|[U|U]]; rewrite U; lia. Qed.

Lemma write_overflow_lemma : forall nm ym p c l o, o mod unit_of (sp p) (sc c) = 0 -> in_range (l - o) = false ->
  in_range l = true -> write nm ym p c (InDatetime l (Some o)) = Raise "OverflowError"%string.
Proof.
  intros nm ym p c l o M R Rl. unfold write, parse_into, format_dt.
  rewrite stored_trunc_floor, <- floor_shift by assumption.
  assert (F : in_range (floor_to (sp p) (sc c) (l - o)) = false); [|now rewrite F].
  unfold in_range, max_instant, floor_to in *.
  apply andb_true_iff in Rl as [R0 R1]. apply Z.leb_le in R0. apply Z.ltb_lt in R1.
  apply andb_false_iff in R. apply andb_false_iff.
  destruct R as [R|R]; [left; apply Z.leb_gt; apply Z.leb_gt in R|right; apply Z.ltb_ge; apply Z.ltb_ge in R];
    destruct (unit_cases (sp p) (sc c)) as [U|[U|U]]; rewrite U in *; lia.
Qed.

(* the hypothesis on the offset is needed: a half-second offset at exact-second precision *)
Lemma subsecond_offset_counterexample :
  exists l o, in_range (l - o) = true /\ forall nm,
    write nm Pad4 PSecond CExact (InDatetime l (Some o)) <> Ok (format Pad4 PSecond CExact (l - o)).
Proof.
  exists (dt 2020 2 3 12 0 0 700000), 500000. split; [reflexivity|]. intros []; vm_compute; discriminate.
Qed.

(* two instants are written as the same text only if they truncate to the same instant *)
Lemma fmt_injective_lemma : forall p c t1 t2, in_range t1 = true -> in_range t2 = true ->
  format Pad4 p c t1 = format Pad4 p c t2 -> floor_to (sp p) (sc c) t1 = floor_to (sp p) (sc c) t2.
Proof.
  intros p c t1 t2 R1 R2 E.
  destruct (fmt_denotes_lemma p c t1 R1) as (r1 & S1 & D1). destruct (fmt_denotes_lemma p c t2 R2) as (r2 & S2 & D2).
  rewrite E in S1. rewrite S1 in S2. inversion S2; subst. now apply denotes_unique with r2.
Qed.

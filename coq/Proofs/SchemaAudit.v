(* Proofs/SchemaAudit.v -- the three audited rules added after the C02 soundness theorems were proved
   (Spec/StixValid.v: valid_kind_x / valid_obj_x; spec/audited_overrides.json: created <= modified):

     valid_x_sub            valid_obj_x is a strengthening of valid_obj (same fuel);
     refuted_b64            BinaryProperty with the lenient decoder (vr_b64_strict = false): a strict in-scope
                            construction succeeds and emits a payload_bin that is not RFC 4648 base64;
     refuted_dict_values    DictionaryProperty does not look at values (pinned and repaired variant alike): a null
                            inside a dictionary value is emitted;
     refuted_modified       class tables WITHOUT the created <= modified rule (strip_time_order lib: the tables
                            regenerated from the tree under test with that one constraint removed -- the identity
                            on a tree that does not have the rule): an object whose `modified` is earlier than its
                            `created` is constructed and emitted; the frozen specification tables refuse it.
   For the repaired variant / tables the model refuses the binary and the created/modified request (lemmas repaired_...).                    *)
From Coq Require Import NArith ZArith List String Bool Lia.
From V Require Import Base.UString Base.Json Model.SchemaTypes Model.PyBase Model.Schema Model.SchemaRun
     Spec.StixValid Spec.SchemaRefine Proofs.SchemaBasics Proofs.SchemaValidMono Proofs.SchemaScope Proofs.SchemaKnot Proofs.SchemaC02
     Gen.Tables Gen.SpecTables.
From V Require Model.Markings.
Import ListNotations.

(* ---- valid_obj_x strengthens valid_obj ---- *)
Section Sub.
  Variable sw : world.
  Variable pok : ver -> ustring -> bool.

  Lemma valid_x_sub n :
    (forall k j, valid_kind_x sw pok n k j = true -> valid_kind sw pok n k j = true) /\
    (forall c j, valid_obj_x sw pok n c j = true -> valid_obj sw pok n c j = true).
  Proof.
    induction n.
    - split; intros; discriminate.
    - destruct IHn as [IHk IHo]. split.
      + intros k j H.
        change (leaf_extra sw k j && valid_kind_body sw (valid_kind_x sw pok n) (valid_obj_x sw pok n) k j = true) in H.
        change (valid_kind_body sw (valid_kind sw pok n) (valid_obj sw pok n) k j = true).
        apply andb_true_iff in H. destruct H as [_ H]. revert H. apply valid_kind_body_mono; auto.
      + intros c j H.
        change (valid_obj_body sw (valid_kind_x sw pok n) (jconstr pok (S n)) c j && marking_match sw (valid_obj_x sw pok n) c j = true) in H.
        change (valid_obj_body sw (valid_kind sw pok n) (jconstr pok (S n)) c j = true).
        apply andb_true_iff in H. destruct H as [H _]. revert H. apply valid_obj_body_mono; auto.
  Qed.

  Lemma valid_obj_x_sub n c j : valid_obj_x sw pok n c j = true -> valid_obj sw pok n c j = true.
  Proof. apply (proj2 (valid_x_sub n)). Qed.
End Sub.

(* ---- refutation helpers ---- *)
Lemma forallb_false_of {A} (f : A -> bool) (l : list A) x : In x l -> f x = false -> forallb f l = false.
Proof.
  intros Hin Hx. apply not_true_is_false. intros T. rewrite forallb_forall in T. rewrite (T _ Hin) in Hx. discriminate.
Qed.

Lemma valid_obj_body_false_of_member sw vk jc oc c mem k v s :
  find_class (wclasses sw) oc = Some c -> In (k, v) mem ->
  find (fun s => ustr_eqb (sname s) k) (cslots c) = Some s ->
  vk (skind s) v = false ->
  valid_obj_body sw vk jc oc (JObj mem) = false.
Proof.
  intros Hc Hin Hs Hv. unfold valid_obj_body. rewrite Hc.
  erewrite forallb_false_of; [reflexivity | exact Hin |]. simpl. rewrite Hs. exact Hv.
Qed.

Lemma valid_obj_body_false_of_constraint sw vk jc oc c mem k :
  find_class (wclasses sw) oc = Some c -> In k (ccons c) -> jc c mem k = false ->
  valid_obj_body sw vk jc oc (JObj mem) = false.
Proof.
  intros Hc Hin Hk. unfold valid_obj_body. rewrite Hc.
  erewrite (forallb_false_of (jc c mem)); [apply andb_false_r | apply in_or_app; right; exact Hin | exact Hk].
Qed.

Lemma valid_obj_x_false_of_member sw pok m oc c mem k v s :
  find_class (wclasses sw) oc = Some c -> In (k, v) mem ->
  find (fun s => ustr_eqb (sname s) k) (cslots c) = Some s ->
  valid_kind_x sw pok m (skind s) v = false ->
  valid_obj_x sw pok (S m) oc (JObj mem) = false.
Proof.
  intros Hc Hin Hs Hv.
  change (valid_obj_body sw (valid_kind_x sw pok m) (jconstr pok (S m)) oc (JObj mem) && marking_match sw (valid_obj_x sw pok m) oc (JObj mem) = false).
  erewrite valid_obj_body_false_of_member; eauto.
Qed.

Lemma valid_obj_false_of_constraint sw pok m oc c mem k :
  find_class (wclasses sw) oc = Some c -> In k (ccons c) -> jconstr pok (S m) c mem k = false ->
  valid_obj sw pok (S m) oc (JObj mem) = false.
Proof.
  intros Hc Hin Hk.
  change (valid_obj_body sw (valid_kind sw pok m) (jconstr pok (S m)) oc (JObj mem) = false).
  eapply valid_obj_body_false_of_constraint; eauto.
Qed.

Definition refuted_x_by (vr : variant) (w : world) (req : request) : Prop :=
  req_strict req = true /\ req_scope req = true /\
  exists oc inner dfl,
    run vr sentinel_env w witness_pok witness_sok 6 req = Ok (PObject oc inner dfl false) /\
    forall m, valid_obj_x spec witness_pok m oc (encode false (PObject oc inner dfl false)) = false.

(* ---- binary ---- *)
Definition vr_b64_lenient : variant :=
  {| vr_hex_z := true; vr_key_z := true; vr_sel_z := true; vr_hash_z := true; vr_interop_z := true;
     vr_uuid_canon := true; vr_year_pad := true; vr_sel_upper := true; vr_ref_flip_unreg := true;
     vr_parse_guard_custom := true; vr_ext_scan_guard := true; vr_detect_default := true; vr_d2s_ext_guard := true;
     vr_toplevel_needs_slot := true; vr_ext_nonempty := true; vr_marking_flag := true;
     vr_flag_from_stored := true; vr_sock_int := true; vr_positional_none := true; vr_bundle20_recheck := true;
     vr_md20_default_ms := true; vr_ext_order_sorted := true;
     vr_b64_strict := false; vr_detect_notype_parse := true |}.

(* "aGVs bG8=": a space inside the text; the lenient decoder skips it *)
Definition req_b64 : request :=
  RConstruct (u "2.1/Artifact") false false [(u "payload_bin", JStr (u "aGVs bG8="))] None.

Lemma refuted_b64 : refuted_x_by vr_b64_lenient lib req_b64.
Proof.
  split; [reflexivity|]. split; [reflexivity|]. do 3 eexists. split; [vm_compute; reflexivity|].
  intros m. destruct m; [reflexivity|].
  eapply valid_obj_x_false_of_member with (k := u "payload_bin");
    [vm_compute; reflexivity | simpl; tauto | vm_compute; reflexivity |].
  destruct m; reflexivity.
Qed.

Lemma repaired_b64 : run variant_repaired sentinel_env lib witness_pok witness_sok 6 req_b64 = Err EInvalidValue.
Proof. vm_compute. reflexivity. Qed.

(* ---- dictionary values ---- *)
Definition req_dict_null : request :=
  RConstruct (u "2.1/Process") false false [(u "pid", JInt 1%Z); (u "environment_variables", JObj [(u "PATH", JNull)])] None.

(* neither the pinned nor the fully repaired variant of the model refuses it: DictionaryProperty does not look
   at the values (no variant field: no repair is proposed) *)
Lemma refuted_dict_values : refuted_x_by variant_repaired lib req_dict_null /\ refuted_x_by variant_pinned lib req_dict_null.
Proof.
  split.
  all: split; [reflexivity|]; split; [reflexivity|]; do 3 eexists; (split; [vm_compute; reflexivity|]).
  all: intros m; destruct m; [reflexivity|].
  all: eapply valid_obj_x_false_of_member with (k := u "environment_variables");
    [vm_compute; reflexivity | simpl; tauto | vm_compute; reflexivity |].
  all: destruct m; reflexivity.
Qed.


(* ---- created <= modified ---- *)
Definition time_order_rule : constr :=
  CRaiseIf (QAnd (QAnd (QIsNotNone (u "created")) (QIsNotNone (u "modified"))) (QLt (u "modified") (u "created"))) EInvalidValue.

Definition strip_time_order_class (c : cls) : cls :=
  {| cid := cid c; cver := cver c; ctype := ctype c; cfamily := cfamily c; cslots := cslots c;
     ccons := filter (fun k => negb (constr_eqb k time_order_rule)) (ccons c);
     cinit := cinit c; cidcontrib := cidcontrib c; cserialize_tlp := cserialize_tlp c |}.
Definition strip_time_order (w : world) : world :=
  {| wclasses := map strip_time_order_class (wclasses w);
     wreg20 := wreg20 w; wreg21 := wreg21 w; wtlp20 := wtlp20 w; wtlp21 := wtlp21 w |}.

Definition req_modified : request :=
  RConstruct (u "2.1/Identity") false false
             [(u "id", JStr (u "identity--8d1c5bdf-5a0e-4b8e-9a3c-1f2e3d4c5b6a")); (u "name", JStr (u "n"));
              (u "created", JStr (u "2016-01-02T00:00:00.000Z")); (u "modified", JStr (u "2016-01-01T00:00:00.000Z"))] None.

Definition refuted_tables_by (w : world) (req : request) : Prop :=
  req_strict req = true /\ req_scope req = true /\
  exists oc inner dfl,
    run variant_repaired sentinel_env w witness_pok witness_sok 6 req = Ok (PObject oc inner dfl false) /\
    forall m, valid_obj spec witness_pok m oc (encode false (PObject oc inner dfl false)) = false.

Lemma refuted_modified : refuted_tables_by (strip_time_order lib) req_modified.
Proof.
  split; [reflexivity|]. split; [reflexivity|]. do 3 eexists. split; [vm_compute; reflexivity|].
  intros m. destruct m; [reflexivity|].
  eapply valid_obj_false_of_constraint with (k := time_order_rule);
    [vm_compute; reflexivity | vm_compute; tauto | vm_compute; reflexivity].
Qed.

(* the specification tables state the rule for the class of the witness, and tables that carry it refuse the request *)
Lemma spec_states_time_order :
  forallb (fun c => negb (existsb (fun s => ustr_eqb (sname s) (u "created")) (cslots c) &&
                          existsb (fun s => ustr_eqb (sname s) (u "modified")) (cslots c) &&
                          negb (family_eqb (cfamily c) FSco))
                    || existsb (fun k => constr_eqb k time_order_rule) (ccons c)) (wclasses spec) = true.
Proof. vm_compute. reflexivity. Qed.

Lemma repaired_modified :
  run variant_repaired sentinel_env spec witness_pok witness_sok 6 req_modified = Err EInvalidValue.
Proof. vm_compute. reflexivity. Qed.

(* ---- the audited clauses are exactly leaf_extra and marking_match ----
   the generic knot with both clauses trivial IS valid_kind / valid_obj *)
Section Trivial.
  Variable sw : world.
  Variable pok : ver -> ustring -> bool.
  Notation le0 := (fun (_ : pkind) (_ : jvalue) => true).
  Notation mm0 := (fun (_ : ustring -> jvalue -> bool) (_ : ustring) (_ : jvalue) => true).

  Lemma bool_eq_of_iff (a b : bool) : (a = true -> b = true) -> (b = true -> a = true) -> a = b.
  Proof.
    destruct a, b; intros H1 H2; try reflexivity; [symmetry; apply H1; reflexivity | apply H2; reflexivity].
  Qed.

  Lemma valid_g_trivial n :
    (forall k j, valid_kind_g sw pok le0 mm0 n k j = valid_kind sw pok n k j) /\
    (forall c j, valid_obj_g sw pok le0 mm0 n c j = valid_obj sw pok n c j).
  Proof.
    induction n.
    - split; reflexivity.
    - destruct IHn as [IHk IHo]. split.
      + intros k j.
        change (true && valid_kind_body sw (valid_kind_g sw pok le0 mm0 n) (valid_obj_g sw pok le0 mm0 n) k j
                = valid_kind_body sw (valid_kind sw pok n) (valid_obj sw pok n) k j).
        rewrite andb_true_l.
        apply bool_eq_of_iff; apply valid_kind_body_mono; intros k0 j0 H0.
        * rewrite <- IHk. exact H0.
        * rewrite <- IHo. exact H0.
        * rewrite IHk. exact H0.
        * rewrite IHo. exact H0.
      + intros c j.
        change (valid_obj_body sw (valid_kind_g sw pok le0 mm0 n) (jconstr pok (S n)) c j && true
                = valid_obj_body sw (valid_kind sw pok n) (jconstr pok (S n)) c j).
        rewrite andb_true_r.
        apply bool_eq_of_iff; apply valid_obj_body_mono; try (intros c0 m0 k0 H0; exact H0); intros k0 j0 H0.
        * rewrite <- IHk. exact H0.
        * rewrite IHk. exact H0.
  Qed.
End Trivial.

(* ---- the binary clause is sound for the strict decoder (vr_b64_strict = true) ---- *)
Lemma b64char_not_pad c : is_b64char c = true -> (c =? 61)%N = false.
Proof.
  intros H. destruct (c =? 61)%N eqn:E; auto. apply N.eqb_eq in E. subst c. vm_compute in H. discriminate.
Qed.

Lemma b64_data_len_split s :
  exists data : ustring, s = (data ++ snd (b64_data_len s))%list /\ List.length data = fst (b64_data_len s) /\
               forallb is_b64char data = true.
Proof.
  induction s as [|c r IH].
  - exists []. simpl. auto.
  - simpl. destruct (is_b64char c) eqn:E.
    + destruct IH as (d & H1 & H2 & H3). exists (c :: d). simpl. rewrite E, H3, H2. repeat split; auto.
      f_equal. exact H1.
    + exists []. simpl. auto.
Qed.

Lemma forallb_rev {A} (f : A -> bool) (l : list A) : forallb f (rev l) = forallb f l.
Proof.
  induction l as [|x l IH]; simpl; auto. rewrite forallb_app. simpl. rewrite IH, andb_true_r. apply andb_comm.
Qed.

Lemma strip_pad_data d : forallb is_b64char d = true -> strip_pad (rev d) = rev d.
Proof.
  intros H. rewrite <- forallb_rev in H. destruct (rev d) as [|c r]; auto.
  simpl in H. apply andb_true_iff in H. destruct H as [Hc _]. simpl. rewrite (b64char_not_pad _ Hc). reflexivity.
Qed.

Lemma b64_strict_sound s : b64_strict s = true -> strict_base64 s = true.
Proof.
  unfold b64_strict, strict_base64. destruct (b64_data_len_split s) as (d & Hs & Hl & Hd).
  destruct (b64_data_len s) as [n rest]. cbn [fst snd] in *. intros H.
  destruct (Nat.modulo n 4) as [|[|[|[|m]]]] eqn:Em.
  - destruct rest; try discriminate. rewrite app_nil_r in Hs. subst s. rewrite Hl, Em. cbn [Nat.eqb andb].
    rewrite strip_pad_data; auto. rewrite forallb_rev. exact Hd.
  - destruct rest as [|c1 [|c2 [|c3 r]]]; discriminate.
  - destruct rest as [|c1 [|c2 [|c3 r]]]; try discriminate.
    apply andb_true_iff in H. destruct H as [H1 H2]. apply N.eqb_eq in H1. apply N.eqb_eq in H2. subst c1 c2 s.
    rewrite app_length, Hl. cbn [List.length].
    rewrite (Nat.add_mod n 2 4) by discriminate. rewrite Em. cbn [Nat.modulo Nat.eqb andb Nat.divmod fst snd Nat.sub Nat.add].
    rewrite rev_app_distr. cbn [rev app]. unfold strip_pad. rewrite !N.eqb_refl.
    replace (Nat.eqb ((2 + 2 mod 4) mod 4) 0) with true by reflexivity. cbn [andb].
    rewrite forallb_rev. exact Hd.
  - destruct rest as [|c1 [|c2 r]]; try discriminate.
    apply N.eqb_eq in H. subst c1 s.
    rewrite app_length, Hl. cbn [List.length].
    rewrite (Nat.add_mod n 1 4) by discriminate. rewrite Em.
    replace (Nat.eqb ((3 + 1 mod 4) mod 4) 0) with true by reflexivity. cbn [andb].
    rewrite rev_app_distr. cbn [rev app]. unfold strip_pad. rewrite N.eqb_refl.
    destruct (rev d) as [|c2 r2] eqn:Er; [reflexivity|].
    assert (Hc : is_b64char c2 = true).
    { rewrite <- forallb_rev, Er in Hd. simpl in Hd. apply andb_true_iff in Hd. tauto. }
    rewrite (b64char_not_pad _ Hc). rewrite <- Er, forallb_rev. exact Hd.
  - destruct rest as [|c1 [|c2 [|c3 r]]]; discriminate.
Qed.

Section BinaryClause.
  Variable vr : variant.
  Variables w sp : world.
  Variable pok : ver -> ustring -> bool.
  Variable rc : ustring -> bool -> bool -> list (ustring * jvalue) -> result pval.
  Variable rp : bool -> bool -> list (ustring * jvalue) -> result pval.
  Variable ro : ver -> list (ustring * ustring) -> bool -> list (ustring * jvalue) -> result pval.

  (* BinaryProperty.clean with the strict decoder only lets RFC 4648 text through: the binary clause of the audited
     validator holds of whatever it returns (any mode) *)
  Lemma binary_clause_sound_pf allow interop v pv hc n :
    vr_b64_strict vr = true ->
    clean_kind vr w rc rp ro KBinary allow interop v = Ok (pv, hc) ->
    hc = false /\ valid_kind_x sp pok (S n) KBinary (encode false pv) = true.
  Proof.
    intros Hs H. simpl in H. destruct v; try discriminate. rewrite Hs in H.
    destruct (all_ascii s && b64_strict s) eqn:E; try discriminate. inversion H; subst. split; auto.
    apply andb_true_iff in E. destruct E as [_ E].
    change (leaf_extra sp KBinary (JStr s) && valid_kind_body sp (valid_kind_x sp pok n) (valid_obj_x sp pok n) KBinary (JStr s) = true).
    simpl. rewrite (b64_strict_sound _ E). reflexivity.
  Qed.
End BinaryClause.

(* Proofs/FiltersInv.v -- the layout invariant holds after every history of
   FileSystemSink.add (fs_add / fs_build of Model/Filters.v), for objects whose
   id starts with their own type (Inv part (ii) of DESIGN 6/C12 is a hypothesis
   on the objects, parts (i) and the distinctness of names are established by
   the sink).                                                              *)
From Coq Require Import NArith ZArith List String Bool Permutation Lia.
From V Require Import Base.UString Model.Filters Spec.FilterSpec Proofs.FiltersBasics Proofs.FiltersOpt Proofs.FiltersFs.
Import ListNotations.

(* an object the sink can be given: a mapping with string type and id, the id
   starting with the type, and an id that is usable as a file name stem *)
Definition obj_wf (mode : ts_mode) (o : pv) : Prop :=
  exists ty idn, placed mode ty idn o /\ has_nondot idn = true.

Lemma add_version_file_in : forall fname o files files' x,
  add_version_file fname o files = Ok files' -> In x files' -> In x files \/ x = (fname, o).
Proof.
  induction files as [|[n o'] files IH]; simpl; intros files' x H Hx.
  - inversion H; subst. destruct Hx as [Hx | []]; auto.
  - destruct (ustr_eqb n fname); try discriminate.
    apply bind_ok in H. destruct H as [r [Hr H]]. inversion H; subst.
    destruct Hx as [Hx | Hx]; auto. destruct (IH _ _ Hr Hx); auto.
Qed.

Definition new_name (idn : ustring) (m : option pv) : ustring :=
  match m with Some _ => idn | None => (idn ++ dot_json)%list end.

Lemma add_entry_spec : forall mode d idn m o es es',
  add_entry idn m o es = Ok es' ->
  NoDup (map tname es) -> (forall e, In e es -> entry_ok mode d e) ->
  placed mode d idn o -> has_nondot idn = true ->
  NoDup (map tname es') /\ (forall e, In e es' -> entry_ok mode d e) /\
  (forall n, In n (map tname es') -> In n (map tname es) \/ n = new_name idn m).
Proof.
  intros mode d idn m o. induction es as [|e rest IH]; intros es' H Hnd Hok Hpl Hdot.
  - simpl in H. destruct m as [mv|].
    + apply bind_ok in H. destruct H as [fname [_ H]]. inversion H; subst. simpl. split; [|split].
      * repeat constructor. simpl. tauto.
      * intros e [<- | []]. simpl. intros fn o' [E | []] _. inversion E; subst. auto.
      * intros n [<- | []]. auto.
    + inversion H; subst. simpl. split; [|split].
      * repeat constructor. simpl. tauto.
      * intros e [<- | []]. simpl. intros stem Hs. apply app_inv_tail in Hs. subst stem. auto.
      * intros n [<- | []]. auto.
  - simpl in H. inversion Hnd as [|x l Hnot Hnd']; subst.
    assert (Hok' : forall e0, In e0 rest -> entry_ok mode d e0) by (intros; apply Hok; right; auto).
    destruct m as [mv|].
    + destruct (ustr_eqb (tname e) idn) eqn:E.
      * apply ustr_eqb_eq in E. destruct e as [n files | n o']; try discriminate. simpl in E. subst n.
        apply bind_ok in H. destruct H as [fname [_ H]]. apply bind_ok in H. destruct H as [files' [Hf H]].
        inversion H; subst. simpl. split; [|split].
        -- constructor; auto.
        -- intros e [<- | He]; [|apply Hok'; auto]. simpl. intros fn o' Hin Hv.
           destruct (add_version_file_in _ _ _ _ _ Hf Hin) as [Hold | Hnew].
           ++ assert (Hd := Hok (TDir idn files) (or_introl eq_refl)). simpl in Hd. eapply Hd; eauto.
           ++ inversion Hnew; subst. auto.
        -- intros n Hn. left. exact Hn.
      * apply bind_ok in H. destruct H as [r [Hr H]]. inversion H; subst.
        destruct (IH r Hr Hnd' Hok' Hpl Hdot) as [H1 [H2 H3]]. simpl. split; [|split].
        -- constructor; auto. intro Hin. destruct (H3 _ Hin) as [Hin' | Heq]; [contradiction|].
           simpl in Heq. rewrite Heq in E. rewrite ustr_eqb_refl in E. discriminate.
        -- intros e0 [<- | He0]; [apply Hok; left; auto | auto].
        -- intros n [<- | Hn]; [left; left; auto|]. destruct (H3 _ Hn) as [Hx | Hx]; [left; right; exact Hx | right; exact Hx].
    + destruct (ustr_eqb (tname e) (idn ++ dot_json)) eqn:E; try discriminate.
      apply bind_ok in H. destruct H as [r [Hr H]]. inversion H; subst.
      destruct (IH r Hr Hnd' Hok' Hpl Hdot) as [H1 [H2 H3]]. simpl. split; [|split].
      * constructor; auto. intro Hin. destruct (H3 _ Hin) as [Hin' | Heq]; [contradiction|].
        simpl in Heq. rewrite Heq in E. rewrite ustr_eqb_refl in E. discriminate.
      * intros e0 [<- | He0]; [apply Hok; left; auto | auto].
      * intros n [<- | Hn]; [left; left; auto|]. destruct (H3 _ Hn) as [Hx | Hx]; [left; right; exact Hx | right; exact Hx].
Qed.

Lemma add_in_type_dir_spec : forall mode ty idn m o t t',
  add_in_type_dir ty idn m o t = Ok t' ->
  Inv mode t -> placed mode ty idn o -> has_nondot idn = true ->
  Inv mode t' /\ (forall n, In n (map fst t') -> In n (map fst t) \/ n = ty).
Proof.
  intros mode ty idn m o. induction t as [|[d es] rest IH]; intros t' H [Hnd Hdirs] Hpl Hdot.
  - cbn [add_in_type_dir] in H. apply bind_ok in H. destruct H as [es' [He H]]. inversion H; subst.
    assert (Hnil : forall e, In e (@nil tentry) -> entry_ok mode ty e) by (intros e []).
    destruct (add_entry_spec mode ty idn m o [] es' He (NoDup_nil _) Hnil Hpl Hdot) as [H1 [H2 _]].
    split.
    + split; simpl; [repeat constructor; simpl; tauto|]. constructor; [|constructor]. split; auto.
    + intros n [<- | []]. auto.
  - cbn [add_in_type_dir] in H. inversion Hnd as [|x l Hnot Hnd']; subst. inversion Hdirs as [|x l Hd Hdirs']; subst.
    destruct (ustr_eqb d ty) eqn:E.
    + apply ustr_eqb_eq in E. subst d. apply bind_ok in H. destruct H as [es' [He H]]. inversion H; subst.
      destruct Hd as [Hd1 Hd2]. simpl in Hd1, Hd2.
      destruct (add_entry_spec mode ty idn m o es es' He Hd1 Hd2 Hpl Hdot) as [H1 [H2 _]].
      split.
      * split; simpl; [constructor; auto|]. constructor; auto. split; auto.
      * intros n Hn. left. exact Hn.
    + apply bind_ok in H. destruct H as [r [Hr H]]. inversion H; subst.
      destruct (IH r Hr (conj Hnd' Hdirs') Hpl Hdot) as [[H1 H2] H3]. split.
      * split; simpl.
        -- constructor; auto. intro Hin. destruct (H3 _ Hin) as [Hin' | Heq]; [contradiction|].
           subst d. rewrite ustr_eqb_refl in E. discriminate.
        -- constructor; auto.
      * intros n [<- | Hn]; [left; left; auto|]. destruct (H3 _ Hn) as [Hx | Hx]; [left; right; exact Hx | right; exact Hx].
Qed.

Lemma obj_get_dict : forall k m, obj_get k (VDict m) = plookup (u k) m.
Proof. reflexivity. Qed.

Theorem fs_add_preserves_Inv_lemma : forall mode t o t',
  Inv mode t -> obj_wf mode o -> fs_add t o = Ok t' -> Inv mode t'.
Proof.
  intros mode t o t' HInv [ty [idn [Hpl Hdot]]] H.
  assert (Hpl' := Hpl). destruct Hpl' as [m [-> [Ht [Hi _]]]].
  unfold fs_add in H. rewrite !obj_get_dict in H.
  change (u "type") with t_type in H. change (u "id") with t_id in H. rewrite Ht, Hi in H.
  eapply add_in_type_dir_spec; eauto.
Qed.

Lemma Inv_empty : forall mode, Inv mode [].
Proof. intro mode. split; constructor. Qed.

Theorem fs_build_Inv_lemma : forall mode objs t,
  Inv mode t -> Forall (obj_wf mode) objs -> Inv mode (fs_build t objs).
Proof.
  induction objs as [|o objs IH]; intros t HInv Hall; simpl; auto.
  inversion Hall; subst. apply IH; auto.
  destruct (fs_add t o) as [t'|e] eqn:E; auto. eapply fs_add_preserves_Inv_lemma; eauto.
Qed.

(* so: after any history of adds of such objects, the optimised query is the scan *)
Theorem built_tree_opt_sound : forall mode om objs fl r,
  Forall (obj_wf mode) objs -> tyid_wf om fl ->
  naive mode fl (fs_build [] objs) = Ok r ->
  exists r', fs_search mode om (fs_build [] objs) fl = Ok r' /\ Permutation r r'.
Proof.
  intros mode om objs fl r Hobjs Hwf Hn. eapply opt_sound_complete_lemma; eauto.
  apply fs_build_Inv_lemma; auto. apply Inv_empty.
Qed.

(* Proofs/C01Sort.v -- facts about the list helpers of Model/Schema.v that order custom property
   names: usort (insertion sort on code points) and udedup.                          *)
From Coq Require Import NArith ZArith List String Bool Lia Permutation Sorted.
From V Require Import Base.UString Base.Json Model.SchemaTypes Model.PyBase Model.Schema.
From V Require Import Proofs.C01Basics.
Import ListNotations.

Lemma ustr_compare_antisym : forall a b, ustr_compare a b = CompOpp (ustr_compare b a).
Proof.
  induction a as [| x a IH]; destruct b as [| y b]; cbn [ustr_compare CompOpp]; auto.
  rewrite (N.compare_antisym y x). destruct (N.compare y x); cbn [CompOpp]; auto.
Qed.

Lemma ustr_ltb_asym : forall a b, ustr_ltb a b = true -> ustr_ltb b a = false.
Proof.
  unfold ustr_ltb. intros a b H. rewrite (ustr_compare_antisym b a). destruct (ustr_compare a b); try discriminate. reflexivity.
Qed.

Lemma ustr_compare_eq : forall a b, ustr_compare a b = Eq -> a = b.
Proof.
  induction a as [| x a IH]; destruct b as [| y b]; cbn [ustr_compare]; intros H; try discriminate; auto.
  destruct (N.compare x y) eqn:E; try discriminate. apply N.compare_eq in E. subst. f_equal. apply IH. exact H.
Qed.

Lemma ustr_compare_trans_lt : forall a b c, ustr_compare a b = Lt -> ustr_compare b c = Lt -> ustr_compare a c = Lt.
Proof.
  induction a as [| x a IH]; destruct b as [| y b]; destruct c as [| z c]; cbn [ustr_compare]; intros H1 H2; try discriminate; auto.
  destruct (N.compare x y) eqn:E1; try discriminate.
  - apply N.compare_eq in E1. subst y. destruct (N.compare x z) eqn:E2; try discriminate; auto. eapply IH; eauto.
  - destruct (N.compare y z) eqn:E2; try discriminate.
    + apply N.compare_eq in E2. subst z. rewrite E1. reflexivity.
    + assert (E3 : N.compare x z = Lt). { apply N.compare_lt_iff. apply N.compare_lt_iff in E1. apply N.compare_lt_iff in E2. eapply N.lt_trans; eauto. }
      rewrite E3. reflexivity.
Qed.

(* weak order used by the sort: b is not below a *)
Definition ule (a b : ustring) : Prop := ustr_ltb b a = false.

Lemma ule_trans : forall a b c, ule a b -> ule b c -> ule a c.
Proof.
  unfold ule, ustr_ltb. intros a b c H1 H2.
  destruct (ustr_compare c a) eqn:E; auto. exfalso.
  (* c < a ; not b < a ; not c < b  => contradiction *)
  destruct (ustr_compare b a) eqn:E1; try discriminate.
  - apply ustr_compare_eq in E1. subst b. rewrite E in H2. discriminate.
  - (* a < b *) rewrite (ustr_compare_antisym b a) in E1. destruct (ustr_compare a b) eqn:E3; cbn [CompOpp] in E1; try discriminate.
    pose proof (ustr_compare_trans_lt c a b E E3) as E4. rewrite E4 in H2. discriminate.
Qed.

Lemma uinsert_perm : forall x l, Permutation (uinsert x l) (x :: l).
Proof.
  induction l as [| y r IH]; cbn [uinsert]; auto.
  destruct (ustr_ltb y x); auto. eapply perm_trans. apply perm_skip. apply IH. apply perm_swap.
Qed.

Lemma usort_perm : forall l, Permutation (usort l) l.
Proof.
  unfold usort. induction l as [| x r IH]; cbn [fold_right]; auto.
  eapply perm_trans. apply uinsert_perm. apply perm_skip. exact IH.
Qed.

Lemma uinsert_sorted : forall x l, Sorted ule l -> Sorted ule (uinsert x l).
Proof.
  induction l as [| y r IH]; intros S; cbn [uinsert].
  - constructor; constructor.
  - destruct (ustr_ltb y x) eqn:E.
    + inversion S; subst. constructor; auto.
      destruct r as [| z r']; cbn [uinsert].
      * constructor. unfold ule. apply ustr_ltb_asym. exact E.
      * destruct (ustr_ltb z x); constructor.
        -- inversion H2; subst. exact H0.
        -- unfold ule. apply ustr_ltb_asym. exact E.
    + constructor; auto; constructor; exact E.
Qed.

Lemma usort_sorted : forall l, Sorted ule (usort l).
Proof.
  unfold usort. induction l as [| x r IH]; cbn [fold_right]; [constructor |]. apply uinsert_sorted. exact IH.
Qed.

Lemma usort_sorted_id : forall l, Sorted ule l -> usort l = l.
Proof.
  unfold usort. induction l as [| x r IH]; intros S; cbn [fold_right]; auto.
  inversion S; subst. rewrite IH; auto. destruct r as [| y r']; cbn [uinsert]; auto.
  inversion H2; subst. unfold ule in H0. rewrite H0. reflexivity.
Qed.

Lemma usort_idem : forall l, usort (usort l) = usort l.
Proof. intros. apply usort_sorted_id. apply usort_sorted. Qed.

Lemma In_usort : forall x l, In x (usort l) <-> In x l.
Proof.
  intros. split; intros H.
  - eapply Permutation_in; [apply usort_perm | exact H].
  - eapply Permutation_in; [apply Permutation_sym; apply usort_perm | exact H].
Qed.

Lemma NoDup_usort : forall l, NoDup l -> NoDup (usort l).
Proof. intros l H. eapply Permutation_NoDup; [apply Permutation_sym; apply usort_perm | exact H]. Qed.

Lemma In_udedup : forall x l, In x (udedup l) <-> In x l.
Proof.
  induction l as [| y r IH]; cbn [udedup]; [tauto |].
  destruct (mem_ustr y r) eqn:E.
  - rewrite IH. split; intros H.
    + right. exact H.
    + destruct H as [H | H]; auto. subst. apply mem_ustr_In. exact E.
  - cbn [In]. rewrite IH. tauto.
Qed.

Lemma NoDup_udedup : forall l, NoDup (udedup l).
Proof.
  induction l as [| y r IH]; cbn [udedup]; [constructor |].
  destruct (mem_ustr y r) eqn:E; auto. constructor; auto.
  intros H. apply (proj1 (In_udedup y r)) in H. apply (proj2 (mem_ustr_In y r)) in H. rewrite H in E. discriminate.
Qed.

Lemma udedup_NoDup_id : forall l, NoDup l -> udedup l = l.
Proof.
  induction l as [| y r IH]; intros H; cbn [udedup]; auto. inversion H; subst.
  destruct (mem_ustr y r) eqn:E.
  - apply mem_ustr_In in E. contradiction.
  - f_equal. apply IH. exact H3.
Qed.
